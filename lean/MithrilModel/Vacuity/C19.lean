import MithrilModel.Properties.C19
/-!
# Vacuity audit of C19

For every property theorem of `Properties/C19.lean` that has hypotheses: a concrete instance (names
and contents are `Nat`) that satisfies ALL hypotheses at once — the theorem is APPLIED to it, so the
instance is checked against the very statement — and on which the interesting branch of the conclusion
is exercised (non-empty manifest, a move that really replaces something, a non-empty directory
removed, a clean-up that removes one entry and keeps another).

File systems are functions, so `f x = some fs'` is obtained as `fs' := (f x).get _`; all facts about
file systems are point-wise.
-/
namespace Vacuity.C19
open Restore.Full _root_.C19

/-- `o = some (o.get h)` — how the `… = some fs'` hypotheses are instantiated -/
theorem eqSomeGet {α : Type} (o : Option α) (h : o.isSome = true) : o = some (o.get h) :=
  (Option.some_get h).symm

def tmp : LPath Nat := [.nm 0, .nm 7]

/-! ## C19_ancillary_accept — the state that `run true cfg honestInput emptyDb` really passes to
`verifyAncillary` (immutable archives 1 and 2 unpacked, `mkdir` of the temporary directory, ancillary
archive unpacked into it) -/

def fsImm : FS Nat := (immutableTasks cfg honestInput emptyDb [1, 2]).1
def fs0 : FS Nat := (mkdir fsImm tmp).get (by decide)
def fsU : FS Nat := (unpackFirst tmp fs0 honestInput.ancillary).1

example : mkdir fsImm tmp = some fs0 := eqSomeGet _ _
example : (immutableTasks cfg honestInput emptyDb [1, 2]).2 = true ∧
    (unpackFirst tmp fs0 honestInput.ancillary).2 = true := by decide

/-- the hypothesis holds with a NON-EMPTY list of files -/
theorem accept_hyp : verifyAncillary true cfg honestInput fsU tmp = some [lp [2, 9]] := by decide

/-- … and the theorem applied to it yields a manifest with one entry, which is a regular file -/
example : ∃ c m, readFile fsU (tmp ++ [.nm cfg.manifestFile]) = some c ∧ honestInput.manifestOf c = some m ∧
      m.sig = Sig.ok ∧ [lp [2, 9]] = m.entries.map (·.1) ∧
      ∀ e ∈ m.entries, ∃ q, lstat fsU (tmp ++ e.1) = some (q, .file e.2) :=
  C19_ancillary_accept cfg honestInput fsU tmp [lp [2, 9]] accept_hyp

example : readFile fsU (tmp ++ [.nm cfg.manifestFile]) = some 500 ∧
    lstat fsU (tmp ++ lp [2, 9]) = some ([0, 7, 2, 9], .file 42) := by decide

/-- two entries (a second vouched file under `volatile/`) -/
def twoInput : Input Nat :=
  { honestInput with
    ancillary := [{ present := true, intact := true, entries := [ent [6] (.file 500), ent [2, 9] (.file 42), ent [3, 8] (.file 43)] }],
    manifestOf := fun c => if c = 500 then some { entries := [(lp [2, 9], 42), (lp [3, 8], 43)], sig := .ok } else none }

def fsU2 : FS Nat := (unpackFirst tmp fs0 twoInput.ancillary).1

theorem accept_hyp2 : verifyAncillary true cfg twoInput fsU2 tmp = some [lp [2, 9], lp [3, 8]] := by decide

example := C19_ancillary_accept cfg twoInput fsU2 tmp _ accept_hyp2

/-- the whole call on it -/
example : (run true cfg twoInput emptyDb).2 = true ∧
    (run true cfg twoInput emptyDb).1 [0, 2, 9] = some (.file 42) ∧
    (run true cfg twoInput emptyDb).1 [0, 3, 8] = some (.file 43) ∧
    (run true cfg twoInput emptyDb).1 [0, 7] = none := by decide

/-! ## C19_move_places_verified_file — both inner implications -/

def dstDb : LPath Nat := [.nm 0]

/-- branch 1 (`.missing`): the honest run, after `ensureParents` created `db/ledger` -/
def fsP : FS Nat := (ensureParents fsU dstDb [lp [2, 9]]).get (by decide)
def fsM : FS Nat := (rename fsP (tmp ++ lp [2, 9]) (dstDb ++ lp [2, 9])).get (by decide)

example : fsM [0, 2, 9] = some (.file 42) ∧ ∀ p, p ≠ [0, 2] ++ [9] → p ≠ [0, 7, 2, 9] → fsM p = fsP p :=
  (C19_move_places_verified_file fsP fsM (tmp ++ lp [2, 9]) (dstDb ++ lp [2, 9]) [0, 7, 2, 9] 42
    (by decide) (eqSomeGet _ _)).1 [0, 2] 9 (by decide)

/-- the move is not the identity: the destination was free, the source is gone -/
example : fsP [0, 2, 9] = none ∧ fsP [0, 7, 2, 9] = some (.file 42) ∧ fsM [0, 7, 2, 9] = none := by decide

/-- branch 2 (`.at d`, replaced): the mirror's immutable archive 2 has put a symbolic link at
`db/ledger/9` (to hostile content at `db/8/10`); the verified file REPLACES the link, nothing is
written through it -/
def replInput : Input Nat :=
  { honestInput with
    immutables := fun n =>
      if n = 1 then [{ present := true, intact := true, entries := trioEntries 1 }]
      else if n = 2 then [{ present := true, intact := true, entries := trioEntries 2 ++
        [ent [8, 10] (.file 666), ent [2, 9] (.symlink { abs := false, comps := [.up, .nm 8, .nm 10] })] }]
      else [] }

def fsImmR : FS Nat := (immutableTasks cfg replInput emptyDb [1, 2]).1
def fs0R : FS Nat := (mkdir fsImmR tmp).get (by decide)
def fsUR : FS Nat := (unpackFirst tmp fs0R replInput.ancillary).1
def fsPR : FS Nat := (ensureParents fsUR dstDb [lp [2, 9]]).get (by decide)
def fsMR : FS Nat := (rename fsPR (tmp ++ lp [2, 9]) (dstDb ++ lp [2, 9])).get (by decide)

example : verifyAncillary true cfg replInput fsUR tmp = some [lp [2, 9]] := by decide

example : fsMR [0, 2, 9] = some (.file 42) ∧ ∀ p, p ≠ [0, 2, 9] → p ≠ [0, 7, 2, 9] → fsMR p = fsPR p :=
  (C19_move_places_verified_file fsPR fsMR (tmp ++ lp [2, 9]) (dstDb ++ lp [2, 9]) [0, 7, 2, 9] 42
    (by decide) (eqSomeGet _ _)).2 [0, 2, 9] (by decide) (by decide) (by decide)

example : fsPR [0, 2, 9] = some (.link { abs := false, comps := [.up, .nm 8, .nm 10] }) ∧
    readFile fsPR (lp [0, 2, 9]) = some 666 ∧
    readFile fsMR (lp [0, 2, 9]) = some 42 ∧ fsMR [0, 8, 10] = some (.file 666) ∧
    fsMR [0, 7, 2, 9] = none := by decide

/-- the whole call on it -/
example : (run true cfg replInput emptyDb).2 = true ∧
    (run true cfg replInput emptyDb).1 [0, 2, 9] = some (.file 42) := by decide

/-- NOTE (weak conclusion): the property theorem leaves the source `s` unconstrained ("changes nothing
else" is stated for `p ≠ s`). The source is removed: -/
theorem rename_source_gone {ν : Type} [DecidableEq ν] (fs fs' : FS ν) (src dst : LPath ν) (s : List ν) (c : Nat)
    (hs : lstat fs src = some (s, .file c)) (h : rename fs src dst = some fs') :
    (∀ par nm, resolve fs false dst = .missing par nm → par ++ [nm] ≠ s → fs' s = none) ∧
    (∀ d, resolve fs false dst = .at d → d ≠ s → fs' s = none) := by
  refine ⟨fun par nm hd hne => ?_, fun d hd hne => ?_⟩
  · simp only [rename, hs, hd, Option.some.injEq] at h
    subst h
    simp [Restore.Full.insert, Restore.Full.remove, Ne.symm hne]
  · simp only [rename, hs, hd] at h
    cases hfd : fs d with
    | none =>
      simp only [hfd, hne, if_false, Option.some.injEq] at h
      subst h; simp [Restore.Full.insert, Restore.Full.remove, Ne.symm hne]
    | some n =>
      cases n with
      | dir => simp [hfd] at h
      | file c' =>
        simp only [hfd, hne, if_false, Option.some.injEq] at h
        subst h; simp [Restore.Full.insert, Restore.Full.remove, Ne.symm hne]
      | link t =>
        simp only [hfd, hne, if_false, Option.some.injEq] at h
        subst h; simp [Restore.Full.insert, Restore.Full.remove, Ne.symm hne]

/-! ## C19_ancillary_sound — two entries, a non-injective `H`, a hostile file already at one destination -/

def H7 : Nat → Nat := fun x => x % 7
def atmp : Restore.Path := [99]
def man2 : List (Restore.Path × Nat) := [([1, 7], 0), ([1, 8], 3)]
/-- `tmp/1/7 ↦ 42` (42 % 7 = 0), `tmp/1/8 ↦ 10` (10 % 7 = 3), and hostile content already at `1/7` -/
def afs : Restore.FS := fun p =>
  if p = [99, 1, 7] then some (.file 42)
  else if p = [99, 1, 8] then some (.file 10)
  else if p = [1, 7] then some (.file 666)
  else none

theorem sound_nodup : (man2.map (·.1)).Nodup := by decide
theorem sound_sep : Restore.Separated atmp (man2.map (·.1)) := by
  unfold Restore.Separated; decide
theorem sound_hv : Restore.verifyDataFixed H7 atmp afs man2 = true := by decide

example : ∀ e ∈ man2, (Restore.read (Restore.moveAll atmp afs (man2.map (·.1))) e.1).map H7 = some e.2 :=
  C19_ancillary_sound H7 atmp man2 afs sound_nodup sound_sep sound_hv

/-- the conclusion is about the MOVED state, which differs from the verified one at every path involved:
before the move the destination `1/7` reads as the hostile content (whose hash is NOT the vouched one),
`1/8` does not exist; afterwards they hold the verified files and the sources are gone. So `hv` (a
statement about `tmp ++ p` in `fs`) does not give the conclusion without the facts about `moveAll`. -/
example :
    (Restore.read afs [1, 7]).map H7 = some 1 ∧ Restore.read afs [1, 8] = none ∧
    Restore.moveAll atmp afs (man2.map (·.1)) [1, 7] = some (.file 42) ∧
    Restore.moveAll atmp afs (man2.map (·.1)) [1, 8] = some (.file 10) ∧
    Restore.moveAll atmp afs (man2.map (·.1)) [99, 1, 7] = none ∧
    Restore.moveAll atmp afs (man2.map (·.1)) [99, 1, 8] = none := by decide

/-- `Separated` is satisfiable for every manifest whose paths do not start with the first name of the
temporary directory (the real one is `ancillary-<random id>`), whatever their number -/
theorem separated_of_head (t : Nat) (tmp' : Restore.Path) (ps : List Restore.Path)
    (h : ∀ p ∈ ps, p.head? ≠ some t) : Restore.Separated (t :: tmp') ps := by
  intro p hp q _ heq
  exact h p hp (by rw [heq]; rfl)

/-- … and it is unsatisfiable exactly in the degenerate case of an empty temporary path -/
theorem separated_nil_iff (ps : List Restore.Path) : Restore.Separated [] ps ↔ ps = [] := by
  constructor
  · intro h
    cases ps with
    | nil => rfl
    | cons p r => exact absurd rfl (h p (by simp) p (by simp))
  · rintro rfl p hp; cases hp

/-- `Separated` is NEEDED (the hypothesis is not decoration): with `tmp ++ q` and `q` both vouched, the
first move overwrites the source of the second, and the restored `q` reads as the other file -/
def manBad : List (Restore.Path × Nat) := [([99, 5], 1), ([5], 2)]
def afsBad : Restore.FS := fun p =>
  if p = [99, 99, 5] then some (.file 1) else if p = [99, 5] then some (.file 2) else none

example : (manBad.map (·.1)).Nodup ∧ Restore.verifyDataFixed id atmp afsBad manBad = true ∧
    ¬ Restore.Separated atmp (manBad.map (·.1)) ∧
    (Restore.read (Restore.moveAll atmp afsBad (manBad.map (·.1))) [5]).map id = some 1 := by
  refine ⟨by decide, by decide, ?_, by decide⟩
  unfold Restore.Separated; decide

/-! ## C19_ancillary_failure_clean and C19_tmp_removed — the bad-signature run -/

def fsImmB : FS Nat := (immutableTasks cfg badSigInput emptyDb [1, 2]).1
def fs0B : FS Nat := (mkdir fsImmB [.nm cfg.db, .nm cfg.tmp]).get (by decide)
def fsUB : FS Nat := (unpackFirst [.nm cfg.db, .nm cfg.tmp] fs0B badSigInput.ancillary).1
def fsRB : FS Nat := (removeDirAll fsUB tmp).get (by decide)

/-- both hypotheses; the unpacking itself succeeded, so the failure IS the verification's -/
theorem failure_h0 : mkdir fsImmB [.nm cfg.db, .nm cfg.tmp] = some fs0B := eqSomeGet _ _
theorem failure_hv : verifyAncillary true cfg badSigInput
    (unpackFirst [.nm cfg.db, .nm cfg.tmp] fs0B badSigInput.ancillary).1 [.nm cfg.db, .nm cfg.tmp] = none := by decide
example : (unpackFirst [.nm cfg.db, .nm cfg.tmp] fs0B badSigInput.ancillary).2 = true := by decide

example : ancillaryTask true cfg badSigInput fsImmB = ((removeDirAll fsUB tmp).getD fsUB, false) :=
  C19_ancillary_failure_clean cfg badSigInput fsImmB fs0B failure_h0 failure_hv

/-- in this instance the `getD` does not hide a failing removal -/
theorem failure_removal_succeeds : removeDirAll fsUB tmp = some fsRB := eqSomeGet _ _

/-- C19_tmp_removed on it: the directory is NOT empty (manifest and the unpacked `ledger/9` are in it),
everything below it goes, the immutable files unpacked before stay -/
example : (∀ r, [0, 7].isPrefixOf r = true → fsRB r = none) ∧ (∀ r, [0, 7].isPrefixOf r = false → fsRB r = fsUB r) :=
  C19_tmp_removed fsUB fsRB tmp [0, 7] (by decide) failure_removal_succeeds

example : fsUB [0, 7, 6] = some (.file 500) ∧ fsUB [0, 7, 2, 9] = some (.file 42) ∧ fsUB [0, 7, 2] = some .dir ∧
    fsRB [0, 7] = none ∧ fsRB [0, 7, 6] = none ∧ fsRB [0, 7, 2, 9] = none ∧
    fsRB [0, 1, 110] = some (.file 12) ∧ fsRB [0, 2, 9] = none := by decide

/-! ## C19_immutable_dir_clean — `junkInput`: two junk names are removed, the trio files stay -/

def fsJ : FS Nat := (immutableTasks cfg junkInput emptyDb [1]).1
def expectedJ : List Nat := (numbersIn 0 2).flatMap cfg.trio
def fsJC : FS Nat := (cleanup cfg fsJ expectedJ).get (by decide)

example : (∀ n rest, fsJC ([0, 1] ++ n :: rest) ≠ none → n ∈ expectedJ) ∧
    (∀ p, [0, 1].isPrefixOf p = false → fsJC p = fsJ p) ∧ (∀ p x, fsJC p = some x → fsJ p = some x) :=
  C19_immutable_dir_clean cfg fsJ fsJC expectedJ [0, 1] (by decide) (eqSomeGet _ _)

example : fsJ [0, 1, 9] = some (.file 77) ∧ fsJ [0, 1, 130] = some (.file 78) ∧
    fsJC [0, 1, 9] = none ∧ fsJC [0, 1, 130] = none ∧
    fsJC [0, 1, 110] = some (.file 12) ∧ fsJC [0, 1, 111] = some (.file 13) ∧ fsJC [0, 1] = some .dir ∧
    9 ∉ expectedJ ∧ 110 ∈ expectedJ := by decide

/-! ## FINDING (getD) and its repair

`C19_ancillary_failure_clean` concludes with `(removeDirAll fs1 tmp).getD fs1`: if the removal failed the
temporary directory would silently stay (the Rust code only logs the error, so the `getD` is faithful),
and no existing theorem shows that it succeeds; `C19_tmp_removed` ASSUMES it (`h`) and that the path is
a directory (`hq`). Below: directories are never replaced by `tar`, `create_dir_all` or `rename`
(`DirMono`), hence in the canonical layout the removal always succeeds and the tree is gone. -/

section removal
variable {ν : Type} [DecidableEq ν]
set_option linter.unusedSectionVars false

/-- directories are never replaced or removed -/
def DirMono (fs fs' : FS ν) : Prop := ∀ p, fs p = some .dir → fs' p = some .dir

theorem DirMono.refl (fs : FS ν) : DirMono fs fs := fun _ h => h
theorem DirMono.trans {a b c : FS ν} (h1 : DirMono a b) (h2 : DirMono b c) : DirMono a c :=
  fun p h => h2 p (h1 p h)

theorem insert_dirMono (fs : FS ν) (q : List ν) (n : Node ν) (h : fs q = some .dir → n = .dir) :
    DirMono fs (Restore.Full.insert fs q n) := by
  intro p hp
  unfold Restore.Full.insert
  by_cases hpq : p = q
  · subst hpq; simp [h hp]
  · simp [hpq, hp]

theorem resolveAux_missing (fs : FS ν) (ff : Bool) (steps : Nat) (cur : List ν) (cs : List (Comp ν))
    (par : List ν) (n : ν) (h : resolveAux fs ff steps cur cs = .missing par n) : fs (par ++ [n]) = none := by
  fun_induction resolveAux fs ff steps cur cs <;> simp_all

theorem mkdir_dirMono (fs fs' : FS ν) (p : LPath ν) (h : mkdir fs p = some fs') : DirMono fs fs' := by
  unfold mkdir at h
  split at h
  · injection h with h; subst h; exact insert_dirMono _ _ _ (fun _ => rfl)
  · cases h

theorem createDirAll_dirMono (fs : FS ν) (fuel : Nat) (p : LPath ν) (fs' : FS ν)
    (h : createDirAll fs fuel p = some fs') : DirMono fs fs' := by
  fun_induction createDirAll fs fuel p generalizing fs' <;> simp_all
  all_goals first
    | exact DirMono.refl _
    | exact mkdir_dirMono _ _ _ ‹_›
    | exact DirMono.trans ‹DirMono _ _› (mkdir_dirMono _ _ _ ‹_›)

theorem ensureDirs_dirMono (fs : FS ν) (dc : List ν) (dst : LPath ν) (cs : List (Comp ν)) (done : LPath ν)
    (fs' : FS ν) (h : ensureDirs fs dc dst cs done = some fs') : DirMono fs fs' := by
  fun_induction ensureDirs fs dc dst cs done generalizing fs' <;> simp_all
  all_goals first
    | exact DirMono.refl _
    | exact DirMono.trans (createDirAll_dirMono _ _ _ _ ‹_›) ‹DirMono _ _›

theorem resolve_missing (fs : FS ν) (ff : Bool) (p : LPath ν) (par : List ν) (n : ν)
    (h : resolve fs ff p = .missing par n) : fs (par ++ [n]) = none :=
  resolveAux_missing fs ff _ _ _ par n h

theorem unpackEntry_dirMono (fs : FS ν) (dc : List ν) (dst : LPath ν) (e : Entry ν) :
    DirMono fs (unpackEntry fs dc dst e).1 := by
  unfold unpackEntry
  dsimp only
  repeat' split
  all_goals first
    | exact DirMono.refl _
    | exact ensureDirs_dirMono _ _ _ _ _ _ ‹_›
    | exact DirMono.trans (ensureDirs_dirMono _ _ _ _ _ _ ‹_›) (mkdir_dirMono _ _ _ ‹_›)
    | exact DirMono.trans (ensureDirs_dirMono _ _ _ _ _ _ ‹_›)
        (insert_dirMono _ _ _ (fun h => by simp [resolve_missing _ _ _ _ _ ‹_›] at h))
    | exact DirMono.trans (ensureDirs_dirMono _ _ _ _ _ _ ‹_›)
        (insert_dirMono _ _ _ (fun h => absurd h (by assumption)))

theorem unpackList_dirMono (dc : List ν) (dst : LPath ν) (fs : FS ν) (es : List (Entry ν)) :
    DirMono fs (unpackList dc dst fs es).1 := by
  induction es generalizing fs with
  | nil => exact DirMono.refl _
  | cons e r ih =>
    unfold unpackList
    have me := unpackEntry_dirMono fs dc dst e
    split
    · next fs' h => rw [h] at me; exact DirMono.trans me (ih fs')
    · next fs' h => rw [h] at me; exact me

theorem unpack_dirMono (fs : FS ν) (dst : LPath ν) (a : Archive ν) : DirMono fs (unpack fs dst a).1 := by
  unfold unpack
  dsimp only
  repeat' split
  all_goals first
    | exact DirMono.refl _
    | exact unpackList_dirMono _ _ _ _
    | exact DirMono.trans (unpackList_dirMono _ _ _ _) (unpackList_dirMono _ _ _ _)

theorem unpackAttempts_dirMono (dst : LPath ν) (a : Archive ν) (k : Nat) (fs : FS ν) :
    DirMono fs (unpackAttempts dst a k fs).1 := by
  induction k generalizing fs with
  | zero => exact DirMono.refl _
  | succ k ih =>
    unfold unpackAttempts
    have mu := unpack_dirMono fs dst a
    split
    · exact ih fs
    · dsimp only
      split
      · exact mu
      · exact DirMono.trans mu (ih _)

theorem unpackFirst_dirMono (dst : LPath ν) (fs : FS ν) (as : List (Archive ν)) :
    DirMono fs (unpackFirst dst fs as).1 := by
  induction as generalizing fs with
  | nil => exact DirMono.refl _
  | cons a r ih =>
    unfold unpackFirst
    have mu := unpackAttempts_dirMono dst a ATTEMPTS fs
    dsimp only
    split
    · exact mu
    · exact DirMono.trans mu (ih _)

/-- resolution of `db/x` when the root and `db` are directories (the canonical layout of every case) -/
theorem resolve_two (fs : FS ν) (a b : ν) (h0 : fs [] = some .dir) (ha : fs [a] = some .dir) :
    resolve fs false [.nm a, .nm b] = (match fs [a, b] with | none => .missing [a] b | some _ => .at [a, b]) := by
  cases hb : fs [a, b] with
  | none => simp [resolve, STEPS, resolveAux, h0, ha, hb]
  | some n => cases n <;> simp [resolve, STEPS, resolveAux, h0, ha, hb]

theorem lstat_some (fs : FS ν) (p : LPath ν) (q : List ν) (n : Node ν) (h : lstat fs p = some (q, n)) :
    fs q = some n := by
  unfold lstat at h
  split at h
  · next q' _ =>
    cases hq : fs q' with
    | none => simp [hq] at h
    | some m => simp [hq] at h; obtain ⟨rfl, rfl⟩ := h; exact hq
  · cases h

theorem remove_dirMono (fs : FS ν) (s : List ν) (h : fs s ≠ some .dir) : DirMono fs (Restore.Full.remove fs s) := by
  intro p hp
  unfold Restore.Full.remove
  by_cases hps : p = s
  · subst hps; exact absurd hp h
  · simp [hps, hp]

theorem rename_dirMono (fs fs' : FS ν) (src dst : LPath ν) (h : rename fs src dst = some fs') : DirMono fs fs' := by
  unfold rename at h
  repeat' split at h
  all_goals first
    | (cases h; done)
    | (injection h with h; subst h; exact DirMono.refl _)
    | (injection h with h; subst h
       have hs := lstat_some _ _ _ _ ‹lstat fs src = some _›
       refine DirMono.trans (remove_dirMono fs _ (by
         rw [hs]; intro hc; injection hc with hc; exact ‹_ = Node.dir → False› hc))
         (insert_dirMono _ _ _ (fun hd => ?_))
       first
         | (simp [Restore.Full.remove, resolve_missing _ _ _ _ _ ‹_›] at hd; done)
         | (simp only [Restore.Full.remove] at hd; split at hd
            · cases hd
            · exact absurd hd (by assumption)))

theorem ensureParents_dirMono (dst : LPath ν) (files : List (LPath ν)) (fs fs' : FS ν)
    (h : ensureParents fs dst files = some fs') : DirMono fs fs' := by
  induction files generalizing fs with
  | nil => simp [ensureParents] at h; subst h; exact DirMono.refl _
  | cons f r ih =>
    unfold ensureParents at h
    dsimp only at h
    split at h
    · exact ih fs h
    · split at h
      · next fs1 hc => exact DirMono.trans (createDirAll_dirMono _ _ _ _ hc) (ih fs1 h)
      · cases h

theorem ensureParentsPartial_dirMono (dst : LPath ν) (files : List (LPath ν)) (fs : FS ν) :
    DirMono fs (ensureParentsPartial fs dst files) := by
  induction files generalizing fs with
  | nil => exact DirMono.refl _
  | cons f r ih =>
    unfold ensureParentsPartial
    dsimp only
    split
    · exact ih fs
    · split
      · next fs1 hc => exact DirMono.trans (createDirAll_dirMono _ _ _ _ hc) (ih fs1)
      · exact DirMono.refl _

theorem moveFiles_dirMono (tmp dst : LPath ν) (files : List (LPath ν)) (fs : FS ν) :
    DirMono fs (moveFiles tmp dst fs files).1 := by
  induction files generalizing fs with
  | nil => exact DirMono.refl _
  | cons f r ih =>
    unfold moveFiles
    split
    · next fs1 hr => exact DirMono.trans (rename_dirMono _ _ _ _ hr) (ih fs1)
    · exact DirMono.refl _

/-- the part of `ancillaryTask` between the unpacking and the removal of the temporary directory -/
def ancBody (fixed : Bool) (C : Cfg ν) (I : Input ν) (fs1 : FS ν) (ok1 : Bool) : FS ν × Bool :=
  if !ok1 then (fs1, false)
  else match verifyAncillary fixed C I fs1 [.nm C.db, .nm C.tmp] with
    | none => (fs1, false)
    | some files =>
      match ensureParents fs1 [.nm C.db] files with
      | none => (ensureParentsPartial fs1 [.nm C.db] files, false)
      | some fs' => moveFiles [.nm C.db, .nm C.tmp] [.nm C.db] fs' files

theorem ancillaryTask_eq (fixed : Bool) (C : Cfg ν) (I : Input ν) (fs fs0 : FS ν)
    (h0 : mkdir fs [.nm C.db, .nm C.tmp] = some fs0) :
    ancillaryTask fixed C I fs =
      ((removeDirAll (ancBody fixed C I (unpackFirst [.nm C.db, .nm C.tmp] fs0 I.ancillary).1
            (unpackFirst [.nm C.db, .nm C.tmp] fs0 I.ancillary).2).1 [.nm C.db, .nm C.tmp]).getD
          (ancBody fixed C I (unpackFirst [.nm C.db, .nm C.tmp] fs0 I.ancillary).1
            (unpackFirst [.nm C.db, .nm C.tmp] fs0 I.ancillary).2).1,
       (ancBody fixed C I (unpackFirst [.nm C.db, .nm C.tmp] fs0 I.ancillary).1
            (unpackFirst [.nm C.db, .nm C.tmp] fs0 I.ancillary).2).2) := by
  simp only [ancillaryTask, h0, ancBody]
  rfl

theorem ancBody_dirMono (fixed : Bool) (C : Cfg ν) (I : Input ν) (fs1 : FS ν) (ok1 : Bool) :
    DirMono fs1 (ancBody fixed C I fs1 ok1).1 := by
  unfold ancBody
  repeat' split
  all_goals first
    | exact DirMono.refl _
    | exact ensureParentsPartial_dirMono _ _ _
    | exact DirMono.trans (ensureParents_dirMono _ _ _ _ ‹_›) (moveFiles_dirMono _ _ _ _)

theorem mkdir_two (fs fs0 : FS ν) (a b : ν) (h0 : fs [] = some .dir) (ha : fs [a] = some .dir)
    (h : mkdir fs [.nm a, .nm b] = some fs0) :
    fs0 [] = some .dir ∧ fs0 [a] = some .dir ∧ fs0 [a, b] = some .dir := by
  have m := mkdir_dirMono _ _ _ h
  refine ⟨m _ h0, m _ ha, ?_⟩
  unfold mkdir at h
  rw [resolve_two fs a b h0 ha] at h
  cases hb : fs [a, b] with
  | none => simp [hb] at h; subst h; simp [Restore.Full.insert]
  | some n => simp [hb] at h

theorem removeDirAll_two (fs : FS ν) (a b : ν) (h0 : fs [] = some .dir) (ha : fs [a] = some .dir)
    (hb : fs [a, b] = some .dir) : removeDirAll fs [.nm a, .nm b] = some (removeTree fs [a, b]) := by
  have : lstat fs [.nm a, .nm b] = some ([a, b], .dir) := by
    unfold lstat; rw [resolve_two fs a b h0 ha]; simp [hb]
  simp [removeDirAll, this]

/-- **REPAIR of the `getD` gap.** In the canonical layout (the root and `db` are directories) the final
`remove_dir_all` of `ancillaryTask` SUCCEEDS whatever the archive contains and whatever happened
before (unpacking failed or not, verification failed or not, moves failed or not): the task's final
state is the state before the removal with the whole temporary tree deleted -/
theorem ancillaryTask_tmp_gone (fixed : Bool) (C : Cfg ν) (I : Input ν) (fs fs0 : FS ν)
    (hroot : fs [] = some .dir) (hdb : fs [C.db] = some .dir)
    (h0 : mkdir fs [.nm C.db, .nm C.tmp] = some fs0) :
    (ancillaryTask fixed C I fs).1 =
      removeTree (ancBody fixed C I (unpackFirst [.nm C.db, .nm C.tmp] fs0 I.ancillary).1
        (unpackFirst [.nm C.db, .nm C.tmp] fs0 I.ancillary).2).1 [C.db, C.tmp] := by
  obtain ⟨a0, a1, a2⟩ := mkdir_two fs fs0 C.db C.tmp hroot hdb h0
  have m : DirMono fs0 (ancBody fixed C I (unpackFirst [.nm C.db, .nm C.tmp] fs0 I.ancillary).1
      (unpackFirst [.nm C.db, .nm C.tmp] fs0 I.ancillary).2).1 :=
    DirMono.trans (unpackFirst_dirMono _ _ _) (ancBody_dirMono _ _ _ _ _)
  rw [ancillaryTask_eq fixed C I fs fs0 h0]
  simp only [removeDirAll_two _ C.db C.tmp (m _ a0) (m _ a1) (m _ a2), Option.getD_some]

theorem ancillaryTask_tmp_gone_pointwise (fixed : Bool) (C : Cfg ν) (I : Input ν) (fs fs0 : FS ν)
    (hroot : fs [] = some .dir) (hdb : fs [C.db] = some .dir)
    (h0 : mkdir fs [.nm C.db, .nm C.tmp] = some fs0) :
    ∀ r, [C.db, C.tmp].isPrefixOf r = true → (ancillaryTask fixed C I fs).1 r = none := by
  intro r hr
  rw [ancillaryTask_tmp_gone fixed C I fs fs0 hroot hdb h0]
  simp [removeTree, hr]

/-- **REPAIRED failure statement**: (i) also covers the failure of the unpacking (in which case
`verifyAncillary` is not even called — the property theorem requires it to fail on the partial state);
(ii) no `getD`: the temporary tree IS gone and everything else is the unpacked state -/
theorem ancillaryTask_failure_clean (C : Cfg ν) (I : Input ν) (fs fs0 : FS ν)
    (hroot : fs [] = some .dir) (hdb : fs [C.db] = some .dir)
    (h0 : mkdir fs [.nm C.db, .nm C.tmp] = some fs0)
    (hfail : (unpackFirst [.nm C.db, .nm C.tmp] fs0 I.ancillary).2 = false ∨
      verifyAncillary true C I (unpackFirst [.nm C.db, .nm C.tmp] fs0 I.ancillary).1 [.nm C.db, .nm C.tmp] = none) :
    (ancillaryTask true C I fs).2 = false ∧
    (∀ r, [C.db, C.tmp].isPrefixOf r = true → (ancillaryTask true C I fs).1 r = none) ∧
    (∀ r, [C.db, C.tmp].isPrefixOf r = false →
      (ancillaryTask true C I fs).1 r = (unpackFirst [.nm C.db, .nm C.tmp] fs0 I.ancillary).1 r) := by
  have hb : ancBody true C I (unpackFirst [.nm C.db, .nm C.tmp] fs0 I.ancillary).1
      (unpackFirst [.nm C.db, .nm C.tmp] fs0 I.ancillary).2 =
      ((unpackFirst [.nm C.db, .nm C.tmp] fs0 I.ancillary).1, false) := by
    unfold ancBody
    rcases hfail with h | h
    · simp [h]
    · cases hok : (unpackFirst [.nm C.db, .nm C.tmp] fs0 I.ancillary).2 <;> simp [h]
  refine ⟨?_, ?_, ?_⟩
  · rw [ancillaryTask_eq true C I fs fs0 h0, hb]
  · exact ancillaryTask_tmp_gone_pointwise true C I fs fs0 hroot hdb h0
  · intro r hr
    rw [ancillaryTask_tmp_gone true C I fs fs0 hroot hdb h0, hb]
    simp [removeTree, hr]

end removal

/-! non-vacuity of the repaired statements -/

/-- right disjunct (verification fails): the bad-signature run -/
example : (ancillaryTask true cfg badSigInput fsImmB).2 = false ∧
    (∀ r, [cfg.db, cfg.tmp].isPrefixOf r = true → (ancillaryTask true cfg badSigInput fsImmB).1 r = none) ∧
    (∀ r, [cfg.db, cfg.tmp].isPrefixOf r = false → (ancillaryTask true cfg badSigInput fsImmB).1 r = fsUB r) :=
  ancillaryTask_failure_clean cfg badSigInput fsImmB fs0B (by decide) (by decide) failure_h0 (.inr failure_hv)

/-- left disjunct (the stream of the archive breaks after its last entry): everything was unpacked, the
manifest is genuine and `verifyAncillary` WOULD accept the partial state — so the hypothesis `hv` of
`C19_ancillary_failure_clean` is false and that theorem says nothing here; the repaired one applies -/
def brokenInput : Input Nat :=
  { honestInput with
    ancillary := [{ present := true, intact := false, entries := [ent [6] (.file 500), ent [2, 9] (.file 42)] }] }

def fsUK : FS Nat := (unpackFirst [.nm cfg.db, .nm cfg.tmp] fs0 brokenInput.ancillary).1

theorem broken_not_covered :
    (unpackFirst [.nm cfg.db, .nm cfg.tmp] fs0 brokenInput.ancillary).2 = false ∧
    verifyAncillary true cfg brokenInput fsUK [.nm cfg.db, .nm cfg.tmp] = some [lp [2, 9]] := by decide

example : (ancillaryTask true cfg brokenInput fsImm).2 = false ∧
    (∀ r, [cfg.db, cfg.tmp].isPrefixOf r = true → (ancillaryTask true cfg brokenInput fsImm).1 r = none) ∧
    (∀ r, [cfg.db, cfg.tmp].isPrefixOf r = false → (ancillaryTask true cfg brokenInput fsImm).1 r = fsUK r) :=
  ancillaryTask_failure_clean cfg brokenInput fsImm fs0 (by decide) (by decide) (eqSomeGet _ _) (.inl broken_not_covered.1)

example : fsUK [0, 7, 2, 9] = some (.file 42) ∧
    (run true cfg brokenInput emptyDb).2 = false ∧ (run true cfg brokenInput emptyDb).1 [0, 2, 9] = none ∧
    (run true cfg brokenInput emptyDb).1 [0, 7] = none := by decide

/-- success branch of `ancillaryTask_tmp_gone`: the honest run -/
example : ∀ r, [cfg.db, cfg.tmp].isPrefixOf r = true → (ancillaryTask true cfg honestInput fsImm).1 r = none :=
  ancillaryTask_tmp_gone_pointwise true cfg honestInput fsImm fs0 (by decide) (by decide) (eqSomeGet _ _)

example : (ancillaryTask true cfg honestInput fsImm).2 = true ∧
    (ancillaryTask true cfg honestInput fsImm).1 [0, 2, 9] = some (.file 42) := by decide

end Vacuity.C19
