import MithrilModel.Properties.C19
/-!
# Vacuity audit of C19

For every property theorem of `Properties/C19.lean` that has hypotheses: a concrete instance (names
and contents are `Nat`) that satisfies ALL hypotheses at once — the theorem is APPLIED to it, so the
instance is checked against the very statement — and on which the interesting branch of the conclusion
is exercised (non-empty manifest, a move that really replaces something, a non-empty directory
removed, a clean-up that removes one entry and keeps another).

File systems are functions, so `f x = some fs'` is obtained as `fs' := (f x).get _`; all facts about
file systems are point-wise.
-/
namespace Vacuity.C19
open Restore.Full _root_.C19

/-- `o = some (o.get h)` — how the `… = some fs'` hypotheses are instantiated -/
theorem eqSomeGet {α : Type} (o : Option α) (h : o.isSome = true) : o = some (o.get h) :=
  (Option.some_get h).symm

def tmp : LPath Nat := [.nm 0, .nm 7]

/-! ## C19_ancillary_accept — the state that `run true cfg honestInput emptyDb` really passes to
`verifyAncillary` (immutable archives 1 and 2 unpacked, `mkdir` of the temporary directory, ancillary
archive unpacked into it) -/

def fsImm : FS Nat := (immutableTasks cfg honestInput emptyDb [1, 2]).1
def fs0 : FS Nat := (mkdir fsImm tmp).get (by decide)
def fsU : FS Nat := (unpackFirst tmp fs0 honestInput.ancillary).1

example : mkdir fsImm tmp = some fs0 := eqSomeGet _ _
example : (immutableTasks cfg honestInput emptyDb [1, 2]).2 = true ∧
    (unpackFirst tmp fs0 honestInput.ancillary).2 = true := by decide

/-- the hypothesis holds with a NON-EMPTY list of files -/
theorem accept_hyp : verifyAncillary true cfg honestInput fsU tmp = some [lp [2, 9]] := by decide

/-- … and the theorem applied to it yields a manifest with one entry, which is a regular file -/
example : ∃ c m, readFile fsU (tmp ++ [.nm cfg.manifestFile]) = some c ∧ honestInput.manifestOf c = some m ∧
      m.sig = Sig.ok ∧ [lp [2, 9]] = m.entries.map (·.1) ∧
      ∀ e ∈ m.entries, ∃ q, lstat fsU (tmp ++ e.1) = some (q, .file e.2) :=
  C19_ancillary_accept cfg honestInput fsU tmp [lp [2, 9]] accept_hyp

example : readFile fsU (tmp ++ [.nm cfg.manifestFile]) = some 500 ∧
    lstat fsU (tmp ++ lp [2, 9]) = some ([0, 7, 2, 9], .file 42) := by decide

/-- two entries (a second vouched file under `volatile/`) -/
def twoInput : Input Nat :=
  { honestInput with
    ancillary := [{ present := true, intact := true, entries := [ent [6] (.file 500), ent [2, 9] (.file 42), ent [3, 8] (.file 43)] }],
    manifestOf := fun c => if c = 500 then some { entries := [(lp [2, 9], 42), (lp [3, 8], 43)], sig := .ok } else none }

def fsU2 : FS Nat := (unpackFirst tmp fs0 twoInput.ancillary).1

theorem accept_hyp2 : verifyAncillary true cfg twoInput fsU2 tmp = some [lp [2, 9], lp [3, 8]] := by decide

example := C19_ancillary_accept cfg twoInput fsU2 tmp _ accept_hyp2

/-- the whole call on it -/
example : (run true cfg twoInput emptyDb).2 = true ∧
    (run true cfg twoInput emptyDb).1 [0, 2, 9] = some (.file 42) ∧
    (run true cfg twoInput emptyDb).1 [0, 3, 8] = some (.file 43) ∧
    (run true cfg twoInput emptyDb).1 [0, 7] = none := by decide

/-! ## C19_move_places_verified_file — both inner implications -/

def dstDb : LPath Nat := [.nm 0]

/-- branch 1 (`.missing`): the honest run, after `ensureParents` created `db/ledger` -/
def fsP : FS Nat := (ensureParents fsU dstDb [lp [2, 9]]).get (by decide)
def fsM : FS Nat := (rename fsP (tmp ++ lp [2, 9]) (dstDb ++ lp [2, 9])).get (by decide)

example : fsM [0, 2, 9] = some (.file 42) ∧ ∀ p, p ≠ [0, 2] ++ [9] → p ≠ [0, 7, 2, 9] → fsM p = fsP p :=
  (C19_move_places_verified_file fsP fsM (tmp ++ lp [2, 9]) (dstDb ++ lp [2, 9]) [0, 7, 2, 9] 42
    (by decide) (eqSomeGet _ _)).1 [0, 2] 9 (by decide)

/-- the move is not the identity: the destination was free, the source is gone -/
example : fsP [0, 2, 9] = none ∧ fsP [0, 7, 2, 9] = some (.file 42) ∧ fsM [0, 7, 2, 9] = none := by decide

/-- branch 2 (`.at d`, replaced): the mirror's immutable archive 2 has put a symbolic link at
`db/ledger/9` (to hostile content at `db/8/10`); the verified file REPLACES the link, nothing is
written through it -/
def replInput : Input Nat :=
  { honestInput with
    immutables := fun n =>
      if n = 1 then [{ present := true, intact := true, entries := trioEntries 1 }]
      else if n = 2 then [{ present := true, intact := true, entries := trioEntries 2 ++
        [ent [8, 10] (.file 666), ent [2, 9] (.symlink { abs := false, comps := [.up, .nm 8, .nm 10] })] }]
      else [] }

def fsImmR : FS Nat := (immutableTasks cfg replInput emptyDb [1, 2]).1
def fs0R : FS Nat := (mkdir fsImmR tmp).get (by decide)
def fsUR : FS Nat := (unpackFirst tmp fs0R replInput.ancillary).1
def fsPR : FS Nat := (ensureParents fsUR dstDb [lp [2, 9]]).get (by decide)
def fsMR : FS Nat := (rename fsPR (tmp ++ lp [2, 9]) (dstDb ++ lp [2, 9])).get (by decide)

example : verifyAncillary true cfg replInput fsUR tmp = some [lp [2, 9]] := by decide

example : fsMR [0, 2, 9] = some (.file 42) ∧ ∀ p, p ≠ [0, 2, 9] → p ≠ [0, 7, 2, 9] → fsMR p = fsPR p :=
  (C19_move_places_verified_file fsPR fsMR (tmp ++ lp [2, 9]) (dstDb ++ lp [2, 9]) [0, 7, 2, 9] 42
    (by decide) (eqSomeGet _ _)).2 [0, 2, 9] (by decide) (by decide) (by decide)

example : fsPR [0, 2, 9] = some (.link { abs := false, comps := [.up, .nm 8, .nm 10] }) ∧
    readFile fsPR (lp [0, 2, 9]) = some 666 ∧
    readFile fsMR (lp [0, 2, 9]) = some 42 ∧ fsMR [0, 8, 10] = some (.file 666) ∧
    fsMR [0, 7, 2, 9] = none := by decide

/-- the whole call on it -/
example : (run true cfg replInput emptyDb).2 = true ∧
    (run true cfg replInput emptyDb).1 [0, 2, 9] = some (.file 42) := by decide

/-- NOTE (weak conclusion): the property theorem leaves the source `s` unconstrained ("changes nothing
else" is stated for `p ≠ s`). The source is removed: -/
theorem rename_source_gone {ν : Type} [DecidableEq ν] (fs fs' : FS ν) (src dst : LPath ν) (s : List ν) (c : Nat)
    (hs : lstat fs src = some (s, .file c)) (h : rename fs src dst = some fs') :
    (∀ par nm, resolve fs false dst = .missing par nm → par ++ [nm] ≠ s → fs' s = none) ∧
    (∀ d, resolve fs false dst = .at d → d ≠ s → fs' s = none) := by
  refine ⟨fun par nm hd hne => ?_, fun d hd hne => ?_⟩
  · simp only [rename, hs, hd, Option.some.injEq] at h
    subst h
    simp [Restore.Full.insert, Restore.Full.remove, Ne.symm hne]
  · simp only [rename, hs, hd] at h
    cases hfd : fs d with
    | none =>
      simp only [hfd, hne, if_false, Option.some.injEq] at h
      subst h; simp [Restore.Full.insert, Restore.Full.remove, Ne.symm hne]
    | some n =>
      cases n with
      | dir => simp [hfd] at h
      | file c' =>
        simp only [hfd, hne, if_false, Option.some.injEq] at h
        subst h; simp [Restore.Full.insert, Restore.Full.remove, Ne.symm hne]
      | link t =>
        simp only [hfd, hne, if_false, Option.some.injEq] at h
        subst h; simp [Restore.Full.insert, Restore.Full.remove, Ne.symm hne]

/-! ## C19_ancillary_sound — two entries, a non-injective `H`, a hostile file already at one destination -/

def H7 : Nat → Nat := fun x => x % 7
def atmp : Restore.Path := [99]
def man2 : List (Restore.Path × Nat) := [([1, 7], 0), ([1, 8], 3)]
/-- `tmp/1/7 ↦ 42` (42 % 7 = 0), `tmp/1/8 ↦ 10` (10 % 7 = 3), and hostile content already at `1/7` -/
def afs : Restore.FS := fun p =>
  if p = [99, 1, 7] then some (.file 42)
  else if p = [99, 1, 8] then some (.file 10)
  else if p = [1, 7] then some (.file 666)
  else none

theorem sound_nodup : (man2.map (·.1)).Nodup := by decide
theorem sound_sep : Restore.Separated atmp (man2.map (·.1)) := by
  unfold Restore.Separated; decide
theorem sound_hv : Restore.verifyDataFixed H7 atmp afs man2 = true := by decide

example : ∀ e ∈ man2, (Restore.read (Restore.moveAll atmp afs (man2.map (·.1))) e.1).map H7 = some e.2 :=
  C19_ancillary_sound H7 atmp man2 afs sound_nodup sound_sep sound_hv

/-- the conclusion is about the MOVED state, which differs from the verified one at every path involved:
before the move the destination `1/7` reads as the hostile content (whose hash is NOT the vouched one),
`1/8` does not exist; afterwards they hold the verified files and the sources are gone. So `hv` (a
statement about `tmp ++ p` in `fs`) does not give the conclusion without the facts about `moveAll`. -/
example :
    (Restore.read afs [1, 7]).map H7 = some 1 ∧ Restore.read afs [1, 8] = none ∧
    Restore.moveAll atmp afs (man2.map (·.1)) [1, 7] = some (.file 42) ∧
    Restore.moveAll atmp afs (man2.map (·.1)) [1, 8] = some (.file 10) ∧
    Restore.moveAll atmp afs (man2.map (·.1)) [99, 1, 7] = none ∧
    Restore.moveAll atmp afs (man2.map (·.1)) [99, 1, 8] = none := by decide

/-- `Separated` is satisfiable for every manifest whose paths do not start with the first name of the
temporary directory (the real one is `ancillary-<random id>`), whatever their number -/
theorem separated_of_head (t : Nat) (tmp' : Restore.Path) (ps : List Restore.Path)
    (h : ∀ p ∈ ps, p.head? ≠ some t) : Restore.Separated (t :: tmp') ps := by
  intro p hp q _ heq
  exact h p hp (by rw [heq]; rfl)

/-- … and it is unsatisfiable exactly in the degenerate case of an empty temporary path -/
theorem separated_nil_iff (ps : List Restore.Path) : Restore.Separated [] ps ↔ ps = [] := by
  constructor
  · intro h
    cases ps with
    | nil => rfl
    | cons p r => exact absurd rfl (h p (by simp) p (by simp))
  · rintro rfl p hp; cases hp

/-- `Separated` is NEEDED (the hypothesis is not decoration): with `tmp ++ q` and `q` both vouched, the
first move overwrites the source of the second, and the restored `q` reads as the other file -/
def manBad : List (Restore.Path × Nat) := [([99, 5], 1), ([5], 2)]
def afsBad : Restore.FS := fun p =>
  if p = [99, 99, 5] then some (.file 1) else if p = [99, 5] then some (.file 2) else none

example : (manBad.map (·.1)).Nodup ∧ Restore.verifyDataFixed id atmp afsBad manBad = true ∧
    ¬ Restore.Separated atmp (manBad.map (·.1)) ∧
    (Restore.read (Restore.moveAll atmp afsBad (manBad.map (·.1))) [5]).map id = some 1 := by
  refine ⟨by decide, by decide, ?_, by decide⟩
  unfold Restore.Separated; decide

/-! ## C19_ancillary_failure_clean and C19_tmp_removed — the bad-signature run -/

def fsImmB : FS Nat := (immutableTasks cfg badSigInput emptyDb [1, 2]).1
def fs0B : FS Nat := (mkdir fsImmB [.nm cfg.db, .nm cfg.tmp]).get (by decide)
def fsUB : FS Nat := (unpackFirst [.nm cfg.db, .nm cfg.tmp] fs0B badSigInput.ancillary).1
def fsRB : FS Nat := (removeDirAll fsUB tmp).get (by decide)

/-- both hypotheses; the unpacking itself succeeded, so the failure IS the verification's -/
theorem failure_h0 : mkdir fsImmB [.nm cfg.db, .nm cfg.tmp] = some fs0B := eqSomeGet _ _
theorem failure_hv : verifyAncillary true cfg badSigInput
    (unpackFirst [.nm cfg.db, .nm cfg.tmp] fs0B badSigInput.ancillary).1 [.nm cfg.db, .nm cfg.tmp] = none := by decide
example : (unpackFirst [.nm cfg.db, .nm cfg.tmp] fs0B badSigInput.ancillary).2 = true := by decide

example : ancillaryTask true cfg badSigInput fsImmB = ((removeDirAll fsUB tmp).getD fsUB, false) :=
  C19_ancillary_failure_clean cfg badSigInput fsImmB fs0B failure_h0 failure_hv

/-- in this instance the `getD` does not hide a failing removal -/
theorem failure_removal_succeeds : removeDirAll fsUB tmp = some fsRB := eqSomeGet _ _

/-- C19_tmp_removed on it: the directory is NOT empty (manifest and the unpacked `ledger/9` are in it),
everything below it goes, the immutable files unpacked before stay -/
example : (∀ r, [0, 7].isPrefixOf r = true → fsRB r = none) ∧ (∀ r, [0, 7].isPrefixOf r = false → fsRB r = fsUB r) :=
  C19_tmp_removed fsUB fsRB tmp [0, 7] (by decide) failure_removal_succeeds

example : fsUB [0, 7, 6] = some (.file 500) ∧ fsUB [0, 7, 2, 9] = some (.file 42) ∧ fsUB [0, 7, 2] = some .dir ∧
    fsRB [0, 7] = none ∧ fsRB [0, 7, 6] = none ∧ fsRB [0, 7, 2, 9] = none ∧
    fsRB [0, 1, 110] = some (.file 12) ∧ fsRB [0, 2, 9] = none := by decide

/-! ## C19_immutable_dir_clean — `junkInput`: two junk names are removed, the trio files stay -/

def fsJ : FS Nat := (immutableTasks cfg junkInput emptyDb [1]).1
def expectedJ : List Nat := (numbersIn 0 2).flatMap cfg.trio
def fsJC : FS Nat := (cleanup cfg fsJ expectedJ).get (by decide)

example : (∀ n rest, fsJC ([0, 1] ++ n :: rest) ≠ none → n ∈ expectedJ) ∧
    (∀ p, [0, 1].isPrefixOf p = false → fsJC p = fsJ p) ∧ (∀ p x, fsJC p = some x → fsJ p = some x) :=
  C19_immutable_dir_clean cfg fsJ fsJC expectedJ [0, 1] (by decide) (eqSomeGet _ _)

example : fsJ [0, 1, 9] = some (.file 77) ∧ fsJ [0, 1, 130] = some (.file 78) ∧
    fsJC [0, 1, 9] = none ∧ fsJC [0, 1, 130] = none ∧
    fsJC [0, 1, 110] = some (.file 12) ∧ fsJC [0, 1, 111] = some (.file 13) ∧ fsJC [0, 1] = some .dir ∧
    9 ∉ expectedJ ∧ 110 ∈ expectedJ := by decide

end Vacuity.C19
