import Mathlib.Data.Fintype.Pigeonhole
import MithrilModel.Properties.C12
import MithrilModel.Vacuity.C09
/-!
# Vacuity audit of C12 (`Properties/C12.lean`, `Digester`, `DigesterProofs`, `MmrSized`, `MmrBytes`)

## Findings

* **F1 (refuted hypothesis pair)** `MmrBuild.root_injective_bytes` (`MmrSized.lean`, listed in `props.d/C12.py`)
  assumes `hH : ∀ x y, H x = H y → x = y` and `hlenH : ∀ x, (H x).length = N`: unsatisfiable
  (`root_injective_bytes_hyps_unsat`). The theorem is vacuous.
* **F2 (trivially true conclusions)** `C12_sensitive_same_shape`, `C12_content_change_detected`
  (and `Digester.root_injective_bytes'`) conclude `… ∨ Collision H` under `hH : ∀ x, (H x).length = N`;
  `Collision H` follows from `hH` alone (`C12_sensitive_same_shape_says_nothing`,
  `C12_content_change_detected_says_nothing`). ALREADY REPAIRED in the property file by the later layer:
  `C12_root_injective_bytes`, `C12_sensitive_any_shape` name the colliding pair in `MmrBytes.hashInputs`
  (the log of the instrumented builder) — `collisionIn_not_automatic` below shows that disjunct is not automatic.
* **F3 (trivially true disjunct for the intended contents)** `C12_content_change_detected` and
  `C12_change_detected_any_shape` carry the disjunct `∃ x y : γ, x ≠ y ∧ sha x = sha y` next to
  `hsha : ∀ x, (sha x).length = 64`: for every INFINITE content type `γ` (byte strings — the intended one)
  it follows from `hsha` alone (`sha_collision_of_fixed_length`), so the theorems do not say "a changed
  byte of a covered file changes the root". Repaired: `C12_change_detected_any_shape_witness` names the
  file position whose two contents collide, and needs the length of `sha` only on the files that exist.
* **F4 (hypothesis refuted for the code's instance)** `C12_root_injective` (value level) assumes
  `hinj` for `m : Bytes → Bytes → Bytes`; satisfiable (`encM_inj`) but refuted for every
  `m = Digester.merge H` (`digester_merge_not_injective`) — the value-level theorem never applies to the
  digester; the byte-level `C12_root_injective_bytes` is the statement about the code.
* note: the driver's instance `sha = id` (the content IS the hex digest) does not satisfy the global
  `hsha` (`hsha_false_for_driver_instance`); the repaired statement asks it only of the processed files.
-/
namespace Vacuity.C12
open Digester _root_.C12

/-! ## F1, F2 -/

theorem root_injective_bytes_hyps_unsat (N : Nat) :
    ¬ ∃ H : List UInt8 → List UInt8, (∀ x y, H x = H y → x = y) ∧ (∀ x, (H x).length = N) :=
  fun ⟨H, hinj, hlen⟩ => Vacuity.C09.pigeonhole H N hlen hinj

theorem collision_of_fixed_length (H : Bytes → Bytes) (N : Nat) (hH : ∀ x, (H x).length = N) : Collision H := by
  obtain ⟨x, y, hne, he⟩ := Vacuity.C09.collision_of_fixed_length H N hH
  exact ⟨x, y, hne, he⟩

/-- `MmrBuild.root_injective_sized` / `eval_injective_shape` (the lemmas under `root_injective_bytes`): their
hash hypotheses — a merge of fixed output length that is injective on splits of equal length — are
unsatisfiable at the byte instance `len = List.length` (fix the left part: the right part ranges over all
byte strings) … -/
theorem root_injective_sized_hyps_unsat_bytes (N : Nat) :
    ¬ ∃ m : Bytes → Bytes → Bytes, (∀ a b, (m a b).length = N) ∧
      (∀ a b c d, a.length = c.length → m a b = m c d → a = c ∧ b = d) := by
  rintro ⟨m, hN, hinj⟩
  exact Vacuity.C09.pigeonhole (m []) N (hN []) (fun x y h => (hinj [] x [] y rfl h).2)

/-- … but satisfiable for other carriers (`α = Nat`, constant `len`): the lemma itself is not vacuous -/
example : (∀ a b : Nat, (fun _ : Nat => 0) (C09.pairM a b) = 0) ∧
    (∀ a b c d : Nat, (fun _ : Nat => 0) a = (fun _ : Nat => 0) c → C09.pairM a b = C09.pairM c d → a = c ∧ b = d) :=
  ⟨fun _ _ => rfl, fun a b c d _ h => Vacuity.C09.pairM_inj a b c d h⟩

/-- **F2** the conclusion of `C12_sensitive_same_shape` from `hH` alone: no database, no root -/
theorem C12_sensitive_same_shape_says_nothing (H : Bytes → Bytes) (N : Nat) (hH : ∀ x, (H x).length = N)
    (r r' : Result) : r.leaves = r'.leaves ∨ Collision H :=
  Or.inr (collision_of_fixed_length H N hH)

/-- **F2** the same for `C12_content_change_detected` -/
theorem C12_content_change_detected_says_nothing {γ : Type} (sha : γ → Bytes) (H : Bytes → Bytes) (N : Nat)
    (hH : ∀ x, (H x).length = N) (fs fs' : List (IFile γ)) (hlen : fs.length = fs'.length) :
    (∀ i (hi : i < fs.length), fs[i].content = (fs'[i]'(hlen ▸ hi)).content) ∨
      (∃ x y : γ, x ≠ y ∧ sha x = sha y) ∨ Collision H :=
  Or.inr (Or.inr (collision_of_fixed_length H N hH))

/-! ## F3 -/

/-- a content hash of fixed output length on an infinite content type has a collision -/
theorem sha_collision_of_fixed_length {γ : Type} [Infinite γ] (sha : γ → Bytes) (L : Nat)
    (hsha : ∀ x, (sha x).length = L) : ∃ x y : γ, x ≠ y ∧ sha x = sha y := by
  have : Finite UInt8 := Finite.of_injective (fun x : UInt8 => x.toFin) (fun _ _ h => UInt8.toFin_inj.mp h)
  let f : γ → List.Vector UInt8 L := fun x => ⟨sha x, hsha x⟩
  obtain ⟨x, y, hne, he⟩ := Finite.exists_ne_map_eq_of_infinite f
  exact ⟨x, y, hne, congrArg Subtype.val he⟩

/-- **F3** the conclusion of `C12_change_detected_any_shape` for byte-string contents from `hsha` alone -/
theorem C12_change_detected_any_shape_says_nothing_for_bytes (sha : Bytes → Bytes) (H : Bytes → Bytes)
    (hsha : ∀ x, (sha x).length = 64) (fs fs' : List (IFile Bytes)) (r r' : Result) :
    (∃ hlen : fs.length = fs'.length, ∀ i (hi : i < fs.length), fs[i].content = (fs'[i]'(hlen ▸ hi)).content) ∨
      (∃ x y : Bytes, x ≠ y ∧ sha x = sha y) ∨
      (∃ x ∈ MmrBytes.hashInputs H r.leaves, ∃ y ∈ MmrBytes.hashInputs H r'.leaves, x ≠ y ∧ H x = H y) :=
  Or.inr (Or.inl (sha_collision_of_fixed_length sha 64 hsha))

/-- the driver instantiates `sha` with the identity (contents are the hex digests): `hsha` is false there -/
theorem hsha_false_for_driver_instance : ¬ ∀ x : Bytes, ((fun d : Bytes => d) x).length = 64 := by
  intro h; have := h []; simp at this

variable {γ : Type} (sha : γ → Bytes) (H : Bytes → Bytes)

/-- **repaired `C12_sensitive_any_shape`**: the leaf-length hypothesis relativised to the two leaf lists
that exist (what `hsha` was used for) -/
theorem C12_sensitive_any_shape_witness (hH : ∀ x, (H x).length = 32)
    (es es' : List (Entry γ)) (beacon beacon' : Nat) (r r' : Result)
    (h : rootIn sha H [] es beacon = .ok r) (h' : rootIn sha H [] es' beacon' = .ok r')
    (hl : ∀ a ∈ r.leaves, a.length = 64) (hl' : ∀ a ∈ r'.leaves, a.length = 64)
    (hroot : r.root = r'.root) :
    r.leaves = r'.leaves ∨
      ∃ x ∈ MmrBytes.hashInputs H r.leaves, ∃ y ∈ MmrBytes.hashInputs H r'.leaves, x ≠ y ∧ H x = H y := by
  obtain ⟨_, _, _, hr⟩ := rootIn_leaves sha H es beacon r h
  obtain ⟨_, _, _, hr'⟩ := rootIn_leaves sha H es' beacon' r' h'
  exact C12_root_injective_bytes H hH r.leaves r'.leaves hl hl' r.root hr (by rw [hroot]; exact hr')

/-- **repaired `C12_change_detected_any_shape` / `C12_content_change_detected`**: two databases with the same
root have equally many covered files with the same content position by position, or the proof names a
position `i` whose two (different) contents have the same file digest, or two different strings hashed during
the two root computations with the same node hash. `sha` needs 64-byte values only on the covered files. -/
theorem C12_change_detected_any_shape_witness (hH : ∀ x, (H x).length = 32)
    (es es' : List (Entry γ)) (beacon beacon' : Nat) (r r' : Result) (fs fs' : List (IFile γ))
    (h : rootIn sha H [] es beacon = .ok r) (h' : rootIn sha H [] es' beacon' = .ok r')
    (hf : toProcess es beacon = .ok fs) (hf' : toProcess es' beacon' = .ok fs')
    (hsha : ∀ f ∈ fs, (sha f.content).length = 64) (hsha' : ∀ f ∈ fs', (sha f.content).length = 64)
    (hroot : r.root = r'.root) :
    (∃ hlen : fs.length = fs'.length, ∀ i (hi : i < fs.length), fs[i].content = (fs'[i]'(hlen ▸ hi)).content) ∨
      (∃ (i : Nat) (hi : i < fs.length) (hi' : i < fs'.length),
        fs[i].content ≠ fs'[i].content ∧ sha fs[i].content = sha fs'[i].content) ∨
      (∃ x ∈ MmrBytes.hashInputs H r.leaves, ∃ y ∈ MmrBytes.hashInputs H r'.leaves, x ≠ y ∧ H x = H y) := by
  obtain ⟨gs, hg, hl, _⟩ := rootIn_leaves sha H es beacon r h
  obtain ⟨gs', hg', hl', _⟩ := rootIn_leaves sha H es' beacon' r' h'
  rw [hf] at hg; rw [hf'] at hg'
  cases hg; cases hg'
  have h64 : ∀ a ∈ r.leaves, a.length = 64 := by
    intro a ha; rw [hl] at ha; obtain ⟨f, hf, rfl⟩ := List.mem_map.mp ha; exact hsha f hf
  have h64' : ∀ a ∈ r'.leaves, a.length = 64 := by
    intro a ha; rw [hl'] at ha; obtain ⟨f, hf, rfl⟩ := List.mem_map.mp ha; exact hsha' f hf
  rcases C12_sensitive_any_shape_witness sha H hH es es' beacon beacon' r r' h h' h64 h64' hroot with heq | hc
  · rw [hl, hl'] at heq
    have hlen : fs.length = fs'.length := by simpa using congrArg List.length heq
    by_cases hcol : ∃ (i : Nat) (hi : i < fs.length) (hi' : i < fs'.length),
        fs[i].content ≠ fs'[i].content ∧ sha fs[i].content = sha fs'[i].content
    · exact Or.inr (Or.inl hcol)
    · left
      refine ⟨hlen, ?_⟩
      intro i hi
      have := congrArg (fun l => l[i]?) heq
      simp only [List.getElem?_map, List.getElem?_eq_getElem hi, List.getElem?_eq_getElem (hlen ▸ hi),
        Option.map_some, Option.some.injEq] at this
      apply Classical.byContradiction
      intro hne
      exact hcol ⟨i, hi, hlen ▸ hi, hne, this⟩
  · exact Or.inr (Or.inr hc)

/-! ## F4: value level -/

/-- `Digester.merge H` is never injective in the pair -/
theorem digester_merge_not_injective (H : Bytes → Bytes) :
    ¬ ∀ a b c d : Bytes, merge H a b = merge H c d → a = c ∧ b = d :=
  Vacuity.C09.concat_merge_not_injective H

/-- an injective pairing on byte strings: unary length of the left part, a separator, both parts -/
def encM (a b : Bytes) : Bytes := List.replicate a.length 1 ++ 0 :: (a ++ b)

theorem unary_inj : ∀ (n n' : Nat) (x y : Bytes),
    List.replicate n (1 : UInt8) ++ 0 :: x = List.replicate n' 1 ++ 0 :: y → n = n' ∧ x = y := by
  intro n
  induction n with
  | zero =>
    intro n' x y h
    cases n' with
    | zero => simpa using h
    | succ k => simp [List.replicate_succ] at h
  | succ k ih =>
    intro n' x y h
    cases n' with
    | zero => simp [List.replicate_succ] at h
    | succ k' =>
      simp only [List.replicate_succ, List.cons_append, List.cons.injEq, true_and] at h
      obtain ⟨e1, e2⟩ := ih k' x y h
      exact ⟨by omega, e2⟩

/-- `hinj` of `C12_root_injective` is satisfiable on `Bytes` -/
theorem encM_inj (a b c d : Bytes) (h : encM a b = encM c d) : a = c ∧ b = d := by
  obtain ⟨hl, he⟩ := unary_inj _ _ _ _ h
  exact List.append_inj he hl

theorem encM_head (a b : Bytes) : ∃ t, encM a b = 0 :: t ∨ encM a b = 1 :: t := by
  unfold encM
  cases a with
  | nil => exact ⟨_, Or.inl rfl⟩
  | cons x xs => exact ⟨List.replicate xs.length 1 ++ 0 :: (x :: xs ++ b), Or.inr (by simp [List.replicate_succ])⟩

theorem two_not_merge (t : Bytes) : ¬ ExprTree.IsMerge encM (2 :: t) := by
  rintro ⟨a, b, e⟩
  obtain ⟨u, h | h⟩ := encM_head a b <;> rw [h] at e <;> simp at e

/-- **`C12_root_injective`: all hypotheses at once** (three leaves, two peaks) -/
example : (∀ a b c d, encM a b = encM c d → a = c ∧ b = d) ∧
    (∀ a ∈ ([[2], [2, 3], [2, 4]] : List Bytes), ¬ ExprTree.IsMerge encM a) ∧
    MmrBuild.root encM [[2], [2, 3], [2, 4]] = some (encM [2, 4] (encM [2] [2, 3])) := by
  refine ⟨encM_inj, ?_, by decide +kernel⟩
  intro a ha
  simp only [List.mem_cons, List.mem_nil_iff, or_false] at ha
  rcases ha with rfl | rfl | rfl <;> exact two_not_merge _

/-! ## a concrete database on which the byte-level hypotheses hold and the collision disjunct is false -/

def e1 : Entry Nat := ⟨str "00001.chunk", true, 7⟩
def e2 : Entry Nat := ⟨str "00001.primary", true, 8⟩
def e3 : Entry Nat := ⟨str "00002.chunk", true, 9⟩
def eTmp : Entry Nat := ⟨str "00001.chunk.tmp", true, 5⟩
def f1 : IFile Nat := ⟨1, str "00001.chunk", 7⟩
def f2 : IFile Nat := ⟨1, str "00001.primary", 8⟩

/-- "hex SHA-256" of the toy contents: 64 copies of one ASCII digit -/
def shaT (n : Nat) : Bytes := List.replicate 64 (48 + (n % 10).toUInt8)

def c (b : UInt8) : Bytes := List.replicate 32 b

/-- table node hash, 32-byte outputs; the one input of the root over the two digests has a private value -/
def hT (x : Bytes) : Bytes := if x = shaT 7 ++ shaT 8 then c 1 else c 0

theorem hT_len (x : Bytes) : (hT x).length = 32 := by unfold hT; split <;> simp [c]
theorem shaT_len (n : Nat) : (shaT n).length = 64 := by simp [shaT]

theorem listAll_w : listAll [e2, e1] = some [f1, f2] := by
  have i1 : isImm e1 = true := by decide
  have i2 : isImm e2 = true := by decide
  have n1 : numberOf e1.name = some 1 := by decide
  have n2 : numberOf e2.name = some 1 := by decide
  unfold listAll
  simp only [List.filter_cons, i1, i2, if_true, List.filter_nil, List.all_cons, List.all_nil, n1, n2,
    Option.isSome_some, Bool.and_self, List.filterMap_cons, mkFile, Option.map_some, List.filterMap_nil]
  have : le (⟨1, str "00001.primary", 8⟩ : IFile Nat) ⟨1, str "00001.chunk", 7⟩ = false := by decide
  simp [List.mergeSort, List.MergeSort.Internal.splitInTwo, this, e1, e2, f1, f2]

theorem toProcess_w : toProcess [e2, e1] 1 = .ok [f1, f2] := by
  unfold toProcess kept
  rw [listAll_w]
  rfl

def rW : Result := { root := c 1, leaves := [shaT 7, shaT 8], cache := updateCache shaT [] [f1, f2] }

theorem rootIn_w : rootIn shaT hT [] [e2, e1] 1 = .ok rW := by
  unfold rootIn
  rw [toProcess_w]
  have hl : [f1, f2].map (digestOf shaT []) = [shaT 7, shaT 8] := by decide +kernel
  have hr : MmrBuild.root (merge hT) [shaT 7, shaT 8] = some (c 1) := by decide +kernel
  simp only [hl, hr, rW]

/-- the same database listed in another order, with a temporary file and a file beyond the beacon -/
theorem rootIn_w' : rootIn shaT hT [] ([e1, e2] ++ [eTmp, e3]) 1 = .ok rW := by
  have hd : DistinctNames ([e1, e2] ++ [eTmp, e3]) := by unfold DistinctNames; decide
  have hirr : ∀ e ∈ [eTmp, e3], Irrelevant 1 e := by
    intro e he
    simp only [List.mem_cons, List.mem_nil_iff, or_false] at he
    rcases he with rfl | rfl
    · exact Or.inl (by decide)
    · exact Or.inr ⟨2, by decide, by decide⟩
  rw [C12_irrelevant_files shaT hT [] [e1, e2] [eTmp, e3] 1 hd hirr]
  rw [C12_listing_order shaT hT [] (List.Perm.swap e2 e1 []) (by unfold DistinctNames; decide) 1]
  exact rootIn_w

theorem hashInputs_w : MmrBytes.hashInputs hT [shaT 7, shaT 8] = [shaT 7 ++ shaT 8] := by decide +kernel

/-- the explicit collision disjunct of the byte-level theorems is NOT automatic: false on this world -/
theorem collisionIn_not_automatic :
    ¬ ∃ x ∈ MmrBytes.hashInputs hT rW.leaves, ∃ y ∈ MmrBytes.hashInputs hT rW.leaves, x ≠ y ∧ hT x = hT y := by
  rintro ⟨x, hx, y, hy, hne, _⟩
  have e : rW.leaves = [shaT 7, shaT 8] := rfl
  rw [e, hashInputs_w] at hx hy
  simp only [List.mem_cons, List.mem_nil_iff, or_false] at hx hy
  exact hne (hx.trans hy.symm)

/-- **`C12_sensitive_any_shape`, `C12_change_detected_any_shape`, `C12_root_injective_bytes` and the repaired
`…_witness` theorems: all hypotheses at once**, two different listings of one database (other order, a
temporary file, a file beyond the beacon), a real root, collision disjuncts false -/
example : (∀ x, (shaT x).length = 64) ∧ (∀ x, (hT x).length = 32) ∧
    rootIn shaT hT [] [e2, e1] 1 = .ok rW ∧ rootIn shaT hT [] ([e1, e2] ++ [eTmp, e3]) 1 = .ok rW ∧
    toProcess [e2, e1] 1 = .ok [f1, f2] ∧ rW.root = rW.root ∧
    (∀ f ∈ [f1, f2], (shaT f.content).length = 64) ∧ (∀ a ∈ rW.leaves, a.length = 64) ∧
    MmrBuild.root (merge hT) rW.leaves = some rW.root ∧
    ¬ (∃ (i : Nat) (hi : i < [f1, f2].length) (hi' : i < [f1, f2].length),
        [f1, f2][i].content ≠ [f1, f2][i].content ∧ shaT [f1, f2][i].content = shaT [f1, f2][i].content) :=
  ⟨shaT_len, hT_len, rootIn_w, rootIn_w', toProcess_w, rfl, fun f _ => shaT_len _,
    by decide +kernel, by decide +kernel, fun ⟨_, _, _, hne, _⟩ => hne rfl⟩

/-- `C12_tree_injective_bytes`: hypotheses on hex-digest leaves -/
example : (∀ a ∈ ExprTree.leaves (ExprTree.E.node (.leaf (shaT 7)) (.leaf (shaT 8))), MmrBytes.IsHexDigest a) := by
  intro a ha
  simp only [ExprTree.leaves, List.cons_append, List.nil_append, List.mem_cons, List.mem_nil_iff, or_false] at ha
  rcases ha with rfl | rfl <;> exact ⟨by decide +kernel, by decide +kernel⟩

/-! ## the remaining theorems: hypotheses over lists of entries -/

/-- `C12_listing_order`, `C12_irrelevant_files`: hypotheses (instantiated in `rootIn_w'` above, where both
theorems are USED on a database with a root) -/
example : [e2, e1].Perm [e1, e2] ∧ DistinctNames [e2, e1] ∧ DistinctNames ([e1, e2] ++ [eTmp, e3]) ∧
    Irrelevant 1 eTmp ∧ Irrelevant 1 e3 :=
  ⟨List.Perm.swap e1 e2 [], by unfold DistinctNames; decide, by unfold DistinctNames; decide,
    Or.inl (by decide), Or.inr ⟨2, by decide, by decide⟩⟩

/-- `C12_other_directories`: exactly one directory named `immutable`, the walk order of the others changed -/
example : let d : Name × List (Entry Nat) := (IMMUTABLE, [e2, e1])
    let o1 : Name × List (Entry Nat) := (str "ledger", [e3])
    let o2 : Name × List (Entry Nat) := (str "volatile", [])
    [o1, d, o2].Perm [o2, o1, d] ∧ [o1, d, o2].filter (·.1 = IMMUTABLE) = [d] ∧
    root shaT hT [] [o1, d, o2] 1 = .ok rW := by
  refine ⟨?_, by rfl, ?_⟩
  · exact (List.Perm.cons _ (List.Perm.swap _ _ _)).trans (List.Perm.swap _ _ _)
  · have : findImm ([(str "ledger", [e3]), (IMMUTABLE, [e2, e1]), (str "volatile", [])] : List (Name × List (Entry Nat)))
        = some [e2, e1] := by rfl
    unfold root; rw [this]; exact rootIn_w

/-- `C12_cache_sound`: a WARM cache (one hit, one miss) that is sound for the processed files -/
example : ∀ fs, toProcess [e2, e1] 1 = .ok fs → CacheOk shaT [(str "00001.chunk", shaT 7)] fs := by
  intro fs h
  rw [toProcess_w] at h
  cases h
  intro f hf d hl
  simp only [List.mem_cons, List.mem_nil_iff, or_false] at hf
  rcases hf with rfl | rfl
  · have : lookup [(str "00001.chunk", shaT 7)] f1.name = some (shaT 7) := by decide +kernel
    rw [this] at hl; cases hl; rfl
  · have : lookup [(str "00001.chunk", shaT 7)] f2.name = none := by decide +kernel
    rw [this] at hl; cases hl

/-- … and the cache is consulted: with an UNSOUND cached value the leaves differ (the hypothesis matters) -/
example : ([f1, f2].map (digestOf shaT [(str "00001.chunk", shaT 3)])) ≠ [f1, f2].map (digestOf shaT []) := by
  decide +kernel

/-- `C12_missing_last`: no immutable file carries the beacon's number -/
example : ∀ e ∈ [e2, e1], isImm e = true → numberOf e.name ≠ some 2 := by
  intro e he _
  simp only [List.mem_cons, List.mem_nil_iff, or_false] at he
  rcases he with rfl | rfl <;> decide

end Vacuity.C12
