import MithrilModel.Properties.C04
import Mathlib.Data.Fintype.Pigeonhole
import Mathlib.Data.Fintype.Pi
/-!
# Vacuity audit — C04

No C04 theorem has a refutable hypothesis (`H` is a universally quantified PARAMETER; the hypotheses are bounds on the
fields and the equality of two hashes). Two points:

1. satisfiability / the interesting branch: the statements are of the form "equal hashes ⇒ equal field ∨ Collision H";
   they are used in the contrapositive. `id_no_collision` gives a concrete `H` for which `¬ Collision H` is PROVED, and the
   instances below show both branches (field forced equal under an injective `H`; a collision under a constant `H`).
2. FINDING (trivially true conclusion at the intended instance): `Collision H := ∃ x y, x ≠ y ∧ H x = H y` holds OUTRIGHT
   for every `H` with outputs of one fixed length (`collision_of_fixed_length`, pigeonhole) — in particular for SHA-256,
   the instance the level text speaks about ("… or exhibit a SHA-256 collision"). At that instance every C04 theorem of
   the form `… ∨ Collision H` is true whatever the certificates are. The proofs do construct a SPECIFIC colliding pair (the
   two pre-images); the repaired statements below (`…_at`) say so: the disjunct names the pair, so the statement has
   content for every `H`, and each implies the original.
-/
set_option autoImplicit false
namespace Vacuity.C04
open CertModel
open CertHash (Bytes Collision u64be u64be_inj)

/-! ## the pigeonhole fact -/

/-- a function from byte strings to byte strings of ONE fixed length has a collision -/
theorem collision_of_fixed_length (H : List UInt8 → List UInt8) (n : Nat) (hlen : ∀ x, (H x).length = n) :
    ∃ x y, x ≠ y ∧ H x = H y := by
  let g : Nat → (Fin n → Fin 256) := fun k i =>
    ⟨((H (List.replicate k 0))[i.val]'(by rw [hlen]; exact i.isLt)).toNat, UInt8.toNat_lt _⟩
  obtain ⟨a, b, hab, hg⟩ := Finite.exists_ne_map_eq_of_infinite g
  refine ⟨List.replicate a 0, List.replicate b 0, ?_, ?_⟩
  · intro h
    have := congrArg List.length h
    simp at this
    exact hab this
  · apply List.ext_getElem
    · rw [hlen, hlen]
    · intro i h1 h2
      have hi : i < n := by rw [hlen] at h1; exact h1
      have := congrFun hg ⟨i, hi⟩
      simp only [g, Fin.mk.injEq] at this
      exact UInt8.toNat_inj.mp this

/-- no function with fixed-length outputs is injective on byte strings: the two hypotheses `hinj`, `hlen` that several
theorems of C09 (used by C01 and C06) assume TOGETHER are jointly unsatisfiable -/
theorem no_injective_fixed_length (H : List UInt8 → List UInt8) (n : Nat) :
    ¬ ((∀ x y, H x = H y → x = y) ∧ (∀ x, (H x).length = n)) := by
  rintro ⟨hinj, hlen⟩
  obtain ⟨x, y, hne, h⟩ := collision_of_fixed_length H n hlen
  exact hne (hinj x y h)

/-- at any hash with fixed-length output the collision disjunct of the C04 theorems is true by itself -/
theorem C04_collision_disjunct_trivial (H : Bytes → Bytes) (n : Nat) (hlen : ∀ x, (H x).length = n) : Collision H :=
  collision_of_fixed_length H n hlen

/-- e.g. `C04_field_previous_hash` "holds" at such an `H` for two certificates that DO differ, without any hypothesis on
their hashes -/
example (H : Bytes → Bytes) (hlen : ∀ x, (H x).length = 32) (c : Cert) (p' : Bytes) :
    c.previousHash = p' ∨ Collision H := Or.inr (C04_collision_disjunct_trivial H 32 hlen)

/-! ## repaired statements: the colliding pair is named -/

variable (H : Bytes → Bytes)

/-- `x`, `y` are a collision of `H` -/
def CollisionAt (x y : Bytes) : Prop := x ≠ y ∧ H x = H y

theorem collision_of_at {H : Bytes → Bytes} {x y : Bytes} (h : CollisionAt H x y) : Collision H := ⟨x, y, h.1, h.2⟩

theorem hexH_eq_at (x y : Bytes) (h : hexOf (H x) = hexOf (H y)) : x = y ∨ CollisionAt H x y := by
  have := hexOf_inj _ _ h
  by_cases he : x = y
  · exact Or.inl he
  · exact Or.inr ⟨he, this⟩

/-- master statement, explicit: the collision (if any) is the pair of the two certificate pre-images -/
theorem C04_cert_single_segment_at (c c' : Cert) (i : Nat)
    (hagree : ∀ j, j ≠ i → (certSegs H c)[j]? = (certSegs H c')[j]?)
    (hh : certHash H c = certHash H c') :
    (certSegs H c)[i]? = (certSegs H c')[i]? ∨ CollisionAt H (certSegs H c).flatten (certSegs H c').flatten := by
  rcases hexH_eq_at H _ _ hh with hp | hc
  · exact Or.inl (segs_single _ _ i rfl hagree hp)
  · exact Or.inr hc

/-- it implies the original -/
example (c c' : Cert) (i : Nat) (hagree : ∀ j, j ≠ i → (certSegs H c)[j]? = (certSegs H c')[j]?)
    (hh : certHash H c = certHash H c') : (certSegs H c)[i]? = (certSegs H c')[i]? ∨ Collision H :=
  (C04_cert_single_segment_at H c c' i hagree hh).imp id collision_of_at

theorem C04_field_previous_hash_at (c : Cert) (p' : Bytes)
    (hh : certHash H c = certHash H { c with previousHash := p' }) :
    c.previousHash = p' ∨ CollisionAt H (certSegs H c).flatten (certSegs H { c with previousHash := p' }).flatten := by
  rcases C04_cert_single_segment_at H c { c with previousHash := p' } 0 (by agree_outside) hh with h | h
  · left; simpa [certSegs] using h
  · exact Or.inr h

theorem C04_field_epoch_at (c : Cert) (e' : Nat) (he : c.epoch < 2^64) (he' : e' < 2^64)
    (hh : certHash H c = certHash H { c with epoch := e' }) :
    c.epoch = e' ∨ CollisionAt H (certSegs H c).flatten (certSegs H { c with epoch := e' }).flatten := by
  rcases C04_cert_single_segment_at H c { c with epoch := e' } 1 (by agree_outside) hh with h | h
  · left; exact u64be_inj he he' (by simpa [certSegs] using h)
  · exact Or.inr h

theorem C04_field_signed_message_at (c : Cert) (m' : Bytes)
    (hh : certHash H c = certHash H { c with signedMessage := m' }) :
    c.signedMessage = m' ∨ CollisionAt H (certSegs H c).flatten (certSegs H { c with signedMessage := m' }).flatten := by
  rcases C04_cert_single_segment_at H c { c with signedMessage := m' } 4 (by agree_outside) hh with h | h
  · left; simpa [certSegs] using h
  · exact Or.inr h

theorem C04_field_avk_at (c : Cert) (a' : Bytes)
    (hh : certHash H c = certHash H { c with avkHex := a' }) :
    c.avkHex = a' ∨ CollisionAt H (certSegs H c).flatten (certSegs H { c with avkHex := a' }).flatten := by
  rcases C04_cert_single_segment_at H c { c with avkHex := a' } 5 (by agree_outside) hh with h | h
  · left; simpa [certSegs] using h
  · exact Or.inr h

theorem C04_field_signature_at (c : Cert) (s' : Bytes)
    (hh : certHash H c = certHash H { c with sigHex := s' }) :
    c.sigHex = s' ∨ CollisionAt H (certSegs H c).flatten (certSegs H { c with sigHex := s' }).flatten := by
  rcases C04_cert_single_segment_at H c { c with sigHex := s' } 7 (by agree_outside) hh with h | h
  · left; simpa [certSegs] using h
  · exact Or.inr h

/-- metadata: the collision is at the certificate level or at the metadata level, both pairs named -/
theorem C04_field_metadata_at (c : Cert) (m' : Meta)
    (hh : certHash H c = certHash H { c with metadata := m' }) :
    (metaSegs H c.metadata).flatten = (metaSegs H m').flatten ∨
      CollisionAt H (certSegs H c).flatten (certSegs H { c with metadata := m' }).flatten ∨
      CollisionAt H (metaSegs H c.metadata).flatten (metaSegs H m').flatten := by
  rcases C04_cert_single_segment_at H c { c with metadata := m' } 2 (by agree_outside) hh with h | h
  · have : metaHash H c.metadata = metaHash H m' := by simpa [certSegs] using h
    rcases hexH_eq_at H _ _ this with h1 | h1
    · exact Or.inl h1
    · exact Or.inr (Or.inr h1)
  · exact Or.inr (Or.inl h)

theorem C04_params_at (p p' : Params) (hk : p.k < 2^64) (hk' : p'.k < 2^64) (hm : p.m < 2^64) (hm' : p'.m < 2^64)
    (hf : PhiOk p.phi) (hf' : PhiOk p'.phi) (hh : paramsHash H p = paramsHash H p') :
    p = p' ∨ CollisionAt H (paramsSegs p).flatten (paramsSegs p').flatten := by
  rcases hexH_eq_at H _ _ hh with hp | hc
  · left
    simp only [paramsSegs, List.flatten_cons, List.flatten_nil, List.append_nil] at hp
    have h1 := List.append_inj hp (by rfl)
    have h2 := List.append_inj h1.2 (by rfl)
    have ek := u64be_inj hk hk' h1.1
    have em := u64be_inj hm hm' h2.1
    have ef := phiSeg_inj hf hf' h2.2
    cases p; cases p'; simp_all
  · exact Or.inr hc

theorem C04_party_at (p p' : Party) (hs : p.stake < 2^64) (hs' : p'.stake < 2^64)
    (hh : partyHash H p = partyHash H p') :
    p = p' ∨ CollisionAt H (partySegs p).flatten (partySegs p').flatten := by
  rcases hexH_eq_at H _ _ hh with hp | hc
  · left
    simp only [partySegs, List.flatten_cons, List.flatten_nil, List.append_nil] at hp
    have hl : p.id.length = p'.id.length := by
      have := congrArg List.length hp
      simp [CertHash.u64be_length] at this; omega
    have h1 := List.append_inj hp hl
    have es := u64be_inj hs hs' h1.2
    cases p; cases p'; simp_all
  · exact Or.inr hc

theorem C04_pm_single_value_at (pm pm' : List (Bytes × Bytes)) (i : Nat) (hl : pm.length = pm'.length)
    (hagree : ∀ j, j ≠ i → (pmSegs pm)[j]? = (pmSegs pm')[j]?)
    (hh : pmHash H pm = pmHash H pm') :
    (pmSegs pm)[i]? = (pmSegs pm')[i]? ∨ CollisionAt H (pmSegs pm).flatten (pmSegs pm').flatten := by
  rcases hexH_eq_at H _ _ hh with hp | hc
  · exact Or.inl (segs_single _ _ i (by rw [C04.pmSegs_length, C04.pmSegs_length, hl]) hagree hp)
  · exact Or.inr hc

/-- digest injectivity of protocol messages, the colliding texts named -/
theorem C04_pm_digest_injective_at {β : Type} (Hc : List Char → β)
    (m m' : List (List Char × List Char)) (h : PmInj.WF m) (h' : PmInj.WF m')
    (he : Hc (PmInj.pre m) = Hc (PmInj.pre m')) :
    m = m' ∨ (PmInj.pre m ≠ PmInj.pre m' ∧ Hc (PmInj.pre m) = Hc (PmInj.pre m')) := by
  by_cases hp : PmInj.pre m = PmInj.pre m'
  · exact Or.inl (PmInj.preimage_injective m m' h h' hp)
  · exact Or.inr ⟨hp, he⟩

/-! ## instances: a hash for which `¬ Collision` is proved, and both branches of the conclusions -/

theorem id_no_collision : ¬ Collision (fun b : Bytes => b) := fun ⟨_, _, hne, h⟩ => hne h

def meta0 : Meta :=
  { network := [109, 97, 105, 110], version := [48, 46, 49]
    params := { k := 5, m := 100, phi := .fixed 3355443 }
    initiatedNs := -1700000000123456789, sealedNs := 1700000000999999999
    signers := [{ id := [112, 49], stake := 2 ^ 64 - 1 }, { id := [112, 50], stake := 0 }] }

def c0 : Cert :=
  { previousHash := [1, 2, 3], epoch := 7, metadata := meta0
    pm := [([107], [118])], signedMessage := [9, 9], avkHex := [55, 98]
    entity := some (.cdb 7 3), sigHex := [100], ancProver := none, ancVerifier := some [4] }

/-- `C04_field_previous_hash` etc. with the injective `H = id`: the hypothesis "hashes equal" can then only hold with the
field unchanged — and when the field IS changed the hashes differ (the contrapositive, which is how the theorems are
used), here obtained FROM the theorem -/
example : certHash (fun b => b) c0 ≠ certHash (fun b => b) { c0 with previousHash := [1, 2, 4] } := by
  intro hh
  rcases C04.C04_field_previous_hash _ c0 [1, 2, 4] hh with h | h
  · revert h; decide
  · exact id_no_collision h

example : c0.epoch < 2 ^ 64 ∧ (8 : Nat) < 2 ^ 64 ∧
    certHash (fun b => b) c0 ≠ certHash (fun b => b) { c0 with epoch := 8 } := by
  refine ⟨by decide, by decide, ?_⟩
  intro hh
  rcases C04.C04_field_epoch _ c0 8 (by decide) (by decide) hh with h | h
  · revert h; decide
  · exact id_no_collision h

/-- nested level (metadata → parameters), bounds and `PhiOk` met, a `raw` against a `fixed` phi -/
example :
    let p' : Params := { k := 5, m := 100, phi := .raw 0x4070033333333333 }
    (meta0.params.k < 2^64 ∧ meta0.params.m < 2^64 ∧ PhiOk meta0.params.phi) ∧ (p'.k < 2^64 ∧ p'.m < 2^64 ∧ PhiOk p'.phi) ∧
    paramsHash (fun b => b) meta0.params ≠ paramsHash (fun b => b) p' := by
  refine ⟨⟨by decide, by decide, (by show (3355443 : Nat) < 2 ^ 32; decide)⟩, ⟨by decide, by decide, (by show (0x4070033333333333 : Nat) < 2 ^ 64; decide)⟩, ?_⟩
  intro hh
  rcases C04.C04_params _ _ _ (by decide) (by decide) (by decide) (by decide) (by show (3355443 : Nat) < 2 ^ 32; decide) (by show (0x4070033333333333 : Nat) < 2 ^ 64; decide) hh with h | h
  · revert h; decide
  · exact id_no_collision h

/-- timestamps: a negative value (two's complement branch of `i64be`) inside the bounds -/
example :
    (-(2^63) ≤ meta0.initiatedNs ∧ meta0.initiatedNs < 2^63) ∧ (-(2^63) ≤ (-1 : Int) ∧ (-1 : Int) < 2^63) ∧
    (metaSegs (fun b => b) meta0).flatten ≠ (metaSegs (fun b => b) { meta0 with initiatedNs := -1 }).flatten := by
  refine ⟨by decide, by decide, ?_⟩
  intro hflat
  have := C04.C04_meta_initiated_at _ meta0 (-1) (by decide) (by decide) hflat
  revert this; decide

/-- ancillary data present on both sides (`hc`) -/
example : c0.ancVerifier = some [4] ∧
    certHash (fun b => b) c0 ≠ certHash (fun b => b) { c0 with ancVerifier := some [5] } := by
  refine ⟨rfl, ?_⟩
  intro hh
  rcases C04.C04_field_ancillary_verifier _ c0 [4] [5] rfl hh with h | h
  · revert h; decide
  · exact id_no_collision h

/-- the other branch: under a constant hash the field differs, the hashes are equal, and the named pair IS a collision -/
example :
    let K : Bytes → Bytes := fun _ => []
    c0.previousHash ≠ [1, 2, 4] ∧ certHash K c0 = certHash K { c0 with previousHash := [1, 2, 4] } ∧
    CollisionAt K (certSegs K c0).flatten (certSegs K { c0 with previousHash := [1, 2, 4] }).flatten := by
  refine ⟨by decide, rfl, ?_, rfl⟩
  decide

/-- `C04_entity_collision_cert`: hypothesis met by `c0` (a `CardanoDatabase` certificate), and the two certificates differ -/
example : c0.entity = some (.cdb 7 3) ∧ c0 ≠ { c0 with entity := some (.ctx 7 3) } := ⟨rfl, by decide⟩

/-- `C04_pm_digest_injective` with the injective digest `Hc = id` on two different well-formed messages: digests differ -/
example :
    let m : List (List Char × List Char) := [("current_epoch".toList, "42".toList)]
    let m' : List (List Char × List Char) := [("current_epoch".toList, "4".toList), ("latest_block_number".toList, "2".toList)]
    PmInj.WF m ∧ PmInj.WF m' ∧ m ≠ m' ∧ PmInj.pre m ≠ PmInj.pre m' := by
  refine ⟨?_, ?_, by decide, by decide⟩
  · intro kv hkv
    simp only [List.mem_cons, List.mem_nil_iff, or_false] at hkv
    rcases hkv with rfl; exact ⟨by decide, by decide⟩
  · intro kv hkv
    simp only [List.mem_cons, List.mem_nil_iff, or_false] at hkv
    rcases hkv with rfl | rfl <;> exact ⟨by decide, by decide⟩

/-- `C04_entity_partial_cdb`, `C04_party`, `C04_phi_ok`: bounds met at the u64 / f64 extremes -/
example : (2 ^ 64 - 1 : Nat) < 2 ^ 64 ∧ PhiOk (PhiModel.phiOfF64 (2 ^ 64 - 1)) := ⟨by decide, C04.C04_phi_ok _ (by decide)⟩

/-! ## observation (outside the single-field statement; no vacuity): the pre-image has no separators

Two certificates that differ in TWO adjacent variable-length fields can have the same pre-image, hence the same hash for
EVERY `H` — no collision involved. `hagree` ("agree outside ONE segment") is what excludes this in
`C04_cert_single_segment`; tamper evidence beyond single-field changes rests on the fixed formats of the honest values
(64 hex characters for the signed message, …), which the model does not state. -/
theorem two_field_shift_same_hash (H : Bytes → Bytes) :
    c0 ≠ { c0 with signedMessage := [9], avkHex := [9, 55, 98] } ∧
    certHash H c0 = certHash H { c0 with signedMessage := [9], avkHex := [9, 55, 98] } := by
  refine ⟨by decide, ?_⟩
  simp [certHash, certSegs, c0]

end Vacuity.C04
