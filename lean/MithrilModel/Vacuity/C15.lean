import MithrilModel.Properties.C15
import MithrilModel.Vacuity.C14
/-!
# Vacuity audit — C15

Every hypothesis of the theorems of `Properties/C15.lean` instantiated at once on `Agg.Ex` / `Agg.hist` (the file's own
examples check `Productive` / `PlanOk` and the conclusions, but not the run hypotheses `RunWfC`, `Wf`, nor `FreshPlan`).
`QuorumByIndices E k` — the only hypothesis that quantifies over all arguments of an environment function — is proved
for the concrete `Ex` (`Agg.Ex_quorum`), and for a second environment with a per-entity test below. Nothing was refuted.
-/
namespace Vacuity.C15
open Agg Vacuity.C14

/-! ### `C15_store_verifies`, `C15_parent_rule` (hypothesis `RunWfC`), `C15_one_artifact`, `C15_signature_table`,
`C15_flag_has_certificate` (no hypothesis): a history WITH a cut tick -/

/-- `evsC`: `hist`, a tick cut between the certificate insert and the open-message update, restart, four productive
rounds over two epochs. Six certificates — entity 20 twice (the C15 note) —, every one passes the chain verifier
(evaluated), four artifacts each referencing a stored certificate of its entity, four signature rows, two open
messages flagged certified with their certificates stored. -/
example : RunWfC Ex (init 2 1) evsC ∧
    finalC.certs.map (fun c => (c.id, c.entity, c.epoch, c.parent)) =
      [(0, none, 1, none), (1, some 20, 2, some 0), (2, some 20, 2, some 1), (3, some 21, 2, some 1),
       (4, some 30, 3, some 1), (5, some 31, 3, some 4)] ∧
    finalC.certs.all (verifies finalC.certs) = true ∧
    finalC.ses = [(20, 2), (21, 3), (30, 4), (31, 5)] ∧
    finalC.sigs.map (fun r => (r.entity, r.party, r.signer)) = [(30, 0, 0), (30, 1, 1), (31, 0, 0), (31, 1, 1)] ∧
    finalC.oms.map (fun o => (o.entity, o.certified)) = [(30, true), (31, true)] := by
  decide +kernel

/-! ### `C15_progress_partial`, `C15_progress_forever` (hypotheses `RunWfC`, `Wf`, `QuorumByIndices`, `Productive`, `PlanOk`) -/

/-- the three hypotheses the file's examples leave out (they check `Productive` / `PlanOk` and the conclusion for all
nine crash points): the history is a well-formed run, the cut tick is well formed in the state it meets, the
environment's quorum test accepts 2 distinct indices -/
example : RunWfC Ex (init 2 1) hist ∧ Wf Ex (hist.foldl (step Ex) (init 2 1)) (tpx 2 [20]) ∧ QuorumByIndices Ex 2 ∧
    allPoints.all (fun p => decide (Productive Ex 2 (postCrash p) (rdx 2 [20, 21]))) = true :=
  ⟨by decide +kernel, by decide +kernel, Ex_quorum, by decide +kernel⟩

/-- `QuorumByIndices` for an environment whose test is NOT `quorumIdx` itself: per-entity thresholds (entity 20 needs
one index, the others two) satisfy it for `k = 2` because the count of distinct indices is monotone in the threshold -/
def ExQ : Env := { Ex with quorum := fun e rows => quorumIdx (if e = 20 then 1 else 2) rows }

theorem ExQ_quorum : QuorumByIndices ExQ 2 := by
  intro e rows h
  show quorumIdx (if e = 20 then 1 else 2) rows = true
  unfold quorumIdx at *
  split <;> simp at h ⊢ <;> omega

/-- … and it is not satisfied by every environment (the hypothesis does constrain `E`) -/
example : ¬ QuorumByIndices { Ex with quorum := fun _ _ => false } 0 := by
  intro h
  have := h 0 [] (by decide)
  cases this

/-! ### `C15_genesis_of_run`, `C15_progress_resumes` -/

example : (1 : Nat) < (tpx 2 [20]).epoch ∧ preNeeded (hist.foldl (step Ex) (init 2 1)) (tpx 2 [20]) = true := by
  decide +kernel

/-- `hav` and the premise `openable … = true` of the first conjunct; the premises of the second -/
example : (tpx 2 [20, 21]).avail = 20 :: [21] ∧
    openable (tpx 2 [20, 21]).now (postCrash .certBeforeInsert).oms 20 = true ∧
    target (postCrash .certBeforeInsert) (tpx 2 [20, 21]) = some 20 ∧
    (findOm 20 (postCrash .certBeforeInsert).oms).map (·.certified) = some false ∧
    -- after the cut behind the update the flagged entity is passed over
    openable (tpx 2 [20, 21]).now (postCrash .certAfterUpdate).oms 20 = false ∧
    target (postCrash .certAfterUpdate) (tpx 2 [20, 21]) = some 21 := by
  decide +kernel

/-! ### `C15_progress_forever_fresh` (hypothesis `FreshPlan`, an existential per round: no instance in the file) -/

def freshRest : List Round := [rdx 2 [21], rdx 3 [30]]

theorem freshPlan_holds : FreshPlan Ex 2 (postCrash .certBeforeInsert) 2 [20] freshRest :=
  ⟨21, rfl, by decide, by decide +kernel, rfl, by decide, by decide, by decide +kernel, by decide +kernel, by decide,
   30, rfl, by decide, by decide +kernel, rfl, by decide, by decide, by decide +kernel, by decide +kernel, by decide,
   trivial⟩

/-- all hypotheses of `C15_progress_forever_fresh` at once, and its conclusion evaluated: three more certificates -/
example : RunWfC Ex (init 2 1) hist ∧ Wf Ex (hist.foldl (step Ex) (init 2 1)) (tpx 2 [20]) ∧ QuorumByIndices Ex 2 ∧
    Productive Ex 2 (postCrash .certBeforeInsert) (rdx 2 [20, 21]) ∧
    target (postCrash .certBeforeInsert) (rdx 2 [20, 21]).tp = some 20 ∧
    FreshPlan Ex 2 (postCrash .certBeforeInsert) (rdx 2 [20, 21]).tp.epoch [20] freshRest ∧
    (((runPlan Ex (postCrash .certBeforeInsert) (rdx 2 [20, 21] :: freshRest)).foldl (step Ex)
        (postCrash .certBeforeInsert)).certs.map (·.entity)) = [none, some 20, some 21, some 30] :=
  ⟨by decide +kernel, by decide +kernel, Ex_quorum, by decide +kernel, by decide +kernel, freshPlan_holds,
   by decide +kernel⟩

end Vacuity.C15
