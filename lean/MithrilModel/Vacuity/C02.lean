import MithrilModel.Properties.C02
/-!
# Vacuity audit — C02

Every hypothesis of the C02 theorems is about the lists handed in (no global hypothesis). Joint instances below, with an
invalid signature, a repeated copy and a shared index in the input, and a verifier world whose oracles are not constant.
-/
set_option autoImplicit false
namespace Vacuity.C02
open Clerk

/-- an invalid signature claiming fresh indices, and an index-subset copy of `s1` -/
def bad : Sig := { sigma := 1, party := 2, signer := 2, idxs := [8, 9], valid := false }
def s1sub : Sig := { s1 with idxs := [4] }
def s3 : Sig := { sigma := 9, party := 3, signer := 3, idxs := [6], valid := true }

/-- `C02_complete`: all four hypotheses at once (`k = 3 > 0`, `I = [1, 4, 5]` without repetition, every index of `I` offered
by a valid signature of the list, `k ≤ |I|`) on a list with an invalid signature, a repeated copy and a shared index;
the invalid signature's indices 8, 9 are NOT selected -/
example :
    0 < 3 ∧ [1, 4, 5].Nodup ∧
    (∀ i ∈ [1, 4, 5], ∃ s ∈ [s1, bad, s2, s1], s.valid = true ∧ i ∈ s.idxs) ∧ 3 ≤ [1, 4, 5].length ∧
    (selectMerged 3 [s1, bad, s2, s1]).toOption.map (·.map fun o => (o.party, o.idxs)) = some [(1, [4, 5]), (0, [1])] := by
  decide

/-- `C02_select_sound`: the success branch, with arbitration of the shared index 4 (smaller sigma wins) -/
example : ∃ out, selectMerged 3 [s1, bad, s2, s1] = .ok out ∧ out.length = 2 := ⟨_, rfl, rfl⟩

/-- `C02_monotone`: `l` succeeds, `l'` is a strict super-list with a repeated copy, invalid material, an index-subset
copy and one more honest signature -/
example :
    0 < 3 ∧ [s1, s2].Sublist [s1sub, s1, bad, s2, s1, s3] ∧ (∃ out, selectMerged 3 [s1, s2] = .ok out) ∧
    (∃ out', selectMerged 3 [s1sub, s1, bad, s2, s1, s3] = .ok out') := by
  refine ⟨by decide, ?_, ⟨_, rfl⟩, ⟨_, rfl⟩⟩
  exact .cons _ (.cons_cons _ (.cons _ (.cons_cons _ (.cons _ (.cons _ .slnil)))))

/-- `C02_monotone_offers` with an `Offers` that is neither a sub-list nor a permutation: the indices of `s1` split over
two copies -/
example :
    Offers [s1] [{ s1 with idxs := [1] }, { s1 with idxs := [4] }] ∧ (∃ o, selectMerged 2 [s1] = .ok o) ∧
    (∃ o, selectMerged 2 [{ s1 with idxs := [1] }, { s1 with idxs := [4] }] = .ok o) := by
  refine ⟨?_, ⟨_, rfl⟩, ⟨_, rfl⟩⟩
  intro s hs _ i hi
  simp only [List.mem_singleton] at hs
  subst hs
  simp only [s1, List.mem_cons, List.not_mem_nil, or_false] at hi
  rcases hi with rfl | rfl
  · exact ⟨_, List.mem_cons_self, rfl, by simp⟩
  · exact ⟨_, List.mem_cons_of_mem _ List.mem_cons_self, rfl, by simp⟩

/-- `C02_order_independent`: both sides of the iff are the interesting (true) case, on a non-identical permutation -/
example : [s1, bad, s2].Perm [s2, s1, bad] ∧ (∃ o, selectMerged 3 [s1, bad, s2] = .ok o) ∧
    (∃ o, selectMerged 3 [s2, s1, bad] = .ok o) := by
  exact ⟨by decide, ⟨_, rfl⟩, ⟨_, rfl⟩⟩

/-- … and the false case: too few indices, in both orders -/
example : selectMerged 4 [s1, bad, s2] = .error 3 ∧ selectMerged 4 [s2, s1, bad] = .error 3 := ⟨rfl, rfl⟩

/-- `C02_invalid_ignored` (NOTE: one unfolding of `normStep`, which IS `if s.valid then … else acc`) -/
example : bad.valid = false ∧ normStep [s1] bad = [s1] := ⟨rfl, rfl⟩

/-! ### `C02_aggregate_verifies`: all four hypotheses at once, in a world with non-constant oracles -/

/-- the verifier world: a lottery verdict that depends on sigma, index and stake (stake = party + 1); batch path and
aggregate verdicts that depend on the pairs they are given -/
def E : StmVerify.Env :=
  { m := 6, k := 3
    won := fun sigma i stake => decide (i ∈ [1, 4, 5] ∧ (sigma = 7 → i ≠ 5) ∧ 0 < stake)
    batchOk := fun l => l.all fun p => p.2 == p.1 + 1
    aggOk := fun l => l.all fun p => p.2 == 7 - 4 * p.1 }

def stakeOf (p : Nat) : Nat := p + 1

example :
    ∃ out, selectMerged E.k [s1, bad, s2, s1] = .ok out ∧
    (∀ s ∈ [s1, bad, s2, s1], s.valid = true → ∀ i ∈ s.idxs, i < E.m ∧ E.won s.sigma i (stakeOf s.party) = true) ∧
    E.batchOk ((out.map (ClerkVerify.conv stakeOf)).map fun s => (s.vk, s.stake)) = true ∧
    E.aggOk ((out.map (ClerkVerify.conv stakeOf)).map fun s => (s.vk, s.sigma)) = true ∧
    StmVerify.verify E (out.map (ClerkVerify.conv stakeOf)) = .ok () ∧
    -- the world is not the constant one: the invalid signature's indices are lost / out of range, a foreign pair fails
    E.won bad.sigma 8 (stakeOf bad.party) = false ∧ E.aggOk [(0, 3)] = false ∧ E.batchOk [(0, 5)] = false := by
  refine ⟨_, rfl, by decide, by decide, by decide, rfl, by decide, by decide, by decide⟩

end Vacuity.C02
