import MithrilModel.Properties.C06
import MithrilModel.Vacuity.C04
/-!
# Vacuity audit — C06

FINDING: `C06_distinct` (`C09.C09_stm_root_injective`, listed as an obligation of C06: "distinct registration sets yield
distinct keys") assumes `hinj : ∀ x y, H x = H y → x = y` AND `hlen : ∀ x, (H x).length = 32` for `H : Bytes → Bytes`. No
function satisfies both (pigeonhole): the theorem is VACUOUS (`C06_distinct_hypotheses_unsatisfiable`). Repaired here:
`root_injective_on` asks for injectivity and the output length only ON the finitely many byte strings hashed in the two root
computations (`hashed2`), `root_injective_or_collision` returns the colliding pair among them; `H0` is a concrete function
for which the relativised hypotheses are PROVED, on equal and on different registrations. `avk_injective_on` states the
clause on `RegModel.avk` itself (same key ⇒ the two lists are permutations of each other).

Other notes: `C06_paths` is `rfl` (`avk H l = avk H l`; said so in its docstring); every other hypothesis is about the
lists / histories at hand; joint instances below.
-/
set_option autoImplicit false
namespace Vacuity.C06
section root
open StmBatch

/-! ## the finding -/

/-- the two global hypotheses of `C06_distinct` cannot hold together, for any `H` -/
theorem C06_distinct_hypotheses_unsatisfiable (H : Bytes → Bytes) :
    ¬ ((∀ x y, H x = H y → x = y) ∧ (∀ x, (H x).length = 32)) :=
  Vacuity.C04.no_injective_fixed_length H 32

/-- … so it "proves" anything: e.g. that two DIFFERENT registrations are equal -/
example (H : Bytes → Bytes) (hinj : ∀ x y, H x = H y → x = y) (hlen : ∀ x, (H x).length = 32) :
    [List.replicate 104 (1 : UInt8)] = [List.replicate 104 (2 : UInt8)] :=
  absurd ⟨hinj, hlen⟩ (C06_distinct_hypotheses_unsatisfiable H)

/-! ## the repair: injectivity relative to what is hashed -/

/-- the byte strings that are hashed while `sub H L (H [0]) off h p` is computed (node pre-images, leaf pre-images, and
`[0]` for a padding leaf) -/
def hashed (H : Bytes → Bytes) (L : List Bytes) (off : Nat) : Nat → Nat → List Bytes
  | 0, p =>
    match L[p - off]? with
    | some x => [x]
    | none => [[0]]
  | h + 1, p =>
    (sub H L (H [0]) off h (2 * p + 1) ++ sub H L (H [0]) off h (2 * p + 2)) ::
      (hashed H L off h (2 * p + 1) ++ hashed H L off h (2 * p + 2))

theorem sub_len_on {H : Bytes → Bytes} (L : List Bytes) (off : Nat) :
    ∀ (h p : Nat), (∀ x ∈ hashed H L off h p, (H x).length = 32) → (sub H L (H [0]) off h p).length = 32 := by
  intro h p hl
  cases h with
  | zero =>
    simp only [sub, leafVal]
    simp only [hashed] at hl
    cases hx : L[p - off]? with
    | some x => rw [hx] at hl; exact hl x (by simp)
    | none => rw [hx] at hl; exact hl [0] (by simp)
  | succ h =>
    simp only [sub]
    exact hl _ (by simp [hashed])

theorem sub_inj_on {H : Bytes → Bytes} (L L' : List Bytes) (hL : ∀ l ∈ L, l.length = 104) (hL' : ∀ l ∈ L', l.length = 104)
    (off : Nat) (S : List Bytes) (hinj : ∀ x ∈ S, ∀ y ∈ S, H x = H y → x = y) (hlen : ∀ x ∈ S, (H x).length = 32) :
    ∀ (h p : Nat), (∀ x ∈ hashed H L off h p, x ∈ S) → (∀ x ∈ hashed H L' off h p, x ∈ S) →
      sub H L (H [0]) off h p = sub H L' (H [0]) off h p →
      ∀ k, p * 2 ^ h + (2 ^ h - 1) - off ≤ k → k ≤ p * 2 ^ h + (2 ^ h - 1) + (2 ^ h - 1) - off →
        off ≤ p * 2 ^ h + (2 ^ h - 1) → L[k]? = L'[k]? := by
  intro h
  induction h with
  | zero =>
    intro p hS hS' heq k hk1 hk2 hoff
    simp only [Nat.pow_zero, Nat.mul_one, Nat.sub_self, Nat.add_zero] at hk1 hk2 hoff
    have hk : k = p - off := by omega
    subst hk
    simp only [sub, leafVal] at heq
    simp only [hashed] at hS hS'
    cases ha : L[p - off]? with
    | some a =>
      rw [ha] at hS heq
      have haS : a ∈ S := hS a (by simp)
      cases hb : L'[p - off]? with
      | some b =>
        rw [hb] at hS' heq
        have hbS : b ∈ S := hS' b (by simp)
        simp only at heq
        rw [hinj a haS b hbS heq]
      | none =>
        rw [hb] at hS' heq
        have h0S : ([0] : Bytes) ∈ S := hS' [0] (by simp)
        simp only at heq
        have := hinj a haS [0] h0S heq
        have h104 := hL a (List.mem_of_getElem? ha)
        rw [this] at h104; simp at h104
    | none =>
      rw [ha] at hS heq
      have h0S : ([0] : Bytes) ∈ S := hS [0] (by simp)
      cases hb : L'[p - off]? with
      | some b =>
        rw [hb] at hS' heq
        have hbS : b ∈ S := hS' b (by simp)
        simp only at heq
        have := hinj [0] h0S b hbS heq
        have h104 := hL' b (List.mem_of_getElem? hb)
        rw [← this] at h104; simp at h104
      | none => rfl
  | succ h ih =>
    intro p hS hS' heq k hk1 hk2 hoff
    simp only [sub] at heq
    have hSl : ∀ x ∈ hashed H L off h (2 * p + 1), x ∈ S := fun x hx => hS x (by simp [hashed, hx])
    have hSr : ∀ x ∈ hashed H L off h (2 * p + 2), x ∈ S := fun x hx => hS x (by simp [hashed, hx])
    have hSl' : ∀ x ∈ hashed H L' off h (2 * p + 1), x ∈ S := fun x hx => hS' x (by simp [hashed, hx])
    have hSr' : ∀ x ∈ hashed H L' off h (2 * p + 2), x ∈ S := fun x hx => hS' x (by simp [hashed, hx])
    have hcat := hinj _ (hS _ (by simp [hashed])) _ (hS' _ (by simp [hashed])) heq
    have hl : (sub H L (H [0]) off h (2 * p + 1)).length = (sub H L' (H [0]) off h (2 * p + 1)).length := by
      rw [sub_len_on L off h _ (fun x hx => hlen x (hSl x hx)), sub_len_on L' off h _ (fun x hx => hlen x (hSl' x hx))]
    obtain ⟨h1, h2⟩ := List.append_inj hcat hl
    have hpow : 2 ^ (h + 1) = 2 * 2 ^ h := by rw [Nat.pow_succ]; omega
    have hpos : 0 < 2 ^ h := Nat.pow_pos (by omega)
    by_cases hside : k ≤ (2 * p + 1) * 2 ^ h + (2 ^ h - 1) + (2 ^ h - 1) - off
    · by_cases hoffl : off ≤ (2 * p + 1) * 2 ^ h + (2 ^ h - 1)
      · refine ih (2 * p + 1) hSl hSl' h1 k ?_ hside hoffl
        rw [hpow] at hk1
        have : (2 * p + 1) * 2 ^ h = p * (2 * 2 ^ h) + 2 ^ h := by
          rw [Nat.add_mul, Nat.one_mul, Nat.mul_comm 2 p, Nat.mul_assoc]
        omega
      · exfalso
        rw [hpow] at hoff hk1
        have : (2 * p + 1) * 2 ^ h = p * (2 * 2 ^ h) + 2 ^ h := by
          rw [Nat.add_mul, Nat.one_mul, Nat.mul_comm 2 p, Nat.mul_assoc]
        omega
    · have hoffr : off ≤ (2 * p + 2) * 2 ^ h + (2 ^ h - 1) := by
        rw [hpow] at hoff
        have : (2 * p + 2) * 2 ^ h = p * (2 * 2 ^ h) + 2 * 2 ^ h := by
          rw [Nat.add_mul, Nat.mul_comm 2 p, Nat.mul_assoc]
        omega
      refine ih (2 * p + 2) hSr hSr' h2 k ?_ ?_ hoffr
      · have e1 : (2 * p + 1) * 2 ^ h = p * (2 * 2 ^ h) + 2 ^ h := by
          rw [Nat.add_mul, Nat.one_mul, Nat.mul_comm 2 p, Nat.mul_assoc]
        have e2 : (2 * p + 2) * 2 ^ h = p * (2 * 2 ^ h) + 2 * 2 ^ h := by
          rw [Nat.add_mul, Nat.mul_comm 2 p, Nat.mul_assoc]
        omega
      · rw [hpow] at hk2
        have e2 : (2 * p + 2) * 2 ^ h = p * (2 * 2 ^ h) + 2 * 2 ^ h := by
          rw [Nat.add_mul, Nat.mul_comm 2 p, Nat.mul_assoc]
        omega

/-- the byte strings hashed in the two root computations -/
def hashed2 (H : Bytes → Bytes) (L L' : List Bytes) (h : Nat) : List Bytes :=
  hashed H L (2 ^ h - 1) h 0 ++ hashed H L' (2 ^ h - 1) h 0

/-- **root injectivity, non-vacuous form**: injectivity and the 32-byte output length of `H` are required only ON the byte
strings hashed in the two root computations (a finite, explicit list) -/
theorem root_injective_on (H : Bytes → Bytes) (L L' : List Bytes)
    (hL : ∀ l ∈ L, l.length = 104) (hL' : ∀ l ∈ L', l.length = 104)
    (hn : L.length = L'.length) (h : Nat) (hcap : L.length ≤ 2 ^ h)
    (hinj : ∀ x ∈ hashed2 H L L' h, ∀ y ∈ hashed2 H L L' h, H x = H y → x = y)
    (hlen : ∀ x ∈ hashed2 H L L' h, (H x).length = 32)
    (hroot : sub H L (H [0]) (2 ^ h - 1) h 0 = sub H L' (H [0]) (2 ^ h - 1) h 0) : L = L' := by
  apply List.ext_getElem?
  intro k
  by_cases hk : k < 2 ^ h
  · exact sub_inj_on L L' hL hL' (2 ^ h - 1) (hashed2 H L L' h) hinj hlen h 0
      (fun x hx => List.mem_append_left _ hx) (fun x hx => List.mem_append_right _ hx) hroot k
      (by omega) (by omega) (by omega)
  · rw [List.getElem?_eq_none (by omega), List.getElem?_eq_none (by omega)]


/-- the same with the failure of the hypotheses as an explicit witness: equal roots of two registrations of the same size
give equal registrations, OR two of the byte strings hashed on the way collide, OR one of them has a hash that is not 32
bytes long (never the case for Blake2b-256) -/
theorem root_injective_or_collision (H : Bytes → Bytes) (L L' : List Bytes)
    (hL : ∀ l ∈ L, l.length = 104) (hL' : ∀ l ∈ L', l.length = 104)
    (hn : L.length = L'.length) (h : Nat) (hcap : L.length ≤ 2 ^ h)
    (hroot : sub H L (H [0]) (2 ^ h - 1) h 0 = sub H L' (H [0]) (2 ^ h - 1) h 0) :
    L = L' ∨ (∃ x ∈ hashed2 H L L' h, ∃ y ∈ hashed2 H L L' h, x ≠ y ∧ H x = H y) ∨
      (∃ x ∈ hashed2 H L L' h, (H x).length ≠ 32) := by
  by_cases hinj : ∀ x ∈ hashed2 H L L' h, ∀ y ∈ hashed2 H L L' h, H x = H y → x = y
  · by_cases hlen : ∀ x ∈ hashed2 H L L' h, (H x).length = 32
    · exact Or.inl (root_injective_on H L L' hL hL' hn h hcap hinj hlen hroot)
    · right; right
      obtain ⟨x, hx⟩ := Classical.not_forall.mp hlen
      obtain ⟨hm, hl⟩ := Classical.not_imp.mp hx
      exact ⟨x, hm, hl⟩
  · right; left
    obtain ⟨x, hx⟩ := Classical.not_forall.mp hinj
    obtain ⟨hxm, hx⟩ := Classical.not_imp.mp hx
    obtain ⟨y, hy⟩ := Classical.not_forall.mp hx
    obtain ⟨hym, hy⟩ := Classical.not_imp.mp hy
    obtain ⟨he, hne⟩ := Classical.not_imp.mp hy
    exact ⟨x, hxm, y, hym, hne, he⟩

/-- at the level of the committed root `StmTree.treeRoot` (what `RegModel.avk` puts into the key) -/
theorem treeRoot_injective_on (H : Bytes → Bytes) (L L' : List Bytes)
    (hL : ∀ l ∈ L, l.length = 104) (hL' : ∀ l ∈ L', l.length = 104) (hn : L.length = L'.length)
    (hinj : ∀ x ∈ hashed2 H L L' (StmTree.height L.length), ∀ y ∈ hashed2 H L L' (StmTree.height L.length), H x = H y → x = y)
    (hlen : ∀ x ∈ hashed2 H L L' (StmTree.height L.length), (H x).length = 32)
    (hroot : StmTree.treeRoot H L = StmTree.treeRoot H L') : L = L' := by
  refine root_injective_on H L L' hL hL' hn (StmTree.height L.length) ?_ hinj hlen ?_
  · rw [← StmComplete.nextPow2_eq]; exact StmComplete.le_nextPow2 _
  · unfold StmTree.treeRoot at hroot
    rw [← hn, StmComplete.nextPow2_eq] at hroot
    exact hroot

/-! ### a concrete `H` for which the relativised hypotheses are proved -/

/-- 32-byte output: 31 zero bytes, then (sum of the bytes + length) mod 256 -/
def H0 (x : Bytes) : Bytes := List.replicate 31 0 ++ [UInt8.ofNat (x.foldl (fun a b => a + b.toNat) 0 + x.length)]

def leafOf (b : UInt8) : Bytes := List.replicate 104 b
def L3 : List Bytes := [leafOf 1, leafOf 2, leafOf 3]
def L3' : List Bytes := [leafOf 1, leafOf 2, leafOf 4]

/-- ALL hypotheses of `root_injective_on` at once (three 104-byte leaves, height 2, so that a padding leaf `[0]` and two
levels of nodes are hashed: 14 byte strings); `H0` is of course not injective globally (`H0 [1] = H0 [0, 0]`) -/
example :
    (∀ l ∈ L3, l.length = 104) ∧ L3.length = L3.length ∧ L3.length ≤ 2 ^ 2 ∧
    (∀ x ∈ hashed2 H0 L3 L3 2, ∀ y ∈ hashed2 H0 L3 L3 2, H0 x = H0 y → x = y) ∧
    (∀ x ∈ hashed2 H0 L3 L3 2, (H0 x).length = 32) ∧
    sub H0 L3 (H0 [0]) (2 ^ 2 - 1) 2 0 = sub H0 L3 (H0 [0]) (2 ^ 2 - 1) 2 0 ∧
    (hashed2 H0 L3 L3 2).length = 14 ∧ H0 [1] = H0 [0, 0] := by
  refine ⟨by decide, rfl, by decide, by decide +kernel, by decide +kernel, rfl, by decide +kernel, by decide +kernel⟩

/-- the interesting use (contrapositive): two DIFFERENT registrations; the relativised hypotheses hold on the 14 strings
hashed for the two of them — and the roots differ, here obtained FROM the theorem -/
example :
    L3 ≠ L3' ∧
    (∀ x ∈ hashed2 H0 L3 L3' 2, ∀ y ∈ hashed2 H0 L3 L3' 2, H0 x = H0 y → x = y) ∧
    (∀ x ∈ hashed2 H0 L3 L3' 2, (H0 x).length = 32) ∧
    sub H0 L3 (H0 [0]) (2 ^ 2 - 1) 2 0 ≠ sub H0 L3' (H0 [0]) (2 ^ 2 - 1) 2 0 := by
  have hinj : ∀ x ∈ hashed2 H0 L3 L3' 2, ∀ y ∈ hashed2 H0 L3 L3' 2, H0 x = H0 y → x = y := by decide +kernel
  have hlen : ∀ x ∈ hashed2 H0 L3 L3' 2, (H0 x).length = 32 := by decide +kernel
  refine ⟨by decide, hinj, hlen, ?_⟩
  intro hroot
  have := root_injective_on H0 L3 L3' (by decide) (by decide) rfl 2 (by decide) hinj hlen hroot
  revert this; decide

end root

/-! ## the statement of the property on `RegModel.avk` itself

`C06_distinct` is stated on `StmBatch.sub`, and nothing linked it to `RegModel.avk` (the 104-byte leaf layout, the sorting).
`avk_injective_on`: two lists of well-formed entries with the same aggregate key are permutations of each other. -/
section key
open RegModel RegClose

theorem close_eq_of_sorted {l s : List Entry} (hs : s.Pairwise (fun a b => le a b = true)) (hp : l.Perm s) : close l = s :=
  (close_perm hp).trans (List.mergeSort_of_pairwise hs)

theorem beBytes_length : ∀ (len n : Nat), (beBytes len n).length = len := by
  intro len
  induction len with
  | zero => intro n; rfl
  | succ len ih => intro n; simp [beBytes, ih]

theorem beBytes_inj : ∀ (len n m : Nat), n < 256 ^ len → m < 256 ^ len → beBytes len n = beBytes len m → n = m := by
  intro len
  induction len with
  | zero => intro n m hn hm _; simp at hn hm; omega
  | succ len ih =>
    intro n m hn hm h
    simp only [beBytes] at h
    have hl : (beBytes len (n / 256)).length = (beBytes len (m / 256)).length := by
      rw [beBytes_length, beBytes_length]
    obtain ⟨h1, h2⟩ := List.append_inj h hl
    have hp : 256 ^ (len + 1) = 256 ^ len * 256 := Nat.pow_succ ..
    have e1 := ih (n / 256) (m / 256) (by rw [hp] at hn; omega) (by rw [hp] at hm; omega) h1
    have e2 := CertHash.toUInt8_inj (Nat.mod_lt _ (by decide)) (Nat.mod_lt _ (by decide)) (by simpa using h2)
    omega

theorem leaf_length (e : Entry) : (leaf e).length = 104 := by
  simp [leaf, RegModel.u64be, beBytes_length]

/-- a well-formed entry: a 96-byte key, a 64-bit stake -/
def Fits (e : Entry) : Prop := e.vk < 256 ^ 96 ∧ e.stake < 256 ^ 8

theorem leaf_inj {a b : Entry} (ha : Fits a) (hb : Fits b) (h : leaf a = leaf b) : a = b := by
  simp only [leaf, RegModel.u64be] at h
  have hl : (beBytes 96 a.vk).length = (beBytes 96 b.vk).length := by rw [beBytes_length, beBytes_length]
  obtain ⟨h1, h2⟩ := List.append_inj h hl
  have e1 := beBytes_inj 96 _ _ ha.1 hb.1 h1
  have e2 := beBytes_inj 8 _ _ ha.2 hb.2 h2
  cases a; cases b; simp_all

theorem map_leaf_inj : ∀ (s t : List Entry), (∀ e ∈ s, Fits e) → (∀ e ∈ t, Fits e) → s.map leaf = t.map leaf → s = t := by
  intro s
  induction s with
  | nil => intro t _ _ h; cases t with
    | nil => rfl
    | cons b t => simp at h
  | cons a s ih =>
    intro t hs ht h
    cases t with
    | nil => simp at h
    | cons b t =>
      simp only [List.map_cons, List.cons.injEq] at h
      rw [leaf_inj (hs a (by simp)) (ht b (by simp)) h.1,
        ih t (fun e he => hs e (by simp [he])) (fun e he => ht e (by simp [he])) h.2]

theorem avk_ok {H : StmBatch.Bytes → StmBatch.Bytes} {l : List Entry} {k : StmBatch.Bytes × Nat × Nat} (h : avk H l = .ok k) :
    k.1 = StmTree.treeRoot H ((close l).map leaf) ∧ k.2.1 = (close l).length := by
  unfold avk closeReg at h
  simp only at h
  split at h
  · rename_i sorted total hc
    split at hc
    · cases hc
    · split at hc
      · cases hc
      · simp only [Out.ok.injEq, Prod.mk.injEq] at hc
        obtain ⟨rfl, _⟩ := hc
        simp only [Out.ok.injEq] at h
        subst h
        exact ⟨rfl, rfl⟩
  · cases h
  · cases h

/-- **distinct registration sets yield distinct aggregate keys**, on `RegModel.avk` itself: two lists of well-formed entries
with the SAME key (root, number of leaves, total stake) are permutations of each other, provided `H` is injective and has
32-byte outputs ON the byte strings hashed in the two root computations -/
theorem avk_injective_on (H : StmBatch.Bytes → StmBatch.Bytes) (l₁ l₂ : List Entry) (hb₁ : ∀ e ∈ l₁, Fits e) (hb₂ : ∀ e ∈ l₂, Fits e)
    (k : StmBatch.Bytes × Nat × Nat) (h₁ : avk H l₁ = .ok k) (h₂ : avk H l₂ = .ok k)
    (hinj : ∀ x ∈ hashed2 H ((close l₁).map leaf) ((close l₂).map leaf) (StmTree.height l₁.length),
            ∀ y ∈ hashed2 H ((close l₁).map leaf) ((close l₂).map leaf) (StmTree.height l₁.length), H x = H y → x = y)
    (hlen : ∀ x ∈ hashed2 H ((close l₁).map leaf) ((close l₂).map leaf) (StmTree.height l₁.length), (H x).length = 32) :
    l₁.Perm l₂ := by
  obtain ⟨r1, n1⟩ := avk_ok h₁
  obtain ⟨r2, n2⟩ := avk_ok h₂
  have hp1 : (close l₁).Perm l₁ := List.mergeSort_perm l₁ le
  have hp2 : (close l₂).Perm l₂ := List.mergeSort_perm l₂ le
  have hlen1 : ((close l₁).map leaf).length = l₁.length := by rw [List.length_map]; exact hp1.length_eq
  have hn : ((close l₁).map leaf).length = ((close l₂).map leaf).length := by
    rw [List.length_map, List.length_map, ← n1, ← n2]
  have hleaf : ∀ (s : List Entry), ∀ x ∈ s.map leaf, x.length = 104 := by
    intro s x hx
    obtain ⟨e, _, rfl⟩ := List.mem_map.mp hx
    exact leaf_length e
  have := treeRoot_injective_on H _ _ (hleaf _) (hleaf _) hn (by rw [hlen1]; exact hinj) (by rw [hlen1]; exact hlen)
    (by rw [← r1, ← r2])
  have hc : close l₁ = close l₂ :=
    map_leaf_inj _ _ (fun e he => hb₁ e (hp1.mem_iff.mp he)) (fun e he => hb₂ e (hp2.mem_iff.mp he)) this
  exact hp1.symm.trans (hc ▸ hp2)

/-- ALL hypotheses of `avk_injective_on` at once: two arrival orders of two well-formed entries, the same key, `H0` injective
and 32 bytes long on the six byte strings hashed -/
example :
    let l₁ : List Entry := [⟨1, 9⟩, ⟨2, 7⟩]
    let l₂ : List Entry := [⟨2, 7⟩, ⟨1, 9⟩]
    let S := hashed2 H0 ((close l₁).map leaf) ((close l₂).map leaf) (StmTree.height l₁.length)
    (∀ e ∈ l₁, Fits e) ∧ (∀ e ∈ l₂, Fits e) ∧ l₁ ≠ l₂ ∧
    (∃ k, avk H0 l₁ = .ok k ∧ avk H0 l₂ = .ok k ∧ k.2 = (2, 3)) ∧
    (∀ x ∈ S, ∀ y ∈ S, H0 x = H0 y → x = y) ∧ (∀ x ∈ S, (H0 x).length = 32) ∧ S.length = 6 := by
  intro l₁ l₂ S
  have hc1 : close l₁ = [⟨1, 9⟩, ⟨2, 7⟩] := close_eq_of_sorted (by decide) (List.Perm.refl _)
  have hc2 : close l₂ = [⟨1, 9⟩, ⟨2, 7⟩] := close_eq_of_sorted (by decide) (by decide)
  have hS : S = hashed2 H0 (([⟨1, 9⟩, ⟨2, 7⟩] : List Entry).map leaf) (([⟨1, 9⟩, ⟨2, 7⟩] : List Entry).map leaf) 1 := by
    show hashed2 H0 ((close l₁).map leaf) ((close l₂).map leaf) (StmTree.height l₁.length) = _
    rw [hc1, hc2, show StmTree.height l₁.length = 1 from by decide +kernel]
  have hfit : ∀ e ∈ l₁, Fits e := by
    intro e he
    simp only [l₁, List.mem_cons, List.not_mem_nil, or_false] at he
    rcases he with rfl | rfl <;> exact ⟨by decide, by decide⟩
  refine ⟨hfit, fun e he => hfit e ((by decide : l₂.Perm l₁).mem_iff.mp he), by decide, ?_, ?_, ?_, ?_⟩
  · refine ⟨(StmTree.treeRoot H0 (([⟨1, 9⟩, ⟨2, 7⟩] : List Entry).map leaf), 2, 3), ?_, ?_, rfl⟩
    · simp only [avk, closeReg, hc1]; rfl
    · simp only [avk, closeReg, hc2]; rfl
  · rw [hS]; decide +kernel
  · rw [hS]; decide +kernel
  · rw [hS]; decide +kernel

end key

/-! ## joint instances for the other C06 theorems -/
section service
open RegModel RegClose RegPaths RegService

/-- `C06_perm_close` / `C06_perm_avk` / `C06_perm_slot`: a non-identical permutation, the success branch (`.ok`, total 3), equal
stakes so that the key decides the order, and a slot that is not the arrival position -/
example :
    let l₁ : List Entry := [⟨1, 9⟩, ⟨1, 7⟩, ⟨1, 8⟩]
    let l₂ : List Entry := [⟨1, 8⟩, ⟨1, 9⟩, ⟨1, 7⟩]
    l₁.Perm l₂ ∧ l₁ ≠ l₂ ∧ closeReg l₁ = .ok ([⟨1, 7⟩, ⟨1, 8⟩, ⟨1, 9⟩], 3) ∧ slot l₁ ⟨1, 9⟩ = some 2 ∧ slot l₂ ⟨1, 9⟩ = some 2 := by
  intro l₁ l₂
  have hp : l₁.Perm l₂ := by decide
  have hc : close l₁ = [⟨1, 7⟩, ⟨1, 8⟩, ⟨1, 9⟩] := close_eq_of_sorted (by decide) (by decide)
  have hc2 : close l₂ = [⟨1, 7⟩, ⟨1, 8⟩, ⟨1, 9⟩] := (close_perm hp.symm).trans hc
  refine ⟨hp, by decide, ?_, ?_, ?_⟩
  · simp only [closeReg, hc]; rfl
  · simp only [slot, hc]; decide
  · simp only [slot, hc2]; decide

/-- `C06_overflow`: hypothesis met, by two stakes that fit 64 bits each -/
example : (2 : Nat) ^ 64 ≤ (([⟨2 ^ 63, 1⟩, ⟨2 ^ 63, 2⟩] : List Entry).map (·.stake)).sum := by decide

/-- `C06_node_perm` / `C06_node_key` / `C06_node_outcome`: an honest list (`WF`), a non-identical permutation, the builder
succeeds (the `.ok` branch of the outcome) -/
def sA : Signer := ⟨1, 1, 7, 5⟩
def sB : Signer := ⟨2, 2, 8, 6⟩

theorem build_AB : build [sB, sA] = .ok ⟨[⟨5, 7⟩, ⟨6, 8⟩], 11⟩ := by
  have hc : close [⟨5, 7⟩, ⟨6, 8⟩] = [⟨5, 7⟩, ⟨6, 8⟩] := close_eq_of_sorted (by decide) (List.Perm.refl _)
  simp [build, regLoop, stakeOf, closeReg, ofClose, sA, sB, hc]

example : [sB, sA].Perm [sA, sB] ∧ WF [sB, sA] ∧ build [sB, sA] = .ok ⟨[⟨5, 7⟩, ⟨6, 8⟩], 11⟩ ∧
    build [sA, sB] = .ok ⟨[⟨5, 7⟩, ⟨6, 8⟩], 11⟩ := by
  have hwf : WF [sB, sA] := ⟨by decide, by decide⟩
  exact ⟨by decide, hwf, build_AB, (build_perm (by decide) hwf).symm.trans build_AB⟩

/-- `C06_signer_perm` / `C06_signer_is_build`: announced triples of an honest list (`WFT`), a stake store that agrees with the
list on the listed parties (`hc`) and holds another party as well; the node is registered (slot 1) -/
example :
    WFT [(2, 2, 8), (1, 1, 7)] ∧ [(2, 2, 8), (1, 1, 7)].Perm [(1, 1, 7), (2, 2, 8)] ∧
    (∀ s ∈ [sB, sA], stakeIn [(3, 9), (1, 5), (2, 6)] s.party = some s.stake) ∧
    signerPath [(3, 9), (1, 5), (2, 6)] ([sB, sA].map Signer.triple) ⟨6, 8⟩ = .ok (⟨[⟨5, 7⟩, ⟨6, 8⟩], 11⟩, 1) := by
  have hc : ∀ s ∈ [sB, sA], stakeIn [(3, 9), (1, 5), (2, 6)] s.party = some s.stake := by decide
  refine ⟨⟨by decide, by decide⟩, by decide, hc, ?_⟩
  rw [signerPath_eq_build _ _ hc, build_AB]
  decide

/-! ### the epoch service: two different histories reaching computed data with permuted signer lists -/

def ops1 : List Op := [.save ⟨1, 1, 7, 5⟩, .save ⟨2, 1, 7, 5⟩, .save ⟨2, 2, 8, 6⟩, .inform 2, .precompute]
def ops2 : List Op := [.save ⟨1, 1, 7, 5⟩, .save ⟨2, 2, 8, 6⟩, .prune 1, .save ⟨2, 1, 7, 5⟩, .inform 2, .precompute, .updateNext]

def d1 : Data := ⟨2, [⟨1, 1, 7, 5⟩], [⟨2, 2, 8, 6⟩, ⟨1, 1, 7, 5⟩], [2, 1], 5, 11⟩
def d2 : Data := ⟨2, [⟨1, 1, 7, 5⟩], [⟨1, 1, 7, 5⟩, ⟨2, 2, 8, 6⟩], [1, 2], 5, 11⟩
def c12 : Computed := ⟨⟨[⟨5, 7⟩], 5⟩, ⟨[⟨5, 7⟩, ⟨6, 8⟩], 11⟩⟩

theorem close1 : close [⟨5, 7⟩] = [⟨5, 7⟩] := close_eq_of_sorted (by decide) (List.Perm.refl _)
theorem close2 : close [⟨5, 7⟩, ⟨6, 8⟩] = [⟨5, 7⟩, ⟨6, 8⟩] := close_eq_of_sorted (by decide) (List.Perm.refl _)
theorem close2r : close [⟨6, 8⟩, ⟨5, 7⟩] = [⟨5, 7⟩, ⟨6, 8⟩] := close_eq_of_sorted (by decide) (by decide)

theorem run1 : (run prod {} ops1).1.data = some d1 ∧ (run prod {} ops1).1.computed = some c12 ∧
    (run prod {} ops1).1.store = [⟨2, 2, 8, 6⟩, ⟨2, 1, 7, 5⟩, ⟨1, 1, 7, 5⟩] := by
  simp [ops1, d1, c12, run, step, informed, RegService.precompute, build, regLoop, stakeOf, closeReg, ofClose, signersAt,
    sameKey, totalOf, Row.signer, close1, close2]

theorem run2 : (run prod {} ops2).1.data = some d2 ∧ (run prod {} ops2).1.computed = some c12 := by
  simp [ops2, d2, c12, run, step, informed, RegService.precompute, RegService.updateNext, refreshed, Data.refresh, prod,
    build, regLoop, stakeOf, closeReg, ofClose, signersAt, sameKey, totalOf, Row.signer, close1, close2r]

/-- `C06_service_function_of_set`: the four hypotheses at once, on two DIFFERENT histories (other order of the store
writes, a prune and an update in one of them) whose next-signer lists are permutations of each other but not equal -/
example :
    (run prod {} ops1).1.data = some d1 ∧ (run prod {} ops2).1.data = some d2 ∧
    (run prod {} ops1).1.computed = some c12 ∧ (run prod {} ops2).1.computed = some c12 ∧
    d1.next.Perm d2.next ∧ d1.next ≠ d2.next :=
  ⟨run1.1, run2.1, run1.2.1, run2.2, by decide, by decide⟩

/-- `C06_service_coherent` / `C06_service_snapshot` / `C06_service_lists_honest` / `C06_service_invariant`: the premise of the
conclusions ("computed data is present", "a snapshot is present") is reached; `Inv` holds in that non-initial state -/
example : (run prod {} ops1).1.data = some d1 ∧ (run prod {} ops1).1.computed = some c12 ∧ Inv (run prod {} ops1).1 :=
  ⟨run1.1, run1.2.1, run_inv ops1 {} inv_init⟩

/-- `C06_service_informed_keys`: from a state that already holds OTHER computed data (the one `ops1` leaves, plus a new
registration for epoch 3), `inform_epoch 3` succeeds and `precompute_epoch_data` leaves computed data -/
theorem informed3 :
    let s := (run prod {} (ops1 ++ [.save ⟨3, 2, 8, 6⟩])).1
    (step prod s (.inform 3)).2 = .ok ∧
    (step prod (step prod s (.inform 3)).1 .precompute).1.computed = some ⟨⟨[⟨5, 7⟩, ⟨6, 8⟩], 11⟩, ⟨[⟨6, 8⟩], 6⟩⟩ := by
  have close3 : close [⟨6, 8⟩] = [⟨6, 8⟩] := close_eq_of_sorted (by decide) (List.Perm.refl _)
  simp [ops1, run, step, informed, RegService.precompute, build, regLoop, stakeOf, closeReg, ofClose, signersAt,
    sameKey, totalOf, Row.signer, close1, close2, close3]

/-- `C06_service_live_is_fresh`: the six hypotheses at once, for the live service reached by `ops1` -/
example :
    (run prod {} ops1).1.data = some d1 ∧ (run prod {} ops1).1.computed = some c12 ∧
    d1.cur = signersAt (run prod {} ops1).1.store (d1.epoch - 1) ∧
    d1.next = signersAt (run prod {} ops1).1.store d1.epoch ∧
    (step prod { store := (run prod {} ops1).1.store } (.inform d1.epoch)).2 = .ok ∧
    (step prod (step prod { store := (run prod {} ops1).1.store } (.inform d1.epoch)).1 .precompute).1.computed = some c12 := by
  refine ⟨run1.1, run1.2.1, ?_, ?_, ?_, ?_⟩
  · rw [run1.2.2]; decide
  · rw [run1.2.2]; decide
  · rw [run1.2.2]
    simp [d1, step, signersAt, totalOf, Row.signer]
  · rw [run1.2.2]
    simp [d1, c12, step, informed, RegService.precompute, build, regLoop, stakeOf, closeReg, ofClose, signersAt,
      totalOf, Row.signer, close1, close2]

end service

end Vacuity.C06
