import Mathlib.Data.Fintype.Pigeonhole
import MithrilModel.Properties.C11
import MithrilModel.Vacuity.C09
import MithrilModel.Handlers.C11
/-!
# Vacuity audit of C11 (`Properties/C11.lean`, `Proofs`, `Leaf`, `Prover`, `ProverProofs`, `ClientMsg`)

## Findings

* **F1 (hypothesis refuted for the code's instance)** `C11_set_committed` and `C11_range_root_faithful` assume
  `hinj : ∀ a b c d, merge a b = merge c d → a = c ∧ b = d`. Satisfiable (`Vacuity.C09.pairM_inj`; full
  instances below, the first ones that instantiate `hinj`) but refuted for the driver's
  `Handlers.C11.mergeS = Blake2s (a ++ b)` (`mergeS_not_injective`). `C11_range_root_faithful` is the stated
  grounding of the abstraction of `Prover.lean` ("a tree is named by its ordered leaves"); at byte level the
  leaves of a block-range tree are raw `Tx/…` / `Block/…` strings of VARIABLE length, for which root injectivity
  is false for every hash (`C12.C12_raw_leaves_note`), so no byte-level version exists without a hypothesis on
  the leaf format. Repaired for the client side: `C11_set_committed_witness(_sized)` (byte level, no hypothesis
  on the hash, named coincidences).
* **F2 (trivially true disjunct for the real digest)** `C11_client_match_binds`, `C11_client_match_values`
  conclude `… ∨ ∃ x y : List Char, x ≠ y ∧ Hc x = Hc y` for `Hc : List Char → β`. For EVERY finite digest
  type `β` (SHA-256 values) the disjunct is true outright (`collision_of_finite_digest`): at the intended
  instance the two theorems say nothing. Repaired: `C11_client_match_binds_witness`,
  `C11_client_match_values_witness` name the pair — the pre-image of the rebuilt message and the pre-image of
  the signed message. (`C11_message_binding := C04.C04_pm_single_value` has the same bare `Collision H`
  disjunct; it belongs to the C04 audit.)
* note: `C11_stake_partial` concludes `natDigits s = natDigits s'`, not `s = s'` (injectivity of the decimal
  rendering is not proved anywhere).
-/
namespace Vacuity.C11
open Proofs MkProof Leaf Prover Vacuity.C09 _root_.C11

/-! ## F1 -/

theorem mergeS_not_injective :
    ¬ ∀ a b c d, Handlers.C11.mergeS a b = Handlers.C11.mergeS c d → a = c ∧ b = d :=
  Vacuity.C09.mergeS_not_injective

/-- a second nested proof under the same master root: key 2, leaf 20 -/
def sub2 : MkProof.Proof Nat := { root := r2, leaves := [(0, 20)], size := 3, items := [21] }
def master2 : MkProof.Proof Nat :=
  { root := C09.pairM (C09.pairM 1 r1) (C09.pairM 2 r2), leaves := [(1, C09.pairM 2 r2)], size := 3,
    items := [C09.pairM 1 r1] }
def mapP2 : MkProof.MapProof Nat := .mk master2 [(2, .mk sub2 [])]

theorem sv1 : setVerify C09.pairM [10] mapP = true := by decide +kernel
theorem sv2 : setVerify C09.pairM [20] mapP2 = true := by decide +kernel
theorem roots_agree : mapP2.master.root = mapP.master.root := by decide +kernel

theorem legacy_ok : verifyLegacy C09.pairM [([10], mapP), ([20], mapP2)] = .ok mapP.master.root := by
  simp [verifyLegacy, rootsLoop, sv1, sv2, roots_agree]

theorem v2_ok : verifyV2 C09.pairM (some ([20], mapP2)) = .ok mapP2.master.root := by
  simp [verifyV2, sv2]

/-- **`C11_set_sound`, `C11_set_sound_v2`, `C11_set_committed`: all hypotheses at once** — two parts with
DIFFERENT nested proofs (non-empty sub-proof lists) under one root, `hinj` proved, the committed tree, and
the conclusion's instance -/
example : (∀ a b c d, C09.pairM a b = C09.pairM c d → a = c ∧ b = d) ∧
    verifyLegacy C09.pairM [([10], mapP), ([20], mapP2)] = .ok mapP.master.root ∧
    verifyV2 C09.pairM (some ([20], mapP2)) = .ok mapP2.master.root ∧
    mapP.master.root = ExprTree.eval C09.pairM mapT ∧
    (∀ a ∈ ExprTree.leaves mapT, ¬ ExprTree.IsMerge C09.pairM a) ∧
    ¬ ExprTree.IsMerge C09.pairM 10 ∧ ¬ ExprTree.IsMerge C09.pairM 20 ∧
    10 ∈ ExprTree.leaves mapT ∧ 20 ∈ ExprTree.leaves mapT :=
  ⟨pairM_inj, legacy_ok, v2_ok, by decide +kernel, mapT_leaves, small_not_merge (by decide),
    small_not_merge (by decide), by decide, by decide⟩

/-- `C11_roots_must_agree`: the hypothesis (and such parts ARE rejected) -/
example : (MapProof.mk { root := 5, leaves := [(0, 5)], size := 1, items := [] } [] : MapProof Nat).master.root ≠
    (MapProof.mk { root := 6, leaves := [(0, 6)], size := 1, items := [] } [] : MapProof Nat).master.root := by decide

/-- `C11_range_root_faithful`: all hypotheses (three leaves, two peaks) -/
example : (∀ a b c d, C09.pairM a b = C09.pairM c d → a = c ∧ b = d) ∧
    (∀ a ∈ [11, 12, 13], ¬ ExprTree.IsMerge C09.pairM a) ∧
    MmrBuild.root C09.pairM [11, 12, 13] = some (C09.pairM 13 (C09.pairM 11 12)) := by
  refine ⟨pairM_inj, ?_, by decide +kernel⟩
  intro a ha
  simp only [List.mem_cons, List.mem_nil_iff, or_false] at ha
  exact small_not_merge (by omega)

/-- **repaired `C11_set_committed`, byte level, no hypothesis on the hash**: every reported item leaf of an
accepted response is the value of a sub-tree of the tree the single returned root commits to, or a named
coincidence between the nested verifier's log (`Vacuity.C09.InMapLog`) and the tree's log occurred -/
theorem C11_set_committed_witness (H : StmBatch.Bytes → StmBatch.Bytes)
    (parts : List (List StmBatch.Bytes × MapProof StmBatch.Bytes)) (root : StmBatch.Bytes)
    (h : verifyLegacy (bmerge H) parts = .ok root) (t : ExprTree.E StmBatch.Bytes) (hr : root = tval H t) :
    ∀ part ∈ parts, ∀ l ∈ part.1, (∃ s ∈ ExprTree.subtrees t, l = tval H s) ∨ ExplM H part.2 t := by
  intro part hp l hl
  obtain ⟨hv, hroot, hc⟩ := (verifyLegacy_sound (bmerge H) parts root h).2 part hp
  exact C09_map_exec_sound_witness H part.2 l hv (hc l hl) t (by rw [hroot, hr])

/-- … with a 32-byte `H` and leaves (committed and reported) of other lengths: every reported item leaf IS a
committed leaf, or two different logged strings collide, or a logged concatenation splits at two points -/
theorem C11_set_committed_witness_sized (H : StmBatch.Bytes → StmBatch.Bytes) (hH : ∀ x, (H x).length = 32)
    (parts : List (List StmBatch.Bytes × MapProof StmBatch.Bytes)) (root : StmBatch.Bytes)
    (h : verifyLegacy (bmerge H) parts = .ok root) (t : ExprTree.E StmBatch.Bytes) (hr : root = tval H t)
    (hT : ∀ a ∈ ExprTree.leaves t, a.length ≠ 32) :
    ∀ part ∈ parts, ∀ l ∈ part.1, l.length ≠ 32 → l ∈ ExprTree.leaves t ∨
      (∃ a, InMapLog H part.2 a ∧ ∃ b ∈ tlog H t, a ≠ b ∧ H a = H b) ∨
      (∃ pq, InMapPairs H part.2 pq ∧ ∃ q ∈ tpairs H t, pq.1 ++ pq.2 = q.1 ++ q.2 ∧ pq.1.length ≠ q.1.length) := by
  intro part hp l hl hx
  obtain ⟨hv, hroot, hc⟩ := (verifyLegacy_sound (bmerge H) parts root h).2 part hp
  exact C09_map_exec_sound_witness_sized H hH part.2 l hv (hc l hl) t (by rw [hroot, hr]) hT hx

/-- **all hypotheses of the repaired theorem at once**: the accepted nested byte-level proof of
`Vacuity.C09.sat_map_witness` as a one-part response -/
example : (∀ x, (hN x).length = 32) ∧ verifyLegacy (bmerge hN) [([a1], mapN)] = .ok (tval hN tN) ∧
    (∀ a ∈ ExprTree.leaves tN, a.length ≠ 32) ∧ a1.length ≠ 32 ∧ ¬ ExplM hN mapN tN := by
  have hs := sat_map_witness
  have sv : setVerify (bmerge hN) [a1] mapN = true := by
    simp [setVerify, hs.2.1, hs.2.2.1]
  refine ⟨hs.1, ?_, hs.2.2.2.2.2.1, hs.2.2.2.2.2.2.1, hs.2.2.2.2.2.2.2⟩
  simp [verifyLegacy, rootsLoop, sv, hs.2.2.2.2.1]

/-! ## F2 -/

/-- a digest function from texts into ANY finite type has a collision -/
theorem collision_of_finite_digest {β : Type} [Finite β] (Hc : List Char → β) :
    ∃ x y : List Char, x ≠ y ∧ Hc x = Hc y :=
  Finite.exists_ne_map_eq_of_infinite Hc

/-- **F2** the conclusion of `C11_client_match_binds` for a finite digest type, without `match_message` -/
theorem C11_client_match_binds_says_nothing {β : Type} [Finite β] (Hc : List Char → β)
    (cert signed : ClientMsg.Msg) (sets : List ClientMsg.Part) :
    ClientMsg.rebuild cert sets = signed ∨ ∃ x y : List Char, x ≠ y ∧ Hc x = Hc y :=
  Or.inr (collision_of_finite_digest Hc)

/-- **repaired `C11_client_match_binds`**: the colliding pair is named — the digest pre-image of the rebuilt
message and that of the signed message -/
theorem C11_client_match_binds_witness {β : Type} [DecidableEq β] (Hc : List Char → β)
    (cert signed : ClientMsg.Msg) (sets : List ClientMsg.Part)
    (hw : ClientMsg.WF (ClientMsg.rebuild cert sets)) (hs : ClientMsg.WF signed)
    (h : ClientMsg.matchMessage Hc (ClientMsg.rebuild cert sets) (Hc (ClientMsg.pre signed)) = true) :
    ClientMsg.rebuild cert sets = signed ∨
    (ClientMsg.pre (ClientMsg.rebuild cert sets) ≠ ClientMsg.pre signed ∧
      Hc (ClientMsg.pre (ClientMsg.rebuild cert sets)) = Hc (ClientMsg.pre signed)) := by
  simp only [ClientMsg.matchMessage, decide_eq_true_eq] at h
  by_cases hp : ClientMsg.pre (ClientMsg.rebuild cert sets) = ClientMsg.pre signed
  · exact Or.inl (ClientMsg.text_inj _ _ hw hs
      (PmInj.preimage_injective _ _ (ClientMsg.text_wf _ hw) (ClientMsg.text_wf _ hs) hp))
  · exact Or.inr ⟨hp, h⟩

/-- **repaired `C11_client_match_values`** -/
theorem C11_client_match_values_witness {β : Type} [DecidableEq β] (Hc : List Char → β)
    (cert signed : ClientMsg.Msg) (sets : List ClientMsg.Part)
    (hd : sets.Pairwise (fun a b => a.1 ≠ b.1))
    (hw : ClientMsg.WF (ClientMsg.rebuild cert sets)) (hs : ClientMsg.WF signed)
    (h : ClientMsg.matchMessage Hc (ClientMsg.rebuild cert sets) (Hc (ClientMsg.pre signed)) = true) :
    ((∀ p ∈ sets, ClientMsg.get signed p.1 = some p.2) ∧
      ∀ k, (∀ p ∈ sets, p.1 ≠ k) → ClientMsg.get signed k = ClientMsg.get cert k) ∨
    (ClientMsg.pre (ClientMsg.rebuild cert sets) ≠ ClientMsg.pre signed ∧
      Hc (ClientMsg.pre (ClientMsg.rebuild cert sets)) = Hc (ClientMsg.pre signed)) := by
  rcases C11_client_match_binds_witness Hc cert signed sets hw hs h with he | hc
  · left
    subst he
    exact ⟨ClientMsg.get_rebuild_set cert sets hd, fun k hk => ClientMsg.get_rebuild_other cert sets k hk⟩
  · exact Or.inr hc

def certM : ClientMsg.Msg := [(2, "ff".toList), (5, "3".toList), (6, "42".toList), (7, "7".toList)]
def setsM : List ClientMsg.Part := [(2, "ab".toList), (6, "42".toList), (7, "7".toList)]
def signedM : ClientMsg.Msg := [(2, "ab".toList), (5, "3".toList), (6, "42".toList), (7, "7".toList)]

theorem rebuild_eq : ClientMsg.rebuild certM setsM = signedM := by decide

theorem signedM_wf : ClientMsg.WF signedM := by
  intro p hp
  simp only [signedM, List.mem_cons, List.mem_nil_iff, or_false] at hp
  rcases hp with rfl | rfl | rfl | rfl <;> exact ⟨by decide, by decide⟩

/-- **`C11_client_match_binds`, `C11_client_match_values` and their repaired forms: all hypotheses at once**
with an injective digest (the identity), an ACCEPTED `match_message`; the collision disjuncts are false, the
response carried a root that differs from the certificate's own garbled copy -/
example : ClientMsg.WF (ClientMsg.rebuild certM setsM) ∧ ClientMsg.WF signedM ∧
    setsM.Pairwise (fun a b => a.1 ≠ b.1) ∧
    ClientMsg.matchMessage (fun t : List Char => t) (ClientMsg.rebuild certM setsM)
      ((fun t : List Char => t) (ClientMsg.pre signedM)) = true ∧
    ¬ (∃ x y : List Char, x ≠ y ∧ (fun t : List Char => t) x = (fun t : List Char => t) y) ∧
    ClientMsg.get certM 2 ≠ ClientMsg.get signedM 2 := by
  refine ⟨by rw [rebuild_eq]; exact signedM_wf, signedM_wf, by decide,
    ClientMsg.match_complete _ certM signedM setsM rebuild_eq, ?_, by decide⟩
  rintro ⟨x, y, hne, he⟩
  exact hne he

/-- … and `match_message` is not "always true": the certificate's own (garbled) message does not match -/
example : ClientMsg.matchMessage (fun t : List Char => t) certM ((fun t : List Char => t) (ClientMsg.pre signedM)) = false := by
  decide +kernel

/-! ## leaf encoders -/

/-- `C11_leaf_injective`: all nine hypotheses, two items written differently but equal -/
example : '/' ∉ "ab12".toList ∧ '/' ∉ "cd".toList ∧ '/' ∉ "7".toList ∧ '/' ∉ "140".toList ∧
    txLeaf "ab12".toList "cd".toList "7".toList "140".toList =
      txLeaf ("ab" ++ "12").toList "cd".toList "7".toList "140".toList := by decide

/-- `C11_stake_partial`: hypotheses -/
example : "pool1abc".toList.length = "pool1xyz".toList.length ∧
    stakeLeaf "pool1abc".toList 7 = stakeLeaf "pool1abc".toList 7 := by decide

/-! ## the provers: hypotheses are evaluations of the service model -/

def blocks21 : List Blk := (List.range 21).map blk
/-- the store after the chain was grown: the state the signable builder starts from -/
def s0 : St := (run {} [.grow blocks21]).1
/-- a LATER state: signed and cached for beacon 5, then 20 more blocks appeared and were imported to 33 -/
def s1 : St := (run s0 [.sign2 5, .cache2 5, .grow ((List.range' 21 20).map blk), .imp 33]).1

/-- **`C11_prover_items_under_signed_map`, `C11_prover_certified_exact`, `C11_prover_non_certified_exact`,
`C11_prover_committed`: hypotheses** — the pooled map is the one computed after the signable for beacon 5, the
store has moved on (34 blocks), a request for a stored transaction, one above the beacon and an unknown one
is answered with a proof for exactly the first -/
example : s1.cache2 = (step (step s0 (.sign2 5)).1 (.cache2 5)).1.cache2 ∧ s1.blocks.length = 34 ∧
    prove2 true s1.blocks s1.cache2 5 [2003, 2007, 4] = .ok [.tx 2003 1003 3 60] ∧
    nonCertified [2003, 2007, 4] ([Item.tx 2003 1003 3 60].map Item.key) = [2007, 4] := by
  refine ⟨by decide +kernel, by decide +kernel, by decide +kernel, by decide +kernel⟩

/-- the `.none` branch of `C11_prover_non_certified_exact` -/
example : prove2 true s1.blocks s1.cache2 5 [2007, 4] = .none := by decide +kernel

/-- **`C11_prover_not_refused`: `hcover`, `hinside`, `hext` at once**, with a non-empty extension above the
beacon, and the conclusion's interesting case (an answer WITH a proof, not `.none`) -/
example : (∀ k, (k + 1) * LEN ≤ 5 + 1 → full nodes2 ((List.range 6).map blk) k ≠ [] →
      RMap.get ([] : RMap Item) k = some (full nodes2 ((List.range 6).map blk) k)) ∧
    ((5 + 1) % LEN ≠ 0 → ∀ r ∈ ([] : RMap Item), r.1 ≠ 5 / LEN) ∧
    (∀ b ∈ (List.range' 6 15).map blk, 5 < b.number) ∧
    prove2 true ((List.range 6).map blk ++ (List.range' 6 15).map blk)
      (some (mapAt2 nodes2 ((List.range 6).map blk) [] 5)) 5 [2003, 2010] = .ok [.tx 2003 1003 3 60] := by
  refine ⟨?_, fun _ r hr => by simp at hr, by decide +kernel, by decide +kernel⟩
  intro k hk; simp only [LEN] at hk; omega

/-- **`C11_legacy_prover_not_refused`, `C11_legacy_prover_exact`: hypotheses** (aligned beacon 14, the root of
range 0 stored, an extension above the beacon) and an answer -/
example : (14 + 1) % LEN = 0 ∧
    (∀ k, (k + 1) * LEN ≤ 14 + 1 → full nodesL blocks21 k ≠ [] →
      RMap.get [(0, full nodesL blocks21 0)] k = some (full nodesL blocks21 k)) ∧
    (∀ b ∈ (List.range' 21 5).map blk, 14 < b.number) ∧
    proveL (blocks21 ++ (List.range' 21 5).map blk) (some (mapAtL [(0, full nodesL blocks21 0)] 14)) 14 [2003, 2016, 2003]
      = .ok [2003, 2003] := by
  refine ⟨by decide, ?_, by decide +kernel, by decide +kernel⟩
  intro k hk _
  have : k = 0 := by simp only [LEN] at hk; omega
  subst this
  decide +kernel

end Vacuity.C11
