import MithrilModel.Properties.C10
import MithrilModel.MmrBytes
import MithrilModel.Vacuity.C09
/-!
# Vacuity audit of C10 (`Properties/C10.lean`, `DbVerify`, `NameOrder`)

The theorems about `Db.verify` (`C10_sound`, `C10_accepted_nonempty`, `C10_report_complete`,
`C10_report_exact`, `C10_verdicts`, `C10_range_bounds`) and about the name order have no hypothesis over
functions or records with free fields: their hypothesis is one evaluation of the verifier, instantiated by
the `decide` theorems of the property file (`C10_swap_rejected`, `C10_names_unbound_accepts`, the final
`example`). Collected below with the interesting branch spelled out.

## Findings

* **F1 (hypothesis refuted for the code's instance; byte-level justification vacuous)** `C10_root_binding`
  (`Db.root_binding`) assumes `hinj : ∀ a b c d, m a b = m c d → a = c ∧ b = d`. Satisfiable
  (`Vacuity.C09.pairM_inj`; full instance below) but refuted for the client's `m a b = Blake2s (a ++ b)`
  (`Vacuity.C09.concat_merge_not_injective`). The byte-level theorem its doc-string points to,
  `MmrBuild.root_injective_bytes`, has unsatisfiable hypotheses (`Vacuity.C12.root_injective_bytes_hyps_unsat`).
  Repaired here: `C10_root_binding_witness` (byte level, explicit colliding pair out of the two builder logs).
* **F2 (restates a definition)** `C10_digests_binding` / `Db.verifyDigests_binding` is the unfolding of
  `Db.verifyDigests`, whose definition compares the LEAF LISTS where the code compares ROOTS; the content of
  "accepted only if it reproduces the signed leaves" is `root_binding`, i.e. F1.
-/
namespace Vacuity.C10
open Db _root_.C10

variable {ν : Type} [DecidableEq ν]

/-- **repaired `C10_root_binding`, byte level**: the client rebuilds the tree over the served digests with
`merge a b = H (a ++ b)`, `H` with 32-byte outputs; digests are raw 64-byte strings. If the rebuilt root is
the signed root, the served digests ARE the certified ones in order — or the proof names two different
byte strings, one hashed while the client built its tree and one hashed while the signer built the certified
tree, with the same hash. -/
theorem C10_root_binding_witness (H : Digester.Bytes → Digester.Bytes) (hH : ∀ x, (H x).length = 32)
    (N : Names ν) (l : List (ν × Digester.Bytes)) (last : Nat) (signedRoot : Digester.Bytes)
    (certifiedLeaves : List Digester.Bytes)
    (hc : MmrBuild.root (Digester.merge H) certifiedLeaves = some signedRoot)
    (hl : ∀ a ∈ certifiedLeaves, a.length = 64)
    (f : List (ν × Digester.Bytes)) (hl' : ∀ a ∈ (served N l last).map (·.2), a.length = 64)
    (h : verifyDigestsRoot (Digester.merge H) N l last signedRoot = some f) :
    (f = served N l last ∧ f.map (·.2) = certifiedLeaves) ∨
    ∃ x ∈ MmrBytes.hashInputs H ((served N l last).map (·.2)), ∃ y ∈ MmrBytes.hashInputs H certifiedLeaves,
      x ≠ y ∧ H x = H y := by
  unfold verifyDigestsRoot at h
  dsimp only at h
  split at h
  · rename_i hr
    injection h with h
    subst h
    rcases MmrBytes.root_injective_bytes_any H 64 32 (by decide) hH _ _ hl' hl signedRoot hr hc with e | k
    · exact Or.inl ⟨rfl, e⟩
    · exact Or.inr k
  · cases h

/-- **`C10_root_binding`: all hypotheses at once** (value level, `pairM` with its PROVED injectivity): a
served list in another order with a name beyond the beacon, rebuilt root = signed root -/
example :
    let l : List (Nat × Nat) := [(40, 12), (30, 11), (50, 13), (60, 21)]
    (∀ a b c d, C09.pairM a b = C09.pairM c d → a = c ∧ b = d) ∧
    MmrBuild.root C09.pairM [11, 12, 13] = some (C09.pairM 13 (C09.pairM 11 12)) ∧
    (∀ a ∈ [11, 12, 13], ¬ ExprTree.IsMerge C09.pairM a) ∧
    (∀ a ∈ (served natNames l 1).map (·.2), ¬ ExprTree.IsMerge C09.pairM a) ∧
    verifyDigestsRoot C09.pairM natNames l 1 (C09.pairM 13 (C09.pairM 11 12)) = some [(30, 11), (40, 12), (50, 13)] := by
  refine ⟨Vacuity.C09.pairM_inj, by decide +kernel, ?_, ?_, by decide +kernel⟩
  · intro a ha
    simp only [List.mem_cons, List.mem_nil_iff, or_false] at ha
    exact Vacuity.C09.small_not_merge (by omega)
  · intro a ha
    have : (served natNames [(40, 12), (30, 11), (50, 13), (60, 21)] 1).map (·.2) = [11, 12, 13] := by decide +kernel
    rw [this] at ha
    simp only [List.mem_cons, List.mem_nil_iff, or_false] at ha
    exact Vacuity.C09.small_not_merge (by omega)

/-! a byte-level world for `C10_root_binding_witness`: two 64-byte digests, table hash -/

def d1 : Digester.Bytes := List.replicate 64 49
def d2 : Digester.Bytes := List.replicate 64 50
def c (b : UInt8) : Digester.Bytes := List.replicate 32 b
def hT (x : Digester.Bytes) : Digester.Bytes := if x = d1 ++ d2 then c 1 else c 0

theorem hT_len (x : Digester.Bytes) : (hT x).length = 32 := by unfold hT; split <;> simp [c]

/-- **`C10_root_binding_witness`: all hypotheses at once, collision disjunct false** -/
example :
    let l : List (Nat × Digester.Bytes) := [(40, d2), (30, d1), (60, d1)]
    (∀ x, (hT x).length = 32) ∧
    MmrBuild.root (Digester.merge hT) [d1, d2] = some (c 1) ∧ (∀ a ∈ [d1, d2], a.length = 64) ∧
    (∀ a ∈ (served natNames l 1).map (·.2), a.length = 64) ∧
    verifyDigestsRoot (Digester.merge hT) natNames l 1 (c 1) = some [(30, d1), (40, d2)] ∧
    ¬ (∃ x ∈ MmrBytes.hashInputs hT ((served natNames l 1).map (·.2)), ∃ y ∈ MmrBytes.hashInputs hT [d1, d2],
        x ≠ y ∧ hT x = hT y) := by
  have hs : (served natNames [(40, d2), (30, d1), (60, d1)] 1).map (·.2) = [d1, d2] := by decide +kernel
  have hi : MmrBytes.hashInputs hT [d1, d2] = [d1 ++ d2] := by decide +kernel
  refine ⟨hT_len, by decide +kernel, by decide +kernel, ?_, by decide +kernel, ?_⟩
  · intro a ha; rw [hs] at ha; revert a; decide +kernel
  · rintro ⟨x, hx, y, hy, hne, _⟩
    rw [hs, hi] at hx; rw [hi] at hy
    simp only [List.mem_cons, List.mem_nil_iff, or_false] at hx hy
    exact hne (hx.trans hy.symm)

/-! ## the verifier theorems: the hypothesis is one evaluation; interesting branches -/

/-- `C10_sound`, `C10_accepted_nonempty`: an ACCEPTED directory with foreign entries outside the range -/
example : verify natNames [(30, 11), (40, 12), (50, 13)]
    (some [(0, .file 1), (30, .file 11), (40, .file 12), (50, .file 13), (99, .dir)]) (.range 1 1) 1 false
    = .accepted := by decide

/-- `C10_report_complete`, `C10_report_exact`: a REJECTED directory with a non-empty report in all three
lists (missing `50`, tampered `30`, non-verifiable `31` and the directory `40`) -/
example : verify natNames [(30, 11), (40, 12), (50, 13)]
    (some [(30, .file 99), (31, .file 12), (40, .dir)]) (.range 1 1) 1 false
    = .rejected [50] [30] [31, 40] := by decide

/-- `C10_verdicts`, `C10_range_bounds`: hypotheses -/
example : (Range.range 3 2).bounds 5 = none ∧ (Range.from_ 1).bounds 2 = some (1, 2) ∧
    (Range.upTo 1).bounds 2 = some (0, 1) := by decide

/-- `C10_digests_binding`, `C10_names_bound_partial`: an accepted digest list (from the property file) -/
example : verifyDigests natNames shiftedList 2 (honestList.map (·.2)) true = some shiftedList :=
  C10_names_unbound_accepts.1

end Vacuity.C10
