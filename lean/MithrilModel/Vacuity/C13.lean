import MithrilModel.Properties.C13
/-!
# Vacuity audit of C13 (`Properties/C13.lean`, `Store`, `Import`, `ImportRoots`, `ImportTx`, `Importer`,
`ImportGood`, `ImportMany`)

No finding of the refutable-hypothesis kind: the C13 models have no hash or oracle. The root function
`R : List Block → Option ρ` is a parameter WITHOUT hypotheses, except `LocalRoot` in the two join theorems,
which quantifies over all transaction maps but is a property of `R` alone — proved for the driver's two
instances (`Handlers.C13.rootNew_local`, `rootLegacy_local`) and for `Rj` below. Every other hypothesis
(`Sorted`, `Good`, `GoodTx`, `TInv`, `TxFresh`, `RInv`, `PInv`, `Below`, `Ok`, `OkT`, `Covered`, `CoversAll`,
`Relost`, `Inv`) speaks about the given stores and scripts and has a decidable twin proved equivalent.

Below: one world in which the hypotheses of each theorem hold JOINTLY, on the interesting branch (roll-backs
inside and outside the buffer, a chain switch, non-empty cached roots, a re-included transaction, an early
exit, a restart in the driver history).
-/
namespace Vacuity.C13
open Import Importer ImportMany _root_.C13

/-! ## the repository lemmas -/

def stS : Store.St :=
  { blocks := [⟨1, 14, 140⟩, ⟨2, 15, 150⟩, ⟨3, 31, 310⟩],
    roots := [⟨0, 15, 77⟩, ⟨15, 30, 78⟩] }

/-- `C13_rollback_exact`, `C13_kept_roots_cover_kept_blocks`: an anchor exists (block 15 for slot 200), the
roots are well-formed; the roll-back removes a block AND a root -/
example : Store.anchor stS 200 = some 15 ∧
    (∀ r ∈ stS.roots, r.stop = r.start + Store.LEN ∧ r.start % Store.LEN = 0) ∧
    (Store.rollback stS 200).blocks = [⟨1, 14, 140⟩, ⟨2, 15, 150⟩] ∧
    (Store.rollback stS 200).roots = [⟨0, 15, 77⟩] := by decide

/-- `C13_rollback_below_store`: hypothesis -/
example : ∀ b ∈ stS.blocks, 100 < b.slot := by decide

/-! ## one import: a store with cached roots, a chain switch -/

/-- the store after the fresh import `c1` (blocks 1..31, target 31) -/
def S1 : List Block := stepB [] c1
def roots1 : List (Nat × List Nat) := cached Rex S1 2

theorem S1_eq : S1 = (List.range' 1 31).map blk := by decide +kernel
theorem S1_sorted : Sorted S1 := (sortedB_iff _).mp (by decide +kernel)
theorem S1_below : ∀ x ∈ S1, x.number ≤ c2.c.untilN := by decide +kernel
theorem c2_good : Good c2.c none S1 c2.rs := (goodB_iff _ _ _ _).mp (by decide +kernel)
theorem rinv1 : RInv Rex S1 roots1 := ⟨2, rfl, (belowB_iff _ _).mp (by decide +kernel)⟩

/-- **`C13_import_refines`, `C13_uncovered_import_keeps_cache`: all four hypotheses at once** — a NON-EMPTY
store with two cached roots, a script with the echo of the resume point, a roll-back BELOW the stored tip
(store call) and 23 forwards on a fork in batches of 7; the conclusion's `Below` premise holds (interesting
branch) and the roots are recomputed from range 1 on -/
example : Sorted S1 ∧ (∀ x ∈ S1, x.number ≤ c2.c.untilN) ∧ Good c2.c none S1 c2.rs ∧ RInv Rex S1 roots1 ∧
    roots1.length = 2 ∧
    Below (importF Rex c2.c c2.fuel S1 roots1 c2.rs).1 ((c2.c.untilN + 1) / LEN) ∧
    (importF Rex c2.c c2.fuel S1 roots1 c2.rs).1 = (List.range' 1 28).map blk ++ (List.range' 29 22).map blk' ∧
    ((importF Rex c2.c c2.fuel S1 roots1 c2.rs).2.1).map (·.1) = [0, 1, 2] ∧
    (importF Rex c2.c c2.fuel S1 roots1 c2.rs).2.1 ≠ roots1 ++ [(2, ((List.range' 30 15).map blk).map (·.hash))] :=
  ⟨S1_sorted, S1_below, c2_good, rinv1, by decide +kernel, (belowB_iff _ _).mp (by decide +kernel),
    by decide +kernel, by decide +kernel, by decide +kernel⟩

theorem pre_of_append {α : Type} {l pre rest : List α} (h : l = pre ++ rest) :
    pre = l.take (l.length - rest.length) := by subst h; simp

/-- **`C13_convergence`: all hypotheses at once**: node 1 = the store above + chain switch, node 2 = a fresh
import of the final chain with another batch size; both scripts are consumed completely, so `hsame` is about
the two full scripts -/
example : c2.c.untilN = cFresh.c.untilN ∧
    Sorted S1 ∧ (∀ x ∈ S1, x.number ≤ c2.c.untilN) ∧ Good c2.c none S1 c2.rs ∧ RInv Rex S1 roots1 ∧
    Sorted [] ∧ (∀ x ∈ ([] : List Block), x.number ≤ cFresh.c.untilN) ∧ Good cFresh.c none [] cFresh.rs ∧
    RInv Rex [] ([] : List (Nat × List Nat)) ∧
    (∀ pre pre', c2.rs = pre ++ (importF Rex c2.c c2.fuel S1 roots1 c2.rs).2.2 →
      cFresh.rs = pre' ++ (importF Rex cFresh.c cFresh.fuel [] [] cFresh.rs).2.2 →
      (applyAll S1 pre).filter (fun x => x.number ≤ c2.c.untilN)
        = (applyAll [] pre').filter (fun x => x.number ≤ c2.c.untilN)) := by
  refine ⟨by decide, S1_sorted, S1_below, c2_good, rinv1, List.Pairwise.nil, by simp,
    (goodB_iff _ _ _ _).mp (by decide +kernel), ⟨0, rfl, Or.inl rfl⟩, ?_⟩
  intro pre pre' h h'
  have e : ((importF Rex c2.c c2.fuel S1 roots1 c2.rs).2.2).length = 0 := by decide +kernel
  have e' : ((importF Rex cFresh.c cFresh.fuel [] [] cFresh.rs).2.2).length = 0 := by decide +kernel
  have hp := pre_of_append h
  have hp' := pre_of_append h'
  rw [e] at hp; rw [e'] at hp'
  subst hp; subst hp'
  decide +kernel

/-- `C13_roots_function_of_blocks`, `C13_ranges_idempotent`, `C13_early_exit_keeps_invariant`: `RInv` with two
roots, the highest block 31 at or above the target 20 -/
example : RInv Rex S1 roots1 ∧ Importer.highest S1 = some (blk 31) ∧ (blk 31).number ≥ 20 ∧ roots1 ≠ [] :=
  ⟨rinv1, by decide +kernel, by decide, by decide +kernel⟩

/-- `C13_signing_root_ignores_beyond_aligned`: `0 < j ≤ K` -/
example : 0 < 1 ∧ 1 ≤ 2 ∧ signable Rex S1 (cached Rex S1 2) (1 * LEN - 1) = cached Rex S1 1 := by
  refine ⟨by decide, by decide, by decide +kernel⟩

/-- `C13_good_decidable` has no hypothesis; `C13_multi_import_target_bound`: no early exit -/
example : early S1 50 = false := by decide +kernel

/-! ## regaining and keeping the roots invariant -/

/-- **`C13_rollback_regains_roots_invariant`: all five hypotheses** (after the UNCOVERED import `i1`, import
`i2'` first echoes the resume point — skipped — and then rolls back to slot 180: the first store call is that
roll-back, and it finds the anchor 18); fuel `4 + 1` -/
example : Sorted (stepB [] i1) ∧ (∀ x ∈ stepB [] i1, x.number ≤ i2'.c.untilN) ∧
    Good i2'.c none (stepB [] i1) i2'.rs ∧ (poll i2'.c none [] i2'.rs).1.isSome = true ∧
    (match (poll i2'.c none [] i2'.rs).1 with | some (.backward s) => s = 180 | _ => False) ∧
    anchor (stepB [] i1) 180 = some 18 := by
  refine ⟨(sortedB_iff _).mp (by decide +kernel), by decide +kernel, (goodB_iff _ _ _ _).mp (by decide +kernel),
    by decide +kernel, ?_, by decide +kernel⟩
  have : (poll i2'.c none [] i2'.rs).1.isSome = true := by decide +kernel
  cases h : (poll i2'.c none [] i2'.rs).1 with
  | none => rw [h] at this; cases this
  | some o =>
    cases o with
    | forwards bs =>
      have hh : (match (poll i2'.c none [] i2'.rs).1 with | some (.forwards _) => true | _ => false) = false := by
        decide +kernel
      rw [h] at hh; cases hh
    | backward s =>
      have hh : (match (poll i2'.c none [] i2'.rs).1 with | some (.backward s) => s | _ => 0) = 180 := by
        decide +kernel
      rw [h] at hh; exact hh

/-- **`C13_settled_prefix_survives`: all hypotheses** — the settled prefix `k = 1` (range 0) of the store after
the uncovered import `i1` survives import `i2` although `RInv` is lost for good -/
example : Sorted (stepB [] i1) ∧ (∀ x ∈ stepB [] i1, x.number ≤ i2.c.untilN) ∧
    Good i2.c none (stepB [] i1) i2.rs ∧
    PInv Rex (stepB [] i1) (runMany Rex ⟨[], []⟩ [i1]).roots 1 ∧
    Below (importF Rex i2.c i2.fuel (stepB [] i1) (runMany Rex ⟨[], []⟩ [i1]).roots i2.rs).1 1 ∧
    ((runMany Rex ⟨[], []⟩ [i1]).roots.filter (fun r => r.1 < 1)) ≠ [] := by
  refine ⟨(sortedB_iff _).mp (by decide +kernel), by decide +kernel, (goodB_iff _ _ _ _).mp (by decide +kernel),
    ⟨(belowB_iff _ _).mp (by decide +kernel), by decide +kernel⟩, (belowB_iff _ _).mp (by decide +kernel),
    by decide +kernel⟩

/-! ## transactions -/

def txW : Nat → List Nat := fun h => if h = 102 ∨ h = 203 then [7] else if h = 101 then [5] else []
def SW : List Block := [⟨101, 1, 10⟩, ⟨102, 2, 20⟩]
def bsW : List Block := [⟨202, 2, 21⟩, ⟨203, 3, 31⟩]

/-- **`C13_rollback_removes_transactions`, `C13_reincluded_transaction_under_new_block`: all hypotheses** —
block 2 carries transaction 7, roll-back to block 1, the new blocks 2′ 3′ where 3′ carries 7 again -/
example : Sorted SW ∧ TInv txW SW (rowsOf txW SW) ∧ Sorted (rollback SW 10 ++ bsW) ∧
    TxFresh txW (rollback SW 10 ++ bsW) ∧ (⟨203, 3, 31⟩ : Block) ∈ bsW ∧ 7 ∈ txW 203 ∧
    rowsOf txW SW = [(5, 101), (7, 102)] ∧ rollback SW 10 = [⟨101, 1, 10⟩] := by
  refine ⟨(sortedB_iff _).mp (by decide), rfl, (sortedB_iff _).mp (by decide), ?_, by decide, by decide,
    by decide, by decide⟩
  unfold TxFresh; decide

/-- **`C13_transactions_refine`, `C13_no_panic_on_good_scripts`: all hypotheses** (`hS`, `hU`, `Good`, `GoodTx`,
`TInv` with a NON-EMPTY table; `Inv c S [] S`) and the re-included transaction ends under the new block -/
example :
    let c : Cfg := ⟨20, 100, 100⟩
    let rs : List (Option Ev) := [some (.back 20), some (.back 10), some (.fwd ⟨202, 2, 21⟩), some (.fwd ⟨203, 3, 31⟩), none]
    Sorted SW ∧ (∀ x ∈ SW, x.number ≤ c.untilN) ∧ Good c none SW rs ∧ GoodTx txW SW rs ∧
    TInv txW SW (rowsOf txW SW) ∧ Inv c SW [] SW ∧
    (runT txW c 10 none SW (rowsOf txW SW) rs).2.1 = [(5, 101), (7, 203)] := by
  have hS : Sorted SW := (sortedB_iff _).mp (by decide)
  refine ⟨hS, by decide, (goodB_iff _ _ _ _).mp (by decide), (goodTxB_iff _ _ _).mp (by decide), rfl, ?_, by decide⟩
  refine ⟨hS, ?_, Or.inl rfl⟩
  decide

/-- a root function that reads the transactions of the range's blocks — `LocalRoot` PROVED -/
def Rj : (Nat → List Nat) → List Block → Option (List (Nat × List Nat)) :=
  fun tx bs => if bs.isEmpty then none else some (bs.map fun b => (b.hash, tx b.hash))

theorem Rj_local : LocalRoot Rj := by
  intro tx tx' bs h
  unfold Rj
  split
  · rfl
  · congr 1
    apply List.map_congr_left
    intro b hb
    rw [h b hb]

/-- … and a function that is NOT local exists (the hypothesis is not automatic): it reads block 0's
transactions whatever the range -/
example : ¬ LocalRoot (fun (tx : Nat → List Nat) (_ : List Block) => some (tx 0)) := by
  intro h
  have := h (fun _ => [1]) (fun _ => [2]) [] (by simp)
  revert this; decide

/-- `C13_roots_read_through_join`: `LocalRoot` and `Sorted` -/
example : LocalRoot Rj ∧ Sorted S1 := ⟨Rj_local, S1_sorted⟩

/-! ## whole histories -/

/-- **the multi-import theorems: `Sorted`, `Ok`, `OkT`, `Covered`, `CoversAll`, `Relost`, `RInv`, `TInv`,
`hsame`, `lastT`** on the history of `ImportMany` (a consumed forward above the target, an EARLY EXIT, a
chain switch with re-included transactions) and two other nodes -/
example : Sorted ([] : List Block) ∧ Ok [] [c1, cE, c2] ∧ OkT txEx [] [c1, cE, c2] ∧ Covered [] [c1, cE, c2] ∧
    CoversAll 2 [] [c1, cE, c2] ∧
    Relost [] 0 (trace [] [c1, cE, c2]) ∧ (∀ x ∈ ([] : List Block), x.number ≤ 0) ∧
    RInv Rex [] ([] : List (Nat × List Nat)) ∧ TInv txEx [] [] ∧
    Ok [] [d1, d2, d3] ∧ Covered [] [d1, d2, d3] ∧
    naive [] (trace [] [c1, cE, c2]) = naive [] (trace [] [d1, d2, d3]) ∧
    lastT none (trace [] [c1, cE, c2]) = some 50 ∧ lastT none (trace [] [d1, d2, d3]) = some 50 ∧
    (trace [] [c1, cE, c2]).length = 2 ∧ early (stepB [] c1) cE.c.untilN = true ∧
    (runMany Rex ⟨[], []⟩ [c1, cE, c2]).roots.length = 3 :=
  ⟨List.Pairwise.nil, (okB_iff _ _).mp (by decide +kernel), (okTB_iff _ _ _).mp (by decide +kernel),
    (coveredB_iff _ _).mp (by decide +kernel), (coversAllB_iff _ _ _).mp (by decide +kernel),
    (relostB_iff _ _ _).mp (by decide +kernel), by simp, ⟨0, rfl, Or.inl rfl⟩, rfl,
    (okB_iff _ _).mp (by decide +kernel), (coveredB_iff _ _).mp (by decide +kernel),
    by decide +kernel, by decide +kernel, by decide +kernel, by decide +kernel, by decide +kernel,
    by decide +kernel⟩

/-- **`C13_multi_import_vs_fresh`: hypotheses** -/
example : Good cFresh.c none [] cFresh.rs ∧
    naive [] (trace [] [c1, cE, c2])
      = (applyAll [] (consumed [] cFresh)).filter (fun x => x.number ≤ cFresh.c.untilN) ∧
    lastT none (trace [] [c1, cE, c2]) = some cFresh.c.untilN ∧
    Below (importF Rex cFresh.c cFresh.fuel [] [] cFresh.rs).1 ((cFresh.c.untilN + 1) / LEN) :=
  ⟨(goodB_iff _ _ _ _).mp (by decide +kernel), by decide +kernel, by decide +kernel,
    (belowB_iff _ _).mp (by decide +kernel)⟩

/-- the driver history: an import, a RESTART, an import that exits early, an import with a chain switch -/
def opsW : List ImportMany.Op :=
  [.imp 31 c1.rs, .restart, .imp 20 cE.rs, .imp 50 c2.rs]
def st0 : Importer.St (List (Nat × List Nat)) := ⟨[], [], [], [], none⟩

/-- **`C13_driver_history_is_multi_import`: all hypotheses** (`LocalRoot` twice — proved —, `Sorted`, `TInv`,
`OkT` of the import requests the driver derives), and the history is not trivial: three requests, two scans -/
example : LocalRoot Rj ∧ Sorted st0.blocks ∧ TInv txEx st0.blocks st0.txs ∧
    OkT txEx st0.blocks (impsOf txEx (fun T => Rj (txsIn T)) (fun T => Rj (txsIn T)) 10 st0 opsW) ∧
    (impsOf txEx (fun T => Rj (txsIn T)) (fun T => Rj (txsIn T)) 10 st0 opsW).length = 3 ∧
    (trace st0.blocks (impsOf txEx (fun T => Rj (txsIn T)) (fun T => Rj (txsIn T)) 10 st0 opsW)).length = 2 ∧
    (drive txEx (fun T => Rj (txsIn T)) (fun T => Rj (txsIn T)) 10 st0 opsW).1.blocks.length = 50 :=
  ⟨Rj_local, List.Pairwise.nil, rfl, (okTB_iff _ _ _).mp (by decide +kernel), by decide +kernel,
    by decide +kernel, by decide +kernel⟩

/-- `C13_driver_loop_is_proven_loop`: the hypothesis `panicked = false` on a scan with a store roll-back -/
example : (runX (ρ := List Nat) txW ⟨20, 100, 100⟩ 10 none SW (rowsOf txW SW) [] []
    [some (.back 20), some (.back 10), some (.fwd ⟨202, 2, 21⟩), some (.fwd ⟨203, 3, 31⟩), none] []).panicked = false := by
  decide +kernel

end Vacuity.C13
