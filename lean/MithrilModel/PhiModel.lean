import MithrilModel.CertModel
import MithrilModel.Lottery
/-! `phi_f : f64` as `ProtocolParameters::compute_hash` and `PartialEq` see it
(`mithril-common/src/entities/protocol_parameters.rs`, `fixed::types::U8F24`). -/
namespace PhiModel

/-- rounding of `fixed`'s `to_fixed` for a finite double: nearest, ties to even, on the exact value -/
def u8f24Round (v : Rat) : Int :=
  let scaled := v * ((2 ^ 24 : Nat) : Rat)
  let fl := scaled.floor
  let frac := scaled - (fl : Rat)
  if frac < 1 / 2 then fl else if frac > 1 / 2 then fl + 1 else (if fl % 2 = 0 then fl else fl + 1)

/-- `U8F24::checked_from_num(phi_f)` then the choice `compute_hash` / `==` make (after the `fix:` commit): the
pattern when it fits, else (negative, ≥ 256 after rounding, non-finite) the IEEE bits -/
def phiOfF64 (bits : Nat) : CertModel.Phi :=
  match Lottery.f64ToRat bits with
  | none => .raw bits
  | some v =>
    let r := u8f24Round v
    if r < 0 || r ≥ 2 ^ 32 then .raw bits else .fixed r.toNat

/-- the conversion BEFORE the repair, outside debug builds: `U8F24::from_num` wraps what does not fit -/
def u8f24Wrapped (bits : Nat) : Option Nat :=
  (Lottery.f64ToRat bits).map fun v => (u8f24Round v % (2 ^ 32 : Int)).toNat

theorem phiOfF64_ok (bits : Nat) (h : bits < 2 ^ 64) : CertModel.PhiOk (phiOfF64 bits) := by
  unfold phiOfF64
  split
  · exact h
  · rename_i v _
    simp only
    by_cases hr : (decide (u8f24Round v < 0) || decide (u8f24Round v ≥ 2 ^ 32)) = true
    · rw [if_pos hr]; exact h
    · rw [if_neg hr]
      simp only [Bool.or_eq_true, decide_eq_true_eq, not_or, Int.not_lt, ge_iff_le, Int.not_le] at hr
      show (u8f24Round v).toNat < 2 ^ 32
      omega

/-- 0.2 and 256.2 (= 256.19999999999998863…): BEFORE the repair the wrapped patterns are equal … -/
theorem wrap_counterexample : u8f24Wrapped 0x4070033333333333 = u8f24Wrapped 0x3FC999999999999A := by decide +kernel

/-- … now they enter the hash differently, as do a NaN, an infinity and a negative value -/
theorem wrap_repaired :
    phiOfF64 0x4070033333333333 = .raw 0x4070033333333333 ∧ phiOfF64 0x3FC999999999999A = .fixed 3355443 ∧
    phiOfF64 0x7FF8000000000000 = .raw 0x7FF8000000000000 ∧ phiOfF64 0xBFD3333333333333 = .raw 0xBFD3333333333333 := by
  decide +kernel

end PhiModel
