namespace Leaf

/-- join fields with a separator character -/
def join (sep : Char) : List (List Char) → List Char
  | [] => []
  | [x] => x
  | x :: y :: r => x ++ sep :: join sep (y :: r)

/-- split at every separator -/
def splitAux (sep : Char) : List Char → List Char → List (List Char)
  | [], cur => [cur.reverse]
  | c :: r, cur => if c = sep then cur.reverse :: splitAux sep r [] else splitAux sep r (c :: cur)

def split (sep : Char) (s : List Char) : List (List Char) := splitAux sep s []

theorem splitAux_append (sep : Char) (x : List Char) (hx : sep ∉ x) (rest cur : List Char) :
    splitAux sep (x ++ rest) cur = splitAux sep rest (x.reverse ++ cur) := by
  induction x generalizing cur with
  | nil => simp
  | cons c x ih =>
    have hc : c ≠ sep := fun h => hx (by simp [h])
    have hx' : sep ∉ x := fun h => hx (by simp [h])
    simp only [List.cons_append, splitAux, hc, if_false]
    rw [ih hx']
    simp

/-- splitting a join of separator-free, non-empty list of fields gives the fields back -/
theorem split_join (sep : Char) : ∀ (parts : List (List Char)), parts ≠ [] →
    (∀ p ∈ parts, sep ∉ p) → split sep (join sep parts) = parts := by
  intro parts
  induction parts with
  | nil => intro h; exact absurd rfl h
  | cons x r ih =>
    intro _ hp
    have hx : sep ∉ x := hp x (by simp)
    cases r with
    | nil =>
      simp only [join, split]
      have := splitAux_append sep x hx [] []
      simp only [List.append_nil] at this
      rw [this]; simp [splitAux]
    | cons y r =>
      simp only [join, split]
      rw [splitAux_append sep x hx _ []]
      simp only [List.append_nil, splitAux, if_true, List.reverse_reverse]
      have := ih (by simp) (fun p hp' => hp p (by simp [hp']))
      simp only [split] at this
      rw [this]

/-- **Injectivity of a separator-joined encoding on separator-free fields** -/
theorem join_inj (sep : Char) (a b : List (List Char)) (ha : a ≠ []) (hb : b ≠ [])
    (hsa : ∀ p ∈ a, sep ∉ p) (hsb : ∀ p ∈ b, sep ∉ p) (h : join sep a = join sep b) : a = b := by
  rw [← split_join sep a ha hsa, ← split_join sep b hb hsb, h]

/-- the V2 transaction leaf -/
def txLeaf (tx blockHash bn slot : List Char) : List Char :=
  join '/' ["Tx".toList, tx, blockHash, bn, slot]

theorem txLeaf_inj {t b n s t' b' n' s' : List Char}
    (h1 : '/' ∉ t) (h2 : '/' ∉ b) (h3 : '/' ∉ n) (h4 : '/' ∉ s)
    (h1' : '/' ∉ t') (h2' : '/' ∉ b') (h3' : '/' ∉ n') (h4' : '/' ∉ s')
    (h : txLeaf t b n s = txLeaf t' b' n' s') : t = t' ∧ b = b' ∧ n = n' ∧ s = s' := by
  have hTx : '/' ∉ "Tx".toList := by decide
  have := join_inj '/' _ _ (by simp) (by simp)
    (by intro p hp; simp at hp; rcases hp with rfl | rfl | rfl | rfl | rfl <;> assumption)
    (by intro p hp; simp at hp; rcases hp with rfl | rfl | rfl | rfl | rfl <;> assumption) h
  simp at this
  exact this

/-- with `/` allowed inside the block hash two different items share a leaf -/
theorem txLeaf_slash_counterexample :
    txLeaf "T".toList "B/1/2".toList "3".toList "4".toList = txLeaf "T".toList "B".toList "1".toList "2/3/4".toList := by
  decide

#print axioms txLeaf_inj
end Leaf
