namespace Registration

/-- uninterpreted primitives: results of the real checks -/
structure Prim where
  opcertOk : Nat → Bool                       -- op-cert id ↦ Ed25519 check by its cold key
  kesVerify : Nat → Nat → Nat → Nat → Bool    -- evolution, kes vk (from op-cert), message (vk bytes id), signature id
  popVerify : Nat → Bool                      -- verification key id
  poolIdOf : Nat → Option Nat                 -- cold key ↦ pool id (`none`: bech32 encoding error)
  kesVkOf : Nat → Nat                         -- op-cert ↦ its KES key
  coldOf : Nat → Nat                          -- op-cert ↦ its cold key

structure Params where
  partyId : Option Nat        -- claimed by the registrant, ignored when an op-cert is present
  opcert : Option Nat
  vk : Nat
  kesSig : Option Nat
  kesEvolutions : Option Nat
  claimedStake : Nat          -- never read

inductive Err where
  | opCertMissing | kesPeriodMissing | kesSigMissing | opCertInvalid | kesInvalid
  | poolId | partyNotInDistribution | keyInvalid | alreadyRegistered
deriving DecidableEq, Repr

/-- `KesVerifierStandard::verify`: evolutions `max(0,e-1) ..= min(63,e+1)` -/
def kesWindow (P : Prim) (oc vk sig e : Nat) : Bool :=
  let lo := e - 1
  let hi := min 63 (e + 1)
  (List.range (hi + 1 - lo)).any (fun i => P.kesVerify (lo + i) (P.kesVkOf oc) vk sig)

def register (P : Prim) (sd : Nat → Option Nat) (registered : List Nat) (p : Params) :
    Except Err (Nat × Nat) :=
  match p.opcert with
  | none => .error .opCertMissing
  | some oc =>
    match p.kesEvolutions with
    | none => .error .kesPeriodMissing
    | some e =>
      match p.kesSig with
      | none => .error .kesSigMissing
      | some sig =>
        if !P.opcertOk oc then .error .opCertInvalid
        else if !kesWindow P oc p.vk sig e then .error .kesInvalid
        else
          match P.poolIdOf (P.coldOf oc) with
          | none => .error .poolId
          | some pid =>
            match sd pid with
            | none => .error .partyNotInDistribution
            | some stake =>
              if !P.popVerify p.vk then .error .keyInvalid
              else if registered.contains p.vk then .error .alreadyRegistered
              else .ok (pid, stake)

theorem kesWindow_iff (P : Prim) (oc vk sig e : Nat) :
    kesWindow P oc vk sig e = true ↔
      ∃ t, e - 1 ≤ t ∧ t ≤ e + 1 ∧ t ≤ 63 ∧ P.kesVerify t (P.kesVkOf oc) vk sig = true := by
  unfold kesWindow
  simp only [List.any_eq_true, List.mem_range]
  constructor
  · rintro ⟨i, hi, hv⟩
    exact ⟨e - 1 + i, by omega, by omega, by omega, hv⟩
  · rintro ⟨t, h1, h2, h3, hv⟩
    refine ⟨t - (e - 1), by omega, ?_⟩
    have : e - 1 + (t - (e - 1)) = t := by omega
    rw [this]; exact hv

/-- **Acceptance is exactly the conjunction the property lists.** -/
theorem register_iff (P : Prim) (sd : Nat → Option Nat) (registered : List Nat) (p : Params) (pid st : Nat) :
    register P sd registered p = .ok (pid, st) ↔
      ∃ oc e sig, p.opcert = some oc ∧ p.kesEvolutions = some e ∧ p.kesSig = some sig ∧
        P.opcertOk oc = true ∧
        (∃ t, e - 1 ≤ t ∧ t ≤ e + 1 ∧ t ≤ 63 ∧ P.kesVerify t (P.kesVkOf oc) p.vk sig = true) ∧
        P.poolIdOf (P.coldOf oc) = some pid ∧ sd pid = some st ∧
        P.popVerify p.vk = true ∧ p.vk ∉ registered := by
  unfold register
  constructor
  · intro h
    split at h; · simp at h
    rename_i oc hoc
    split at h; · simp at h
    rename_i e he
    split at h; · simp at h
    rename_i sig hsig
    split at h; · simp at h
    rename_i h1
    split at h; · simp at h
    rename_i h2
    split at h; · simp at h
    rename_i pid' hpid
    split at h; · simp at h
    rename_i st' hst
    split at h; · simp at h
    rename_i h3
    split at h; · simp at h
    rename_i h4
    simp only [Except.ok.injEq, Prod.mk.injEq] at h
    obtain ⟨rfl, rfl⟩ := h
    refine ⟨oc, e, sig, hoc, he, hsig, by simpa using h1, ?_, hpid, hst, by simpa using h3, by simpa using h4⟩
    exact (kesWindow_iff P oc p.vk sig e).mp (by simpa using h2)
  · rintro ⟨oc, e, sig, hoc, he, hsig, h1, h2, hpid, hst, h3, h4⟩
    have hw := (kesWindow_iff P oc p.vk sig e).mpr h2
    simp [hoc, he, hsig, h1, hw, hpid, hst, h3, h4]

/-- the recorded stake never depends on what the registrant claims -/
theorem stake_from_distribution (P : Prim) (sd registered) (p : Params) (s' : Nat) (pid' : Option Nat) :
    register P sd registered { p with claimedStake := s', partyId := pid' } = register P sd registered p := rfl

#print axioms register_iff
end Registration
