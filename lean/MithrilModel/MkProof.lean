import MithrilModel.MmrSound
import MithrilModel.Nested
/-!
`MKProof::{verify, contains}` and `MKMapProof::{verify, contains}` of
`internal/mithril-merkle-tree` (after the `fix:` commit that rejects two different leaves claimed
for one position), on top of the transliterated ckb `calculate_root` (`Mmr.calcRoot`).
-/
namespace MkProof
open Mmr ExprTree

structure Proof (α : Type) where
  root : α
  leaves : List (Nat × α)
  size : Nat
  items : List α

variable {α : Type} [DecidableEq α] (merge : α → α → α)

/-- no position is claimed by two different leaves (the check added by the fix) -/
def noConflict (l : List (Nat × α)) : Bool :=
  l.all fun a => l.all fun b => a.1 != b.1 || a.2 == b.2

def fuelFor (p : Proof α) : Nat := 70 * (p.leaves.length + 2)

/-- `MKProof::verify` -/
def verify (p : Proof α) : Bool :=
  noConflict p.leaves && (calcRoot merge (fuelFor p) p.size p.leaves p.items == some p.root)

/-- `MKProof::verify` before the fix (kept to document the fixed finding) -/
def verifyOld (p : Proof α) : Bool :=
  calcRoot merge (fuelFor p) p.size p.leaves p.items == some p.root

/-- `MKProof::contains` -/
def contains (p : Proof α) (q : List α) : Bool := q.all fun x => p.leaves.any fun l => l.2 == x

/-- nested proof: master proof and keyed sub-proofs (`MKMapProof`) -/
inductive MapProof (α : Type) where
  | mk (master : Proof α) (subs : List (α × MapProof α)) : MapProof α

def MapProof.master : MapProof α → Proof α
  | .mk m _ => m

def MapProof.subs : MapProof α → List (α × MapProof α)
  | .mk _ s => s

mutual
/-- `MKMapProof::verify` -/
def MapProof.verify : MapProof α → Bool
  | .mk m subs =>
    verifySubs subs && MkProof.verify merge m &&
      (subs.isEmpty || contains m (linkNodes subs))
def verifySubs : List (α × MapProof α) → Bool
  | [] => true
  | (_, p) :: r => p.verify && verifySubs r
def linkNodes : List (α × MapProof α) → List α
  | [] => []
  | (k, p) :: r => merge k p.master.root :: linkNodes r
end

mutual
/-- `MKMapProof::contains` -/
def MapProof.contains : MapProof α → α → Bool
  | .mk m subs, x => MkProof.contains m [x] || containsSubs subs x
def containsSubs : List (α × MapProof α) → α → Bool
  | [], _ => false
  | (_, p) :: r, x => p.contains x || containsSubs r x
end

/-! ### soundness of the (fixed) single-tree verifier -/

theorem dedupPos_sub : ∀ (l : List (Nat × α)), ∀ x ∈ dedupPos l, x ∈ l := by
  intro l
  fun_induction dedupPos l with
  | case1 => simp
  | case2 x => simp
  | case3 x y r h ih =>
    intro z hz
    have := ih z hz
    simp only [List.mem_cons] at this ⊢
    rcases this with h1 | h1
    · exact Or.inl h1
    · exact Or.inr (Or.inr h1)
  | case4 x y r h ih =>
    intro z hz
    simp only [List.mem_cons] at hz ⊢
    rcases hz with h1 | h1
    · exact Or.inl h1
    · have := ih z h1
      simp only [List.mem_cons] at this
      exact Or.inr this

theorem dedupPos_pos : ∀ (l : List (Nat × α)), ∀ x ∈ l, ∃ y ∈ dedupPos l, y.1 = x.1 := by
  intro l
  fun_induction dedupPos l with
  | case1 => simp
  | case2 x => intro z hz; exact ⟨x, by simp [dedupPos], by simp at hz; rw [hz]⟩
  | case3 x y r h ih =>
    intro z hz
    simp only [List.mem_cons] at hz
    rcases hz with rfl | rfl | hz
    · exact ih _ (by simp)
    · obtain ⟨w, hw, e⟩ := ih x (by simp)
      exact ⟨w, hw, by rw [e, h]⟩
    · exact ih z (by simp [hz])
  | case4 x y r h ih =>
    intro z hz
    simp only [List.mem_cons] at hz
    rcases hz with rfl | hz
    · exact ⟨z, by simp, rfl⟩
    · obtain ⟨w, hw, e⟩ := ih z (by simpa using hz)
      exact ⟨w, by simp [hw], e⟩

theorem mem_insertPos (x : Nat × α) : ∀ (l : List (Nat × α)) (z : Nat × α), z ∈ insertPos x l ↔ z = x ∨ z ∈ l := by
  intro l
  induction l with
  | nil => intro z; simp [insertPos]
  | cons y r ih =>
    intro z
    simp only [insertPos]
    split
    · simp
    · simp only [List.mem_cons, ih]
      constructor
      · rintro (h | h | h)
        · exact Or.inr (Or.inl h)
        · exact Or.inl h
        · exact Or.inr (Or.inr h)
      · rintro (h | h | h)
        · exact Or.inr (Or.inl h)
        · exact Or.inl h
        · exact Or.inr (Or.inr h)

theorem mem_sortPos : ∀ (l : List (Nat × α)) (z : Nat × α), z ∈ sortPos l ↔ z ∈ l := by
  intro l
  induction l with
  | nil => intro z; simp [sortPos]
  | cons y r ih =>
    intro z
    have : sortPos (y :: r) = insertPos y (sortPos r) := rfl
    rw [this, mem_insertPos, ih]
    simp

theorem noConflict_spec {l : List (Nat × α)} (h : noConflict l = true) :
    ∀ a ∈ l, ∀ b ∈ l, a.1 = b.1 → a.2 = b.2 := by
  intro a ha b hb hab
  unfold noConflict at h
  have := (List.all_eq_true.mp ((List.all_eq_true.mp h) a ha)) b hb
  simp only [Bool.or_eq_true, bne_iff_ne, ne_eq, beq_iff_eq] at this
  rcases this with h1 | h1
  · exact absurd hab h1
  · exact h1

/-- **`MKProof` soundness (fixed code), value level**: if `verify` accepts and the proof's root is
the value of a committed tree `t` (leaves not merge values, `merge` injective), then every value the
proof `contains` that is not a merge value is a leaf of `t` — whatever MMR size the proof claims. -/
theorem verify_contains_sound
    (hinj : ∀ a b c d, merge a b = merge c d → a = c ∧ b = d)
    (t : E α) (hT : ∀ a ∈ ExprTree.leaves t, ¬ IsMerge merge a)
    (p : Proof α) (hroot : p.root = eval merge t) (hv : verify merge p = true)
    (x : α) (hc : contains p [x] = true) (hx : ¬ IsMerge merge x) : x ∈ ExprTree.leaves t := by
  unfold verify at hv
  simp only [Bool.and_eq_true, beq_iff_eq] at hv
  obtain ⟨hnc, hcalc⟩ := hv
  rw [hroot] at hcalc
  have hsound := mkproof_value_sound merge hinj t hT (fuelFor p) p.size p.leaves p.items hcalc
  simp only [contains, List.all_cons, List.all_nil, Bool.and_true, List.any_eq_true, beq_iff_eq] at hc
  obtain ⟨l, hl, rfl⟩ := hc
  -- the surviving entry at l's position carries the same value
  obtain ⟨y, hy, hpos⟩ := dedupPos_pos (sortPos p.leaves) l ((mem_sortPos _ _).mpr hl)
  have hyl : y ∈ p.leaves := (mem_sortPos _ _).mp (dedupPos_sub _ y hy)
  have hval : y.2 = l.2 := noConflict_spec hnc y hyl l hl hpos
  have := hsound y hy (by rw [hval]; exact hx)
  rw [hval] at this
  exact this

end MkProof
