import MithrilModel.MmrSized
/-!
# C12 — model of the immutable-file digester

Transliteration of
* `ImmutableFile::list_all_in_dir` (`find_immutables_dir`: first directory named `immutable` in walk
  order; entries of that directory that are regular files with one of the three extensions; number
  parsed from the stem, a parse error aborts the listing; `sort()` by `(number, path)`),
* `list_immutable_files_to_process` (keep `number ≤ beacon`; the last kept number must be the beacon),
* `CardanoImmutableDigester::process_immutables` / `update_cache` (cache keyed by FILE NAME; a cached
  value is used as is, a missing one is computed and stored),
* `MKTree::new(&digests)` + `compute_root` (ckb MMR builder, `MmrBuild.root`).

The model is parametric in the content type `γ`, the file hash `sha : γ → Bytes` (hex of SHA-256 in the
code) and the node hash `H` (Blake2s-256 in the code). Names are lists of code points (bytes for the
ASCII names the harness uses): `Path` ordering is bytewise, which is code-point order.
-/
namespace Digester

abbrev Name := List Nat
abbrev Bytes := List UInt8

/-- one entry of a directory as the walk yields it -/
structure Entry (γ : Type) where
  name : Name
  isFile : Bool
  content : γ

def str (s : String) : Name := s.toList.map Char.toNat

def DOT : Nat := 46
def IMMUTABLE : Name := [105, 109, 109, 117, 116, 97, 98, 108, 101]
def EXTS : List Name :=
  [[99, 104, 117, 110, 107], [112, 114, 105, 109, 97, 114, 121], [115, 101, 99, 111, 110, 100, 97, 114, 121]]

/-- `rsplit_file_at_dot`: `(stem, extension)`; no extension when there is no dot or the only dot leads -/
def splitExt (n : Name) : Option (Name × Name) :=
  match n.reverse.span (· ≠ DOT) with
  | (_, []) => none
  | (aft, _ :: bef) => if bef = [] then none else some (bef.reverse, aft.reverse)

/-- `u64::from_str`: one optional `+`, then one or more ASCII digits, value below 2^64 -/
def digitsVal : List Nat → Option Nat
  | [] => none
  | ds => if ds.all (fun c => 48 ≤ c && c ≤ 57) then some (ds.foldl (fun acc c => acc * 10 + (c - 48)) 0) else none

def parseU64 (s : Name) : Option Nat :=
  let ds := match s with
    | 43 :: rest => if rest = [] then [] else rest
    | _ => s
  match digitsVal ds with
  | some v => if v < 2 ^ 64 then some v else none
  | none => none

/-- `is_immutable`: a regular file whose extension is one of the three -/
def isImm {γ : Type} (e : Entry γ) : Bool :=
  e.isFile && (match splitExt e.name with
    | some (_, ext) => EXTS.contains ext
    | none => false)

/-- the number `ImmutableFile::new` parses from the stem (`none` = `FileNumberParsing` error) -/
def numberOf (n : Name) : Option Nat :=
  match splitExt n with
  | some (stem, _) => parseU64 stem
  | none => parseU64 n

structure IFile (γ : Type) where
  number : Nat
  name : Name
  content : γ

def lexLe : Name → Name → Bool
  | [], _ => true
  | _ :: _, [] => false
  | a :: as, b :: bs => a < b || (a = b && lexLe as bs)

/-- `Ord for ImmutableFile`: number, then path -/
def le {γ : Type} (a b : IFile γ) : Bool := a.number < b.number || (a.number = b.number && lexLe a.name b.name)

def mkFile {γ : Type} (e : Entry γ) : Option (IFile γ) :=
  (numberOf e.name).map fun n => { number := n, name := e.name, content := e.content }

/-- `ImmutableFile::list_all_in_dir` on the entries of the immutable directory (in listing order):
`none` = listing error (some immutable-looking file has no parsable number) -/
def listAll {γ : Type} (es : List (Entry γ)) : Option (List (IFile γ)) :=
  let imm := es.filter isImm
  if imm.all (fun e => (numberOf e.name).isSome) then some ((imm.filterMap mkFile).mergeSort le) else none

inductive Err where
  | noImmutableDir
  | listing
  | notEnough (found : Option Nat)
deriving DecidableEq, Repr

/-- the sorted listing cut at the beacon: `.filter(|f| f.number <= up_to_file_number)` -/
def kept {γ : Type} (es : List (Entry γ)) (beacon : Nat) : Option (List (IFile γ)) :=
  (listAll es).map (fun all => all.filter (fun f => f.number ≤ beacon))

/-- `list_immutable_files_to_process` -/
def toProcess {γ : Type} (es : List (Entry γ)) (beacon : Nat) : Except Err (List (IFile γ)) :=
  match kept es beacon with
  | none => .error .listing
  | some k =>
    match k.getLast? with
    | none => .error (.notEnough none)
    | some l => if l.number < beacon then .error (.notEnough (some l.number)) else .ok k

/-! ## cache (association list keyed by file name; the providers are maps) -/

abbrev Cache := List (Name × Bytes)

def lookup (c : Cache) (n : Name) : Option Bytes := (c.find? (·.1 = n)).map (·.2)

/-- `store`: insert or overwrite -/
def insert (c : Cache) (n : Name) (d : Bytes) : Cache := (n, d) :: c.filter (·.1 ≠ n)

variable {γ : Type} (sha : γ → Bytes)

/-- digest used for one file: the cached value when there is one, else the computed one -/
def digestOf (c : Cache) (f : IFile γ) : Bytes := (lookup c f.name).getD (sha f.content)

/-- `update_cache`: the newly computed entries are stored -/
def updateCache (c : Cache) (fs : List (IFile γ)) : Cache :=
  fs.foldl (fun acc f => match lookup c f.name with
    | some _ => acc
    | none => insert acc f.name (sha f.content)) c

variable (H : Bytes → Bytes)

def merge (a b : Bytes) : Bytes := H (a ++ b)

structure Result where
  root : Bytes
  leaves : List Bytes
  cache : Cache

/-- `compute_merkle_tree(dir, beacon)` + `compute_root`, on the entries of the immutable directory -/
def rootIn (c : Cache) (es : List (Entry γ)) (beacon : Nat) : Except Err Result :=
  match toProcess es beacon with
  | .error e => .error e
  | .ok fs =>
    let leaves := fs.map (digestOf sha c)
    match MmrBuild.root (merge H) leaves with
    | none => .error (.notEnough none)
    | some r => .ok { root := r, leaves := leaves, cache := updateCache sha c fs }

/-- `find_immutables_dir`: first directory named `immutable` in walk order (pre-order walk of the
directories below the database root; each with its own entries) -/
def findImm (dirs : List (Name × List (Entry γ))) : Option (List (Entry γ)) :=
  (dirs.find? (·.1 = IMMUTABLE)).map (·.2)

def root (c : Cache) (dirs : List (Name × List (Entry γ))) (beacon : Nat) : Except Err Result :=
  match findImm dirs with
  | none => .error .noImmutableDir
  | some es => rootIn sha H c es beacon

end Digester
