import MithrilModel.SignerInv
import MithrilModel.AggAttr
import MithrilModel.AggChain
/-!
C20 — the signer model with a history log, and its composition with the aggregator model.

Part A (`marked ⇒ published`): `stepG` is `Signer.step` run next to a chronological log of observations
(`published`: the aggregator answered 201 to `/register-signatures`; `noLottery`: `compute_single_signature`
returned `None`; `marked`: `mark_beacon_as_signed` succeeded) and the history of the chain's stake
distributions. With the flag `markFirst` off the state component IS `Signer.step` (`stepG_state`), so every
statement about the log is a statement about the model that is compared with the real signer. With the flag on,
the certifier marks BEFORE it publishes (the deliberately broken variant).

Part B (`accepted`): the primitive verdicts `Agg.Sig` wants as inputs are computed from what the signer
published and from the aggregator's registration table WITH keys (`KeyView`), and `Agg.registerSig` is shown to
store the signature as the only row of that party. The facts about the signer's side are invariants of every
history: the signer lists it read are the aggregator's closed lists (`step_closed`, `PubFacts`), it registers at most
one key per round (`InvKey`), the stake distributions it used are those the chain reported one epoch before the
recording epoch (`InvVers`). Both models use the same convention for registration tables (keyed by the recording
epoch, read at epoch − 1 / epoch); `signersOf_projRegs`, `agg_round_offset`, `agg_register_bridge` are the bridge.

Part C (`stake in force`): the stake distribution a signature of epoch `E` was made with is the one the chain
reported in epoch `E − 2`.
-/
namespace SignerAgg
open Signer

/-! ## Part A — the history log -/

/-- what a signature was computed from, beyond what `Pub` records: the signer list the single signer was built from
(`cur`), and what the seed of the message — the next aggregate verification key — was built from: the next signer
list and the stake distribution stored for it -/
structure Wit where
  cur : List Reg
  next : List Reg
  nextStake : Nat
  deriving DecidableEq, Repr

inductive Obs where
  /-- `/register-signatures` answered 201 for `p`, computed from `w` -/
  | published (p : Pub) (w : Wit)
  /-- `compute_single_signature` returned `None` (no lottery won) for entity `x` at chain epoch `t` -/
  | noLottery (t : Nat) (x : Entity)
  /-- `mark_beacon_as_signed` stored the row `(t, x)` -/
  | marked (t : Nat) (x : Entity)
  deriving DecidableEq, Repr

/-- the signer model with its ghost history -/
structure G where
  s : State
  log : List Obs                -- chronological
  vers : List (Nat × Nat)       -- (epoch, stake distribution version) for every epoch the signer's node went through
  deriving DecidableEq, Repr

/-- `mark_beacon_as_signed` under the fault schedule, logged -/
def markG (g : G) (x : Entity) : G :=
  if g.s.env.markFail > 0 then
    { g with s := keepErr { g.s with env := { g.s.env with markFail := g.s.env.markFail - 1 } } }
  else
    { g with s := { g.s with st := { g.s.st with signed := g.s.st.signed ++ [(g.s.env.epoch, x)] }, res := .ok },
             log := g.log ++ [.marked g.s.env.epoch x] }

/-- the publication alone (retry policy included); the flag says whether the aggregator received it -/
def publishG (g : G) (d : EpochData) (x : Entity) (k sv nsv : Nat) : G × Bool :=
  if g.s.env.down then ({ g with s := keepErr g.s }, false)
  else if g.s.env.pubFail < g.s.env.attempts then
    ({ g with s := { g.s with env := { g.s.env with pubFail := g.s.env.pubFail - min g.s.env.pubFail g.s.env.attempts },
                              pubs := g.s.pubs ++ [⟨x, k, d.epoch, g.s.env.epoch, sv⟩] },
              log := g.log ++ [.published ⟨x, k, d.epoch, g.s.env.epoch, sv⟩ ⟨d.cur, d.next, nsv⟩] }, true)
  else ({ g with s := keepErr { g.s with env := { g.s.env with pubFail := g.s.env.pubFail - min g.s.env.pubFail g.s.env.attempts } } },
        false)

/-- the code as it is: publish, THEN mark -/
def publishMarkG (g : G) (d : EpochData) (x : Entity) (k sv nsv : Nat) : G :=
  match publishG g d x k sv nsv with
  | (g1, true) => markG g1 x
  | (g1, false) => g1

/-- the broken variant: mark, THEN publish -/
def markPublishG (g : G) (d : EpochData) (x : Entity) (k sv nsv : Nat) : G :=
  if g.s.env.markFail > 0 then markG g x
  else (publishG (markG g x) d x k sv nsv).1

def signEntityG (markFirst : Bool) (g : G) (d : EpochData) (x : Entity) (lost : Bool) : G :=
  let s := g.s
  if x.disc == Disc.csd && (lookup s.st.stakes (x.epoch + 2)).isNone then { g with s := keepErr s }
  else if (lookup s.st.inis (nextRetrieval d.epoch)).isNone then { g with s := keepErr s }
  else if (lookup s.st.stakes (nextRetrieval d.epoch)).isNone then { g with s := keepErr s }
  else if d.next.isEmpty then { g with s := keepErr s }
  else
    match d.ini, lookup s.st.stakes (retrieval d.epoch), lookup s.st.stakes (nextRetrieval d.epoch) with
    | some k, some sv, some nsv =>
      if d.cur.isEmpty then { g with s := keepErr s }
      else if lost then markG { g with log := g.log ++ [.noLottery s.env.epoch x] } x
      else if markFirst then markPublishG g d x k sv nsv
      else publishMarkG g d x k sv nsv
    | _, _, _ => { g with s := keepErr s }

def tickReadyG (markFirst : Bool) (g : G) (e : Nat) (lost : Bool) : G :=
  let s := g.s
  if e < s.env.epoch then { g with s := { s with mach := .unreg s.env.epoch, res := .ok } }
  else match s.data with
  | none => { g with s := keepErr s }
  | some d =>
    if d.allowed.contains Disc.csd && s.env.epoch == 0 then { g with s := keepErr s } else
    match beaconToSign s d with
    | none => { g with s := { s with res := .ok } }
    | some x => signEntityG markFirst g d x lost

def tickG (markFirst : Bool) (g : G) (lost : Bool) : G :=
  match g.s.mach with
  | .ready e => tickReadyG markFirst g e lost
  | _ => { g with s := tick g.s lost }

def stepG (markFirst : Bool) (g : G) : Event → G
  | .tick lost => tickG markFirst g lost
  | .epochUp v => { g with s := step g.s (.epochUp v), vers := g.vers ++ [(g.s.env.epoch + 1, v)] }
  | ev => { g with s := step g.s ev }

def runG (markFirst : Bool) (g : G) (evs : List Event) : G := evs.foldl (stepG markFirst) g

def initG (env : Env) : G := { s := initState env, log := [], vers := [(env.epoch, env.stakeVer)] }

/-! ### the logged model is the model -/

theorem markG_state (g : G) (x : Entity) : (markG g x).s = mark g.s x := by
  unfold markG mark
  split <;> rfl

theorem publishMarkG_state (g : G) (d : EpochData) (x : Entity) (k sv nsv : Nat) :
    (publishMarkG g d x k sv nsv).s = publishMark g.s d x k sv := by
  unfold publishMarkG publishG publishMark
  by_cases h1 : g.s.env.down = true
  · rw [if_pos h1, if_pos h1]
  · rw [if_neg h1, if_neg h1]
    by_cases h2 : g.s.env.pubFail < g.s.env.attempts
    · rw [if_pos h2, if_pos h2]
      dsimp only
      rw [markG_state]
    · rw [if_neg h2, if_neg h2]

theorem signEntityG_state (g : G) (d : EpochData) (x : Entity) (lost : Bool) :
    (signEntityG false g d x lost).s = signEntity g.s d x lost := by
  unfold signEntityG signEntity
  dsimp only
  cases hi : d.ini <;> cases hl : lookup g.s.st.stakes (retrieval d.epoch) <;>
    cases hn : lookup g.s.st.stakes (nextRetrieval d.epoch) <;> dsimp only
  all_goals repeat' split
  all_goals first
    | rfl
    | (rw [markG_state]; done)
    | (rw [publishMarkG_state]; done)
    | (exfalso; simp_all; done)

theorem tickReadyG_state (g : G) (e : Nat) (lost : Bool) :
    (tickReadyG false g e lost).s = tickReady g.s e lost := by
  unfold tickReadyG tickReady
  dsimp only
  by_cases h1 : e < g.s.env.epoch
  · rw [if_pos h1, if_pos h1]
  rw [if_neg h1, if_neg h1]
  cases hd : g.s.data with
  | none => rfl
  | some d =>
    dsimp only
    by_cases h2 : (d.allowed.contains Disc.csd && g.s.env.epoch == 0) = true
    · rw [if_pos h2, if_pos h2]
    rw [if_neg h2, if_neg h2]
    cases hb : beaconToSign g.s d with
    | none => rfl
    | some x => exact signEntityG_state _ _ _ _

/-- with the flag off, the state component of the logged model is `Signer.step` -/
theorem stepG_state (g : G) (ev : Event) : (stepG false g ev).s = step g.s ev := by
  cases ev with
  | tick lost =>
    show (tickG false g lost).s = tick g.s lost
    unfold tickG
    split
    · rename_i e hm
      rw [tickReadyG_state]
      unfold tick
      rw [hm]
    · rfl
  | _ => rfl

theorem runG_state (evs : List Event) (g : G) : (runG false g evs).s = run g.s evs := by
  induction evs generalizing g with
  | nil => rfl
  | cons ev rest ih =>
    show (runG false (stepG false g ev) rest).s = run (step g.s ev) rest
    rw [ih, stepG_state]

/-! ### marked ⇒ published before, or no lottery won -/

def pubOf : Obs → Option Pub
  | .published p _ => some p
  | _ => none

/-- the part `pre` of the history justifies the row `(t, x)` of the signed-beacon table: the aggregator has
received a signature for `x` made at chain epoch `t`, or the signer found that it had won no lottery for `x` -/
def Justified (pre : List Obs) (t : Nat) (x : Entity) : Prop :=
  (∃ p w, Obs.published p w ∈ pre ∧ p.entity = x ∧ p.chainEpoch = t) ∨ Obs.noLottery t x ∈ pre

/-- every `marked` observation is justified by what precedes it in the history -/
def MIP (log : List Obs) : Prop :=
  ∀ pre post t x, log = pre ++ Obs.marked t x :: post → Justified pre t x

theorem Justified.append {pre : List Obs} {t : Nat} {x : Entity} (h : Justified pre t x) (r : List Obs) :
    Justified (pre ++ r) t x := by
  rcases h with ⟨p, cur, hm, h1, h2⟩ | hm
  · exact Or.inl ⟨p, cur, List.mem_append_left _ hm, h1, h2⟩
  · exact Or.inr (List.mem_append_left _ hm)

theorem MIP_nil : MIP [] := by
  intro pre post t x h
  have := congrArg List.length h
  simp at this

/-- splitting `log ++ [o]` at a `marked` observation: it is the last one, or it lies in `log` -/
theorem snoc_split {log pre post : List Obs} {o m : Obs} (h : log ++ [o] = pre ++ m :: post) :
    (post = [] ∧ log = pre ∧ o = m) ∨ ∃ post', post = post' ++ [o] ∧ log = pre ++ m :: post' := by
  rcases List.eq_nil_or_concat post with hp | ⟨post', b, hp⟩
  · subst hp
    have := List.append_inj' h (by simp)
    left; exact ⟨rfl, this.1, by simpa using this.2⟩
  · subst hp
    have h' : log ++ [o] = (pre ++ m :: post') ++ [b] := by simpa using h
    have := List.append_inj' h' (by simp)
    have hb : o = b := by simpa using this.2
    subst hb
    right; exact ⟨post', by simp, this.1⟩

theorem MIP_snoc_other {log : List Obs} {o : Obs} (h : MIP log) (ho : ∀ t x, o ≠ Obs.marked t x) : MIP (log ++ [o]) := by
  intro pre post t x heq
  rcases snoc_split heq with ⟨_, _, hm⟩ | ⟨post', _, hl⟩
  · exact absurd hm (ho t x)
  · exact h pre post' t x hl

theorem MIP_snoc_marked {log : List Obs} {t : Nat} {x : Entity} (h : MIP log) (hj : Justified log t x) :
    MIP (log ++ [Obs.marked t x]) := by
  intro pre post t' x' heq
  rcases snoc_split heq with ⟨_, hl, hm⟩ | ⟨post', _, hl⟩
  · cases hm; subst hl; exact hj
  · exact h pre post' t' x' hl

/-- consistency of the log with the model's state, and the property -/
structure InvLog (g : G) : Prop where
  /-- the publications of the log are the model's publication log, in order -/
  pubs : g.log.filterMap pubOf = g.s.pubs
  /-- every row of the signed-beacon table was written by a logged `mark_beacon_as_signed` -/
  signed : ∀ t x, (t, x) ∈ g.s.st.signed → Obs.marked t x ∈ g.log
  mip : MIP g.log

theorem InvLog.frame {g g' : G} (h : InvLog g) (h1 : g'.log = g.log) (h2 : g'.s.pubs = g.s.pubs)
    (h3 : ∀ r ∈ g'.s.st.signed, r ∈ g.s.st.signed) : InvLog g' :=
  ⟨by rw [h1, h2]; exact h.pubs, fun t x hx => by rw [h1]; exact h.signed t x (h3 _ hx), by rw [h1]; exact h.mip⟩

theorem markG_inv (g : G) (x : Entity) (h : InvLog g) (hj : Justified g.log g.s.env.epoch x) : InvLog (markG g x) := by
  unfold markG
  split
  · exact h.frame rfl rfl (fun _ hr => hr)
  · refine ⟨?_, ?_, MIP_snoc_marked h.mip hj⟩
    · show (g.log ++ [Obs.marked g.s.env.epoch x]).filterMap pubOf = g.s.pubs
      rw [List.filterMap_append, h.pubs]; simp [pubOf]
    · intro t y hy
      show Obs.marked t y ∈ g.log ++ [Obs.marked g.s.env.epoch x]
      have hy' : (t, y) ∈ g.s.st.signed ++ [(g.s.env.epoch, x)] := hy
      rcases List.mem_append.mp hy' with hy' | hy'
      · exact List.mem_append_left _ (h.signed t y hy')
      · simp only [List.mem_singleton, Prod.mk.injEq] at hy'
        rw [hy'.1, hy'.2]; simp

theorem markG_epoch (g : G) (x : Entity) : (markG g x).s.env.epoch = g.s.env.epoch := by
  unfold markG; split <;> rfl

theorem publishG_inv (g : G) (d : EpochData) (x : Entity) (k sv nsv : Nat) (h : InvLog g) :
    InvLog (publishG g d x k sv nsv).1 ∧ (publishG g d x k sv nsv).1.s.env.epoch = g.s.env.epoch ∧
    ((publishG g d x k sv nsv).2 = true → Justified (publishG g d x k sv nsv).1.log g.s.env.epoch x) := by
  unfold publishG
  split
  · exact ⟨h.frame rfl rfl (fun _ hr => hr), rfl, fun hf => by cases hf⟩
  split
  · refine ⟨⟨?_, ?_, MIP_snoc_other h.mip (fun _ _ hc => by cases hc)⟩, rfl, fun _ => ?_⟩
    · show (g.log ++ [Obs.published ⟨x, k, d.epoch, g.s.env.epoch, sv⟩ ⟨d.cur, d.next, nsv⟩]).filterMap pubOf = g.s.pubs ++ [_]
      rw [List.filterMap_append, h.pubs]; simp [pubOf]
    · intro t y hy
      exact List.mem_append_left _ (h.signed t y hy)
    · exact Or.inl ⟨⟨x, k, d.epoch, g.s.env.epoch, sv⟩, ⟨d.cur, d.next, nsv⟩, by simp, rfl, rfl⟩
  · exact ⟨h.frame rfl rfl (fun _ hr => hr), rfl, fun hf => by cases hf⟩

theorem publishMarkG_inv (g : G) (d : EpochData) (x : Entity) (k sv nsv : Nat) (h : InvLog g) :
    InvLog (publishMarkG g d x k sv nsv) := by
  obtain ⟨h1, h2, h3⟩ := publishG_inv g d x k sv nsv h
  unfold publishMarkG
  split
  · rename_i g1 heq
    rw [heq] at h1 h2 h3
    exact markG_inv g1 x h1 (by rw [h2]; exact h3 rfl)
  · rename_i g1 heq
    rw [heq] at h1
    exact h1

theorem signEntityG_inv (g : G) (d : EpochData) (x : Entity) (lost : Bool) (h : InvLog g) :
    InvLog (signEntityG false g d x lost) := by
  unfold signEntityG
  dsimp only
  repeat' split
  all_goals first
    | exact h.frame rfl rfl (fun _ hr => hr)
    | exact publishMarkG_inv g d x _ _ _ h
    | skip
  · apply markG_inv
    · refine ⟨?_, fun t y hy => List.mem_append_left _ (h.signed t y hy), MIP_snoc_other h.mip (fun _ _ hc => by cases hc)⟩
      show (g.log ++ [Obs.noLottery g.s.env.epoch x]).filterMap pubOf = g.s.pubs
      rw [List.filterMap_append, h.pubs]; simp [pubOf]
    · exact Or.inr (by simp)
  · rename_i hc; cases hc

theorem tickReadyG_inv (g : G) (e : Nat) (lost : Bool) (h : InvLog g) : InvLog (tickReadyG false g e lost) := by
  unfold tickReadyG
  dsimp only
  repeat' split
  all_goals first
    | exact h.frame rfl rfl (fun _ hr => hr)
    | exact signEntityG_inv g _ _ lost h

theorem prune_signed_sub (ret : Option Nat) (t : Nat) (st : Stores) (r : Nat × Entity) (h : r ∈ (prune ret t st).signed) :
    r ∈ st.signed := by
  unfold prune at h
  cases ret with
  | none => exact h
  | some l =>
    dsimp only at h
    split at h
    · exact (List.mem_filter.mp h).1
    · exact h

theorem registerStep_signed_sub (s : State) (d : EpochData) : ∀ r ∈ (registerStep s d).st.signed, r ∈ s.st.signed := by
  unfold registerStep
  dsimp only
  generalize hs1 : ({ s with st := { s.st with stakes := _ }, data := some d } : State) = s1
  have h1 : s1.st.signed = s.st.signed := by subst hs1; rfl
  have h2 := registerSigner_same s1 d
  split
  · rename_i s2 heq
    have : (registerSigner s1 d).1 = s2 := by rw [heq]
    rw [this] at h2
    intro r hr; rw [h2.signed, h1] at hr; exact hr
  · rename_i s2 heq
    have : (registerSigner s1 d).1 = s2 := by rw [heq]
    rw [this] at h2
    intro r hr
    have := prune_signed_sub _ _ _ _ hr
    rw [h2.signed, h1] at this; exact this

theorem tickUnreg_signed_sub (s : State) (e : Nat) : ∀ r ∈ (tickUnreg s e).st.signed, r ∈ s.st.signed := by
  unfold tickUnreg
  dsimp only
  repeat' split
  all_goals first
    | exact fun _ hr => hr
    | exact registerStep_signed_sub _ _

/-- steps outside `ReadyToSign` do not publish and can only prune the signed-beacon table -/
theorem tick_other_frame (s : State) (lost : Bool) (hm : ∀ e, s.mach ≠ .ready e) :
    (tick s lost).pubs = s.pubs ∧ ∀ r ∈ (tick s lost).st.signed, r ∈ s.st.signed := by
  unfold tick
  split
  · exact ⟨rfl, fun _ hr => hr⟩
  · exact ⟨(tickUnreg_onceFrame s _).pubs, tickUnreg_signed_sub s _⟩
  · have := tickNotAble_same s ‹_›
    exact ⟨this.pubs, fun r hr => by rw [this.signed] at hr; exact hr⟩
  · rename_i e he; exact absurd he (hm e)

theorem stepG_inv (g : G) (ev : Event) (h : InvLog g) : InvLog (stepG false g ev) := by
  cases ev with
  | tick lost =>
    show InvLog (tickG false g lost)
    unfold tickG
    split
    · exact tickReadyG_inv g _ lost h
    · rename_i hm
      obtain ⟨h1, h2⟩ := tick_other_frame g.s lost (fun e he => hm e he)
      exact h.frame rfl h1 h2
  | _ => exact h.frame rfl rfl (fun _ hr => hr)

theorem runG_inv (evs : List Event) (g : G) (h : InvLog g) : InvLog (runG false g evs) := by
  induction evs generalizing g with
  | nil => exact h
  | cons ev rest ih => exact ih (stepG false g ev) (stepG_inv g ev h)

theorem initG_inv (env : Env) : InvLog (initG env) :=
  ⟨rfl, fun _ _ hx => by simp [initG, initState] at hx, MIP_nil⟩

/-- **marked ⇒ published** (goal A), for every history of the model (ticks, restarts = crashes between two
cycles, epoch changes on either side, aggregator down, failing publications with retries, failing marks,
pruning): the logged run is the model's run, its `published` observations are the model's publication log, and
every row `(t, x)` of the signed-beacon table was written by a `mark_beacon_as_signed` that comes, in the
history, AFTER the aggregator received a signature for `x` made at chain epoch `t`, or after the signer found
that it had won no lottery for `x`; the same for every `marked` observation, pruned since or not. -/
theorem marked_implies_published (env : Env) (evs : List Event) :
    (runG false (initG env) evs).s = run (initState env) evs ∧
    (runG false (initG env) evs).log.filterMap pubOf = (run (initState env) evs).pubs ∧
    (∀ t x, (t, x) ∈ (run (initState env) evs).st.signed →
      ∃ pre post, (runG false (initG env) evs).log = pre ++ Obs.marked t x :: post ∧ Justified pre t x) ∧
    MIP (runG false (initG env) evs).log := by
  have hs := runG_state evs (initG env)
  have inv := runG_inv evs (initG env) (initG_inv env)
  have hs' : (runG false (initG env) evs).s = run (initState env) evs := hs
  refine ⟨hs', by rw [← hs']; exact inv.pubs, ?_, inv.mip⟩
  intro t x hx
  rw [← hs'] at hx
  obtain ⟨pre, post, hl⟩ := List.append_of_mem (inv.signed t x hx)
  exact ⟨pre, post, hl, inv.mip pre post t x hl⟩

/-- log-free reading: a marked beacon has a publication in the model's publication log, unless a tick found that
no lottery was won for it -/
theorem marked_published_or_lost (env : Env) (evs : List Event) (t : Nat) (x : Entity)
    (hx : (t, x) ∈ (run (initState env) evs).st.signed) :
    (∃ p ∈ (run (initState env) evs).pubs, p.entity = x ∧ p.chainEpoch = t) ∨
      Obs.noLottery t x ∈ (runG false (initG env) evs).log := by
  obtain ⟨_, h2, h3, _⟩ := marked_implies_published env evs
  obtain ⟨pre, post, hl, hj⟩ := h3 t x hx
  rcases hj with ⟨p, cur, hm, e1, e2⟩ | hm
  · left
    refine ⟨p, ?_, e1, e2⟩
    rw [← h2, List.mem_filterMap]
    exact ⟨Obs.published p cur, by rw [hl]; exact List.mem_append_left _ hm, rfl⟩
  · right; rw [hl]; exact List.mem_append_left _ hm

/-! ### what one step can add to the log (either variant) -/

theorem markG_log (g : G) (x : Entity) :
    ∀ o ∈ (markG g x).log, o ∈ g.log ∨ o = Obs.marked g.s.env.epoch x := by
  unfold markG
  split
  · exact fun o ho => Or.inl ho
  · intro o ho
    rcases List.mem_append.mp ho with ho | ho
    · exact Or.inl ho
    · exact Or.inr (by simpa using ho)

theorem publishG_log (g : G) (d : EpochData) (x : Entity) (k sv nsv : Nat) :
    ∀ o ∈ (publishG g d x k sv nsv).1.log,
      o ∈ g.log ∨ o = Obs.published ⟨x, k, d.epoch, g.s.env.epoch, sv⟩ ⟨d.cur, d.next, nsv⟩ := by
  unfold publishG
  split
  · exact fun o ho => Or.inl ho
  split
  · intro o ho
    rcases List.mem_append.mp ho with ho | ho
    · exact Or.inl ho
    · exact Or.inr (by simpa using ho)
  · exact fun o ho => Or.inl ho

theorem publishG_epoch (g : G) (d : EpochData) (x : Entity) (k sv nsv : Nat) :
    (publishG g d x k sv nsv).1.s.env.epoch = g.s.env.epoch := by
  unfold publishG
  split
  · rfl
  split <;> rfl

/-- the observations a signing attempt for `x` under the epoch data `d` can add -/
def NewObs (g : G) (d : EpochData) (x : Entity) (lost : Bool) (o : Obs) : Prop :=
  (o = Obs.noLottery g.s.env.epoch x ∧ lost = true) ∨ o = Obs.marked g.s.env.epoch x ∨
  ∃ k sv nsv, d.ini = some k ∧ lookup g.s.st.stakes (retrieval d.epoch) = some sv ∧
    lookup g.s.st.stakes (nextRetrieval d.epoch) = some nsv ∧ lost = false ∧
    o = Obs.published ⟨x, k, d.epoch, g.s.env.epoch, sv⟩ ⟨d.cur, d.next, nsv⟩

theorem signEntityG_log (mf : Bool) (g : G) (d : EpochData) (x : Entity) (lost : Bool) :
    ∀ o ∈ (signEntityG mf g d x lost).log, o ∈ g.log ∨ NewObs g d x lost o := by
  unfold signEntityG
  dsimp only
  repeat' split
  all_goals first
    | exact fun o ho => Or.inl ho
    | skip
  · -- no lottery won
    rename_i hl
    intro o ho
    rcases markG_log _ x o ho with ho | ho
    · rcases List.mem_append.mp ho with ho | ho
      · exact Or.inl ho
      · exact Or.inr (Or.inl ⟨by simpa using ho, hl⟩)
    · exact Or.inr (Or.inr (Or.inl ho))
  · -- mark, then publish
    rename_i k sv nsv hk hsv hnsv _ hl _
    have hl' : lost = false := by simpa using hl
    intro o ho
    unfold markPublishG at ho
    split at ho
    · rcases markG_log _ x o ho with ho | ho
      · exact Or.inl ho
      · exact Or.inr (Or.inr (Or.inl ho))
    · rcases publishG_log _ d x k sv nsv o ho with ho | ho
      · rcases markG_log _ x o ho with ho | ho
        · exact Or.inl ho
        · exact Or.inr (Or.inr (Or.inl ho))
      · rw [markG_epoch] at ho
        exact Or.inr (Or.inr (Or.inr ⟨k, sv, nsv, hk, hsv, hnsv, hl', ho⟩))
  · -- publish, then mark
    rename_i k sv nsv hk hsv hnsv _ hl _
    have hl' : lost = false := by simpa using hl
    intro o ho
    have hpub := publishG_log g d x k sv nsv
    have hep := publishG_epoch g d x k sv nsv
    unfold publishMarkG at ho
    split at ho
    · rename_i g1 heq
      rw [heq] at hpub hep
      rcases markG_log _ x o ho with ho | ho
      · rcases hpub o ho with ho | ho
        · exact Or.inl ho
        · exact Or.inr (Or.inr (Or.inr ⟨k, sv, nsv, hk, hsv, hnsv, hl', ho⟩))
      · rw [hep] at ho
        exact Or.inr (Or.inr (Or.inl ho))
    · rename_i g1 heq
      rw [heq] at hpub
      rcases hpub o ho with ho | ho
      · exact Or.inl ho
      · exact Or.inr (Or.inr (Or.inr ⟨k, sv, nsv, hk, hsv, hnsv, hl', ho⟩))

/-- a tick in `ReadyToSign e` adds observations only for the selected beacon, in the signer's current epoch -/
theorem tickReadyG_log (mf : Bool) (g : G) (e : Nat) (lost : Bool) :
    ∀ o ∈ (tickReadyG mf g e lost).log, o ∈ g.log ∨
      ∃ d x, ¬ e < g.s.env.epoch ∧ g.s.data = some d ∧ ¬ (d.allowed.contains Disc.csd && g.s.env.epoch == 0) = true ∧
        beaconToSign g.s d = some x ∧ NewObs g d x lost o := by
  unfold tickReadyG
  dsimp only
  by_cases h1 : e < g.s.env.epoch
  · rw [if_pos h1]; exact fun o ho => Or.inl ho
  rw [if_neg h1]
  cases hd : g.s.data with
  | none => exact fun o ho => Or.inl ho
  | some d =>
    dsimp only
    by_cases h2 : (d.allowed.contains Disc.csd && g.s.env.epoch == 0) = true
    · rw [if_pos h2]; exact fun o ho => Or.inl ho
    rw [if_neg h2]
    cases hx : beaconToSign g.s d with
    | none => exact fun o ho => Or.inl ho
    | some x =>
      intro o ho
      rcases signEntityG_log mf g d x lost o ho with ho | ho
      · exact Or.inl ho
      · exact Or.inr ⟨d, x, h1, rfl, h2, hx, ho⟩

theorem stepG_log (mf : Bool) (g : G) (ev : Event) :
    ∀ o ∈ (stepG mf g ev).log, o ∈ g.log ∨
      ∃ e lost d x, ev = .tick lost ∧ g.s.mach = .ready e ∧ ¬ e < g.s.env.epoch ∧ g.s.data = some d ∧
        ¬ (d.allowed.contains Disc.csd && g.s.env.epoch == 0) = true ∧ beaconToSign g.s d = some x ∧ NewObs g d x lost o := by
  cases ev with
  | tick lost =>
    show ∀ o ∈ (tickG mf g lost).log, _
    unfold tickG
    split
    · rename_i e hm
      intro o ho
      rcases tickReadyG_log mf g e lost o ho with ho | ⟨d, x, h⟩
      · exact Or.inl ho
      · exact Or.inr ⟨e, lost, d, x, rfl, hm, h⟩
    · exact fun o ho => Or.inl ho
  | _ => exact fun o ho => Or.inl ho

/-- `noLottery` is only ever logged by a tick whose input bit says that every lottery was lost -/
theorem runG_noLottery (mf : Bool) (evs : List Event) (g : G) (hw : ∀ ev ∈ evs, ev ≠ .tick true)
    (h : ∀ t x, Obs.noLottery t x ∉ g.log) : ∀ t x, Obs.noLottery t x ∉ (runG mf g evs).log := by
  induction evs generalizing g with
  | nil => exact h
  | cons ev rest ih =>
    apply ih (stepG mf g ev) (fun e he => hw e (List.mem_cons_of_mem _ he))
    intro t x hm
    rcases stepG_log mf g ev _ hm with hm | ⟨e, lost, d, y, hev, _, _, _, _, _, hn⟩
    · exact h t x hm
    · rcases hn with ⟨_, hl⟩ | hn | ⟨_, _, _, _, _, _, _, hn⟩
      · subst hl; exact hw ev (by simp) hev
      · cases hn
      · cases hn

/-- when the signer wins a lottery every time it signs, every marked beacon was received by the aggregator before -/
theorem marked_published_when_won (env : Env) (evs : List Event) (hw : ∀ ev ∈ evs, ev ≠ .tick true)
    (t : Nat) (x : Entity) (hx : (t, x) ∈ (run (initState env) evs).st.signed) :
    ∃ p ∈ (run (initState env) evs).pubs, p.entity = x ∧ p.chainEpoch = t := by
  rcases marked_published_or_lost env evs t x hx with h | h
  · exact h
  · exact absurd h (runG_noLottery false evs (initG env) hw (fun _ _ hm => by simp [initG] at hm) t x)

/-! ### the broken variant (mark before publish) violates the property -/

/-- the store part of the property, as a predicate of a logged state -/
def MarkedImpliesPublished (g : G) : Prop :=
  ∀ t x, (t, x) ∈ g.s.st.signed → ∃ pre post, g.log = pre ++ Obs.marked t x :: post ∧ Justified pre t x

def demoEnv : Env := initEnv 1 1 10 [(0, [Disc.msd, Disc.csd, Disc.cdb])] 2 none

/-- two other parties register, the signer registers in epochs 1 and 2 and is `ReadyToSign` in epoch 3 -/
def readyPrefix : List Event :=
  [.regOthers [⟨1, 1001⟩, ⟨2, 1002⟩], .tick false, .tick false,
   .epochUp 11, .aggEpochUp, .regOthers [⟨1, 1001⟩, ⟨2, 1002⟩], .tick false, .tick false,
   .epochUp 12, .aggEpochUp, .tick false, .tick false]

/-- the state the two-step histories below start from is reachable: it is `ReadyToSign 3` -/
def readyG : G := runG true (initG demoEnv) readyPrefix

set_option maxRecDepth 100000 in
theorem readyG_spec : readyG.s.mach = .ready 3 ∧ readyG.log = [] ∧ readyG.s.st.signed = [] ∧
    readyG = runG false (initG demoEnv) readyPrefix := by
  decide

set_option maxRecDepth 100000 in
/-- mark-before-publish, two steps from `ReadyToSign`: the publication fails (two 500 answers against a retry
policy of two attempts), the beacon is in the signed-beacon table, nothing was published and no lottery was
lost -/
theorem mark_first_two_steps :
    (runG true readyG [.setPubFail 2, .tick false]).s.st.signed = [(3, ⟨.msd, 3, 0⟩)] ∧
    (runG true readyG [.setPubFail 2, .tick false]).log = [Obs.marked 3 ⟨.msd, 3, 0⟩] ∧
    (runG true readyG [.setPubFail 2, .tick false]).s.pubs = [] := by
  decide

set_option maxRecDepth 100000 in
/-- the same with the aggregator down; the code as it is (`false`) leaves the table empty in both histories -/
theorem mark_first_two_steps_down :
    (runG true readyG [.setDown true, .tick false]).s.st.signed = [(3, ⟨.msd, 3, 0⟩)] ∧
    (runG true readyG [.setDown true, .tick false]).s.pubs = [] ∧
    (runG false readyG [.setDown true, .tick false]).s.st.signed = [] ∧
    (runG false readyG [.setPubFail 2, .tick false]).s.st.signed = [] := by
  decide

/-- **the broken variant violates marked ⇒ published**: from the initial state, with the history
`readyPrefix ++ [setPubFail 2, tick]` -/
theorem mark_before_publish_counterexample :
    ¬ ∀ (env : Env) (evs : List Event), MarkedImpliesPublished (runG true (initG env) evs) := by
  intro h
  have h1 := h demoEnv (readyPrefix ++ [.setPubFail 2, .tick false])
  have e : runG true (initG demoEnv) (readyPrefix ++ [.setPubFail 2, .tick false]) =
      runG true readyG [.setPubFail 2, .tick false] := by
    unfold runG readyG runG
    rw [List.foldl_append]
  rw [e] at h1
  obtain ⟨hs, hl, _⟩ := mark_first_two_steps
  obtain ⟨pre, post, hlog, hj⟩ := h1 3 ⟨.msd, 3, 0⟩ (by rw [hs]; simp)
  rw [hl] at hlog
  have hpre : pre = [] := by
    cases pre with
    | nil => rfl
    | cons a r =>
      have := congrArg List.length hlog
      simp at this
  subst hpre
  rcases hj with ⟨_, _, hm, _⟩ | hm <;> cases hm

/-- the variant in the code satisfies it for every history (restated with the predicate used above) -/
theorem publish_before_mark_holds (env : Env) (evs : List Event) :
    MarkedImpliesPublished (runG false (initG env) evs) := by
  obtain ⟨h1, _, h3, _⟩ := marked_implies_published env evs
  intro t x hx
  rw [h1] at hx
  exact h3 t x hx

set_option maxRecDepth 100000 in
/-- non-vacuity: a history with a failing publication, a retry that succeeds, a lost lottery and another
publication marks three beacons; the log shows each mark after its publication / its lost lottery -/
example :
    (runG false (initG demoEnv) (readyPrefix ++ [.setPubFail 2, .tick false, .tick false, .tick true, .tick false])).log =
      [Obs.published ⟨⟨.msd, 3, 0⟩, 0, 3, 3, 10⟩ ⟨[⟨1, 1001⟩, ⟨2, 1002⟩, ⟨0, 0⟩], [⟨1, 1001⟩, ⟨2, 1002⟩, ⟨0, 1⟩], 11⟩,
       Obs.marked 3 ⟨.msd, 3, 0⟩,
       Obs.noLottery 3 ⟨.csd, 2, 0⟩, Obs.marked 3 ⟨.csd, 2, 0⟩,
       Obs.published ⟨⟨.cdb, 3, 1⟩, 0, 3, 3, 10⟩ ⟨[⟨1, 1001⟩, ⟨2, 1002⟩, ⟨0, 0⟩], [⟨1, 1001⟩, ⟨2, 1002⟩, ⟨0, 1⟩], 11⟩,
       Obs.marked 3 ⟨.cdb, 3, 1⟩] ∧
    (run (initState demoEnv) (readyPrefix ++ [.setPubFail 2, .tick false, .tick false, .tick true, .tick false])).st.signed =
      [(3, ⟨.msd, 3, 0⟩), (3, ⟨.csd, 2, 0⟩), (3, ⟨.cdb, 3, 1⟩)] := by
  decide

/-! ## frame facts of one tick, for parts B and C -/

/-- what `register_signer_to_aggregator` does to the environment and to the two tables -/
structure RSFrame (s : State) (d : EpochData) (s' : State) : Prop where
  epoch : s'.env.epoch = s.env.epoch
  stakeVer : s'.env.stakeVer = s.env.stakeVer
  aggEpoch : s'.env.aggEpoch = s.env.aggEpoch
  stakes : s'.st.stakes = s.st.stakes
  reg : (s'.env.aggReg = s.env.aggReg ∧ s'.st.inis = s.st.inis) ∨
        (lookup s.st.inis (recording d.epoch) = none ∧ ∃ k, s'.st.inis = s.st.inis ++ [(recording d.epoch, k)] ∧
          (s'.env.aggReg = s.env.aggReg ∨ s'.env.aggReg = s.env.aggReg ++ [(recording d.epoch, ⟨0, k⟩)]))

theorem registerSigner_rs (s : State) (d : EpochData) : RSFrame s d (registerSigner s d).1 := by
  unfold registerSigner
  dsimp only
  split
  · exact ⟨rfl, rfl, rfl, rfl, Or.inl ⟨rfl, rfl⟩⟩
  split
  · exact ⟨rfl, rfl, rfl, rfl, Or.inl ⟨rfl, rfl⟩⟩
  rename_i hnone
  split
  · exact ⟨rfl, rfl, rfl, rfl, Or.inl ⟨rfl, rfl⟩⟩
  split
  · exact ⟨rfl, rfl, rfl, rfl, Or.inl ⟨rfl, rfl⟩⟩
  · refine ⟨rfl, rfl, rfl, rfl, Or.inr ⟨hnone, s.env.nextKey, rfl, ?_⟩⟩
    by_cases hdrop : s.env.regDrop = true
    · left; simp [hdrop]
    · right; simp [hdrop]

theorem prune_inis_keeps (ret : Option Nat) (t : Nat) (st : Stores) (q : Nat × Nat) (h : q ∈ st.inis) (ht : t ≤ q.1) :
    q ∈ (prune ret t st).inis := by
  unfold prune
  cases ret with
  | none => exact h
  | some l => exact List.mem_filter.mpr ⟨h, by simp; omega⟩

/-- what `transition_from_unregistered_to_one_of_registered_states` does to the environment and the tables -/
structure RStepFrame (s : State) (d : EpochData) (s' : State) : Prop where
  epoch : s'.env.epoch = s.env.epoch
  stakeVer : s'.env.stakeVer = s.env.stakeVer
  aggEpoch : s'.env.aggEpoch = s.env.aggEpoch
  stakes : ∀ r ∈ s'.st.stakes, r ∈ s.st.stakes ∨ r = (s.env.epoch + 1, s.env.stakeVer)
  reg : (s'.env.aggReg = s.env.aggReg ∧ ∀ q ∈ s.st.inis, s.env.epoch ≤ q.1 → q ∈ s'.st.inis) ∨
        (lookup s.st.inis (recording d.epoch) = none ∧ ∃ k, s'.env.aggReg = s.env.aggReg ++ [(recording d.epoch, ⟨0, k⟩)] ∧
          ∀ q ∈ s.st.inis ++ [(recording d.epoch, k)], s.env.epoch ≤ q.1 → q ∈ s'.st.inis)

theorem updStakes_mem (s : State) : ∀ r ∈ updStakes s, r ∈ s.st.stakes ∨ r = (s.env.epoch + 1, s.env.stakeVer) := by
  unfold updStakes
  split
  · exact fun r hr => Or.inl hr
  · intro r hr
    rcases List.mem_append.mp hr with hr | hr
    · exact Or.inl hr
    · exact Or.inr (by simpa [recording] using hr)

theorem registerStep_frame (s : State) (d : EpochData) : RStepFrame s d (registerStep s d) := by
  unfold registerStep
  dsimp only
  generalize hs1 : ({ s with st := { s.st with stakes := updStakes s }, data := some d } : State) = s1
  have e1 : s1.env = s.env := by subst hs1; rfl
  have i1 : s1.st.inis = s.st.inis := by subst hs1; rfl
  have k1 : s1.st.stakes = updStakes s := by subst hs1; rfl
  have f := registerSigner_rs s1 d
  -- the facts before pruning
  have mid : ∀ s2 : State, s2 = (registerSigner s1 d).1 →
      s2.env.epoch = s.env.epoch ∧ s2.env.stakeVer = s.env.stakeVer ∧ s2.env.aggEpoch = s.env.aggEpoch ∧
      (∀ r ∈ s2.st.stakes, r ∈ s.st.stakes ∨ r = (s.env.epoch + 1, s.env.stakeVer)) ∧
      ((s2.env.aggReg = s.env.aggReg ∧ ∀ q ∈ s.st.inis, q ∈ s2.st.inis) ∨
        (lookup s.st.inis (recording d.epoch) = none ∧ ∃ k, s2.env.aggReg = s.env.aggReg ++ [(recording d.epoch, ⟨0, k⟩)] ∧
          ∀ q ∈ s.st.inis ++ [(recording d.epoch, k)], q ∈ s2.st.inis)) := by
    intro s2 h2
    subst h2
    refine ⟨by rw [f.epoch, e1], by rw [f.stakeVer, e1], by rw [f.aggEpoch, e1], ?_, ?_⟩
    · rw [f.stakes, k1]; exact updStakes_mem s
    · rcases f.reg with ⟨r1, r2⟩ | ⟨r0, k, r1, r2⟩
      · left; exact ⟨by rw [r1, e1], by rw [r2, i1]; exact fun q hq => hq⟩
      · rcases r2 with r2 | r2
        · left; exact ⟨by rw [r2, e1], by rw [r1, i1]; exact fun q hq => List.mem_append_left _ hq⟩
        · right
          exact ⟨by rw [← i1]; exact r0, k, by rw [r2, e1], by rw [r1, i1]; exact fun q hq => hq⟩
  split
  · rename_i s2 heq
    obtain ⟨m1, m2, m3, m4, m5⟩ := mid s2 (by rw [heq])
    refine ⟨m1, m2, m3, m4, ?_⟩
    rcases m5 with ⟨a, b⟩ | ⟨a, k, b, c⟩
    · exact Or.inl ⟨a, fun q hq _ => b q hq⟩
    · exact Or.inr ⟨a, k, b, fun q hq _ => c q hq⟩
  · rename_i s2 heq
    obtain ⟨m1, m2, m3, m4, m5⟩ := mid s2 (by rw [heq])
    refine ⟨m1, m2, m3, ?_, ?_⟩
    · intro r hr
      exact m4 r (prune_stakes_sub _ _ _ _ hr)
    · rcases m5 with ⟨a, b⟩ | ⟨a, k, b, c⟩
      · exact Or.inl ⟨a, fun q hq hle => prune_inis_keeps _ _ _ _ (b q hq) hle⟩
      · exact Or.inr ⟨a, k, b, fun q hq hle => prune_inis_keeps _ _ _ _ (c q hq) hle⟩

/-- what one tick does to the environment and to the tables the offsets depend on -/
structure TickFrame (s s' : State) : Prop where
  epoch : s'.env.epoch = s.env.epoch
  stakeVer : s'.env.stakeVer = s.env.stakeVer
  aggEpoch : s'.env.aggEpoch = s.env.aggEpoch
  stakes : ∀ r ∈ s'.st.stakes, r ∈ s.st.stakes ∨ r = (s.env.epoch + 1, s.env.stakeVer)
  /-- the only registration a tick can send is recorded under the aggregator's epoch + 1, when no initializer is
  stored for that epoch and the chain epoch is not ahead of the aggregator's; initializers of the current and later
  epochs survive the pruning -/
  reg : (s'.env.aggReg = s.env.aggReg ∧ ∀ q ∈ s.st.inis, s.env.aggEpoch < q.1 → q ∈ s'.st.inis) ∨
        (lookup s.st.inis (recording s.env.aggEpoch) = none ∧
          ∃ k, s'.env.aggReg = s.env.aggReg ++ [(recording s.env.aggEpoch, ⟨0, k⟩)] ∧
            ∀ q ∈ s.st.inis ++ [(recording s.env.aggEpoch, k)], s.env.aggEpoch < q.1 → q ∈ s'.st.inis)

theorem TickFrame.same {s s' : State} (h1 : s'.env.epoch = s.env.epoch) (h2 : s'.env.stakeVer = s.env.stakeVer)
    (h3 : s'.env.aggEpoch = s.env.aggEpoch) (h4 : s'.st.stakes = s.st.stakes) (h5 : s'.env.aggReg = s.env.aggReg)
    (h6 : s'.st.inis = s.st.inis) : TickFrame s s' :=
  ⟨h1, h2, h3, fun r hr => Or.inl (by rw [h4] at hr; exact hr), Or.inl ⟨h5, fun q hq _ => by rw [h6]; exact hq⟩⟩

theorem tickUnreg_frame (s : State) (e : Nat) : TickFrame s (tickUnreg s e) := by
  unfold tickUnreg
  dsimp only
  repeat' split
  all_goals first
    | exact TickFrame.same rfl rfl rfl rfl rfl rfl
    | skip
  rename_i h1 _ _ _ _ _ h2
  have f := registerStep_frame s
    { epoch := s.env.aggEpoch, ini := lookup s.st.inis (retrieval s.env.aggEpoch),
      cur := regsFor s.env.aggReg (retrieval s.env.aggEpoch), next := regsFor s.env.aggReg (nextRetrieval s.env.aggEpoch),
      allowed := normAllowed ‹_› }
  have hta : s.env.epoch ≤ s.env.aggEpoch := by omega
  refine ⟨f.epoch, f.stakeVer, f.aggEpoch, f.stakes, ?_⟩
  rcases f.reg with ⟨a, b⟩ | ⟨a, k, b, c⟩
  · exact Or.inl ⟨a, fun q hq hlt => b q hq (by omega)⟩
  · exact Or.inr ⟨a, k, b, fun q hq hlt => c q hq (by omega)⟩

theorem mark_tf (s : State) (x : Entity) :
    (mark s x).env.epoch = s.env.epoch ∧ (mark s x).env.stakeVer = s.env.stakeVer ∧ (mark s x).env.aggEpoch = s.env.aggEpoch ∧
    (mark s x).st.stakes = s.st.stakes ∧ (mark s x).env.aggReg = s.env.aggReg ∧ (mark s x).st.inis = s.st.inis := by
  unfold mark; split <;> exact ⟨rfl, rfl, rfl, rfl, rfl, rfl⟩

theorem signEntity_tf (s : State) (d : EpochData) (x : Entity) (lost : Bool) : TickFrame s (signEntity s d x lost) := by
  unfold signEntity
  repeat' split
  all_goals first
    | exact TickFrame.same rfl rfl rfl rfl rfl rfl
    | (obtain ⟨m1, m2, m3, m4, m5, m6⟩ := mark_tf s x; exact TickFrame.same m1 m2 m3 m4 m5 m6)
    | skip
  unfold publishMark
  split
  · exact TickFrame.same rfl rfl rfl rfl rfl rfl
  split
  · rename_i k sv _ _ _ _ _ _
    generalize hs1 : ({ s with env := _, pubs := s.pubs ++ [⟨x, k, d.epoch, s.env.epoch, sv⟩] } : State) = s1
    obtain ⟨m1, m2, m3, m4, m5, m6⟩ := mark_tf s1 x
    subst hs1
    exact TickFrame.same m1 m2 m3 m4 m5 m6
  · exact TickFrame.same rfl rfl rfl rfl rfl rfl

theorem tick_frame (s : State) (lost : Bool) : TickFrame s (tick s lost) := by
  unfold tick
  split
  · exact TickFrame.same rfl rfl rfl rfl rfl rfl
  · exact tickUnreg_frame s _
  · unfold tickNotAble
    dsimp only
    split <;> exact TickFrame.same rfl rfl rfl rfl rfl rfl
  · unfold tickReady
    repeat' split
    all_goals first
      | exact TickFrame.same rfl rfl rfl rfl rfl rfl
      | exact signEntity_tf s _ _ lost

/-! ## Part C — the stake distribution in force -/

theorem markG_vers (g : G) (x : Entity) : (markG g x).vers = g.vers := by
  unfold markG; split <;> rfl

theorem publishG_vers (g : G) (d : EpochData) (x : Entity) (k sv nsv : Nat) : (publishG g d x k sv nsv).1.vers = g.vers := by
  unfold publishG
  split
  · rfl
  split <;> rfl

theorem signEntityG_vers (mf : Bool) (g : G) (d : EpochData) (x : Entity) (lost : Bool) :
    (signEntityG mf g d x lost).vers = g.vers := by
  unfold signEntityG
  dsimp only
  repeat' split
  all_goals first
    | rfl
    | (rw [markG_vers]; done)
    | skip
  · unfold markPublishG
    split
    · rw [markG_vers]
    · rw [publishG_vers, markG_vers]
  · rename_i k sv nsv _ _ _ _ _ _
    unfold publishMarkG
    have := publishG_vers g d x k sv nsv
    split
    · rename_i g1 heq
      rw [heq] at this
      rw [markG_vers]; exact this
    · rename_i g1 heq
      rw [heq] at this
      exact this

theorem tickG_vers (mf : Bool) (g : G) (lost : Bool) : (tickG mf g lost).vers = g.vers := by
  unfold tickG
  split
  · unfold tickReadyG
    dsimp only
    repeat' split
    all_goals first
      | rfl
      | exact signEntityG_vers mf g _ _ lost
  · rfl

/-- the history of the chain's stake distributions seen by the signer's node: one entry per epoch -/
def chainVers (env : Env) (evs : List Event) : List (Nat × Nat) := (runG false (initG env) evs).vers

structure InvVers (g : G) : Prop where
  /-- the last entry is what the chain reports now -/
  last : g.vers.getLast? = some (g.s.env.epoch, g.s.env.stakeVer)
  le : ∀ v ∈ g.vers, v.1 ≤ g.s.env.epoch
  /-- one entry per epoch, in increasing order -/
  sorted : g.vers.Pairwise (fun a b => a.1 < b.1)
  /-- the stake table holds, under epoch `e`, the distribution the chain reported in epoch `e − 1` (RECORDING) -/
  stakes : ∀ r ∈ g.s.st.stakes, 1 ≤ r.1 ∧ (r.1 - 1, r.2) ∈ g.vers
  /-- a signature of epoch `E` was made with the distribution the chain reported in `E − 2`, and the next aggregate
  key in its message with the one reported in `E − 1` -/
  pubs : ∀ p w, Obs.published p w ∈ g.log → 2 ≤ p.aggEpoch ∧ (p.aggEpoch - 2, p.stakeVer) ∈ g.vers ∧
    (p.aggEpoch - 1, w.nextStake) ∈ g.vers

theorem InvVers.same {g g' : G} (h : InvVers g) (h1 : g'.vers = g.vers) (h2 : g'.s.env.epoch = g.s.env.epoch)
    (h3 : g'.s.env.stakeVer = g.s.env.stakeVer) (h4 : g'.s.st.stakes = g.s.st.stakes) (h5 : g'.log = g.log) : InvVers g' :=
  ⟨by rw [h1, h2, h3]; exact h.last, by rw [h1, h2]; exact h.le, by rw [h1]; exact h.sorted,
   by rw [h1, h4]; exact h.stakes, by rw [h1, h5]; exact h.pubs⟩

theorem stepG_vers_inv (g : G) (ev : Event) (h : InvVers g) : InvVers (stepG false g ev) := by
  have hst := stepG_state g ev
  cases ev with
  | tick lost =>
    have hv : (stepG false g (.tick lost)).vers = g.vers := tickG_vers false g lost
    have f : TickFrame g.s (stepG false g (.tick lost)).s := by rw [hst]; exact tick_frame g.s lost
    have hlast : (g.s.env.epoch, g.s.env.stakeVer) ∈ g.vers := List.mem_of_getLast? h.last
    have hstakes : ∀ r ∈ (stepG false g (.tick lost)).s.st.stakes, 1 ≤ r.1 ∧ (r.1 - 1, r.2) ∈ g.vers := by
      intro r hr
      rcases f.stakes r hr with hr | hr
      · exact h.stakes r hr
      · subst hr; exact ⟨by simp, by simpa using hlast⟩
    refine ⟨by rw [hv, f.epoch, f.stakeVer]; exact h.last, by rw [hv, f.epoch]; exact h.le, by rw [hv]; exact h.sorted,
      by rw [hv]; exact hstakes, ?_⟩
    intro p cur hp
    rw [hv]
    rcases stepG_log false g _ _ hp with hp | ⟨e, lost', d, x, _, _, _, _, _, _, hn⟩
    · exact h.pubs p cur hp
    · rcases hn with ⟨hn, _⟩ | hn | ⟨k, sv, nsv, _, hsv, hnsv, _, hn⟩
      · cases hn
      · cases hn
      · cases hn
        have := h.stakes _ (lookup_mem _ _ _ hsv)
        have hnx := h.stakes _ (lookup_mem _ _ _ hnsv)
        simp only [retrieval] at this
        simp only [nextRetrieval] at hnx
        refine ⟨by show 2 ≤ d.epoch; omega, ?_, hnx.2⟩
        show (d.epoch - 2, sv) ∈ g.vers
        have e2 : d.epoch - 1 - 1 = d.epoch - 2 := by omega
        rw [← e2]; exact this.2
  | epochUp v =>
    refine ⟨?_, ?_, ?_, ?_, ?_⟩
    · show (g.vers ++ [(g.s.env.epoch + 1, v)]).getLast? = some (g.s.env.epoch + 1, v)
      simp
    · intro w hw
      show w.1 ≤ g.s.env.epoch + 1
      rcases List.mem_append.mp hw with hw | hw
      · have := h.le w hw; omega
      · simp only [List.mem_singleton] at hw; subst hw; exact Nat.le_refl _
    · show (g.vers ++ [(g.s.env.epoch + 1, v)]).Pairwise _
      refine List.pairwise_append.mpr ⟨h.sorted, by simp, ?_⟩
      intro a ha b hb
      simp only [List.mem_singleton] at hb; subst hb
      have := h.le a ha
      show a.1 < g.s.env.epoch + 1
      omega
    · intro r hr
      obtain ⟨a, b⟩ := h.stakes r hr
      exact ⟨a, List.mem_append_left _ b⟩
    · intro p w hp
      obtain ⟨a, b, c⟩ := h.pubs p w hp
      exact ⟨a, List.mem_append_left _ b, List.mem_append_left _ c⟩
  | restart => exact h.same rfl rfl rfl rfl rfl
  | aggEpochUp => exact h.same rfl rfl rfl rfl rfl
  | immUp n => exact h.same rfl rfl rfl rfl rfl
  | regOthers rs => exact h.same rfl rfl rfl rfl rfl
  | setDown b => exact h.same rfl rfl rfl rfl rfl
  | setRoundClosed b => exact h.same rfl rfl rfl rfl rfl
  | setRegFail b => exact h.same rfl rfl rfl rfl rfl
  | setRegDrop b => exact h.same rfl rfl rfl rfl rfl
  | setPubFail n => exact h.same rfl rfl rfl rfl rfl
  | setMarkFail n => exact h.same rfl rfl rfl rfl rfl

theorem runG_vers_inv (evs : List Event) (g : G) (h : InvVers g) : InvVers (runG false g evs) := by
  induction evs generalizing g with
  | nil => exact h
  | cons ev rest ih => exact ih (stepG false g ev) (stepG_vers_inv g ev h)

theorem initG_vers_inv (env : Env) : InvVers (initG env) :=
  ⟨rfl, by simp [initG, initState], by simp [initG], by simp [initG, initState], by simp [initG]⟩

/-- `chainVers` only grows: what was recorded for a prefix of the history stays -/
theorem runG_vers_prefix (mf : Bool) (evs : List Event) (g : G) : ∃ r, (runG mf g evs).vers = g.vers ++ r := by
  induction evs generalizing g with
  | nil => exact ⟨[], by simp [runG]⟩
  | cons ev rest ih =>
    obtain ⟨r, hr⟩ := ih (stepG mf g ev)
    have : ∃ r0, (stepG mf g ev).vers = g.vers ++ r0 := by
      cases ev with
      | tick lost => exact ⟨[], by rw [List.append_nil]; exact tickG_vers mf g lost⟩
      | epochUp v => exact ⟨[(g.s.env.epoch + 1, v)], rfl⟩
      | _ => exact ⟨[], by rw [List.append_nil]; rfl⟩
    obtain ⟨r0, hr0⟩ := this
    exact ⟨r0 ++ r, by show (runG mf (stepG mf g ev) rest).vers = _; rw [hr, hr0, List.append_assoc]⟩

/-- `chainVers` is what the chain reported: at every point of the history, the pair (epoch, distribution) the
signer's node sees is an entry of it -/
theorem chainVers_sound (env : Env) (pre post : List Event) :
    ((run (initState env) pre).env.epoch, (run (initState env) pre).env.stakeVer) ∈ chainVers env (pre ++ post) := by
  have inv := runG_vers_inv pre (initG env) (initG_vers_inv env)
  have hs : (runG false (initG env) pre).s = run (initState env) pre := runG_state pre (initG env)
  have hm := List.mem_of_getLast? inv.last
  rw [hs] at hm
  obtain ⟨r, hr⟩ := runG_vers_prefix false post (runG false (initG env) pre)
  unfold chainVers
  have : runG false (initG env) (pre ++ post) = runG false (runG false (initG env) pre) post := by
    unfold runG; rw [List.foldl_append]
  rw [this, hr]
  exact List.mem_append_left _ hm

/-- one distribution per epoch -/
theorem chainVers_functional (env : Env) (evs : List Event) (e v v' : Nat)
    (h : (e, v) ∈ chainVers env evs) (h' : (e, v') ∈ chainVers env evs) : v = v' := by
  have inv := runG_vers_inv evs (initG env) (initG_vers_inv env)
  have hs := inv.sorted
  unfold chainVers at h h'
  generalize (runG false (initG env) evs).vers = l at h h' hs
  induction l with
  | nil => cases h
  | cons a r ih =>
    rw [List.pairwise_cons] at hs
    rcases List.mem_cons.mp h with h | h <;> rcases List.mem_cons.mp h' with h' | h'
    · rw [← h] at h'; cases h'; rfl
    · have := hs.1 _ h'; rw [← h] at this; simp at this
    · have := hs.1 _ h; rw [← h'] at this; simp at this
    · exact ih h h' hs.2

/-- **stake distribution in force** (goal C), for every history: the signer's stake table holds under epoch `e`
the distribution the chain reported in epoch `e − 1`, and every signature the aggregator received — made in
chain epoch `E` with `stakes[E − 1]` — was made with the distribution the chain reported in epoch `E − 2`
(`E ≥ 2`), i.e. the one in force for the registrations of `E − 2` that sign in `E`. -/
theorem stake_in_force (env : Env) (evs : List Event) (h0 : env.aggReg = []) :
    (∀ r ∈ (run (initState env) evs).st.stakes, 1 ≤ r.1 ∧ (r.1 - 1, r.2) ∈ chainVers env evs) ∧
    ∀ p ∈ (run (initState env) evs).pubs,
      2 ≤ p.chainEpoch ∧ (p.chainEpoch - 2, p.stakeVer) ∈ chainVers env evs := by
  have inv := runG_vers_inv evs (initG env) (initG_vers_inv env)
  have il := runG_inv evs (initG env) (initG_inv env)
  have hs : (runG false (initG env) evs).s = run (initState env) evs := runG_state evs (initG env)
  obtain ⟨_, a⟩ := run_reg_agg evs (initState env) (initState_reg env) (initState_agg env h0)
  refine ⟨by rw [← hs]; exact inv.stakes, ?_⟩
  intro p hp
  have hp' := hp
  rw [← hs, ← il.pubs, List.mem_filterMap] at hp'
  obtain ⟨o, ho, hpo⟩ := hp'
  cases o with
  | published p' cur =>
    simp only [pubOf, Option.some.injEq] at hpo
    subst hpo
    obtain ⟨a1, _, _⟩ := a.pubsAgg p' hp
    rw [← a1]
    exact ⟨(inv.pubs p' cur ho).1, (inv.pubs p' cur ho).2.1⟩
  | noLottery t x => cases hpo
  | marked t x => cases hpo

/-! ## Part B — composition with the aggregator model -/

/-! ### the signer lists of past and current epochs are closed -/

/-- registrations are recorded under the aggregator's epoch + 1 (RECORDING); the list retrieved for an epoch
`e ≤` the aggregator's epoch (recorded under `e − 1`, RETRIEVAL) never changes again -/
theorem step_closed (s : State) (ev : Event) :
    s.env.aggEpoch ≤ (step s ev).env.aggEpoch ∧
    ∀ key, key ≤ s.env.aggEpoch → regsFor (step s ev).env.aggReg key = regsFor s.env.aggReg key := by
  cases ev with
  | tick lost =>
    have f := tick_frame s lost
    refine ⟨by show s.env.aggEpoch ≤ (tick s lost).env.aggEpoch; rw [f.aggEpoch]; exact Nat.le_refl _, ?_⟩
    intro e he
    show regsFor (tick s lost).env.aggReg e = _
    rcases f.reg with ⟨h, _⟩ | ⟨_, k, h, _⟩
    · rw [h]
    · rw [h]
      apply regsFor_append_other
      unfold recording; omega
  | aggEpochUp => exact ⟨Nat.le_succ _, fun _ _ => rfl⟩
  | regOthers rs =>
    refine ⟨Nat.le_refl _, ?_⟩
    intro e he
    apply regsFor_map_other
    unfold recording; omega
  | restart => exact ⟨Nat.le_refl _, fun _ _ => rfl⟩
  | epochUp v => exact ⟨Nat.le_refl _, fun _ _ => rfl⟩
  | immUp n => exact ⟨Nat.le_refl _, fun _ _ => rfl⟩
  | setDown b => exact ⟨Nat.le_refl _, fun _ _ => rfl⟩
  | setRoundClosed b => exact ⟨Nat.le_refl _, fun _ _ => rfl⟩
  | setRegFail b => exact ⟨Nat.le_refl _, fun _ _ => rfl⟩
  | setRegDrop b => exact ⟨Nat.le_refl _, fun _ _ => rfl⟩
  | setPubFail n => exact ⟨Nat.le_refl _, fun _ _ => rfl⟩
  | setMarkFail n => exact ⟨Nat.le_refl _, fun _ _ => rfl⟩

theorem registerStep_data (s : State) (d : EpochData) : (registerStep s d).data = some d := by
  unfold registerStep
  dsimp only
  generalize hs1 : ({ s with st := { s.st with stakes := updStakes s }, data := some d } : State) = s1
  have d1 : s1.data = some d := by subst hs1; rfl
  have f := registerSigner_reg s1 d
  split
  · rename_i s2 heq
    have : (registerSigner s1 d).1 = s2 := by rw [heq]
    rw [this] at f
    rw [f.data, d1]
  · rename_i s2 heq
    have : (registerSigner s1 d).1 = s2 := by rw [heq]
    rw [this] at f
    show s2.data = some d
    rw [f.data, d1]

/-- a tick keeps the epoch data, or replaces them by data fetched from the aggregator now -/
theorem tick_data (s : State) (lost : Bool) :
    (tick s lost).data = s.data ∨
    ∃ d, (tick s lost).data = some d ∧ d.epoch = s.env.aggEpoch ∧
      d.next = regsFor s.env.aggReg (nextRetrieval s.env.aggEpoch) := by
  unfold tick
  split
  · exact Or.inl rfl
  · unfold tickUnreg
    dsimp only
    repeat' split
    all_goals first
      | exact Or.inl rfl
      | exact Or.inr ⟨_, registerStep_data _ _, rfl, rfl⟩
  · unfold tickNotAble
    dsimp only
    split <;> exact Or.inl rfl
  · unfold tickReady
    repeat' split
    all_goals first
      | exact Or.inl rfl
      | exact Or.inl (signEntity_frame s _ _ lost).data

/-- the next-signer list of the epoch data is the aggregator's list recorded under the data's epoch
(NEXT_SIGNER_RETRIEVAL offset 0) — closed, as the aggregator records under its epoch + 1 -/
def InvNext (s : State) : Prop :=
  ∀ d, s.data = some d → d.next = regsFor s.env.aggReg (nextRetrieval d.epoch)

theorem step_next (s : State) (ev : Event) (a : InvAgg s) (h : InvNext s) : InvNext (step s ev) := by
  obtain ⟨c1, c2⟩ := step_closed s ev
  have keep : (step s ev).data = s.data → InvNext (step s ev) := by
    intro hd d hdd
    rw [hd] at hdd
    rw [c2 (nextRetrieval d.epoch) (a.dataCur d hdd).2]
    exact h d hdd
  cases ev with
  | tick lost =>
    rcases tick_data s lost with hd | ⟨d, hd, he, hn⟩
    · exact keep hd
    · intro d' hd'
      have hd2 : (tick s lost).data = some d' := hd'
      rw [hd] at hd2; cases hd2
      show d.next = regsFor (step s (.tick lost)).env.aggReg (nextRetrieval d.epoch)
      rw [c2 (nextRetrieval d.epoch) (by rw [he]; exact Nat.le_refl _), hn, he]
  | restart => intro d hd; cases hd
  | aggEpochUp => exact keep rfl
  | regOthers rs => exact keep rfl
  | epochUp v => exact keep rfl
  | immUp n => exact keep rfl
  | setDown b => exact keep rfl
  | setRoundClosed b => exact keep rfl
  | setRegFail b => exact keep rfl
  | setRegDrop b => exact keep rfl
  | setPubFail n => exact keep rfl
  | setMarkFail n => exact keep rfl

/-- what is known of every signature the aggregator received -/
structure PubFacts (s : State) (p : Pub) (w : Wit) : Prop where
  /-- the signer list the single signer was built from is the aggregator's list for the signing epoch -/
  list : w.cur = regsFor s.env.aggReg (retrieval p.aggEpoch)
  /-- the signer list behind the next aggregate key in the message is the aggregator's list for the next epoch -/
  nextList : w.next = regsFor s.env.aggReg (nextRetrieval p.aggEpoch)
  le : p.aggEpoch ≤ s.env.aggEpoch
  /-- the signer's key is in the current list -/
  key : (⟨0, p.key⟩ : Reg) ∈ w.cur
  /-- the entity is one that is signed in the chain epoch of the signature -/
  signEpoch : p.entity.signEpoch = p.chainEpoch
  epochs : p.aggEpoch = p.chainEpoch

def InvPub (g : G) : Prop := ∀ p w, Obs.published p w ∈ g.log → PubFacts g.s p w

theorem PubFacts.step {s : State} {p : Pub} {w : Wit} (h : PubFacts s p w) (ev : Event) :
    PubFacts (step s ev) p w := by
  obtain ⟨c1, c2⟩ := step_closed s ev
  exact ⟨by rw [c2 _ (by unfold retrieval; have := h.le; omega)]; exact h.list,
    by rw [c2 (nextRetrieval p.aggEpoch) h.le]; exact h.nextList, Nat.le_trans h.le c1, h.key, h.signEpoch, h.epochs⟩

theorem stepG_pub_inv (g : G) (ev : Event) (r : InvReg g.s) (a : InvAgg g.s) (n : InvNext g.s) (h : InvPub g) :
    InvPub (stepG false g ev) := by
  intro p cur hp
  rw [stepG_state]
  rcases stepG_log false g ev _ hp with hp | ⟨e, lost, d, x, _, hm, hlt, hd, h0, hx, hn⟩
  · exact (h p cur hp).step ev
  · rcases hn with ⟨hn, _⟩ | hn | ⟨k, sv, nsv, hk, hsv, _, _, hn⟩
    · cases hn
    · cases hn
    · cases hn
      apply PubFacts.step
      obtain ⟨hc1, hc2⟩ := a.dataCur d hd
      obtain ⟨hle, hde⟩ := a.ready e hm
      have hde' := hde d hd
      obtain ⟨d', hd', hcan⟩ := r.ready e hm
      rw [hd] at hd'; cases hd'
      unfold canSign at hcan
      rw [hk] at hcan
      obtain ⟨hse, _⟩ := beaconToSign_spec g.s d x hx h0
      exact ⟨hc1, n d hd, hc2, by simpa using hcan, hse, by show d.epoch = g.s.env.epoch; omega⟩

theorem runG_pub_inv (evs : List Event) (g : G) (r : InvReg g.s) (a : InvAgg g.s) (n : InvNext g.s) (h : InvPub g) :
    InvPub (runG false g evs) := by
  induction evs generalizing g with
  | nil => exact h
  | cons ev rest ih =>
    have hs := stepG_state g ev
    exact ih (stepG false g ev) (by rw [hs]; exact step_reg g.s ev r) (by rw [hs]; exact step_agg g.s ev r a)
      (by rw [hs]; exact step_next g.s ev a n) (stepG_pub_inv g ev r a n h)

/-! ### the signer registers at most once per round -/

/-- events in which the parties that register are not the signer under test (party 0) -/
def OthersOnly : Event → Prop
  | .regOthers rs => ∀ r ∈ rs, r.party ≠ 0
  | _ => True

instance (ev : Event) : Decidable (OthersOnly ev) := by
  cases ev <;> unfold OthersOnly <;> infer_instance

structure InvKey (s : State) : Prop where
  /-- if the signer's registration for the open round reached the aggregator, its initializer is still stored -/
  cur0 : ∀ k, (recording s.env.aggEpoch, (⟨0, k⟩ : Reg)) ∈ s.env.aggReg → (recording s.env.aggEpoch, k) ∈ s.st.inis
  /-- one key per round for the signer -/
  uniq : ∀ r k k', (r, (⟨0, k⟩ : Reg)) ∈ s.env.aggReg → (r, (⟨0, k'⟩ : Reg)) ∈ s.env.aggReg → k = k'

theorem lookup_none_not_mem (l : List (Nat × Nat)) (e k : Nat) (h : lookup l e = none) : (e, k) ∉ l := by
  intro hm
  unfold lookup at h
  cases hf : l.find? (fun p => p.1 == e) with
  | none =>
    have := List.find?_eq_none.mp hf (e, k) hm
    simp at this
  | some p => rw [hf] at h; cases h

theorem step_key (s : State) (ev : Event) (a : InvAgg s) (h : InvKey s) (hev : OthersOnly ev) : InvKey (step s ev) := by
  cases ev with
  | tick lost =>
    have f := tick_frame s lost
    show InvKey (tick s lost)
    rcases f.reg with ⟨h1, h2⟩ | ⟨hnone, k0, h1, h2⟩
    · refine ⟨?_, by rw [h1]; exact h.uniq⟩
      intro k hk
      rw [f.aggEpoch, h1] at hk
      rw [f.aggEpoch]
      exact h2 _ (h.cur0 k hk) (by unfold recording; omega)
    · have hno : ∀ k, (recording s.env.aggEpoch, (⟨0, k⟩ : Reg)) ∉ s.env.aggReg :=
        fun k hk => lookup_none_not_mem _ _ _ hnone (h.cur0 k hk)
      refine ⟨?_, ?_⟩
      · intro k hk
        rw [f.aggEpoch, h1] at hk
        rw [f.aggEpoch]
        rcases List.mem_append.mp hk with hk | hk
        · exact absurd hk (hno k)
        · simp only [List.mem_singleton, Prod.mk.injEq, Reg.mk.injEq, true_and] at hk
          exact h2 _ (by rw [hk]; simp) (by unfold recording; omega)
      · intro r k k' hk hk'
        rw [h1] at hk hk'
        rcases List.mem_append.mp hk with hk | hk <;> rcases List.mem_append.mp hk' with hk' | hk'
        · exact h.uniq r k k' hk hk'
        · simp only [List.mem_singleton, Prod.mk.injEq, Reg.mk.injEq, true_and] at hk'
          rw [hk'.1] at hk; exact absurd hk (hno k)
        · simp only [List.mem_singleton, Prod.mk.injEq, Reg.mk.injEq, true_and] at hk
          rw [hk.1] at hk'; exact absurd hk' (hno k')
        · simp only [List.mem_singleton, Prod.mk.injEq, Reg.mk.injEq, true_and] at hk hk'
          rw [hk.2, hk'.2]
  | aggEpochUp =>
    refine ⟨?_, h.uniq⟩
    intro k hk
    have := a.aggRec _ hk
    simp only [recording] at this
    have e : (step s .aggEpochUp).env.aggEpoch = s.env.aggEpoch + 1 := rfl
    rw [e] at this
    omega
  | regOthers rs =>
    have hne : ∀ r k, (r, (⟨0, k⟩ : Reg)) ∉ rs.map (fun x => (recording s.env.aggEpoch, x)) := by
      intro r k hm
      obtain ⟨x, hx, he⟩ := List.mem_map.mp hm
      simp only [Prod.mk.injEq] at he
      have := hev x hx
      rw [he.2] at this
      exact this rfl
    refine ⟨?_, ?_⟩
    · intro k hk
      rcases List.mem_append.mp hk with hk | hk
      · exact h.cur0 k hk
      · exact absurd hk (hne _ _)
    · intro r k k' hk hk'
      rcases List.mem_append.mp hk with hk | hk
      · rcases List.mem_append.mp hk' with hk' | hk'
        · exact h.uniq r k k' hk hk'
        · exact absurd hk' (hne _ _)
      · exact absurd hk (hne _ _)
  | restart => exact ⟨h.cur0, h.uniq⟩
  | epochUp v => exact ⟨h.cur0, h.uniq⟩
  | immUp n => exact ⟨h.cur0, h.uniq⟩
  | setDown b => exact ⟨h.cur0, h.uniq⟩
  | setRoundClosed b => exact ⟨h.cur0, h.uniq⟩
  | setRegFail b => exact ⟨h.cur0, h.uniq⟩
  | setRegDrop b => exact ⟨h.cur0, h.uniq⟩
  | setPubFail n => exact ⟨h.cur0, h.uniq⟩
  | setMarkFail n => exact ⟨h.cur0, h.uniq⟩

theorem run_key (evs : List Event) (s : State) (r : InvReg s) (a : InvAgg s) (h : InvKey s)
    (hev : ∀ ev ∈ evs, OthersOnly ev) : InvKey (run s evs) := by
  induction evs generalizing s with
  | nil => exact h
  | cons ev rest ih =>
    exact ih (step s ev) (step_reg s ev r) (step_agg s ev r a) (step_key s ev a h (hev ev (by simp)))
      (fun e he => hev e (List.mem_cons_of_mem _ he))

theorem initState_key (env : Env) (h : env.aggReg = []) : InvKey (initState env) :=
  ⟨by simp [initState, h], by simp [initState, h]⟩

/-- **one key per round**: whatever the history (refused, failing or dropped registrations, restarts, pruning of the
initializer table, either node ahead of the other), the aggregator never receives two different keys from the signer
for the same recording epoch — so the first-wins key the aggregator holds for it is the key the signer stored -/
theorem one_key_per_round (env : Env) (evs : List Event) (h0 : env.aggReg = []) (hev : ∀ ev ∈ evs, OthersOnly ev)
    (r k k' : Nat) (h : (r, (⟨0, k⟩ : Reg)) ∈ (run (initState env) evs).env.aggReg)
    (h' : (r, (⟨0, k'⟩ : Reg)) ∈ (run (initState env) evs).env.aggReg) : k = k' :=
  (run_key evs (initState env) (initState_reg env) (initState_agg env h0) (initState_key env h0) hev).uniq r k k' h h'

/-! ### the primitive verdicts of `Agg.Sig`, computed from keys -/

/-- what the aggregator knows beyond `Agg.St` (which keeps party ids only): the verification keys in its
`signer_registration` rows and the versions of its `stake_pool` rows. In the composition `reg` is the signer
model's `Env.aggReg` — the registrations as the aggregator received them. -/
structure KeyView where
  reg : List (Nat × Reg)        -- (epoch key = recording epoch, ⟨party, key⟩), arrival order
  stake : List (Nat × Nat)      -- epoch key ↦ version of the stake distribution

/-- the key the aggregator holds for `party` in the round recorded under `epochKey`: the FIRST registration
(`Agg.register` answers `existing` to a second one and stores nothing) -/
def keyOf (reg : List (Nat × Reg)) (epochKey party : Nat) : Option Nat :=
  ((regsFor reg epochKey).find? (fun r => r.party == party)).map (·.key)

/-- STM verification, abstracted to what it depends on: a signature made with key `k` by a single signer built
from the registrations `R` and the stake distribution `sv` verifies under the aggregator's signer set of epoch
`ep` — the registrations recorded under `ep − 1` (`offset_to_signer_retrieval_epoch`) with the stakes stored under
`ep − 1` — iff the two aggregate keys are built from the same data and `k` is registered in it -/
def verifiesAt (V : KeyView) (R : List Reg) (sv k ep : Nat) : Bool :=
  regsFor V.reg (ep - 1) == R && lookup V.stake (ep - 1) == some sv && R.contains ⟨0, k⟩

/-- `Sig.ok`: ALL the epochs whose signer set verifies the signature (an epoch whose set is empty verifies nothing,
so the epochs that follow a recording epoch are the only candidates) -/
def okEpochs (V : KeyView) (R : List Reg) (sv k : Nat) : List Nat :=
  ((0 :: V.reg.map (fun r => r.1 + 1)).eraseDups).filter (verifiesAt V R sv k)

/-- `Sig.signer`: whose registered key sits at the slot the signature points to. The slot is the one of key `k` in
`R`; it belongs to the label (party 0) iff `k` is the key the aggregator holds for party 0
(`registered_signers.any(|s| s.party_id == label && s.vk == key at slot)` in `verify_single_signature`), else to
another party that registered `k`, if any -/
def slotOwner (R : List Reg) (k : Nat) : Nat :=
  if (R.find? (fun r => r.party == 0)).map (·.key) = some k then 0
  else (((R.filter (fun r => r.party != 0)).find? (fun r => r.key == k)).map (·.party)).getD 1

/-- the signature the signer (party 0) published as `p`, built from the signer list `R`, as the aggregator model
sees it: label 0, and the primitive verdicts computed from the keys -/
def sigOf (V : KeyView) (R : List Reg) (p : Pub) (m sigma : Nat) (idx : List Nat) (auth : Bool) : Agg.Sig :=
  { party := 0, signer := slotOwner R p.key, sigma := sigma, msg := m, ok := okEpochs V R p.stakeVer p.key,
    idx := idx, auth := auth }

theorem mem_okEpochs (V : KeyView) (R : List Reg) (sv k ep : Nat) :
    ep ∈ okEpochs V R sv k ↔ verifiesAt V R sv k ep = true := by
  unfold okEpochs
  rw [List.mem_filter]
  constructor
  · exact fun h => h.2
  · intro h
    refine ⟨?_, h⟩
    rw [List.mem_eraseDups]
    cases ep with
    | zero => simp
    | succ n =>
      apply List.mem_cons_of_mem
      have h' := h
      unfold verifiesAt at h'
      simp only [Bool.and_eq_true, beq_iff_eq, List.contains_iff_mem] at h'
      obtain ⟨⟨h1, _⟩, h3⟩ := h'
      rw [← h1] at h3
      unfold regsFor at h3
      obtain ⟨q, hq, _⟩ := List.mem_map.mp h3
      obtain ⟨hq1, hq2⟩ := List.mem_filter.mp hq
      simp only [Nat.add_sub_cancel, beq_iff_eq] at hq2
      exact List.mem_map.mpr ⟨q, hq1, by rw [hq2]⟩

theorem keyOf_mem (reg : List (Nat × Reg)) (ek party k : Nat) (h : keyOf reg ek party = some k) :
    (⟨party, k⟩ : Reg) ∈ regsFor reg ek := by
  unfold keyOf at h
  cases hf : (regsFor reg ek).find? (fun r => r.party == party) with
  | none => rw [hf] at h; cases h
  | some r =>
    rw [hf] at h
    simp only [Option.map_some, Option.some.injEq] at h
    have h1 := List.find?_some hf
    have h2 := List.mem_of_find?_eq_some hf
    simp only [beq_iff_eq] at h1
    obtain ⟨a, b⟩ := r
    simp only at h h1
    subst h h1
    exact h2

/-- the signer model's party-0 registrations being unique per round, the aggregator's first-wins key is the
signer's key -/
theorem keyOf_of_uniq (reg : List (Nat × Reg)) (ek k : Nat)
    (hu : ∀ r k k', (r, (⟨0, k⟩ : Reg)) ∈ reg → (r, (⟨0, k'⟩ : Reg)) ∈ reg → k = k')
    (hm : (⟨0, k⟩ : Reg) ∈ regsFor reg ek) : keyOf reg ek 0 = some k := by
  have toReg : ∀ x, x ∈ regsFor reg ek → (ek, x) ∈ reg := by
    intro x hx
    unfold regsFor at hx
    obtain ⟨q, hq, he⟩ := List.mem_map.mp hx
    obtain ⟨hq1, hq2⟩ := List.mem_filter.mp hq
    simp only [beq_iff_eq] at hq2
    obtain ⟨q1, q2⟩ := q
    simp only at hq2 he
    subst hq2 he
    exact hq1
  unfold keyOf
  cases hf : (regsFor reg ek).find? (fun r => r.party == 0) with
  | none =>
    have := List.find?_eq_none.mp hf _ hm
    simp at this
  | some r =>
    have h1 := List.find?_some hf
    have h2 := List.mem_of_find?_eq_some hf
    simp only [beq_iff_eq] at h1
    obtain ⟨a, b⟩ := r
    simp only at h1
    subst h1
    simp only [Option.map_some, Option.some.injEq]
    exact hu ek b k (toReg _ h2) (toReg _ hm)

/-- the row `storeSig` writes for `g` -/
def rowOf (A : Agg.St) (e : Nat) (g : Agg.Sig) : Agg.SigRow :=
  { entity := e, party := g.party, sigma := g.sigma, idx := g.idx, signer := g.signer, msg := g.msg, vEpoch := A.es.getD 0 }

/-- insert-or-replace: once `g` is registered, the table holds exactly one row for (open message, party) — the new
one —, whatever it held before (so a re-publication, the known finding, still leaves one row) -/
theorem registered_only_row (E : Agg.Env) (A : Agg.St) (e : Nat) (g : Agg.Sig) (h : Agg.sigClass A e g = .registered) :
    (Agg.registerSig E A e g).sigs.filter (fun r => r.entity = e && r.party = g.party) = [rowOf A e g] := by
  unfold Agg.registerSig
  rw [h]
  show ((A.sigs.filter (fun r => !(r.entity = e && r.party = g.party))) ++ [rowOf A e g]).filter _ = _
  rw [List.filter_append]
  have h1 : (A.sigs.filter (fun r => !(decide (r.entity = e) && decide (r.party = g.party)))).filter
      (fun r => decide (r.entity = e) && decide (r.party = g.party)) = [] := by
    rw [List.filter_eq_nil_iff]
    intro r hr
    have := (List.mem_filter.mp hr).2
    intro hq
    rw [hq] at this
    cases this
  rw [h1]
  simp [rowOf]

/-- **acceptance, the core**: explicit hypotheses on both sides, no reachability. `ep` is the signing epoch. -/
theorem accepted_core (V : KeyView) (R : List Reg) (p : Pub) (m sigma : Nat) (idx : List Nat) (auth : Bool)
    (E : Agg.Env) (A : Agg.St) (e : Nat) (o : Agg.OM) (ep : Nat)
    -- signer side: built from the list the aggregator retrieves for `ep`, with the key the aggregator holds for the
    -- signer in that list, and with the stake distribution the aggregator stores for it
    (hR : regsFor V.reg (retrieval ep) = R) (hk : keyOf V.reg (retrieval ep) 0 = some p.key)
    (hstake : lookup V.stake (retrieval ep) = some p.stakeVer)
    -- aggregator side: the party is in the signer set `Agg` derives for the open message's epoch, the open message is
    -- for this entity, open, of epoch `ep`, holds the message that was signed; the epoch service is in `ep`
    (hparty : 0 ∈ Agg.signersOf A.regs (retrieval ep))
    (hom : Agg.findOm e A.oms = some o) (hoe : o.epoch = ep) (hmsg : o.msg = m)
    (hc : o.certified = false) (hx : o.expired = false) (hes : A.es = some ep) :
    Agg.sigClass A e (sigOf V R p m sigma idx auth) = .registered ∧
    (Agg.registerSig E A e (sigOf V R p m sigma idx auth)).sigs.filter (fun r => r.entity = e && r.party = 0) =
      [{ entity := e, party := 0, sigma := sigma, idx := idx, signer := 0, msg := m, vEpoch := ep }] := by
  have hmem : (⟨0, p.key⟩ : Reg) ∈ R := by rw [← hR]; exact keyOf_mem _ _ _ _ hk
  have hown : slotOwner R p.key = 0 := by
    unfold slotOwner
    have : (R.find? (fun r => r.party == 0)).map (·.key) = some p.key := by
      rw [← hR]; exact hk
    rw [if_pos this]
  have hok : ep ∈ okEpochs V R p.stakeVer p.key := by
    rw [mem_okEpochs]
    unfold verifiesAt
    have e1 : ep - 1 = retrieval ep := rfl
    rw [e1, hR, hstake]
    simp [hmem]
  have hreg : Agg.sigClass A e (sigOf V R p m sigma idx auth) = .registered := by
    rw [Agg.sigClass_registered_iff]
    exact ⟨o, hom, hc, hx, ⟨ep, hes, by simp [sigOf, hmsg], hok, by simp [sigOf, hown]⟩, by rw [hoe]; exact hparty⟩
  refine ⟨hreg, ?_⟩
  have := registered_only_row E A e _ hreg
  refine this.trans ?_
  simp [rowOf, sigOf, hown, hes]

theorem slotOwner_zero (R : List Reg) (k : Nat) (h : slotOwner R k = 0) :
    (R.find? (fun r => r.party == 0)).map (·.key) = some k := by
  unfold slotOwner at h
  by_cases hc : (R.find? (fun r => r.party == 0)).map (·.key) = some k
  · exact hc
  · rw [if_neg hc] at h
    exfalso
    cases hf : (R.filter (fun r => r.party != 0)).find? (fun r => r.key == k) with
    | none => rw [hf] at h; simp at h
    | some r =>
      rw [hf] at h
      simp only [Option.map_some, Option.getD_some] at h
      have := (List.mem_filter.mp (List.mem_of_find?_eq_some hf)).2
      simp [h] at this

/-- **the converse**: the verdicts computed by `sigOf` let `Agg` register the signature ONLY if it was made with the key
the aggregator holds (first registration) for party 0 in the signer list of the epoch service's epoch, from that very
list and with the stake distribution the aggregator stores for it — a key, a list or a distribution of another
epoch (an offset changed on one side) is refused -/
theorem registered_only_if (V : KeyView) (R : List Reg) (p : Pub) (m sigma : Nat) (idx : List Nat) (auth : Bool)
    (A : Agg.St) (e : Nat) (h : Agg.sigClass A e (sigOf V R p m sigma idx auth) = .registered) :
    ∃ ep o, A.es = some ep ∧ Agg.findOm e A.oms = some o ∧ o.msg = m ∧
      regsFor V.reg (retrieval ep) = R ∧ keyOf V.reg (retrieval ep) 0 = some p.key ∧
      lookup V.stake (retrieval ep) = some p.stakeVer ∧ 0 ∈ Agg.signersOf A.regs (o.epoch - 1) := by
  obtain ⟨o, hom, _, _, ⟨ep, hes, hmsg, hok, hps⟩, hparty⟩ := (Agg.sigClass_registered_iff A e _).mp h
  have hok' : verifiesAt V R p.stakeVer p.key ep = true := (mem_okEpochs V R p.stakeVer p.key ep).mp hok
  unfold verifiesAt at hok'
  simp only [Bool.and_eq_true, beq_iff_eq, List.contains_iff_mem] at hok'
  obtain ⟨⟨h1, h2⟩, _⟩ := hok'
  have hown : slotOwner R p.key = 0 := hps.symm
  refine ⟨ep, o, hes, hom, hmsg.symm, h1, ?_, h2, hparty⟩
  unfold keyOf
  show ((regsFor V.reg (ep - 1)).find? _).map _ = _
  rw [h1]
  exact slotOwner_zero R p.key hown

/-- what the invariants give for a signature `p` the aggregator received, in the final state of a history -/
theorem pub_facts (env : Env) (evs : List Event) (h0 : env.aggReg = []) (hev : ∀ ev ∈ evs, OthersOnly ev)
    (p : Pub) (hp : p ∈ (run (initState env) evs).pubs) :
    ∃ w, Obs.published p w ∈ (runG false (initG env) evs).log ∧
      p.aggEpoch = p.chainEpoch ∧ p.entity.signEpoch = p.chainEpoch ∧ 2 ≤ p.chainEpoch ∧
      w.cur = regsFor (run (initState env) evs).env.aggReg (retrieval p.chainEpoch) ∧
      w.next = regsFor (run (initState env) evs).env.aggReg (nextRetrieval p.chainEpoch) ∧
      keyOf (run (initState env) evs).env.aggReg (retrieval p.chainEpoch) 0 = some p.key ∧
      (p.chainEpoch - 2, p.stakeVer) ∈ chainVers env evs ∧ (p.chainEpoch - 1, w.nextStake) ∈ chainVers env evs := by
  have hs : (runG false (initG env) evs).s = run (initState env) evs := runG_state evs (initG env)
  have il := runG_inv evs (initG env) (initG_inv env)
  have iv := runG_vers_inv evs (initG env) (initG_vers_inv env)
  have ip := runG_pub_inv evs (initG env) (initState_reg env) (initState_agg env h0)
    (fun d hd => by simp [initG, initState] at hd) (fun _ _ hm => by simp [initG] at hm)
  have ik := run_key evs (initState env) (initState_reg env) (initState_agg env h0) (initState_key env h0) hev
  have hp' := hp
  rw [← hs, ← il.pubs, List.mem_filterMap] at hp'
  obtain ⟨ob, hob, hpo⟩ := hp'
  obtain ⟨w, hw⟩ : ∃ w, ob = Obs.published p w := by
    cases ob with
    | published p' w => simp only [pubOf, Option.some.injEq] at hpo; subst hpo; exact ⟨w, rfl⟩
    | noLottery t x => cases hpo
    | marked t x => cases hpo
  subst hw
  have pf := ip p w hob
  rw [hs] at pf
  have hE : p.aggEpoch = p.chainEpoch := pf.epochs
  have hlist : w.cur = regsFor (run (initState env) evs).env.aggReg (retrieval p.chainEpoch) := by
    rw [← hE]; exact pf.list
  obtain ⟨h2, hv1, hv2⟩ := iv.pubs p w hob
  rw [hE] at h2 hv1 hv2
  exact ⟨w, hob, hE, pf.signEpoch, h2, hlist, by rw [← hE]; exact pf.nextList,
    keyOf_of_uniq _ _ _ ik.uniq (by rw [← hlist]; exact pf.key), hv1, hv2⟩

/-- **acceptance** (goal B), for every history of the signer model in which the other parties' registrations are not
made under the signer's party id. Let `p` be any signature the aggregator received from the signer, `E` its chain
epoch, `m` the message it signs. The aggregator side: `Agg`'s registration table lists, under the epoch key `E − 1`
(RETRIEVAL of `E`), the parties of the key table `Env.aggReg` (the registrations the aggregator received); its stake
table holds under `E − 1` a distribution the chain reported in `E − 2`; its open message for the entity is open, has
the epoch at which the entity is signed and the message `m`; its epoch service has computed that epoch. Then
* the signer list the signature was built from (`w.cur`) is the aggregator's (closed) list for `E`,
* `Agg.registerSig` classifies the signature as `registered`,
* and afterwards the `single_signature` table holds exactly one row for (open message, party 0): this signature,
  attributed to the signer, verified under epoch `E`. -/
theorem accepted (env : Env) (evs : List Event) (h0 : env.aggReg = []) (hev : ∀ ev ∈ evs, OthersOnly ev)
    (p : Pub) (hp : p ∈ (run (initState env) evs).pubs)
    (stake : List (Nat × Nat)) (m sigma : Nat) (idx : List Nat) (auth : Bool)
    (E : Agg.Env) (A : Agg.St) (enc : Entity → Nat) (o : Agg.OM)
    (hstake : ∃ v, lookup stake (retrieval p.chainEpoch) = some v ∧ (retrieval p.chainEpoch - 1, v) ∈ chainVers env evs)
    (hregs : Agg.signersOf A.regs (retrieval p.chainEpoch) =
      (regsFor (run (initState env) evs).env.aggReg (retrieval p.chainEpoch)).map (·.party))
    (hom : Agg.findOm (enc p.entity) A.oms = some o) (hoe : o.epoch = p.entity.signEpoch) (hmsg : o.msg = m)
    (hc : o.certified = false) (hx : o.expired = false) (hes : A.es = some o.epoch) :
    (∃ w, Obs.published p w ∈ (runG false (initG env) evs).log ∧
      w.cur = regsFor (run (initState env) evs).env.aggReg (retrieval p.chainEpoch)) ∧
    Agg.sigClass A (enc p.entity)
      (sigOf ⟨(run (initState env) evs).env.aggReg, stake⟩
        (regsFor (run (initState env) evs).env.aggReg (retrieval p.chainEpoch)) p m sigma idx auth) = .registered ∧
    (Agg.registerSig E A (enc p.entity)
      (sigOf ⟨(run (initState env) evs).env.aggReg, stake⟩
        (regsFor (run (initState env) evs).env.aggReg (retrieval p.chainEpoch)) p m sigma idx auth)).sigs.filter
        (fun r => r.entity = enc p.entity && r.party = 0) =
      [{ entity := enc p.entity, party := 0, sigma := sigma, idx := idx, signer := 0, msg := m, vEpoch := p.chainEpoch }] := by
  obtain ⟨w, hob, hE, hse, h2, hlist, _, hkey, hver, _⟩ := pub_facts env evs h0 hev p hp
  obtain ⟨v, hv1, hv2⟩ := hstake
  have hveq : v = p.stakeVer := by
    apply chainVers_functional env evs (p.chainEpoch - 2)
    · have : retrieval p.chainEpoch - 1 = p.chainEpoch - 2 := by unfold retrieval; omega
      rw [← this]; exact hv2
    · exact hver
  subst hveq
  have hparty : 0 ∈ Agg.signersOf A.regs (retrieval p.chainEpoch) := by
    rw [hregs, List.mem_map]
    exact ⟨⟨0, p.key⟩, keyOf_mem _ _ _ _ hkey, rfl⟩
  have hoe' : o.epoch = p.chainEpoch := by rw [hoe]; exact hse
  refine ⟨⟨w, hob, hlist⟩, ?_⟩
  exact accepted_core ⟨(run (initState env) evs).env.aggReg, stake⟩ _ p m sigma idx auth E A (enc p.entity) o p.chainEpoch
    rfl hkey hv1 hparty hom hoe' hmsg hc hx (by rw [hes, hoe'])

/-- **acceptance with the message derived**: `M x next v` stands for `compute_message` — the entity's part (assumed to be
computed alike on both sides) and the seed, the next aggregate verification key built from the signer list `next`
with the stake distribution `v`. The signer signed `M p.entity w.next w.nextStake` (`w`: what it read from its
epoch data and its stake table); the aggregator computed its open message's message with ITS next signer list — the
registrations recorded under `E` (NEXT_SIGNER_RETRIEVAL offset 0) — and ITS stake table, which holds under `E` a
distribution the chain reported in `E − 1`. The two messages then agree and the signature is registered. -/
theorem accepted_msg (env : Env) (evs : List Event) (h0 : env.aggReg = []) (hev : ∀ ev ∈ evs, OthersOnly ev)
    (p : Pub) (hp : p ∈ (run (initState env) evs).pubs)
    (stake : List (Nat × Nat)) (M : Entity → List Reg → Nat → Nat) (sigma : Nat) (idx : List Nat) (auth : Bool)
    (E : Agg.Env) (A : Agg.St) (enc : Entity → Nat) (o : Agg.OM)
    (hstake : ∃ v, lookup stake (retrieval p.chainEpoch) = some v ∧ (retrieval p.chainEpoch - 1, v) ∈ chainVers env evs)
    (hregs : Agg.signersOf A.regs (retrieval p.chainEpoch) =
      (regsFor (run (initState env) evs).env.aggReg (retrieval p.chainEpoch)).map (·.party))
    (hom : Agg.findOm (enc p.entity) A.oms = some o) (hoe : o.epoch = p.entity.signEpoch)
    (hmsg : ∃ v', lookup stake (nextRetrieval p.chainEpoch) = some v' ∧
      (nextRetrieval p.chainEpoch - 1, v') ∈ chainVers env evs ∧
      o.msg = M p.entity (regsFor (run (initState env) evs).env.aggReg (nextRetrieval p.chainEpoch)) v')
    (hc : o.certified = false) (hx : o.expired = false) (hes : A.es = some o.epoch) :
    ∃ w, Obs.published p w ∈ (runG false (initG env) evs).log ∧
      M p.entity w.next w.nextStake = o.msg ∧
      Agg.sigClass A (enc p.entity)
        (sigOf ⟨(run (initState env) evs).env.aggReg, stake⟩ w.cur p (M p.entity w.next w.nextStake) sigma idx auth) =
        .registered := by
  obtain ⟨w, hob, _, _, _, hlist, hnext, _, _, hnv⟩ := pub_facts env evs h0 hev p hp
  obtain ⟨v', hv1, hv2, hv3⟩ := hmsg
  have hveq : v' = w.nextStake := chainVers_functional env evs (p.chainEpoch - 1) _ _ hv2 hnv
  have hm : M p.entity w.next w.nextStake = o.msg := by rw [hv3, hnext, hveq]
  refine ⟨w, hob, hm, ?_⟩
  rw [hlist]
  exact (accepted env evs h0 hev p hp stake _ sigma idx auth E A enc o hstake hregs hom hoe hm.symm hc hx hes).2.1

/-- the same when the aggregator model is in a state of its invariant `Agg.SInv`, SIGNING the entity: the epoch of
the open message and of the epoch service need not be assumed, only that the aggregator's
`get_epoch_when_signed_entity_type_is_signed` agrees with the signer's on the entity -/
theorem accepted_signing (env : Env) (evs : List Event) (h0 : env.aggReg = []) (hev : ∀ ev ∈ evs, OthersOnly ev)
    (p : Pub) (hp : p ∈ (run (initState env) evs).pubs)
    (stake : List (Nat × Nat)) (sigma : Nat) (idx : List Nat) (auth : Bool)
    (E : Agg.Env) (A : Agg.St) (enc : Entity → Nat) (o : Agg.OM) (ep : Nat)
    (hinv : Agg.SInv E A) (hrt : A.rt = .signing ep (enc p.entity)) (henc : E.entityEpoch (enc p.entity) = p.entity.signEpoch)
    (hstake : ∃ v, lookup stake (retrieval p.chainEpoch) = some v ∧ (retrieval p.chainEpoch - 1, v) ∈ chainVers env evs)
    (hregs : Agg.signersOf A.regs (retrieval p.chainEpoch) =
      (regsFor (run (initState env) evs).env.aggReg (retrieval p.chainEpoch)).map (·.party))
    (hom : Agg.findOm (enc p.entity) A.oms = some o) (hc : o.certified = false) (hx : o.expired = false) :
    Agg.sigClass A (enc p.entity)
      (sigOf ⟨(run (initState env) evs).env.aggReg, stake⟩
        (regsFor (run (initState env) evs).env.aggReg (retrieval p.chainEpoch)) p o.msg sigma idx auth) = .registered := by
  obtain ⟨hmem, hent⟩ := Agg.findOm_some hom
  obtain ⟨_, hes, hee⟩ := hinv.signing ep _ hrt
  have hoe : o.epoch = p.entity.signEpoch := by rw [hinv.omE o hmem, hent, henc]
  have hes' : A.es = some o.epoch := by rw [hes, hoe, ← henc, hee]
  exact (accepted env evs h0 hev p hp stake o.msg sigma idx auth E A enc o hstake hregs hom hoe rfl hc hx hes').2.1

/-! ### the offsets on the registration side, model against model -/

/-- `Agg`'s registration table (parties only) obtained from a key table -/
def projRegs (reg : List (Nat × Reg)) : List (Nat × Nat) := reg.map (fun q => (q.1, q.2.party))

/-- the signer set `Agg` derives for an epoch key is the party projection of the signer model's list for it -/
theorem signersOf_projRegs (reg : List (Nat × Reg)) (k : Nat) :
    Agg.signersOf (projRegs reg) k = (regsFor reg k).map (·.party) := by
  unfold Agg.signersOf projRegs regsFor
  induction reg with
  | nil => rfl
  | cons q rest ih =>
    simp only [List.map_cons, List.filter_cons]
    by_cases h : q.1 = k
    · simp [h, ih]
    · simp [h, ih]

/-- in epoch `a` the aggregator model opens the round recorded under `a + 1` = the signer model's `recording a` -/
theorem agg_round_offset (s : Agg.St) (tp : Agg.Tp) : (Agg.epochInit s tp).round = some (recording tp.epoch) := rfl

/-- a registration request of the signer model (recording epoch `recording a`: the signer was told epoch `a`) is
stored by `Agg.register` when the aggregator's open round is the one of epoch `a`, under the same epoch key: the two
tables stay in step -/
theorem agg_register_bridge (A : Agg.St) (reg : List (Nat × Reg)) (a party k : Nat)
    (hr : A.round = some (recording a)) (hregs : A.regs = projRegs reg)
    (hnew : party ∉ (regsFor reg (recording a)).map (·.party)) :
    (Agg.register A (recording a) party).regs = projRegs (reg ++ [(recording a, ⟨party, k⟩)]) := by
  have hc : Agg.regClass A (recording a) party = .ok := by
    unfold Agg.regClass
    rw [hr]
    simp only [ne_eq, not_true_eq_false, ↓reduceIte]
    rw [hregs, signersOf_projRegs]
    have : ((regsFor reg (recording a)).map (·.party)).contains party = false := by simpa using hnew
    rw [this]; rfl
  unfold Agg.register
  rw [hc]
  show A.regs ++ [(recording a, party)] = _
  rw [hregs]
  simp [projRegs]

/-- … and refused when the aggregator's round is another one (it is in another epoch than the signer was told) -/
theorem agg_register_other_round (A : Agg.St) (K r party : Nat) (hr : A.round = some K) (hne : K ≠ r) :
    Agg.register A r party = A := by
  unfold Agg.register Agg.regClass
  rw [hr]
  simp [hne]

/-- **the offset relation, both models**: for every signature `p` of chain epoch `E` received by the aggregator there
is a registration `q` the signer stored, sent when the aggregator announced epoch `a = q.aggEpoch`, such that
* signer model: `q` was recorded under `recording a = a + 1` and the signature was made with `q`'s key in
  `E = a + SIGNING = a + 2`, from the list kept under `retrieval E = E − 1 = a + 1`;
* aggregator model: the round `Agg.epochInit` opens in epoch `a` is `a + 1` — the epoch key `Agg.register` stores the
  party under —, and the signer set `Agg.sigClass` demands the party in, for an open message of epoch `E`, is
  `signersOf regs (E − 1)`: the same epoch key `a + 1`. -/
theorem offsets_both_models (env : Env) (evs : List Event) (h0 : env.aggReg = []) (p : Pub)
    (hp : p ∈ (run (initState env) evs).pubs) :
    ∃ q ∈ (run (initState env) evs).saved, q.key = p.key ∧
      q.recEpoch = recording q.aggEpoch ∧ p.chainEpoch = q.aggEpoch + SIGNING ∧ retrieval p.chainEpoch = q.recEpoch ∧
      (⟨0, p.key⟩ : Reg) ∈ regsFor (run (initState env) evs).env.aggReg q.recEpoch ∧
      (∀ (s : Agg.St) (tp : Agg.Tp), tp.epoch = q.aggEpoch → (Agg.epochInit s tp).round = some q.recEpoch) ∧
      (∀ (o : Agg.OM), o.epoch = p.chainEpoch → o.epoch - 1 = q.recEpoch) := by
  obtain ⟨r, a⟩ := run_reg_agg evs (initState env) (initState_reg env) (initState_agg env h0)
  obtain ⟨a1, a2, a3⟩ := a.pubsAgg p hp
  obtain ⟨q, hq, r1, r2, r3⟩ := r.pubsKey p hp
  have r4 := r.savedRec q hq
  have e1 : retrieval p.chainEpoch = q.recEpoch := by unfold retrieval; omega
  refine ⟨q, hq, r1, r4, by omega, e1, ?_, ?_, ?_⟩
  · rw [← e1, ← a1]; exact a3
  · intro s tp htp
    rw [agg_round_offset, htp, r4]; rfl
  · intro o ho
    rw [ho]; exact e1

/-! ### the two models run side by side (non-vacuity of `accepted`, and the verdicts do discriminate) -/

/-- an encoding of the signer model's entities as `Agg` entity numbers, with the aggregator's
`get_epoch_when_signed_entity_type_is_signed` on the codes -/
def enc (x : Entity) : Nat := x.imm * 1000 + x.epoch * 10 + (match x.disc with | .msd => 0 | .csd => 1 | .cdb => 2)

def demoAggEnv : Agg.Env :=
  { entityEpoch := fun e => (e % 1000) / 10 + (if e % 10 = 1 then 1 else 0),
    entityDisc := fun e => e % 10,
    quorum := fun _ rows => Agg.quorumIdx 2 rows,
    timeout := fun _ => none }

def demoTp (ep : Nat) (avail : List Nat) (m : Nat) : Agg.Tp := { epoch := ep, now := 0, avail := avail, newmsg := m }

/-- a stand-in for `compute_message`: injective enough in the entity, the keys of the next signer list and the stake
distribution behind the next aggregate verification key -/
def demoM (x : Entity) (next : List Reg) (v : Nat) : Nat :=
  enc x + 1000 * v + 100000 * (next.map (·.key)).sum

/-- the message of the aggregator's open message for `MithrilStakeDistribution(3)`: computed from the registrations
it recorded under epoch 3 and the stake distribution it stores under epoch 3 (version 11, reported in epoch 2) -/
def demoMsg : Nat := demoM ⟨.msd, 3, 0⟩ [⟨1, 1001⟩, ⟨2, 1002⟩, ⟨0, 1⟩] 11

def demoHonest (p ep m : Nat) : Agg.Sig :=
  { party := p, signer := p, sigma := 100 + p, msg := m, ok := [ep], idx := [p], auth := true }

/-- the aggregator model over the same three epochs: genesis in epoch 1 with three fixture signers; the
registrations of the signer model's history (`readyPrefix`: parties 1, 2, then the signer, in the rounds of epochs 1
and 2, the signer alone in epoch 3) go through `Agg.register`; a certificate in epoch 2; in epoch 3 the open message
for `MithrilStakeDistribution(3)` (code 30, protocol message `demoMsg`) is created and the runtime is SIGNING it -/
def demoAggEvents : List Agg.Event :=
  [.tick (demoTp 1 [] 0),
   .register 2 1, .register 2 2, .register 2 0,
   .tick (demoTp 2 [20] 7), .tick (demoTp 2 [20] 7),
   .register 3 1, .register 3 2, .register 3 0,
   .tick (demoTp 2 [20] 7),
   .signature 20 (demoHonest 0 2 7), .signature 20 (demoHonest 1 2 7),
   .tick (demoTp 2 [20] 7),
   .tick (demoTp 3 [30, 21, 1032] demoMsg), .tick (demoTp 3 [30, 21, 1032] demoMsg), .register 4 0, .tick (demoTp 3 [30, 21, 1032] demoMsg)]

def demoAgg : Agg.St := demoAggEvents.foldl (Agg.step demoAggEnv) (Agg.init 3 1)

/-- the signer model's history: `ReadyToSign` in epoch 3, one tick that publishes -/
def demoEvents : List Event := readyPrefix ++ [.tick false]

def demoPub : Pub := ⟨⟨.msd, 3, 0⟩, 0, 3, 3, 10⟩

/-- the aggregator's stake table: under epoch `e` the distribution the chain reported in `e − 1` -/
def demoStake : List (Nat × Nat) := [(2, 10), (3, 11), (4, 12)]

def demoOm : Agg.OM := { entity := 30, epoch := 3, msg := demoMsg, certified := false, expired := false, expiresAt := none }

set_option maxRecDepth 100000 in
theorem demo_facts :
    demoPub ∈ (run (initState demoEnv) demoEvents).pubs ∧ (∀ ev ∈ demoEvents, OthersOnly ev) ∧
    chainVers demoEnv demoEvents = [(1, 10), (2, 11), (3, 12)] ∧
    demoAgg.rt = .signing 3 30 ∧ demoAgg.es = some 3 ∧ demoAgg.round = some 4 ∧
    Agg.findOm (enc demoPub.entity) demoAgg.oms = some demoOm ∧
    Agg.signersOf demoAgg.regs 2 = (regsFor (run (initState demoEnv) demoEvents).env.aggReg 2).map (·.party) ∧
    -- every registration of the signer model's history went through `Agg.register`
    demoAgg.regs.drop 6 = projRegs (run (initState demoEnv) demoEvents).env.aggReg ∧
    regsFor (run (initState demoEnv) demoEvents).env.aggReg 3 = [⟨1, 1001⟩, ⟨2, 1002⟩, ⟨0, 1⟩] := by
  decide

/-- non-vacuity of `accepted`: its hypotheses hold for the two runs above -/
example :
    Agg.sigClass demoAgg 30
      (sigOf ⟨(run (initState demoEnv) demoEvents).env.aggReg, demoStake⟩
        (regsFor (run (initState demoEnv) demoEvents).env.aggReg 2) demoPub demoMsg 77 [4] false) = .registered := by
  obtain ⟨h1, h2, h3, _, h5, _, h7, h8, _⟩ := demo_facts
  exact (accepted demoEnv demoEvents rfl h2 demoPub h1 demoStake demoMsg 77 [4] false demoAggEnv demoAgg enc demoOm
    ⟨10, rfl, by rw [h3]; decide⟩ h8 h7 rfl rfl rfl rfl h5).2.1

set_option maxRecDepth 100000 in
/-- the same computed, model against model: the signature the signer model published, with the verdicts computed
from the keys, is stored by the aggregator model as the row of party 0; published twice (the known finding) it
still is one row -/
theorem demo_accepted :
    let g := sigOf ⟨(run (initState demoEnv) demoEvents).env.aggReg, demoStake⟩
      (regsFor (run (initState demoEnv) demoEvents).env.aggReg 2) demoPub demoMsg 77 [4] false
    g = { party := 0, signer := 0, sigma := 77, msg := demoMsg, ok := [3], idx := [4], auth := false } ∧
    (Agg.step demoAggEnv demoAgg (.signature 30 g)).sigs =
      [{ entity := 30, party := 0, sigma := 77, idx := [4], signer := 0, msg := demoMsg, vEpoch := 3 }] ∧
    (Agg.step demoAggEnv (Agg.step demoAggEnv demoAgg (.signature 30 g)) (.signature 30 g)).sigs =
      [{ entity := 30, party := 0, sigma := 77, idx := [4], signer := 0, msg := demoMsg, vEpoch := 3 }] := by
  decide

set_option maxRecDepth 100000 in
/-- the verdicts discriminate — an offset changed on one side is refused as `invalid`:
(1) the key registered one epoch later (recorded under `E` instead of `E − 1`);
(2) the signer list of the next epoch (retrieval offset 0 instead of −1), with the key that is in it;
(3) the stake distribution of the next epoch (stored under the announced epoch instead of epoch + 1);
(4) the right signature when the aggregator's table holds another first registration for party 0 in the round -/
theorem demo_rejected :
    let reg := (run (initState demoEnv) demoEvents).env.aggReg
    Agg.sigClass demoAgg 30 (sigOf ⟨reg, demoStake⟩ (regsFor reg 2) { demoPub with key := 1 } demoMsg 77 [4] false) = .invalid ∧
    Agg.sigClass demoAgg 30 (sigOf ⟨reg, demoStake⟩ (regsFor reg 3) { demoPub with key := 1 } demoMsg 77 [4] false) = .invalid ∧
    Agg.sigClass demoAgg 30 (sigOf ⟨reg, demoStake⟩ (regsFor reg 2) { demoPub with stakeVer := 11 } demoMsg 77 [4] false) = .invalid ∧
    Agg.sigClass demoAgg 30 (sigOf ⟨(2, ⟨0, 555⟩) :: reg, demoStake⟩ (regsFor ((2, ⟨0, 555⟩) :: reg) 2) demoPub demoMsg 77 [4] false) = .invalid := by
  decide

set_option maxRecDepth 100000 in
/-- the aggregator run above satisfies the aggregator model's state invariant (it is a well-formed history) -/
theorem demoAgg_sinv : Agg.SInv demoAggEnv demoAgg := by
  apply Agg.run_sinv demoAggEnv demoAggEvents (Agg.init 3 1) (Agg.sinv_init _ _ _)
  simp only [demoAggEvents, Agg.RunWfC, Agg.EvWfC, Agg.Wf, and_true, true_and]
  decide

/-- non-vacuity of `accepted_signing` -/
example :
    Agg.sigClass demoAgg (enc demoPub.entity)
      (sigOf ⟨(run (initState demoEnv) demoEvents).env.aggReg, demoStake⟩
        (regsFor (run (initState demoEnv) demoEvents).env.aggReg (retrieval demoPub.chainEpoch)) demoPub demoOm.msg 77 [4] false) =
      .registered := by
  obtain ⟨h1, h2, h3, h4, _, _, h7, h8, _⟩ := demo_facts
  exact accepted_signing demoEnv demoEvents rfl h2 demoPub h1 demoStake 77 [4] false demoAggEnv demoAgg enc demoOm 3
    demoAgg_sinv h4 rfl ⟨10, rfl, by rw [h3]; decide⟩ h8 h7 rfl rfl

set_option maxRecDepth 100000 in
/-- non-vacuity of `marked_published_when_won`, `stake_in_force`, `offsets_both_models` on the same history -/
example :
    (∀ ev ∈ demoEvents, ev ≠ .tick true) ∧ (3, (⟨.msd, 3, 0⟩ : Entity)) ∈ (run (initState demoEnv) demoEvents).st.signed ∧
    demoPub ∈ (run (initState demoEnv) demoEvents).pubs ∧ demoEnv.aggReg = [] ∧
    (demoPub.chainEpoch - 2, demoPub.stakeVer) ∈ chainVers demoEnv demoEvents := by
  decide

/-- non-vacuity of the registration bridge: a state whose round is the one of epoch 2, a table in step -/
example :
    let A : Agg.St := { demoAgg with round := some (recording 2), regs := projRegs [(3, ⟨1, 1001⟩)] }
    A.round = some (recording 2) ∧ A.regs = projRegs [(3, ⟨1, 1001⟩)] ∧
    (0 : Nat) ∉ (regsFor [(3, (⟨1, 1001⟩ : Reg))] (recording 2)).map (·.party) ∧
    (Agg.register A (recording 2) 0).regs = [(3, 1), (3, 0)] ∧ Agg.regClass A (recording 1) 0 = .epoch := by
  decide

/-- non-vacuity of `accepted_msg`: the message the signer model's history determines is the aggregator's -/
example :
    ∃ w, Obs.published demoPub w ∈ (runG false (initG demoEnv) demoEvents).log ∧
      demoM demoPub.entity w.next w.nextStake = demoOm.msg ∧
      Agg.sigClass demoAgg (enc demoPub.entity)
        (sigOf ⟨(run (initState demoEnv) demoEvents).env.aggReg, demoStake⟩ w.cur demoPub
          (demoM demoPub.entity w.next w.nextStake) 77 [4] false) = .registered := by
  obtain ⟨h1, h2, h3, _, h5, _, h7, h8, _, hreg⟩ := demo_facts
  exact accepted_msg demoEnv demoEvents rfl h2 demoPub h1 demoStake demoM 77 [4] false demoAggEnv demoAgg enc demoOm
    ⟨10, rfl, by rw [h3]; decide⟩ h8 h7 rfl
    ⟨11, rfl, by rw [h3]; decide, by show demoMsg = demoM _ (regsFor _ 3) 11; rw [hreg]; rfl⟩ rfl rfl h5

set_option maxRecDepth 100000 in
/-- non-vacuity of `registered_only_if` (its hypothesis holds for the signature of the joint run) and of
`one_key_per_round` (the signer has a key recorded in each of the three rounds) -/
example :
    Agg.sigClass demoAgg 30 (sigOf ⟨(run (initState demoEnv) demoEvents).env.aggReg, demoStake⟩
      (regsFor (run (initState demoEnv) demoEvents).env.aggReg 2) demoPub demoMsg 77 [4] false) = .registered ∧
    (2, (⟨0, 0⟩ : Reg)) ∈ (run (initState demoEnv) demoEvents).env.aggReg ∧
    (3, (⟨0, 1⟩ : Reg)) ∈ (run (initState demoEnv) demoEvents).env.aggReg ∧
    (4, (⟨0, 2⟩ : Reg)) ∈ (run (initState demoEnv) demoEvents).env.aggReg := by
  decide

end SignerAgg
