import MithrilModel.ClerkFixed
import MithrilModel.StmVerify
/-! C02 ∘ C01: what the (repaired) clerk selects passes the verifier (`C02_aggregate_verifies`).
The two models are linked by reading a clerk signature `(sigma, party, idxs)` as the verifier's
`(sigma, idxs, vk := party, stake := stakeOf party)`. Hypotheses = completeness of the primitives:
a signature the single verifier accepts has won every index it claims, all `< m`; the batch path
of registered leaves verifies (C09 K); the aggregate of individually valid BLS signatures verifies. -/
namespace ClerkVerify
open Clerk

def conv (stakeOf : Nat → Nat) (s : Clerk.Sig) : StmVerify.Sig :=
  { sigma := s.sigma, idxs := s.idxs, vk := s.party, stake := stakeOf s.party }

theorem checkIndices_of_all (E : StmVerify.Env) (s : StmVerify.Sig) : ∀ l : List Nat,
    (∀ i ∈ l, i < E.m ∧ E.won s.sigma i s.stake = true) → StmVerify.checkIndices E s l = .ok () := by
  intro l
  induction l with
  | nil => intro _; rfl
  | cons a r ih =>
    intro h
    obtain ⟨h1, h2⟩ := h a (by simp)
    simp only [StmVerify.checkIndices]
    rw [if_neg (by omega), h2]
    simpa using ih (fun i hi => h i (by simp [hi]))

theorem checkAll_of_all (E : StmVerify.Env) : ∀ sigs : List StmVerify.Sig,
    (∀ s ∈ sigs, ∀ i ∈ s.idxs, i < E.m ∧ E.won s.sigma i s.stake = true) → StmVerify.checkAll E sigs = .ok () := by
  intro sigs
  induction sigs with
  | nil => intro _; rfl
  | cons a r ih =>
    intro h
    simp only [StmVerify.checkAll]
    rw [checkIndices_of_all E a a.idxs (h a (by simp))]
    exact ih (fun s hs => h s (by simp [hs]))

theorem distinctCount_of_nodup : ∀ l : List Nat, l.Nodup → StmVerify.distinctCount l = l.length
  | [], _ => rfl
  | x :: r, h => by
    obtain ⟨hx, hr⟩ := List.nodup_cons.mp h
    simp only [StmVerify.distinctCount, List.length_cons, if_neg hx, distinctCount_of_nodup r hr]

/-- the indices the repaired selection returns are pairwise distinct, across and within signatures -/
theorem selectMerged_out_nodup (k : Nat) (sigs out : List Sig) (h : selectMerged k sigs = .ok out) :
    (out.flatMap (·.idxs)).Nodup := by
  unfold selectMerged at h
  obtain ⟨hpw, _, hdisj, _⟩ := select_sound k (normalize sigs) out h
  have hsub := select_out_sublist k (normalize sigs) out h
  have hNR := normalize_noRepeat sigs
  unfold List.Nodup
  rw [List.pairwise_flatMap]
  refine ⟨?_, ?_⟩
  · intro o ho
    obtain ⟨t, ht, hv, hsl⟩ := hsub o ho
    exact List.Nodup.sublist hsl (hNR.2 t ht hv)
  · refine List.Pairwise.imp_of_mem ?_ hpw
    intro a b ha hb hab i hi j hj hij
    subst hij
    exact hdisj a ha b hb hab i hi hj

/-- **C02_aggregate_verifies**: whenever the repaired clerk selects `out`, the aggregate built from
`out` passes every check of `AggregateSignature::verify` (model `StmVerify.verify`, C01). -/
theorem aggregate_verifies (E : StmVerify.Env) (stakeOf : Nat → Nat) (sigs out : List Sig)
    (h : selectMerged E.k sigs = .ok out)
    (hvalid : ∀ s ∈ sigs, s.valid = true → ∀ i ∈ s.idxs, i < E.m ∧ E.won s.sigma i (stakeOf s.party) = true)
    (hbatch : E.batchOk ((out.map (conv stakeOf)).map fun s => (s.vk, s.stake)) = true)
    (hagg : E.aggOk ((out.map (conv stakeOf)).map fun s => (s.vk, s.sigma)) = true) :
    StmVerify.verify E (out.map (conv stakeOf)) = .ok () := by
  obtain ⟨_, hsrc, _, hcount⟩ := selectMerged_sound E.k sigs out h
  have hnd := selectMerged_out_nodup E.k sigs out h
  have hall : StmVerify.allIdx (out.map (conv stakeOf)) = out.flatMap (·.idxs) := by
    unfold StmVerify.allIdx
    rw [List.flatMap_map]
    rfl
  have hchk : StmVerify.checkAll E (out.map (conv stakeOf)) = .ok () := by
    apply checkAll_of_all
    intro s hs i hi
    obtain ⟨o, ho, rfl⟩ := List.mem_map.mp hs
    obtain ⟨t, ht, hv, hk, hit⟩ := hsrc o ho i hi
    have hk' : t.sigma = o.sigma ∧ t.party = o.party := by
      simpa [Sig.key] using hk
    have := hvalid t ht hv i hit
    simpa [conv, hk'.1, hk'.2] using this
  unfold StmVerify.verify StmVerify.preliminary
  rw [hchk]
  simp only [hall]
  have hlen : (out.flatMap (·.idxs)).length = (out.map (·.idxs.length)).sum := by
    rw [List.length_flatMap]
  rw [if_neg (by rw [distinctCount_of_nodup _ hnd]; simp), if_neg (by omega)]
  rw [List.map_map] at hbatch hagg
  simp [hbatch, hagg]

#print axioms aggregate_verifies
end ClerkVerify
