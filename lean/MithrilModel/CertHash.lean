namespace CertHash

abbrev Bytes := List UInt8

def u64be (n : Nat) : Bytes :=
  [ (n / 2^56 % 256).toUInt8, (n / 2^48 % 256).toUInt8, (n / 2^40 % 256).toUInt8, (n / 2^32 % 256).toUInt8,
    (n / 2^24 % 256).toUInt8, (n / 2^16 % 256).toUInt8, (n / 2^8 % 256).toUInt8, (n % 256).toUInt8 ]

theorem u64be_length (n : Nat) : (u64be n).length = 8 := rfl

theorem toUInt8_inj {a b : Nat} (ha : a < 256) (hb : b < 256) (h : a.toUInt8 = b.toUInt8) : a = b := by
  have := congrArg UInt8.toNat h
  simpa [Nat.toUInt8, UInt8.toNat_ofNat, Nat.mod_eq_of_lt ha, Nat.mod_eq_of_lt hb] using this

theorem u64be_inj {n m : Nat} (hn : n < 2^64) (hm : m < 2^64) (h : u64be n = u64be m) : n = m := by
  unfold u64be at h
  simp only [List.cons.injEq, and_true] at h
  obtain ⟨h0, h1, h2, h3, h4, h5, h6, h7⟩ := h
  have e0 := toUInt8_inj (Nat.mod_lt _ (by decide)) (Nat.mod_lt _ (by decide)) h0
  have e1 := toUInt8_inj (Nat.mod_lt _ (by decide)) (Nat.mod_lt _ (by decide)) h1
  have e2 := toUInt8_inj (Nat.mod_lt _ (by decide)) (Nat.mod_lt _ (by decide)) h2
  have e3 := toUInt8_inj (Nat.mod_lt _ (by decide)) (Nat.mod_lt _ (by decide)) h3
  have e4 := toUInt8_inj (Nat.mod_lt _ (by decide)) (Nat.mod_lt _ (by decide)) h4
  have e5 := toUInt8_inj (Nat.mod_lt _ (by decide)) (Nat.mod_lt _ (by decide)) h5
  have e6 := toUInt8_inj (Nat.mod_lt _ (by decide)) (Nat.mod_lt _ (by decide)) h6
  have e7 := toUInt8_inj (Nat.mod_lt _ (by decide)) (Nat.mod_lt _ (by decide)) h7
  omega

/-- the cancellation lemma behind every single-field statement -/
theorem mid_cancel {α} (p s x y : List α) (h : p ++ x ++ s = p ++ y ++ s) : x = y := by
  have h1 : p ++ (x ++ s) = p ++ (y ++ s) := by simpa [List.append_assoc] using h
  exact List.append_cancel_right (List.append_cancel_left h1)

structure Cert where
  prevHash : Bytes
  epoch : Nat
  metaHash : Bytes
  pmHash : Bytes
  signedMsg : Bytes
  avk : Bytes
  sig : Bytes

def pre (c : Cert) : Bytes :=
  c.prevHash ++ u64be c.epoch ++ c.metaHash ++ c.pmHash ++ c.signedMsg ++ c.avk ++ c.sig

variable (H : Bytes → Bytes)
def Collision : Prop := ∃ x y, x ≠ y ∧ H x = H y

theorem hash_eq_pre (c c' : Cert) (h : H (pre c) = H (pre c')) : pre c = pre c' ∨ Collision H := by
  by_cases he : pre c = pre c'
  · exact Or.inl he
  · exact Or.inr ⟨_, _, he, h⟩

/-- changing only the epoch changes the hash (or exhibits a collision) -/
theorem field_epoch (c : Cert) (e' : Nat) (he : c.epoch < 2^64) (he' : e' < 2^64) (hne : c.epoch ≠ e')
    : H (pre c) ≠ H (pre { c with epoch := e' }) ∨ Collision H := by
  by_cases h : H (pre c) = H (pre { c with epoch := e' })
  · rcases hash_eq_pre H c _ h with hp | hc
    · exfalso
      unfold pre at hp
      simp only [List.append_assoc] at hp
      have := List.append_cancel_left hp
      have h8 : (u64be c.epoch).length = (u64be e').length := rfl
      have := (List.append_inj this h8).1
      exact hne (u64be_inj he he' this)
    · exact Or.inr hc
  · exact Or.inl h

/-- changing only the signed message (any length) changes the hash -/
theorem field_signedMsg (c : Cert) (m' : Bytes) (hne : c.signedMsg ≠ m')
    : H (pre c) ≠ H (pre { c with signedMsg := m' }) ∨ Collision H := by
  by_cases h : H (pre c) = H (pre { c with signedMsg := m' })
  · rcases hash_eq_pre H c _ h with hp | hc
    · exfalso
      unfold pre at hp
      apply hne
      exact mid_cancel (c.prevHash ++ u64be c.epoch ++ c.metaHash ++ c.pmHash) (c.avk ++ c.sig) _ _
        (by simpa [List.append_assoc] using hp)
    · exact Or.inr hc
  · exact Or.inl h

#print axioms field_epoch
#print axioms field_signedMsg
end CertHash
