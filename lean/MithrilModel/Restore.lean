/-! C19: ancillary verification and move, on a file system with symbolic links -/
namespace Restore

abbrev Path := List Nat            -- normalised components (names are numbers in the model)

inductive Node where
  | file (content : Nat)
  | link (up : Nat) (down : Path)  -- relative target: `up` levels above the link's directory, then `down`
deriving DecidableEq, Repr

abbrev FS := Path → Option Node

def dropLastN : Nat → Path → Path
  | 0, p => p
  | n + 1, p => dropLastN n p.dropLast

def resolve (p : Path) (up : Nat) (down : Path) : Path := dropLastN up p.dropLast ++ down

/-- `File::open` + read: follows a final-component link (one level is enough for the argument) -/
def read (fs : FS) (p : Path) : Option Nat :=
  match fs p with
  | some (.file c) => some c
  | some (.link up down) =>
    match fs (resolve p up down) with
    | some (.file c) => some c
    | _ => none
  | none => none

def remove (fs : FS) (q : Path) : FS := fun p => if p = q then none else fs p
def insert (fs : FS) (q : Path) (n : Node) : FS := fun p => if p = q then some n else fs p

/-- `rename(tmp/p, p)`: moves the node itself, whatever it is -/
def moveOne (tmp : Path) (fs : FS) (p : Path) : FS :=
  match fs (tmp ++ p) with
  | some n => insert (remove fs (tmp ++ p)) p n
  | none => fs

def moveAll (tmp : Path) (fs : FS) (ps : List Path) : FS := ps.foldl (moveOne tmp) fs

variable (H : Nat → Nat)

/-- `verify_data` as it is: hash whatever `open` reaches -/
def verifyData (tmp : Path) (fs : FS) (manifest : List (Path × Nat)) : Bool :=
  manifest.all fun e => (read fs (tmp ++ e.1)).map H == some e.2

/-- `verify_data` with the regular-file check -/
def verifyDataFixed (tmp : Path) (fs : FS) (manifest : List (Path × Nat)) : Bool :=
  manifest.all fun e => match fs (tmp ++ e.1) with
    | some (.file c) => H c == e.2
    | _ => false

/-- the mirror's archives: genuine content parked under `payload/state` in the ancillary archive,
hostile content at the same relative place in the target (put there by an immutable archive), and
the vouched path as a link -/
def tmpDir : Path := [99]
def ledgerX : Path := [1, 7]      -- ledger/x
def payload : Path := [2, 8]      -- payload/state
def hostileFS : FS := fun p =>
  if p = tmpDir ++ ledgerX then some (.link 1 payload)
  else if p = tmpDir ++ payload then some (.file 42)      -- genuine
  else if p = payload then some (.file 666)               -- hostile
  else none

theorem symlink_counterexample :
    verifyData id tmpDir hostileFS [(ledgerX, 42)] = true ∧
    read (moveAll tmpDir hostileFS [ledgerX]) ledgerX = some 666 := by
  decide

theorem fixed_rejects_counterexample :
    verifyDataFixed id tmpDir hostileFS [(ledgerX, 42)] = false := by
  decide

/-! soundness of the fixed verifier: every moved path reads as the vouched content -/

theorem moveOne_other (tmp : Path) (fs : FS) (p q : Path) (h1 : q ≠ p) (h2 : q ≠ tmp ++ p) :
    moveOne tmp fs p q = fs q := by
  unfold moveOne
  cases fs (tmp ++ p) with
  | none => rfl
  | some n => simp [insert, remove, h1, h2]

theorem moveOne_self (tmp : Path) (fs : FS) (p : Path) (n : Node) (h : fs (tmp ++ p) = some n) :
    moveOne tmp fs p p = some n := by
  simp [moveOne, h, insert]

theorem moveAll_other (tmp : Path) (ps : List Path) : ∀ (fs : FS) (q : Path),
    (∀ p ∈ ps, q ≠ p ∧ q ≠ tmp ++ p) → moveAll tmp fs ps q = fs q := by
  induction ps with
  | nil => intro fs q _; rfl
  | cons p r ih =>
    intro fs q h
    simp only [moveAll, List.foldl_cons]
    have := ih (moveOne tmp fs p) q (fun x hx => h x (by simp [hx]))
    simp only [moveAll] at this
    rw [this, moveOne_other tmp fs p q (h p (by simp)).1 (h p (by simp)).2]

/-- paths inside and outside the temporary directory do not collide -/
def Separated (tmp : Path) (ps : List Path) : Prop :=
  ∀ p ∈ ps, ∀ q ∈ ps, p ≠ tmp ++ q

theorem moved_is_vouched (tmp : Path) (manifest : List (Path × Nat)) :
    ∀ (fs : FS), (manifest.map (·.1)).Nodup → Separated tmp (manifest.map (·.1)) →
      verifyDataFixed H tmp fs manifest = true →
      ∀ e ∈ manifest, ∃ c, moveAll tmp fs (manifest.map (·.1)) e.1 = some (.file c) ∧ H c = e.2 := by
  induction manifest with
  | nil => intro fs _ _ _ e he; simp at he
  | cons m r ih =>
    intro fs hnd hsep hv e he
    simp only [List.map_cons, List.nodup_cons] at hnd
    simp only [verifyDataFixed, List.all_cons, Bool.and_eq_true] at hv
    simp only [List.map_cons, moveAll, List.foldl_cons]
    obtain ⟨hm, hr⟩ := hv
    -- the head entry is a regular file with the vouched hash
    cases hfm : fs (tmp ++ m.1) with
    | none => rw [hfm] at hm; simp at hm
    | some n =>
      cases n with
      | link u d => rw [hfm] at hm; simp at hm
      | file c =>
        rw [hfm] at hm
        have hc : H c = m.2 := by simpa using hm
        have hsep' : Separated tmp (r.map (·.1)) :=
          fun p hp q hq => hsep p (by simp [hp]) q (by simp [hq])
        simp only [List.mem_cons] at he
        rcases he with rfl | he
        · -- later moves do not touch the head's destination
          refine ⟨c, ?_, hc⟩
          have := moveAll_other tmp (r.map (·.1)) (moveOne tmp fs e.1) e.1 (by
            intro p hp
            refine ⟨fun h => hnd.1 (h ▸ hp), ?_⟩
            exact hsep e.1 (by simp) p (by simp [hp]))
          simp only [moveAll] at this
          rw [this, moveOne_self tmp fs e.1 _ hfm]
        · -- the tail's sources are untouched by the head's move
          have hv' : verifyDataFixed H tmp (moveOne tmp fs m.1) r = true := by
            simp only [verifyDataFixed, List.all_eq_true] at hr ⊢
            intro x hx
            have hx1 : x.1 ∈ r.map (·.1) := List.mem_map.mpr ⟨x, hx, rfl⟩
            have h1 : tmp ++ x.1 ≠ m.1 := fun h => hsep m.1 (by simp) x.1 (by simp [hx1]) h.symm
            have h2 : tmp ++ x.1 ≠ tmp ++ m.1 := by
              intro h; exact hnd.1 ((List.append_cancel_left h) ▸ hx1)
            rw [moveOne_other tmp fs m.1 _ h1 h2]
            exact hr x hx
          exact ih (moveOne tmp fs m.1) hnd.2 hsep' hv' e he

/-- … and therefore reads as the vouched content (a regular file is read directly) -/
theorem restored_reads_vouched (tmp : Path) (manifest : List (Path × Nat)) (fs : FS)
    (hnd : (manifest.map (·.1)).Nodup) (hsep : Separated tmp (manifest.map (·.1)))
    (hv : verifyDataFixed H tmp fs manifest = true) :
    ∀ e ∈ manifest, (read (moveAll tmp fs (manifest.map (·.1))) e.1).map H = some e.2 := by
  intro e he
  obtain ⟨c, h1, h2⟩ := moved_is_vouched H tmp manifest fs hnd hsep hv e he
  simp [read, h1, h2]

#print axioms restored_reads_vouched
end Restore
