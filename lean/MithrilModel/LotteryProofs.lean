import MithrilModel.Lottery
import Mathlib.Analysis.Complex.Exponential
import Mathlib.Data.Rat.BigOperators

namespace Lottery
open Finset

theorem ratAbs_nonneg (q : Rat) : 0 ≤ ratAbs q := by
  unfold ratAbs; split <;> linarith

/-- monotone in the compared value: a smaller `cmp` can only turn the answer to `true` -/
theorem taylorAux_mono_cmp (b : Nat) : ∀ (c1 c2 x newX phi d : Rat), c1 ≤ c2 →
    taylorAux b c2 x newX phi d = true → taylorAux b c1 x newX phi d = true := by
  induction b with
  | zero => intro c1 c2 x newX phi d _ h; simp [taylorAux] at h
  | succ b ih =>
    intro c1 c2 x newX phi d hle h
    simp only [taylorAux] at h ⊢
    split at h
    · simp at h
    · rename_i h1
      have h1' : ¬ c1 > phi + newX + ratAbs (newX * x / (d + 1)) * 3 := by
        intro hc; exact h1 (lt_of_lt_of_le hc hle)
      rw [if_neg h1']
      split at h
      · rename_i h2
        rw [if_pos (lt_of_le_of_lt hle h2)]
      · split
        · rfl
        · exact ih _ _ _ _ _ _ hle h

/-- the loop invariant ties the state to the partial sums of the exponential series -/
theorem taylorAux_true_correct (b : Nat) : ∀ (j : Nat) (cmp x : Rat), 0 ≤ x → 1 ≤ j →
    taylorAux b cmp x (x ^ j / (j.factorial : Rat)) (∑ m ∈ range j, x ^ m / (m.factorial : Rat)) (j : Rat) = true →
    (cmp : ℝ) < Real.exp (x : ℝ) := by
  induction b with
  | zero => intro j cmp x _ _ h; simp [taylorAux] at h
  | succ b ih =>
    intro j cmp x hx hj h
    simp only [taylorAux] at h
    split at h
    · simp at h
    · split at h
      · rename_i _ h2
        -- cmp < S_{j+1} - err ≤ S_{j+1} ≤ exp x
        have herr := ratAbs_nonneg (x ^ j / (j.factorial : Rat) * x / ((j : Rat) + 1))
        have hsum : (∑ m ∈ range j, x ^ m / (m.factorial : Rat)) + x ^ j / (j.factorial : Rat)
            = ∑ m ∈ range (j + 1), x ^ m / (m.factorial : Rat) := by
          rw [Finset.sum_range_succ]
        have hq : cmp < ∑ m ∈ range (j + 1), x ^ m / (m.factorial : Rat) := by
          rw [← hsum]; linarith
        have hR : (cmp : ℝ) < ∑ m ∈ range (j + 1), (x : ℝ) ^ m / (m.factorial : ℝ) := by
          have := (Rat.cast_lt (K := ℝ)).mpr hq
          push_cast at this
          exact this
        exact lt_of_lt_of_le hR (Real.sum_le_exp_of_nonneg (by exact_mod_cast hx) (j + 1))
      · -- recursive round: re-establish the invariant for j+1
        have hterm : x ^ j / (j.factorial : Rat) * x / ((j : Rat) + 1) = x ^ (j + 1) / ((j + 1).factorial : Rat) := by
          rw [Nat.factorial_succ]; push_cast
          have : (j.factorial : Rat) ≠ 0 := by exact_mod_cast Nat.factorial_ne_zero j
          have : ((j : Rat) + 1) ≠ 0 := by positivity
          field_simp
          ring
        have hsum : (∑ m ∈ range j, x ^ m / (m.factorial : Rat)) + x ^ j / (j.factorial : Rat)
            = ∑ m ∈ range (j + 1), x ^ m / (m.factorial : Rat) := by
          rw [Finset.sum_range_succ]
        have hd : (j : Rat) + 1 = ((j + 1 : Nat) : Rat) := by push_cast; rfl
        rw [hterm, hsum, hd] at h
        exact ih (j + 1) cmp x hx (by omega) h

theorem taylor_true_correct (bound : Nat) (cmp x : Rat) (hx : 0 ≤ x)
    (h : taylor bound cmp x = true) : (cmp : ℝ) < Real.exp (x : ℝ) := by
  have := taylorAux_true_correct bound 1 cmp x hx (le_refl 1)
  simp at this
  exact this h

theorem real_exp_tail {x : ℝ} (hx : 0 ≤ x) {n : ℕ} (h : x / (n + 1 : ℕ) ≤ 1 / 2) :
    Real.exp x - ∑ m ∈ range n, x ^ m / (m.factorial : ℝ) ≤ x ^ n / (n.factorial : ℝ) * 2 := by
  have hc : ‖(x : ℂ)‖ / (n.succ : ℝ) ≤ 1 / 2 := by
    rw [Complex.norm_real, Real.norm_eq_abs, abs_of_nonneg hx]
    simpa using h
  have hb := Complex.exp_bound' (x := (x : ℂ)) (n := n) hc
  have h2 : Complex.exp (x : ℂ) - ∑ m ∈ range n, (x : ℂ) ^ m / (m.factorial : ℂ)
      = ((Real.exp x - ∑ m ∈ range n, x ^ m / (m.factorial : ℝ) : ℝ) : ℂ) := by
    push_cast; rfl
  rw [h2, Complex.norm_real, Real.norm_eq_abs, Complex.norm_real, Real.norm_eq_abs, abs_of_nonneg hx] at hb
  exact le_trans (le_abs_self _) hb

def T (x : Rat) (j : Nat) : Rat := x ^ j / (j.factorial : Rat)
def S (x : Rat) (j : Nat) : Rat := ∑ m ∈ range j, x ^ m / (m.factorial : Rat)

theorem T_nonneg {x : Rat} (hx : 0 ≤ x) (j : Nat) : 0 ≤ T x j := by
  unfold T; positivity

theorem ratAbs_of_nonneg {q : Rat} (h : 0 ≤ q) : ratAbs q = q := by
  unfold ratAbs; split
  · linarith
  · rfl

/-- one round, in terms of the series -/
theorem round_unfold (b j : Nat) (cmp x : Rat) (hx : 0 ≤ x) :
    taylorAux (b + 1) cmp x (T x j) (S x j) (j : Rat) =
      if cmp > S x (j + 1) + T x (j + 1) * 3 then false
      else if cmp < S x (j + 1) - T x (j + 1) * 3 then true
      else taylorAux b cmp x (T x (j + 1)) (S x (j + 1)) ((j + 1 : Nat) : Rat) := by
  have hterm : T x j * x / ((j : Rat) + 1) = T x (j + 1) := by
    unfold T
    rw [Nat.factorial_succ]; push_cast
    have : (j.factorial : Rat) ≠ 0 := by exact_mod_cast Nat.factorial_ne_zero j
    have : ((j : Rat) + 1) ≠ 0 := by positivity
    field_simp
    ring
  have hsum : S x j + T x j = S x (j + 1) := by
    unfold S T; rw [Finset.sum_range_succ]
  have hd : (j : Rat) + 1 = ((j + 1 : Nat) : Rat) := by push_cast; rfl
  simp only [taylorAux]
  rw [hterm, hsum, ratAbs_of_nonneg (T_nonneg hx _), hd]

theorem cast_S (x : Rat) (j : Nat) : ((S x j : Rat) : ℝ) = ∑ m ∈ range j, (x : ℝ) ^ m / (m.factorial : ℝ) := by
  unfold S; push_cast; rfl
theorem cast_T (x : Rat) (j : Nat) : ((T x j : Rat) : ℝ) = (x : ℝ) ^ j / (j.factorial : ℝ) := by
  unfold T; push_cast; rfl

theorem exp_le_S_add (x : Rat) (hx : 0 ≤ x) (hx2 : x ≤ 3 / 2) (j : Nat) (hj : 1 ≤ j) :
    Real.exp (x : ℝ) ≤ ((S x (j + 1) : Rat) : ℝ) + ((T x (j + 1) : Rat) : ℝ) * 2 := by
  have hxr : (0 : ℝ) ≤ (x : ℝ) := by exact_mod_cast hx
  have hx2r : (x : ℝ) ≤ 3 / 2 := by
    have := (Rat.cast_le (K := ℝ)).mpr hx2
    push_cast at this
    exact this
  have hcond : (x : ℝ) / ((j + 1 + 1 : ℕ) : ℝ) ≤ 1 / 2 := by
    rw [div_le_iff₀ (by positivity)]
    have : (3 : ℝ) ≤ ((j + 1 + 1 : ℕ) : ℝ) := by
      have : (3 : ℕ) ≤ j + 1 + 1 := by omega
      exact_mod_cast this
    linarith
  have := real_exp_tail hxr (n := j + 1) hcond
  rw [cast_S, cast_T]; linarith

/-- on the regime `0 ≤ x ≤ 3/2` a `false` answer is correct up to the last round's band -/
theorem taylorAux_false_correct (b : Nat) : ∀ (j : Nat) (cmp x : Rat), 0 ≤ x → x ≤ 3 / 2 → 1 ≤ j →
    taylorAux (b + 1) cmp x (T x j) (S x j) (j : Rat) = false →
    Real.exp (x : ℝ) ≤ (cmp : ℝ) + 5 * ((T x (j + b + 1) : Rat) : ℝ) := by
  induction b with
  | zero =>
    intro j cmp x hx hx2 hj h
    rw [round_unfold 0 j cmp x hx] at h
    have hT : (0 : ℝ) ≤ ((T x (j + 1) : Rat) : ℝ) := by exact_mod_cast T_nonneg hx (j + 1)
    have hexp := exp_le_S_add x hx hx2 j hj
    split at h
    · rename_i h1
      have : ((S x (j + 1) + T x (j + 1) * 3 : Rat) : ℝ) < (cmp : ℝ) := by exact_mod_cast h1
      push_cast at this
      simp only [Nat.add_zero]
      linarith
    · split at h
      · simp at h
      · rename_i h1 h2
        have h2' : (S x (j + 1) - T x (j + 1) * 3 : Rat) ≤ cmp := not_lt.mp h2
        have : ((S x (j + 1) - T x (j + 1) * 3 : Rat) : ℝ) ≤ (cmp : ℝ) := by exact_mod_cast h2'
        push_cast at this
        simp only [Nat.add_zero]
        linarith
  | succ b ih =>
    intro j cmp x hx hx2 hj h
    rw [round_unfold (b + 1) j cmp x hx] at h
    have hT : (0 : ℝ) ≤ ((T x (j + 1) : Rat) : ℝ) := by exact_mod_cast T_nonneg hx (j + 1)
    have hT2 : (0 : ℝ) ≤ ((T x (j + (b + 1) + 1) : Rat) : ℝ) := by exact_mod_cast T_nonneg hx _
    have hexp := exp_le_S_add x hx hx2 j hj
    split at h
    · rename_i h1
      have : ((S x (j + 1) + T x (j + 1) * 3 : Rat) : ℝ) < (cmp : ℝ) := by exact_mod_cast h1
      push_cast at this
      linarith
    · split at h
      · simp at h
      · have := ih (j + 1) cmp x hx hx2 (by omega) h
        have he : j + 1 + b + 1 = j + (b + 1) + 1 := by omega
        rw [he] at this
        exact this

#print axioms taylor_true_correct
#print axioms taylorAux_mono_cmp
#print axioms taylorAux_false_correct
end Lottery
