/-! Certification core of the aggregator: open messages, certificates, the five runtime states. -/
namespace Agg

structure OM where
  entity : Nat
  epoch : Nat
  certified : Bool
  expired : Bool
  expiresAt : Option Nat
deriving Repr, DecidableEq

structure CertRec where
  id : Nat
  entity : Option Nat      -- `none`: genesis
  epoch : Nat
  parent : Option Nat      -- id of the parent certificate
deriving Repr, DecidableEq

inductive Rt where
  | idle (last : Option Nat)
  | blocked (since : Nat)
  | ready (ep : Nat)
  | signing (ep : Nat) (entity : Nat)
deriving Repr, DecidableEq

structure St where
  rt : Rt
  oms : List OM
  certs : List CertRec          -- insertion order
  sigs : List (Nat × Nat)       -- (entity, party) rows
  cleaned : Nat                 -- open messages below this epoch have been deleted (ghost)
  seen : Nat                    -- highest epoch seen by a tick (ghost)
deriving Repr

/-- what a tick sees -/
structure Tp where
  epoch : Nat
  now : Nat
  avail : List Nat              -- entities derived from the time point, in discriminant order

/-- configuration / environment -/
structure Env where
  entityEpoch : Nat → Nat                 -- epoch at which an entity is signed
  quorum : Nat → List Nat → Bool          -- entity, parties that signed
  timeout : Nat → Option Nat              -- entity ↦ duration

def findOm (e : Nat) : List OM → Option OM
  | [] => none
  | o :: r => if o.entity = e then some o else findOm e r

def updOm (e : Nat) (f : OM → OM) : List OM → List OM
  | [] => []
  | o :: r => if o.entity = e then f o :: r else o :: updOm e f r

def expireFn (now : Nat) (o : OM) : OM :=
  match o.expiresAt with
  | some t => if t < now then { o with expired := true } else o
  | none => o

def markExpired (now e : Nat) (oms : List OM) : List OM := updOm e (expireFn now) oms

def certById (id : Nat) : List CertRec → Option CertRec
  | [] => none
  | c :: r => if c.id = id then some c else certById id r

def isMaster (certs : List CertRec) (c : CertRec) : Bool :=
  match c.parent with
  | none => true
  | some p => match certById p certs with
    | some pc => pc.epoch ≠ c.epoch
    | none => true

/-- `MasterCertificateQuery::for_epoch`: latest inserted first-of-epoch certificate in {e-1, e} -/
def master (certs : List CertRec) (e : Nat) : Option CertRec :=
  (certs.filter (fun c => (c.epoch = e || c.epoch + 1 = e) && isMaster certs c)).getLast?

def absDiff (a b : Nat) : Nat := if a ≤ b then b - a else a - b

/-- scan of `get_current_non_certified_open_message` -/
def scan (E : Env) (tp : Tp) : List Nat → List OM → List OM × Option Nat
  | [], oms => (oms, none)
  | e :: r, oms =>
    let oms1 := markExpired tp.now e oms
    match findOm e oms1 with
    | none =>
      let om : OM := { entity := e, epoch := E.entityEpoch e, certified := false, expired := false,
                        expiresAt := (E.timeout e).map (· + tp.now) }
      (oms1 ++ [om], some e)
    | some o => if !o.certified && !o.expired then (oms1, some e) else scan E tp r oms1

def createCertificate (E : Env) (s : St) (e : Nat) : St :=
  match findOm e s.oms with
  | none => s
  | some o =>
    if o.certified || o.expired then s
    else match master s.certs o.epoch with
      | none => s
      | some m =>
        if E.quorum e ((s.sigs.filter (·.1 = e)).map (·.2)) then
          { s with certs := s.certs ++ [{ id := s.certs.length, entity := some e, epoch := o.epoch, parent := some m.id }],
                   oms := updOm e (fun o => { o with certified := true }) s.oms,
                   rt := match s.rt with | .signing ep _ => .ready ep | r => r }
        else s

def tick (E : Env) (s : St) (tp : Tp) : St :=
  match s.rt with
  | .idle last =>
    let s1 : St := if last.isNone || last.any (· < tp.epoch) then
        { s with oms := s.oms.filter (fun o => tp.epoch ≤ o.epoch),
                 sigs := s.sigs,
                 cleaned := max s.cleaned tp.epoch }
      else s
    match s1.certs.getLast? with
    | none => { s1 with rt := .blocked tp.epoch }
    | some latest =>
      if absDiff tp.epoch latest.epoch > 1 then { s1 with rt := .blocked tp.epoch }
      else match s1.certs.filter (·.entity.isNone) |>.getLast? with
        | none => { s1 with rt := .blocked tp.epoch }
        | some g => if g.epoch = tp.epoch then { s1 with rt := .blocked tp.epoch } else { s1 with rt := .ready tp.epoch }
  | .blocked since => if since < tp.epoch then { s with rt := .idle (some since) } else s
  | .ready ep =>
    if ep < tp.epoch then { s with rt := .idle (some ep) }
    else
      let (oms', r) := scan E tp tp.avail s.oms
      match r with
      | some e => { s with oms := oms', rt := .signing tp.epoch e }
      | none => { s with oms := oms', rt := .ready tp.epoch }
  | .signing ep e =>
    let oms1 := markExpired tp.now e s.oms
    let s1 := { s with oms := oms1 }
    let outdated := (match findOm e oms1 with | some o => o.expired | none => false) || !(tp.avail.contains e)
    if ep < tp.epoch then { s1 with rt := .idle (some ep) }
    else if outdated then { s1 with rt := .ready ep }
    else createCertificate E s1 e

inductive Event where
  | tick (tp : Tp)
  | signature (entity party : Nat)
  | restart

def registerSig (s : St) (e p : Nat) : St :=
  match findOm e s.oms with
  | none => s
  | some o => if o.certified || o.expired then s
    else { s with sigs := (s.sigs.filter (fun r => !(r.1 = e && r.2 = p))) ++ [(e, p)] }

def step (E : Env) (s : St) : Event → St
  | .tick tp => { tick E s tp with seen := tp.epoch }
  | .signature e p => registerSig s e p
  | .restart => { s with rt := .idle none }

end Agg
