/-!
Certification core of the aggregator (C14, C15, C16): runtime states, epoch initialisation, open
messages, single signatures (direct and buffered), certificates, signed entities.

Transliterated from `mithril-aggregator`:
* `runtime/state_machine.rs` (`cycle_idle/blocked/ready/signing`, `transition_from_idle`),
* `runtime/runner.rs` (`get_current_non_certified_open_message`, `is_open_message_outdated`),
* `services/certifier/certifier_service.rs` (`register_single_signature`, `create_certificate`,
  `mark_open_message_if_expired`, `inform_epoch`, `verify_certificate_chain`'s gap test),
* `services/certifier/buffered_certifier.rs` (buffering on `NotFound`, hand-over at open-message creation),
* `services/epoch_service.rs` (`inform_epoch`, `precompute_epoch_data`: signer sets of key `e-1` / `e`),
* `services/signer_registration/leader.rs` (`register_signer`), the round opener,
* `database/query/certificate/get_master_certificate.rs`, the unique indexes of `migration.rs`.

Results of cryptographic primitives are inputs: for a signature, the message it signs (`msg`), the
epochs whose signer set verifies it (`ok`) and the lottery indices it carries (`idx`); the protocol
message of a new open message (`Tp.newmsg`). sqlite tables are lists in ROWID order.
-/
namespace Agg

structure OM where
  entity : Nat
  epoch : Nat
  msg : Nat
  certified : Bool
  expired : Bool
  expiresAt : Option Nat
deriving Repr, DecidableEq

structure CertRec where
  id : Nat
  entity : Option Nat      -- `none`: genesis
  epoch : Nat
  parent : Option Nat      -- id of the parent certificate
  avk : Nat                -- epoch whose `current` signer set gave the aggregate key (ghost)
  signers : List Nat       -- `metadata.signers`
deriving Repr, DecidableEq

/-- a row of `single_signature`: `party` is the label it is stored under, `sigma` identifies the
signature value; `signer`, `msg` and `vEpoch` are ghost (whose key produced it, what it was
verified for / under) -/
structure SigRow where
  entity : Nat
  party : Nat
  sigma : Nat
  idx : List Nat
  signer : Nat
  msg : Nat
  vEpoch : Nat
deriving Repr, DecidableEq

/-- a submitted signature: the label (`party_id`) it is sent under and the primitive verdicts:
`signer` = the party whose registered key sits at the signature's `signer_index` (distinct parties
register distinct keys), `sigma` = identity of the signature value, `msg` = the message it signs,
`ok` = the epochs whose signer set verifies it for `msg`, `idx` = the lottery indices it carries -/
structure Sig where
  party : Nat
  signer : Nat
  sigma : Nat
  msg : Nat
  ok : List Nat
  idx : List Nat
  auth : Bool
deriving Repr, DecidableEq

/-- a row of `buffered_single_signature` -/
structure BufSig where
  disc : Nat
  sig : Sig
deriving Repr, DecidableEq

inductive Rt where
  | idle (last : Option Nat)
  | blocked (since : Nat) (why : Nat)     -- why: 0 no genesis, 1 genesis epoch, 2 epoch gap
  | ready (ep : Nat)
  | signing (ep : Nat) (entity : Nat)
deriving Repr, DecidableEq

structure St where
  rt : Rt
  oms : List OM
  certs : List CertRec          -- insertion order
  sigs : List SigRow
  cleaned : Nat                 -- open messages below this epoch have been deleted (ghost)
  seen : Nat                    -- highest epoch seen by a tick (ghost)
  buf : List BufSig
  ses : List (Nat × Nat)        -- signed_entity rows: (entity, certificate id)
  regs : List (Nat × Nat)       -- signer registrations: (epoch key, party)
  es : Option Nat               -- epoch service: epoch whose data is computed
  round : Option Nat            -- open registration round (epoch key)
deriving Repr

/-- what a tick sees -/
structure Tp where
  epoch : Nat
  now : Nat
  avail : List Nat              -- entities derived from the time point, in discriminant order
  newmsg : Nat                  -- protocol message of the open message this tick creates, if it creates one

/-- configuration / environment -/
structure Env where
  entityEpoch : Nat → Nat                 -- epoch at which an entity is signed
  entityDisc : Nat → Nat                  -- discriminant of an entity
  quorum : Nat → List SigRow → Bool       -- entity, its stored signatures
  timeout : Nat → Option Nat              -- entity ↦ duration

def findOm (e : Nat) : List OM → Option OM
  | [] => none
  | o :: r => if o.entity = e then some o else findOm e r

def updOm (e : Nat) (f : OM → OM) : List OM → List OM
  | [] => []
  | o :: r => if o.entity = e then f o :: r else o :: updOm e f r

def expireFn (now : Nat) (o : OM) : OM :=
  match o.expiresAt with
  | some t => if t < now then { o with expired := true } else o
  | none => o

def markExpired (now e : Nat) (oms : List OM) : List OM := updOm e (expireFn now) oms

def certById (id : Nat) : List CertRec → Option CertRec
  | [] => none
  | c :: r => if c.id = id then some c else certById id r

def isMaster (certs : List CertRec) (c : CertRec) : Bool :=
  match c.parent with
  | none => true
  | some p => match certById p certs with
    | some pc => pc.epoch ≠ c.epoch
    | none => false

/-- `MasterCertificateQuery::for_epoch`: latest inserted first-of-epoch certificate in {e-1, e} -/
def master (certs : List CertRec) (e : Nat) : Option CertRec :=
  (certs.filter (fun c => (c.epoch = e || c.epoch + 1 = e) && isMaster certs c)).getLast?

def absDiff (a b : Nat) : Nat := if a ≤ b then b - a else a - b

def signersOf (regs : List (Nat × Nat)) (key : Nat) : List Nat := (regs.filter (·.1 = key)).map (·.2)

def genesisEpoch (certs : List CertRec) : Option Nat := ((certs.filter (·.entity.isNone)).getLast?).map (·.epoch)

/-- scan of `get_current_non_certified_open_message` -/
def scan (E : Env) (tp : Tp) : List Nat → List OM → List OM × Option Nat
  | [], oms => (oms, none)
  | e :: r, oms =>
    let oms1 := markExpired tp.now e oms
    match findOm e oms1 with
    | none =>
      let om : OM := { entity := e, epoch := E.entityEpoch e, msg := tp.newmsg, certified := false, expired := false,
                        expiresAt := (E.timeout e).map (· + tp.now) }
      (oms1 ++ [om], some e)
    | some o => if !o.certified && !o.expired then (oms1, some e) else scan E tp r oms1

/-! ### single signatures -/

inductive SigClass where
  | registered | buffered | notFound | certified | expired | invalid | storeErr
deriving Repr, DecidableEq

/-- `MultiSigner::verify_single_signature` with the epoch service's current signer set, before the
repair of C16: the key is looked up by the slot inside the signature, the label is never consulted -/
def sigValidUnbound (s : St) (o : OM) (g : Sig) : Bool :=
  match s.es with
  | none => false
  | some ep => g.msg = o.msg && g.ok.contains ep

/-- the same after the repair: the key at the slot must be the key registered by the label -/
def sigValid (s : St) (o : OM) (g : Sig) : Bool :=
  match s.es with
  | none => false
  | some ep => g.msg = o.msg && g.ok.contains ep && g.party = g.signer

/-- decision of `BufferedCertifierService::register_single_signature` over `MithrilCertifierService` -/
def sigClass (s : St) (e : Nat) (g : Sig) : SigClass :=
  match findOm e s.oms with
  | none => if g.auth then .buffered else .notFound
  | some o =>
    if o.certified then .certified
    else if o.expired then .expired
    else if !sigValid s o g then .invalid
    else if !(signersOf s.regs (o.epoch - 1)).contains g.party then .storeErr   -- foreign key on signer_registration
    else .registered

def storeSig (s : St) (e : Nat) (g : Sig) : St :=
  { s with sigs := (s.sigs.filter (fun r => !(r.entity = e && r.party = g.party))) ++
      [{ entity := e, party := g.party, sigma := g.sigma, idx := g.idx, signer := g.signer, msg := g.msg,
         vEpoch := s.es.getD 0 }] }

def bufferSig (E : Env) (s : St) (e : Nat) (g : Sig) : St :=
  { s with buf := (s.buf.filter (fun b => !(b.disc = E.entityDisc e && b.sig.party = g.party))) ++
      [{ disc := E.entityDisc e, sig := g }] }

def registerSig (E : Env) (s : St) (e : Nat) (g : Sig) : St :=
  match sigClass s e g with
  | .registered => storeSig s e g
  | .buffered => bufferSig E s e g
  | _ => s

/-- `try_register_buffered_signatures_to_current_open_message`: newest buffered row first; invalid ones
are skipped and stay; any other failure aborts before anything is removed from the buffer -/
def handOverGo (s : St) (e : Nat) : List BufSig → List Nat → St × Option (List Nat)
  | [], removed => (s, some removed)
  | b :: rest, removed =>
    match sigClass s e b.sig with
    | .registered => handOverGo (storeSig s e b.sig) e rest (b.sig.party :: removed)
    | .invalid => handOverGo s e rest removed
    | _ => (s, none)

def handOver (E : Env) (s : St) (e : Nat) : St × Bool :=
  let d := E.entityDisc e
  match handOverGo s e (s.buf.filter (·.disc = d)).reverse [] with
  | (s1, some removed) => ({ s1 with buf := s1.buf.filter (fun b => !(b.disc = d && removed.contains b.sig.party)) }, false)
  | (s1, none) => (s1, true)

/-! ### certificate creation -/

/-- `metadata.signers`: the current signers whose party id occurs among the stored signatures -/
def metadataSigners (s : St) (e : Nat) : List Nat :=
  (signersOf s.regs (s.es.getD 0 - 1)).filter (fun p => (s.sigs.filter (·.entity = e)).any (·.party = p))

/-- the new certificate `create_certificate` would insert, if every test passes -/
def newCert (E : Env) (s : St) (e : Nat) : Option CertRec :=
  match findOm e s.oms with
  | none => none
  | some o =>
    if o.certified || o.expired then none
    else match master s.certs o.epoch with
      | none => none
      | some m =>
        if E.quorum e (s.sigs.filter (·.entity = e)) then
          some { id := s.certs.length, entity := some e, epoch := o.epoch, parent := some m.id, avk := s.es.getD 0,
                 signers := metadataSigners s e }
        else none

/-- SIGNING → READY keeps the time point of the signing state -/
def readyOf : Rt → Rt
  | .signing ep _ => .ready ep
  | r => r

def addSignedEntity (ses : List (Nat × Nat)) (e id : Nat) : List (Nat × Nat) :=
  if ses.any (·.1 = e) then ses else ses ++ [(e, id)]     -- unique index (type, beacon)

def createCertificate (E : Env) (s : St) (e : Nat) : St :=
  match findOm e s.oms with
  | none => s
  | some o =>
    if o.certified || o.expired then s
    else match master s.certs o.epoch with
      | none => s
      | some m =>
        if E.quorum e (s.sigs.filter (·.entity = e)) then
          { s with certs := s.certs ++ [{ id := s.certs.length, entity := some e, epoch := o.epoch, parent := some m.id,
                                             avk := s.es.getD 0, signers := metadataSigners s e }],
                   oms := updOm e (fun o => { o with certified := true }) s.oms,
                   ses := addSignedEntity s.ses e s.certs.length,
                   rt := readyOf s.rt }
        else s

/-! ### epoch initialisation -/

def preNeeded (s : St) (tp : Tp) : Bool := (genesisEpoch s.certs).any (· < tp.epoch)
def signersOk (s : St) (tp : Tp) : Bool :=
  !(signersOf s.regs (tp.epoch - 1)).isEmpty && !(signersOf s.regs tp.epoch).isEmpty

/-- `execute_epoch_initialization_tasks` followed by `precompute_epoch_data` -/
def epochInit (s : St) (tp : Tp) : St :=
  let oms' := s.oms.filter (fun o => tp.epoch ≤ o.epoch)
  { s with oms := oms',
           sigs := s.sigs.filter (fun r => (findOm r.entity oms').isSome),     -- on delete cascade
           cleaned := max s.cleaned tp.epoch,
           round := some (tp.epoch + 1),
           es := if preNeeded s tp && signersOk s tp then some tp.epoch else none }

/-- `cycle_idle` (leader): epoch initialisation when the epoch is new, then `transition_from_idle` -/
def idleStep (s : St) (tp : Tp) (last : Option Nat) : St :=
  let run := last.isNone || last.any (· < tp.epoch)
  let s1 : St := if run then epochInit s tp else s
  if run && preNeeded s tp && !signersOk s tp then s1        -- precompute fails: error, state kept
  else match s1.certs.getLast? with
  | none => { s1 with rt := .blocked tp.epoch 0 }
  | some latest =>
    if absDiff tp.epoch latest.epoch > 1 then { s1 with rt := .blocked tp.epoch 2 }
    else match genesisEpoch s1.certs with
      | none => { s1 with rt := .blocked tp.epoch 0 }
      | some g => if g = tp.epoch then { s1 with rt := .blocked tp.epoch 1 } else { s1 with rt := .ready tp.epoch }

/-- `cycle_ready` when the epoch has not changed -/
def readyStep (E : Env) (s : St) (tp : Tp) : St :=
  match scan E tp tp.avail s.oms with
  | (oms', some e) =>
    let s1 : St := { s with oms := oms' }
    if oms'.length = s.oms.length then { s1 with rt := .signing tp.epoch e }
    else match handOver E s1 e with                                  -- a new open message: hand-over
      | (s2, false) => { s2 with rt := .signing tp.epoch e }
      | (s2, true) => s2      -- the store panics on the foreign key: the tick dies, runtime state kept
  | (oms', none) => { s with oms := oms', rt := .ready tp.epoch }

/-- `is_open_message_outdated`: expired, or the time point now yields another entity for the discriminant -/
def isOutdated (tp : Tp) (e : Nat) (oms1 : List OM) : Bool :=
  (match findOm e oms1 with | some o => o.expired | none => false) || !(tp.avail.contains e)

/-- `cycle_signing` -/
def signingStep (E : Env) (s : St) (tp : Tp) (ep e : Nat) : St :=
  let oms1 := markExpired tp.now e s.oms
  let s1 := { s with oms := oms1 }
  let outdated := isOutdated tp e oms1
  if ep < tp.epoch then { s1 with rt := .idle (some ep) }
  else if outdated then { s1 with rt := .ready ep }
  else createCertificate E s1 e

def tick (E : Env) (s : St) (tp : Tp) : St :=
  match s.rt with
  | .idle last => idleStep s tp last
  | .blocked since _ => if since < tp.epoch then { s with rt := .idle (some since) } else s
  | .ready ep => if ep < tp.epoch then { s with rt := .idle (some ep) } else readyStep E s tp
  | .signing ep e => signingStep E s tp ep e

/-- how the tick ends: 0 = ok, 1 = error (state kept), 2 = panic -/
def tickOut (E : Env) (s : St) (tp : Tp) : Nat :=
  match s.rt with
  | .idle last => if (last.isNone || last.any (· < tp.epoch)) && preNeeded s tp && !signersOk s tp then 1 else 0
  | .ready ep =>
    if ep < tp.epoch then 0
    else
      let (oms', r) := scan E tp tp.avail s.oms
      match r with
      | some e => if oms'.length = s.oms.length then 0 else if (handOver E { s with oms := oms' } e).2 then 2 else 0
      | none => 0
  | .signing ep e =>
    let oms1 := markExpired tp.now e s.oms
    let outdated := isOutdated tp e oms1
    if !(ep < tp.epoch) && !outdated && (newCert E { s with oms := oms1 } e).isNone then 1 else 0
  | _ => 0

/-! ### signer registration -/

inductive RegClass where
  | ok | existing | closed | epoch
deriving Repr, DecidableEq

def regClass (s : St) (key party : Nat) : RegClass :=
  match s.round with
  | none => .closed
  | some k => if k ≠ key then .epoch
    else if (signersOf s.regs key).contains party then .existing else .ok

def register (s : St) (key party : Nat) : St :=
  match regClass s key party with
  | .ok => { s with regs := s.regs ++ [(key, party)] }
  | _ => s

/-! ### crash points (C15)

The hook `verif_crash_point(name)` makes the running operation stop with an error at a named point
of `create_certificate`, of the artifact task, or of the buffered hand-over. `crashTick` is the tick
cut at that point; the harness then drops the process state (`restart`). -/

inductive CrashPoint where
  | certBeforeInsert | certAfterInsert | certAfterUpdate
  | artBeforeCompute | artAfterCompute | artAfterInsert
  | hoBefore | hoBeforeRemoval | hoAfterRemoval
deriving Repr, DecidableEq

/-- `create_certificate` + artifact task cut at `p` (only called when `newCert` is `some c`) -/
def createCertificateCut (s : St) (e : Nat) (c : CertRec) (p : CrashPoint) : St :=
  let certified := updOm e (fun o => { o with certified := true }) s.oms
  let ready : Rt := readyOf s.rt
  match p with
  | .certBeforeInsert => s
  | .certAfterInsert => { s with certs := s.certs ++ [c] }
  | .certAfterUpdate => { s with certs := s.certs ++ [c], oms := certified }
  | .artBeforeCompute | .artAfterCompute => { s with certs := s.certs ++ [c], oms := certified, rt := ready }
  | _ => { s with certs := s.certs ++ [c], oms := certified, ses := addSignedEntity s.ses e c.id, rt := ready }

def signingStepCut (E : Env) (s : St) (tp : Tp) (ep e : Nat) (p : CrashPoint) : St :=
  let oms1 := markExpired tp.now e s.oms
  let s1 := { s with oms := oms1 }
  let outdated := isOutdated tp e oms1
  if ep < tp.epoch then { s1 with rt := .idle (some ep) }
  else if outdated then { s1 with rt := .ready ep }
  else match newCert E s1 e with
    | some c => createCertificateCut s1 e c p
    | none => s1

/-- hand-over cut before the buffered rows are removed -/
def handOverNoRemoval (E : Env) (s : St) (e : Nat) : St × Bool :=
  match handOverGo s e (s.buf.filter (·.disc = E.entityDisc e)).reverse [] with
  | (s1, some _) => (s1, false)
  | (s1, none) => (s1, true)

def readyStepCut (E : Env) (s : St) (tp : Tp) (p : CrashPoint) : St :=
  match scan E tp tp.avail s.oms with
  | (oms', some e) =>
    let s1 : St := { s with oms := oms' }
    if oms'.length = s.oms.length then { s1 with rt := .signing tp.epoch e }
    else match p with
      | .hoBefore => s1                                           -- open message stored, no hand-over, tick fails
      | .hoBeforeRemoval => match handOverNoRemoval E s1 e with
        | (s2, false) => { s2 with rt := .signing tp.epoch e }   -- the hand-over's error is only logged
        | (s2, true) => s2
      | _ => match handOver E s1 e with
        | (s2, false) => { s2 with rt := .signing tp.epoch e }
        | (s2, true) => s2
  | (oms', none) => { s with oms := oms', rt := .ready tp.epoch }

def crashTick (E : Env) (s : St) (tp : Tp) (p : CrashPoint) : St :=
  match s.rt with
  | .idle last => idleStep s tp last
  | .blocked since _ => if since < tp.epoch then { s with rt := .idle (some since) } else s
  | .ready ep => if ep < tp.epoch then { s with rt := .idle (some ep) } else readyStepCut E s tp p
  | .signing ep e => signingStepCut E s tp ep e p

/-- outcome of the cut tick: 0 ok, 1 error, 2 panic -/
def crashTickOut (E : Env) (s : St) (tp : Tp) (p : CrashPoint) : Nat :=
  match s.rt with
  | .ready ep =>
    if ep < tp.epoch then 0
    else match scan E tp tp.avail s.oms with
      | (oms', some e) =>
        if oms'.length = s.oms.length then 0
        else match p with
          | .hoBefore => 1
          | .hoBeforeRemoval => if (handOverNoRemoval E { s with oms := oms' } e).2 then 2 else 0
          | _ => if (handOver E { s with oms := oms' } e).2 then 2 else 0
      | _ => 0
  | .signing ep e =>
    let oms1 := markExpired tp.now e s.oms
    let outdated := isOutdated tp e oms1
    if ep < tp.epoch || outdated then 0
    else match newCert E { s with oms := oms1 } e with
      | none => 1
      | some _ => match p with
        | .certBeforeInsert | .certAfterInsert | .certAfterUpdate => 1
        | _ => 0
  | _ => tickOut E s tp

/-- does the armed point fire in this tick? -/
def crashFires (E : Env) (s : St) (tp : Tp) (p : CrashPoint) : Bool :=
  match s.rt with
  | .ready ep =>
    !(ep < tp.epoch) && (match scan E tp tp.avail s.oms with
      | (oms', some _) => oms'.length ≠ s.oms.length &&
          (p == .hoBefore || p == .hoBeforeRemoval || p == .hoAfterRemoval)
      | _ => false)
  | .signing ep e =>
    let oms1 := markExpired tp.now e s.oms
    let outdated := isOutdated tp e oms1
    !(ep < tp.epoch) && !outdated && (newCert E { s with oms := oms1 } e).isSome &&
      !(p == .hoBefore || p == .hoBeforeRemoval || p == .hoAfterRemoval)
  | _ => false

inductive Event where
  | tick (tp : Tp)
  | signature (entity : Nat) (g : Sig)
  | register (key party : Nat)
  | expire (entity : Nat)
  | restart
  | crash (tp : Tp) (p : CrashPoint)     -- a tick cut at an armed crash point, C15 (the process then restarts)

def step (E : Env) (s : St) : Event → St
  | .tick tp => { tick E s tp with seen := tp.epoch }
  | .signature e g => registerSig E s e g
  | .register key party => register s key party
  | .expire e => { s with oms := updOm e (fun o => { o with expiresAt := some 0 }) s.oms }
  | .restart => { s with rt := .idle none, es := none, round := none }
  | .crash tp p => { crashTick E s tp p with seen := tp.epoch }

/-- state right after the genesis certificate of epoch `g` has been stored, with `n` fixture signers
recorded under the keys `g-1` and `g` (`init_state_from_fixture_for_genesis`) -/
def init (n g : Nat) : St :=
  { rt := .idle none, oms := [], certs := [{ id := 0, entity := none, epoch := g, parent := none, avk := g, signers := [] }],
    sigs := [], cleaned := 0, seen := g, buf := [], ses := [],
    regs := (List.range n).map (fun p => (g - 1, p)) ++ (List.range n).map (fun p => (g, p)),
    es := none, round := none }

/-- quorum as the clerk decides it when no (key, index) pair is offered twice (C02): at least `k`
distinct lottery indices among the stored signatures -/
def quorumIdx (k : Nat) (rows : List SigRow) : Bool := k ≤ (rows.flatMap (·.idx)).eraseDups.length

end Agg
