import MithrilModel.StmBatch
namespace StmBatch

variable {H : Bytes → Bytes}

/-- two committed leaf lists of the same length with the same tree value are equal:
**distinct registrations give distinct aggregate keys** (C06), by induction over the height. -/
theorem sub_inj (hinj : ∀ x y, H x = H y → x = y) (hlen : ∀ x, (H x).length = 32)
    (L L' : List Bytes) (hL : ∀ l ∈ L, l.length = 104) (hL' : ∀ l ∈ L', l.length = 104)
    (hn : L.length = L'.length) (off : Nat) :
    ∀ (h p : Nat), sub H L (H [0]) off h p = sub H L' (H [0]) off h p →
      ∀ k, p * 2 ^ h + (2 ^ h - 1) - off ≤ k → k ≤ p * 2 ^ h + (2 ^ h - 1) + (2 ^ h - 1) - off →
        off ≤ p * 2 ^ h + (2 ^ h - 1) → L[k]? = L'[k]? := by
  intro h
  induction h with
  | zero =>
    intro p heq k hk1 hk2 hoff
    simp only [Nat.pow_zero, Nat.mul_one, Nat.sub_self, Nat.add_zero] at hk1 hk2 hoff
    have hk : k = p - off := by omega
    subst hk
    simp only [sub, leafVal] at heq
    cases ha : L[p - off]? with
    | some a =>
      cases hb : L'[p - off]? with
      | some b =>
        rw [ha, hb] at heq; simp only at heq
        rw [hinj _ _ heq]
      | none =>
        rw [ha, hb] at heq; simp only at heq
        have := hinj _ _ heq
        have h104 := hL a (List.mem_of_getElem? ha)
        rw [this] at h104; simp at h104
    | none =>
      cases hb : L'[p - off]? with
      | some b =>
        rw [ha, hb] at heq; simp only at heq
        have := hinj _ _ heq
        have h104 := hL' b (List.mem_of_getElem? hb)
        rw [← this] at h104; simp at h104
      | none => rfl
  | succ h ih =>
    intro p heq k hk1 hk2 hoff
    simp only [sub] at heq
    have hcat := hinj _ _ heq
    have hl : (sub H L (H [0]) off h (2 * p + 1)).length = (sub H L' (H [0]) off h (2 * p + 1)).length := by
      rw [sub_len hlen (hlen [0]), sub_len hlen (hlen [0])]
    obtain ⟨h1, h2⟩ := List.append_inj hcat hl
    have hpow : 2 ^ (h + 1) = 2 * 2 ^ h := by rw [Nat.pow_succ]; omega
    have hpos : 0 < 2 ^ h := Nat.pow_pos (by omega)
    -- leaf range of position p at height h+1 splits into the ranges of its two children
    by_cases hside : k ≤ (2 * p + 1) * 2 ^ h + (2 ^ h - 1) + (2 ^ h - 1) - off
    · by_cases hoffl : off ≤ (2 * p + 1) * 2 ^ h + (2 ^ h - 1)
      · refine ih (2 * p + 1) h1 k ?_ hside hoffl
        rw [hpow] at hk1
        have : (2 * p + 1) * 2 ^ h = p * (2 * 2 ^ h) + 2 ^ h := by
          rw [Nat.add_mul, Nat.one_mul, Nat.mul_comm 2 p, Nat.mul_assoc]
        omega
      · -- the whole left subtree lies left of the leaf level offset: impossible for k in range
        exfalso
        rw [hpow] at hoff hk1
        have : (2 * p + 1) * 2 ^ h = p * (2 * 2 ^ h) + 2 ^ h := by
          rw [Nat.add_mul, Nat.one_mul, Nat.mul_comm 2 p, Nat.mul_assoc]
        omega
    · have hoffr : off ≤ (2 * p + 2) * 2 ^ h + (2 ^ h - 1) := by
        rw [hpow] at hoff
        have : (2 * p + 2) * 2 ^ h = p * (2 * 2 ^ h) + 2 * 2 ^ h := by
          rw [Nat.add_mul, Nat.mul_comm 2 p, Nat.mul_assoc]
        omega
      refine ih (2 * p + 2) h2 k ?_ ?_ hoffr
      · have e1 : (2 * p + 1) * 2 ^ h = p * (2 * 2 ^ h) + 2 ^ h := by
          rw [Nat.add_mul, Nat.one_mul, Nat.mul_comm 2 p, Nat.mul_assoc]
        have e2 : (2 * p + 2) * 2 ^ h = p * (2 * 2 ^ h) + 2 * 2 ^ h := by
          rw [Nat.add_mul, Nat.mul_comm 2 p, Nat.mul_assoc]
        omega
      · rw [hpow] at hk2
        have e2 : (2 * p + 2) * 2 ^ h = p * (2 * 2 ^ h) + 2 * 2 ^ h := by
          rw [Nat.add_mul, Nat.mul_comm 2 p, Nat.mul_assoc]
        omega

end StmBatch

namespace StmBatch
variable {H : Bytes → Bytes}

/-- C06 (distinctness half): with `n ≤ 2^h` committed leaves on both sides, equal roots force equal
leaf lists, or (contrapositive of `hinj`) exhibit a hash collision. -/
theorem root_inj (hinj : ∀ x y, H x = H y → x = y) (hlen : ∀ x, (H x).length = 32)
    (L L' : List Bytes) (hL : ∀ l ∈ L, l.length = 104) (hL' : ∀ l ∈ L', l.length = 104)
    (hn : L.length = L'.length) (h : Nat) (hcap : L.length ≤ 2 ^ h)
    (heq : sub H L (H [0]) (2 ^ h - 1) h 0 = sub H L' (H [0]) (2 ^ h - 1) h 0) : L = L' := by
  apply List.ext_getElem? 
  intro k
  by_cases hk : k < 2 ^ h
  · exact sub_inj hinj hlen L L' hL hL' hn (2 ^ h - 1) h 0 heq k (by omega) (by omega) (by omega)
  · rw [List.getElem?_eq_none (by omega), List.getElem?_eq_none (by omega)]

end StmBatch
#print axioms StmBatch.root_inj
