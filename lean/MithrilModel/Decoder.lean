namespace Decoder

abbrev Bytes := List UInt8

inductive Outcome (α : Type) where
  | ok : α → Outcome α
  | err : Outcome α            -- an `Err(..)` returned to the caller
  | panic : String → Outcome α -- arithmetic overflow / capacity overflow / allocation failure
deriving Repr

def U64MAX : Nat := 2 ^ 64 - 1

/-- Rust `a + b` on `usize` with overflow checks on -/
def addU (a b : Nat) : Outcome Nat := if a + b ≤ U64MAX then .ok (a + b) else .panic "attempt to add with overflow"
/-- `a.checked_add(b)` mapped to an error -/
def addChecked (a b : Nat) : Outcome Nat := if a + b ≤ U64MAX then .ok (a + b) else .err

/-- `bytes.get(lo..hi)` -/
def slice? (b : Bytes) (lo hi : Nat) : Option Bytes :=
  if lo ≤ hi ∧ hi ≤ b.length then some ((b.drop lo).take (hi - lo)) else none

def beU64 (b : Bytes) : Nat := b.foldl (fun acc x => acc * 256 + x.toNat) 0

/-- result of the inner decoders, abstracted: they are total (separate obligations) -/
structure Inner where
  regParty : Bytes → Option Nat
  sig : Bytes → Option Nat

/-- `SingleSignatureWithRegisteredParty::from_bytes_legacy` as it is:
`8 + size_reg_party` and `sig_offset + 8 + size_sig` are plain additions -/
def decodeCurrent (I : Inner) (bytes : Bytes) : Outcome (Nat × Nat) :=
  match slice? bytes 0 8 with
  | none => .err
  | some b0 =>
    let sizeReg := beU64 b0
    match addU 8 sizeReg with
    | .panic s => .panic s
    | .err => .err
    | .ok endReg =>
      match slice? bytes 8 endReg with
      | none => .err
      | some rp =>
        match I.regParty rp with
        | none => .err
        | some reg =>
          -- sig_offset = 8 + size_reg_party (already computed without overflow)
          match addU endReg 8 with
          | .panic s => .panic s
          | .err => .err
          | .ok o8 =>
            match slice? bytes endReg o8 with
            | none => .err
            | some b1 =>
              let sizeSig := beU64 b1
              match addU o8 sizeSig with
              | .panic s => .panic s
              | .err => .err
              | .ok endSig =>
                match slice? bytes o8 endSig with
                | none => .err
                | some sb =>
                  match I.sig sb with
                  | none => .err
                  | some sg => .ok (sg, reg)

def Outcome.bind {α β} (x : Outcome α) (f : α → Outcome β) : Outcome β :=
  match x with
  | .ok a => f a
  | .err => .err
  | .panic s => .panic s

def ofOption {α} : Option α → Outcome α
  | some a => .ok a
  | none => .err

def isPanic {α} : Outcome α → Bool
  | .panic _ => true
  | _ => false

theorem isPanic_bind {α β} (x : Outcome α) (f : α → Outcome β)
    (hx : isPanic x = false) (hf : ∀ a, isPanic (f a) = false) : isPanic (x.bind f) = false := by
  cases x with
  | ok a => exact hf a
  | err => rfl
  | panic s => simp [isPanic] at hx

theorem isPanic_ofOption {α} (o : Option α) : isPanic (ofOption o) = false := by
  cases o <;> rfl

theorem addChecked_not_panic (a b : Nat) : isPanic (addChecked a b) = false := by
  unfold addChecked; split <;> rfl

/-- the same with checked additions (the planned repair), in bind style -/
def decodeFixed (I : Inner) (bytes : Bytes) : Outcome (Nat × Nat) :=
  (ofOption (slice? bytes 0 8)).bind fun b0 =>
  (addChecked 8 (beU64 b0)).bind fun endReg =>
  (ofOption (slice? bytes 8 endReg)).bind fun rp =>
  (ofOption (I.regParty rp)).bind fun reg =>
  (addChecked endReg 8).bind fun o8 =>
  (ofOption (slice? bytes endReg o8)).bind fun b1 =>
  (addChecked o8 (beU64 b1)).bind fun endSig =>
  (ofOption (slice? bytes o8 endSig)).bind fun sb =>
  (ofOption (I.sig sb)).bind fun sg =>
  .ok (sg, reg)

/-- **Totality of the repaired decoder**: no input makes it panic. -/
theorem decodeFixed_total (I : Inner) (bytes : Bytes) : isPanic (decodeFixed I bytes) = false := by
  unfold decodeFixed
  repeat (first
    | apply isPanic_bind
    | exact isPanic_ofOption _
    | exact addChecked_not_panic _ _
    | intro _
    | rfl)

/-- the code as it is panics on a length prefix of `2^64 - 1` -/
def evil : Bytes := List.replicate 8 0xFF ++ List.replicate 16 0

theorem decodeCurrent_panics (I : Inner) : isPanic (decodeCurrent I evil) = true := by
  simp [decodeCurrent, evil, slice?, beU64, addU, U64MAX, isPanic]

end Decoder
