/-! C13 layer 1: streamer + importer refine the naive application of chain-sync events -/
namespace Import

structure Block where
  hash : Nat
  number : Nat
  slot : Nat
deriving DecidableEq, Repr

inductive Ev where
  | fwd (b : Block)
  | back (s : Nat)
deriving Repr

/-! ## store (blocks only) -/

def conflicts (S : List Block) (b : Block) : Bool :=
  S.any (fun x => x.hash = b.hash || x.number = b.number || x.slot = b.slot)

def insertBlock (S : List Block) (b : Block) : List Block := if conflicts S b then S else S ++ [b]
def insertAll (S : List Block) (bs : List Block) : List Block := bs.foldl insertBlock S

def anchor (S : List Block) (slot : Nat) : Option Nat :=
  ((S.filter (fun b => b.slot ≤ slot)).map (·.number)).max?

def rollback (S : List Block) (slot : Nat) : List Block :=
  match anchor S slot with
  | none => S
  | some n => S.filter (fun b => b.number ≤ n)

/-! ## streamer -/

structure Cfg where
  fromSlot : Nat
  untilN : Nat
  maxPer : Nat

inductive Out where
  | forwards (bs : List Block)
  | backward (s : Nat)
deriving Repr

/-- `position(slot == s)` + `truncate(i + 1)` -/
def truncAt (s : Nat) : List Block → Option (List Block)
  | [] => none
  | b :: r => if b.slot = s then some [b] else (truncAt s r).map (b :: ·)

def flush (buf : List Block) : Option Out := if buf = [] then none else some (.forwards buf)

/-- one `poll_next`; reader replies are consumed from the script, `none` = nothing available.
`lp` is the streamer's `last_polled_point` (its slot): it is set by every forward at or below the
target and by every roll-back that is not skipped. After the repair of the class-1 defect only the
INITIAL roll-back of a scan (`lp = none`) to the start slot is skipped. -/
def poll (c : Cfg) : Option Nat → List Block → List (Option Ev) → Option Out × List (Option Ev) × Option Nat
  | lp, buf, [] => (flush buf, [], lp)
  | lp, buf, none :: rs => (flush buf, rs, lp)
  | lp, buf, some (.fwd b) :: rs =>
    if b.number > c.untilN then (flush buf, rs, lp)
    else if (buf ++ [b]).length ≥ c.maxPer ∨ b.number ≥ c.untilN then (some (.forwards (buf ++ [b])), rs, some b.slot)
    else poll c (some b.slot) (buf ++ [b]) rs
  | lp, buf, some (.back s) :: rs =>
    if s = c.fromSlot ∧ lp = none then poll c lp buf rs
    else match truncAt s buf with
      | some buf' => poll c (some s) buf' rs
      | none => (some (.backward s), rs, some s)

def applyOut (S : List Block) : Option Out → List Block
  | none => S
  | some (.forwards bs) => insertAll S bs
  | some (.backward s) => rollback S s

/-! ## abstract semantics -/

def applyEv (V : List Block) : Ev → List Block
  | .fwd b => V ++ [b]
  | .back s => V.filter (fun x => x.slot ≤ s)

def applyAll (V : List Block) : List (Option Ev) → List Block
  | [] => V
  | none :: rs => applyAll V rs
  | some e :: rs => applyAll (applyEv V e) rs

def Lt (a b : Block) : Prop := a.number < b.number ∧ a.slot < b.slot ∧ a.hash ≠ b.hash
def Sorted (V : List Block) : Prop := V.Pairwise Lt

/-- the streamer's `last_polled_point` after one reply -/
def lpNext (c : Cfg) (lp : Option Nat) : Ev → Option Nat
  | .fwd b => if b.number > c.untilN then lp else some b.slot
  | .back s => if s = c.fromSlot ∧ lp = none then lp else some s

def GoodEv (c : Cfg) (lp : Option Nat) (V : List Block) : Ev → Prop
  | .fwd b => ∀ x ∈ V, Lt x b
  | .back s => if s = c.fromSlot ∧ lp = none then ∀ x ∈ V, x.slot ≤ s else (∃ x ∈ V, x.slot = s) ∨ V = []

def Good (c : Cfg) : Option Nat → List Block → List (Option Ev) → Prop
  | _, _, [] => True
  | lp, V, none :: rs => Good c lp V rs
  | lp, V, some e :: rs => GoodEv c lp V e ∧ Good c (lpNext c lp e) (applyEv V e) rs

theorem applyAll_append (V : List Block) (a b : List (Option Ev)) :
    applyAll V (a ++ b) = applyAll (applyAll V a) b := by
  induction a generalizing V with
  | nil => rfl
  | cons x xs ih => cases x <;> simp [applyAll, ih]

/-! ## store lemmas on sorted chains -/

theorem conflicts_false (S : List Block) (b : Block) (h : ∀ x ∈ S, Lt x b) : conflicts S b = false := by
  simp only [conflicts, List.any_eq_false, Bool.or_eq_true, decide_eq_true_eq, not_or]
  intro x hx
  obtain ⟨h1, h2, h3⟩ := h x hx
  exact ⟨⟨h3, by omega⟩, by omega⟩

theorem insertAll_sorted (S bs : List Block) (h : Sorted (S ++ bs)) : insertAll S bs = S ++ bs := by
  induction bs generalizing S with
  | nil => simp [insertAll]
  | cons b r ih =>
    have hs : Sorted ((S ++ [b]) ++ r) := by simpa using h
    have hb : ∀ x ∈ S, Lt x b := by
      intro x hx
      have := List.pairwise_append.mp h
      exact this.2.2 x hx b (by simp)
    simp only [insertAll, List.foldl_cons, insertBlock, conflicts_false S b hb]
    have := ih (S ++ [b]) hs
    simpa [insertAll] using this

theorem sorted_mono {V : List Block} (h : Sorted V) : ∀ a ∈ V, ∀ b ∈ V, a.number ≤ b.number → a.slot ≤ b.slot := by
  induction V with
  | nil => simp
  | cons x r ih =>
    have hp := List.pairwise_cons.mp h
    intro a ha b hb hab
    simp only [List.mem_cons] at ha hb
    rcases ha with rfl | ha <;> rcases hb with rfl | hb
    · exact Nat.le_refl _
    · exact Nat.le_of_lt (hp.1 b hb).2.1
    · have := (hp.1 a ha).1; omega
    · exact ih hp.2 a ha b hb hab

theorem rollback_sorted (S : List Block) (s : Nat) (hS : Sorted S) (hex : ∃ x ∈ S, x.slot ≤ s) :
    rollback S s = S.filter (fun x => x.slot ≤ s) := by
  obtain ⟨x0, hx0, hx0s⟩ := hex
  unfold rollback anchor
  cases hm : ((S.filter (fun b => b.slot ≤ s)).map (·.number)).max? with
  | none =>
    rw [List.max?_eq_none_iff] at hm
    have : x0 ∈ S.filter (fun b => b.slot ≤ s) := by simp [hx0, hx0s]
    simp only [List.map_eq_nil_iff] at hm
    rw [hm] at this; simp at this
  | some n =>
    simp only
    obtain ⟨hmem, hle⟩ := List.max?_eq_some_iff.mp hm
    simp only [List.mem_map, List.mem_filter, decide_eq_true_eq] at hmem
    obtain ⟨a, ⟨haS, has⟩, han⟩ := hmem
    apply List.filter_congr
    intro b hb
    simp only [decide_eq_decide]
    constructor
    · intro hbn
      have := sorted_mono hS b hb a haS (by omega)
      omega
    · intro hbs
      exact hle b.number (by simp only [List.mem_map, List.mem_filter, decide_eq_true_eq]; exact ⟨b, ⟨hb, hbs⟩, rfl⟩)

/-! ## buffer truncation -/

theorem truncAt_none (s : Nat) (buf : List Block) (h : truncAt s buf = none) : ∀ x ∈ buf, x.slot ≠ s := by
  induction buf with
  | nil => simp
  | cons b r ih =>
    simp only [truncAt] at h
    split at h
    · simp at h
    · rename_i hb
      simp only [Option.map_eq_none_iff] at h
      intro x hx
      simp only [List.mem_cons] at hx
      rcases hx with rfl | hx
      · exact hb
      · exact ih h x hx

theorem truncAt_some (s : Nat) (buf buf' : List Block) (hS : Sorted buf) (h : truncAt s buf = some buf') :
    buf' = buf.filter (fun x => x.slot ≤ s) ∧ ∃ x ∈ buf, x.slot = s := by
  induction buf generalizing buf' with
  | nil => simp [truncAt] at h
  | cons b r ih =>
    have hp := List.pairwise_cons.mp hS
    simp only [truncAt] at h
    split at h
    · rename_i hb
      simp only [Option.some.injEq] at h
      subst h
      refine ⟨?_, b, by simp, hb⟩
      have : r.filter (fun x => x.slot ≤ s) = [] := by
        simp only [List.filter_eq_nil_iff, decide_eq_true_eq]
        intro x hx; have := (hp.1 x hx).2.1; omega
      simp [List.filter_cons, hb, this]
    · rename_i hb
      cases hr : truncAt s r with
      | none => rw [hr] at h; simp at h
      | some r' =>
        rw [hr] at h
        simp only [Option.map_some, Option.some.injEq] at h
        subst h
        obtain ⟨e, x, hx, hxs⟩ := ih r' hp.2 hr
        refine ⟨?_, x, by simp [hx], hxs⟩
        have : b.slot ≤ s := by have := (hp.1 x hx).2.1; omega
        simp [List.filter_cons, this, e]

/-! ## the simulation invariant -/

def Inv (c : Cfg) (S buf V : List Block) : Prop :=
  Sorted V ∧ S ++ buf = V.filter (fun x => x.number ≤ c.untilN) ∧ (buf = [] ∨ ∀ b ∈ V, b.number ≤ c.untilN)

theorem sorted_filter {V : List Block} (p : Block → Bool) (h : Sorted V) : Sorted (V.filter p) :=
  List.Pairwise.sublist List.filter_sublist h

theorem inv_sorted_store {c : Cfg} {S buf V : List Block} (h : Inv c S buf V) : Sorted (S ++ buf) := by
  rw [h.2.1]; exact sorted_filter _ h.1

theorem inv_flush {c : Cfg} {S buf V : List Block} (h : Inv c S buf V) :
    Inv c (applyOut S (flush buf)) [] V := by
  unfold flush
  split
  · rename_i hb; subst hb; simpa [applyOut] using h
  · simp only [applyOut]
    rw [insertAll_sorted S buf (inv_sorted_store h)]
    exact ⟨h.1, by simpa using h.2.1, Or.inl rfl⟩

theorem sorted_snoc {V : List Block} {b : Block} (h : Sorted V) (hb : ∀ x ∈ V, Lt x b) : Sorted (V ++ [b]) := by
  unfold Sorted
  rw [List.pairwise_append]
  exact ⟨h, by simp, fun x hx y hy => by simp at hy; subst hy; exact hb x hx⟩

theorem inv_fwd_drop {c : Cfg} {S buf V : List Block} {b : Block} (h : Inv c S buf V)
    (hb : ∀ x ∈ V, Lt x b) (hU : b.number > c.untilN) :
    Inv c (applyOut S (flush buf)) [] (V ++ [b]) := by
  have h' := inv_flush h
  refine ⟨sorted_snoc h.1 hb, ?_, Or.inl rfl⟩
  have : ¬ b.number ≤ c.untilN := by omega
  rw [h'.2.1]; simp [List.filter_append, List.filter_cons, this]

theorem inv_fwd_keep {c : Cfg} {S buf V : List Block} {b : Block} (h : Inv c S buf V)
    (hb : ∀ x ∈ V, Lt x b) (hU : ¬ b.number > c.untilN) :
    Inv c S (buf ++ [b]) (V ++ [b]) := by
  refine ⟨sorted_snoc h.1 hb, ?_, Or.inr ?_⟩
  · have : b.number ≤ c.untilN := by omega
    rw [← List.append_assoc, h.2.1]; simp [List.filter_append, List.filter_cons, this]
  · intro x hx
    simp only [List.mem_append, List.mem_singleton] at hx
    rcases hx with hx | rfl
    · have := (hb x hx).1; omega
    · omega

theorem filter_comm (V : List Block) (p q : Block → Bool) :
    (V.filter p).filter q = (V.filter q).filter p := by
  simp only [List.filter_filter]; congr 1; funext x; exact Bool.and_comm _ _

theorem inv_back_trunc {c : Cfg} {S buf buf' V : List Block} {s : Nat} (h : Inv c S buf V)
    (ht : truncAt s buf = some buf') :
    Inv c S buf' (V.filter (fun x => x.slot ≤ s)) := by
  have hSB := inv_sorted_store h
  have hpa := List.pairwise_append.mp hSB
  obtain ⟨e, x, hx, hxs⟩ := truncAt_some s buf buf' hpa.2.1 ht
  have hne : buf ≠ [] := by intro h0; subst h0; simp at hx
  have hall : ∀ b ∈ V, b.number ≤ c.untilN := by
    rcases h.2.2 with h0 | h0
    · exact absurd h0 hne
    · exact h0
  refine ⟨sorted_filter _ h.1, ?_, Or.inr ?_⟩
  · rw [filter_comm, ← h.2.1, List.filter_append, ← e]
    congr 1
    symm
    rw [List.filter_eq_self]
    intro y hy
    have := (hpa.2.2 y hy x hx).2.1
    simp only [decide_eq_true_eq]; omega
  · intro b hb; exact hall b (List.mem_filter.mp hb).1

theorem inv_back_full {c : Cfg} {S buf V : List Block} {s : Nat} (h : Inv c S buf V)
    (ht : truncAt s buf = none) (hg : (∃ x ∈ V, x.slot = s) ∨ V = []) :
    Inv c (rollback S s) [] (V.filter (fun x => x.slot ≤ s)) := by
  have hSB := inv_sorted_store h
  have hpa := List.pairwise_append.mp hSB
  refine ⟨sorted_filter _ h.1, ?_, Or.inl rfl⟩
  rw [filter_comm, ← h.2.1, List.append_nil]
  rcases hg with ⟨x, hxV, hxs⟩ | hV
  · by_cases hxU : x.number ≤ c.untilN
    · -- the target is a stored block: exact roll-back, the buffer lies above it
      have hxSB : x ∈ S ++ buf := by rw [h.2.1]; simp [hxV, hxU]
      have hxS : x ∈ S := by
        rcases List.mem_append.mp hxSB with h1 | h1
        · exact h1
        · exact absurd hxs (truncAt_none s buf ht x h1)
      rw [rollback_sorted S s hpa.1 ⟨x, hxS, by omega⟩, List.filter_append]
      have : buf.filter (fun x => x.slot ≤ s) = [] := by
        simp only [List.filter_eq_nil_iff, decide_eq_true_eq]
        intro y hy; have := (hpa.2.2 x hxS y hy).2.1; omega
      simp [this]
    · -- the target was dropped above `until`: nothing stored lies above it, the buffer is empty
      have hb : buf = [] := by
        rcases h.2.2 with h0 | h0
        · exact h0
        · exact absurd (h0 x hxV) hxU
      subst hb
      simp only [List.append_nil] at h ⊢
      have hall : ∀ y ∈ S, y.slot ≤ s := by
        intro y hy
        have hyV : y ∈ V ∧ y.number ≤ c.untilN := by
          have : y ∈ V.filter (fun x => x.number ≤ c.untilN) := by rw [← h.2.1]; simpa using hy
          simpa using this
        have := sorted_mono h.1 y hyV.1 x hxV (by omega)
        omega
      have hf : S.filter (fun x => x.slot ≤ s) = S := by
        rw [List.filter_eq_self]; intro y hy; simpa using hall y hy
      rw [hf]
      cases S with
      | nil => simp [rollback, anchor]
      | cons y r =>
        rw [rollback_sorted _ s hpa.1 ⟨y, by simp, hall y (by simp)⟩, hf]
  · subst hV
    have : S = [] ∧ buf = [] := by simpa using h.2.1
    simp [this.1, this.2, rollback, anchor]

/-! ## one poll refines the abstract application of the replies it consumed -/

theorem poll_fwd_drop (c : Cfg) (lp : Option Nat) (buf : List Block) (b : Block) (rs : List (Option Ev))
    (hU : b.number > c.untilN) : poll c lp buf (some (.fwd b) :: rs) = (flush buf, rs, lp) := by
  simp only [poll]; rw [if_pos hU]

theorem poll_fwd_ret (c : Cfg) (lp : Option Nat) (buf : List Block) (b : Block) (rs : List (Option Ev))
    (hU : ¬ b.number > c.untilN) (hret : (buf ++ [b]).length ≥ c.maxPer ∨ b.number ≥ c.untilN) :
    poll c lp buf (some (.fwd b) :: rs) = (some (.forwards (buf ++ [b])), rs, some b.slot) := by
  simp only [poll]; rw [if_neg hU, if_pos hret]

theorem poll_fwd_cont (c : Cfg) (lp : Option Nat) (buf : List Block) (b : Block) (rs : List (Option Ev))
    (hU : ¬ b.number > c.untilN) (hret : ¬ ((buf ++ [b]).length ≥ c.maxPer ∨ b.number ≥ c.untilN)) :
    poll c lp buf (some (.fwd b) :: rs) = poll c (some b.slot) (buf ++ [b]) rs := by
  simp only [poll]; rw [if_neg hU, if_neg hret]

theorem poll_back_skip (c : Cfg) (lp : Option Nat) (buf : List Block) (s : Nat) (rs : List (Option Ev))
    (hf : s = c.fromSlot ∧ lp = none) :
    poll c lp buf (some (.back s) :: rs) = poll c lp buf rs := by
  simp only [poll]; rw [if_pos hf]

theorem poll_back_trunc (c : Cfg) (lp : Option Nat) (buf buf' : List Block) (s : Nat) (rs : List (Option Ev))
    (hf : ¬ (s = c.fromSlot ∧ lp = none)) (ht : truncAt s buf = some buf') :
    poll c lp buf (some (.back s) :: rs) = poll c (some s) buf' rs := by
  simp only [poll]; rw [if_neg hf, ht]

theorem poll_back_full (c : Cfg) (lp : Option Nat) (buf : List Block) (s : Nat) (rs : List (Option Ev))
    (hf : ¬ (s = c.fromSlot ∧ lp = none)) (ht : truncAt s buf = none) :
    poll c lp buf (some (.back s) :: rs) = (some (.backward s), rs, some s) := by
  simp only [poll]; rw [if_neg hf, ht]

theorem poll_refines (c : Cfg) : ∀ (rs : List (Option Ev)) (lp : Option Nat) (buf S V : List Block),
    Inv c S buf V → Good c lp V rs →
    ∃ pre, rs = pre ++ (poll c lp buf rs).2.1 ∧ (rs = [] ∨ pre ≠ []) ∧
      Inv c (applyOut S (poll c lp buf rs).1) [] (applyAll V pre) ∧
      Good c (poll c lp buf rs).2.2 (applyAll V pre) (poll c lp buf rs).2.1 := by
  intro rs
  induction rs with
  | nil =>
    intro lp buf S V hI _
    exact ⟨[], by simp [poll], Or.inl rfl, by simpa [poll, applyAll] using inv_flush hI, by simp [poll, Good]⟩
  | cons r rs ih =>
    intro lp buf S V hI hG
    cases r with
    | none =>
      exact ⟨[none], by simp [poll], Or.inr (by simp), by simpa [poll, applyAll] using inv_flush hI,
        by simpa [poll, applyAll, Good] using hG⟩
    | some e =>
      cases e with
      | fwd b =>
        obtain ⟨hgb, hG'⟩ := hG
        simp only [applyEv] at hG'
        by_cases hU : b.number > c.untilN
        · rw [poll_fwd_drop c lp buf b rs hU]
          simp only [lpNext, if_pos hU] at hG'
          exact ⟨[some (.fwd b)], rfl, Or.inr (by simp), inv_fwd_drop hI hgb hU, hG'⟩
        · have hI' := inv_fwd_keep hI hgb hU
          simp only [lpNext, if_neg hU] at hG'
          by_cases hret : (buf ++ [b]).length ≥ c.maxPer ∨ b.number ≥ c.untilN
          · rw [poll_fwd_ret c lp buf b rs hU hret]
            refine ⟨[some (.fwd b)], rfl, Or.inr (by simp), ?_, hG'⟩
            have := inv_flush hI'
            have hne : buf ++ [b] ≠ [] := by simp
            simp only [flush, hne, if_false] at this
            exact this
          · rw [poll_fwd_cont c lp buf b rs hU hret]
            obtain ⟨pre, h1, _, h3, h4⟩ := ih (some b.slot) (buf ++ [b]) S (V ++ [b]) hI' hG'
            exact ⟨some (.fwd b) :: pre, by rw [List.cons_append, ← h1], Or.inr (by simp), h3, h4⟩
      | back s =>
        obtain ⟨hgb, hG'⟩ := hG
        simp only [applyEv] at hG'
        by_cases hf : s = c.fromSlot ∧ lp = none
        · -- the skipped initial roll-back is a no-op of the abstract chain
          simp only [GoodEv, if_pos hf] at hgb
          simp only [lpNext, if_pos hf] at hG'
          have hV : V.filter (fun x => x.slot ≤ s) = V := by
            rw [List.filter_eq_self]; intro y hy; simpa using hgb y hy
          rw [hV] at hG'
          rw [poll_back_skip c lp buf s rs hf]
          obtain ⟨pre, h1, _, h3, h4⟩ := ih lp buf S V hI hG'
          refine ⟨some (.back s) :: pre, by rw [List.cons_append, ← h1], Or.inr (by simp), ?_, ?_⟩
          · simpa only [applyAll, applyEv, hV] using h3
          · simpa only [applyAll, applyEv, hV] using h4
        · simp only [GoodEv, if_neg hf] at hgb
          simp only [lpNext, if_neg hf] at hG'
          cases ht : truncAt s buf with
          | some buf' =>
            have hI' := inv_back_trunc hI ht
            rw [poll_back_trunc c lp buf buf' s rs hf ht]
            obtain ⟨pre, h1, _, h3, h4⟩ := ih (some s) buf' S _ hI' hG'
            exact ⟨some (.back s) :: pre, by rw [List.cons_append, ← h1], Or.inr (by simp), h3, h4⟩
          | none =>
            rw [poll_back_full c lp buf s rs hf ht]
            exact ⟨[some (.back s)], rfl, Or.inr (by simp), inv_back_full hI ht hgb, hG'⟩

/-! ## the import loop -/

/-- `while let Some(blocks) = streamer.poll_next()`; the fuel only bounds the model's recursion.
Returns the store, the unconsumed replies and the streamer's last polled slot. -/
def run (c : Cfg) : Nat → Option Nat → List Block → List (Option Ev) → List Block × List (Option Ev) × Option Nat
  | 0, lp, S, rs => (S, rs, lp)
  | fuel + 1, lp, S, rs =>
    match poll c lp [] rs with
    | (none, rest, lp') => (S, rest, lp')
    | (some out, rest, lp') => run c fuel lp' (applyOut S (some out)) rest

theorem run_refines (c : Cfg) : ∀ (fuel : Nat) (lp : Option Nat) (S V : List Block) (rs : List (Option Ev)),
    Inv c S [] V → Good c lp V rs →
    ∃ pre, rs = pre ++ (run c fuel lp S rs).2.1 ∧ Inv c (run c fuel lp S rs).1 [] (applyAll V pre) := by
  intro fuel
  induction fuel with
  | zero => intro lp S V rs hI _; exact ⟨[], by simp [run], by simpa [run, applyAll] using hI⟩
  | succ fuel ih =>
    intro lp S V rs hI hG
    obtain ⟨pre, h1, _, h3, h4⟩ := poll_refines c rs lp [] S V hI hG
    simp only [run]
    cases hp : poll c lp [] rs with
    | mk out rest' =>
      cases rest' with
      | mk rest lp' =>
        rw [hp] at h1 h3 h4
        cases out with
        | none => exact ⟨pre, h1, by simpa [applyOut] using h3⟩
        | some o =>
          simp only
          obtain ⟨pre', g1, g2⟩ := ih lp' _ _ rest h3 h4
          refine ⟨pre ++ pre', ?_, ?_⟩
          · rw [List.append_assoc, ← g1]; exact h1
          · rw [applyAll_append]; exact g2

/-- **C13, layer 1.** On a sorted store below the target, for every reply script that is *good*
(forwards extend the chain; the INITIAL roll-back of the scan — the echo of the requested intersection —
is a no-op; every other roll-back targets an existing point or an empty chain), the importer's store
equals the naive application of the consumed events, cut at the target — whatever the batch size,
buffer truncations and discards. A scan starts with `lp = none`. -/
theorem import_refines (c : Cfg) (fuel : Nat) (S0 : List Block) (rs : List (Option Ev))
    (hS : Sorted S0) (hU : ∀ x ∈ S0, x.number ≤ c.untilN) (hG : Good c none S0 rs) :
    ∃ pre, rs = pre ++ (run c fuel none S0 rs).2.1 ∧
      (run c fuel none S0 rs).1 = (applyAll S0 pre).filter (fun x => x.number ≤ c.untilN) := by
  have hI : Inv c S0 [] S0 := by
    refine ⟨hS, ?_, Or.inl rfl⟩
    rw [List.append_nil]; symm; rw [List.filter_eq_self]; intro x hx; simpa using hU x hx
  obtain ⟨pre, h1, h2⟩ := run_refines c fuel none S0 S0 rs hI hG
  exact ⟨pre, h1, by simpa using h2.2.1⟩

/-! ## the excluded classes are real -/

def P : Block := ⟨100, 1, 10⟩
def B1 : Block := ⟨101, 2, 20⟩
def B2 : Block := ⟨102, 3, 30⟩
def C1 : Block := ⟨201, 2, 21⟩

/-- the streamer BEFORE the repair: every roll-back to the scan's start slot is skipped -/
def pollOld (c : Cfg) : List Block → List (Option Ev) → Option Out × List (Option Ev)
  | buf, [] => (flush buf, [])
  | buf, none :: rs => (flush buf, rs)
  | buf, some (.fwd b) :: rs =>
    if b.number > c.untilN then (flush buf, rs)
    else if (buf ++ [b]).length ≥ c.maxPer ∨ b.number ≥ c.untilN then (some (.forwards (buf ++ [b])), rs)
    else pollOld c (buf ++ [b]) rs
  | buf, some (.back s) :: rs =>
    if s = c.fromSlot then pollOld c buf rs
    else match truncAt s buf with
      | some buf' => pollOld c buf' rs
      | none => (some (.backward s), rs)

def runOld (c : Cfg) : Nat → List Block → List (Option Ev) → List Block × List (Option Ev)
  | 0, S, rs => (S, rs)
  | fuel + 1, S, rs =>
    match pollOld c [] rs with
    | (none, rest) => (S, rest)
    | (some out, rest) => runOld c fuel (applyOut S (some out)) rest

/-- class 1 (REPAIRED): before the repair a real roll-back to the scan's start point after forwards
was skipped — `B1, B2` stayed stored; the repaired streamer converges -/
theorem skip_counterexample :
    let c : Cfg := ⟨10, 100, 100⟩
    let rs := [some (.back 10), some (.fwd B1), some (.fwd B2), some (.back 10), some (.fwd C1), none]
    (runOld c 10 [P] rs).1 = [P, B1, B2] ∧
      (applyAll [P] rs).filter (fun x => x.number ≤ c.untilN) = [P, C1] ∧
      (run c 10 none [P] rs).1 = [P, C1] := by
  decide

def Q5 : Block := ⟨105, 5, 50⟩
def Q6 : Block := ⟨106, 6, 60⟩
def R5 : Block := ⟨205, 5, 45⟩

/-- class 2: a roll-back below the lowest stored block removes nothing; the canonical block with a
stored block number is then ignored -/
theorem below_store_counterexample :
    let c : Cfg := ⟨60, 100, 100⟩
    let rs := [some (.back 60), some (.back 30), some (.fwd R5), none]
    (run c 10 none [Q5, Q6] rs).1 = [Q5, Q6] ∧
      (applyAll [Q5, Q6] rs).filter (fun x => x.number ≤ c.untilN) = [R5] := by
  decide

#print axioms import_refines
end Import
