import MithrilModel.Agg
/-!
C16 on the aggregator model: the decision of `register_single_signature` as an `↔`, and the
invariants of the `single_signature` table over all runs (direct submissions, buffered hand-over,
epoch clean-up, ticks cut at a crash point):
* `AttrInv`: every stored row sits under the party whose registered key produced it,
* `RowsUnique`: one row per (open message, party).
-/
namespace Agg

/-- **registered ⇔ the full conjunction** (a missing conjunct is visible here): there is an open
message for the entity, not certified, not expired; the epoch service has computed data; the
signature signs that open message's protocol message; it verifies under the current signer set; the
key at its slot is the key the label registered; the label is registered for the message's epoch -/
theorem sigClass_registered_iff (s : St) (e : Nat) (g : Sig) :
    sigClass s e g = .registered ↔
      ∃ o, findOm e s.oms = some o ∧ o.certified = false ∧ o.expired = false ∧
        (∃ ep, s.es = some ep ∧ g.msg = o.msg ∧ ep ∈ g.ok ∧ g.party = g.signer) ∧
        g.party ∈ signersOf s.regs (o.epoch - 1) := by
  unfold sigClass sigValid
  constructor
  · intro h
    cases ho : findOm e s.oms with
    | none =>
      simp only [ho] at h
      split at h <;> simp at h
    | some o =>
      simp only [ho] at h
      by_cases hc : o.certified = true
      · simp [hc] at h
      · by_cases he : o.expired = true
        · simp [hc, he] at h
        · cases hes : s.es with
          | none => simp [hc, he, hes] at h
          | some ep =>
            by_cases a : g.msg = o.msg
            · by_cases b : ep ∈ g.ok
              · by_cases c : g.party = g.signer
                · by_cases d : g.party ∈ signersOf s.regs (o.epoch - 1)
                  · exact ⟨o, rfl, by simpa using hc, by simpa using he, ⟨ep, rfl, a, b, c⟩, d⟩
                  · exfalso
                    have d' : (signersOf s.regs (o.epoch - 1)).contains g.party = false := by simpa using d
                    simp [hc, he, hes, a, b] at h
                    split at h <;> simp at h
                · simp [hc, he, hes, a, b, c] at h
              · simp [hc, he, hes, a, b] at h
            · simp [hc, he, hes, a] at h
  · rintro ⟨o, ho, hc, he, ⟨ep, hes, h1, h2, h3⟩, h4⟩
    rw [h3] at h4
    simp [ho, hc, he, hes, h1, h2, h3, h4]

/-- every stored row sits under the label whose registered key produced it -/
def AttrInv (s : St) : Prop := ∀ r ∈ s.sigs, r.party = r.signer

/-- one row per (open message, party) -/
def RowsUnique (s : St) : Prop := s.sigs.Pairwise (fun a b => ¬(a.entity = b.entity ∧ a.party = b.party))

def TblInv (s : St) : Prop := AttrInv s ∧ RowsUnique s

theorem storeSig_tbl (s : St) (e : Nat) (g : Sig) (h : TblInv s) (hg : g.party = g.signer) :
    TblInv (storeSig s e g) := by
  obtain ⟨h1, h2⟩ := h
  constructor
  · intro r hr
    simp only [storeSig, List.mem_append, List.mem_filter, List.mem_singleton] at hr
    rcases hr with ⟨hr, _⟩ | rfl
    · exact h1 r hr
    · exact hg
  · unfold RowsUnique storeSig
    refine List.pairwise_append.mpr ⟨h2.sublist List.filter_sublist, by simp, ?_⟩
    intro a ha b hb
    simp only [List.mem_singleton] at hb; subst hb
    obtain ⟨_, hf⟩ := List.mem_filter.mp ha
    intro hab
    simp [hab.1, hab.2] at hf

theorem sigClass_registered_attr {s : St} {e : Nat} {g : Sig} (h : sigClass s e g = .registered) :
    g.party = g.signer := by
  obtain ⟨_, _, _, _, ⟨_, _, _, _, h3⟩, _⟩ := (sigClass_registered_iff s e g).mp h
  exact h3

theorem handOverGo_tbl (e : Nat) : ∀ (l : List BufSig) (s : St) (r : List Nat), TblInv s →
    TblInv (handOverGo s e l r).1 := by
  intro l
  induction l with
  | nil => intro s r h; exact h
  | cons b rest ih =>
    intro s r h
    simp only [handOverGo]
    split
    · rename_i hc
      exact ih _ _ (storeSig_tbl s e b.sig h (sigClass_registered_attr hc))
    · exact ih s r h
    · exact h

/-- `TblInv` only reads the signature table -/
theorem tbl_of_sigs {s s' : St} (h : TblInv s) (hs : s'.sigs = s.sigs) : TblInv s' := by
  unfold TblInv AttrInv RowsUnique at *
  rw [hs]; exact h

theorem tbl_of_filter {s s' : St} (h : TblInv s) (f : SigRow → Bool) (hs : s'.sigs = s.sigs.filter f) : TblInv s' := by
  obtain ⟨h1, h2⟩ := h
  unfold TblInv AttrInv RowsUnique
  rw [hs]
  exact ⟨fun r hr => h1 r (List.mem_filter.mp hr).1, h2.sublist List.filter_sublist⟩

theorem handOver_tbl (E : Env) (s : St) (e : Nat) (h : TblInv s) : TblInv (handOver E s e).1 := by
  unfold handOver
  have hg := handOverGo_tbl e ((s.buf.filter (·.disc = E.entityDisc e)).reverse) s [] h
  dsimp only
  split
  · rename_i s1 removed heq
    rw [heq] at hg
    exact tbl_of_sigs hg rfl
  · rename_i s1 heq
    rw [heq] at hg
    exact hg

theorem handOverNoRemoval_tbl (E : Env) (s : St) (e : Nat) (h : TblInv s) : TblInv (handOverNoRemoval E s e).1 := by
  unfold handOverNoRemoval
  have hg := handOverGo_tbl e ((s.buf.filter (·.disc = E.entityDisc e)).reverse) s [] h
  split
  · rename_i s1 removed heq
    rw [heq] at hg
    exact hg
  · rename_i s1 heq
    rw [heq] at hg
    exact hg

theorem registerSig_tbl (E : Env) (s : St) (e : Nat) (g : Sig) (h : TblInv s) : TblInv (registerSig E s e g) := by
  unfold registerSig
  split
  · rename_i hc
    exact storeSig_tbl s e g h (sigClass_registered_attr hc)
  · exact tbl_of_sigs h rfl
  · exact h

theorem createCertificate_sigs (E : Env) (s : St) (e : Nat) : (createCertificate E s e).sigs = s.sigs := by
  unfold createCertificate
  repeat' split
  all_goals rfl

theorem idleStep_tbl (s : St) (tp : Tp) (last : Option Nat) (h : TblInv s) : TblInv (idleStep s tp last) := by
  have hc : TblInv (epochInit s tp) := tbl_of_filter h _ rfl
  unfold idleStep
  dsimp only
  cases hrun : (last.isNone || last.any (· < tp.epoch))
  · simp only [Bool.false_and, Bool.false_eq_true, if_false]
    repeat' split
    all_goals exact h
  · simp only [Bool.true_and, if_true]
    repeat' split
    all_goals exact hc

theorem readyStep_tbl (E : Env) (s : St) (tp : Tp) (h : TblInv s) : TblInv (readyStep E s tp) := by
  unfold readyStep
  split
  · rename_i oms' e heq
    dsimp only
    split
    · exact h
    · have hh := handOver_tbl E { s with oms := oms' } e h
      split
      · rename_i s2 heq2
        rw [heq2] at hh
        exact tbl_of_sigs hh rfl
      · rename_i s2 heq2
        rw [heq2] at hh
        exact hh
  · exact h

theorem signingStep_tbl (E : Env) (s : St) (tp : Tp) (ep e : Nat) (h : TblInv s) :
    TblInv (signingStep E s tp ep e) := by
  unfold signingStep
  dsimp only
  repeat' split
  all_goals first
    | exact h
    | exact tbl_of_sigs h (createCertificate_sigs E _ e)

theorem tick_tbl (E : Env) (s : St) (tp : Tp) (h : TblInv s) : TblInv (tick E s tp) := by
  unfold tick
  split
  · exact idleStep_tbl s tp _ h
  · split <;> exact h
  · split
    · exact h
    · exact readyStep_tbl E s tp h
  · exact signingStep_tbl E s tp _ _ h

theorem createCertificateCut_sigs (s : St) (e : Nat) (c : CertRec) (p : CrashPoint) :
    (createCertificateCut s e c p).sigs = s.sigs := by
  unfold createCertificateCut
  cases p <;> rfl

theorem signingStepCut_tbl (E : Env) (s : St) (tp : Tp) (ep e : Nat) (p : CrashPoint) (h : TblInv s) :
    TblInv (signingStepCut E s tp ep e p) := by
  unfold signingStepCut
  dsimp only
  repeat' split
  all_goals first
    | exact h
    | exact tbl_of_sigs h (createCertificateCut_sigs _ e _ p)

theorem readyStepCut_tbl (E : Env) (s : St) (tp : Tp) (p : CrashPoint) (h : TblInv s) :
    TblInv (readyStepCut E s tp p) := by
  unfold readyStepCut
  split
  · rename_i oms' e heq
    dsimp only
    split
    · exact h
    · have hh := handOver_tbl E { s with oms := oms' } e h
      have hn := handOverNoRemoval_tbl E { s with oms := oms' } e h
      split
      · exact h
      · split
        · rename_i s2 heq2
          rw [heq2] at hn
          exact tbl_of_sigs hn rfl
        · rename_i s2 heq2
          rw [heq2] at hn
          exact hn
      · split
        · rename_i s2 heq2
          rw [heq2] at hh
          exact tbl_of_sigs hh rfl
        · rename_i s2 heq2
          rw [heq2] at hh
          exact hh
  · exact h

theorem crashTick_tbl (E : Env) (s : St) (tp : Tp) (p : CrashPoint) (h : TblInv s) : TblInv (crashTick E s tp p) := by
  unfold crashTick
  split
  · exact idleStep_tbl s tp _ h
  · split <;> exact h
  · split
    · exact h
    · exact readyStepCut_tbl E s tp p h
  · exact signingStepCut_tbl E s tp _ _ p h

theorem step_tbl (E : Env) (s : St) (ev : Event) (h : TblInv s) : TblInv (step E s ev) := by
  cases ev with
  | tick tp => exact tbl_of_sigs (tick_tbl E s tp h) rfl
  | signature e g => exact registerSig_tbl E s e g h
  | register k p =>
    show TblInv (register s k p)
    unfold register
    split
    · exact tbl_of_sigs h rfl
    · exact h
  | expire e => exact tbl_of_sigs h rfl
  | restart => exact tbl_of_sigs h rfl
  | crash tp p => exact tbl_of_sigs (crashTick_tbl E s tp p h) rfl

/-- over every run — any interleaving of ticks, submissions (direct or buffered, authenticated or
not), registrations, expiries, restarts and ticks cut at a crash point — the table invariants hold -/
theorem run_tbl (E : Env) : ∀ (evs : List Event) (s : St), TblInv s → TblInv (evs.foldl (step E) s) := by
  intro evs
  induction evs with
  | nil => intro s h; exact h
  | cons ev r ih => intro s h; exact ih _ (step_tbl E s ev h)

theorem tbl_init (n g : Nat) : TblInv (init n g) := by
  constructor
  · intro r hr; simp [init] at hr
  · simp [RowsUnique, init]

/-- storing under one label never touches the row of another label or of another open message -/
theorem storeSig_other (s : St) (e : Nat) (g : Sig) (r : SigRow) (h : r.entity ≠ e ∨ r.party ≠ g.party) :
    r ∈ (storeSig s e g).sigs ↔ r ∈ s.sigs := by
  simp only [storeSig, List.mem_append, List.mem_filter, List.mem_singleton]
  constructor
  · rintro (⟨h1, _⟩ | rfl)
    · exact h1
    · rcases h with h | h <;> exact absurd rfl h
  · intro h1
    left
    refine ⟨h1, ?_⟩
    rcases h with h | h <;> simp [h]

/-- what the code did before the repair: the label was never consulted -/
def sigClassUnbound (s : St) (e : Nat) (g : Sig) : SigClass :=
  match findOm e s.oms with
  | none => if g.auth then .buffered else .notFound
  | some o =>
    if o.certified then .certified
    else if o.expired then .expired
    else if !sigValidUnbound s o g then .invalid
    else if !(signersOf s.regs (o.epoch - 1)).contains g.party then .storeErr
    else .registered

/-- the relabel witness: parties 0 and 1 registered for epoch 2, open message of entity 7; party 1's
signature (sigma 11) is stored under label 1, then a copy of it is submitted under label 0 -/
def wS : St :=
  { rt := .signing 2 7, oms := [{ entity := 7, epoch := 2, msg := 3, certified := false, expired := false, expiresAt := none }],
    certs := [{ id := 0, entity := none, epoch := 1, parent := none, avk := 1, signers := [] }],
    sigs := [{ entity := 7, party := 1, sigma := 11, idx := [4, 9], signer := 1, msg := 3, vEpoch := 2 }],
    cleaned := 0, seen := 2, buf := [], ses := [], regs := [(1, 0), (1, 1)], es := some 2, round := some 3 }
def wCopy : Sig := { party := 0, signer := 1, sigma := 11, msg := 3, ok := [2], idx := [4, 9], auth := false }

theorem relabel_witness :
    sigClassUnbound wS 7 wCopy = .registered ∧ sigClass wS 7 wCopy = .invalid ∧
    ((storeSig wS 7 wCopy).sigs.map (fun r => (r.party, r.sigma))) = [(1, 11), (0, 11)] := by
  decide

end Agg
