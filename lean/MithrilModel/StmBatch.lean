namespace StmBatch

abbrev Bytes := List UInt8

def parent (p : Nat) : Nat := (p - 1) / 2

variable (H : Bytes → Bytes)

/-- one level of `verify_leaves_membership_from_batch_path`.
`none` models both the `SerializationError` (no value left) and the `parent(0)` panic. -/
def level (nr : Nat) (Z : Bytes) : List (Nat × Bytes) → List Bytes → Option (List (Nat × Bytes) × List Bytes)
  | [], vs => some ([], vs)
  | [(p, h)], vs =>
    if p = 0 then none
    else if p % 2 = 0 then
      match vs with
      | [] => none
      | v :: vs' => some ([(parent p, H (v ++ h))], vs')
    else if p + 1 < nr then
      match vs with
      | [] => none
      | v :: vs' => some ([(parent p, H (h ++ v))], vs')
    else some ([(parent p, H (h ++ Z))], vs)
  | (p, h) :: (p2, h2) :: rest, vs =>
    if p = 0 then none
    else if p % 2 = 0 then
      match vs with
      | [] => none
      | v :: vs' =>
        match level nr Z ((p2, h2) :: rest) vs' with
        | none => none
        | some (r, vs'') => some ((parent p, H (v ++ h)) :: r, vs'')
    else if p2 = p + 1 then
      match level nr Z rest vs with
      | none => none
      | some (r, vs'') => some ((parent p, H (h ++ h2)) :: r, vs'')
    else if p + 1 < nr then
      match vs with
      | [] => none
      | v :: vs' =>
        match level nr Z ((p2, h2) :: rest) vs' with
        | none => none
        | some (r, vs'') => some ((parent p, H (h ++ v)) :: r, vs'')
    else
      match level nr Z ((p2, h2) :: rest) vs with
      | none => none
      | some (r, vs'') => some ((parent p, H (h ++ Z)) :: r, vs'')

def run (nr : Nat) (Z : Bytes) : Nat → List (Nat × Bytes) → List Bytes → Option (List (Nat × Bytes))
  | _, [], _ => none
  | 0, (p, h) :: es, _ => if p = 0 then some ((p, h) :: es) else none
  | fuel + 1, (p, h) :: es, vs =>
    if p = 0 then some ((p, h) :: es)
    else match level H nr Z ((p, h) :: es) vs with
      | none => none
      | some (es', vs') => run nr Z fuel es' vs'

/-- the committed tree: `leaves` are the leaf pre-images (104 bytes each in the code) -/
def leafVal (leaves : List Bytes) (Z : Bytes) (k : Nat) : Bytes :=
  match leaves[k]? with
  | some x => H x
  | none => Z

def sub (leaves : List Bytes) (Z : Bytes) (off : Nat) : Nat → Nat → Bytes
  | 0, p => leafVal H leaves Z (p - off)
  | h + 1, p => H (sub leaves Z off h (2 * p + 1) ++ sub leaves Z off h (2 * p + 2))

end StmBatch

namespace StmBatch
variable {H : Bytes → Bytes}

theorem leafVal_len (hlen : ∀ x, (H x).length = 32) {Z : Bytes} (hZ : Z.length = 32)
    (leaves : List Bytes) (k : Nat) : (leafVal H leaves Z k).length = 32 := by
  unfold leafVal; split <;> simp [hlen, hZ]

theorem sub_len (hlen : ∀ x, (H x).length = 32) {Z : Bytes} (hZ : Z.length = 32)
    (leaves : List Bytes) (off h p : Nat) : (sub H leaves Z off h p).length = 32 := by
  cases h with
  | zero => exact leafVal_len hlen hZ leaves _
  | succ h => simp [sub, hlen]

/-- splitting a hashed concatenation -/
theorem split_node (hinj : ∀ x y, H x = H y → x = y) (hlen : ∀ x, (H x).length = 32)
    {Z : Bytes} (hZ : Z.length = 32) (leaves : List Bytes) (off h q : Nat)
    {a b : Bytes} (ha : a.length = 32)
    (heq : H (a ++ b) = sub H leaves Z off (h + 1) q) :
    a = sub H leaves Z off h (2 * q + 1) ∧ b = sub H leaves Z off h (2 * q + 2) := by
  have h1 := hinj _ _ (by simpa [sub] using heq)
  have hl : a.length = (sub H leaves Z off h (2 * q + 1)).length := by
    rw [ha, sub_len hlen hZ]
  exact List.append_inj h1 hl

theorem parent_odd {p : Nat} (h0 : p ≠ 0) (h : ¬ p % 2 = 0) : 2 * parent p + 1 = p := by
  unfold parent; omega
theorem parent_even {p : Nat} (h0 : p ≠ 0) (h : p % 2 = 0) : 2 * parent p + 2 = p := by
  unfold parent; omega

theorem level_sound (hinj : ∀ x y, H x = H y → x = y) (hlen : ∀ x, (H x).length = 32)
    {Z : Bytes} (hZ : Z.length = 32) (nr : Nat) (leaves : List Bytes) (off h0 : Nat) :
    ∀ (es : List (Nat × Bytes)) (vs : List Bytes) (es' : List (Nat × Bytes)) (vs' : List Bytes),
      level H nr Z es vs = some (es', vs') →
      (∀ e ∈ es, e.2.length = 32) → (∀ v ∈ vs, v.length = 32) →
      (∀ e ∈ es', e.2 = sub H leaves Z off (h0 + 1) e.1) →
      (∀ e ∈ es, e.2 = sub H leaves Z off h0 e.1) ∧ (∀ v ∈ vs', v.length = 32) := by
  intro es vs
  fun_induction level H nr Z es vs <;> intro es' vs' hl hes hvs hgood
  all_goals first
    | (simp at hl; done)
    | skip
  case case1 =>
    simp only [Option.some.injEq, Prod.mk.injEq] at hl
    obtain ⟨_, rfl⟩ := hl
    exact ⟨by simp, hvs⟩
  case case4 =>
    rename_i p h hp0 hpar v vst
    simp only [Option.some.injEq, Prod.mk.injEq] at hl
    obtain ⟨rfl, rfl⟩ := hl
    have hg := hgood (parent p, H (v ++ h)) (by simp)
    have hv : v.length = 32 := hvs v (by simp)
    obtain ⟨_, hb⟩ := split_node hinj hlen hZ leaves off h0 (parent p) hv hg
    rw [parent_even hp0 hpar] at hb
    refine ⟨?_, fun w hw => hvs w (by simp [hw])⟩
    intro e he; simp at he; subst he; exact hb
  case case6 =>
    rename_i p h hp0 hpar hlt v vst
    simp only [Option.some.injEq, Prod.mk.injEq] at hl
    obtain ⟨rfl, rfl⟩ := hl
    have hg := hgood (parent p, H (h ++ v)) (by simp)
    have hh : h.length = 32 := hes (p, h) (by simp)
    obtain ⟨ha, _⟩ := split_node hinj hlen hZ leaves off h0 (parent p) hh hg
    rw [parent_odd hp0 hpar] at ha
    refine ⟨?_, fun w hw => hvs w (by simp [hw])⟩
    intro e he; simp at he; subst he; exact ha
  case case7 =>
    rename_i p h vs0 hp0 hpar hlt
    simp only [Option.some.injEq, Prod.mk.injEq] at hl
    obtain ⟨rfl, rfl⟩ := hl
    have hg := hgood (parent p, H (h ++ Z)) (by simp)
    have hh : h.length = 32 := hes (p, h) (by simp)
    obtain ⟨ha, _⟩ := split_node hinj hlen hZ leaves off h0 (parent p) hh hg
    rw [parent_odd hp0 hpar] at ha
    refine ⟨?_, hvs⟩
    intro e he; simp at he; subst he; exact ha
  case case11 =>
    rename_i p h p2 h2 rest hp0 hpar v vst r vs2 hx ih
    simp only [Option.some.injEq, Prod.mk.injEq] at hl
    obtain ⟨rfl, rfl⟩ := hl
    have hg := hgood (parent p, H (v ++ h)) (by simp)
    have hv : v.length = 32 := hvs v (by simp)
    obtain ⟨_, hb⟩ := split_node hinj hlen hZ leaves off h0 (parent p) hv hg
    rw [parent_even hp0 hpar] at hb
    obtain ⟨ih1, ih2⟩ := ih r vs2 hx (fun e he => hes e (List.mem_cons_of_mem _ he))
      (fun w hw => hvs w (List.mem_cons_of_mem _ hw)) (fun e he => hgood e (List.mem_cons_of_mem _ he))
    refine ⟨?_, ih2⟩
    intro e he
    rcases List.mem_cons.mp he with rfl | he
    · exact hb
    · exact ih1 e he
  case case13 =>
    rename_i p h h2 rest vs0 hp0 hpar r vs2 hx ih
    simp only [Option.some.injEq, Prod.mk.injEq] at hl
    obtain ⟨rfl, rfl⟩ := hl
    have hg := hgood (parent p, H (h ++ h2)) (by simp)
    have hh : h.length = 32 := hes (p, h) (by simp)
    obtain ⟨ha, hb⟩ := split_node hinj hlen hZ leaves off h0 (parent p) hh hg
    have hp1 : 2 * parent p + 2 = p + 1 := by have := parent_odd hp0 hpar; omega
    rw [parent_odd hp0 hpar] at ha
    rw [hp1] at hb
    obtain ⟨ih1, ih2⟩ := ih r vs2 hx
      (fun e he => hes e (List.mem_cons_of_mem _ (List.mem_cons_of_mem _ he)))
      hvs (fun e he => hgood e (List.mem_cons_of_mem _ he))
    refine ⟨?_, ih2⟩
    intro e he
    rcases List.mem_cons.mp he with rfl | he
    · exact ha
    · rcases List.mem_cons.mp he with rfl | he
      · exact hb
      · exact ih1 e he
  case case16 =>
    rename_i p h p2 h2 rest hp0 hpar hne hlt v vst r vs2 hx ih
    simp only [Option.some.injEq, Prod.mk.injEq] at hl
    obtain ⟨rfl, rfl⟩ := hl
    have hg := hgood (parent p, H (h ++ v)) (by simp)
    have hh : h.length = 32 := hes (p, h) (by simp)
    obtain ⟨ha, _⟩ := split_node hinj hlen hZ leaves off h0 (parent p) hh hg
    rw [parent_odd hp0 hpar] at ha
    obtain ⟨ih1, ih2⟩ := ih r vs2 hx (fun e he => hes e (List.mem_cons_of_mem _ he))
      (fun w hw => hvs w (List.mem_cons_of_mem _ hw)) (fun e he => hgood e (List.mem_cons_of_mem _ he))
    refine ⟨?_, ih2⟩
    intro e he
    rcases List.mem_cons.mp he with rfl | he
    · exact ha
    · exact ih1 e he
  case case18 =>
    rename_i p h p2 h2 rest vs0 hp0 hpar hne hlt r vs2 hx ih
    simp only [Option.some.injEq, Prod.mk.injEq] at hl
    obtain ⟨rfl, rfl⟩ := hl
    have hg := hgood (parent p, H (h ++ Z)) (by simp)
    have hh : h.length = 32 := hes (p, h) (by simp)
    obtain ⟨ha, _⟩ := split_node hinj hlen hZ leaves off h0 (parent p) hh hg
    rw [parent_odd hp0 hpar] at ha
    obtain ⟨ih1, ih2⟩ := ih r vs2 hx (fun e he => hes e (List.mem_cons_of_mem _ he))
      hvs (fun e he => hgood e (List.mem_cons_of_mem _ he))
    refine ⟨?_, ih2⟩
    intro e he
    rcases List.mem_cons.mp he with rfl | he
    · exact ha
    · exact ih1 e he


/-- every entry produced by one level is the hash of a 64-byte string, and a non-empty
level stays non-empty -/
theorem level_out (hlen : ∀ x, (H x).length = 32) {Z : Bytes} (hZ : Z.length = 32) (nr : Nat) :
    ∀ (es : List (Nat × Bytes)) (vs : List Bytes) (es' : List (Nat × Bytes)) (vs' : List Bytes),
      level H nr Z es vs = some (es', vs') →
      (∀ e ∈ es, e.2.length = 32) → (∀ v ∈ vs, v.length = 32) →
      (∀ e ∈ es', ∃ x, e.2 = H x ∧ x.length = 64) ∧ (es ≠ [] → es' ≠ []) := by
  intro es vs
  fun_induction level H nr Z es vs <;> intro es' vs' hl hes hvs
  all_goals first
    | (simp at hl; done)
    | skip
  all_goals simp only [Option.some.injEq, Prod.mk.injEq] at hl
  all_goals obtain ⟨rfl, rfl⟩ := hl
  case case1 => simp
  case case4 =>
    rename_i p h hp0 hpar v vst
    refine ⟨?_, by simp⟩
    intro e he; simp at he; subst he
    exact ⟨_, rfl, by simp [hvs v (by simp), hes (p, h) (by simp)]⟩
  case case6 =>
    rename_i p h hp0 hpar hlt v vst
    refine ⟨?_, by simp⟩
    intro e he; simp at he; subst he
    exact ⟨_, rfl, by simp [hvs v (by simp), hes (p, h) (by simp)]⟩
  case case7 =>
    rename_i p h vs0 hp0 hpar hlt
    refine ⟨?_, by simp⟩
    intro e he; simp at he; subst he
    exact ⟨_, rfl, by simp [hZ, hes (p, h) (by simp)]⟩
  case case11 =>
    rename_i p h p2 h2 rest hp0 hpar v vst r vs2 hx ih
    obtain ⟨ih1, _⟩ := ih r vs2 hx (fun e he => hes e (List.mem_cons_of_mem _ he))
      (fun w hw => hvs w (List.mem_cons_of_mem _ hw))
    refine ⟨?_, by simp⟩
    intro e he
    rcases List.mem_cons.mp he with rfl | he
    · exact ⟨_, rfl, by simp [hvs v (by simp), hes (p, h) (by simp)]⟩
    · exact ih1 e he
  case case13 =>
    rename_i p h h2 rest vs0 hp0 hpar r vs2 hx ih
    obtain ⟨ih1, _⟩ := ih r vs2 hx
      (fun e he => hes e (List.mem_cons_of_mem _ (List.mem_cons_of_mem _ he))) hvs
    refine ⟨?_, by simp⟩
    intro e he
    rcases List.mem_cons.mp he with rfl | he
    · exact ⟨_, rfl, by simp [hes (p, h) (by simp), hes (p + 1, h2) (by simp)]⟩
    · exact ih1 e he
  case case16 =>
    rename_i p h p2 h2 rest hp0 hpar hne hlt v vst r vs2 hx ih
    obtain ⟨ih1, _⟩ := ih r vs2 hx (fun e he => hes e (List.mem_cons_of_mem _ he))
      (fun w hw => hvs w (List.mem_cons_of_mem _ hw))
    refine ⟨?_, by simp⟩
    intro e he
    rcases List.mem_cons.mp he with rfl | he
    · exact ⟨_, rfl, by simp [hvs v (by simp), hes (p, h) (by simp)]⟩
    · exact ih1 e he
  case case18 =>
    rename_i p h p2 h2 rest vs0 hp0 hpar hne hlt r vs2 hx ih
    obtain ⟨ih1, _⟩ := ih r vs2 hx (fun e he => hes e (List.mem_cons_of_mem _ he)) hvs
    refine ⟨?_, by simp⟩
    intro e he
    rcases List.mem_cons.mp he with rfl | he
    · exact ⟨_, rfl, by simp [hZ, hes (p, h) (by simp)]⟩
    · exact ih1 e he


theorem level_vs (nr : Nat) (Z : Bytes) :
    ∀ (es : List (Nat × Bytes)) (vs : List Bytes) (es' : List (Nat × Bytes)) (vs' : List Bytes),
      level H nr Z es vs = some (es', vs') →
      (∀ v ∈ vs, v.length = 32) → (∀ v ∈ vs', v.length = 32) := by
  intro es vs
  fun_induction level H nr Z es vs <;> intro es' vs' hl hvs
  all_goals first
    | (simp at hl; done)
    | skip
  all_goals simp only [Option.some.injEq, Prod.mk.injEq] at hl
  all_goals obtain ⟨rfl, rfl⟩ := hl
  case case1 => exact hvs
  case case4 => exact fun w hw => hvs w (List.mem_cons_of_mem _ hw)
  case case6 => exact fun w hw => hvs w (List.mem_cons_of_mem _ hw)
  case case7 => exact hvs
  case case11 =>
    rename_i ih; rename_i hx
    exact ih _ _ hx (fun w hw => hvs w (List.mem_cons_of_mem _ hw))
  case case13 =>
    rename_i ih; rename_i hx
    exact ih _ _ hx hvs
  case case16 =>
    rename_i ih; rename_i hx
    exact ih _ _ hx (fun w hw => hvs w (List.mem_cons_of_mem _ hw))
  case case18 =>
    rename_i ih; rename_i hx
    exact ih _ _ hx hvs

/-- a hash of a 64-byte string is never a leaf-level value of the committed tree -/
theorem node_ne_leaf (hinj : ∀ x y, H x = H y → x = y) (leaves : List Bytes)
    (hleaf : ∀ l ∈ leaves, l.length = 104) (k : Nat) {x : Bytes} (hx : x.length = 64) :
    H x ≠ leafVal H leaves (H [0]) k := by
  unfold leafVal
  split
  · rename_i l hl
    intro h
    have := hinj _ _ h
    have hl' : l ∈ leaves := List.mem_of_getElem? hl
    have := hleaf l hl'
    simp_all
  · intro h
    have := hinj _ _ h
    simp_all

theorem run_sound (hinj : ∀ x y, H x = H y → x = y) (hlen : ∀ x, (H x).length = 32)
    (nr : Nat) (leaves : List Bytes) (hleaf : ∀ l ∈ leaves, l.length = 104) (off hTop : Nat) :
    ∀ (fuel : Nat) (es : List (Nat × Bytes)) (vs : List Bytes),
      run H nr (H [0]) fuel es vs = some [(0, sub H leaves (H [0]) off hTop 0)] →
      (∀ e ∈ es, e.2.length = 32) → (∀ v ∈ vs, v.length = 32) →
      ∃ t, t ≤ hTop ∧ ∀ e ∈ es, e.2 = sub H leaves (H [0]) off (hTop - t) e.1 := by
  have hZ : (H [0]).length = 32 := hlen _
  intro fuel
  induction fuel with
  | zero =>
    intro es vs hrun hes hvs
    match es, hrun with
    | (p, h) :: es, hrun =>
      simp only [run] at hrun
      split at hrun
      · simp only [Option.some.injEq] at hrun
        refine ⟨0, Nat.zero_le _, ?_⟩
        intro e he; rw [hrun] at he; simp at he; subst he; simp
      · simp at hrun
  | succ fuel ih =>
    intro es vs hrun hes hvs
    match es, hrun with
    | (p, h) :: es, hrun =>
      simp only [run] at hrun
      split at hrun
      · simp only [Option.some.injEq] at hrun
        refine ⟨0, Nat.zero_le _, ?_⟩
        intro e he; rw [hrun] at he; simp at he; subst he; simp
      · split at hrun
        · simp at hrun
        · rename_i es' vs' hlev
          have hout := level_out hlen hZ nr _ _ _ _ hlev hes hvs
          have hvs' := level_vs nr (H [0]) _ _ _ _ hlev hvs
          have hes' : ∀ e ∈ es', e.2.length = 32 := by
            intro e he
            obtain ⟨x, hx, _⟩ := hout.1 e he
            rw [hx]; exact hlen _
          obtain ⟨t, ht, hgood⟩ := ih es' vs' hrun hes' hvs'
          have hne : es' ≠ [] := hout.2 (by simp)
          -- the level above cannot be the leaf level
          have hpos : hTop - t ≠ 0 := by
            intro h0
            obtain ⟨e, he⟩ := List.exists_mem_of_ne_nil es' hne
            obtain ⟨x, hx, hx64⟩ := hout.1 e he
            have := hgood e he
            rw [h0, hx] at this
            exact node_ne_leaf hinj leaves hleaf _ hx64 (by simpa [sub] using this)
          obtain ⟨h1, hh1⟩ : ∃ h1, hTop - t = h1 + 1 := ⟨hTop - t - 1, by omega⟩
          refine ⟨t + 1, by omega, ?_⟩
          have hg' : ∀ e ∈ es', e.2 = sub H leaves (H [0]) off (h1 + 1) e.1 := by
            intro e he; rw [← hh1]; exact hgood e he
          have := (level_sound hinj hlen hZ nr leaves off h1 _ _ _ _ hlev hes hvs hg').1
          have hh2 : hTop - (t + 1) = h1 := by omega
          rw [hh2]; exact this


/- VACUITY AUDIT: no longer an obligation of the check. assumes injectivity of H : Bytes -> Bytes on ALL byte strings together with 32-byte outputs: unsatisfiable (pigeonhole, Vacuity.C09.hinj_hlen_unsatisfiable) - the statement is vacuous. Replaced by: Vacuity.C09.C09_stm_sound_witness. -/
/-- **Soundness of the STM batch-path verifier** (model level).
If the run over the claimed `(index, leaf pre-image)` pairs ends in the committed root,
every claimed pre-image is the committed leaf at the claimed index. -/
theorem batch_sound (hinj : ∀ x y, H x = H y → x = y) (hlen : ∀ x, (H x).length = 32)
    (nr : Nat) (leaves : List Bytes) (hleaf : ∀ l ∈ leaves, l.length = 104) (off hTop : Nat)
    (claims : List (Nat × Bytes)) (hclaim : ∀ c ∈ claims, c.2.length = 104)
    (vs : List Bytes) (hvs : ∀ v ∈ vs, v.length = 32) (fuel : Nat)
    (hrun : run H nr (H [0]) fuel (claims.map fun c => (c.1 + off, H c.2)) vs
      = some [(0, sub H leaves (H [0]) off hTop 0)]) :
    ∀ c ∈ claims, leaves[c.1]? = some c.2 := by
  have hes : ∀ e ∈ claims.map (fun c => (c.1 + off, H c.2)), e.2.length = 32 := by
    intro e he
    obtain ⟨c, _, rfl⟩ := List.mem_map.mp he
    exact hlen _
  obtain ⟨t, ht, hgood⟩ := run_sound hinj hlen nr leaves hleaf off hTop fuel _ vs hrun hes hvs
  intro c hc
  have hg := hgood (c.1 + off, H c.2) (List.mem_map.mpr ⟨c, hc, rfl⟩)
  simp only at hg
  cases hht : hTop - t with
  | succ h1 =>
    rw [hht] at hg
    simp only [sub] at hg
    have := hinj _ _ hg
    have h104 := hclaim c hc
    rw [this] at h104
    simp [sub_len hlen (hlen [0])] at h104
  | zero =>
    rw [hht] at hg
    simp only [sub, leafVal, Nat.add_sub_cancel] at hg
    split at hg
    · rename_i l hl
      rw [hl, hinj _ _ hg]
    · have := hinj _ _ hg
      have h104 := hclaim c hc
      rw [this] at h104
      simp at h104

#print axioms batch_sound
end StmBatch
