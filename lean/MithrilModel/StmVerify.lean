namespace StmVerify

structure Sig where
  sigma : Nat
  idxs : List Nat
  vk : Nat          -- claimed registered party
  stake : Nat
deriving Repr

inductive Err where
  | indexBound | lotteryLost | indexNotUnique | notEnough | batchPath | aggInvalid
deriving DecidableEq, Repr

structure Env where
  m : Nat
  k : Nat
  won : Nat → Nat → Nat → Bool        -- sigma, index, stake ↦ lottery verdict (message, root, phi_f, total fixed)
  batchOk : List (Nat × Nat) → Bool   -- claimed (vk, stake) leaves against the commitment and the path
  aggOk : List (Nat × Nat) → Bool     -- (vk, sigma) pairs against msg ‖ root

/-- `check_indices` before the `fix:` commit: `index > m` (kept to document the fixed finding) -/
def checkIndicesOld (E : Env) (s : Sig) : List Nat → Except Err Unit
  | [] => .ok ()
  | i :: r =>
    if i > E.m then .error .indexBound
    else if !E.won s.sigma i s.stake then .error .lotteryLost
    else checkIndicesOld E s r

/-- `check_indices` as it is: `index >= m` is rejected -/
def checkIndices (E : Env) (s : Sig) : List Nat → Except Err Unit
  | [] => .ok ()
  | i :: r =>
    if i ≥ E.m then .error .indexBound
    else if !E.won s.sigma i s.stake then .error .lotteryLost
    else checkIndices E s r

def checkAll (E : Env) : List Sig → Except Err Unit
  | [] => .ok ()
  | s :: r =>
    match checkIndices E s s.idxs with
    | .error e => .error e
    | .ok () => checkAll E r

def allIdx (sigs : List Sig) : List Nat := sigs.flatMap (·.idxs)

/-- number of distinct elements = size of the `HashSet` the code fills -/
def distinctCount : List Nat → Nat
  | [] => 0
  | x :: r => if x ∈ r then distinctCount r else distinctCount r + 1

theorem distinctCount_le : ∀ l : List Nat, distinctCount l ≤ l.length
  | [] => Nat.le_refl _
  | x :: r => by
    have := distinctCount_le r
    simp only [distinctCount, List.length_cons]
    split <;> omega

theorem nodup_of_distinctCount : ∀ l : List Nat, l.length = distinctCount l → l.Nodup
  | [] => fun _ => List.nodup_nil
  | x :: r => by
    intro h
    have hle := distinctCount_le r
    simp only [distinctCount, List.length_cons] at h
    split at h
    · omega
    · rename_i hx
      exact List.nodup_cons.mpr ⟨hx, nodup_of_distinctCount r (by omega)⟩

def preliminary (E : Env) (sigs : List Sig) : Except Err Unit :=
  match checkAll E sigs with
  | .error e => .error e
  | .ok () =>
    let all := allIdx sigs
    if all.length ≠ distinctCount all then .error .indexNotUnique
    else if all.length < E.k then .error .notEnough
    else if !E.batchOk (sigs.map fun s => (s.vk, s.stake)) then .error .batchPath
    else .ok ()

def verify (E : Env) (sigs : List Sig) : Except Err Unit :=
  match preliminary E sigs with
  | .error e => .error e
  | .ok () => if E.aggOk (sigs.map fun s => (s.vk, s.sigma)) then .ok () else .error .aggInvalid

theorem checkIndices_ok (E : Env) (s : Sig) : ∀ l, checkIndices E s l = .ok () →
    ∀ i ∈ l, i < E.m ∧ E.won s.sigma i s.stake = true := by
  intro l
  induction l with
  | nil => intro _ i hi; simp at hi
  | cons a r ih =>
    intro h i hi
    simp only [checkIndices] at h
    split at h; · simp at h
    split at h; · simp at h
    rename_i h1 h2
    rcases List.mem_cons.mp hi with rfl | hi
    · exact ⟨by omega, by simpa using h2⟩
    · exact ih h i hi

theorem checkAll_ok (E : Env) : ∀ sigs, checkAll E sigs = .ok () →
    ∀ s ∈ sigs, ∀ i ∈ s.idxs, i < E.m ∧ E.won s.sigma i s.stake = true := by
  intro sigs
  induction sigs with
  | nil => intro _ s hs; simp at hs
  | cons a r ih =>
    intro h s hs
    simp only [checkAll] at h
    split at h; · simp at h
    rename_i hc
    rcases List.mem_cons.mp hs with rfl | hs
    · exact checkIndices_ok E _ _ hc
    · exact ih h s hs

/-- **Structural soundness of the verifier as it is** -/
theorem verify_structural (E : Env) (sigs : List Sig) (h : verify E sigs = .ok ()) :
    E.k ≤ (allIdx sigs).length ∧ (allIdx sigs).Nodup ∧
    (∀ s ∈ sigs, ∀ i ∈ s.idxs, i < E.m ∧ E.won s.sigma i s.stake = true) ∧
    E.batchOk (sigs.map fun s => (s.vk, s.stake)) = true ∧
    E.aggOk (sigs.map fun s => (s.vk, s.sigma)) = true := by
  unfold verify at h
  split at h; · simp at h
  rename_i hp
  split at h
  · rename_i hagg
    unfold preliminary at hp
    split at hp; · simp at hp
    rename_i hall
    simp only at hp
    split at hp; · simp at hp
    rename_i hu
    split at hp; · simp at hp
    rename_i hk
    split at hp; · simp at hp
    rename_i hb
    exact ⟨by omega, nodup_of_distinctCount _ (by simpa using hu), checkAll_ok E sigs hall,
      by simpa using hb, hagg⟩
  · simp at h

/-- FIXED FINDING: with the old bound test index `m` itself passed `check_indices` -/
def E0 : Env := { m := 5, k := 3, won := fun _ _ _ => true, batchOk := fun _ => true, aggOk := fun _ => true }
theorem index_eq_m_counterexample :
    checkIndicesOld E0 { sigma := 1, idxs := [0, 1, 5], vk := 0, stake := 1 } [0, 1, 5] = .ok () ∧
    checkIndices E0 { sigma := 1, idxs := [0, 1, 5], vk := 0, stake := 1 } [0, 1, 5] = .error .indexBound := by
  exact ⟨rfl, rfl⟩

/-! ### batch verification and the panic outcome of the batch-path verifier -/

/-- outcome of the real verifier including the panic of the batch-path code on hostile input
(`batch = 2`; see `C09_stm_empty_panic_note`) -/
inductive Out where
  | ok | err (e : Err) | panic
  deriving DecidableEq, Repr

/-- `batchTri`: 0 = path invalid, 1 = valid, 2 = the batch-path verifier panics -/
def verifyM (E : Env) (batchTri : Nat) (sigs : List Sig) : Out :=
  match checkAll E sigs with
  | .error e => .err e
  | .ok () =>
    let all := allIdx sigs
    if all.length ≠ distinctCount all then .err .indexNotUnique
    else if all.length < E.k then .err .notEnough
    else if batchTri = 2 then .panic
    else if batchTri ≠ 1 then .err .batchPath
    else if E.aggOk (sigs.map fun s => (s.vk, s.sigma)) then .ok else .err .aggInvalid

/-- the part of `verifyM` that `batch_verify` runs per member (`preliminary_verify`) -/
def preliminaryM (E : Env) (batchTri : Nat) (sigs : List Sig) : Out :=
  match checkAll E sigs with
  | .error e => .err e
  | .ok () =>
    let all := allIdx sigs
    if all.length ≠ distinctCount all then .err .indexNotUnique
    else if all.length < E.k then .err .notEnough
    else if batchTri = 2 then .panic
    else if batchTri ≠ 1 then .err .batchPath
    else .ok

/-- `batch_verify`: every member passes `preliminary_verify` (first failure is returned), an empty
member makes `BlsSignature::aggregate(..).unwrap()` panic, then one batched pairing check -/
def batchVerify : List (Env × Nat × List Sig) → Bool → Out
  | [], final => if final then .ok else .err .aggInvalid
  | (E, bt, sigs) :: r, final =>
    match preliminaryM E bt sigs with
    | .ok => if sigs.isEmpty then .panic else batchVerify r final
    | o => o

theorem batchVerify_members (ms : List (Env × Nat × List Sig)) (final : Bool)
    (h : batchVerify ms final = .ok) : ∀ mbr ∈ ms, preliminaryM mbr.1 mbr.2.1 mbr.2.2 = .ok := by
  induction ms with
  | nil => intro m hm; simp at hm
  | cons a r ih =>
    obtain ⟨E, bt, sigs⟩ := a
    intro mbr hm
    simp only [batchVerify] at h
    split at h
    · rename_i hp
      split at h
      · simp at h
      · rcases List.mem_cons.mp hm with rfl | hm
        · exact hp
        · exact ih h mbr hm
    · rename_i o hne
      rcases List.mem_cons.mp hm with rfl | hm
      · exact absurd h (by intro hh; exact hne (by simpa using hh))
      · exact absurd h (by intro hh; exact hne (by simpa using hh))

theorem verifyM_of_preliminary (E : Env) (bt : Nat) (sigs : List Sig)
    (hp : preliminaryM E bt sigs = .ok) (hagg : E.aggOk (sigs.map fun s => (s.vk, s.sigma)) = true) :
    verifyM E bt sigs = .ok := by
  unfold preliminaryM at hp
  unfold verifyM
  split at hp
  · simp at hp
  · simp only at hp ⊢
    split at hp; · simp at hp
    split at hp; · simp at hp
    split at hp; · simp at hp
    split at hp; · simp at hp
    rename_i h1 h2 h3 h4
    simp [h1, h2, h3, h4, hagg]

theorem verifyM_structural (E : Env) (bt : Nat) (sigs : List Sig) (h : verifyM E bt sigs = .ok) :
    E.k ≤ (allIdx sigs).length ∧ (allIdx sigs).Nodup ∧
    (∀ s ∈ sigs, ∀ i ∈ s.idxs, i < E.m ∧ E.won s.sigma i s.stake = true) ∧
    bt = 1 ∧ E.aggOk (sigs.map fun s => (s.vk, s.sigma)) = true := by
  unfold verifyM at h
  split at h; · simp at h
  rename_i hall
  simp only at h
  split at h; · simp at h
  rename_i hu
  split at h; · simp at h
  rename_i hk
  split at h; · simp at h
  rename_i hb2
  split at h; · simp at h
  rename_i hb0
  split at h
  · rename_i hagg
    exact ⟨by omega, nodup_of_distinctCount _ (by simpa using hu), checkAll_ok E sigs hall,
      by simpa using hb0, hagg⟩
  · simp at h

end StmVerify
