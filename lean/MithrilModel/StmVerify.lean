namespace StmVerify

structure Sig where
  sigma : Nat
  idxs : List Nat
  vk : Nat          -- claimed registered party
  stake : Nat
deriving Repr

inductive Err where
  | indexBound | lotteryLost | indexNotUnique | notEnough | batchPath | aggInvalid
deriving DecidableEq, Repr

structure Env where
  m : Nat
  k : Nat
  won : Nat → Nat → Nat → Bool        -- sigma, index, stake ↦ lottery verdict (message, root, phi_f, total fixed)
  batchOk : List (Nat × Nat) → Bool   -- claimed (vk, stake) leaves against the commitment and the path
  aggOk : List (Nat × Nat) → Bool     -- (vk, sigma) pairs against msg ‖ root

/-- `check_indices` as it is: `index > m` -/
def checkIndices (E : Env) (s : Sig) : List Nat → Except Err Unit
  | [] => .ok ()
  | i :: r =>
    if i > E.m then .error .indexBound
    else if !E.won s.sigma i s.stake then .error .lotteryLost
    else checkIndices E s r

def checkAll (E : Env) : List Sig → Except Err Unit
  | [] => .ok ()
  | s :: r =>
    match checkIndices E s s.idxs with
    | .error e => .error e
    | .ok () => checkAll E r

def allIdx (sigs : List Sig) : List Nat := sigs.flatMap (·.idxs)

/-- number of distinct elements = size of the `HashSet` the code fills -/
def distinctCount : List Nat → Nat
  | [] => 0
  | x :: r => if x ∈ r then distinctCount r else distinctCount r + 1

theorem distinctCount_le : ∀ l : List Nat, distinctCount l ≤ l.length
  | [] => Nat.le_refl _
  | x :: r => by
    have := distinctCount_le r
    simp only [distinctCount, List.length_cons]
    split <;> omega

theorem nodup_of_distinctCount : ∀ l : List Nat, l.length = distinctCount l → l.Nodup
  | [] => fun _ => List.nodup_nil
  | x :: r => by
    intro h
    have hle := distinctCount_le r
    simp only [distinctCount, List.length_cons] at h
    split at h
    · omega
    · rename_i hx
      exact List.nodup_cons.mpr ⟨hx, nodup_of_distinctCount r (by omega)⟩

def preliminary (E : Env) (sigs : List Sig) : Except Err Unit :=
  match checkAll E sigs with
  | .error e => .error e
  | .ok () =>
    let all := allIdx sigs
    if all.length ≠ distinctCount all then .error .indexNotUnique
    else if all.length < E.k then .error .notEnough
    else if !E.batchOk (sigs.map fun s => (s.vk, s.stake)) then .error .batchPath
    else .ok ()

def verify (E : Env) (sigs : List Sig) : Except Err Unit :=
  match preliminary E sigs with
  | .error e => .error e
  | .ok () => if E.aggOk (sigs.map fun s => (s.vk, s.sigma)) then .ok () else .error .aggInvalid

theorem checkIndices_ok (E : Env) (s : Sig) : ∀ l, checkIndices E s l = .ok () →
    ∀ i ∈ l, i ≤ E.m ∧ E.won s.sigma i s.stake = true := by
  intro l
  induction l with
  | nil => intro _ i hi; simp at hi
  | cons a r ih =>
    intro h i hi
    simp only [checkIndices] at h
    split at h; · simp at h
    split at h; · simp at h
    rename_i h1 h2
    rcases List.mem_cons.mp hi with rfl | hi
    · exact ⟨by omega, by simpa using h2⟩
    · exact ih h i hi

theorem checkAll_ok (E : Env) : ∀ sigs, checkAll E sigs = .ok () →
    ∀ s ∈ sigs, ∀ i ∈ s.idxs, i ≤ E.m ∧ E.won s.sigma i s.stake = true := by
  intro sigs
  induction sigs with
  | nil => intro _ s hs; simp at hs
  | cons a r ih =>
    intro h s hs
    simp only [checkAll] at h
    split at h; · simp at h
    rename_i hc
    rcases List.mem_cons.mp hs with rfl | hs
    · exact checkIndices_ok E _ _ hc
    · exact ih h s hs

/-- **Structural soundness of the verifier as it is** -/
theorem verify_structural (E : Env) (sigs : List Sig) (h : verify E sigs = .ok ()) :
    E.k ≤ (allIdx sigs).length ∧ (allIdx sigs).Nodup ∧
    (∀ s ∈ sigs, ∀ i ∈ s.idxs, i ≤ E.m ∧ E.won s.sigma i s.stake = true) ∧
    E.batchOk (sigs.map fun s => (s.vk, s.stake)) = true ∧
    E.aggOk (sigs.map fun s => (s.vk, s.sigma)) = true := by
  unfold verify at h
  split at h; · simp at h
  rename_i hp
  split at h
  · rename_i hagg
    unfold preliminary at hp
    split at hp; · simp at hp
    rename_i hall
    simp only at hp
    split at hp; · simp at hp
    rename_i hu
    split at hp; · simp at hp
    rename_i hk
    split at hp; · simp at hp
    rename_i hb
    exact ⟨by omega, nodup_of_distinctCount _ (by simpa using hu), checkAll_ok E sigs hall,
      by simpa using hb, hagg⟩
  · simp at h

/-- index `m` itself is accepted: the bound test is `>` -/
def E0 : Env := { m := 5, k := 3, won := fun _ _ _ => true, batchOk := fun _ => true, aggOk := fun _ => true }
theorem index_eq_m_counterexample :
    verify E0 [{ sigma := 1, idxs := [0, 1, 5], vk := 0, stake := 1 }] = .ok () ∧ ¬ (5 < E0.m) := by
  exact ⟨rfl, by decide⟩

end StmVerify
