import MithrilModel.CertHash
/-!
Hash pre-images of certificates (`mithril-common/src/entities/{certificate, certificate_metadata,
protocol_parameters, protocol_message, signed_entity_type}.rs`), byte for byte, parametric in the
hash `H` (SHA-256 in the driver). Strings are their UTF-8 bytes; `hexOf` is lower-case hex text.
-/
namespace CertModel
open CertHash

def nib (n : Nat) : UInt8 := if n < 10 then (48 + n).toUInt8 else (87 + n).toUInt8

/-- lower-case hex text of a byte string (`hex::encode`) -/
def hexOf : Bytes → Bytes
  | [] => []
  | b :: r => nib (b.toNat / 16) :: nib (b.toNat % 16) :: hexOf r

def u32be (n : Nat) : Bytes :=
  [ (n / 2^24 % 256).toUInt8, (n / 2^16 % 256).toUInt8, (n / 2^8 % 256).toUInt8, (n % 256).toUInt8 ]

def u16be (n : Nat) : Bytes := [ (n / 2^8 % 256).toUInt8, (n % 256).toUInt8 ]

/-- an `i64` given as an integer in range, two's complement big endian -/
def i64be (z : Int) : Bytes := u64be (if z < 0 then (z + 2 ^ 64).toNat else z.toNat)

/-- how `phi_f` enters the hash and `==` (after the `fix:` commit): a value the fixed representation holds by its
U8F24 pattern, any other value (negative, ≥ 256, non-finite) by its IEEE bits behind a tag -/
inductive Phi where
  | fixed (v : Nat)       -- `U8F24::checked_from_num(phi_f) = Some v`: the 32-bit pattern
  | raw (bits : Nat)      -- `None`: `phi_f.to_bits()`
  deriving DecidableEq, Repr

structure Params where
  k : Nat
  m : Nat
  phi : Phi
  deriving DecidableEq, Repr

structure Party where
  id : Bytes
  stake : Nat
  deriving DecidableEq, Repr

structure Meta where
  network : Bytes
  version : Bytes
  params : Params
  initiatedNs : Int
  sealedNs : Int
  signers : List Party
  deriving DecidableEq, Repr

inductive Entity where
  | msd (e : Nat) | csd (e : Nat) | cdb (e i : Nat) | ctx (e b : Nat) | cbtx (e b o : Nat)
  deriving DecidableEq, Repr

structure Cert where
  previousHash : Bytes
  epoch : Nat
  metadata : Meta
  pm : List (Bytes × Bytes)      -- (key text, value) in key order
  signedMessage : Bytes
  avkHex : Bytes                 -- `aggregate_verification_key.to_json_hex()`
  entity : Option Entity         -- `none` for a genesis certificate
  sigHex : Bytes                 -- `to_bytes_hex_for_certificate_hash()`
  ancProver : Option Bytes
  ancVerifier : Option Bytes
  deriving DecidableEq, Repr

variable (H : Bytes → Bytes)

/-- `b"phi_f out of range"` -/
def phiTag : Bytes := [112, 104, 105, 95, 102, 32, 111, 117, 116, 32, 111, 102, 32, 114, 97, 110, 103, 101]

def phiSeg : Phi → Bytes
  | .fixed v => u32be v
  | .raw b => phiTag ++ u64be b

def paramsSegs (p : Params) : List Bytes := [u64be p.k, u64be p.m, phiSeg p.phi]
def paramsHash (p : Params) : Bytes := hexOf (H (paramsSegs p).flatten)

def partySegs (p : Party) : List Bytes := [p.id, u64be p.stake]
def partyHash (p : Party) : Bytes := hexOf (H (partySegs p).flatten)

def metaSegs (m : Meta) : List Bytes :=
  [m.network, m.version, paramsHash H m.params, i64be m.initiatedNs, i64be m.sealedNs] ++ m.signers.map (partyHash H)
def metaHash (m : Meta) : Bytes := hexOf (H (metaSegs H m).flatten)

def pmSegs (pm : List (Bytes × Bytes)) : List Bytes := pm.flatMap fun kv => [kv.1, kv.2]
def pmHash (pm : List (Bytes × Bytes)) : Bytes := hexOf (H (pmSegs pm).flatten)

/-- `SignedEntityType::feed_hash` -/
def feedEntity : Entity → Bytes
  | .msd e => u64be e
  | .csd e => u64be e
  | .cdb e i => u64be e ++ u64be i
  | .ctx e b => u64be e ++ u64be b
  | .cbtx e b o => u16be 5 ++ u64be e ++ u64be b ++ u64be o

def optB : Option Bytes → Bytes
  | none => []
  | some b => b

/-- the ten segments of `Certificate::try_compute_hash` -/
def certSegs (c : Cert) : List Bytes :=
  [c.previousHash, u64be c.epoch, metaHash H c.metadata, pmHash H c.pm, c.signedMessage, c.avkHex,
   (match c.entity with | none => [] | some e => feedEntity e), c.sigHex, optB c.ancProver, optB c.ancVerifier]

def certHash (c : Cert) : Bytes := hexOf (H (certSegs H c).flatten)

/-! ### generic single-segment lemma -/

theorem flatten_single {α} (A B : List (List α)) (x y : List α)
    (h : (A ++ [x] ++ B).flatten = (A ++ [y] ++ B).flatten) : x = y := by
  simp only [List.flatten_append, List.flatten_cons, List.flatten_nil, List.append_nil] at h
  exact mid_cancel A.flatten B.flatten x y h

/-- two segment lists that agree outside position `i` and have equal flattenings agree at `i` -/
theorem segs_single (s t : List (List UInt8)) (i : Nat) (hl : s.length = t.length)
    (hagree : ∀ j, j ≠ i → s[j]? = t[j]?) (hflat : s.flatten = t.flatten) : s[i]? = t[i]? := by
  by_cases hi : i < s.length
  · have hit : i < t.length := by omega
    have hs : s = s.take i ++ [s[i]] ++ s.drop (i + 1) := by
      rw [List.append_assoc, List.singleton_append, List.getElem_cons_drop, List.take_append_drop]
    have ht : t = t.take i ++ [t[i]] ++ t.drop (i + 1) := by
      rw [List.append_assoc, List.singleton_append, List.getElem_cons_drop, List.take_append_drop]
    have htake : s.take i = t.take i := by
      apply List.ext_getElem?
      intro j
      by_cases hj : j < i
      · rw [List.getElem?_take_of_lt hj, List.getElem?_take_of_lt hj]; exact hagree j (by omega)
      · rw [List.getElem?_take_eq_none (by omega), List.getElem?_take_eq_none (by omega)]
    have hdrop : s.drop (i + 1) = t.drop (i + 1) := by
      apply List.ext_getElem?
      intro j
      rw [List.getElem?_drop, List.getElem?_drop]; exact hagree _ (by omega)
    rw [hs, ht, htake, hdrop] at hflat
    have := flatten_single _ _ _ _ hflat
    rw [List.getElem?_eq_getElem hi, List.getElem?_eq_getElem hit, this]
  · rw [List.getElem?_eq_none (by omega), List.getElem?_eq_none (by omega)]

/-! ### field encoders are injective -/

theorem nib_inj : ∀ a b : Fin 16, nib a.val = nib b.val → a = b := by decide

theorem hexOf_inj : ∀ (x y : Bytes), hexOf x = hexOf y → x = y := by
  intro x
  induction x with
  | nil => intro y h; cases y with
    | nil => rfl
    | cons b r => simp [hexOf] at h
  | cons a r ih =>
    intro y h
    cases y with
    | nil => simp [hexOf] at h
    | cons b s =>
      simp only [hexOf, List.cons.injEq] at h
      obtain ⟨h1, h2, h3⟩ := h
      have ha := a.toNat_lt
      have hb := b.toNat_lt
      have e1 := nib_inj ⟨a.toNat / 16, by omega⟩ ⟨b.toNat / 16, by omega⟩ h1
      have e2 := nib_inj ⟨a.toNat % 16, by omega⟩ ⟨b.toNat % 16, by omega⟩ h2
      have e1' : a.toNat / 16 = b.toNat / 16 := by simpa using congrArg Fin.val e1
      have e2' : a.toNat % 16 = b.toNat % 16 := by simpa using congrArg Fin.val e2
      have : a.toNat = b.toNat := by omega
      rw [UInt8.toNat_inj.mp this, ih s h3]

theorem u32be_inj {n m : Nat} (hn : n < 2^32) (hm : m < 2^32) (h : u32be n = u32be m) : n = m := by
  unfold u32be at h
  simp only [List.cons.injEq, and_true] at h
  obtain ⟨h0, h1, h2, h3⟩ := h
  have e0 := toUInt8_inj (Nat.mod_lt _ (by decide)) (Nat.mod_lt _ (by decide)) h0
  have e1 := toUInt8_inj (Nat.mod_lt _ (by decide)) (Nat.mod_lt _ (by decide)) h1
  have e2 := toUInt8_inj (Nat.mod_lt _ (by decide)) (Nat.mod_lt _ (by decide)) h2
  have e3 := toUInt8_inj (Nat.mod_lt _ (by decide)) (Nat.mod_lt _ (by decide)) h3
  omega

theorem i64be_inj {a b : Int} (ha : -(2^63) ≤ a ∧ a < 2^63) (hb : -(2^63) ≤ b ∧ b < 2^63)
    (h : i64be a = i64be b) : a = b := by
  unfold i64be at h
  have := u64be_inj (by split <;> omega) (by split <;> omega) h
  split at this <;> split at this <;> omega

/-- equal nested hashes: equal pre-images or a collision -/
theorem hexH_eq (x y : Bytes) (h : hexOf (H x) = hexOf (H y)) : x = y ∨ Collision H := by
  have := hexOf_inj _ _ h
  by_cases he : x = y
  · exact Or.inl he
  · exact Or.inr ⟨x, y, he, this⟩

def PhiOk : Phi → Prop
  | .fixed v => v < 2 ^ 32
  | .raw b => b < 2 ^ 64

theorem phiSeg_inj {a b : Phi} (ha : PhiOk a) (hb : PhiOk b) (h : phiSeg a = phiSeg b) : a = b := by
  cases a with
  | fixed v =>
    cases b with
    | fixed w => exact congrArg Phi.fixed (u32be_inj ha hb h)
    | raw w =>
      have := congrArg List.length h
      simp [phiSeg, phiTag, u32be, u64be] at this
  | raw v =>
    cases b with
    | fixed w =>
      have := congrArg List.length h
      simp [phiSeg, phiTag, u32be, u64be] at this
    | raw w =>
      simp only [phiSeg] at h
      exact congrArg Phi.raw (u64be_inj ha hb (List.append_cancel_left h))

end CertModel
