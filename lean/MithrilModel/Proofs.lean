import MithrilModel.MkProof
import MithrilModel.MmrBuild
import MithrilModel.Leaf
import MithrilModel.CertModel
/-!
Client-side verification of certified transaction / block sets
(`mithril-common/src/messages/{cardano_transactions_proof, proof_v2/*}.rs`,
`entities/{mk_set_proof, cardano_transactions_set_proof}.rs`) on top of the `MKMapProof` model of C09,
the stake-distribution tree (`signable_builder/cardano_stake_distribution.rs`), and the recomputation
of the protocol message (`mithril-client/src/message.rs`).
-/
namespace Proofs
open MkProof

variable {α : Type} [DecidableEq α] (merge : α → α → α)

/-- `MkSetProof::verify` / `CardanoTransactionsSetProof::verify`: the proof verifies and contains the
leaf of every item -/
def setVerify (leaves : List α) (p : MapProof α) : Bool :=
  p.verify merge && leaves.all fun l => p.contains l

inductive Err where
  | invalidSetProof | noCertifiedItem | nonMatchingRoot
  deriving DecidableEq, Repr

/-- the roots-agree loop of `CardanoTransactionsProofsMessage::verify` -/
def rootsLoop : List (List α × MapProof α) → Option α → Except Err (Option α)
  | [], r => .ok r
  | (ls, p) :: rest, r =>
    if !setVerify merge ls p then .error .invalidSetProof
    else
      match r with
      | none => rootsLoop rest (some p.master.root)
      | some r0 => if r0 = p.master.root then rootsLoop rest (some r0) else .error .nonMatchingRoot

/-- `CardanoTransactionsProofsMessage::verify` (legacy, several parts) -/
def verifyLegacy (parts : List (List α × MapProof α)) : Except Err α :=
  match rootsLoop merge parts none with
  | .error e => .error e
  | .ok none => .error .noCertifiedItem
  | .ok (some r) => .ok r

/-- `CardanoTransactionsProofsV2Message::verify` / `CardanoBlocksProofsMessage::verify` (one part) -/
def verifyV2 (part : Option (List α × MapProof α)) : Except Err α :=
  match part with
  | none => .error .noCertifiedItem
  | some (ls, p) => if setVerify merge ls p then .ok p.master.root else .error .invalidSetProof

theorem rootsLoop_sound : ∀ (parts : List (List α × MapProof α)) (r0 : Option α) (r : Option α),
    rootsLoop merge parts r0 = .ok r →
    (∀ x, r0 = some x → r = some x) ∧
    ∀ part ∈ parts, setVerify merge part.1 part.2 = true ∧ r = some part.2.master.root := by
  intro parts
  induction parts with
  | nil => intro r0 r h; simp [rootsLoop] at h; subst h; exact ⟨fun x hx => hx, by simp⟩
  | cons a rest ih =>
    obtain ⟨ls, p⟩ := a
    intro r0 r h
    simp only [rootsLoop] at h
    split at h
    · simp at h
    · rename_i hv
      have hv' : setVerify merge ls p = true := by simpa using hv
      cases r0 with
      | none =>
        simp only at h
        obtain ⟨h1, h2⟩ := ih _ _ h
        refine ⟨fun x hx => by simp at hx, ?_⟩
        intro part hp
        rcases List.mem_cons.mp hp with rfl | hp
        · exact ⟨hv', h1 _ rfl⟩
        · exact h2 part hp
      | some x0 =>
        simp only at h
        split at h
        · rename_i he
          obtain ⟨h1, h2⟩ := ih _ _ h
          refine ⟨fun x hx => by simp at hx; subst hx; exact h1 _ rfl, ?_⟩
          intro part hp
          rcases List.mem_cons.mp hp with rfl | hp
          · exact ⟨hv', by rw [h1 _ rfl, he]⟩
          · exact h2 part hp
        · simp at h

/-- **set soundness (legacy)**: an accepted response has at least one part, every part's proof verifies
and contains the leaf of every reported item, and all parts prove under the single returned root -/
theorem verifyLegacy_sound (parts : List (List α × MapProof α)) (root : α)
    (h : verifyLegacy merge parts = .ok root) :
    parts ≠ [] ∧ ∀ part ∈ parts, part.2.verify merge = true ∧ part.2.master.root = root ∧
      ∀ l ∈ part.1, part.2.contains l = true := by
  unfold verifyLegacy at h
  split at h
  · simp at h
  · simp at h
  · rename_i r hr
    simp only [Except.ok.injEq] at h; subst h
    obtain ⟨_, h2⟩ := rootsLoop_sound merge parts none _ hr
    refine ⟨?_, ?_⟩
    · intro he; subst he; simp [rootsLoop] at hr
    · intro part hp
      obtain ⟨hv, hroot⟩ := h2 part hp
      unfold setVerify at hv
      simp only [Bool.and_eq_true, List.all_eq_true] at hv
      exact ⟨hv.1, by simpa using hroot.symm, hv.2⟩

/-- parts proving under different roots are rejected -/
theorem roots_must_agree (l1 l2 : List α) (p1 p2 : MapProof α) (hne : p1.master.root ≠ p2.master.root) :
    ∀ r, verifyLegacy merge [(l1, p1), (l2, p2)] ≠ .ok r := by
  intro r h
  obtain ⟨_, hp⟩ := verifyLegacy_sound merge _ r h
  have a := (hp (l1, p1) (by simp)).2.1
  have b := (hp (l2, p2) (by simp)).2.1
  exact hne (by simpa using a.trans b.symm)

theorem verifyV2_sound (ls : List α) (p : MapProof α) (root : α) (h : verifyV2 merge (some (ls, p)) = .ok root) :
    p.verify merge = true ∧ p.master.root = root ∧ ∀ l ∈ ls, p.contains l = true := by
  unfold verifyV2 at h
  simp only at h
  split at h
  · rename_i hv
    unfold setVerify at hv
    simp only [Bool.and_eq_true, List.all_eq_true] at hv
    simp only [Except.ok.injEq] at h
    exact ⟨hv.1, h, hv.2⟩
  · simp at h

/-! ### stake distribution leaf `format!("{}{}", pool_id, stake)` -/

def natDigits (n : Nat) : List Char := (toString n).toList

def stakeLeaf (pool : List Char) (stake : Nat) : List Char := pool ++ natDigits stake

end Proofs
