import MithrilModel.Chain
/-! C14: local conditions on every stored certificate imply that the client verifier accepts the
whole chain from any stored certificate (local-to-global, by induction on the insertion rank). -/
namespace Chain

/-- what the certifier must establish for each certificate it inserts (`rank` = insertion order) -/
def LocallyGood (retr : Nat → Option Cert) (rank : Cert → Nat) (c : Cert) : Prop :=
  Integrity c ∧
  if c.isGenesis then c.genesisSigOk = true
  else
    c.hash ≠ c.prevHash ∧ c.multiSigOk = true ∧
    ∃ p, retr c.prevHash = some p ∧ p.hash = c.prevHash ∧ rank p < rank c ∧
      p.epoch ≤ c.epoch ∧ c.epoch ≤ p.epoch + 1 ∧ avkChain c p = true ∧ paramsChain c p = true

theorem verifyCertificate_of_good {retr rank c} (h : LocallyGood retr rank c) :
    (c.isGenesis = true ∧ verifyCertificate retr c = .ok none) ∨
    (∃ p, retr c.prevHash = some p ∧ rank p < rank c ∧ verifyCertificate retr c = .ok (some p)) := by
  obtain ⟨⟨h1, h2, h3⟩, h⟩ := h
  by_cases hg : c.isGenesis = true
  · left
    simp only [hg, if_true] at h
    exact ⟨hg, by simp [verifyCertificate, hg, h1, h2, h3, h]⟩
  · right
    simp only [hg] at h
    obtain ⟨hne, hms, p, hp, hph, hr, hd1, hd2, ha, hpa⟩ := h
    refine ⟨p, hp, hr, ?_⟩
    have hd' : ¬ (absDiff c.epoch p.epoch > 1 ∨ p.epoch > c.epoch) := by
      unfold absDiff; split <;> omega
    simp [verifyCertificate, hg, hp, integrityStd, hne, h1, h2, h3, hms, hd', hph, ha, hpa]

/-- **every stored certificate verifies with its whole chain** -/
theorem verifyChain_of_locally_good (retr : Nat → Option Cert) (rank : Cert → Nat)
    (stored : Cert → Prop)
    (hstored : ∀ c, stored c → LocallyGood retr rank c)
    (hclosed : ∀ c p, stored c → retr c.prevHash = some p → c.isGenesis = false → stored p) :
    ∀ (n : Nat) (c : Cert), stored c → rank c < n → ∀ fuel, n ≤ fuel → verifyChain retr fuel c = .ok () := by
  intro n
  induction n with
  | zero => intro c _ h; omega
  | succ n ih =>
    intro c hc hr fuel hf
    cases fuel with
    | zero => omega
    | succ fuel =>
      rcases verifyCertificate_of_good (hstored c hc) with ⟨_, h⟩ | ⟨p, hp, hrp, h⟩
      · simp [verifyChain, h]
      · have hg : c.isGenesis = false := (verifyCertificate_ok_some h).1
        simp only [verifyChain, h]
        exact ih p (hclosed c p hc hp hg) (by omega) fuel (by omega)

#print axioms verifyChain_of_locally_good
end Chain
