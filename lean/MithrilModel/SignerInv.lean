import MithrilModel.Signer
/-!
C20 — invariants of the signer model `Signer.step`, by induction over event lists.
-/
namespace Signer

/-! ### frame facts: which fields each sub-step can touch -/

/-- the step leaves the publication log, the signed-beacon table, the chain epoch and the mark-fault budget alone -/
structure SameCore (s s' : State) : Prop where
  pubs : s'.pubs = s.pubs
  signed : s'.st.signed = s.st.signed
  epoch : s'.env.epoch = s.env.epoch
  markFail : s'.env.markFail = s.env.markFail

theorem SameCore.refl (s : State) : SameCore s s := ⟨rfl, rfl, rfl, rfl⟩

theorem registerSigner_same (s : State) (d : EpochData) : SameCore s (registerSigner s d).1 := by
  unfold registerSigner
  dsimp only
  repeat' split
  all_goals exact ⟨rfl, rfl, rfl, rfl⟩

/-- weaker frame, enough for the once-invariant: the signed-beacon table may be pruned, but never below the
current epoch -/
structure OnceFrame (s s' : State) : Prop where
  pubs : s'.pubs = s.pubs
  epoch : s'.env.epoch = s.env.epoch
  markFail : s'.env.markFail = s.env.markFail
  signed : ∀ x, (s.env.epoch, x) ∈ s.st.signed → (s.env.epoch, x) ∈ s'.st.signed

theorem SameCore.onceFrame {s s' : State} (h : SameCore s s') : OnceFrame s s' :=
  ⟨h.pubs, h.epoch, h.markFail, fun x hx => by rw [h.signed]; exact hx⟩

theorem prune_signed_keeps (ret : Option Nat) (t : Nat) (st : Stores) (x : Entity)
    (h : (t, x) ∈ st.signed) : (t, x) ∈ (prune ret t st).signed := by
  unfold prune
  cases ret with
  | none => exact h
  | some l =>
    dsimp only
    split
    · exact List.mem_filter.mpr ⟨h, by simp⟩
    · exact h

theorem registerStep_onceFrame (s : State) (d : EpochData) : OnceFrame s (registerStep s d) := by
  unfold registerStep
  dsimp only
  generalize hs1 : ({ s with st := { s.st with stakes := _ }, data := some d } : State) = s1
  have h1 : SameCore s s1 := by subst hs1; exact ⟨rfl, rfl, rfl, rfl⟩
  have h2 := registerSigner_same s1 d
  split
  · rename_i s2 heq
    have : (registerSigner s1 d).1 = s2 := by rw [heq]
    rw [this] at h2
    exact ⟨h2.pubs.trans h1.pubs, h2.epoch.trans h1.epoch, h2.markFail.trans h1.markFail,
      fun x hx => by rw [h2.signed, h1.signed]; exact hx⟩
  · rename_i s2 heq
    have : (registerSigner s1 d).1 = s2 := by rw [heq]
    rw [this] at h2
    refine ⟨h2.pubs.trans h1.pubs, h2.epoch.trans h1.epoch, h2.markFail.trans h1.markFail, fun x hx => ?_⟩
    dsimp only
    apply prune_signed_keeps
    rw [h2.signed, h1.signed]; exact hx

theorem tickUnreg_onceFrame (s : State) (e : Nat) : OnceFrame s (tickUnreg s e) := by
  unfold tickUnreg
  dsimp only
  repeat' split
  all_goals first
    | exact (SameCore.onceFrame ⟨rfl, rfl, rfl, rfl⟩)
    | exact registerStep_onceFrame _ _

theorem tickNotAble_same (s : State) (e : Nat) : SameCore s (tickNotAble s e) := by
  unfold tickNotAble
  dsimp only
  split <;> exact ⟨rfl, rfl, rfl, rfl⟩

/-! ### at most one publication per signed entity and beacon -/

def ents (s : State) : List Entity := s.pubs.map (·.entity)

/-- invariant behind once-ness; `noFault`: no failure of `mark_beacon_as_signed` is pending -/
structure InvOnce (s : State) : Prop where
  noFault : s.env.markFail = 0
  nodup : (ents s).Nodup
  le : ∀ x ∈ ents s, x.signEpoch ≤ s.env.epoch
  marked : ∀ x ∈ ents s, x.signEpoch = s.env.epoch → (s.env.epoch, x) ∈ s.st.signed

theorem InvOnce.frame {s s' : State} (h : InvOnce s) (f : OnceFrame s s') : InvOnce s' := by
  have he : ents s' = ents s := by unfold ents; rw [f.pubs]
  refine ⟨by rw [f.markFail]; exact h.noFault, by rw [he]; exact h.nodup, ?_, ?_⟩
  · intro x hx; rw [he] at hx; rw [f.epoch]; exact h.le x hx
  · intro x hx hxe; rw [he] at hx; rw [f.epoch] at hxe ⊢; exact f.signed x (h.marked x hx hxe)

theorem isSigned_of_mem (st : Stores) (t : Nat) (x : Entity) (h : (t, x) ∈ st.signed) : isSigned st x = true := by
  unfold isSigned
  exact List.any_eq_true.mpr ⟨(t, x), h, by simp⟩

theorem entityOf_signEpoch (t imm : Nat) (d : Disc) (h : d = Disc.csd → t ≠ 0) : (entityOf t imm d).signEpoch = t := by
  cases d with
  | msd => rfl
  | cdb => rfl
  | csd =>
    have := h rfl
    simp only [entityOf, Entity.signEpoch]
    omega

theorem beaconToSign_spec (s : State) (d : EpochData) (x : Entity) (h : beaconToSign s d = some x)
    (h0 : ¬ (d.allowed.contains Disc.csd && s.env.epoch == 0) = true) :
    x.signEpoch = s.env.epoch ∧ isSigned s.st x = false := by
  unfold beaconToSign at h
  have hm := List.mem_of_head? h
  rw [List.mem_filter] at hm
  obtain ⟨hm1, hm2⟩ := hm
  rw [List.mem_map] at hm1
  obtain ⟨dd, hdd, rfl⟩ := hm1
  refine ⟨?_, by simpa using hm2⟩
  apply entityOf_signEpoch
  intro hc hz
  apply h0
  subst hc
  simp [hz, List.contains_iff_mem, hdd]

theorem mark_onceStep (s : State) (x : Entity) (h : s.env.markFail = 0) :
    (mark s x).pubs = s.pubs ∧ (mark s x).env.epoch = s.env.epoch ∧ (mark s x).env.markFail = 0 ∧
    (mark s x).st.signed = s.st.signed ++ [(s.env.epoch, x)] := by
  unfold mark
  have hn : ¬ (s.env.markFail > 0) := by omega
  rw [if_neg hn]
  exact ⟨rfl, rfl, h, rfl⟩

/-- marking without a new publication -/
theorem mark_once (s s1 : State) (x : Entity) (h : InvOnce s) (f : SameCore s s1) : InvOnce (mark s1 x) := by
  obtain ⟨m1, m2, m3, m4⟩ := mark_onceStep s1 x (by rw [f.markFail]; exact h.noFault)
  have he : ents (mark s1 x) = ents s := by unfold ents; rw [m1, f.pubs]
  refine ⟨m3, by rw [he]; exact h.nodup, ?_, ?_⟩
  · intro y hy; rw [he] at hy; rw [m2, f.epoch]; exact h.le y hy
  · intro y hy hye; rw [he] at hy; rw [m2, f.epoch] at hye ⊢
    rw [m4, f.signed]
    exact List.mem_append_left _ (h.marked y hy hye)

/-- publish, then mark: a new entity of the current epoch enters both the log and the table -/
theorem publishMark_once (s : State) (d : EpochData) (x : Entity) (k sv : Nat) (h : InvOnce s)
    (hse : x.signEpoch = s.env.epoch) (hnew : x ∉ ents s) : InvOnce (publishMark s d x k sv) := by
  unfold publishMark
  split
  · exact h.frame (SameCore.onceFrame ⟨rfl, rfl, rfl, rfl⟩)
  split
  · generalize hs1 : ({ s with env := _, pubs := s.pubs ++ [⟨x, k, d.epoch, s.env.epoch, sv⟩] } : State) = s1
    have e1 : s1.env.epoch = s.env.epoch := by subst hs1; rfl
    have e2 : s1.env.markFail = s.env.markFail := by subst hs1; rfl
    have e3 : s1.st.signed = s.st.signed := by subst hs1; rfl
    have e4 : ents s1 = ents s ++ [x] := by subst hs1; simp [ents]
    obtain ⟨m1, m2, m3, m4⟩ := mark_onceStep s1 x (by rw [e2]; exact h.noFault)
    have he : ents (mark s1 x) = ents s ++ [x] := by unfold ents at e4 ⊢; rw [m1]; exact e4
    refine ⟨m3, ?_, ?_, ?_⟩
    · rw [he]
      refine List.nodup_append.mpr ⟨h.nodup, by simp, ?_⟩
      intro a ha b hb
      simp only [List.mem_singleton] at hb
      subst hb
      intro hab; subst hab; exact hnew ha
    · intro y hy; rw [he] at hy; rw [m2, e1]
      rcases List.mem_append.mp hy with hy | hy
      · exact h.le y hy
      · simp only [List.mem_singleton] at hy; subst hy; omega
    · intro y hy hye; rw [he] at hy; rw [m2, e1] at hye ⊢; rw [m4, e3, e1]
      rcases List.mem_append.mp hy with hy | hy
      · exact List.mem_append_left _ (h.marked y hy hye)
      · simp only [List.mem_singleton] at hy; subst hy; simp
  · exact h.frame (SameCore.onceFrame ⟨rfl, rfl, rfl, rfl⟩)

theorem signEntity_once (s : State) (d : EpochData) (x : Entity) (lost : Bool) (h : InvOnce s)
    (hse : x.signEpoch = s.env.epoch) (hnew : x ∉ ents s) : InvOnce (signEntity s d x lost) := by
  unfold signEntity
  repeat' split
  all_goals first
    | exact h.frame (SameCore.onceFrame ⟨rfl, rfl, rfl, rfl⟩)
    | exact mark_once s s x h (SameCore.refl s)
    | exact publishMark_once s d x _ _ h hse hnew

/-- the publish-then-mark step keeps the invariant as long as no mark failure is injected -/
theorem tickReady_once (s : State) (e : Nat) (lost : Bool) (h : InvOnce s) : InvOnce (tickReady s e lost) := by
  unfold tickReady
  split
  · exact h.frame (SameCore.onceFrame ⟨rfl, rfl, rfl, rfl⟩)
  split
  · exact h.frame (SameCore.onceFrame ⟨rfl, rfl, rfl, rfl⟩)
  rename_i d _
  split
  · exact h.frame (SameCore.onceFrame ⟨rfl, rfl, rfl, rfl⟩)
  rename_i h0
  split
  · exact h.frame (SameCore.onceFrame ⟨rfl, rfl, rfl, rfl⟩)
  rename_i x hx
  obtain ⟨hse, hns⟩ := beaconToSign_spec s d x hx h0
  have hnew : x ∉ ents s := by
    intro hmem
    have := isSigned_of_mem _ _ _ (h.marked x hmem hse)
    rw [this] at hns; cases hns
  exact signEntity_once s d x lost h hse hnew

/-- events that do not arm a failure of `mark_beacon_as_signed` -/
def NoMarkFault : Event → Prop
  | .setMarkFail n => n = 0
  | _ => True

instance (ev : Event) : Decidable (NoMarkFault ev) := by
  cases ev <;> unfold NoMarkFault <;> infer_instance

theorem step_once (s : State) (ev : Event) (h : InvOnce s) (hev : NoMarkFault ev) : InvOnce (step s ev) := by
  cases ev with
  | tick lost =>
    show InvOnce (tick s lost)
    unfold tick
    split
    · exact h.frame (SameCore.onceFrame ⟨rfl, rfl, rfl, rfl⟩)
    · exact h.frame (tickUnreg_onceFrame s _)
    · exact h.frame (tickNotAble_same s _).onceFrame
    · exact tickReady_once s _ lost h
  | epochUp v =>
    refine ⟨h.noFault, h.nodup, ?_, ?_⟩
    · intro x hx; have := h.le x hx; show x.signEpoch ≤ s.env.epoch + 1; omega
    · intro x hx hxe
      have := h.le x hx
      have hxe' : x.signEpoch = s.env.epoch + 1 := hxe
      omega
  | setMarkFail n =>
    have hn : n = 0 := hev
    subst hn
    exact ⟨rfl, h.nodup, h.le, h.marked⟩
  | restart => exact h.frame (SameCore.onceFrame ⟨rfl, rfl, rfl, rfl⟩)
  | aggEpochUp => exact h.frame (SameCore.onceFrame ⟨rfl, rfl, rfl, rfl⟩)
  | immUp n => exact h.frame (SameCore.onceFrame ⟨rfl, rfl, rfl, rfl⟩)
  | regOthers rs => exact h.frame (SameCore.onceFrame ⟨rfl, rfl, rfl, rfl⟩)
  | setDown b => exact h.frame (SameCore.onceFrame ⟨rfl, rfl, rfl, rfl⟩)
  | setRoundClosed b => exact h.frame (SameCore.onceFrame ⟨rfl, rfl, rfl, rfl⟩)
  | setRegFail b => exact h.frame (SameCore.onceFrame ⟨rfl, rfl, rfl, rfl⟩)
  | setRegDrop b => exact h.frame (SameCore.onceFrame ⟨rfl, rfl, rfl, rfl⟩)
  | setPubFail n => exact h.frame (SameCore.onceFrame ⟨rfl, rfl, rfl, rfl⟩)

theorem run_once (evs : List Event) (s : State) (h : InvOnce s) (hev : ∀ ev ∈ evs, NoMarkFault ev) :
    InvOnce (run s evs) := by
  induction evs generalizing s with
  | nil => exact h
  | cons ev rest ih =>
    exact ih (step s ev) (step_once s ev h (hev ev (by simp))) (fun e he => hev e (List.mem_cons_of_mem _ he))

theorem initState_once (env : Env) (h : env.markFail = 0) : InvOnce (initState env) :=
  ⟨h, by simp [ents, initState], by simp [ents, initState], by simp [ents, initState]⟩

/-! ### registration bookkeeping: which key signs, and when it was registered -/

/-- what `register_signer_to_aggregator` can do -/
structure RegFrame (s : State) (d : EpochData) (s' : State) (go : Bool) : Prop where
  data : s'.data = s.data
  pubs : s'.pubs = s.pubs
  mach : go = true → s'.mach = s.mach
  notReady : ∀ e, s'.mach = .ready e → s.mach = .ready e
  saved : (s'.saved = s.saved ∧ s'.st.inis = s.st.inis) ∨
    ∃ q, s'.saved = s.saved ++ [q] ∧ s'.st.inis = s.st.inis ++ [(q.recEpoch, q.key)] ∧
      q.recEpoch = d.epoch + 1 ∧ q.aggEpoch = d.epoch

theorem registerSigner_reg (s : State) (d : EpochData) :
    RegFrame s d (registerSigner s d).1 (registerSigner s d).2 := by
  unfold registerSigner
  dsimp only
  repeat' split
  all_goals first
    | exact ⟨rfl, rfl, fun _ => rfl, fun _ h => h, Or.inl ⟨rfl, rfl⟩⟩
    | exact ⟨rfl, rfl, fun h => by simp at h, fun _ h => by simp at h, Or.inl ⟨rfl, rfl⟩⟩
    | exact ⟨rfl, rfl, fun _ => rfl, fun _ h => h, Or.inr ⟨⟨recording d.epoch, s.env.nextKey, d.epoch, !s.env.regDrop⟩, rfl, rfl, rfl, rfl⟩⟩

structure InvReg (s : State) : Prop where
  /-- every stored initializer was written by a registration -/
  inisSaved : ∀ e k, (e, k) ∈ s.st.inis → ∃ q ∈ s.saved, q.recEpoch = e ∧ q.key = k
  /-- registrations are recorded under aggregator epoch + RECORDING(1) -/
  savedRec : ∀ q ∈ s.saved, q.recEpoch = q.aggEpoch + 1
  /-- the initializer of the epoch data was stored under epoch − 1 (RETRIEVAL) -/
  dataIni : ∀ d, s.data = some d → 1 ≤ d.epoch ∧
    ∀ k, d.ini = some k → ∃ q ∈ s.saved, q.recEpoch + 1 = d.epoch ∧ q.key = k
  /-- `ReadyToSign` only with epoch data under which the signer can sign -/
  ready : ∀ e, s.mach = .ready e → ∃ d, s.data = some d ∧ canSign d = true
  /-- every publication was made with a key registered two epochs earlier -/
  pubsKey : ∀ p ∈ s.pubs, ∃ q ∈ s.saved, q.key = p.key ∧ q.recEpoch + 1 = p.aggEpoch ∧ q.aggEpoch + SIGNING = p.aggEpoch

theorem lookup_mem (l : List (Nat × Nat)) (e k : Nat) (h : lookup l e = some k) : (e, k) ∈ l := by
  unfold lookup at h
  cases hf : l.find? (fun p => p.1 == e) with
  | none => rw [hf] at h; cases h
  | some p =>
    rw [hf] at h
    simp only [Option.map_some, Option.some.injEq] at h
    have h1 := List.find?_some hf
    have h2 := List.mem_of_find?_eq_some hf
    simp only [beq_iff_eq] at h1
    obtain ⟨a, b⟩ := p
    simp only at h h1
    subst h h1
    exact h2

theorem prune_inis_sub (ret : Option Nat) (t : Nat) (st : Stores) (p : Nat × Nat) (h : p ∈ (prune ret t st).inis) :
    p ∈ st.inis := by
  unfold prune at h
  cases ret with
  | none => exact h
  | some l => exact (List.mem_filter.mp h).1

/-- bookkeeping facts that do not depend on the machine or the epoch data -/
structure InvRegCore (s : State) : Prop where
  inisSaved : ∀ e k, (e, k) ∈ s.st.inis → ∃ q ∈ s.saved, q.recEpoch = e ∧ q.key = k
  savedRec : ∀ q ∈ s.saved, q.recEpoch = q.aggEpoch + 1
  pubsKey : ∀ p ∈ s.pubs, ∃ q ∈ s.saved, q.key = p.key ∧ q.recEpoch + 1 = p.aggEpoch ∧ q.aggEpoch + SIGNING = p.aggEpoch

theorem InvReg.core {s : State} (h : InvReg s) : InvRegCore s := ⟨h.inisSaved, h.savedRec, h.pubsKey⟩

/-- a step that leaves stores' initializers, the saved log and the publications alone -/
theorem InvRegCore.same {s s' : State} (h : InvRegCore s) (h1 : s'.st.inis = s.st.inis) (h2 : s'.saved = s.saved)
    (h3 : s'.pubs = s.pubs) : InvRegCore s' :=
  ⟨by rw [h1, h2]; exact h.inisSaved, by rw [h2]; exact h.savedRec, by rw [h2, h3]; exact h.pubsKey⟩

theorem InvReg.same {s s' : State} (h : InvReg s) (h1 : s'.st.inis = s.st.inis) (h2 : s'.saved = s.saved)
    (h3 : s'.pubs = s.pubs) (h4 : s'.data = s.data) (h5 : ∀ e, s'.mach = .ready e → s.mach = .ready e) : InvReg s' := by
  have c := h.core.same h1 h2 h3
  refine ⟨c.inisSaved, c.savedRec, by rw [h4, h2]; exact h.dataIni, ?_, c.pubsKey⟩
  intro e he
  rw [h4]
  exact h.ready e (h5 e he)

/-- the bookkeeping survives a registration (the saved log and the initializer table grow together) -/
theorem InvRegCore.reg {s s' : State} {d : EpochData} {go : Bool} (h : InvRegCore s) (f : RegFrame s d s' go) :
    InvRegCore s' ∧ ∀ q ∈ s.saved, q ∈ s'.saved := by
  rcases f.saved with ⟨h2, h1⟩ | ⟨q, h2, h1, hq1, hq2⟩
  · exact ⟨h.same h1 h2 f.pubs, by rw [h2]; exact fun q hq => hq⟩
  · have hsub : ∀ q' ∈ s.saved, q' ∈ s'.saved := by
      intro q' hq'; rw [h2]; exact List.mem_append_left _ hq'
    refine ⟨⟨?_, ?_, ?_⟩, hsub⟩
    · intro e k hek
      rw [h1] at hek
      rcases List.mem_append.mp hek with hek | hek
      · obtain ⟨q', hq', r1, r2⟩ := h.inisSaved e k hek
        exact ⟨q', hsub q' hq', r1, r2⟩
      · simp only [List.mem_singleton, Prod.mk.injEq] at hek
        exact ⟨q, by rw [h2]; simp, hek.1.symm, hek.2.symm⟩
    · intro q' hq'
      rw [h2] at hq'
      rcases List.mem_append.mp hq' with hq' | hq'
      · exact h.savedRec q' hq'
      · simp only [List.mem_singleton] at hq'; subst hq'; rw [hq1, hq2]
    · intro p hp
      rw [f.pubs] at hp
      obtain ⟨q', hq', r⟩ := h.pubsKey p hp
      exact ⟨q', hsub q' hq', r⟩

theorem registerStep_reg (s : State) (d : EpochData) (h : InvReg s)
    (hd : 1 ≤ d.epoch ∧ ∀ k, d.ini = some k → ∃ q ∈ s.saved, q.recEpoch + 1 = d.epoch ∧ q.key = k)
    (hm : ∀ e, s.mach ≠ .ready e) : InvReg (registerStep s d) := by
  unfold registerStep
  dsimp only
  generalize hs1 : ({ s with st := { s.st with stakes := _ }, data := some d } : State) = s1
  have c1 : InvRegCore s1 := by subst hs1; exact h.core.same rfl rfl rfl
  have d1 : s1.data = some d := by subst hs1; rfl
  have m1 : s1.mach = s.mach := by subst hs1; rfl
  have sv1 : s1.saved = s.saved := by subst hs1; rfl
  have f := registerSigner_reg s1 d
  obtain ⟨c2, hsub⟩ := c1.reg f
  have hd2 : ∀ dd, (registerSigner s1 d).1.data = some dd → 1 ≤ dd.epoch ∧
      ∀ k, dd.ini = some k → ∃ q ∈ (registerSigner s1 d).1.saved, q.recEpoch + 1 = dd.epoch ∧ q.key = k := by
    intro dd hdd
    rw [f.data, d1] at hdd
    cases hdd
    refine ⟨hd.1, fun k hk => ?_⟩
    obtain ⟨q, hq, r⟩ := hd.2 k hk
    exact ⟨q, hsub q (by rw [sv1]; exact hq), r⟩
  split
  · rename_i s2 heq
    have e1 : (registerSigner s1 d).1 = s2 := by rw [heq]
    rw [e1] at f c2 hd2
    refine ⟨c2.inisSaved, c2.savedRec, hd2, ?_, c2.pubsKey⟩
    intro e he
    have := f.notReady e he
    rw [m1] at this
    exact absurd this (hm e)
  · rename_i s2 heq
    have e1 : (registerSigner s1 d).1 = s2 := by rw [heq]
    rw [e1] at f c2 hd2
    refine ⟨?_, c2.savedRec, ?_, ?_, c2.pubsKey⟩
    · intro e k hek
      exact c2.inisSaved e k (prune_inis_sub _ _ _ _ hek)
    · exact hd2
    · intro e he
      dsimp only at he
      refine ⟨d, by show s2.data = some d; rw [f.data, d1], ?_⟩
      by_cases hc : canSign d = true
      · exact hc
      · rw [if_neg hc] at he; cases he

theorem tickUnreg_reg (s : State) (e : Nat) (h : InvReg s) (hm : s.mach = .unreg e) : InvReg (tickUnreg s e) := by
  have hnr : ∀ e', s.mach ≠ .ready e' := by intro e' he'; rw [hm] at he'; cases he'
  unfold tickUnreg
  dsimp only
  repeat' split
  all_goals first
    | exact h.same rfl rfl rfl rfl (fun _ he => by cases he)
    | exact h.same rfl rfl rfl rfl (fun _ he => he)
    | skip
  apply registerStep_reg s _ h _ hnr
  rename_i hz _ _ _
  refine ⟨by dsimp only; omega, ?_⟩
  intro k hk
  dsimp only at hk
  obtain ⟨q, hq, r1, r2⟩ := h.inisSaved _ _ (lookup_mem _ _ _ hk)
  refine ⟨q, hq, ?_, r2⟩
  dsimp only
  unfold retrieval at r1
  omega

/-- what the signing branch can do to the bookkeeping -/
structure SignFrame (s : State) (d : EpochData) (s' : State) : Prop where
  inis : s'.st.inis = s.st.inis
  saved : s'.saved = s.saved
  data : s'.data = s.data
  mach : s'.mach = s.mach
  pubs : s'.pubs = s.pubs ∨ ∃ x k sv t, d.ini = some k ∧ s'.pubs = s.pubs ++ [⟨x, k, d.epoch, t, sv⟩]

theorem mark_frame (s : State) (x : Entity) :
    (mark s x).st.inis = s.st.inis ∧ (mark s x).saved = s.saved ∧ (mark s x).data = s.data ∧
    (mark s x).mach = s.mach ∧ (mark s x).pubs = s.pubs := by
  unfold mark
  split <;> exact ⟨rfl, rfl, rfl, rfl, rfl⟩

theorem publishMark_frame (s : State) (d : EpochData) (x : Entity) (k sv : Nat) (hk : d.ini = some k) :
    SignFrame s d (publishMark s d x k sv) := by
  unfold publishMark
  split
  · exact ⟨rfl, rfl, rfl, rfl, Or.inl rfl⟩
  split
  · generalize hs1 : ({ s with env := _, pubs := s.pubs ++ [⟨x, k, d.epoch, s.env.epoch, sv⟩] } : State) = s1
    obtain ⟨m1, m2, m3, m4, m5⟩ := mark_frame s1 x
    subst hs1
    exact ⟨m1, m2, m3, m4, Or.inr ⟨x, k, sv, s.env.epoch, hk, m5⟩⟩
  · exact ⟨rfl, rfl, rfl, rfl, Or.inl rfl⟩

theorem signEntity_frame (s : State) (d : EpochData) (x : Entity) (lost : Bool) :
    SignFrame s d (signEntity s d x lost) := by
  unfold signEntity
  repeat' split
  all_goals first
    | exact ⟨rfl, rfl, rfl, rfl, Or.inl rfl⟩
    | (obtain ⟨m1, m2, m3, m4, m5⟩ := mark_frame s x; exact ⟨m1, m2, m3, m4, Or.inl m5⟩)
    | (apply publishMark_frame; assumption)

theorem tickReady_reg (s : State) (e : Nat) (lost : Bool) (h : InvReg s) (hm : s.mach = .ready e) :
    InvReg (tickReady s e lost) := by
  unfold tickReady
  split
  · exact h.same rfl rfl rfl rfl (fun _ he => by cases he)
  split
  · exact h.same rfl rfl rfl rfl (fun _ he => he)
  rename_i d hd
  split
  · exact h.same rfl rfl rfl rfl (fun _ he => he)
  split
  · exact h.same rfl rfl rfl rfl (fun _ he => he)
  rename_i x _
  have f := signEntity_frame s d x lost
  rcases f.pubs with hp | ⟨x', k, sv, t, hk, hp⟩
  · exact h.same f.inis f.saved hp f.data (fun e' he' => by rw [f.mach] at he'; exact he')
  · refine ⟨by rw [f.inis, f.saved]; exact h.inisSaved, by rw [f.saved]; exact h.savedRec,
      by rw [f.data, f.saved]; exact h.dataIni, ?_, ?_⟩
    · intro e' he'; rw [f.mach] at he'; rw [f.data]; exact h.ready e' he'
    · intro p hp'
      rw [hp] at hp'
      rw [f.saved]
      rcases List.mem_append.mp hp' with hp' | hp'
      · exact h.pubsKey p hp'
      · simp only [List.mem_singleton] at hp'
        subst hp'
        obtain ⟨_, hini⟩ := h.dataIni d hd
        obtain ⟨q, hq, r1, r2⟩ := hini k hk
        refine ⟨q, hq, r2, r1, ?_⟩
        have := h.savedRec q hq
        show q.aggEpoch + SIGNING = d.epoch
        unfold SIGNING
        omega

theorem step_reg (s : State) (ev : Event) (h : InvReg s) : InvReg (step s ev) := by
  cases ev with
  | tick lost =>
    show InvReg (tick s lost)
    unfold tick
    split
    · rename_i hm
      exact h.same rfl rfl rfl rfl (fun _ he => by cases he)
    · rename_i e hm; exact tickUnreg_reg s e h hm
    · rename_i e hm
      unfold tickNotAble
      dsimp only
      split
      · exact h.same rfl rfl rfl rfl (fun _ he => by cases he)
      · exact h.same rfl rfl rfl rfl (fun _ he => he)
    · rename_i e hm; exact tickReady_reg s e lost h hm
  | restart =>
    exact ⟨h.inisSaved, h.savedRec, fun d hd => (by cases hd), fun e he => (by cases he), h.pubsKey⟩
  | epochUp v => exact h.same rfl rfl rfl rfl (fun _ he => he)
  | setMarkFail n => exact h.same rfl rfl rfl rfl (fun _ he => he)
  | aggEpochUp => exact h.same rfl rfl rfl rfl (fun _ he => he)
  | immUp n => exact h.same rfl rfl rfl rfl (fun _ he => he)
  | regOthers rs => exact h.same rfl rfl rfl rfl (fun _ he => he)
  | setDown b => exact h.same rfl rfl rfl rfl (fun _ he => he)
  | setRoundClosed b => exact h.same rfl rfl rfl rfl (fun _ he => he)
  | setRegFail b => exact h.same rfl rfl rfl rfl (fun _ he => he)
  | setRegDrop b => exact h.same rfl rfl rfl rfl (fun _ he => he)
  | setPubFail n => exact h.same rfl rfl rfl rfl (fun _ he => he)

theorem run_reg (evs : List Event) (s : State) (h : InvReg s) : InvReg (run s evs) := by
  induction evs generalizing s with
  | nil => exact h
  | cons ev rest ih => exact ih (step s ev) (step_reg s ev h)

theorem initState_reg (env : Env) : InvReg (initState env) :=
  ⟨by simp [initState], by simp [initState], by simp [initState], by simp [initState], by simp [initState]⟩

/-- a publication can only come out of `ReadyToSign` with a stored key that is in the current signer list -/
theorem publish_only_when_ready (s : State) (ev : Event) (h : InvReg s) (hp : (step s ev).pubs ≠ s.pubs) :
    ∃ e d k, s.mach = .ready e ∧ s.data = some d ∧ d.ini = some k ∧ (⟨0, k⟩ : Reg) ∈ d.cur ∧
      ∃ q ∈ s.saved, q.key = k ∧ q.recEpoch = retrieval d.epoch ∧ q.recEpoch = recording q.aggEpoch := by
  cases ev with
  | tick lost =>
    have hp' : (tick s lost).pubs ≠ s.pubs := hp
    unfold tick at hp'
    split at hp'
    · exact absurd rfl hp'
    · exact absurd (tickUnreg_onceFrame s _).pubs hp'
    · exact absurd (tickNotAble_same s _).pubs hp'
    · rename_i e hm
      obtain ⟨d, hd, hc⟩ := h.ready e hm
      unfold canSign at hc
      cases hk : d.ini with
      | none => rw [hk] at hc; cases hc
      | some k =>
        rw [hk] at hc
        obtain ⟨h1, hini⟩ := h.dataIni d hd
        obtain ⟨q, hq, r1, r2⟩ := hini k hk
        refine ⟨e, d, k, hm, hd, hk, by simpa using hc, q, hq, r2, ?_, ?_⟩
        · unfold retrieval; omega
        · exact h.savedRec q hq
  | restart => exact absurd rfl hp
  | epochUp v => exact absurd rfl hp
  | setMarkFail n => exact absurd rfl hp
  | aggEpochUp => exact absurd rfl hp
  | immUp n => exact absurd rfl hp
  | regOthers rs => exact absurd rfl hp
  | setDown b => exact absurd rfl hp
  | setRoundClosed b => exact absurd rfl hp
  | setRegFail b => exact absurd rfl hp
  | setRegDrop b => exact absurd rfl hp
  | setPubFail n => exact absurd rfl hp

/-! ### the aggregator's side of the offsets -/

theorem regsFor_append (l l' : List (Nat × Reg)) (e : Nat) : regsFor (l ++ l') e = regsFor l e ++ regsFor l' e := by
  simp [regsFor]

theorem regsFor_append_other (l : List (Nat × Reg)) (r e : Nat) (x : Reg) (h : r ≠ e) :
    regsFor (l ++ [(r, x)]) e = regsFor l e := by
  rw [regsFor_append]
  have : regsFor [(r, x)] e = [] := by simp [regsFor, h]
  rw [this, List.append_nil]

theorem regsFor_map_other (l : List (Nat × Reg)) (r e : Nat) (xs : List Reg) (h : r ≠ e) :
    regsFor (l ++ xs.map (fun x => (r, x))) e = regsFor l e := by
  rw [regsFor_append]
  have : regsFor (xs.map (fun x => (r, x))) e = [] := by
    simp [regsFor, List.filter_eq_nil_iff, h]
  rw [this, List.append_nil]

/-- what `register_signer_to_aggregator` can do to the aggregator and to the tables the offsets depend on -/
structure AggFrame (s : State) (d : EpochData) (s' : State) (go : Bool) : Prop where
  data : s'.data = s.data
  pubs : s'.pubs = s.pubs
  stakes : s'.st.stakes = s.st.stakes
  epoch : s'.env.epoch = s.env.epoch
  aggEpoch : s'.env.aggEpoch = s.env.aggEpoch
  aggReg : s'.env.aggReg = s.env.aggReg ∨ ∃ k, s'.env.aggReg = s.env.aggReg ++ [(recording d.epoch, ⟨0, k⟩)]
  go : go = true → (lookup s.st.stakes (recording d.epoch)).isSome = true ∧ s'.mach = s.mach
  notReady : ∀ e, s'.mach = .ready e → s.mach = .ready e

theorem registerSigner_agg (s : State) (d : EpochData) :
    AggFrame s d (registerSigner s d).1 (registerSigner s d).2 := by
  unfold registerSigner
  dsimp only
  split
  · exact ⟨rfl, rfl, rfl, rfl, rfl, Or.inl rfl, fun h => by simp at h, fun _ h => h⟩
  rename_i v hv
  have hs : (lookup s.st.stakes (recording d.epoch)).isSome = true := by rw [hv]; rfl
  split
  · exact ⟨rfl, rfl, rfl, rfl, rfl, Or.inl rfl, fun _ => ⟨hs, rfl⟩, fun _ h => h⟩
  split
  · exact ⟨rfl, rfl, rfl, rfl, rfl, Or.inl rfl, fun h => by simp at h, fun _ h => by simp at h⟩
  split
  · exact ⟨rfl, rfl, rfl, rfl, rfl, Or.inl rfl, fun h => by simp at h, fun _ h => h⟩
  · refine ⟨rfl, rfl, rfl, rfl, rfl, ?_, fun _ => ⟨hs, rfl⟩, fun _ h => h⟩
    by_cases hdrop : s.env.regDrop = true
    · left; simp [hdrop]
    · right; exact ⟨s.env.nextKey, by simp [hdrop]⟩

structure InvAgg (s : State) : Prop where
  /-- the aggregator records registrations under its current epoch + 1 at most: lists of earlier epochs are closed -/
  aggRec : ∀ p ∈ s.env.aggReg, p.1 ≤ s.env.aggEpoch + 1
  /-- the signer's current-signer list is the aggregator's list recorded under the retrieval epoch -/
  dataCur : ∀ d, s.data = some d → d.cur = regsFor s.env.aggReg (retrieval d.epoch) ∧ d.epoch ≤ s.env.aggEpoch
  /-- stake distributions are stored under chain epoch + 1 at most -/
  stakesLe : ∀ p ∈ s.st.stakes, p.1 ≤ s.env.epoch + 1
  /-- `ReadyToSign e`: `e` is not ahead of the chain and the epoch data are those of `e` -/
  ready : ∀ e, s.mach = .ready e → e ≤ s.env.epoch ∧ ∀ d, s.data = some d → d.epoch = e
  /-- every publication was made in its own chain epoch with a key the aggregator lists for that epoch -/
  pubsAgg : ∀ p ∈ s.pubs, p.aggEpoch = p.chainEpoch ∧ p.aggEpoch ≤ s.env.aggEpoch ∧
    (⟨0, p.key⟩ : Reg) ∈ regsFor s.env.aggReg (retrieval p.aggEpoch)

theorem prune_stakes_sub (ret : Option Nat) (t : Nat) (st : Stores) (p : Nat × Nat) (h : p ∈ (prune ret t st).stakes) :
    p ∈ st.stakes := by
  unfold prune at h
  cases ret with
  | none => exact h
  | some l => exact (List.mem_filter.mp h).1

/-- a step that only touches fields the aggregator-side invariant does not read -/
theorem InvAgg.same {s s' : State} (a : InvAgg s) (h1 : s'.env.aggReg = s.env.aggReg) (h2 : s'.env.aggEpoch = s.env.aggEpoch)
    (h3 : s'.data = s.data) (h4 : s'.st.stakes = s.st.stakes) (h5 : s'.env.epoch = s.env.epoch) (h6 : s'.pubs = s.pubs)
    (h7 : ∀ e, s'.mach = .ready e → s.mach = .ready e) : InvAgg s' :=
  ⟨by rw [h1, h2]; exact a.aggRec, by rw [h1, h2, h3]; exact a.dataCur, by rw [h4, h5]; exact a.stakesLe,
   by rw [h3, h5]; exact fun e he => a.ready e (h7 e he), by rw [h1, h2, h6]; exact a.pubsAgg⟩

/-- appending a registration for the aggregator's recording epoch keeps the closed lists closed -/
theorem InvAgg.appendReg {s : State} (a : InvAgg s) (x : Reg) (aggReg' : List (Nat × Reg))
    (h : aggReg' = s.env.aggReg ∨ aggReg' = s.env.aggReg ++ [(recording s.env.aggEpoch, x)]) :
    (∀ p ∈ aggReg', p.1 ≤ s.env.aggEpoch + 1) ∧
    (∀ e, e ≤ s.env.aggEpoch → regsFor aggReg' (retrieval e) = regsFor s.env.aggReg (retrieval e)) ∧
    (∀ y e, y ∈ regsFor s.env.aggReg e → y ∈ regsFor aggReg' e) := by
  rcases h with h | h
  · subst h; exact ⟨a.aggRec, fun _ _ => rfl, fun _ _ hy => hy⟩
  · subst h
    refine ⟨?_, ?_, ?_⟩
    · intro p hp
      rcases List.mem_append.mp hp with hp | hp
      · exact a.aggRec p hp
      · simp only [List.mem_singleton] at hp; subst hp; unfold recording; omega
    · intro e he
      apply regsFor_append_other
      unfold recording retrieval; omega
    · intro y e hy
      rw [regsFor_append]; exact List.mem_append_left _ hy

theorem updStakes_le (s : State) (a : InvAgg s) : ∀ p ∈ updStakes s, p.1 ≤ s.env.epoch + 1 := by
  unfold updStakes
  split
  · exact a.stakesLe
  · intro p hp
    rcases List.mem_append.mp hp with hp | hp
    · exact a.stakesLe p hp
    · simp only [List.mem_singleton] at hp; subst hp; unfold recording; omega

theorem lookup_isSome_mem (l : List (Nat × Nat)) (e : Nat) (h : (lookup l e).isSome = true) : ∃ v, (e, v) ∈ l := by
  cases hl : lookup l e with
  | none => rw [hl] at h; cases h
  | some v => exact ⟨v, lookup_mem l e v hl⟩

theorem registerStep_agg (s : State) (d : EpochData) (r : InvReg s) (a : InvAgg s)
    (hd1 : d.epoch = s.env.aggEpoch) (hd2 : d.cur = regsFor s.env.aggReg (retrieval d.epoch))
    (hm : ∀ e, s.mach ≠ .ready e) (het : s.env.epoch ≤ d.epoch) : InvAgg (registerStep s d) := by
  unfold registerStep
  dsimp only
  have hst := updStakes_le s a
  generalize hs1 : ({ s with st := { s.st with stakes := updStakes s }, data := some d } : State) = s1
  have d1 : s1.data = some d := by subst hs1; rfl
  have m1 : s1.mach = s.mach := by subst hs1; rfl
  have k1 : s1.st.stakes = updStakes s := by subst hs1; rfl
  have e1 : s1.env = s.env := by subst hs1; rfl
  have p1 : s1.pubs = s.pubs := by subst hs1; rfl
  have f := registerSigner_agg s1 d
  have hreg : (registerSigner s1 d).1.env.aggReg = s.env.aggReg ∨
      ∃ k, (registerSigner s1 d).1.env.aggReg = s.env.aggReg ++ [(recording s.env.aggEpoch, ⟨0, k⟩)] := by
    rcases f.aggReg with h | ⟨k, h⟩
    · left; rw [h, e1]
    · right; exact ⟨k, by rw [h, e1, hd1]⟩
  -- facts shared by both outcomes
  have common : ∀ s2 : State, s2.env.aggReg = (registerSigner s1 d).1.env.aggReg → s2.env.aggEpoch = s.env.aggEpoch →
      s2.pubs = s.pubs →
      (∀ p ∈ s2.env.aggReg, p.1 ≤ s2.env.aggEpoch + 1) ∧
      (d.cur = regsFor s2.env.aggReg (retrieval d.epoch) ∧ d.epoch ≤ s2.env.aggEpoch) ∧
      (∀ p ∈ s2.pubs, p.aggEpoch = p.chainEpoch ∧ p.aggEpoch ≤ s2.env.aggEpoch ∧
        (⟨0, p.key⟩ : Reg) ∈ regsFor s2.env.aggReg (retrieval p.aggEpoch)) := by
    intro s2 h1 h2 h3
    rw [h1, h2, h3]
    rcases hreg with h | ⟨k, h⟩
    · obtain ⟨c1, c2, c3⟩ := a.appendReg ⟨0, 0⟩ _ (Or.inl h)
      refine ⟨c1, ⟨by rw [c2 d.epoch (by omega)]; exact hd2, by omega⟩, ?_⟩
      intro p hp
      obtain ⟨q1, q2, q3⟩ := a.pubsAgg p hp
      exact ⟨q1, q2, c3 _ _ q3⟩
    · obtain ⟨c1, c2, c3⟩ := a.appendReg ⟨0, k⟩ _ (Or.inr h)
      refine ⟨c1, ⟨by rw [c2 d.epoch (by omega)]; exact hd2, by omega⟩, ?_⟩
      intro p hp
      obtain ⟨q1, q2, q3⟩ := a.pubsAgg p hp
      exact ⟨q1, q2, c3 _ _ q3⟩
  split
  · rename_i s2 heq
    have e2 : (registerSigner s1 d).1 = s2 := by rw [heq]
    rw [e2] at f
    obtain ⟨c1, c2, c3⟩ := common s2 (by rw [e2]) (by rw [f.aggEpoch, e1]) (by rw [f.pubs, p1])
    refine ⟨c1, ?_, by rw [f.stakes, k1, f.epoch, e1]; exact hst, ?_, c3⟩
    · intro dd hdd
      rw [f.data, d1] at hdd; cases hdd; exact c2
    · intro e he
      have := f.notReady e he
      rw [m1] at this
      exact absurd this (hm e)
  · rename_i s2 heq
    have e2 : (registerSigner s1 d).1 = s2 := by rw [heq]
    have e3 : (registerSigner s1 d).2 = true := by rw [heq]
    rw [e2, e3] at f
    obtain ⟨c1, c2, c3⟩ := common s2 (by rw [e2]) (by rw [f.aggEpoch, e1]) (by rw [f.pubs, p1])
    obtain ⟨hgo, _⟩ := f.go rfl
    rw [k1] at hgo
    obtain ⟨v, hv⟩ := lookup_isSome_mem _ _ hgo
    have hle := hst _ hv
    have hde : d.epoch = s.env.epoch := by
      have : recording d.epoch ≤ s.env.epoch + 1 := hle
      unfold recording at this; omega
    refine ⟨c1, ?_, ?_, ?_, c3⟩
    · intro dd hdd
      have : s2.data = some dd := hdd
      rw [f.data, d1] at this; cases this; exact c2
    · intro p hp
      have := prune_stakes_sub _ _ _ _ hp
      rw [f.stakes, k1] at this
      show p.1 ≤ s2.env.epoch + 1
      rw [f.epoch, e1]; exact hst p this
    · intro e he
      dsimp only at he
      have het' : e = s.env.epoch := by
        by_cases hc : canSign d = true
        · rw [if_pos hc] at he; cases he; rfl
        · rw [if_neg hc] at he; cases he
      subst het'
      refine ⟨by show s.env.epoch ≤ s2.env.epoch; rw [f.epoch, e1]; exact Nat.le_refl _, ?_⟩
      intro dd hdd
      have : s2.data = some dd := hdd
      rw [f.data, d1] at this; cases this; exact hde

theorem tickUnreg_agg (s : State) (e : Nat) (r : InvReg s) (a : InvAgg s) (hm : s.mach = .unreg e) :
    InvAgg (tickUnreg s e) := by
  have hnr : ∀ e', s.mach ≠ .ready e' := by intro e' he'; rw [hm] at he'; cases he'
  unfold tickUnreg
  dsimp only
  repeat' split
  all_goals first
    | exact a.same rfl rfl rfl rfl rfl rfl (fun _ he => by cases he)
    | exact a.same rfl rfl rfl rfl rfl rfl (fun _ he => he)
    | skip
  apply registerStep_agg s _ r a rfl rfl hnr
  dsimp only
  omega

theorem signEntity_aggFrame (s : State) (d : EpochData) (x : Entity) (lost : Bool) :
    (signEntity s d x lost).env.aggReg = s.env.aggReg ∧ (signEntity s d x lost).env.aggEpoch = s.env.aggEpoch ∧
    (signEntity s d x lost).st.stakes = s.st.stakes ∧ (signEntity s d x lost).env.epoch = s.env.epoch ∧
    ((signEntity s d x lost).pubs = s.pubs ∨
      ∃ x' k sv, d.ini = some k ∧ (signEntity s d x lost).pubs = s.pubs ++ [⟨x', k, d.epoch, s.env.epoch, sv⟩]) := by
  have hmark : ∀ s1 : State, (mark s1 x).env.aggReg = s1.env.aggReg ∧ (mark s1 x).env.aggEpoch = s1.env.aggEpoch ∧
      (mark s1 x).st.stakes = s1.st.stakes ∧ (mark s1 x).env.epoch = s1.env.epoch ∧ (mark s1 x).pubs = s1.pubs := by
    intro s1; unfold mark; split <;> exact ⟨rfl, rfl, rfl, rfl, rfl⟩
  unfold signEntity
  repeat' split
  all_goals first
    | exact ⟨rfl, rfl, rfl, rfl, Or.inl rfl⟩
    | (obtain ⟨m1, m2, m3, m4, m5⟩ := hmark s; exact ⟨m1, m2, m3, m4, Or.inl m5⟩)
    | skip
  rename_i k sv hk _ _ _
  unfold publishMark
  split
  · exact ⟨rfl, rfl, rfl, rfl, Or.inl rfl⟩
  split
  · generalize hs1 : ({ s with env := _, pubs := s.pubs ++ [⟨x, k, d.epoch, s.env.epoch, sv⟩] } : State) = s1
    obtain ⟨m1, m2, m3, m4, m5⟩ := hmark s1
    subst hs1
    exact ⟨m1, m2, m3, m4, Or.inr ⟨x, k, sv, hk, m5⟩⟩
  · exact ⟨rfl, rfl, rfl, rfl, Or.inl rfl⟩

theorem tickReady_agg (s : State) (e : Nat) (lost : Bool) (r : InvReg s) (a : InvAgg s) (hm : s.mach = .ready e) :
    InvAgg (tickReady s e lost) := by
  unfold tickReady
  split
  · exact a.same rfl rfl rfl rfl rfl rfl (fun _ he => by cases he)
  rename_i hlt
  split
  · exact a.same rfl rfl rfl rfl rfl rfl (fun _ he => he)
  rename_i d hd
  split
  · exact a.same rfl rfl rfl rfl rfl rfl (fun _ he => he)
  split
  · exact a.same rfl rfl rfl rfl rfl rfl (fun _ he => he)
  rename_i x _
  have f := signEntity_frame s d x lost
  obtain ⟨g1, g2, g3, g4, g5⟩ := signEntity_aggFrame s d x lost
  have hready : ∀ e', (signEntity s d x lost).mach = .ready e' → s.mach = .ready e' := by
    intro e' he'; rw [f.mach] at he'; exact he'
  rcases g5 with hp | ⟨x', k, sv, hk, hp⟩
  · exact a.same g1 g2 f.data g3 g4 hp hready
  · refine ⟨by rw [g1, g2]; exact a.aggRec, by rw [g1, g2, f.data]; exact a.dataCur, by rw [g3, g4]; exact a.stakesLe,
      by rw [f.data, g4]; exact fun e' he' => a.ready e' (hready e' he'), ?_⟩
    intro p hp'
    rw [hp] at hp'
    rw [g1, g2]
    rcases List.mem_append.mp hp' with hp' | hp'
    · exact a.pubsAgg p hp'
    · simp only [List.mem_singleton] at hp'
      subst hp'
      obtain ⟨hle, hde⟩ := a.ready e hm
      have hde' := hde d hd
      obtain ⟨hc1, hc2⟩ := a.dataCur d hd
      obtain ⟨d', hd', hcan⟩ := r.ready e hm
      rw [hd] at hd'; cases hd'
      unfold canSign at hcan
      rw [hk] at hcan
      refine ⟨by show d.epoch = s.env.epoch; omega, hc2, ?_⟩
      show (⟨0, k⟩ : Reg) ∈ regsFor s.env.aggReg (retrieval d.epoch)
      rw [← hc1]
      simpa using hcan

theorem step_agg (s : State) (ev : Event) (r : InvReg s) (a : InvAgg s) : InvAgg (step s ev) := by
  cases ev with
  | tick lost =>
    show InvAgg (tick s lost)
    unfold tick
    split
    · exact a.same rfl rfl rfl rfl rfl rfl (fun _ he => by cases he)
    · rename_i e hm; exact tickUnreg_agg s e r a hm
    · unfold tickNotAble
      dsimp only
      split
      · exact a.same rfl rfl rfl rfl rfl rfl (fun _ he => by cases he)
      · exact a.same rfl rfl rfl rfl rfl rfl (fun _ he => he)
    · rename_i e hm; exact tickReady_agg s e lost r a hm
  | restart =>
    exact ⟨a.aggRec, fun d hd => (by cases hd), a.stakesLe, fun e he => (by cases he), a.pubsAgg⟩
  | epochUp v =>
    refine ⟨a.aggRec, a.dataCur, ?_, ?_, a.pubsAgg⟩
    · intro p hp; have := a.stakesLe p hp; show p.1 ≤ s.env.epoch + 1 + 1; omega
    · intro e he
      obtain ⟨h1, h2⟩ := a.ready e he
      exact ⟨by show e ≤ s.env.epoch + 1; omega, h2⟩
  | aggEpochUp =>
    refine ⟨?_, ?_, a.stakesLe, a.ready, ?_⟩
    · intro p hp; have := a.aggRec p hp; show p.1 ≤ s.env.aggEpoch + 1 + 1; omega
    · intro d hd
      obtain ⟨h1, h2⟩ := a.dataCur d hd
      exact ⟨h1, by show d.epoch ≤ s.env.aggEpoch + 1; omega⟩
    · intro p hp
      obtain ⟨h1, h2, h3⟩ := a.pubsAgg p hp
      exact ⟨h1, by show p.aggEpoch ≤ s.env.aggEpoch + 1; omega, h3⟩
  | regOthers rs =>
    have hother : ∀ e, e ≤ s.env.aggEpoch →
        regsFor (s.env.aggReg ++ rs.map (fun x => (recording s.env.aggEpoch, x))) (retrieval e) =
          regsFor s.env.aggReg (retrieval e) := by
      intro e he
      apply regsFor_map_other
      unfold recording retrieval; omega
    refine ⟨?_, ?_, a.stakesLe, a.ready, ?_⟩
    · intro p hp
      rcases List.mem_append.mp hp with hp | hp
      · exact a.aggRec p hp
      · obtain ⟨x, _, rfl⟩ := List.mem_map.mp hp
        show recording s.env.aggEpoch ≤ s.env.aggEpoch + 1
        unfold recording; omega
    · intro d hd
      obtain ⟨h1, h2⟩ := a.dataCur d hd
      refine ⟨?_, h2⟩
      show d.cur = regsFor (s.env.aggReg ++ rs.map (fun x => (recording s.env.aggEpoch, x))) (retrieval d.epoch)
      rw [hother d.epoch h2]; exact h1
    · intro p hp
      obtain ⟨h1, h2, h3⟩ := a.pubsAgg p hp
      refine ⟨h1, h2, ?_⟩
      show (⟨0, p.key⟩ : Reg) ∈ regsFor (s.env.aggReg ++ rs.map (fun x => (recording s.env.aggEpoch, x))) (retrieval p.aggEpoch)
      rw [hother p.aggEpoch h2]; exact h3
  | setMarkFail n => exact a.same rfl rfl rfl rfl rfl rfl (fun _ he => he)
  | immUp n => exact a.same rfl rfl rfl rfl rfl rfl (fun _ he => he)
  | setDown b => exact a.same rfl rfl rfl rfl rfl rfl (fun _ he => he)
  | setRoundClosed b => exact a.same rfl rfl rfl rfl rfl rfl (fun _ he => he)
  | setRegFail b => exact a.same rfl rfl rfl rfl rfl rfl (fun _ he => he)
  | setRegDrop b => exact a.same rfl rfl rfl rfl rfl rfl (fun _ he => he)
  | setPubFail n => exact a.same rfl rfl rfl rfl rfl rfl (fun _ he => he)

theorem run_reg_agg (evs : List Event) (s : State) (r : InvReg s) (a : InvAgg s) :
    InvReg (run s evs) ∧ InvAgg (run s evs) := by
  induction evs generalizing s with
  | nil => exact ⟨r, a⟩
  | cons ev rest ih => exact ih (step s ev) (step_reg s ev r) (step_agg s ev r a)

theorem initState_agg (env : Env) (h : env.aggReg = []) : InvAgg (initState env) :=
  ⟨by simp [initState, h], by simp [initState], by simp [initState], by simp [initState], by simp [initState]⟩

end Signer
