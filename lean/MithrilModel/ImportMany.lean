import MithrilModel.Importer
/-!
# C13 — a whole HISTORY of imports (multi-import induction)

`Import.importF_refines` / `Import.runT_refines` / `Importer.early_exit_rinv` are statements about ONE
import. This file chains them over an arbitrary LIST of imports, each with its own target, resume
point, batch size, fuel and reply script:

* `step` is one `CardanoChainDataImporter::import(target)`: the early exit of
  `BlocksTransactionsImporter::run` (highest stored block at or above the target: the blocks stay, the
  range importer still runs) or the scan `Import.importF`; `Importer.importStep` (what the driver
  executes) is an instance (`importStep_is_step`);
* `trace` is the list of (target, consumed reply prefix) of the imports that scanned; `naive` is the
  naive application of those prefixes, cut at the respective targets;
* `many_refines`: blocks = `naive`, the store is a chain — no hypothesis on the roots is needed
  (`many_refines_single_cut`: one cut at the last target under the decidable side condition `Relost`);
* `many_roots`: with `RInv` at the start and every scanning import covered (`Below`), `RInv` holds after
  every import and the roots are the cache of all complete ranges below the last scanned target;
* what the NEXT import needs from the previous one: `Sorted` (always re-established), `hU` (follows from
  "no early exit" — `not_early_below` — not from monotone targets: `targets_not_monotone`), `RInv`
  (needed for the roots only; re-established whenever the import was covered). After an UNCOVERED import
  the roots are still exactly the cache of the stored blocks (`uncovered_keeps_cache`), only `Below` is
  lost; it is regained by a next import whose first store call is an effective roll-back
  (`import_regains`), and otherwise lost for good (`lost_for_good`): later covered imports never
  recompute the partial range. What always survives is the settled prefix (`import_settled`,
  `many_settled`, `many_settled_prefix`): the roots of every range below `k` stay right as long as the
  store covers `k` ranges after every import — whatever partial ranges are cached above;
* `many_convergence` (`many_vs_fresh`): two nodes with different import sequences whose traces fold to
  the same chain;
* `many_transactions` (`many_transactions_convergence`): the same induction for the `cardano_tx` table;
* `importStep_is_step`, `drive_is_runMany`, `runX_no_panic`: the history the driver executes
  (`Importer.importStep` over imports and restarts) is a `runMany`, and never panics on good scripts.
-/
namespace ImportMany
open Import Importer

/-! ## the highest stored block and the early exit -/

/-- the step function of `Importer.highest` -/
def hstep (acc : Option Block) (b : Block) : Option Block :=
  match acc with
  | none => some b
  | some a => if a.number < b.number then some b else some a

theorem highest_eq (S : List Block) : highest S = S.foldl hstep none := rfl

theorem fold_hstep_some : ∀ (S : List Block) (a : Block),
    ∃ h, S.foldl hstep (some a) = some h ∧ a.number ≤ h.number ∧ ∀ x ∈ S, x.number ≤ h.number := by
  intro S
  induction S with
  | nil => intro a; exact ⟨a, rfl, Nat.le_refl _, by simp⟩
  | cons x r ih =>
    intro a
    simp only [List.foldl_cons, hstep]
    by_cases hlt : a.number < x.number
    · rw [if_pos hlt]
      obtain ⟨h, h1, h2, h3⟩ := ih x
      refine ⟨h, h1, by omega, ?_⟩
      intro y hy
      simp only [List.mem_cons] at hy
      rcases hy with rfl | hy
      · exact h2
      · exact h3 y hy
    · rw [if_neg hlt]
      obtain ⟨h, h1, h2, h3⟩ := ih a
      refine ⟨h, h1, h2, ?_⟩
      intro y hy
      simp only [List.mem_cons] at hy
      rcases hy with rfl | hy
      · omega
      · exact h3 y hy

/-- the highest stored block bounds every stored block number -/
theorem highest_le {S : List Block} {h : Block} (hh : highest S = some h) : ∀ x ∈ S, x.number ≤ h.number := by
  cases S with
  | nil => simp
  | cons a r =>
    rw [highest_eq] at hh
    simp only [List.foldl_cons, hstep] at hh
    obtain ⟨h', h1, h2, h3⟩ := fold_hstep_some r a
    rw [h1] at hh
    cases hh
    intro x hx
    simp only [List.mem_cons] at hx
    rcases hx with rfl | hx
    · exact h2
    · exact h3 x hx

theorem highest_none {S : List Block} (hh : highest S = none) : S = [] := by
  cases S with
  | nil => rfl
  | cons a r =>
    rw [highest_eq] at hh
    simp only [List.foldl_cons, hstep] at hh
    obtain ⟨h', h1, _, _⟩ := fold_hstep_some r a
    rw [h1] at hh
    cases hh

/-- the early-exit test of `BlocksTransactionsImporter::run` (as in `Importer.importStep`) -/
def early (S : List Block) (target : Nat) : Bool :=
  match highest S with
  | some b => decide (b.number ≥ target)
  | none => false

/-- **`hU` of the next import is derived, not assumed**: when the import does not exit early every
stored block lies (strictly) below its target — whatever the earlier targets were -/
theorem not_early_below {S : List Block} {target : Nat} (h : early S target = false) :
    ∀ x ∈ S, x.number < target := by
  unfold early at h
  cases hh : highest S with
  | none => rw [highest_none hh]; simp
  | some b =>
    rw [hh] at h
    simp only [decide_eq_false_iff_not, Nat.not_le] at h
    intro x hx
    have := highest_le hh x hx
    omega

theorem early_spec {S : List Block} {target : Nat} (h : early S target = true) :
    ∃ b, highest S = some b ∧ b.number ≥ target := by
  unfold early at h
  cases hh : highest S with
  | none => rw [hh] at h; cases h
  | some b => rw [hh] at h; exact ⟨b, rfl, by simpa using h⟩

/-! ## the blocks of `runF` are those of `run` -/

theorem runF_run {ρ : Type} (c : Cfg) : ∀ (fuel : Nat) (lp : Option Nat) (S : List Block) (roots : List (Nat × ρ))
    (rs : List (Option Ev)),
    (runF c fuel lp S roots rs).1 = (run c fuel lp S rs).1 ∧
    (runF c fuel lp S roots rs).2.2.1 = (run c fuel lp S rs).2.1 ∧
    (runF c fuel lp S roots rs).2.2.2 = (run c fuel lp S rs).2.2 := by
  intro fuel
  induction fuel with
  | zero => intro lp S roots rs; simp [runF, run]
  | succ fuel ih =>
    intro lp S roots rs
    simp only [runF, run]
    cases hp : poll c lp [] rs with
    | mk out rest' =>
      cases rest' with
      | mk rest lp' =>
        cases out with
        | none => simp
        | some o => exact ih _ _ _ _

/-! ## one import, a list of imports -/

/-- one import request: target `c.untilN`, resume slot `c.fromSlot`, batch size `c.maxPer`, the fuel
of the model's loop and the script of reader replies -/
structure Imp where
  c : Cfg
  fuel : Nat
  rs : List (Option Ev)

/-- the blocks after one import -/
def stepB (S : List Block) (i : Imp) : List Block :=
  if early S i.c.untilN then S else (run i.c i.fuel none S i.rs).1

/-- the replies one import consumed (none when it exits early) -/
def consumed (S : List Block) (i : Imp) : List (Option Ev) :=
  i.rs.take (i.rs.length - (run i.c i.fuel none S i.rs).2.1.length)

def runManyB : List Block → List Imp → List Block
  | S, [] => S
  | S, i :: is => runManyB (stepB S i) is

/-- (target, consumed replies) of the imports that scanned, in order -/
def trace : List Block → List Imp → List (Nat × List (Option Ev))
  | _, [] => []
  | S, i :: is =>
    (if early S i.c.untilN then [] else [(i.c.untilN, consumed S i)]) ++ trace (stepB S i) is

/-- the naive semantics of a trace: apply the consumed events, cut at the import's target, go on -/
def naive : List Block → List (Nat × List (Option Ev)) → List Block
  | V, [] => V
  | V, (t, pre) :: r => naive ((applyAll V pre).filter (fun x => x.number ≤ t)) r

/-- every import of the list either exits early or reads a script that is `Good` relative to the
store it starts from (what the driver decides, import by import: class letter `e` or `g`/`3`) -/
def Ok : List Block → List Imp → Prop
  | _, [] => True
  | S, i :: is => (early S i.c.untilN = true ∨ Good i.c none S i.rs) ∧ Ok (stepB S i) is

def okB : List Block → List Imp → Bool
  | _, [] => true
  | S, i :: is => (early S i.c.untilN || goodB i.c none S i.rs) && okB (stepB S i) is

theorem okB_iff : ∀ (is : List Imp) (S : List Block), okB S is = true ↔ Ok S is := by
  intro is
  induction is with
  | nil => intro S; simp [okB, Ok]
  | cons i is ih =>
    intro S
    simp only [okB, Ok, Bool.and_eq_true, Bool.or_eq_true, goodB_iff, ih]

/-- one import on the blocks: an early exit keeps them; a scan of a good script from a chain ends with
the naive application of the consumed replies cut at the target, again a chain -/
theorem stepB_spec (S : List Block) (i : Imp) (hS : Sorted S)
    (h : early S i.c.untilN = true ∨ Good i.c none S i.rs) :
    Sorted (stepB S i) ∧
    (early S i.c.untilN = true → stepB S i = S) ∧
    (early S i.c.untilN = false →
      i.rs = consumed S i ++ (run i.c i.fuel none S i.rs).2.1 ∧
      stepB S i = (applyAll S (consumed S i)).filter (fun x => x.number ≤ i.c.untilN) ∧
      ∀ x ∈ stepB S i, x.number ≤ i.c.untilN) := by
  by_cases he : early S i.c.untilN = true
  · have : stepB S i = S := by simp [stepB, he]
    exact ⟨(by rw [this]; exact hS), (fun _ => this), (fun h' => by rw [he] at h'; cases h')⟩
  · have he' : early S i.c.untilN = false := by simpa using he
    have hG : Good i.c none S i.rs := h.resolve_left he
    have hU : ∀ x ∈ S, x.number ≤ i.c.untilN := fun x hx => Nat.le_of_lt (not_early_below he' x hx)
    have hI : Inv i.c S [] S := by
      refine ⟨hS, ?_, Or.inl rfl⟩
      rw [List.append_nil]; symm; rw [List.filter_eq_self]; intro x hx; simpa using hU x hx
    obtain ⟨pre, h1, h2⟩ := run_refines i.c i.fuel none S S i.rs hI hG
    have hstep : stepB S i = (run i.c i.fuel none S i.rs).1 := by simp [stepB, he']
    have hpre : consumed S i = pre := by
      unfold consumed
      conv => lhs; arg 2; rw [h1]
      conv => lhs; arg 1; arg 1; rw [h1]
      simp
    have hsorted : Sorted (run i.c i.fuel none S i.rs).1 := by
      have := inv_sorted_store h2; simpa using this
    have heq : (run i.c i.fuel none S i.rs).1 = (applyAll S pre).filter (fun x => x.number ≤ i.c.untilN) := by
      simpa using h2.2.1
    refine ⟨(by rw [hstep]; exact hsorted), (fun h' => by rw [he'] at h'; cases h'), fun _ => ⟨?_, ?_, ?_⟩⟩
    · rw [hpre]; exact h1
    · rw [hstep, hpre]; exact heq
    · intro x hx
      rw [hstep, heq] at hx
      simpa using (List.mem_filter.mp hx).2

/-- **multi-import refinement, blocks.** From ANY chain `S0` (the empty store is one), after ANY list
of imports each of which exits early or reads a script that is `Good` relative to the store it starts
from, the stored blocks are the naive application of the consumed reply prefixes, cut at the
respective targets, and the store is a chain. No hypothesis on targets (they need not be monotone),
batch sizes, resume points, fuel or roots. -/
theorem many_refines_blocks : ∀ (is : List Imp) (S0 : List Block), Sorted S0 → Ok S0 is →
    runManyB S0 is = naive S0 (trace S0 is) ∧ Sorted (runManyB S0 is) := by
  intro is
  induction is with
  | nil => intro S0 hS _; exact ⟨rfl, hS⟩
  | cons i is ih =>
    intro S0 hS hOk
    obtain ⟨h1, h2, h3⟩ := stepB_spec S0 i hS hOk.1
    obtain ⟨g1, g2⟩ := ih (stepB S0 i) h1 hOk.2
    refine ⟨?_, g2⟩
    simp only [runManyB, trace]
    rw [g1]
    by_cases he : early S0 i.c.untilN = true
    · rw [if_pos he, List.nil_append, h2 he]
    · have he' : early S0 i.c.untilN = false := by simpa using he
      rw [if_neg he, List.singleton_append, naive, ← (h3 he').2.1]

/-! ## blocks and roots -/

section roots
variable {ρ : Type} (R : List Block → Option ρ)

/-- the part of the importer's store the theorems are about -/
structure Node (ρ : Type) where
  blocks : List Block
  roots : List (Nat × ρ)

/-- one `CardanoChainDataImporter::import(target)`: the early exit of the blocks importer (the range
importer still runs) or the scan followed by the range importer (`Import.importF`) -/
def step (n : Node ρ) (i : Imp) : Node ρ :=
  if early n.blocks i.c.untilN then ⟨n.blocks, rangesRun R n.blocks n.roots i.c.untilN⟩
  else ⟨(importF R i.c i.fuel n.blocks n.roots i.rs).1, (importF R i.c i.fuel n.blocks n.roots i.rs).2.1⟩

def runMany : Node ρ → List Imp → Node ρ
  | n, [] => n
  | n, i :: is => runMany (step R n i) is

theorem step_blocks (n : Node ρ) (i : Imp) : (step R n i).blocks = stepB n.blocks i := by
  unfold step stepB
  split
  · rfl
  · exact (runF_run i.c i.fuel none n.blocks n.roots i.rs).1

theorem runMany_blocks : ∀ (is : List Imp) (n : Node ρ), (runMany R n is).blocks = runManyB n.blocks is := by
  intro is
  induction is with
  | nil => intro n; rfl
  | cons i is ih => intro n; simp only [runMany, runManyB]; rw [ih, step_blocks]

theorem runMany_take_succ (n : Node ρ) (i : Imp) (is : List Imp) (j : Nat) :
    runMany R n ((i :: is).take (j + 1)) = runMany R (step R n i) (is.take j) := rfl

theorem inv_le {c : Cfg} {S V : List Block} (h : Inv c S [] V) : ∀ x ∈ S, x.number ≤ c.untilN := by
  intro x hx
  have : x ∈ V.filter (fun x => x.number ≤ c.untilN) := by
    have h2 := h.2.1; simp only [List.append_nil] at h2; rw [← h2]; exact hx
  simpa using (List.mem_filter.mp this).2

/-- a cache that lies at or below the highest stored block never extends beyond the ranges of a bound
of the block numbers -/
theorem below_le_div {S : List Block} {K t : Nat} (hB : Below S K) (hU : ∀ x ∈ S, x.number ≤ t) :
    K ≤ (t + 1) / LEN := by
  rcases hB with h0 | ⟨b, hb, hbK⟩
  · rw [h0]; exact Nat.zero_le _
  · have := hU b hb
    rw [Nat.le_div_iff_mul_le (by decide : 0 < LEN)]
    omega

/-- the range importer after a scan: the roots become the cache of ALL complete ranges below the
target — with or without coverage of the last one -/
theorem ranges_after_scan (t : Nat) (S1 : List Block) (roots1 : List (Nat × ρ))
    (hU : ∀ x ∈ S1, x.number ≤ t) (hR : RInv R S1 roots1) :
    rangesRun R S1 roots1 t = cached R S1 ((t + 1) / LEN) := by
  obtain ⟨K, hK, hB⟩ := hR
  rw [hK, rangesRun_cached]
  have := below_le_div hB hU
  congr 1; omega

/-- one scanning import from a store whose roots satisfy `RInv` -/
theorem importF_spec (c : Cfg) (fuel : Nat) (S0 : List Block) (roots0 : List (Nat × ρ)) (rs : List (Option Ev))
    (hS : Sorted S0) (hU : ∀ x ∈ S0, x.number ≤ c.untilN) (hG : Good c none S0 rs) (hR : RInv R S0 roots0) :
    (importF R c fuel S0 roots0 rs).2.1 = cached R (importF R c fuel S0 roots0 rs).1 ((c.untilN + 1) / LEN) ∧
    (∀ x ∈ (importF R c fuel S0 roots0 rs).1, x.number ≤ c.untilN) ∧
    (Below (importF R c fuel S0 roots0 rs).1 ((c.untilN + 1) / LEN) →
      RInv R (importF R c fuel S0 roots0 rs).1 (importF R c fuel S0 roots0 rs).2.1) := by
  have hI : Inv c S0 [] S0 := by
    refine ⟨hS, ?_, Or.inl rfl⟩
    rw [List.append_nil]; symm; rw [List.filter_eq_self]; intro x hx; simpa using hU x hx
  obtain ⟨pre, _, h2, h3⟩ := runF_refines R c fuel none S0 S0 roots0 rs hI hG hR
  have hle := inv_le h2
  have hc := ranges_after_scan R c.untilN _ _ hle h3
  refine ⟨hc, hle, fun hB => ?_⟩
  simp only [importF] at hB ⊢
  rw [hc]
  exact ⟨_, rfl, hB⟩

/-- **an uncovered import keeps the cache.** Whatever the coverage of the last range, right after a
scan from an `RInv` store the roots ARE the cache of the stored blocks for all complete ranges below
the target: what an uncovered import loses is only `Below` — the guarantee that no later forward lands
inside a cached range. -/
theorem uncovered_keeps_cache (c : Cfg) (fuel : Nat) (S0 : List Block) (roots0 : List (Nat × ρ)) (rs : List (Option Ev))
    (hS : Sorted S0) (hU : ∀ x ∈ S0, x.number ≤ c.untilN) (hG : Good c none S0 rs) (hR : RInv R S0 roots0) :
    (importF R c fuel S0 roots0 rs).2.1 = cached R (importF R c fuel S0 roots0 rs).1 ((c.untilN + 1) / LEN) :=
  (importF_spec R c fuel S0 roots0 rs hS hU hG hR).1

/-- target of the last import that scanned (`T?` if none did) -/
def lastT : Option Nat → List (Nat × List (Option Ev)) → Option Nat
  | T?, [] => T?
  | _, (t, _) :: r => lastT (some t) r

/-- every scanning import of the list ends with its last complete range covered by a stored block -/
def Covered : List Block → List Imp → Prop
  | _, [] => True
  | S, i :: is => (early S i.c.untilN = true ∨ Below (stepB S i) ((i.c.untilN + 1) / LEN)) ∧ Covered (stepB S i) is

def coveredB : List Block → List Imp → Bool
  | _, [] => true
  | S, i :: is => (early S i.c.untilN || belowB (stepB S i) ((i.c.untilN + 1) / LEN)) && coveredB (stepB S i) is

theorem coveredB_iff : ∀ (is : List Imp) (S : List Block), coveredB S is = true ↔ Covered S is := by
  intro is
  induction is with
  | nil => intro S; simp [coveredB, Covered]
  | cons i is ih =>
    intro S
    simp only [coveredB, Covered, Bool.and_eq_true, Bool.or_eq_true, belowB_iff, ih]

/-- the invariant BETWEEN imports (roots): `RInv`, and — once an import has scanned, with target `T` —
no stored block above `T` and the roots are the cache of all complete ranges below `T` -/
def J (n : Node ρ) (T? : Option Nat) : Prop :=
  RInv R n.blocks n.roots ∧
  ∀ T, T? = some T → (∀ x ∈ n.blocks, x.number ≤ T) ∧ n.roots = cached R n.blocks ((T + 1) / LEN)

theorem step_J (n : Node ρ) (T? : Option Nat) (i : Imp) (hS : Sorted n.blocks) (hJ : J R n T?)
    (hOk : early n.blocks i.c.untilN = true ∨ Good i.c none n.blocks i.rs)
    (hCov : early n.blocks i.c.untilN = true ∨ Below (stepB n.blocks i) ((i.c.untilN + 1) / LEN)) :
    J R (step R n i) (if early n.blocks i.c.untilN then T? else some i.c.untilN) := by
  by_cases he : early n.blocks i.c.untilN = true
  · obtain ⟨b, hb, hge⟩ := early_spec he
    have hst : step R n i = ⟨n.blocks, rangesRun R n.blocks n.roots i.c.untilN⟩ := by simp [step, he]
    rw [if_pos he, hst]
    refine ⟨early_exit_rinv R n.blocks n.roots i.c.untilN b hb hge hJ.1, ?_⟩
    intro T hT
    obtain ⟨h1, h2⟩ := hJ.2 T hT
    refine ⟨h1, ?_⟩
    simp only
    rw [h2, rangesRun_cached]
    have hbm : b ∈ n.blocks := by
      rcases highest_mem_le n.blocks none b hb with h | h
      · exact h
      · cases h
    have : i.c.untilN ≤ T := by have := h1 b hbm; omega
    have : (i.c.untilN + 1) / LEN ≤ (T + 1) / LEN := Nat.div_le_div_right (by omega)
    congr 1; omega
  · have he' : early n.blocks i.c.untilN = false := by simpa using he
    have hst : step R n i = ⟨(importF R i.c i.fuel n.blocks n.roots i.rs).1, (importF R i.c i.fuel n.blocks n.roots i.rs).2.1⟩ := by
      simp [step, he']
    have hU : ∀ x ∈ n.blocks, x.number ≤ i.c.untilN := fun x hx => Nat.le_of_lt (not_early_below he' x hx)
    obtain ⟨g1, g2, g3⟩ := importF_spec R i.c i.fuel n.blocks n.roots i.rs hS hU (hOk.resolve_left he) hJ.1
    have hB := hCov.resolve_left he
    rw [← step_blocks R, hst] at hB
    rw [if_neg he, hst]
    refine ⟨g3 hB, ?_⟩
    intro T hT
    cases hT
    exact ⟨g2, g1⟩

theorem lastT_trace_cons (T? : Option Nat) (S : List Block) (i : Imp) (is : List Imp) :
    lastT T? (trace S (i :: is)) = lastT (if early S i.c.untilN then T? else some i.c.untilN) (trace (stepB S i) is) := by
  simp only [trace]
  split <;> rfl

/-- **multi-import refinement, roots.** From a chain whose roots satisfy the invariant (the empty store
is one), after ANY list of imports each of which exits early or scans a good script AND ends covered:
after EVERY import of the list the roots invariant `RInv` holds again (so the next import's hypothesis
is re-established), and after an import that scanned with target `T` the roots are exactly the cache of
all complete ranges below `T` computed from the stored blocks (early exits in between change nothing). -/
theorem many_roots : ∀ (is : List Imp) (n : Node ρ) (T? : Option Nat), Sorted n.blocks → J R n T? →
    Ok n.blocks is → Covered n.blocks is →
    ∀ j, J R (runMany R n (is.take j)) (lastT T? (trace n.blocks (is.take j))) := by
  intro is
  induction is with
  | nil => intro n T? _ hJ _ _ j; simpa [runMany, trace, lastT] using hJ
  | cons i is ih =>
    intro n T? hS hJ hOk hCov j
    cases j with
    | zero => simpa [runMany, trace, lastT] using hJ
    | succ j =>
      rw [List.take_succ_cons, lastT_trace_cons]
      simp only [runMany]
      have hJ' := step_J R n T? i hS hJ hOk.1 hCov.1
      have hS' : Sorted (step R n i).blocks := by
        rw [step_blocks]; exact (stepB_spec n.blocks i hS hOk.1).1
      have := ih (step R n i) _ hS' hJ' (by rw [step_blocks]; exact hOk.2) (by rw [step_blocks]; exact hCov.2) j
      rw [step_blocks] at this
      exact this

theorem ok_take : ∀ (is : List Imp) (S : List Block) (j : Nat), Ok S is → Ok S (is.take j) := by
  intro is
  induction is with
  | nil => intro S j _; simp [Ok]
  | cons i is ih =>
    intro S j h
    cases j with
    | zero => simp [Ok]
    | succ j => rw [List.take_succ_cons]; exact ⟨h.1, ih _ j h.2⟩

theorem covered_take : ∀ (is : List Imp) (S : List Block) (j : Nat), Covered S is → Covered S (is.take j) := by
  intro is
  induction is with
  | nil => intro S j _; simp [Covered]
  | cons i is ih =>
    intro S j h
    cases j with
    | zero => simp [Covered]
    | succ j => rw [List.take_succ_cons]; exact ⟨h.1, ih _ j h.2⟩

/-- `RInv` holds after import `j` as soon as the scanning imports UP TO `j` are covered — whatever
happens later (the form in which the next import's hypothesis `hR` is re-established) -/
theorem many_roots_upto (is : List Imp) (n : Node ρ) (j : Nat) (hS : Sorted n.blocks) (hR : RInv R n.blocks n.roots)
    (hOk : Ok n.blocks is) (hC : Covered n.blocks (is.take j)) :
    J R (runMany R n (is.take j)) (lastT none (trace n.blocks (is.take j))) := by
  have hJ : J R n none := ⟨hR, fun T hT => by cases hT⟩
  have := many_roots R (is.take j) n none hS hJ (ok_take is _ j hOk) hC (is.take j).length
  rw [List.take_length] at this
  exact this

end roots

/-! ## what survives an uncovered import: the settled prefix -/

section settled
variable {ρ : Type} (R : List Block → Option ρ)

/-- the first `k` ranges are settled: they lie at or below the highest stored block and the stored
roots of those ranges are their cache; nothing is said about the roots from range `k` on (they may be
roots of partially imported ranges). `RInv` is `PInv K` with no root from `K` on (`rinv_iff_pinv`). -/
def PInv (S : List Block) (roots : List (Nat × ρ)) (k : Nat) : Prop :=
  Below S k ∧ roots.filter (fun r => r.1 < k) = cached R S k

theorem below_mono {S : List Block} {k k' : Nat} (h : Below S k) (hk : k' ≤ k) : Below S k' := by
  rcases h with h0 | ⟨b, hb, hbk⟩
  · exact Or.inl (by omega)
  · refine Or.inr ⟨b, hb, ?_⟩
    have : k' * LEN ≤ k * LEN := Nat.mul_le_mul_right _ hk
    omega

theorem filter_lt_lt (roots : List (Nat × ρ)) (a b : Nat) :
    (roots.filter (fun r => r.1 < a)).filter (fun r => r.1 < b) = roots.filter (fun r => r.1 < min a b) := by
  rw [List.filter_filter]
  apply List.filter_congr
  intro r _
  by_cases h1 : r.1 < a <;> by_cases h2 : r.1 < b <;> simp [h1, h2] <;> omega

theorem filter_lt_self (roots : List (Nat × ρ)) (k : Nat) (h : ∀ r ∈ roots, r.1 < k) :
    roots.filter (fun r => r.1 < k) = roots := by
  rw [List.filter_eq_self]; intro r hr; simpa using h r hr

theorem pinv_mono {S : List Block} {roots : List (Nat × ρ)} {k k' : Nat} (h : PInv R S roots k) (hk : k' ≤ k) :
    PInv R S roots k' := by
  refine ⟨below_mono h.1 hk, ?_⟩
  have : min k k' = k' := by omega
  rw [← this, ← filter_lt_lt, h.2, rollbackRoots_cached]

theorem cached_keys {S : List Block} {K : Nat} : ∀ r ∈ cached R S K, r.1 < K :=
  fun _ hr => ((mem_cached R).mp hr).1

theorem rinv_iff_pinv (S : List Block) (roots : List (Nat × ρ)) :
    RInv R S roots ↔ ∃ K, PInv R S roots K ∧ ∀ r ∈ roots, r.1 < K := by
  constructor
  · rintro ⟨K, hK, hB⟩
    refine ⟨K, ⟨hB, ?_⟩, ?_⟩
    · rw [hK, filter_lt_self _ _ (cached_keys R)]
    · rw [hK]; exact cached_keys R
  · rintro ⟨K, ⟨hB, hf⟩, hk⟩
    exact ⟨K, by rw [← hf, filter_lt_self _ _ hk], hB⟩

theorem pinv_zero (S : List Block) (roots : List (Nat × ρ)) : PInv R S roots 0 :=
  ⟨Or.inl rfl, by simp [cached]⟩

/-- an exact cache (with or without `Below`) settles every covered prefix -/
theorem pinv_of_cached (S : List Block) (K k : Nat) (hB : Below S k) (hk : k ≤ K) : PInv R S (cached R S K) k := by
  refine ⟨hB, ?_⟩
  rw [rollbackRoots_cached]; congr 1; omega

theorem pinv_forwards (S ext : List Block) (roots : List (Nat × ρ)) (k : Nat) (hS : Sorted (S ++ ext))
    (h : PInv R S roots k) : PInv R (S ++ ext) roots k := by
  obtain ⟨hB, hr⟩ := h
  refine ⟨?_, ?_⟩
  · rcases hB with h0 | ⟨b, hb, hbK⟩
    · exact Or.inl h0
    · exact Or.inr ⟨b, by simp [hb], hbK⟩
  · rw [hr]; symm
    apply cached_congr
    rcases hB with h0 | ⟨b, hb, hbK⟩
    · subst h0; intro j hj; omega
    · apply blocksOf_append_above
      intro x hx
      have := ((List.pairwise_append.mp hS).2.2 b hb x hx).1
      omega

theorem cached_filter_le (S : List Block) (n K : Nat) (hK : K ≤ n / LEN) :
    cached R (S.filter (fun b => b.number ≤ n)) K = cached R S K := by
  apply cached_congr
  intro j hj
  unfold blocksOf
  rw [List.filter_filter]
  apply List.filter_congr
  intro b _
  have h1 : (j + 1) * LEN ≤ n / LEN * LEN := Nat.mul_le_mul_right _ (by omega)
  have h2 : n / LEN * LEN ≤ n := Nat.div_mul_le_self n LEN
  simp only [inRange]
  by_cases hb : b.number < (j + 1) * LEN
  · have : b.number ≤ n := by omega
    simp [hb, this]
  · simp [hb]

theorem anchor_mem {S : List Block} {s n : Nat} (ha : anchor S s = some n) : ∃ a ∈ S, a.number = n := by
  obtain ⟨hmem, _⟩ := List.max?_eq_some_iff.mp ha
  simp only [List.mem_map, List.mem_filter, decide_eq_true_eq] at hmem
  obtain ⟨a, ⟨haS, _⟩, han⟩ := hmem
  exact ⟨a, haS, han⟩

theorem below_after_rollback {S : List Block} {s n K : Nat} (ha : anchor S s = some n) (hK : K ≤ n / LEN) :
    Below (S.filter (fun b => b.number ≤ n)) K := by
  obtain ⟨a, haS, han⟩ := anchor_mem ha
  by_cases h0 : K = 0
  · exact Or.inl h0
  · refine Or.inr ⟨a, by simp [haS, han], ?_⟩
    have h1 : K * LEN ≤ n / LEN * LEN := Nat.mul_le_mul_right _ hK
    have h2 : n / LEN * LEN ≤ n := Nat.div_mul_le_self n LEN
    omega

theorem pinv_backward (S : List Block) (roots : List (Nat × ρ)) (s n k : Nat) (ha : anchor S s = some n)
    (h : PInv R S roots k) :
    PInv R (S.filter (fun b => b.number ≤ n)) (rollbackRoots roots n) (min k (n / LEN)) := by
  refine ⟨below_after_rollback ha (by omega), ?_⟩
  unfold rollbackRoots
  rw [filter_lt_lt]
  have : min (n / LEN) (min k (n / LEN)) = min k (n / LEN) := by omega
  rw [this, ← filter_lt_lt, h.2, rollbackRoots_cached, cached_filter_le R S n _ (by omega)]

/-- **the first effective roll-back regains the invariant**: for roots that are an exact cache of the
stored blocks — even one that reaches beyond the highest stored block (`Below` not required) — the
roll-back deletes every root from the anchor's range on, and what remains lies below the anchor -/
theorem winv_backward (S : List Block) (K s n : Nat) (ha : anchor S s = some n) :
    RInv R (S.filter (fun b => b.number ≤ n)) (rollbackRoots (cached R S K) n) := by
  refine ⟨min K (n / LEN), ?_, below_after_rollback ha (by omega)⟩
  unfold rollbackRoots
  rw [rollbackRoots_cached, cached_filter_le R S n _ (by omega)]

/-- the loop invariant without coverage: the roots invariant holds, or at least the first `k` ranges
are settled -/
def L (k : Nat) (S : List Block) (roots : List (Nat × ρ)) : Prop := RInv R S roots ∨ PInv R S roots k

theorem L_applyOut (k : Nat) (S : List Block) (roots : List (Nat × ρ)) (out : Option Out)
    (hS' : Sorted (applyOut S out)) (h : L R k S roots) :
    L R k (applyOut S out) (applyOutRoots S roots out) := by
  rcases h with h | h
  · exact Or.inl (rinv_applyOut R S roots out hS' h)
  · cases out with
    | none => exact Or.inr (by simpa [applyOut, applyOutRoots] using h)
    | some o =>
      cases o with
      | forwards bs =>
        obtain ⟨ext, he⟩ := insertAll_prefix S bs
        simp only [applyOut, applyOutRoots] at hS' ⊢
        rw [he] at hS' ⊢
        exact Or.inr (pinv_forwards R S ext roots k hS' h)
      | backward s =>
        simp only [applyOut, applyOutRoots, rollback]
        cases ha : anchor S s with
        | none => exact Or.inr (by simpa using h)
        | some n =>
          simp only
          have hp := pinv_backward R S roots s n k ha h
          by_cases hk : k ≤ n / LEN
          · have : min k (n / LEN) = k := by omega
            rw [this] at hp
            exact Or.inr hp
          · have : min k (n / LEN) = n / LEN := by omega
            rw [this] at hp
            refine Or.inl ((rinv_iff_pinv R _ _).mpr ⟨n / LEN, hp, ?_⟩)
            intro r hr
            simpa [rollbackRoots] using (List.mem_filter.mp hr).2

theorem runF_settled (k : Nat) (c : Cfg) : ∀ (fuel : Nat) (lp : Option Nat) (S V : List Block) (roots : List (Nat × ρ))
    (rs : List (Option Ev)),
    Inv c S [] V → Good c lp V rs → L R k S roots →
    ∃ pre, Inv c (runF c fuel lp S roots rs).1 [] (applyAll V pre) ∧
      L R k (runF c fuel lp S roots rs).1 (runF c fuel lp S roots rs).2.1 := by
  intro fuel
  induction fuel with
  | zero => intro lp S V roots rs hI _ hR; exact ⟨[], by simpa [runF, applyAll] using hI, by simpa [runF] using hR⟩
  | succ fuel ih =>
    intro lp S V roots rs hI hG hR
    obtain ⟨pre, h1, _, h3, h4⟩ := poll_refines c rs lp [] S V hI hG
    simp only [runF]
    cases hp : poll c lp [] rs with
    | mk out rest' =>
      cases rest' with
      | mk rest lp' =>
        rw [hp] at h1 h3 h4
        cases out with
        | none => exact ⟨pre, by simpa [applyOut] using h3, hR⟩
        | some o =>
          simp only
          have hS' : Sorted (applyOut S (some o)) := by
            have := inv_sorted_store h3; simpa using this
          have hR' := L_applyOut R k S roots (some o) hS' hR
          obtain ⟨pre', g2, g3⟩ := ih lp' _ _ _ rest h3 h4 hR'
          exact ⟨pre ++ pre', by rw [applyAll_append]; exact g2, g3⟩

theorem resume_gt (roots : List (Nat × ρ)) : ∀ r ∈ roots, r.1 < resume roots := by
  intro r hr
  unfold resume
  cases hm : (roots.map (·.1)).max? with
  | none =>
    rw [List.max?_eq_none_iff, List.map_eq_nil_iff] at hm
    rw [hm] at hr; simp at hr
  | some m =>
    have := (List.max?_eq_some_iff.mp hm).2 r.1 (List.mem_map.mpr ⟨r, hr, rfl⟩)
    simp only; omega

/-- the range importer never touches a settled prefix: it resumes above every stored root -/
theorem pinv_rangesRun (S : List Block) (roots : List (Nat × ρ)) (k t : Nat) (h : PInv R S roots k) :
    PInv R S (rangesRun R S roots t) k := by
  refine ⟨h.1, ?_⟩
  unfold rangesRun
  simp only [List.filter_append]
  have hnil : ((List.range' (resume roots) ((t + 1) / LEN - resume roots)).filterMap (rootAt R S)).filter
      (fun r => r.1 < k) = [] := by
    rw [List.filter_eq_nil_iff]
    intro r hr
    simp only [List.mem_filterMap, List.mem_range'_1] at hr
    obtain ⟨j, ⟨hj1, _⟩, hj⟩ := hr
    have hrj := rootAt_fst R hj
    simp only [decide_eq_true_eq]
    intro hlt
    -- every stored root lies below `j < k`: the stored roots are the cache of the first `k` ranges
    have hall : ∀ x ∈ roots, x.1 < k := fun x hx => by have := resume_gt roots x hx; omega
    have heq : roots = cached R S k := by rw [← h.2, filter_lt_self _ _ hall]
    have : r ∈ roots := by
      rw [heq]; exact (mem_cached R).mpr ⟨hlt, by rw [hrj]; exact hj⟩
    have := resume_gt roots r this
    omega
  rw [hnil, List.append_nil]
  exact h.2

/-- **the settled prefix survives every import.** One scanning import of a good script — covered or
NOT, with any roll-backs (also below range `k`: those ranges are then recomputed) and whatever roots of
partially imported ranges are stored from range `k` on: if the first `k` ranges were settled before
and the store still covers `k` ranges afterwards, they are settled afterwards. -/
theorem import_settled (c : Cfg) (fuel : Nat) (S0 : List Block) (roots0 : List (Nat × ρ)) (rs : List (Option Ev)) (k : Nat)
    (hS : Sorted S0) (hU : ∀ x ∈ S0, x.number ≤ c.untilN) (hG : Good c none S0 rs) (hP : PInv R S0 roots0 k)
    (hB : Below (importF R c fuel S0 roots0 rs).1 k) :
    PInv R (importF R c fuel S0 roots0 rs).1 (importF R c fuel S0 roots0 rs).2.1 k := by
  have hI : Inv c S0 [] S0 := by
    refine ⟨hS, ?_, Or.inl rfl⟩
    rw [List.append_nil]; symm; rw [List.filter_eq_self]; intro x hx; simpa using hU x hx
  obtain ⟨pre, h2, h3⟩ := runF_settled R k c fuel none S0 S0 roots0 rs hI hG (Or.inr hP)
  have hle := inv_le h2
  simp only [importF] at hB ⊢
  rcases h3 with h3 | h3
  · rw [ranges_after_scan R c.untilN _ _ hle h3]
    exact pinv_of_cached R _ _ _ hB (below_le_div hB hle)
  · exact pinv_rangesRun R _ _ k c.untilN h3

/-- the store covers `k` ranges after every import of the list -/
def CoversAll (k : Nat) : List Block → List Imp → Prop
  | _, [] => True
  | S, i :: is => Below (stepB S i) k ∧ CoversAll k (stepB S i) is

def coversAllB (k : Nat) : List Block → List Imp → Bool
  | _, [] => true
  | S, i :: is => belowB (stepB S i) k && coversAllB k (stepB S i) is

theorem coversAllB_iff (k : Nat) : ∀ (is : List Imp) (S : List Block), coversAllB k S is = true ↔ CoversAll k S is := by
  intro is
  induction is with
  | nil => intro S; simp [coversAllB, CoversAll]
  | cons i is ih => intro S; simp only [coversAllB, CoversAll, Bool.and_eq_true, belowB_iff, ih]

theorem step_settled (n : Node ρ) (i : Imp) (k : Nat) (hS : Sorted n.blocks) (hP : PInv R n.blocks n.roots k)
    (hOk : early n.blocks i.c.untilN = true ∨ Good i.c none n.blocks i.rs) (hB : Below (stepB n.blocks i) k) :
    PInv R (step R n i).blocks (step R n i).roots k := by
  by_cases he : early n.blocks i.c.untilN = true
  · have hst : step R n i = ⟨n.blocks, rangesRun R n.blocks n.roots i.c.untilN⟩ := by simp [step, he]
    rw [hst]
    exact pinv_rangesRun R _ _ k _ hP
  · have he' : early n.blocks i.c.untilN = false := by simpa using he
    have hst : step R n i = ⟨(importF R i.c i.fuel n.blocks n.roots i.rs).1, (importF R i.c i.fuel n.blocks n.roots i.rs).2.1⟩ := by
      simp [step, he']
    have hU : ∀ x ∈ n.blocks, x.number ≤ i.c.untilN := fun x hx => Nat.le_of_lt (not_early_below he' x hx)
    rw [← step_blocks R, hst] at hB
    rw [hst]
    exact import_settled R i.c i.fuel n.blocks n.roots i.rs k hS hU (hOk.resolve_left he) hP hB

/-- the invariant BETWEEN imports when coverage is not assumed: the full roots invariant `J` (as long as
every scan was covered), or at least the first `k` ranges settled (from the first uncovered scan on) -/
def Q (k : Nat) (n : Node ρ) (T? : Option Nat) : Prop := J R n T? ∨ PInv R n.blocks n.roots k

theorem step_Q (n : Node ρ) (T? : Option Nat) (i : Imp) (k : Nat) (hS : Sorted n.blocks) (hQ : Q R k n T?)
    (hOk : early n.blocks i.c.untilN = true ∨ Good i.c none n.blocks i.rs) (hB : Below (stepB n.blocks i) k) :
    Q R k (step R n i) (if early n.blocks i.c.untilN then T? else some i.c.untilN) := by
  rcases hQ with hJ | hP
  · by_cases he : early n.blocks i.c.untilN = true
    · exact Or.inl (step_J R n T? i hS hJ hOk (Or.inl he))
    · by_cases hc : Below (stepB n.blocks i) ((i.c.untilN + 1) / LEN)
      · exact Or.inl (step_J R n T? i hS hJ hOk (Or.inr hc))
      · -- an uncovered scan: the roots are still an exact cache, which settles every covered prefix
        have he' : early n.blocks i.c.untilN = false := by simpa using he
        have hst : step R n i = ⟨(importF R i.c i.fuel n.blocks n.roots i.rs).1, (importF R i.c i.fuel n.blocks n.roots i.rs).2.1⟩ := by
          simp [step, he']
        have hU : ∀ x ∈ n.blocks, x.number ≤ i.c.untilN := fun x hx => Nat.le_of_lt (not_early_below he' x hx)
        obtain ⟨g1, g2, _⟩ := importF_spec R i.c i.fuel n.blocks n.roots i.rs hS hU (hOk.resolve_left he) hJ.1
        rw [← step_blocks R, hst] at hB
        refine Or.inr ?_
        rw [hst]
        simp only at hB ⊢
        rw [g1]
        exact pinv_of_cached R _ _ _ hB (below_le_div hB g2)
  · exact Or.inr (step_settled R n i k hS hP hOk hB)

/-- once an import has scanned, `Q` settles every covered prefix -/
theorem Q_pinv (k : Nat) (n : Node ρ) (T : Nat) (hQ : Q R k n (some T)) (hB : Below n.blocks k) :
    PInv R n.blocks n.roots k := by
  rcases hQ with hJ | hP
  · obtain ⟨h1, h2⟩ := hJ.2 T rfl
    rw [h2]
    exact pinv_of_cached R _ _ _ hB (below_le_div hB h1)
  · exact hP

/-- **multi-import, without any coverage hypothesis.** After ANY list of imports each of which exits
early or scans a good script — some of them possibly uncovered (target above the delivered tip: the
known finding `C13-partial-range-root`) — from a store with the roots invariant (or at least `k` settled
ranges): as long as the store covers `k` ranges after every import, the invariant `Q` holds, i.e. the full
roots invariant or at least the first `k` ranges settled. The damage of a partially imported range never
reaches below the lowest partial range. (For the best `k`, split the list at the first uncovered scan:
`many_roots` before it, this theorem from it on.) -/
theorem many_settled (k : Nat) : ∀ (is : List Imp) (n : Node ρ) (T? : Option Nat), Sorted n.blocks → Q R k n T? →
    Ok n.blocks is → CoversAll k n.blocks is →
    Q R k (runMany R n is) (lastT T? (trace n.blocks is)) := by
  intro is
  induction is with
  | nil => intro n T? _ hQ _ _; exact hQ
  | cons i is ih =>
    intro n T? hS hQ hOk hC
    rw [lastT_trace_cons]
    simp only [runMany]
    have hS' : Sorted (step R n i).blocks := by
      rw [step_blocks]; exact (stepB_spec n.blocks i hS hOk.1).1
    have := ih (step R n i) _ hS' (step_Q R n T? i k hS hQ hOk.1 hC.1)
      (by rw [step_blocks]; exact hOk.2) (by rw [step_blocks]; exact hC.2)
    rw [step_blocks] at this
    exact this

theorem coversAll_final (k : Nat) : ∀ (is : List Imp) (S : List Block), CoversAll k S is → is ≠ [] →
    Below (runManyB S is) k := by
  intro is
  induction is with
  | nil => intro S _ h; exact absurd rfl h
  | cons i is ih =>
    intro S hC _
    simp only [runManyB]
    cases is with
    | nil => exact hC.1
    | cons i' is' => exact ih _ hC.2 (by simp)

theorem lastT_some_ne_nil : ∀ (is : List Imp) (S : List Block) (T : Nat), lastT none (trace S is) = some T → is ≠ [] := by
  intro is S T h hnil
  subst hnil
  simp [trace, lastT] at h

/-- the settled prefix in equational form: after a history in which at least one import scanned, for
every `k` that the store covers after every import, the stored roots of the first `k` ranges are
exactly their cache -/
theorem many_settled_prefix (k : Nat) (is : List Imp) (n : Node ρ) (T : Nat) (hS : Sorted n.blocks)
    (hQ : RInv R n.blocks n.roots ∨ PInv R n.blocks n.roots k) (hOk : Ok n.blocks is) (hC : CoversAll k n.blocks is)
    (hT : lastT none (trace n.blocks is) = some T) :
    PInv R (runMany R n is).blocks (runMany R n is).roots k := by
  have hQ0 : Q R k n none := hQ.imp (fun h => ⟨h, fun T hT => by cases hT⟩) id
  have h := many_settled R k is n none hS hQ0 hOk hC
  rw [hT] at h
  refine Q_pinv R k _ T h ?_
  rw [runMany_blocks]
  exact coversAll_final k is n.blocks hC (lastT_some_ne_nil is n.blocks T hT)

end settled

/-! ## `RInv` after an uncovered import: regained by a roll-back, otherwise lost for good -/

section regain
variable {ρ : Type} (R : List Block → Option ρ)

/-- **regained.** The store is a chain whose roots are an exact cache `cached R S0 K` of it but NOT
necessarily below its highest block (the state an uncovered import leaves, `uncovered_keeps_cache`).
If the first store call of the next scan is a roll-back that finds an anchor — the node switched to a
fork below the partial tip — the partial roots are deleted before any forward lands in their ranges:
the import ends exactly like an import from an `RInv` store. -/
theorem import_regains (c : Cfg) (fuel : Nat) (S0 : List Block) (K : Nat) (rs : List (Option Ev)) (s n : Nat)
    (hS : Sorted S0) (hU : ∀ x ∈ S0, x.number ≤ c.untilN) (hG : Good c none S0 rs)
    (hfirst : (poll c none [] rs).1 = some (.backward s)) (ha : anchor S0 s = some n) :
    (importF R c (fuel + 1) S0 (cached R S0 K) rs).2.1
      = cached R (importF R c (fuel + 1) S0 (cached R S0 K) rs).1 ((c.untilN + 1) / LEN) ∧
    (Below (importF R c (fuel + 1) S0 (cached R S0 K) rs).1 ((c.untilN + 1) / LEN) →
      RInv R (importF R c (fuel + 1) S0 (cached R S0 K) rs).1 (importF R c (fuel + 1) S0 (cached R S0 K) rs).2.1) := by
  have hI : Inv c S0 [] S0 := by
    refine ⟨hS, ?_, Or.inl rfl⟩
    rw [List.append_nil]; symm; rw [List.filter_eq_self]; intro x hx; simpa using hU x hx
  obtain ⟨pre, _, _, h3, h4⟩ := poll_refines c rs none [] S0 S0 hI hG
  simp only [importF, runF]
  cases hp : poll c none [] rs with
  | mk out rest' =>
    cases rest' with
    | mk rest lp' =>
      rw [hp] at h3 h4 hfirst
      simp only at hfirst
      subst hfirst
      simp only
      have hb : applyOut S0 (some (.backward s)) = S0.filter (fun b => b.number ≤ n) := by
        simp [applyOut, rollback, ha]
      have hr : applyOutRoots S0 (cached R S0 K) (some (.backward s)) = rollbackRoots (cached R S0 K) n := by
        simp [applyOutRoots, ha]
      have hR' : RInv R (applyOut S0 (some (.backward s))) (applyOutRoots S0 (cached R S0 K) (some (.backward s))) := by
        rw [hb, hr]; exact winv_backward R S0 K s n ha
      obtain ⟨pre', _, g2, g3⟩ := runF_refines R c fuel lp' _ _ _ rest h3 h4 hR'
      have hle := inv_le g2
      have hc := ranges_after_scan R c.untilN _ _ hle g3
      refine ⟨hc, fun hB => ?_⟩
      rw [hc]
      exact ⟨_, rfl, hB⟩

theorem rinv_function_of_blocks (S : List Block) (roots : List (Nat × ρ)) (h : RInv R S roots) :
    ∀ r ∈ roots, R (blocksOf S r.1) = some r.2 := by
  obtain ⟨K, hK, _⟩ := h
  intro r hr
  rw [hK] at hr
  have := ((mem_cached R).mp hr).2
  unfold rootAt at this
  cases hR : R (blocksOf S r.1) with
  | none => rw [hR] at this; simp at this
  | some x => rw [hR] at this; simp at this; rw [← this]

end regain

/-! ### concrete histories -/

/-- the root function of the examples: the block hashes of the range, `none` for an empty range -/
def Rex : List Block → Option (List Nat) := fun bs => if bs.isEmpty then none else some (bs.map (·.hash))
/-- block `n` of the first chain / of the fork -/
def blk (n : Nat) : Block := ⟨n, n, n * 10⟩
def blk' (n : Nat) : Block := ⟨1000 + n, n, n * 10 + 1⟩
def fwds (f : Nat → Block) (a n : Nat) : List (Option Ev) := (List.range' a n).map (fun k => some (.fwd (f k)))

/-- import 1: target 40, the node delivers only 20 blocks — the range `[15,30)` is cached from 15..20 -/
def i1 : Imp := ⟨⟨0, 40, 100⟩, 5, fwds blk 1 20⟩
/-- import 2: target 50, resumes at block 20 (echo), blocks 21..50: covered -/
def i2 : Imp := ⟨⟨200, 50, 100⟩, 5, some (.back 200) :: fwds blk 21 30⟩
/-- import 3: target 65, resumes at block 50 (echo), blocks 51..65: covered -/
def i3 : Imp := ⟨⟨500, 65, 100⟩, 5, some (.back 500) :: fwds blk 51 15⟩
/-- one import of the same 65 blocks into an empty store -/
def iFresh : Imp := ⟨⟨0, 65, 100⟩, 5, fwds blk 1 65⟩
/-- import 2′: target 50, resumes at block 20 (echo); the node has switched to a fork below block 19:
roll-back to block 18, then 19′..50′ -/
def i2' : Imp := ⟨⟨200, 50, 100⟩, 5, some (.back 200) :: some (.back 180) :: fwds blk' 19 32⟩
def iFresh' : Imp := ⟨⟨0, 50, 100⟩, 5, fwds blk 1 18 ++ fwds blk' 19 32⟩

/-- **lost for good.** Every import is good; import 1 is NOT covered, imports 2 and 3 are. After
import 1 the roots are still the cache of the stored blocks; after the covered imports 2 and 3 the
blocks are those of a fresh import, but the roots are not and some stored root is not the root of the
stored blocks of its range: nothing ever recomputes the partial range (the known finding
`C13-partial-range-root`, here shown to persist through every later covered import). What survives is
what `many_settled` promises: the first range. -/
theorem lost_for_good_facts :
    okB [] [i1, i2, i3] = true ∧
    coveredB [] [i1] = false ∧ coveredB (stepB [] i1) [i2, i3] = true ∧
    (runMany Rex ⟨[], []⟩ [i1]).roots = cached Rex (runMany Rex ⟨[], []⟩ [i1]).blocks 2 ∧
    (runMany Rex ⟨[], []⟩ [i1, i2, i3]).blocks = (runMany Rex ⟨[], []⟩ [iFresh]).blocks ∧
    (runMany Rex ⟨[], []⟩ [i1, i2, i3]).roots ≠ (runMany Rex ⟨[], []⟩ [iFresh]).roots ∧
    (∃ r ∈ (runMany Rex ⟨[], []⟩ [i1, i2]).roots, Rex (blocksOf (runMany Rex ⟨[], []⟩ [i1, i2]).blocks r.1) ≠ some r.2) ∧
    (∃ r ∈ (runMany Rex ⟨[], []⟩ [i1, i2, i3]).roots, Rex (blocksOf (runMany Rex ⟨[], []⟩ [i1, i2, i3]).blocks r.1) ≠ some r.2) ∧
    coversAllB 1 [] [i1, i2, i3] = true ∧
    (runMany Rex ⟨[], []⟩ [i1, i2, i3]).roots.filter (fun r => r.1 < 1) = (runMany Rex ⟨[], []⟩ [iFresh]).roots.filter (fun r => r.1 < 1) := by
  decide +kernel

/-- `RInv` is not re-established by later covered imports -/
theorem lost_for_good :
    Ok [] [i1, i2, i3] ∧ ¬ Covered [] [i1] ∧ Covered (stepB [] i1) [i2, i3] ∧
    ¬ RInv Rex (runMany Rex ⟨[], []⟩ [i1, i2]).blocks (runMany Rex ⟨[], []⟩ [i1, i2]).roots ∧
    ¬ RInv Rex (runMany Rex ⟨[], []⟩ [i1, i2, i3]).blocks (runMany Rex ⟨[], []⟩ [i1, i2, i3]).roots ∧
    (runMany Rex ⟨[], []⟩ [i1, i2, i3]).blocks = (runMany Rex ⟨[], []⟩ [iFresh]).blocks ∧
    (runMany Rex ⟨[], []⟩ [i1, i2, i3]).roots ≠ (runMany Rex ⟨[], []⟩ [iFresh]).roots := by
  obtain ⟨h1, h2, h3, _, h5, h6, h7, h8, _, _⟩ := lost_for_good_facts
  refine ⟨(okB_iff _ _).mp h1, ?_, (coveredB_iff _ _).mp h3, ?_, ?_, h5, h6⟩
  · intro h; rw [← coveredB_iff, h2] at h; cases h
  · intro h
    obtain ⟨r, hr, hne⟩ := h7
    exact hne (rinv_function_of_blocks Rex _ _ h r hr)
  · intro h
    obtain ⟨r, hr, hne⟩ := h8
    exact hne (rinv_function_of_blocks Rex _ _ h r hr)

/-- the first store call of import 2′ is the roll-back to block 18 (the echo of the resume point is skipped) -/
theorem regained_first_call : (poll i2'.c none [] i2'.rs).1 = some (.backward 180) := rfl

/-- **regained by a roll-back** (non-vacuity of `import_regains`): after the uncovered import 1, import
2′ starts with a roll-back below the partial tip; the hypotheses of `import_regains` hold and the roots
end as those of a fresh import of the new chain -/
theorem regained_example :
    okB [] [i1, i2'] = true ∧ anchor (stepB [] i1) 180 = some 18 ∧
    (runMany Rex ⟨[], []⟩ [i1]).roots = cached Rex (stepB [] i1) 2 ∧
    belowB (runMany Rex ⟨[], []⟩ [i1, i2']).blocks 3 = true ∧
    (runMany Rex ⟨[], []⟩ [i1, i2']).blocks = (runMany Rex ⟨[], []⟩ [iFresh']).blocks ∧
    (runMany Rex ⟨[], []⟩ [i1, i2']).roots = (runMany Rex ⟨[], []⟩ [iFresh']).roots := by
  decide +kernel

/-- the targets of the imports that scan need NOT be monotone: a roll-back (or a short delivery) leaves
the store below an earlier target, and an import with a lower target then scans again. The theorems
above do not need monotone targets: `hU` of each import follows from "no early exit". -/
theorem targets_not_monotone :
    let a : Imp := ⟨⟨0, 10, 100⟩, 5, fwds blk 1 10⟩
    let b : Imp := ⟨⟨100, 12, 100⟩, 5, [some (.back 100), some (.back 30), some (.fwd (blk' 4)), none]⟩
    let c : Imp := ⟨⟨41, 6, 100⟩, 5, [some (.back 41), some (.fwd (blk' 5)), some (.fwd (blk' 6)), some (.fwd (blk' 7))]⟩
    okB [] [a, b, c] = true ∧ (trace [] [a, b, c]).map (·.1) = [10, 12, 6] ∧
    runManyB [] [a, b, c] = [blk 1, blk 2, blk 3, blk' 4, blk' 5, blk' 6] := by
  decide +kernel

/-! ## the headline statements -/

section headline
variable {ρ : Type} (R : List Block → Option ρ)

/-- **C13, multi-import refinement.** From any chain `S0` whose roots satisfy `RInv` (the empty store
with no root is one: `many_refines_fresh`), after ANY list of imports — each with its own target,
resume point, batch size, fuel and reply script — each of which either exits early or scans a script
that is `Good` relative to the store it starts from:
1. the stored blocks are the naive application of the consumed reply prefixes, cut at the respective
   targets (`naive S0 (trace S0 is)`), and each consumed prefix is a prefix of its script;
2. the store is a chain (`Sorted`) — with `not_early_below` this is all the next import needs for its
   block statement: no hypothesis on the roots, no monotone targets;
3. `RInv` holds after import `j` as soon as every scanning import up to `j` ended covered (`Covered`,
   decidable) — with all of them covered: after EVERY import (take `j` arbitrary; `covered_take`) — and
   after an import that scanned with target `T` (and any early exits after it) the roots are
   `cached R blocks ((T+1)/15)`;
4. without any coverage hypothesis (some scans may be uncovered — the known finding
   `C13-partial-range-root`), once an import has scanned, every prefix of `k` ranges that the store covers
   after every import is settled at the end: `roots.filter (·.1 < k) = cached R blocks k`. -/
theorem many_refines (S0 : List Block) (roots0 : List (Nat × ρ)) (is : List Imp)
    (hS : Sorted S0) (hOk : Ok S0 is) :
    (runMany R ⟨S0, roots0⟩ is).blocks = naive S0 (trace S0 is) ∧
    Sorted (runMany R ⟨S0, roots0⟩ is).blocks ∧
    (RInv R S0 roots0 → ∀ j, Covered S0 (is.take j) →
      RInv R (runMany R ⟨S0, roots0⟩ (is.take j)).blocks (runMany R ⟨S0, roots0⟩ (is.take j)).roots ∧
      (∀ T, lastT none (trace S0 (is.take j)) = some T →
        (runMany R ⟨S0, roots0⟩ (is.take j)).roots = cached R (runMany R ⟨S0, roots0⟩ (is.take j)).blocks ((T + 1) / LEN))) ∧
    (∀ k T, (RInv R S0 roots0 ∨ PInv R S0 roots0 k) → CoversAll k S0 is → lastT none (trace S0 is) = some T →
      PInv R (runMany R ⟨S0, roots0⟩ is).blocks (runMany R ⟨S0, roots0⟩ is).roots k) := by
  obtain ⟨h1, h2⟩ := many_refines_blocks is S0 hS hOk
  refine ⟨by rw [runMany_blocks]; exact h1, by rw [runMany_blocks]; exact h2, ?_, ?_⟩
  · intro hR j hC
    have := many_roots_upto R is ⟨S0, roots0⟩ j hS hR hOk hC
    exact ⟨this.1, fun T hT => (this.2 T hT).2⟩
  · intro k T hP hC hT
    exact many_settled_prefix R k is ⟨S0, roots0⟩ T hS hP hOk hC hT

/-- the empty store satisfies every start hypothesis -/
theorem many_refines_fresh (is : List Imp) (hOk : Ok [] is) :
    (runMany R ⟨[], []⟩ is).blocks = naive [] (trace [] is) ∧
    Sorted (runMany R ⟨[], []⟩ is).blocks ∧
    (Covered [] is →
      (∀ j, RInv R (runMany R ⟨[], []⟩ (is.take j)).blocks (runMany R ⟨[], []⟩ (is.take j)).roots) ∧
      (∀ T, lastT none (trace [] is) = some T →
        (runMany R ⟨[], []⟩ is).roots = cached R (runMany R ⟨[], []⟩ is).blocks ((T + 1) / LEN))) := by
  have hS : Sorted ([] : List Block) := List.Pairwise.nil
  have hR : RInv R [] ([] : List (Nat × ρ)) := ⟨0, by simp [cached], Or.inl rfl⟩
  obtain ⟨h1, h2, h3, _⟩ := many_refines R [] [] is hS hOk
  refine ⟨h1, h2, fun hC => ⟨fun j => (h3 hR j (covered_take is [] j hC)).1, fun T hT => ?_⟩⟩
  have := (h3 hR is.length (by rw [List.take_length]; exact hC)).2
  rw [List.take_length] at this
  exact this T hT

/-- the consumed replies of every scanning import are a prefix of its script -/
theorem consumed_prefix (S : List Block) (i : Imp) (hS : Sorted S) (he : early S i.c.untilN = false)
    (hG : Good i.c none S i.rs) : i.rs = consumed S i ++ (run i.c i.fuel none S i.rs).2.1 :=
  ((stepB_spec S i hS (Or.inr hG)).2.2 he).1

/-- **C13, multi-import convergence.** Two nodes — different start stores, different NUMBERS of imports,
different intermediate targets, batch sizes, resume points, fuels and scripts — whose traces fold to the
same chain end with the same blocks. If moreover both start with `RInv`, all their scanning imports are
covered and the last scanned target is the same, they end with the same roots. Without any coverage
hypothesis they still agree on the roots of every prefix of `k` ranges that both stores cover after
every import (once each has scanned). -/
theorem many_convergence (is is' : List Imp) (n n' : Node ρ)
    (hS : Sorted n.blocks) (hS' : Sorted n'.blocks) (hOk : Ok n.blocks is) (hOk' : Ok n'.blocks is')
    (hsame : naive n.blocks (trace n.blocks is) = naive n'.blocks (trace n'.blocks is')) :
    (runMany R n is).blocks = (runMany R n' is').blocks ∧
    (∀ T, RInv R n.blocks n.roots → RInv R n'.blocks n'.roots → Covered n.blocks is → Covered n'.blocks is' →
      lastT none (trace n.blocks is) = some T → lastT none (trace n'.blocks is') = some T →
      (runMany R n is).roots = (runMany R n' is').roots) ∧
    (∀ k T T', (RInv R n.blocks n.roots ∨ PInv R n.blocks n.roots k) → (RInv R n'.blocks n'.roots ∨ PInv R n'.blocks n'.roots k) →
      CoversAll k n.blocks is → CoversAll k n'.blocks is' →
      lastT none (trace n.blocks is) = some T → lastT none (trace n'.blocks is') = some T' →
      (runMany R n is).roots.filter (fun r => r.1 < k) = (runMany R n' is').roots.filter (fun r => r.1 < k)) := by
  obtain ⟨h1, _, h3, h4⟩ := many_refines R n.blocks n.roots is hS hOk
  obtain ⟨h1', _, h3', h4'⟩ := many_refines R n'.blocks n'.roots is' hS' hOk'
  have hb : (runMany R n is).blocks = (runMany R n' is').blocks := by
    have e : (⟨n.blocks, n.roots⟩ : Node ρ) = n := rfl
    have e' : (⟨n'.blocks, n'.roots⟩ : Node ρ) = n' := rfl
    rw [e] at h1; rw [e'] at h1'
    rw [h1, h1', hsame]
  refine ⟨hb, ?_, ?_⟩
  · intro T hR hR' hC hC' hT hT'
    have e1 := (h3 hR is.length (by rw [List.take_length]; exact hC)).2
    have e2 := (h3' hR' is'.length (by rw [List.take_length]; exact hC')).2
    rw [List.take_length] at e1 e2
    rw [e1 T hT, e2 T hT', hb]
  · intro k T T' hP hP' hC hC' hT hT'
    have := (h4 k T hP hC hT).2
    have := (h4' k T' hP' hC' hT').2
    simp_all

/-- **the fresh single import is one instance**: a node with any history of good imports ends like a
node that imports once, from the empty store, a script whose consumed prefix folds to the same chain -/
theorem many_vs_fresh (is : List Imp) (n : Node ρ) (f : Imp)
    (hS : Sorted n.blocks) (hOk : Ok n.blocks is) (hG : Good f.c none [] f.rs)
    (hsame : naive n.blocks (trace n.blocks is) = (applyAll [] (consumed [] f)).filter (fun x => x.number ≤ f.c.untilN)) :
    (runMany R n is).blocks = (importF R f.c f.fuel [] [] f.rs).1 ∧
    (RInv R n.blocks n.roots → Covered n.blocks is → lastT none (trace n.blocks is) = some f.c.untilN →
      Below (importF R f.c f.fuel [] [] f.rs).1 ((f.c.untilN + 1) / LEN) →
      (runMany R n is).roots = (importF R f.c f.fuel [] [] f.rs).2.1) := by
  have he : early [] f.c.untilN = false := rfl
  have hOk' : Ok ([] : List Block) [f] := ⟨Or.inr hG, trivial⟩
  have hsame' : naive n.blocks (trace n.blocks is) = naive [] (trace [] [f]) := by
    simp only [trace, he]; exact hsame
  have hS0 : Sorted ([] : List Block) := List.Pairwise.nil
  obtain ⟨h1, h2, _⟩ := many_convergence R is [f] n ⟨[], []⟩ hS hS0 hOk hOk' hsame'
  have hrun : runMany R ⟨[], []⟩ [f] = ⟨(importF R f.c f.fuel [] [] f.rs).1, (importF R f.c f.fuel [] [] f.rs).2.1⟩ := by
    simp [runMany, step, he]
  rw [hrun] at h1 h2
  refine ⟨h1, fun hR hC hT hB => ?_⟩
  have hR0 : RInv R [] ([] : List (Nat × ρ)) := ⟨0, by simp [cached], Or.inl rfl⟩
  refine h2 f.c.untilN hR hR0 hC ⟨Or.inr ?_, trivial⟩ hT (by simp [trace, he, lastT])
  have : stepB [] f = (importF R f.c f.fuel [] [] f.rs).1 := by
    rw [← step_blocks R ⟨[], []⟩ f]; simp [step, he]
  rw [this]; exact hB

end headline

/-! ## the transaction table over a list of imports -/

section tx
variable (txsOf : Nat → List Nat)

/-- one import on blocks and `cardano_tx` rows: the early exit touches neither -/
def stepT (p : List Block × List TxRow) (i : Imp) : List Block × List TxRow :=
  if early p.1 i.c.untilN then p
  else ((runT txsOf i.c i.fuel none p.1 p.2 i.rs).1, (runT txsOf i.c i.fuel none p.1 p.2 i.rs).2.1)

def runManyT : List Block × List TxRow → List Imp → List Block × List TxRow
  | p, [] => p
  | p, i :: is => runManyT (stepT txsOf p i) is

/-- every import exits early or scans a script that is `Good` and `GoodTx` relative to its start store -/
def OkT : List Block → List Imp → Prop
  | _, [] => True
  | S, i :: is => (early S i.c.untilN = true ∨ (Good i.c none S i.rs ∧ GoodTx txsOf S i.rs)) ∧ OkT (stepB S i) is

def okTB : List Block → List Imp → Bool
  | _, [] => true
  | S, i :: is => (early S i.c.untilN || (goodB i.c none S i.rs && goodTxB txsOf S i.rs)) && okTB (stepB S i) is

theorem okTB_iff : ∀ (is : List Imp) (S : List Block), okTB txsOf S is = true ↔ OkT txsOf S is := by
  intro is
  induction is with
  | nil => intro S; simp [okTB, OkT]
  | cons i is ih =>
    intro S
    simp only [okTB, OkT, Bool.and_eq_true, Bool.or_eq_true, goodB_iff, goodTxB_iff, ih]

theorem okT_ok : ∀ (is : List Imp) (S : List Block), OkT txsOf S is → Ok S is := by
  intro is
  induction is with
  | nil => intro S _; trivial
  | cons i is ih =>
    intro S h
    exact ⟨h.1.imp id (fun g => g.1), ih _ h.2⟩

theorem stepT_spec (p : List Block × List TxRow) (i : Imp) (hS : Sorted p.1) (hT : TInv txsOf p.1 p.2)
    (h : early p.1 i.c.untilN = true ∨ (Good i.c none p.1 i.rs ∧ GoodTx txsOf p.1 i.rs)) :
    (stepT txsOf p i).1 = stepB p.1 i ∧ TInv txsOf (stepT txsOf p i).1 (stepT txsOf p i).2 := by
  by_cases he : early p.1 i.c.untilN = true
  · have e : stepT txsOf p i = p := by simp [stepT, he]
    have e2 : stepB p.1 i = p.1 := by simp [stepB, he]
    rw [e, e2]; exact ⟨rfl, hT⟩
  · have he' : early p.1 i.c.untilN = false := by simpa using he
    obtain ⟨hG, hGT⟩ := h.resolve_left he
    have hU : ∀ x ∈ p.1, x.number ≤ i.c.untilN := fun x hx => Nat.le_of_lt (not_early_below he' x hx)
    have hI : Inv i.c p.1 [] p.1 := by
      refine ⟨hS, ?_, Or.inl rfl⟩
      rw [List.append_nil]; symm; rw [List.filter_eq_self]; intro x hx; simpa using hU x hx
    obtain ⟨h1, _, h3⟩ := runT_refines txsOf i.c i.fuel none p.1 p.1 p.2 i.rs hI hG hGT hT
    simp only [stepT, stepB, he', Bool.false_eq_true, if_false]
    exact ⟨h1, h3⟩

/-- **C13, multi-import, transactions.** From a chain whose table holds exactly the rows of its blocks
(the empty store is one), after ANY list of imports each of which exits early or scans a script that is
`Good` and in which no chain the node presents carries a transaction twice (`GoodTx`, relative to the
store the import starts from): the blocks are those of `many_refines` and the table holds exactly the
rows of the stored blocks, in block order — the invariant the next import needs is re-established by
every import, and two nodes that end with the same blocks end with the same table. -/
theorem many_transactions : ∀ (is : List Imp) (p : List Block × List TxRow), Sorted p.1 → TInv txsOf p.1 p.2 →
    OkT txsOf p.1 is →
    (runManyT txsOf p is).1 = runManyB p.1 is ∧
    (runManyT txsOf p is).1 = naive p.1 (trace p.1 is) ∧
    (runManyT txsOf p is).2 = rowsOf txsOf (runManyT txsOf p is).1 := by
  intro is
  induction is with
  | nil => intro p _ hT _; exact ⟨rfl, rfl, hT⟩
  | cons i is ih =>
    intro p hS hT hOk
    obtain ⟨h1, h2⟩ := stepT_spec txsOf p i hS hT hOk.1
    have hS' : Sorted (stepT txsOf p i).1 := by
      rw [h1]; exact (stepB_spec p.1 i hS (hOk.1.imp id (fun g => g.1))).1
    obtain ⟨g1, _, g3⟩ := ih (stepT txsOf p i) hS' h2 (by rw [h1]; exact hOk.2)
    have hb : (runManyT txsOf p (i :: is)).1 = runManyB p.1 (i :: is) := by
      simp only [runManyT, runManyB]; rw [g1, h1]
    refine ⟨hb, ?_, g3⟩
    rw [hb]
    exact (many_refines_blocks (i :: is) p.1 hS (okT_ok txsOf _ _ hOk)).1

/-- two nodes whose traces fold to the same chain end with the same `cardano_tx` table -/
theorem many_transactions_convergence (is is' : List Imp) (p p' : List Block × List TxRow)
    (hS : Sorted p.1) (hS' : Sorted p'.1) (hT : TInv txsOf p.1 p.2) (hT' : TInv txsOf p'.1 p'.2)
    (hOk : OkT txsOf p.1 is) (hOk' : OkT txsOf p'.1 is')
    (hsame : naive p.1 (trace p.1 is) = naive p'.1 (trace p'.1 is')) :
    runManyT txsOf p is = runManyT txsOf p' is' := by
  obtain ⟨_, h2, h3⟩ := many_transactions txsOf is p hS hT hOk
  obtain ⟨_, h2', h3'⟩ := many_transactions txsOf is' p' hS' hT' hOk'
  have hb : (runManyT txsOf p is).1 = (runManyT txsOf p' is').1 := by rw [h2, h2', hsame]
  exact Prod.ext hb (by rw [h3, h3', hb])

end tx

/-! ## what the driver executes: `Importer.importStep` over a history of imports and restarts -/

section driver
variable {ρ : Type}

/-- the resume point of `BlocksTransactionsImporter::start_point`: the in-memory last polled point,
else the highest stored point -/
def resumeSlot (st : Importer.St ρ) : Option Nat :=
  match st.lastPolled with
  | some s => some s
  | none => (highest st.blocks).map (·.slot)

def impOf (maxPer : Nat) (st : Importer.St ρ) (target : Nat) (rs : List (Option Ev)) : Imp :=
  ⟨⟨(resumeSlot st).getD 0, target, maxPer⟩, rs.length + 1, rs⟩

def scanX (txsOf : Nat → List Nat) (maxPer : Nat) (st : Importer.St ρ) (target : Nat) (rs : List (Option Ev)) : X ρ :=
  runX txsOf (impOf maxPer st target rs).c (impOf maxPer st target rs).fuel none st.blocks st.txs st.roots st.legacy rs []

theorem importStep_cases (txsOf : Nat → List Nat) (R RL : List TxRow → List Block → Option ρ) (maxPer : Nat) (st : Importer.St ρ)
    (target : Nat) (rs : List (Option Ev)) :
    (early st.blocks target = true →
      (importStep txsOf R RL maxPer st target rs).panicked = false ∧
      (importStep txsOf R RL maxPer st target rs).st =
        { st with roots := rangesRun (R st.txs) st.blocks st.roots target,
                  legacy := rangesRun (RL st.txs) st.blocks st.legacy target }) ∧
    (early st.blocks target = false →
      (importStep txsOf R RL maxPer st target rs).panicked = (scanX txsOf maxPer st target rs).panicked ∧
      ((scanX txsOf maxPer st target rs).panicked = false →
        (importStep txsOf R RL maxPer st target rs).st.blocks = (scanX txsOf maxPer st target rs).S ∧
        (importStep txsOf R RL maxPer st target rs).st.txs = (scanX txsOf maxPer st target rs).T ∧
        (importStep txsOf R RL maxPer st target rs).st.roots =
          rangesRun (R (scanX txsOf maxPer st target rs).T) (scanX txsOf maxPer st target rs).S (scanX txsOf maxPer st target rs).roots target ∧
        (importStep txsOf R RL maxPer st target rs).st.legacy =
          rangesRun (RL (scanX txsOf maxPer st target rs).T) (scanX txsOf maxPer st target rs).S (scanX txsOf maxPer st target rs).legacy target)) := by
  simp only [importStep]
  constructor
  · intro he
    change StepOut.panicked (if early st.blocks target = true then _ else _) = false ∧
      StepOut.st (if early st.blocks target = true then _ else _) = _
    rw [if_pos he]
    exact ⟨rfl, rfl⟩
  · intro he
    have he' : ¬ early st.blocks target = true := by simp [he]
    generalize hx : scanX txsOf maxPer st target rs = x
    change StepOut.panicked (if early st.blocks target = true then _ else _) = _ ∧ (_ →
      (StepOut.st (if early st.blocks target = true then _ else _)).blocks = _ ∧
      (StepOut.st (if early st.blocks target = true then _ else _)).txs = _ ∧
      (StepOut.st (if early st.blocks target = true then _ else _)).roots = _ ∧
      (StepOut.st (if early st.blocks target = true then _ else _)).legacy = _)
    rw [if_neg he']
    change StepOut.panicked (if (scanX txsOf maxPer st target rs).panicked = true then _ else _) = _ ∧ (_ →
      (StepOut.st (if (scanX txsOf maxPer st target rs).panicked = true then _ else _)).blocks = _ ∧
      (StepOut.st (if (scanX txsOf maxPer st target rs).panicked = true then _ else _)).txs = _ ∧
      (StepOut.st (if (scanX txsOf maxPer st target rs).panicked = true then _ else _)).roots = _ ∧
      (StepOut.st (if (scanX txsOf maxPer st target rs).panicked = true then _ else _)).legacy = _)
    by_cases hpan : (scanX txsOf maxPer st target rs).panicked = true
    · rw [if_pos hpan]
      rw [hx] at hpan
      exact ⟨hpan.symm, fun h => by rw [hpan] at h; cases h⟩
    · rw [if_neg hpan]
      rw [hx] at hpan
      have : x.panicked = false := by simpa using hpan
      refine ⟨this.symm, fun _ => ?_⟩
      subst hx
      exact ⟨rfl, rfl, rfl, rfl⟩

/-- a batch the streamer hands over never violates the foreign key of `cardano_tx`: under the block and
table invariants every row that is inserted names a block of the batch -/
theorem panics_false (txsOf : Nat → List Nat) (c : Cfg) (S V' : List Block) (T : List TxRow) (out : Option Out)
    (hfw : ∀ bs, out = some (.forwards bs) → Sorted (S ++ bs))
    (hI' : Inv c (applyOut S out) [] V') (hF : TxFresh txsOf V') (hT : TInv txsOf S T) :
    panics txsOf S T out = false := by
  cases out with
  | none => rfl
  | some o =>
    cases o with
    | backward s => rfl
    | forwards bs =>
      have hs := hfw bs rfl
      have he : insertAll S bs = S ++ bs := insertAll_sorted S bs hs
      have hfresh : TxFresh txsOf (S ++ bs) := by
        have h2 : applyOut S (some (.forwards bs)) = S ++ bs := he
        rw [h2] at hI'
        have : S ++ bs = V'.filter (fun x => x.number ≤ c.untilN) := by simpa using hI'.2.1
        rw [this]
        exact txFresh_sublist txsOf List.filter_sublist hF
      have h2 := tinv_forwards txsOf S bs T hfresh hT
      unfold TInv at hT h2
      simp only [panics]
      rw [h2, rowsOf_append, ← hT, List.drop_left, he, List.any_eq_false]
      intro r hr
      obtain ⟨b, hb, hrb, _⟩ := (mem_rowsOf txsOf).mp hr
      have hany : (S ++ bs).any (fun x => decide (x.hash = r.2)) = true := by
        rw [List.any_eq_true]; exact ⟨b, by simp [hb], by simpa using hrb.symm⟩
      simp [hany]

/-- **no panic on good histories**: the foreign-key panic of the batch insert (known finding
`C13-rollback-below-store-panic`) cannot happen while the script is `Good` and `GoodTx` -/
theorem runX_no_panic (txsOf : Nat → List Nat) (c : Cfg) : ∀ (fuel : Nat) (lp : Option Nat) (S V : List Block) (T : List TxRow)
    (roots legacy : List (Nat × ρ)) (rs : List (Option Ev)) (ops : List String),
    Inv c S [] V → Good c lp V rs → GoodTx txsOf V rs → TInv txsOf S T →
    (runX txsOf c fuel lp S T roots legacy rs ops).panicked = false := by
  intro fuel
  induction fuel with
  | zero => intro lp S V T roots legacy rs ops _ _ _ _; rfl
  | succ fuel ih =>
    intro lp S V T roots legacy rs ops hI hG hGT hT
    obtain ⟨pre, h1, _, h3, h4⟩ := poll_refines c rs lp [] S V hI hG
    have hfw := poll_forwards_sorted c rs lp [] S V hI hG
    simp only [runX]
    cases hp : poll c lp [] rs with
    | mk out rest' =>
      cases rest' with
      | mk rest lp' =>
        rw [hp] at h1 h3 h4 hfw
        cases out with
        | none => rfl
        | some o =>
          simp only
          simp only at h1
          have hGT' : GoodTx txsOf (applyAll V pre) rest := by
            rw [h1] at hGT; exact goodTx_split txsOf pre rest V hGT
          have hSs : Sorted S := by have := inv_sorted_store hI; simpa using this
          have hF := goodTx_fresh txsOf rest _ hGT'
          have hnp := panics_false txsOf c S (applyAll V pre) T (some o) hfw h3 hF hT
          rw [hnp]
          simp only [Bool.false_eq_true, if_false]
          have hT' := tinv_applyOut txsOf c S (applyAll V pre) T (some o) hSs hfw h3 hF hT
          exact ih lp' _ _ _ _ _ rest _ h3 h4 hGT' hT'

/-- **`Importer.importStep` is `step`.** With root functions that read the join (`R0 (txsIn T)`, as the
driver's `rootNew` / `rootLegacy`, both `LocalRoot`), from a chain whose table holds the rows of its
blocks, an import that exits early or reads a `Good`, `GoodTx` script: does not panic; its blocks, its
two root tables and its transaction table are those of `step` (with the root functions of the blocks'
own transactions) and `stepT`, for the configuration `impOf` (resume point = last polled point or
highest stored point, fuel = script length + 1); the store is again a chain with its table. -/
theorem importStep_is_step (txsOf : Nat → List Nat) (R0 RL0 : (Nat → List Nat) → List Block → Option ρ)
    (hR : LocalRoot R0) (hRL : LocalRoot RL0) (maxPer : Nat) (st : Importer.St ρ) (target : Nat) (rs : List (Option Ev))
    (hS : Sorted st.blocks) (hT : TInv txsOf st.blocks st.txs)
    (hOk : early st.blocks target = true ∨
      (Good (impOf maxPer st target rs).c none st.blocks rs ∧ GoodTx txsOf st.blocks rs)) :
    (importStep txsOf (fun T => R0 (txsIn T)) (fun T => RL0 (txsIn T)) maxPer st target rs).panicked = false ∧
    (importStep txsOf (fun T => R0 (txsIn T)) (fun T => RL0 (txsIn T)) maxPer st target rs).st.blocks
      = stepB st.blocks (impOf maxPer st target rs) ∧
    (importStep txsOf (fun T => R0 (txsIn T)) (fun T => RL0 (txsIn T)) maxPer st target rs).st.roots
      = (step (R0 txsOf) ⟨st.blocks, st.roots⟩ (impOf maxPer st target rs)).roots ∧
    (importStep txsOf (fun T => R0 (txsIn T)) (fun T => RL0 (txsIn T)) maxPer st target rs).st.legacy
      = (step (RL0 txsOf) ⟨st.blocks, st.legacy⟩ (impOf maxPer st target rs)).roots ∧
    (importStep txsOf (fun T => R0 (txsIn T)) (fun T => RL0 (txsIn T)) maxPer st target rs).st.txs
      = (stepT txsOf (st.blocks, st.txs) (impOf maxPer st target rs)).2 ∧
    Sorted (importStep txsOf (fun T => R0 (txsIn T)) (fun T => RL0 (txsIn T)) maxPer st target rs).st.blocks ∧
    TInv txsOf (importStep txsOf (fun T => R0 (txsIn T)) (fun T => RL0 (txsIn T)) maxPer st target rs).st.blocks
      (importStep txsOf (fun T => R0 (txsIn T)) (fun T => RL0 (txsIn T)) maxPer st target rs).st.txs := by
  obtain ⟨hE, hN⟩ := importStep_cases txsOf (fun T => R0 (txsIn T)) (fun T => RL0 (txsIn T)) maxPer st target rs
  have hut : (impOf maxPer st target rs).c.untilN = target := rfl
  have hrs : (impOf maxPer st target rs).rs = rs := rfl
  by_cases he : early st.blocks target = true
  · obtain ⟨h1, h2⟩ := hE he
    have hT' : st.txs = rowsOf txsOf st.blocks := hT
    rw [h2]
    refine ⟨h1, ?_, ?_, ?_, ?_, hS, hT⟩
    · simp [stepB, hut, he]
    · simp only [step, hut, he, if_true]
      rw [hT']; exact rangesRun_join txsOf R0 hR st.blocks hS st.roots target
    · simp only [step, hut, he, if_true]
      rw [hT']; exact rangesRun_join txsOf RL0 hRL st.blocks hS st.legacy target
    · simp [stepT, hut, he]
  · have he' : early st.blocks target = false := by simpa using he
    obtain ⟨hG, hGT⟩ := hOk.resolve_left he
    obtain ⟨h1, h2⟩ := hN he'
    have hU : ∀ x ∈ st.blocks, x.number ≤ (impOf maxPer st target rs).c.untilN :=
      fun x hx => Nat.le_of_lt (not_early_below he' x hx)
    have hI : Inv (impOf maxPer st target rs).c st.blocks [] st.blocks := by
      refine ⟨hS, ?_, Or.inl rfl⟩
      rw [List.append_nil]; symm; rw [List.filter_eq_self]; intro x hx; simpa using hU x hx
    have hnp : (scanX txsOf maxPer st target rs).panicked = false :=
      runX_no_panic txsOf _ _ none st.blocks st.blocks st.txs st.roots st.legacy rs [] hI hG hGT hT
    obtain ⟨g1, g2, g3, g4⟩ := h2 hnp
    obtain ⟨x1, x2, x3, _, _, x6⟩ := runX_eq_runF txsOf (impOf maxPer st target rs).c (impOf maxPer st target rs).fuel none
      st.blocks st.txs st.roots st.legacy rs [] hnp
    change (scanX txsOf maxPer st target rs).S = _ at x1
    change (scanX txsOf maxPer st target rs).roots = _ at x2
    change (scanX txsOf maxPer st target rs).legacy = _ at x3
    change (scanX txsOf maxPer st target rs).T = _ at x6
    obtain ⟨t1, _, t3⟩ := runT_refines txsOf (impOf maxPer st target rs).c (impOf maxPer st target rs).fuel none
      st.blocks st.blocks st.txs rs hI hG hGT hT
    have hrun := runF_run (impOf maxPer st target rs).c (impOf maxPer st target rs).fuel none st.blocks st.roots rs
    have hrunL := runF_run (impOf maxPer st target rs).c (impOf maxPer st target rs).fuel none st.blocks st.legacy rs
    have hstepB : stepB st.blocks (impOf maxPer st target rs)
        = (run (impOf maxPer st target rs).c (impOf maxPer st target rs).fuel none st.blocks rs).1 := by
      simp [stepB, hut, hrs, he']
    have hSb : (scanX txsOf maxPer st target rs).S = stepB st.blocks (impOf maxPer st target rs) := by
      rw [x1, hrun.1, hstepB]
    have hsorted : Sorted (scanX txsOf maxPer st target rs).S := by
      rw [hSb]; exact (stepB_spec st.blocks _ hS (Or.inr hG)).1
    have hTx : (scanX txsOf maxPer st target rs).T = rowsOf txsOf (scanX txsOf maxPer st target rs).S := by
      rw [x6, x1, hrun.1, ← t1]; exact t3
    refine ⟨by rw [h1, hnp], by rw [g1, hSb], ?_, ?_, ?_, by rw [g1]; exact hsorted, by rw [g1, g2]; exact hTx⟩
    · rw [g3, hTx, rangesRun_join txsOf R0 hR _ hsorted]
      simp only [step, hut, hrs, he', Bool.false_eq_true, if_false, importF]
      rw [x1, x2]
    · rw [g4, hTx, rangesRun_join txsOf RL0 hRL _ hsorted]
      simp only [step, hut, hrs, he', Bool.false_eq_true, if_false, importF]
      rw [x1, hrun.1, ← hrunL.1, x3]
    · rw [g2, x6]
      simp [stepT, hut, hrs, he']

/-- a step of the driver's history (pruning is outside the theorems: known finding
`C13-rollback-into-pruned-range`) -/
inductive Op where
  | imp (target : Nat) (rs : List (Option Ev))
  | restart

/-- the driver's fold over a history (`Handlers.C13.runReq` without pruning), with "some import panicked" -/
def drive (txsOf : Nat → List Nat) (R RL : List TxRow → List Block → Option ρ) (maxPer : Nat) :
    Importer.St ρ → List Op → Importer.St ρ × Bool
  | st, [] => (st, false)
  | st, .restart :: r => drive txsOf R RL maxPer { st with lastPolled := none } r
  | st, .imp t rs :: r =>
    let o := importStep txsOf R RL maxPer st t rs
    let d := drive txsOf R RL maxPer o.st r
    (d.1, o.panicked || d.2)

/-- the import requests of a history, with the resume points the driver computes -/
def impsOf (txsOf : Nat → List Nat) (R RL : List TxRow → List Block → Option ρ) (maxPer : Nat) :
    Importer.St ρ → List Op → List Imp
  | _, [] => []
  | st, .restart :: r => impsOf txsOf R RL maxPer { st with lastPolled := none } r
  | st, .imp t rs :: r => impOf maxPer st t rs :: impsOf txsOf R RL maxPer (importStep txsOf R RL maxPer st t rs).st r

/-- **the driver's whole history is a `runMany`.** For every history of imports and restarts whose
imports each exit early or read a `Good`, `GoodTx` script (what the driver decides import by import),
from a chain with its table: no import panics and the blocks, both root tables and the transaction
table the driver ends with are those of `runMany` / `runManyT` on the list of import requests
`impsOf` — so `many_refines`, `many_convergence` and `many_transactions` apply to it. -/
theorem drive_is_runMany (txsOf : Nat → List Nat) (R0 RL0 : (Nat → List Nat) → List Block → Option ρ)
    (hR : LocalRoot R0) (hRL : LocalRoot RL0) (maxPer : Nat) : ∀ (ops : List Op) (st : Importer.St ρ),
    Sorted st.blocks → TInv txsOf st.blocks st.txs →
    OkT txsOf st.blocks (impsOf txsOf (fun T => R0 (txsIn T)) (fun T => RL0 (txsIn T)) maxPer st ops) →
    (drive txsOf (fun T => R0 (txsIn T)) (fun T => RL0 (txsIn T)) maxPer st ops).2 = false ∧
    (drive txsOf (fun T => R0 (txsIn T)) (fun T => RL0 (txsIn T)) maxPer st ops).1.blocks
      = runManyB st.blocks (impsOf txsOf (fun T => R0 (txsIn T)) (fun T => RL0 (txsIn T)) maxPer st ops) ∧
    (drive txsOf (fun T => R0 (txsIn T)) (fun T => RL0 (txsIn T)) maxPer st ops).1.roots
      = (runMany (R0 txsOf) ⟨st.blocks, st.roots⟩ (impsOf txsOf (fun T => R0 (txsIn T)) (fun T => RL0 (txsIn T)) maxPer st ops)).roots ∧
    (drive txsOf (fun T => R0 (txsIn T)) (fun T => RL0 (txsIn T)) maxPer st ops).1.legacy
      = (runMany (RL0 txsOf) ⟨st.blocks, st.legacy⟩ (impsOf txsOf (fun T => R0 (txsIn T)) (fun T => RL0 (txsIn T)) maxPer st ops)).roots ∧
    (drive txsOf (fun T => R0 (txsIn T)) (fun T => RL0 (txsIn T)) maxPer st ops).1.txs
      = (runManyT txsOf (st.blocks, st.txs) (impsOf txsOf (fun T => R0 (txsIn T)) (fun T => RL0 (txsIn T)) maxPer st ops)).2 := by
  intro ops
  induction ops with
  | nil => intro st _ _ _; exact ⟨rfl, rfl, rfl, rfl, rfl⟩
  | cons op ops ih =>
    intro st hS hT hOk
    cases op with
    | restart =>
      simp only [drive, impsOf] at hOk ⊢
      exact ih { st with lastPolled := none } hS hT hOk
    | imp t rs =>
      simp only [drive, impsOf] at hOk ⊢
      obtain ⟨s1, s2, s3, s4, s5, s6, s7⟩ := importStep_is_step txsOf R0 RL0 hR hRL maxPer st t rs hS hT hOk.1
      have hOk' := hOk.2
      rw [← s2] at hOk'
      obtain ⟨d1, d2, d3, d4, d5⟩ := ih _ s6 s7 hOk'
      have hb : (step (R0 txsOf) ⟨st.blocks, st.roots⟩ (impOf maxPer st t rs)).blocks = stepB st.blocks (impOf maxPer st t rs) :=
        step_blocks _ _ _
      have hbL : (step (RL0 txsOf) ⟨st.blocks, st.legacy⟩ (impOf maxPer st t rs)).blocks = stepB st.blocks (impOf maxPer st t rs) :=
        step_blocks _ _ _
      have hbT : (stepT txsOf (st.blocks, st.txs) (impOf maxPer st t rs)).1 = stepB st.blocks (impOf maxPer st t rs) :=
        (stepT_spec txsOf (st.blocks, st.txs) _ hS hT hOk.1).1
      refine ⟨by rw [s1, d1]; rfl, ?_, ?_, ?_, ?_⟩
      · rw [d2, s2]; rfl
      · rw [d3]; simp only [runMany]
        congr 1
        rw [← hb] at s2
        cases hst : step (R0 txsOf) ⟨st.blocks, st.roots⟩ (impOf maxPer st t rs) with
        | mk b r => rw [hst] at s2 s3; simp only at s2 s3; rw [s2, s3]
      · rw [d4]; simp only [runMany]
        congr 1
        rw [← hbL] at s2
        cases hst : step (RL0 txsOf) ⟨st.blocks, st.legacy⟩ (impOf maxPer st t rs) with
        | mk b r => rw [hst] at s2 s4; simp only at s2 s4; rw [s2, s4]
      · rw [d5]; simp only [runManyT]
        congr 2
        rw [← hbT] at s2
        exact Prod.ext s2 s5

end driver

/-! ## one cut at the end: when is `naive` the fold of ALL consumed replies? -/

section singlecut

/-- `x` survives every roll-back among the replies -/
def keeps : List (Option Ev) → Block → Bool
  | [], _ => true
  | none :: r, x => keeps r x
  | some (.fwd _) :: r, x => keeps r x
  | some (.back s) :: r, x => decide (x.slot ≤ s) && keeps r x

/-- the naive fold acts on the start chain as a filter -/
theorem applyAll_split : ∀ (pre : List (Option Ev)) (V : List Block),
    applyAll V pre = V.filter (keeps pre) ++ applyAll [] pre := by
  intro pre
  induction pre with
  | nil => intro V; simp [applyAll, List.filter_eq_self.mpr (fun x _ => (rfl : keeps [] x = true))]
  | cons e r ih =>
    intro V
    cases e with
    | none =>
      have : keeps (none :: r) = keeps r := by funext x; rfl
      simp only [applyAll, this]; exact ih V
    | some ev =>
      cases ev with
      | fwd b =>
        have : keeps (some (.fwd b) :: r) = keeps r := by funext x; rfl
        simp only [applyAll, applyEv, this]
        rw [ih (V ++ [b]), ih ([] ++ [b]), List.filter_append, List.nil_append, List.append_assoc]
      | back s =>
        have : keeps (some (.back s) :: r) = fun x => decide (x.slot ≤ s) && keeps r x := by funext x; rfl
        simp only [applyAll, applyEv, this, List.filter_nil]
        rw [ih (V.filter _), List.filter_filter]
        congr 1
        apply List.filter_congr
        intro x _
        exact Bool.and_comm _ _

/-- every block that an import consumed above its target ("lost": the streamer drops it) is rolled back
by the replies of the next scanning import — e.g. by the echo of the resume point — or still lies above
the next target. `G` is the uncut fold of all replies so far, `t` the previous target. -/
def Relost : List Block → Nat → List (Nat × List (Option Ev)) → Prop
  | _, _, [] => True
  | G, t, (t', pre) :: r =>
    (∀ x ∈ G, keeps pre x = true → x.number ≤ t' → x.number ≤ t) ∧ Relost (applyAll G pre) t' r

def relostB : List Block → Nat → List (Nat × List (Option Ev)) → Bool
  | _, _, [] => true
  | G, t, (t', pre) :: r =>
    G.all (fun x => !(keeps pre x) || !(decide (x.number ≤ t')) || decide (x.number ≤ t)) && relostB (applyAll G pre) t' r

theorem relostB_iff : ∀ (tr : List (Nat × List (Option Ev))) (G : List Block) (t : Nat), relostB G t tr = true ↔ Relost G t tr := by
  intro tr
  induction tr with
  | nil => intro G t; simp [relostB, Relost]
  | cons e r ih =>
    intro G t
    obtain ⟨t', pre⟩ := e
    simp only [relostB, Relost, Bool.and_eq_true, List.all_eq_true, ih]
    refine and_congr ?_ Iff.rfl
    refine forall_congr' (fun x => forall_congr' (fun _ => ?_))
    cases keeps pre x <;> by_cases h1 : x.number ≤ t' <;> by_cases h2 : x.number ≤ t <;> simp [h1, h2]

def lastTarget : Nat → List (Nat × List (Option Ev)) → Nat
  | t, [] => t
  | _, (t', _) :: r => lastTarget t' r

/-- under `Relost` the cuts in between are invisible: `naive` is the fold of the concatenation of ALL
consumed replies, cut once at the last target -/
theorem naive_single_cut : ∀ (tr : List (Nat × List (Option Ev))) (G : List Block) (t : Nat), Relost G t tr →
    naive (G.filter (fun x => x.number ≤ t)) tr
      = (applyAll G (tr.flatMap (·.2))).filter (fun x => x.number ≤ lastTarget t tr) := by
  intro tr
  induction tr with
  | nil => intro G t _; rfl
  | cons e r ih =>
    intro G t h
    obtain ⟨t', pre⟩ := e
    obtain ⟨h1, h2⟩ := h
    have e1 : lastTarget t ((t', pre) :: r) = lastTarget t' r := rfl
    have e2 : ((t', pre) :: r).flatMap (·.2) = pre ++ r.flatMap (·.2) := List.flatMap_cons
    rw [e1, e2, applyAll_append]
    simp only [naive]
    rw [← ih (applyAll G pre) t' h2]
    congr 1
    rw [applyAll_split pre (G.filter _), applyAll_split pre G, List.filter_append, List.filter_append]
    congr 1
    rw [List.filter_filter, List.filter_filter, List.filter_filter]
    apply List.filter_congr
    intro x hx
    have := h1 x hx
    cases hk : keeps pre x <;> by_cases h3 : x.number ≤ t' <;> by_cases h4 : x.number ≤ t <;> simp_all

/-- **multi-import refinement with ONE cut.** If moreover every block consumed above a target is rolled
back by the next scan's replies (`Relost`, decidable — true for a node that resumes at its last polled
point: the echo of that point removes the lost block from the naive chain), the stored blocks are the
naive fold of the concatenation of ALL consumed replies, cut at the last scanned target. -/
theorem many_refines_single_cut (S0 : List Block) (t0 : Nat) (is : List Imp) (hS : Sorted S0) (hOk : Ok S0 is)
    (h0 : ∀ x ∈ S0, x.number ≤ t0) (hL : Relost S0 t0 (trace S0 is)) :
    runManyB S0 is = (applyAll S0 ((trace S0 is).flatMap (·.2))).filter (fun x => x.number ≤ lastTarget t0 (trace S0 is)) := by
  rw [(many_refines_blocks is S0 hS hOk).1, ← naive_single_cut _ S0 t0 hL]
  congr 1
  symm; rw [List.filter_eq_self]; intro x hx; simpa using h0 x hx

end singlecut

/-! ## non-vacuity: concrete histories that satisfy the hypotheses -/

/-- target 31, the node is at 32: block 32 is consumed and dropped (two ranges, covered) -/
def c1 : Imp := ⟨⟨0, 31, 10⟩, 9, fwds blk 1 32⟩
/-- target 20: an early exit -/
def cE : Imp := ⟨⟨310, 20, 10⟩, 9, [some (.fwd (blk 33))]⟩
/-- target 50, resumes at block 31 (echo), the node has switched at block 28: 29′..51′ (three ranges, covered) -/
def c2 : Imp := ⟨⟨310, 50, 7⟩, 9, some (.back 310) :: some (.back 280) :: fwds blk' 29 23⟩
/-- another node: one import of the final chain, batch size 100 -/
def cFresh : Imp := ⟨⟨0, 50, 100⟩, 9, fwds blk 1 28 ++ fwds blk' 29 23⟩
/-- a third node: three imports with other targets and batch sizes -/
def d1 : Imp := ⟨⟨0, 10, 3⟩, 9, fwds blk 1 11⟩
def d2 : Imp := ⟨⟨100, 30, 4⟩, 9, some (.back 100) :: fwds blk 11 18 ++ [some (.back 280)] ++ fwds blk' 29 3⟩
def d3 : Imp := ⟨⟨301, 50, 5⟩, 9, some (.back 301) :: fwds blk' 31 21⟩

/-- non-vacuity of `many_refines` / `many_roots` / `many_refines_single_cut`: a history with a consumed
forward above the target, an early exit and a chain switch satisfies `Ok`, `Covered` and `Relost`; its
trace has the targets 31 and 50 -/
example :
    okB [] [c1, cE, c2] = true ∧ coveredB [] [c1, cE, c2] = true ∧
    (trace [] [c1, cE, c2]).map (·.1) = [31, 50] ∧ lastT none (trace [] [c1, cE, c2]) = some 50 ∧
    relostB [] 0 (trace [] [c1, cE, c2]) = true ∧
    (runMany Rex ⟨[], []⟩ [c1, cE, c2]).blocks = (List.range' 1 28).map blk ++ (List.range' 29 22).map blk' ∧
    (runMany Rex ⟨[], []⟩ [c1, cE, c2]).roots = cached Rex (runMany Rex ⟨[], []⟩ [c1, cE, c2]).blocks 3 := by
  decide +kernel

/-- non-vacuity of `many_convergence` / `many_vs_fresh`: three nodes with 3, 1 and 3 imports, different
targets, batch sizes and scripts; all `Ok` and `Covered`, same fold, same last target — and indeed the
same blocks and roots -/
example :
    okB [] [c1, cE, c2] = true ∧ okB [] [cFresh] = true ∧ okB [] [d1, d2, d3] = true ∧
    coveredB [] [c1, cE, c2] = true ∧ coveredB [] [cFresh] = true ∧ coveredB [] [d1, d2, d3] = true ∧
    naive [] (trace [] [c1, cE, c2]) = naive [] (trace [] [cFresh]) ∧
    naive [] (trace [] [c1, cE, c2]) = naive [] (trace [] [d1, d2, d3]) ∧
    lastT none (trace [] [cFresh]) = some 50 ∧ lastT none (trace [] [d1, d2, d3]) = some 50 ∧
    (runMany Rex ⟨[], []⟩ [c1, cE, c2]).roots = (runMany Rex ⟨[], []⟩ [d1, d2, d3]).roots ∧
    (runMany Rex ⟨[], []⟩ [cFresh]).roots = (runMany Rex ⟨[], []⟩ [d1, d2, d3]).roots := by
  decide +kernel

/-- transactions of the examples: block `n` carries transaction `n`; the fork re-includes the
transactions of the abandoned blocks 29..31 one block later -/
def txEx : Nat → List Nat := fun h => if h < 1000 then [h] else if h ≤ 1029 then [] else [h - 1001]

/-- non-vacuity of `many_transactions`: the history above is `OkT` (the fork re-includes transactions
29, 30, 31 of the abandoned blocks under new blocks) and ends with the rows of the stored blocks -/
example :
    okTB txEx [] [c1, cE, c2] = true ∧
    (runManyT txEx ([], []) [c1, cE, c2]).2 = rowsOf txEx (runManyB [] [c1, cE, c2]) ∧
    (29, 1030) ∈ (runManyT txEx ([], []) [c1, cE, c2]).2 ∧ (29, 29) ∈ (runManyT txEx ([], []) [c1]).2 := by
  decide +kernel

#print axioms many_refines
#print axioms many_convergence
#print axioms many_transactions
#print axioms many_refines_single_cut
#print axioms import_regains
#print axioms lost_for_good
#print axioms drive_is_runMany

end ImportMany
