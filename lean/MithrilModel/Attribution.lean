namespace Attribution

structure Signer where
  party : Nat
  vk : Nat
deriving DecidableEq, Repr

structure Sig where
  label : Nat          -- party_id sent with the signature
  slot : Nat           -- signer_index inside the signature
  sigma : Nat
deriving DecidableEq, Repr

/-- registered signers in slot order; `verifies vk sigma` is the STM single verification verdict -/
structure Env where
  signers : List Signer
  verifies : Nat → Nat → Bool

def vkAt (E : Env) (slot : Nat) : Option Nat := (E.signers[slot]?).map (·.vk)
def vkOf (E : Env) (party : Nat) : Option Nat := (E.signers.find? (·.party = party)).map (·.vk)

/-- as it is: the label is never consulted -/
def acceptCurrent (E : Env) (s : Sig) : Bool :=
  match vkAt E s.slot with
  | some vk => E.verifies vk s.sigma
  | none => false

/-- repaired: the key registered by the label must be the key at the slot -/
def acceptFixed (E : Env) (s : Sig) : Bool :=
  match vkAt E s.slot, vkOf E s.label with
  | some vk, some vk' => vk = vk' && E.verifies vk s.sigma
  | _, _ => false

/-- table keyed by the label, insert-or-replace -/
def store (tbl : List (Nat × Nat)) (s : Sig) : List (Nat × Nat) :=
  (tbl.filter (·.1 ≠ s.label)) ++ [(s.label, s.sigma)]

theorem fixed_bound (E : Env) (s : Sig) (h : acceptFixed E s = true) :
    ∃ vk, vkOf E s.label = some vk ∧ vkAt E s.slot = some vk ∧ E.verifies vk s.sigma = true := by
  unfold acceptFixed at h
  split at h
  · rename_i vk vk' h1 h2
    simp only [Bool.and_eq_true, decide_eq_true_eq] at h
    obtain ⟨rfl, hv⟩ := h
    exact ⟨vk, h2, h1, hv⟩
  · simp at h

/-- storing under one label never touches another label's row -/
theorem store_other (tbl : List (Nat × Nat)) (s : Sig) (row : Nat × Nat) (h : row.1 ≠ s.label) :
    row ∈ store tbl s ↔ row ∈ tbl := by
  unfold store
  simp only [List.mem_append, List.mem_filter, List.mem_singleton]
  constructor
  · rintro (⟨h1, _⟩ | h1)
    · exact h1
    · exact absurd (by rw [h1]) h
  · intro h1; exact Or.inl ⟨h1, by simpa using h⟩

/-- the relabelled copy: accepted today, rejected after the repair -/
def E0 : Env := { signers := [⟨10, 100⟩, ⟨20, 200⟩], verifies := fun vk sigma => vk = sigma }
theorem relabel_counterexample :
    acceptCurrent E0 { label := 10, slot := 1, sigma := 200 } = true ∧
    acceptFixed E0 { label := 10, slot := 1, sigma := 200 } = false ∧
    store [(10, 100), (20, 200)] { label := 10, slot := 1, sigma := 200 } = [(20, 200), (10, 200)] := by
  decide

end Attribution
