import MithrilModel.Digester
/-! # C12 — theorems about the digester model -/
namespace Digester

variable {γ : Type}

/-! ## the order `(number, name)` -/

theorem lexLe_refl : ∀ a : Name, lexLe a a = true
  | [] => rfl
  | x :: xs => by simp [lexLe, lexLe_refl xs]

theorem lexLe_trans : ∀ a b c : Name, lexLe a b = true → lexLe b c = true → lexLe a c = true
  | [], _, _, _, _ => by simp [lexLe]
  | _ :: _, [], _, h, _ => by simp [lexLe] at h
  | _ :: _, _ :: _, [], _, h => by simp [lexLe] at h
  | x :: xs, y :: ys, z :: zs, h1, h2 => by
    simp only [lexLe, Bool.or_eq_true, Bool.and_eq_true, decide_eq_true_eq] at h1 h2 ⊢
    rcases h1 with h1 | ⟨e1, r1⟩
    · rcases h2 with h2 | ⟨e2, _⟩
      · left; omega
      · left; omega
    · rcases h2 with h2 | ⟨e2, r2⟩
      · left; omega
      · right; exact ⟨by omega, lexLe_trans xs ys zs r1 r2⟩

theorem lexLe_total : ∀ a b : Name, (lexLe a b || lexLe b a) = true
  | [], _ => by simp [lexLe]
  | _ :: _, [] => by simp [lexLe]
  | x :: xs, y :: ys => by
    have ih := lexLe_total xs ys
    simp only [lexLe, Bool.or_eq_true, Bool.and_eq_true, decide_eq_true_eq] at ih ⊢
    by_cases h : x < y
    · left; left; exact h
    · by_cases h' : y < x
      · right; left; exact h'
      · have : x = y := by omega
        rcases ih with ih | ih
        · left; right; exact ⟨this, ih⟩
        · right; right; exact ⟨this.symm, ih⟩

theorem lexLe_antisymm : ∀ a b : Name, lexLe a b = true → lexLe b a = true → a = b
  | [], [], _, _ => rfl
  | [], _ :: _, _, h => by simp [lexLe] at h
  | _ :: _, [], h, _ => by simp [lexLe] at h
  | x :: xs, y :: ys, h1, h2 => by
    simp only [lexLe, Bool.or_eq_true, Bool.and_eq_true, decide_eq_true_eq] at h1 h2
    rcases h1 with h1 | ⟨e1, r1⟩
    · rcases h2 with h2 | ⟨e2, _⟩ <;> omega
    · rcases h2 with h2 | ⟨_, r2⟩
      · omega
      · rw [e1, lexLe_antisymm xs ys r1 r2]

theorem le_trans' (a b c : IFile γ) : le a b = true → le b c = true → le a c = true := by
  unfold le
  simp only [Bool.or_eq_true, Bool.and_eq_true, decide_eq_true_eq]
  intro h1 h2
  rcases h1 with h1 | ⟨e1, r1⟩
  · rcases h2 with h2 | ⟨e2, _⟩
    · left; omega
    · left; omega
  · rcases h2 with h2 | ⟨e2, r2⟩
    · left; omega
    · right; exact ⟨by omega, lexLe_trans _ _ _ r1 r2⟩

theorem le_total' (a b : IFile γ) : (le a b || le b a) = true := by
  have ht := lexLe_total a.name b.name
  unfold le
  simp only [Bool.or_eq_true, Bool.and_eq_true, decide_eq_true_eq] at ht ⊢
  by_cases h : a.number < b.number
  · left; left; exact h
  · by_cases h' : b.number < a.number
    · right; left; exact h'
    · have : a.number = b.number := by omega
      rcases ht with ht | ht
      · left; right; exact ⟨this, ht⟩
      · right; right; exact ⟨this.symm, ht⟩

theorem le_same_name (a b : IFile γ) : le a b = true → le b a = true → a.name = b.name := by
  unfold le
  simp only [Bool.or_eq_true, Bool.and_eq_true, decide_eq_true_eq]
  intro h1 h2
  rcases h1 with h1 | ⟨_, r1⟩
  · rcases h2 with h2 | ⟨e2, _⟩ <;> omega
  · rcases h2 with h2 | ⟨_, r2⟩
    · omega
    · exact lexLe_antisymm _ _ r1 r2

/-- distinct list members have distinct names -/
def NamesInj (l : List (IFile γ)) : Prop := ∀ a ∈ l, ∀ b ∈ l, a.name = b.name → a = b

/-- a permutation class with injective names has exactly one sorted representative -/
theorem sorted_unique {l₁ l₂ : List (IFile γ)} (hp : l₁.Perm l₂) (hn : NamesInj l₁)
    (h1 : l₁.Pairwise (fun a b => le a b = true)) (h2 : l₂.Pairwise (fun a b => le a b = true)) : l₁ = l₂ :=
  List.Perm.eq_of_pairwise (le := fun a b => le a b = true)
    (fun a b ha hb hab hba => hn a ha b (hp.mem_iff.mpr hb) (le_same_name a b hab hba)) h1 h2 hp

theorem sort_perm {l₁ l₂ : List (IFile γ)} (hp : l₁.Perm l₂) (hn : NamesInj l₁) :
    l₁.mergeSort le = l₂.mergeSort le := by
  have p : (l₁.mergeSort le).Perm (l₂.mergeSort le) :=
    ((List.mergeSort_perm l₁ le).trans hp).trans (List.mergeSort_perm l₂ le).symm
  refine sorted_unique p ?_ (List.pairwise_mergeSort le_trans' le_total' l₁)
    (List.pairwise_mergeSort le_trans' le_total' l₂)
  intro a ha b hb
  exact hn a ((List.mergeSort_perm l₁ le).mem_iff.mp ha) b ((List.mergeSort_perm l₁ le).mem_iff.mp hb)

/-- filtering commutes with the sort -/
theorem sort_filter (l : List (IFile γ)) (hn : NamesInj l) (p : IFile γ → Bool) :
    (l.mergeSort le).filter p = (l.filter p).mergeSort le := by
  have hperm : ((l.mergeSort le).filter p).Perm ((l.filter p).mergeSort le) :=
    ((List.mergeSort_perm l le).filter p).trans (List.mergeSort_perm (l.filter p) le).symm
  refine sorted_unique hperm ?_
    (List.Pairwise.sublist List.filter_sublist (List.pairwise_mergeSort le_trans' le_total' l))
    (List.pairwise_mergeSort le_trans' le_total' _)
  intro a ha b hb
  exact hn a ((List.mergeSort_perm l le).mem_iff.mp (List.mem_filter.mp ha).1)
    b ((List.mergeSort_perm l le).mem_iff.mp (List.mem_filter.mp hb).1)

/-! ## listing -/

/-- the entries of a directory have pairwise distinct names -/
def DistinctNames (es : List (Entry γ)) : Prop := (es.map (·.name)).Nodup

theorem mkFile_name {e : Entry γ} {f : IFile γ} (h : mkFile e = some f) : f.name = e.name ∧ f.content = e.content := by
  unfold mkFile at h
  cases hn : numberOf e.name with
  | none => simp [hn] at h
  | some n => simp [hn] at h; subst h; exact ⟨rfl, rfl⟩

theorem entry_eq_of_name {es : List (Entry γ)} (hd : DistinctNames es) :
    ∀ a ∈ es, ∀ b ∈ es, a.name = b.name → a = b := by
  unfold DistinctNames at hd
  induction es with
  | nil => intro a ha; cases ha
  | cons x xs ih =>
    simp only [List.map_cons, List.nodup_cons, List.mem_map, not_exists, not_and] at hd
    intro a ha b hb hab
    simp only [List.mem_cons] at ha hb
    rcases ha with rfl | ha <;> rcases hb with rfl | hb
    · rfl
    · exact absurd hab.symm (hd.1 b hb)
    · exact absurd hab (hd.1 a ha)
    · exact ih hd.2 a ha b hb hab

theorem namesInj_files {es : List (Entry γ)} (hd : DistinctNames es) (q : Entry γ → Bool) :
    NamesInj ((es.filter q).filterMap mkFile) := by
  intro a ha b hb hab
  simp only [List.mem_filterMap, List.mem_filter] at ha hb
  obtain ⟨ea, ⟨hea, _⟩, ma⟩ := ha
  obtain ⟨eb, ⟨heb, _⟩, mb⟩ := hb
  have na := mkFile_name ma
  have nb := mkFile_name mb
  have : ea = eb := entry_eq_of_name hd ea hea eb heb (by rw [← na.1, ← nb.1, hab])
  subst this
  rw [ma] at mb
  exact Option.some.inj mb

theorem all_perm {α : Type} {l₁ l₂ : List α} (hp : l₁.Perm l₂) (p : α → Bool) : l₁.all p = l₂.all p := by
  rw [Bool.eq_iff_iff]
  simp only [List.all_eq_true]
  exact ⟨fun h x hx => h x (hp.mem_iff.mpr hx), fun h x hx => h x (hp.mem_iff.mp hx)⟩

/-- **listing order**: the sorted listing does not depend on the order in which the directory yields its entries -/
theorem listAll_perm {es es' : List (Entry γ)} (hp : es.Perm es') (hd : DistinctNames es) :
    listAll es = listAll es' := by
  unfold listAll
  have hf : (es.filter isImm).Perm (es'.filter isImm) := hp.filter _
  simp only [all_perm hf]
  split
  · rw [sort_perm (hf.filterMap mkFile) (namesInj_files hd isImm)]
  · rfl

theorem toProcess_perm {es es' : List (Entry γ)} (hp : es.Perm es') (hd : DistinctNames es) (beacon : Nat) :
    toProcess es beacon = toProcess es' beacon := by
  unfold toProcess kept; rw [listAll_perm hp hd]

/-! ## irrelevant entries -/

/-- an entry the computation at `beacon` must not depend on: not an immutable file (other
extension, a directory, …) or an immutable file numbered above the beacon -/
def Irrelevant (beacon : Nat) (e : Entry γ) : Prop :=
  isImm e = false ∨ ∃ n, numberOf e.name = some n ∧ beacon < n

theorem filterMap_filter_irrelevant (extra : List (Entry γ)) (beacon : Nat) (h : ∀ e ∈ extra, Irrelevant beacon e) :
    ((extra.filter isImm).filterMap mkFile).filter (fun f => f.number ≤ beacon) = [] := by
  rw [List.filter_eq_nil_iff]
  intro f hf
  simp only [List.mem_filterMap, List.mem_filter] at hf
  obtain ⟨e, ⟨he, hi⟩, hm⟩ := hf
  rcases h e he with h0 | ⟨n, hn, hb⟩
  · rw [hi] at h0; cases h0
  · unfold mkFile at hm
    rw [hn] at hm
    simp only [Option.map_some, Option.some.injEq] at hm
    subst hm
    simp only [decide_eq_true_eq]; omega

theorem all_irrelevant (extra : List (Entry γ)) (beacon : Nat) (h : ∀ e ∈ extra, Irrelevant beacon e) :
    (extra.filter isImm).all (fun e => (numberOf e.name).isSome) = true := by
  simp only [List.all_eq_true, List.mem_filter]
  intro e ⟨he, hi⟩
  rcases h e he with h0 | ⟨n, hn, _⟩
  · rw [hi] at h0; cases h0
  · simp [hn]

theorem kept_irrelevant (es extra : List (Entry γ)) (beacon : Nat) (hd : DistinctNames (es ++ extra))
    (h : ∀ e ∈ extra, Irrelevant beacon e) : kept (es ++ extra) beacon = kept es beacon := by
  have hd' : DistinctNames es := by
    unfold DistinctNames at hd ⊢
    rw [List.map_append] at hd
    exact (List.nodup_append.mp hd).1
  unfold kept listAll
  simp only [List.filter_append, List.all_append, all_irrelevant extra beacon h, Bool.and_true]
  cases hc : (es.filter isImm).all (fun e => (numberOf e.name).isSome) with
  | false => simp
  | true =>
    simp only [if_true, Option.map_some, Option.some.injEq]
    have hn := namesInj_files hd isImm
    rw [List.filter_append] at hn
    rw [sort_filter _ hn, sort_filter _ (namesInj_files hd' isImm), List.filterMap_append, List.filter_append,
      filterMap_filter_irrelevant extra beacon h, List.append_nil]

/-- **irrelevant files**: adding entries that are not immutable files, or are numbered above the
beacon, does not change the list of files to process (hence neither the root nor the cache) -/
theorem toProcess_irrelevant (es extra : List (Entry γ)) (beacon : Nat) (hd : DistinctNames (es ++ extra))
    (h : ∀ e ∈ extra, Irrelevant beacon e) : toProcess (es ++ extra) beacon = toProcess es beacon := by
  unfold toProcess; rw [kept_irrelevant es extra beacon hd h]

/-! ## cache -/

variable (sha : γ → Bytes)

/-- every cached value for a name present in the directory is the digest of that file's current content -/
def CacheOk (c : Cache) (fs : List (IFile γ)) : Prop :=
  ∀ f ∈ fs, ∀ d, lookup c f.name = some d → d = sha f.content

theorem digestOf_ok (c : Cache) (fs : List (IFile γ)) (h : CacheOk sha c fs) :
    fs.map (digestOf sha c) = fs.map (digestOf sha []) := by
  apply List.map_congr_left
  intro f hf
  unfold digestOf
  cases hl : lookup c f.name with
  | none => simp [lookup]
  | some d => simp [lookup, h f hf d hl]

theorem find_filter_ne (c : Cache) (n m : Name) (h : ¬ n = m) :
    (c.filter (·.1 ≠ n)).find? (·.1 = m) = c.find? (·.1 = m) := by
  induction c with
  | nil => rfl
  | cons x xs ih =>
    by_cases hm : x.1 = m
    · have hx : x.1 ≠ n := by rw [hm]; exact fun e => h e.symm
      have hmn : ¬ m = n := fun e => h e.symm
      simp [List.filter_cons, hm, hmn]
    · by_cases hx : x.1 = n
      · simpa [List.filter_cons, hx, hm, h] using ih
      · simpa [List.filter_cons, hx, hm] using ih

theorem lookup_insert (c : Cache) (n m : Name) (d : Bytes) :
    lookup (insert c n d) m = if n = m then some d else lookup c m := by
  unfold lookup insert
  by_cases h : n = m
  · subst h; simp
  · rw [List.find?_cons_of_neg (by simpa using h), find_filter_ne c n m h]
    simp [h]

theorem updateCache_lookup (c0 : Cache) (gs : List (IFile γ)) : ∀ (acc : Cache) (m : Name) (d : Bytes),
    lookup (gs.foldl (fun acc f => match lookup c0 f.name with
      | some _ => acc
      | none => insert acc f.name (sha f.content)) acc) m = some d →
    lookup acc m = some d ∨ ∃ g ∈ gs, g.name = m ∧ d = sha g.content := by
  induction gs with
  | nil => intro acc m d h; exact Or.inl h
  | cons g gs ih =>
    intro acc m d h
    simp only [List.foldl_cons] at h
    rcases ih _ m d h with h1 | ⟨g', hg', hn, hd⟩
    · cases hl : lookup c0 g.name with
      | some _ => rw [hl] at h1; exact Or.inl h1
      | none =>
        rw [hl] at h1
        simp only [lookup_insert] at h1
        split at h1
        · rename_i hgm
          exact Or.inr ⟨g, by simp, hgm, by simpa using h1.symm⟩
        · exact Or.inl h1
    · exact Or.inr ⟨g', by simp [hg'], hn, hd⟩

/-- **the cache stays sound**: after a run over `fs`, every cached value for a file of ANY listing `fs'`
whose files agree with `fs` on the names they share (the unchanged database, a longer or a shorter
run) is still the digest of that file -/
theorem updateCache_ok (c : Cache) (fs fs' : List (IFile γ)) (h : CacheOk sha c fs')
    (hsame : ∀ f ∈ fs, ∀ f' ∈ fs', f.name = f'.name → f.content = f'.content) :
    CacheOk sha (updateCache sha c fs) fs' := by
  intro f' hf' d hl
  unfold updateCache at hl
  rcases updateCache_lookup sha c fs c f'.name d hl with h1 | ⟨g, hg, hn, hd⟩
  · exact h f' hf' d h1
  · rw [hd, hsame g hg f' hf' hn]

/-! ## the root -/

variable (H : Bytes → Bytes)

theorem rootIn_perm (c : Cache) {es es' : List (Entry γ)} (hp : es.Perm es') (hd : DistinctNames es) (beacon : Nat) :
    rootIn sha H c es beacon = rootIn sha H c es' beacon := by
  unfold rootIn; rw [toProcess_perm hp hd]

theorem rootIn_irrelevant (c : Cache) (es extra : List (Entry γ)) (beacon : Nat) (hd : DistinctNames (es ++ extra))
    (h : ∀ e ∈ extra, Irrelevant beacon e) : rootIn sha H c (es ++ extra) beacon = rootIn sha H c es beacon := by
  unfold rootIn; rw [toProcess_irrelevant es extra beacon hd h]

/-- with a sound cache the root (and the leaves) are those of the cache-less computation -/
theorem rootIn_cache (c : Cache) (es : List (Entry γ)) (beacon : Nat)
    (h : ∀ fs, toProcess es beacon = .ok fs → CacheOk sha c fs) :
    (rootIn sha H c es beacon).map (fun r => (r.root, r.leaves)) =
      (rootIn sha H [] es beacon).map (fun r => (r.root, r.leaves)) := by
  unfold rootIn
  cases hp : toProcess es beacon with
  | error e => rfl
  | ok fs =>
    simp only
    rw [digestOf_ok sha c fs (h fs hp)]
    cases MmrBuild.root (merge H) (fs.map (digestOf sha [])) <;> rfl

/-- the leaves fed to the tree without a cache: the file digests in `(number, name)` order -/
theorem rootIn_leaves (es : List (Entry γ)) (beacon : Nat) (r : Result) (h : rootIn sha H [] es beacon = .ok r) :
    ∃ fs, toProcess es beacon = .ok fs ∧ r.leaves = fs.map (fun f => sha f.content) ∧
      MmrBuild.root (merge H) r.leaves = some r.root := by
  unfold rootIn at h
  cases hp : toProcess es beacon with
  | error e => rw [hp] at h; cases h
  | ok fs =>
    rw [hp] at h
    simp only at h
    cases hr : MmrBuild.root (merge H) (fs.map (digestOf sha [])) with
    | none => rw [hr] at h; cases h
    | some x =>
      rw [hr] at h
      simp only [Except.ok.injEq] at h
      subst h
      refine ⟨fs, rfl, ?_, hr⟩
      apply List.map_congr_left
      intro f _
      simp [digestOf, lookup]

/-- **missing last file**: when no immutable file carries the beacon's number the outcome is the
`NotEnoughImmutable` error (or the listing error), never a root -/
theorem toProcess_missing_last (es : List (Entry γ)) (beacon : Nat)
    (h : ∀ e ∈ es, isImm e = true → numberOf e.name ≠ some beacon) :
    ∃ e, toProcess es beacon = .error e := by
  unfold toProcess
  cases hk0 : kept es beacon with
  | none => exact ⟨_, rfl⟩
  | some k =>
    simp only
    cases hk : k.getLast? with
    | none => exact ⟨_, rfl⟩
    | some l =>
      simp only
      have hmem : l ∈ k := List.mem_of_getLast? hk
      unfold kept listAll at hk0
      dsimp only at hk0
      cases hc : (es.filter isImm).all (fun e => (numberOf e.name).isSome) with
      | false => simp [hc] at hk0
      | true =>
        simp only [hc, if_true, Option.map_some, Option.some.injEq] at hk0
        subst hk0
        have hle : l.number ≤ beacon := by simpa using (List.mem_filter.mp hmem).2
        have hne : l.number ≠ beacon := by
          intro heq
          have := (List.mergeSort_perm _ le).mem_iff.mp (List.mem_filter.mp hmem).1
          simp only [List.mem_filterMap, List.mem_filter] at this
          obtain ⟨e, ⟨he, hi⟩, hm⟩ := this
          unfold mkFile at hm
          cases hn : numberOf e.name with
          | none => simp [hn] at hm
          | some n =>
            simp only [hn, Option.map_some, Option.some.injEq] at hm
            subst hm
            exact h e he hi (by rw [hn]; simp only at heq; rw [heq])
        have : l.number < beacon := by omega
        simp only [this, if_true]
        exact ⟨_, rfl⟩

/-! ## injectivity of the root in the ordered digest list -/

def Collision (f : Bytes → Bytes) : Prop := ∃ x y, x ≠ y ∧ f x = f y

/-- value level (any two listings, also of different lengths): for an injective merge whose values no
leaf equals, equal roots mean equal ordered digest lists -/
theorem root_injective_value (m : Bytes → Bytes → Bytes)
    (hinj : ∀ a b c d, m a b = m c d → a = c ∧ b = d)
    (ls ls' : List Bytes) (hl : ∀ a ∈ ls, ¬ ExprTree.IsMerge m a) (hl' : ∀ a ∈ ls', ¬ ExprTree.IsMerge m a)
    (r : Bytes) (h : MmrBuild.root m ls = some r) (h' : MmrBuild.root m ls' = some r) : ls = ls' :=
  MmrBuild.root_injective m hinj ls ls' hl hl' r h h'

/-- byte level: equally many leaves of one length, node hash of fixed output length: equal roots
mean equal ordered digest lists, or the node hash has a collision -/
theorem root_injective_bytes' (N L : Nat) (hlenH : ∀ x, (H x).length = N)
    (ls ls' : List Bytes) (hlen : ls.length = ls'.length)
    (hl : ∀ a ∈ ls, a.length = L) (hl' : ∀ a ∈ ls', a.length = L)
    (r : Bytes) (h : MmrBuild.root (merge H) ls = some r) (h' : MmrBuild.root (merge H) ls' = some r) :
    ls = ls' ∨ Collision H := by
  by_cases hc : Collision H
  · exact Or.inr hc
  · left
    have hH : ∀ x y, H x = H y → x = y := by
      intro x y e
      apply Classical.byContradiction
      intro hne
      exact hc ⟨x, y, hne, e⟩
    exact MmrBuild.root_injective_bytes H N L hH hlenH ls ls' hlen hl hl' r h h'

end Digester
