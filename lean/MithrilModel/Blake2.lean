/-
Executable Blake2b (any output length ≤ 64, unkeyed) and Blake2s-256 (unkeyed), RFC 7693.
Part of the trusted *driver* (these functions are only run, never reasoned about); compared with
the `blake2` crate by the harness on test vectors and random inputs (`K.F.hash`).
-/
namespace Blake2

def sigma : Array (Array Nat) := #[
  #[0, 1, 2, 3, 4, 5, 6, 7, 8, 9, 10, 11, 12, 13, 14, 15],
  #[14, 10, 4, 8, 9, 15, 13, 6, 1, 12, 0, 2, 11, 7, 5, 3],
  #[11, 8, 12, 0, 5, 2, 15, 13, 10, 14, 3, 6, 7, 1, 9, 4],
  #[7, 9, 3, 1, 13, 12, 11, 14, 2, 6, 5, 10, 4, 0, 15, 8],
  #[9, 0, 5, 7, 2, 4, 10, 15, 14, 1, 11, 12, 6, 8, 3, 13],
  #[2, 12, 6, 10, 0, 11, 8, 3, 4, 13, 7, 5, 15, 14, 1, 9],
  #[12, 5, 1, 15, 14, 13, 4, 10, 0, 7, 6, 3, 9, 2, 8, 11],
  #[13, 11, 7, 14, 12, 1, 3, 9, 5, 0, 15, 4, 8, 6, 2, 10],
  #[6, 15, 14, 9, 11, 3, 0, 8, 12, 2, 13, 7, 1, 4, 10, 5],
  #[10, 2, 8, 4, 7, 6, 1, 5, 15, 11, 9, 14, 3, 12, 13, 0]]

/-! ### Blake2b -/

def ivB : Array UInt64 := #[
  0x6a09e667f3bcc908, 0xbb67ae8584caa73b, 0x3c6ef372fe94f82b, 0xa54ff53a5f1d36f1,
  0x510e527fade682d1, 0x9b05688c2b3e6c1f, 0x1f83d9abfb41bd6b, 0x5be0cd19137e2179]

@[inline] def rotr64 (x : UInt64) (n : UInt64) : UInt64 := (x >>> n) ||| (x <<< (64 - n))

@[inline] def gB (v : Array UInt64) (a b c d : Nat) (x y : UInt64) : Array UInt64 :=
  let va := v[a]! + v[b]! + x
  let vd := rotr64 (v[d]! ^^^ va) 32
  let vc := v[c]! + vd
  let vb := rotr64 (v[b]! ^^^ vc) 24
  let va := va + vb + y
  let vd := rotr64 (vd ^^^ va) 16
  let vc := vc + vd
  let vb := rotr64 (vb ^^^ vc) 63
  (((v.set! a va).set! b vb).set! c vc).set! d vd

def compressB (h : Array UInt64) (blk : ByteArray) (off : Nat) (t : Nat) (last : Bool) : Array UInt64 := Id.run do
  let mut m : Array UInt64 := Array.replicate 16 0
  for i in [0:16] do
    let mut w : UInt64 := 0
    for j in [0:8] do
      w := w ||| ((blk.get! (off + 8 * i + j)).toUInt64 <<< (UInt64.ofNat (8 * j)))
    m := m.set! i w
  let mut v : Array UInt64 := h ++ ivB
  v := v.set! 12 (v[12]! ^^^ UInt64.ofNat (t % 2 ^ 64))
  v := v.set! 13 (v[13]! ^^^ UInt64.ofNat (t / 2 ^ 64))
  if last then v := v.set! 14 (~~~ v[14]!)
  for r in [0:12] do
    let s := sigma[r % 10]!
    v := gB v 0 4 8 12 m[s[0]!]! m[s[1]!]!
    v := gB v 1 5 9 13 m[s[2]!]! m[s[3]!]!
    v := gB v 2 6 10 14 m[s[4]!]! m[s[5]!]!
    v := gB v 3 7 11 15 m[s[6]!]! m[s[7]!]!
    v := gB v 0 5 10 15 m[s[8]!]! m[s[9]!]!
    v := gB v 1 6 11 12 m[s[10]!]! m[s[11]!]!
    v := gB v 2 7 8 13 m[s[12]!]! m[s[13]!]!
    v := gB v 3 4 9 14 m[s[14]!]! m[s[15]!]!
  let mut out := h
  for i in [0:8] do
    out := out.set! i (h[i]! ^^^ v[i]! ^^^ v[i + 8]!)
  return out

/-- unkeyed Blake2b with `outLen` output bytes (1 ≤ outLen ≤ 64) -/
def blake2b (outLen : Nat) (msg : ByteArray) : ByteArray := Id.run do
  let mut h := ivB
  h := h.set! 0 (h[0]! ^^^ (0x01010000 ^^^ UInt64.ofNat outLen))
  let n := msg.size
  -- number of blocks: at least one; the last block is padded with zeros
  let nb := if n = 0 then 1 else (n + 127) / 128
  let mut padded := msg
  while padded.size < nb * 128 do
    padded := padded.push 0
  for i in [0:nb] do
    let last := i + 1 = nb
    let t := if last then n else (i + 1) * 128
    h := compressB h padded (128 * i) t last
  let mut out := ByteArray.empty
  for i in [0:outLen] do
    out := out.push ((h[i / 8]! >>> (UInt64.ofNat (8 * (i % 8)))).toUInt8)
  return out

/-! ### Blake2s -/

def ivS : Array UInt32 := #[
  0x6A09E667, 0xBB67AE85, 0x3C6EF372, 0xA54FF53A, 0x510E527F, 0x9B05688C, 0x1F83D9AB, 0x5BE0CD19]

@[inline] def rotr32 (x : UInt32) (n : UInt32) : UInt32 := (x >>> n) ||| (x <<< (32 - n))

@[inline] def gS (v : Array UInt32) (a b c d : Nat) (x y : UInt32) : Array UInt32 :=
  let va := v[a]! + v[b]! + x
  let vd := rotr32 (v[d]! ^^^ va) 16
  let vc := v[c]! + vd
  let vb := rotr32 (v[b]! ^^^ vc) 12
  let va := va + vb + y
  let vd := rotr32 (vd ^^^ va) 8
  let vc := vc + vd
  let vb := rotr32 (vb ^^^ vc) 7
  (((v.set! a va).set! b vb).set! c vc).set! d vd

def compressS (h : Array UInt32) (blk : ByteArray) (off : Nat) (t : Nat) (last : Bool) : Array UInt32 := Id.run do
  let mut m : Array UInt32 := Array.replicate 16 0
  for i in [0:16] do
    let mut w : UInt32 := 0
    for j in [0:4] do
      w := w ||| ((blk.get! (off + 4 * i + j)).toUInt32 <<< (UInt32.ofNat (8 * j)))
    m := m.set! i w
  let mut v : Array UInt32 := h ++ ivS
  v := v.set! 12 (v[12]! ^^^ UInt32.ofNat (t % 2 ^ 32))
  v := v.set! 13 (v[13]! ^^^ UInt32.ofNat (t / 2 ^ 32))
  if last then v := v.set! 14 (~~~ v[14]!)
  for r in [0:10] do
    let s := sigma[r]!
    v := gS v 0 4 8 12 m[s[0]!]! m[s[1]!]!
    v := gS v 1 5 9 13 m[s[2]!]! m[s[3]!]!
    v := gS v 2 6 10 14 m[s[4]!]! m[s[5]!]!
    v := gS v 3 7 11 15 m[s[6]!]! m[s[7]!]!
    v := gS v 0 5 10 15 m[s[8]!]! m[s[9]!]!
    v := gS v 1 6 11 12 m[s[10]!]! m[s[11]!]!
    v := gS v 2 7 8 13 m[s[12]!]! m[s[13]!]!
    v := gS v 3 4 9 14 m[s[14]!]! m[s[15]!]!
  let mut out := h
  for i in [0:8] do
    out := out.set! i (h[i]! ^^^ v[i]! ^^^ v[i + 8]!)
  return out

/-- unkeyed Blake2s-256 -/
def blake2s256 (msg : ByteArray) : ByteArray := Id.run do
  let mut h := ivS
  h := h.set! 0 (h[0]! ^^^ 0x01010020)
  let n := msg.size
  let nb := if n = 0 then 1 else (n + 63) / 64
  let mut padded := msg
  while padded.size < nb * 64 do
    padded := padded.push 0
  for i in [0:nb] do
    let last := i + 1 = nb
    let t := if last then n else (i + 1) * 64
    h := compressS h padded (64 * i) t last
  let mut out := ByteArray.empty
  for i in [0:32] do
    out := out.push ((h[i / 4]! >>> (UInt32.ofNat (8 * (i % 4)))).toUInt8)
  return out

def ofList (l : List UInt8) : ByteArray := ⟨l.toArray⟩

def blake2b256L (l : List UInt8) : List UInt8 := (blake2b 32 (ofList l)).toList
def blake2b512L (l : List UInt8) : List UInt8 := (blake2b 64 (ofList l)).toList
def blake2b224L (l : List UInt8) : List UInt8 := (blake2b 28 (ofList l)).toList
def blake2s256L (l : List UInt8) : List UInt8 := (blake2s256 (ofList l)).toList

end Blake2
