import MithrilModel.RegClose
import MithrilModel.StmTree
/-!
Closed key registration and aggregate verification key
(`mithril-stm/src/protocol/key_registration/register.rs::close_registration`,
`closed_registration_entry.rs` ordering, `proof_system/concatenation/aggregate_key.rs`).
A verification key is the number its 96 bytes denote big-endian: the code's byte-wise comparison of
two 96-byte strings is the order of these numbers.
-/
namespace RegModel
open RegClose

abbrev Bytes := List UInt8

def beNat (b : Bytes) : Nat := b.foldl (fun acc x => acc * 256 + x.toNat) 0

def beBytes : Nat → Nat → Bytes
  | 0, _ => []
  | len + 1, n => beBytes len (n / 256) ++ [(n % 256).toUInt8]

def u64be (n : Nat) : Bytes := beBytes 8 n

inductive Out (α : Type) where
  | ok : α → Out α
  | overflow : Out α
  | zero : Out α
  deriving Repr

/-- `KeyRegistration::close_registration`: checked sum, zero total rejected, `BTreeSet` order -/
def closeReg (l : List Entry) : Out (List Entry × Nat) :=
  let total := (l.map (·.stake)).sum
  -- `try_fold` with `checked_add` over the BTreeSet: overflow iff the full sum does not fit
  if total ≥ 2 ^ 64 then .overflow
  else if total = 0 then .zero
  else .ok (close l, total)

def leaf (e : Entry) : Bytes := beBytes 96 e.vk ++ u64be e.stake

variable (H : Bytes → Bytes)

/-- aggregate verification key = (Merkle root over the ordered leaves, number of leaves, total stake) -/
def avk (l : List Entry) : Out (Bytes × Nat × Nat) :=
  match closeReg l with
  | .ok (sorted, total) => .ok (StmTree.treeRoot H (sorted.map leaf), sorted.length, total)
  | .overflow => .overflow
  | .zero => .zero

/-- signer slot = position in the closed registration -/
def slot (l : List Entry) (e : Entry) : Option Nat :=
  let s := close l
  let i := s.findIdx (· == e)
  if i < s.length then some i else none

theorem closeReg_perm {l₁ l₂ : List Entry} (h : l₁.Perm l₂) : closeReg l₁ = closeReg l₂ := by
  unfold closeReg
  rw [total_perm h, close_perm h]

theorem avk_perm {l₁ l₂ : List Entry} (h : l₁.Perm l₂) : avk H l₁ = avk H l₂ := by
  unfold avk; rw [closeReg_perm h]

theorem slot_perm {l₁ l₂ : List Entry} (h : l₁.Perm l₂) (e : Entry) : slot l₁ e = slot l₂ e := by
  unfold slot; rw [close_perm h]

end RegModel
