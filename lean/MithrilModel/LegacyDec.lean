import MithrilModel.Decoder
/-!
Legacy (fixed-layout) byte decoders of mithril-stm, after the `fix:` commit that made the
length arithmetic of the two envelope decoders checked:
`SingleSignature::from_bytes_legacy`, `ClosedRegistrationEntry::from_bytes_legacy`,
`SingleSignatureWithRegisteredParty::from_bytes_legacy`, `MerkleBatchPath::from_bytes_legacy`,
`ConcatenationProof::from_bytes_legacy`, `AggregateSignature::from_bytes(_legacy)`.
Every `+`/`*` of the Rust code is an `addU`/`mulU` (panic on overflow, dev profile) unless the code
uses `checked_*`. Point validation (BLS) is an oracle; a nested payload starting with the CBOR
version byte `0x01` is the outcome `cbor` (ciborium is not modelled).
-/
namespace LegacyDec
open Decoder

def mulU (a b : Nat) : Outcome Nat := if a * b ≤ U64MAX then .ok (a * b) else .panic "attempt to multiply with overflow"
def mulChecked (a b : Nat) : Outcome Nat := if a * b ≤ U64MAX then .ok (a * b) else .err

theorem mulChecked_not_panic (a b : Nat) : isPanic (mulChecked a b) = false := by
  unfold mulChecked; split <;> rfl

structure Oracle where
  sigValid : Bytes → Bool     -- 48-byte compressed G1 point accepted by `BlsSignature::from_bytes`
  vkValid : Bytes → Bool      -- 96-byte compressed G2 point accepted by `BlsVerificationKey::from_bytes`

structure SingleSig where
  indexes : List Nat
  sigma : Bytes
  signerIndex : Nat
  deriving Repr, DecidableEq

structure RegEntry where
  vk : Bytes
  stake : Nat
  deriving Repr, DecidableEq

structure BatchPath where
  values : List Bytes
  indices : List Nat
  deriving Repr, DecidableEq

structure Proof where
  sigs : List (SingleSig × RegEntry)
  path : BatchPath
  deriving Repr, DecidableEq

/-- outcome of a versioned decoder: the legacy outcome, or "went to the CBOR branch" -/
inductive V (α : Type) where
  | legacy : Outcome α → V α
  | cbor : V α

def isCborPrefix (b : Bytes) : Bool := b.head? == some 1

/-! ### `SingleSignature::from_bytes_legacy` (unchecked index arithmetic inside a guarded loop) -/

/-- the index loop `for i in 0..nr { get(8 + i*8 .. 16 + i*8) }`, `k` iterations left starting at `i` -/
def idxLoop (bytes : Bytes) : Nat → Nat → Outcome (List Nat)
  | 0, _ => .ok []
  | k + 1, i =>
    (mulU i 8).bind fun i8 =>
    (addU 8 i8).bind fun lo =>
    (addU 16 i8).bind fun hi =>
    (ofOption (slice? bytes lo hi)).bind fun b =>
    (idxLoop bytes k (i + 1)).bind fun rest =>
    .ok (beU64 b :: rest)

def singleSig (O : Oracle) (bytes : Bytes) : Outcome SingleSig :=
  (ofOption (slice? bytes 0 8)).bind fun b0 =>
  let nr := beU64 b0
  (idxLoop bytes nr 0).bind fun idx =>
  (mulU nr 8).bind fun n8 =>
  (addU 8 n8).bind fun off =>
  (addU off 48).bind fun e1 =>
  (ofOption (slice? bytes off e1)).bind fun sg =>
  (if O.sigValid sg then Outcome.ok sg else .err).bind fun sg =>
  (addU off 56).bind fun e2 =>
  (ofOption (slice? bytes e1 e2)).bind fun si =>
  .ok { indexes := idx, sigma := sg, signerIndex := beU64 si }

/-! ### `ClosedRegistrationEntry::from_bytes_legacy` -/
def regEntry (O : Oracle) (bytes : Bytes) : Outcome RegEntry :=
  (ofOption (slice? bytes 0 96)).bind fun vk =>
  (if O.vkValid vk then Outcome.ok vk else .err).bind fun vk =>
  (ofOption (slice? bytes 96 104)).bind fun st =>
  .ok { vk, stake := beU64 st }

/-! ### `SingleSignatureWithRegisteredParty::from_bytes_legacy` (checked after the fix) -/
inductive Nested (α : Type) where
  | val : α → Nested α
  | cbor : Nested α

def nestedSingle (O : Oracle) (b : Bytes) : Outcome (Nested SingleSig) :=
  if isCborPrefix b then .ok .cbor else (singleSig O b).bind fun s => .ok (.val s)
def nestedReg (O : Oracle) (b : Bytes) : Outcome (Nested RegEntry) :=
  if isCborPrefix b then .ok .cbor else (regEntry O b).bind fun s => .ok (.val s)

def sigReg (O : Oracle) (bytes : Bytes) : Outcome (Nested (SingleSig × RegEntry)) :=
  (ofOption (slice? bytes 0 8)).bind fun b0 =>
  (addChecked 8 (beU64 b0)).bind fun sigOff =>
  (ofOption (slice? bytes 8 sigOff)).bind fun rb =>
  (nestedReg O rb).bind fun reg =>
  (addChecked sigOff 8).bind fun sigStart =>
  (ofOption (slice? bytes sigOff sigStart)).bind fun b1 =>
  (addChecked sigStart (beU64 b1)).bind fun sigEnd =>
  (ofOption (slice? bytes sigStart sigEnd)).bind fun sb =>
  (nestedSingle O sb).bind fun sg =>
  match reg, sg with
  | .val r, .val s => .ok (.val (s, r))
  | _, _ => .ok .cbor

/-! ### `MerkleBatchPath::from_bytes_legacy` (all arithmetic checked in the code) -/
def valLoop (bytes : Bytes) : Nat → Nat → Outcome (List Bytes)
  | 0, _ => .ok []
  | k + 1, i =>
    (mulChecked i 32).bind fun a =>
    (addChecked a 16).bind fun lo =>
    (addChecked i 1).bind fun i1 =>
    (mulChecked i1 32).bind fun b =>
    (addChecked b 16).bind fun hi =>
    (ofOption (slice? bytes lo hi)).bind fun v =>
    (valLoop bytes k (i + 1)).bind fun rest =>
    .ok (v :: rest)

def indLoop (bytes : Bytes) (off : Nat) : Nat → Nat → Outcome (List Nat)
  | 0, _ => .ok []
  | k + 1, i =>
    (mulChecked i 8).bind fun a =>
    (addChecked a off).bind fun lo =>
    (addChecked i 1).bind fun i1 =>
    (mulChecked i1 8).bind fun b =>
    (addChecked b off).bind fun hi =>
    (ofOption (slice? bytes lo hi)).bind fun v =>
    (indLoop bytes off k (i + 1)).bind fun rest =>
    .ok (beU64 v :: rest)

def batchPath (bytes : Bytes) : Outcome BatchPath :=
  (ofOption (slice? bytes 0 8)).bind fun b0 =>
  (ofOption (slice? bytes 8 16)).bind fun b1 =>
  let lenV := beU64 b0
  let lenI := beU64 b1
  (valLoop bytes lenV 0).bind fun values =>
  (mulChecked lenV 32).bind fun a =>
  (addChecked a 16).bind fun off =>
  (indLoop bytes off lenI 0).bind fun indices =>
  .ok { values, indices }

/-! ### `ConcatenationProof::from_bytes_legacy` (checked after the fix, no pre-allocation)
Each element goes through the VERSIONED `SingleSignatureWithRegisteredParty::from_bytes`: an element starting with
the CBOR version byte is the (unmodelled) CBOR branch; when that succeeds the loop goes on with the next element
at `sig_reg_end` as for a legacy element. -/
def sigRegLoop (O : Oracle) (bytes : Bytes) : Nat → Nat → Outcome (Nested (List (SingleSig × RegEntry)) × Nat)
  | 0, idx => .ok (.val [], idx)
  | k + 1, idx =>
    (addChecked idx 8).bind fun st =>
    (ofOption (slice? bytes idx st)).bind fun b =>
    (addChecked st (beU64 b)).bind fun en =>
    (ofOption (slice? bytes st en)).bind fun sb =>
    (if isCborPrefix sb then .ok .cbor else sigReg O sb).bind fun sr =>
    (sigRegLoop O bytes k en).bind fun rest =>
    match sr, rest.1 with
    | .val x, .val xs => .ok (.val (x :: xs), rest.2)
    | _, _ => .ok (.cbor, rest.2)

def proof (O : Oracle) (bytes : Bytes) : Outcome (Nested Proof) :=
  (ofOption (slice? bytes 0 8)).bind fun b0 =>
  (sigRegLoop O bytes (beU64 b0) 8).bind fun r =>
  (ofOption (slice? bytes r.2 bytes.length)).bind fun pb =>
  if isCborPrefix pb then .ok .cbor
  else (batchPath pb).bind fun p =>
    match r.1 with
    | .val sigs => .ok (.val { sigs, path := p })
    | .cbor => .ok .cbor

/-- `ConcatenationProof::from_bytes` -/
def proofVersioned (O : Oracle) (bytes : Bytes) : Outcome (Nested Proof) :=
  if isCborPrefix bytes then .ok .cbor else proof O bytes

/-- `AggregateSignature::from_bytes`: CBOR first when the prefix is 1 (falling back to legacy, where type
byte 1 is unknown without `future_snark`), else the legacy type byte 0 = concatenation -/
def aggregate (O : Oracle) (bytes : Bytes) : Outcome (Nested Proof) :=
  match bytes with
  | [] => .err
  | t :: rest =>
    if t = 1 then .ok .cbor
    else if t = 0 then proofVersioned O rest
    else .err

/-! ## totality -/

theorem bind_ok_not_panic {α β} (x : Outcome α) (f : α → Outcome β)
    (hx : isPanic x = false) (hf : ∀ a, x = .ok a → isPanic (f a) = false) : isPanic (x.bind f) = false := by
  cases x with
  | ok a => exact hf a rfl
  | err => rfl
  | panic s => simp [isPanic] at hx

theorem slice?_some_le {b : Bytes} {lo hi : Nat} {r : Bytes} (h : slice? b lo hi = some r) : hi ≤ b.length := by
  unfold slice? at h; split at h
  · rename_i hc; exact hc.2
  · simp at h

macro "total_step" : tactic =>
  `(tactic| repeat (first
    | apply isPanic_bind
    | exact isPanic_ofOption _
    | exact addChecked_not_panic _ _
    | exact mulChecked_not_panic _ _
    | intro _
    | rfl))

/-- the index loop never panics while `i*8 + 8 ≤ |bytes|` holds at entry (it does at `i = 0` once the
count field was read, and every successful slice re-establishes it) -/
theorem idxLoop_total (bytes : Bytes) (hlen : bytes.length < 2 ^ 63) :
    ∀ (k i : Nat), i * 8 + 8 ≤ bytes.length → isPanic (idxLoop bytes k i) = false := by
  intro k
  induction k with
  | zero => intro i _; rfl
  | succ k ih =>
    intro i hi
    have h8 : i * 8 ≤ U64MAX := by unfold U64MAX; omega
    have hlo : 8 + i * 8 ≤ U64MAX := by unfold U64MAX; omega
    have hhi : 16 + i * 8 ≤ U64MAX := by unfold U64MAX; omega
    simp only [idxLoop, mulU, addU, h8, hlo, hhi, if_true, Outcome.bind]
    cases hs : slice? bytes (8 + i * 8) (16 + i * 8) with
    | none => rfl
    | some b =>
      simp only [ofOption, Outcome.bind]
      have hle := slice?_some_le hs
      have := ih (i + 1) (by omega)
      cases hr : idxLoop bytes k (i + 1) with
      | ok r => rfl
      | err => rfl
      | panic s => rw [hr] at this; simp [isPanic] at this

/-- when the whole index loop succeeded, `nr*8 + 8 ≤ |bytes|` -/
theorem idxLoop_ok_bound (bytes : Bytes) (hlen : bytes.length < 2 ^ 63) :
    ∀ (k i : Nat) (r : List Nat), idxLoop bytes k i = .ok r → i * 8 + 8 ≤ bytes.length →
      (i + k) * 8 + 8 ≤ bytes.length := by
  intro k
  induction k with
  | zero => intro i r _ h; simpa using h
  | succ k ih =>
    intro i r h hi
    have h8 : i * 8 ≤ U64MAX := by unfold U64MAX; omega
    have hlo : 8 + i * 8 ≤ U64MAX := by unfold U64MAX; omega
    have hhi : 16 + i * 8 ≤ U64MAX := by unfold U64MAX; omega
    simp only [idxLoop, mulU, addU, h8, hlo, hhi, if_true, Outcome.bind] at h
    cases hs : slice? bytes (8 + i * 8) (16 + i * 8) with
    | none => simp [hs, ofOption] at h
    | some b =>
      simp only [hs, ofOption] at h
      have hle := slice?_some_le hs
      cases hr : idxLoop bytes k (i + 1) with
      | ok r' =>
        have := ih (i + 1) r' hr (by omega)
        omega
      | err => simp [hr] at h
      | panic s => simp [hr] at h

/-- **`SingleSignature::from_bytes_legacy` never panics** (inputs shorter than 2^63 bytes, as every Rust slice) -/
theorem singleSig_total (O : Oracle) (bytes : Bytes) (hlen : bytes.length < 2 ^ 63) :
    isPanic (singleSig O bytes) = false := by
  unfold singleSig
  apply bind_ok_not_panic _ _ (isPanic_ofOption _)
  intro b0 hb0
  have h8 : 8 ≤ bytes.length := by
    cases hs : slice? bytes 0 8 with
    | none => simp [hs, ofOption] at hb0
    | some r => exact slice?_some_le hs
  apply bind_ok_not_panic _ _ (idxLoop_total bytes hlen _ 0 (by omega))
  intro idx hidx
  have hb := idxLoop_ok_bound bytes hlen (beU64 b0) 0 idx hidx (by omega)
  simp only [Nat.zero_add] at hb
  have e1 : beU64 b0 * 8 ≤ U64MAX := by unfold U64MAX; omega
  have e2 : 8 + beU64 b0 * 8 ≤ U64MAX := by unfold U64MAX; omega
  have e3 : 8 + beU64 b0 * 8 + 48 ≤ U64MAX := by unfold U64MAX; omega
  have e4 : 8 + beU64 b0 * 8 + 56 ≤ U64MAX := by unfold U64MAX; omega
  simp only [mulU, addU, e1, e2, e3, e4, if_true, Outcome.bind]
  cases slice? bytes (8 + beU64 b0 * 8) (8 + beU64 b0 * 8 + 48) with
  | none => rfl
  | some sg =>
    simp only [ofOption]
    by_cases hv : O.sigValid sg = true
    · simp only [hv, if_true]
      cases slice? bytes (8 + beU64 b0 * 8 + 48) (8 + beU64 b0 * 8 + 56) <;> rfl
    · simp [hv]; rfl

theorem regEntry_total (O : Oracle) (bytes : Bytes) : isPanic (regEntry O bytes) = false := by
  unfold regEntry
  apply isPanic_bind _ _ (isPanic_ofOption _); intro vk
  apply isPanic_bind
  · split <;> rfl
  · intro _; total_step

theorem nestedSingle_total (O : Oracle) (b : Bytes) (h : b.length < 2 ^ 63) : isPanic (nestedSingle O b) = false := by
  unfold nestedSingle; split
  · rfl
  · exact isPanic_bind _ _ (singleSig_total O b h) (fun _ => rfl)

theorem nestedReg_total (O : Oracle) (b : Bytes) : isPanic (nestedReg O b) = false := by
  unfold nestedReg; split
  · rfl
  · exact isPanic_bind _ _ (regEntry_total O b) (fun _ => rfl)

theorem slice?_length_le {b : Bytes} {lo hi : Nat} {r : Bytes} (h : slice? b lo hi = some r) : r.length ≤ b.length := by
  unfold slice? at h; split at h
  · simp at h; subst h; simp; omega
  · simp at h

/-- **`SingleSignatureWithRegisteredParty::from_bytes_legacy` never panics** -/
theorem sigReg_total (O : Oracle) (bytes : Bytes) (hlen : bytes.length < 2 ^ 63) : isPanic (sigReg O bytes) = false := by
  unfold sigReg
  apply isPanic_bind _ _ (isPanic_ofOption _); intro b0
  apply isPanic_bind _ _ (addChecked_not_panic _ _); intro sigOff
  apply isPanic_bind _ _ (isPanic_ofOption _); intro rb
  apply isPanic_bind _ _ (nestedReg_total O rb); intro reg
  apply isPanic_bind _ _ (addChecked_not_panic _ _); intro sigStart
  apply isPanic_bind _ _ (isPanic_ofOption _); intro b1
  apply isPanic_bind _ _ (addChecked_not_panic _ _); intro sigEnd
  apply bind_ok_not_panic _ _ (isPanic_ofOption _); intro sb hsb
  have hl : sb.length ≤ bytes.length := by
    cases hs : slice? bytes sigStart sigEnd with
    | none => simp [hs, ofOption] at hsb
    | some r => simp [hs, ofOption] at hsb; subst hsb; exact slice?_length_le hs
  apply isPanic_bind _ _ (nestedSingle_total O sb (by omega)); intro sg
  cases reg <;> cases sg <;> rfl

theorem valLoop_total (bytes : Bytes) : ∀ k i, isPanic (valLoop bytes k i) = false := by
  intro k; induction k with
  | zero => intro i; rfl
  | succ k ih =>
    intro i; unfold valLoop
    apply isPanic_bind _ _ (mulChecked_not_panic _ _); intro _
    apply isPanic_bind _ _ (addChecked_not_panic _ _); intro _
    apply isPanic_bind _ _ (addChecked_not_panic _ _); intro _
    apply isPanic_bind _ _ (mulChecked_not_panic _ _); intro _
    apply isPanic_bind _ _ (addChecked_not_panic _ _); intro _
    apply isPanic_bind _ _ (isPanic_ofOption _); intro _
    exact isPanic_bind _ _ (ih _) (fun _ => rfl)

theorem indLoop_total (bytes : Bytes) (off : Nat) : ∀ k i, isPanic (indLoop bytes off k i) = false := by
  intro k; induction k with
  | zero => intro i; rfl
  | succ k ih =>
    intro i; unfold indLoop
    apply isPanic_bind _ _ (mulChecked_not_panic _ _); intro _
    apply isPanic_bind _ _ (addChecked_not_panic _ _); intro _
    apply isPanic_bind _ _ (addChecked_not_panic _ _); intro _
    apply isPanic_bind _ _ (mulChecked_not_panic _ _); intro _
    apply isPanic_bind _ _ (addChecked_not_panic _ _); intro _
    apply isPanic_bind _ _ (isPanic_ofOption _); intro _
    exact isPanic_bind _ _ (ih _) (fun _ => rfl)

/-- **`MerkleBatchPath::from_bytes_legacy` never panics** -/
theorem batchPath_total (bytes : Bytes) : isPanic (batchPath bytes) = false := by
  unfold batchPath
  apply isPanic_bind _ _ (isPanic_ofOption _); intro _
  apply isPanic_bind _ _ (isPanic_ofOption _); intro _
  apply isPanic_bind _ _ (valLoop_total _ _ _); intro _
  apply isPanic_bind _ _ (mulChecked_not_panic _ _); intro _
  apply isPanic_bind _ _ (addChecked_not_panic _ _); intro _
  exact isPanic_bind _ _ (indLoop_total _ _ _ _) (fun _ => rfl)

theorem sigRegLoop_total (O : Oracle) (bytes : Bytes) (hlen : bytes.length < 2 ^ 63) :
    ∀ k idx, isPanic (sigRegLoop O bytes k idx) = false := by
  intro k; induction k with
  | zero => intro idx; rfl
  | succ k ih =>
    intro idx; unfold sigRegLoop
    apply isPanic_bind _ _ (addChecked_not_panic _ _); intro st
    apply isPanic_bind _ _ (isPanic_ofOption _); intro b
    apply isPanic_bind _ _ (addChecked_not_panic _ _); intro en
    apply bind_ok_not_panic _ _ (isPanic_ofOption _); intro sb hsb
    have hl : sb.length ≤ bytes.length := by
      cases hs : slice? bytes st en with
      | none => simp [hs, ofOption] at hsb
      | some r => simp [hs, ofOption] at hsb; subst hsb; exact slice?_length_le hs
    have hel : isPanic (if isCborPrefix sb then Outcome.ok Nested.cbor else sigReg O sb) = false := by
      split
      · rfl
      · exact sigReg_total O sb (by omega)
    apply isPanic_bind _ _ hel; intro sr
    apply isPanic_bind _ _ (ih _); intro rest
    cases sr <;> cases rest.1 <;> rfl

/-- **`ConcatenationProof::from_bytes_legacy` never panics** -/
theorem proof_total (O : Oracle) (bytes : Bytes) (hlen : bytes.length < 2 ^ 63) : isPanic (proof O bytes) = false := by
  unfold proof
  apply isPanic_bind _ _ (isPanic_ofOption _); intro _
  apply isPanic_bind _ _ (sigRegLoop_total O bytes hlen _ _); intro r
  apply isPanic_bind _ _ (isPanic_ofOption _); intro pb
  split
  · rfl
  · apply isPanic_bind _ _ (batchPath_total _); intro p
    cases r.1 <;> rfl

/-- **`AggregateSignature::from_bytes` (legacy branch) never panics** -/
theorem aggregate_total (O : Oracle) (bytes : Bytes) (hlen : bytes.length < 2 ^ 63) : isPanic (aggregate O bytes) = false := by
  unfold aggregate
  cases bytes with
  | nil => rfl
  | cons t rest =>
    simp only
    split
    · rfl
    · split
      · unfold proofVersioned; split
        · rfl
        · exact proof_total O rest (by simp at hlen; omega)
      · rfl

end LegacyDec
