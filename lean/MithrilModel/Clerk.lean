namespace Clerk

structure Sig where
  sigma : Nat
  party : Nat
  signer : Nat
  idxs : List Nat
  valid : Bool
deriving DecidableEq, Repr

abbrev Key := Nat × Nat
def Sig.key (s : Sig) : Key := (s.sigma, s.party)

def lookup {α β} [DecidableEq α] (k : α) : List (α × β) → Option β
  | [] => none
  | (a, b) :: r => if a = k then some b else lookup k r

/-- insert keeping the list sorted by index (BTreeMap iteration order) -/
def insertSorted (i : Nat) (s : Sig) : List (Nat × Sig) → List (Nat × Sig)
  | [] => [(i, s)]
  | (j, t) :: r => if i < j then (i, s) :: (j, t) :: r else if i = j then (i, s) :: r else (j, t) :: insertSorted i s r

def addRemoval (k : Key) (i : Nat) : List (Key × List Nat) → List (Key × List Nat)
  | [] => [(k, [i])]
  | (a, l) :: r => if a = k then (a, l ++ [i]) :: r else (a, l) :: addRemoval k i r

structure St where
  holders : List (Nat × Sig) := []
  removal : List (Key × List Nat) := []

def stepIdx (s : Sig) (st : St) (i : Nat) : St :=
  match lookup i st.holders with
  | some prev =>
    if s.sigma < prev.sigma then
      { holders := insertSorted i s st.holders, removal := addRemoval prev.key i st.removal }
    else
      { st with removal := addRemoval s.key i st.removal }
  | none => { st with holders := insertSorted i s st.holders }

def stepSig (st : St) (s : Sig) : St :=
  if s.valid then s.idxs.foldl (stepIdx s) st else st

def phase2 (k : Nat) (removal : List (Key × List Nat)) :
    List (Nat × Sig) → List Sig → Nat → Except Nat (List Sig)
  | [], _, count => .error count
  | (_, s) :: r, acc, count =>
    if acc.any (fun t => t.key = s.key) then phase2 k removal r acc count
    else
      let rm := (lookup s.key removal).getD []
      let s' := { s with idxs := s.idxs.filter (fun i => !rm.contains i) }
      let count' := count + s'.idxs.length
      if count' ≥ k then .ok (s' :: acc) else phase2 k removal r (s' :: acc) count'

def select (k : Nat) (sigs : List Sig) : Except Nat (List Sig) :=
  let st := sigs.foldl stepSig {}
  phase2 k st.removal st.holders [] 0

/-! ### the repaired code: valid copies of one signature are merged before the arbitration -/

/-- sorted insertion without repetition (`sort_unstable` + `dedup` of the code, element by element) -/
def insIdx (i : Nat) : List Nat → List Nat
  | [] => [i]
  | j :: r => if i < j then i :: j :: r else if i = j then j :: r else j :: insIdx i r

/-- union of a sorted, repetition-free list with any list -/
def mergeIdx (a b : List Nat) : List Nat := b.foldl (fun acc i => insIdx i acc) a

/-- `valid_sigs[position]` gets the union of the indices; a first copy is pushed at the end -/
def mergeInto (s : Sig) : List Sig → List Sig
  | [] => [{ s with idxs := mergeIdx [] s.idxs }]
  | t :: r => if t.key = s.key then { t with idxs := mergeIdx t.idxs s.idxs } :: r else t :: mergeInto s r

def normStep (acc : List Sig) (s : Sig) : List Sig := if s.valid then mergeInto s acc else acc

/-- first loop of `select_valid_signatures_for_k_indices` after the `fix:` commit -/
def normalize (sigs : List Sig) : List Sig := sigs.foldl normStep []

/-- `select_valid_signatures_for_k_indices` as it is now -/
def selectMerged (k : Nat) (sigs : List Sig) : Except Nat (List Sig) := select k (normalize sigs)

def s1 : Sig := { sigma := 7, party := 0, signer := 0, idxs := [1, 4], valid := true }
def s2 : Sig := { sigma := 3, party := 1, signer := 1, idxs := [4, 5], valid := true }

#eval select 3 [s1, s2]
#eval select 2 [s1, s1]
#eval select 2 [s1]

theorem dup_counterexample :
    (∃ r, select 2 [s1] = .ok r) ∧ select 2 [s1, s1] = .error 0 := by
  constructor
  · exact ⟨_, rfl⟩
  · rfl

end Clerk
