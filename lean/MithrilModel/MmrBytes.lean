import MithrilModel.DigesterProofs
import MithrilModel.Blake2
/-!
# C12 — byte-level root injectivity for ANY two numbers of leaves

What the Rust does (`internal/mithril-merkle-tree/src/merkle_tree.rs`):
* a leaf is `MKTreeNode::from(&String)` (lines 55-77): the BYTES OF THE STRING, used raw — a leaf is not
  hashed before it is merged. For the database digest the strings are `hex::encode(sha256(file))`
  (`cardano_immutable_digester.rs:131-134`), i.e. 64 ASCII hex characters = 64 bytes;
* an inner node is `Blake2s256(left.hash ‖ right.hash)` (`impl Add for &MKTreeNode`, lines 107-117): 32 bytes;
* the root bags the peaks of the ckb MMR (`MmrBuild.root`).

So there is NO leaf/node domain separation; the only thing that separates a leaf from a node is its
LENGTH (64 vs 32). This file proves that this is enough for the builder:

* `tree_injective_bytes` — for arbitrary binary trees over `L`-byte leaves and an `N`-byte hash (`L ≠ N`):
  equal values ⇒ equal trees, or an explicit collision between two byte strings that WERE HASHED in the
  two evaluations, or an explicit *straddle*: a leaf `a` of one tree and a leaf `b` of the other with
  `a ++ H x = H y ++ b` (`x`, `y` hashed in the evaluations). For `L = 64`, `N = 32` the straddle says that
  the Blake2s output `H y` is the first half of the hex digest `a`: 32 ASCII hex characters
  (`straddle_hex_half`).
* `mmr_good` — the trees the MMR builder makes never have a (node, leaf) pair of children, hence
* `root_injective_bytes_any` — for the MMR builder the straddle cannot occur: two leaf lists OF ANY TWO
  LENGTHS with the same root are equal, or two different byte strings hashed during the two root
  computations have the same hash. The witnesses are members of `hashInputs`, which is exactly the log of
  an instrumented run of the builder (`rootLog_eq`): the disjunct is not the (classically trivial)
  statement that a hash with fixed output length has some collision somewhere.
* `variable_length_counterexample`, `node_length_leaf_counterexample` — without the length hypotheses
  the statement is false for EVERY hash function (root cause of the known findings C09-concat-split and
  C09-node-as-leaf; not reachable for the database digest, whose leaves are always 64 bytes).
-/
namespace MmrBytes
open ExprTree MmrBuild

abbrev Bytes := List UInt8

variable {α : Type}

def isLeaf : E α → Bool
  | .leaf _ => true
  | .node _ _ => false

/-- no node has a node as left child together with a leaf as right child -/
def Good : E α → Prop
  | .leaf _ => True
  | .node l r => Good l ∧ Good r ∧ (isLeaf r = true → isLeaf l = true)

/-! ## the trees of the MMR builder are `Good` -/

def PeakOk (p : Nat × E α) : Prop := Good p.2 ∧ (isLeaf p.2 = true ↔ p.1 = 0)

/-- peaks newest first: strictly increasing heights -/
def Inv (l : List (Nat × E α)) : Prop := (∀ p ∈ l, PeakOk p) ∧ l.Pairwise (fun p q => p.1 < q.1)

/-- the state inside `mergeTail`: the head may have the height of its successor -/
def WeakInv : List (Nat × E α) → Prop
  | [] => True
  | p :: rest => PeakOk p ∧ (∀ q ∈ rest, p.1 ≤ q.1) ∧ Inv rest

theorem mergeTail_inv (l : List (Nat × E α)) (h : WeakInv l) : Inv (mergeTail E.node l) := by
  fun_induction mergeTail E.node l with
  | case1 a h1 b rest ih =>
    apply ih
    obtain ⟨pa, _, ⟨pall, ppw⟩⟩ := h
    have pb : PeakOk (h1, b) := pall _ (by simp)
    rw [List.pairwise_cons] at ppw
    refine ⟨⟨⟨pb.1, pa.1, ?_⟩, ?_⟩, ?_, ⟨fun p hp => pall p (by simp [hp]), ppw.2⟩⟩
    · intro ha; exact pb.2.mpr (pa.2.mp ha)
    · simp [isLeaf]
    · intro q hq; exact ppw.1 q hq
  | case2 h1 a h2 b rest hne =>
    obtain ⟨pa, hle, ⟨pall, ppw⟩⟩ := h
    refine ⟨?_, ?_⟩
    · intro p hp
      rcases List.mem_cons.mp hp with rfl | hp
      · exact pa
      · exact pall p hp
    · rw [List.pairwise_cons]
      refine ⟨?_, ppw⟩
      intro q hq
      have h12 : h1 < h2 := by
        have := hle (h2, b) (by simp)
        simp only at this
        omega
      rcases List.mem_cons.mp hq with rfl | hq
      · exact h12
      · rw [List.pairwise_cons] at ppw
        have := ppw.1 q hq
        simp only at this ⊢
        omega
  | case3 l hl =>
    match l, hl, h with
    | [], _, _ => exact ⟨by simp, List.Pairwise.nil⟩
    | [x], _, h => exact ⟨by intro p hp; simp at hp; subst hp; exact h.1, by simp⟩
    | x :: y :: r, hl, _ => exact absurd rfl (hl _ _ _ _ _)

theorem push_inv (acc : List (Nat × E α)) (x : α) (h : Inv acc) : Inv (push E.node acc (E.leaf x)) := by
  unfold push
  apply mergeTail_inv
  exact ⟨⟨trivial, by simp [isLeaf]⟩, fun q _ => Nat.zero_le _, h⟩

theorem peaksOf_inv (ls : List α) (acc : List (Nat × E α)) (h : Inv acc) :
    Inv ((ls.map E.leaf).foldl (push E.node) acc) := by
  induction ls generalizing acc with
  | nil => exact h
  | cons x xs ih => exact ih _ (push_inv acc x h)

theorem bag_good (l : List (Nat × E α)) (h : Inv l) (t : E α) (ht : bag E.node l = some t) : Good t := by
  cases l with
  | nil => simp [bag] at ht
  | cons p rest =>
    obtain ⟨hh, a⟩ := p
    simp only [bag, Option.some.injEq] at ht
    subst ht
    obtain ⟨pall, ppw⟩ := h
    rw [List.pairwise_cons] at ppw
    have ga : Good a := (pall (hh, a) (by simp)).1
    have hrest : ∀ q ∈ rest, Good q.2 ∧ isLeaf q.2 = false := by
      intro q hq
      have pq := pall q (by simp [hq])
      have : hh < q.1 := ppw.1 q hq
      refine ⟨pq.1, ?_⟩
      cases hl : isLeaf q.2 with
      | false => rfl
      | true => have := pq.2.mp hl; omega
    clear ppw pall
    induction rest generalizing a with
    | nil => exact ga
    | cons q qs ih =>
      simp only [List.foldl_cons]
      apply ih
      · have := hrest q (by simp)
        exact ⟨ga, this.1, by rw [this.2]; intro h; cases h⟩
      · intro q' hq'; exact hrest q' (by simp [hq'])

/-- **shape of the builder's tree**: never a (node, leaf) pair of children -/
theorem mmr_good (ls : List α) (t : E α) (h : root E.node (ls.map E.leaf) = some t) : Good t := by
  apply bag_good _ _ t h
  exact peaksOf_inv ls [] ⟨by simp, List.Pairwise.nil⟩

/-! ## values of trees over byte strings -/

variable (H : Bytes → Bytes)

/-- the value of a tree: `Digester.merge H a b = H (a ++ b)` at every node, leaves raw -/
abbrev value (t : E Bytes) : Bytes := eval (Digester.merge H) t

/-- every byte string that is given to the hash while the tree is evaluated -/
def inputs : E Bytes → List Bytes
  | .leaf _ => []
  | .node l r => (value H l ++ value H r) :: (inputs l ++ inputs r)

/-- an explicit collision between something hashed for `t` and something hashed for `t'` -/
def CollisionIn (xs ys : List Bytes) : Prop := ∃ x ∈ xs, ∃ y ∈ ys, x ≠ y ∧ H x = H y

/-- an explicit straddle: a leaf followed by a node hash equals a node hash followed by a leaf -/
def StraddleIn (as xs bs ys : List Bytes) : Prop :=
  ∃ a ∈ as, ∃ x ∈ xs, ∃ b ∈ bs, ∃ y ∈ ys, a ++ H x = H y ++ b

theorem CollisionIn.mono {xs xs' ys ys' : List Bytes} (h : CollisionIn H xs ys)
    (hx : ∀ x ∈ xs, x ∈ xs') (hy : ∀ y ∈ ys, y ∈ ys') : CollisionIn H xs' ys' := by
  obtain ⟨x, mx, y, my, hne, he⟩ := h
  exact ⟨x, hx x mx, y, hy y my, hne, he⟩

theorem CollisionIn.symm {xs ys : List Bytes} (h : CollisionIn H xs ys) : CollisionIn H ys xs := by
  obtain ⟨x, mx, y, my, hne, he⟩ := h
  exact ⟨y, my, x, mx, fun e => hne e.symm, he.symm⟩

theorem StraddleIn.mono {as as' xs xs' bs bs' ys ys' : List Bytes} (h : StraddleIn H as xs bs ys)
    (ha : ∀ x ∈ as, x ∈ as') (hx : ∀ x ∈ xs, x ∈ xs') (hb : ∀ x ∈ bs, x ∈ bs') (hy : ∀ y ∈ ys, y ∈ ys') :
    StraddleIn H as' xs' bs' ys' := by
  obtain ⟨a, ma, x, mx, b, mb, y, my, he⟩ := h
  exact ⟨a, ha a ma, x, hx x mx, b, hb b mb, y, hy y my, he⟩

theorem value_node (t : E Bytes) (h : isLeaf t = false) : ∃ x, x ∈ inputs H t ∧ value H t = H x := by
  cases t with
  | leaf a => simp [isLeaf] at h
  | node l r => exact ⟨_, by simp [inputs], rfl⟩

theorem value_leaf (t : E Bytes) (h : isLeaf t = true) : ∃ a, a ∈ leaves t ∧ value H t = a := by
  cases t with
  | leaf a => exact ⟨a, by simp [leaves], rfl⟩
  | node l r => simp [isLeaf] at h

section sized
variable (L N : Nat) (hH : ∀ x, (H x).length = N)
include hH

theorem value_length (t : E Bytes) (hl : ∀ a ∈ leaves t, a.length = L) :
    (value H t).length = if isLeaf t = true then L else N := by
  cases t with
  | leaf a => simpa [isLeaf, value, eval] using hl a (by simp [leaves])
  | node l r => simp [isLeaf, value, eval, Digester.merge, hH]

/-- the three ways two node pre-images can be equal -/
theorem node_cases (hLN : L ≠ N) (l r l' r' : E Bytes)
    (hl : ∀ a ∈ leaves l, a.length = L) (hr : ∀ a ∈ leaves r, a.length = L)
    (hl' : ∀ a ∈ leaves l', a.length = L) (hr' : ∀ a ∈ leaves r', a.length = L)
    (h : value H l ++ value H r = value H l' ++ value H r') :
    (value H l = value H l' ∧ value H r = value H r') ∨
    (isLeaf l = true ∧ isLeaf r = false ∧ isLeaf l' = false ∧ isLeaf r' = true) ∨
    (isLeaf l = false ∧ isLeaf r = true ∧ isLeaf l' = true ∧ isLeaf r' = false) := by
  have e1 := value_length H L N hH l hl
  have e2 := value_length H L N hH r hr
  have e3 := value_length H L N hH l' hl'
  have e4 := value_length H L N hH r' hr'
  have hlen := congrArg List.length h
  have hne : L ≠ N := hLN
  simp only [List.length_append] at hlen
  by_cases hsame : (value H l).length = (value H l').length
  · exact Or.inl (List.append_inj h hsame)
  · right
    cases c1 : isLeaf l <;> cases c2 : isLeaf r <;> cases c3 : isLeaf l' <;> cases c4 : isLeaf r' <;>
      simp only [c1, c2, c3, c4, if_true, Bool.false_eq_true, if_false] at e1 e2 e3 e4 <;>
      first
        | (exfalso; omega)
        | exact Or.inl ⟨rfl, rfl, rfl, rfl⟩
        | exact Or.inr ⟨rfl, rfl, rfl, rfl⟩

/-- **any two binary trees over raw `L`-byte leaves** with the same value are equal, or the proof
hands out a collision among the hashed strings, or a straddle -/
theorem tree_injective_bytes (hLN : L ≠ N) : ∀ (t t' : E Bytes),
    (∀ a ∈ leaves t, a.length = L) → (∀ a ∈ leaves t', a.length = L) → value H t = value H t' →
    t = t' ∨ CollisionIn H (inputs H t) (inputs H t') ∨
      StraddleIn H (leaves t) (inputs H t) (leaves t') (inputs H t') ∨
      StraddleIn H (leaves t') (inputs H t') (leaves t) (inputs H t) := by
  intro t
  induction t with
  | leaf a =>
    intro t' hl hl' h
    cases t' with
    | leaf b => left; simpa [value, eval] using h
    | node l' r' =>
      exfalso
      have := congrArg List.length h
      simp only [value, eval, Digester.merge, hH] at this
      exact hLN (by rw [← this]; exact (hl a (by simp [leaves])).symm)
  | node l r ihl ihr =>
    intro t' hl hl' h
    cases t' with
    | leaf b =>
      exfalso
      have := congrArg List.length h
      simp only [value, eval, Digester.merge, hH] at this
      exact hLN (by rw [this]; exact (hl' b (by simp [leaves])).symm)
    | node l' r' =>
      have hll : ∀ a ∈ leaves l, a.length = L := fun a ha => hl a (by simp [leaves, ha])
      have hlr : ∀ a ∈ leaves r, a.length = L := fun a ha => hl a (by simp [leaves, ha])
      have hll' : ∀ a ∈ leaves l', a.length = L := fun a ha => hl' a (by simp [leaves, ha])
      have hlr' : ∀ a ∈ leaves r', a.length = L := fun a ha => hl' a (by simp [leaves, ha])
      by_cases hx : value H l ++ value H r = value H l' ++ value H r'
      · rcases node_cases H L N hH hLN l r l' r' hll hlr hll' hlr' hx with ⟨h1, h2⟩ | ⟨c1, c2, c3, c4⟩ | ⟨c1, c2, c3, c4⟩
        · rcases ihl l' hll hll' h1 with e1 | k1 | s1 | s1
          · rcases ihr r' hlr hlr' h2 with e2 | k2 | s2 | s2
            · left; rw [e1, e2]
            · right; left
              exact k2.mono H (fun x hx => by simp [inputs, hx]) (fun x hx => by simp [inputs, hx])
            · right; right; left
              exact s2.mono H (fun x hx => by simp [leaves, hx]) (fun x hx => by simp [inputs, hx])
                (fun x hx => by simp [leaves, hx]) (fun x hx => by simp [inputs, hx])
            · right; right; right
              exact s2.mono H (fun x hx => by simp [leaves, hx]) (fun x hx => by simp [inputs, hx])
                (fun x hx => by simp [leaves, hx]) (fun x hx => by simp [inputs, hx])
          · right; left
            exact k1.mono H (fun x hx => by simp [inputs, hx]) (fun x hx => by simp [inputs, hx])
          · right; right; left
            exact s1.mono H (fun x hx => by simp [leaves, hx]) (fun x hx => by simp [inputs, hx])
              (fun x hx => by simp [leaves, hx]) (fun x hx => by simp [inputs, hx])
          · right; right; right
            exact s1.mono H (fun x hx => by simp [leaves, hx]) (fun x hx => by simp [inputs, hx])
              (fun x hx => by simp [leaves, hx]) (fun x hx => by simp [inputs, hx])
        · -- (leaf a, node) against (node, leaf b)
          right; right; left
          obtain ⟨a, ma, ea⟩ := value_leaf H l c1
          obtain ⟨x, mx, ex⟩ := value_node H r c2
          obtain ⟨y, my, ey⟩ := value_node H l' c3
          obtain ⟨b, mb, eb⟩ := value_leaf H r' c4
          refine ⟨a, by simp [leaves, ma], x, by simp [inputs, mx], b, by simp [leaves, mb], y, by simp [inputs, my], ?_⟩
          rw [← ea, ← ex, ← ey, ← eb]; exact hx
        · right; right; right
          obtain ⟨y, my, ey⟩ := value_node H l c1
          obtain ⟨b, mb, eb⟩ := value_leaf H r c2
          obtain ⟨a, ma, ea⟩ := value_leaf H l' c3
          obtain ⟨x, mx, ex⟩ := value_node H r' c4
          refine ⟨a, by simp [leaves, ma], x, by simp [inputs, mx], b, by simp [leaves, mb], y, by simp [inputs, my], ?_⟩
          rw [← ea, ← ex, ← ey, ← eb]; exact hx.symm
      · right; left
        exact ⟨_, by simp [inputs], _, by simp [inputs], hx, h⟩

/-- non-vacuity of `tree_injective_bytes`, and the straddle is a real case for general shapes: with the
1-byte "hash" `x ↦ [first byte of x]` over 2-byte leaves the trees `(a, (c, d))` and `((e, f), b)` have the
same value without being equal — `a ++ H (c ++ d) = H (e ++ f) ++ b` -/
example :
    let H : Bytes → Bytes := fun x => [x.headD 0]
    let t : E Bytes := .node (.leaf [1, 2]) (.node (.leaf [3, 4]) (.leaf [5, 6]))
    let t' : E Bytes := .node (.node (.leaf [1, 9]) (.leaf [7, 8])) (.leaf [2, 3])
    (2 ≠ 1) ∧ (∀ x, (H x).length = 1) ∧ (∀ a ∈ leaves t, a.length = 2) ∧ (∀ a ∈ leaves t', a.length = 2) ∧
    value H t = value H t' ∧ t ≠ t' ∧ ([1, 2] : Bytes) ++ H [3, 4, 5, 6] = H [1, 9, 7, 8] ++ [2, 3] ∧
    ¬ Good t' := by
  refine ⟨by decide, fun _ => rfl, by decide, by decide, by decide, by simp, by decide, ?_⟩
  simp [Good, isLeaf]

/-- for `Good` trees (the MMR builder's) the straddle cannot occur -/
theorem good_tree_injective_bytes (hLN : L ≠ N) : ∀ (t t' : E Bytes), Good t → Good t' →
    (∀ a ∈ leaves t, a.length = L) → (∀ a ∈ leaves t', a.length = L) → value H t = value H t' →
    t = t' ∨ CollisionIn H (inputs H t) (inputs H t') := by
  intro t
  induction t with
  | leaf a =>
    intro t' _ _ hl hl' h
    cases t' with
    | leaf b => left; simpa [value, eval] using h
    | node l' r' =>
      exfalso
      have := congrArg List.length h
      simp only [value, eval, Digester.merge, hH] at this
      exact hLN (by rw [← this]; exact (hl a (by simp [leaves])).symm)
  | node l r ihl ihr =>
    intro t' g g' hl hl' h
    cases t' with
    | leaf b =>
      exfalso
      have := congrArg List.length h
      simp only [value, eval, Digester.merge, hH] at this
      exact hLN (by rw [this]; exact (hl' b (by simp [leaves])).symm)
    | node l' r' =>
      have hll : ∀ a ∈ leaves l, a.length = L := fun a ha => hl a (by simp [leaves, ha])
      have hlr : ∀ a ∈ leaves r, a.length = L := fun a ha => hl a (by simp [leaves, ha])
      have hll' : ∀ a ∈ leaves l', a.length = L := fun a ha => hl' a (by simp [leaves, ha])
      have hlr' : ∀ a ∈ leaves r', a.length = L := fun a ha => hl' a (by simp [leaves, ha])
      by_cases hx : value H l ++ value H r = value H l' ++ value H r'
      · rcases node_cases H L N hH hLN l r l' r' hll hlr hll' hlr' hx with ⟨h1, h2⟩ | ⟨_, _, c3, c4⟩ | ⟨c1, c2, _, _⟩
        · rcases ihl l' g.1 g'.1 hll hll' h1 with e1 | k1
          · rcases ihr r' g.2.1 g'.2.1 hlr hlr' h2 with e2 | k2
            · left; rw [e1, e2]
            · right
              exact k2.mono H (fun x hx => by simp [inputs, hx]) (fun x hx => by simp [inputs, hx])
          · right
            exact k1.mono H (fun x hx => by simp [inputs, hx]) (fun x hx => by simp [inputs, hx])
        · have := g'.2.2 c4; rw [c3] at this; cases this
        · have := g.2.2 c2; rw [c1] at this; cases this
      · right
        exact ⟨_, by simp [inputs], _, by simp [inputs], hx, h⟩

end sized

/-! ## the MMR builder -/

/-- every byte string hashed while the builder computes the root of `ls` -/
def hashInputs (ls : List Bytes) : List Bytes :=
  match root E.node (ls.map E.leaf) with
  | some t => inputs H t
  | none => []

/-- the builder run on (value, log) pairs: each merge hashes `a ++ b` and records it -/
def mergeLog (p q : Bytes × List Bytes) : Bytes × List Bytes := (H (p.1 ++ q.1), (p.1 ++ q.1) :: (p.2 ++ q.2))

/-- `hashInputs` IS the log of the instrumented builder, and its value the root -/
theorem rootLog_eq (ls : List Bytes) :
    root (mergeLog H) (ls.map fun a => (a, [])) =
      (root (Digester.merge H) ls).map fun r => (r, hashInputs H ls) := by
  have e := root_map (E.node (α := Bytes)) (mergeLog H) (fun t => (value H t, inputs H t)) (fun _ _ => rfl)
    (ls.map E.leaf)
  have e2 : (ls.map E.leaf).map (fun t => (value H t, inputs H t)) = ls.map fun a => (a, []) := by
    simp [List.map_map, Function.comp_def, value, eval, inputs]
  rw [e2] at e
  rw [e, eval_leafmap (Digester.merge H) ls]
  unfold hashInputs
  cases root E.node (ls.map E.leaf) <;> rfl

/-- **Byte-level root injectivity, any two numbers of leaves.** Leaves are raw `L`-byte strings, the hash
has `N ≠ L` output bytes: two leaf lists with the same root are equal, or two DIFFERENT byte strings
that were hashed during the two root computations have the same hash. -/
theorem root_injective_bytes_any (L N : Nat) (hLN : L ≠ N) (hH : ∀ x, (H x).length = N)
    (ls ls' : List Bytes) (hl : ∀ a ∈ ls, a.length = L) (hl' : ∀ a ∈ ls', a.length = L)
    (r : Bytes) (h : root (Digester.merge H) ls = some r) (h' : root (Digester.merge H) ls' = some r) :
    ls = ls' ∨ CollisionIn H (hashInputs H ls) (hashInputs H ls') := by
  rw [eval_leafmap] at h h'
  unfold hashInputs
  cases hT : root E.node (ls.map E.leaf) with
  | none => rw [hT] at h; simp at h
  | some t =>
    cases hT' : root E.node (ls'.map E.leaf) with
    | none => rw [hT'] at h'; simp at h'
    | some t' =>
      rw [hT] at h; rw [hT'] at h'
      simp only [Option.map_some, Option.some.injEq] at h h'
      have hp := root_leaves_perm ls t hT
      have hp' := root_leaves_perm ls' t' hT'
      rcases good_tree_injective_bytes H L N hH hLN t t' (mmr_good ls t hT) (mmr_good ls' t' hT')
        (fun a ha => hl a (hp.mem_iff.mp ha)) (fun a ha => hl' a (hp'.mem_iff.mp ha)) (h.trans h'.symm) with e | k
      · subst e
        exact Or.inl (symbolic_inj ls ls' t hT hT')
      · exact Or.inr k

/-- non-vacuity of `root_injective_bytes_any`: a constant 1-byte "hash", 2-byte leaves, two different
lists (of different lengths) with the same root: the hypotheses hold, the conclusion is the collision -/
example :
    let H : Bytes → Bytes := fun _ => [0]
    (2 ≠ 1) ∧ (∀ x, (H x).length = 1) ∧ (∀ a ∈ ([[1, 2], [3, 4]] : List Bytes), a.length = 2) ∧
    (∀ a ∈ ([[5, 6], [7, 8], [9, 9]] : List Bytes), a.length = 2) ∧
    root (Digester.merge H) [[1, 2], [3, 4]] = some [0] ∧ root (Digester.merge H) [[5, 6], [7, 8], [9, 9]] = some [0] ∧
    hashInputs H [[1, 2], [3, 4]] = [[1, 2, 3, 4]] ∧ hashInputs H [[5, 6], [7, 8], [9, 9]] = [[9, 9, 0], [5, 6, 7, 8]] := by
  refine ⟨by decide, fun _ => rfl, by decide, by decide, ?_, ?_, ?_, ?_⟩ <;>
    simp [hashInputs, root, peaksOf, push, mergeTail, bag, inputs, value, eval, Digester.merge]

/-! ## hex digests: what the straddle means for 64-byte hex leaves and a 32-byte hash -/

/-- lower-case ASCII hex digit (`hex::encode`) -/
def isHexByte (c : UInt8) : Bool := (48 ≤ c && c ≤ 57) || (97 ≤ c && c ≤ 102)

/-- a hex encoded SHA-256 value: 64 ASCII hex characters -/
def IsHexDigest (a : Bytes) : Prop := a.length = 64 ∧ ∀ c ∈ a, isHexByte c = true

/-- in a straddle over hex digests the hash output `H y` is the first half of the digest `a`, hence 32
ASCII hex characters, and `H x` is the second half of the digest `b` -/
theorem straddle_hex_half (hH : ∀ x, (H x).length = 32) (a b x y : Bytes)
    (ha : IsHexDigest a) (hb : IsHexDigest b) (h : a ++ H x = H y ++ b) :
    H y = a.take 32 ∧ H x = b.drop 32 ∧ (∀ c ∈ H y, isHexByte c = true) ∧ (∀ c ∈ H x, isHexByte c = true) := by
  have e1 : H y = a.take 32 := by
    have := congrArg (List.take 32) h
    rw [List.take_append_of_le_length (by rw [ha.1]; omega), List.take_append_of_le_length (Nat.le_of_eq (hH y).symm)] at this
    rw [this, List.take_of_length_le (by rw [hH]; omega)]
  have e2 : H x = b.drop 32 := by
    have := congrArg (List.drop 64) h
    rw [List.drop_append_of_le_length (by rw [ha.1]; omega), List.drop_of_length_le (by rw [ha.1]; omega),
      List.nil_append, List.drop_append, hH, List.drop_of_length_le (by rw [hH]; omega)] at this
    simpa using this
  refine ⟨e1, e2, ?_, ?_⟩
  · intro c hc; rw [e1] at hc; exact ha.2 c (List.mem_of_mem_take hc)
  · intro c hc; rw [e2] at hc; exact hb.2 c (List.mem_of_mem_drop hc)

/-! ## the length hypotheses are necessary (for every hash function) -/

/-- raw leaves of different lengths: the split of a concatenation is not bound (root cause of the known
finding C09-concat-split) -/
theorem variable_length_counterexample :
    root (Digester.merge H) [[1, 2], [3]] = root (Digester.merge H) [[1], [2, 3]] ∧
    ([[1, 2], [3]] : List Bytes) ≠ [[1], [2, 3]] := by
  refine ⟨?_, by decide⟩
  simp [root, peaksOf, push, mergeTail, bag, Digester.merge]

/-- a leaf as long as a node value: an inner node can stand for its two leaves (root cause of the known
finding C09-node-as-leaf) -/
theorem node_length_leaf_counterexample (a b : Bytes) :
    root (Digester.merge H) [H (a ++ b)] = root (Digester.merge H) [a, b] ∧
    [H (a ++ b)] ≠ [a, b] := by
  refine ⟨?_, by simp⟩
  simp [root, peaksOf, push, mergeTail, bag, Digester.merge]

/-! ## the concrete hash of the driver: the Lean Blake2s-256 has 32 output bytes -/

theorem toList_loop_length (bs : ByteArray) (i : Nat) (r : List UInt8) :
    (ByteArray.toList.loop bs i r).length = r.length + (bs.size - i) := by
  fun_induction ByteArray.toList.loop bs i r with
  | case1 i r h ih => rw [ih]; simp; omega
  | case2 i r h => simp; omega

theorem toList_length (bs : ByteArray) : bs.toList.length = bs.size := by
  simp [ByteArray.toList, toList_loop_length]

theorem blake2s256_size (msg : ByteArray) : (Blake2.blake2s256 msg).size = 32 := by
  unfold Blake2.blake2s256
  simp [Std.Legacy.Range.forIn_eq_forIn_range', Std.Legacy.Range.size, List.range', ByteArray.size_push]

/-- the output length hypothesis holds for the hash the driver runs (`Handlers.C12.b2s`) -/
theorem blake2s256L_length (l : List UInt8) : (Blake2.blake2s256L l).length = 32 := by
  simp [Blake2.blake2s256L, toList_length, blake2s256_size]

/-- **the same for the Lean Blake2s-256 itself** (validated against the `blake2` crate by the C12
harness): no hypothesis about the hash is left -/
theorem root_injective_blake2s (ls ls' : List Bytes) (hl : ∀ a ∈ ls, a.length = 64) (hl' : ∀ a ∈ ls', a.length = 64)
    (r : Bytes) (h : root (Digester.merge Blake2.blake2s256L) ls = some r)
    (h' : root (Digester.merge Blake2.blake2s256L) ls' = some r) :
    ls = ls' ∨ CollisionIn Blake2.blake2s256L (hashInputs Blake2.blake2s256L ls) (hashInputs Blake2.blake2s256L ls') :=
  root_injective_bytes_any Blake2.blake2s256L 64 32 (by decide) blake2s256L_length ls ls' hl hl' r h h'

/-- non-vacuity of `root_injective_blake2s`: two 64-byte leaves have a root -/
example : ∃ r, root (Digester.merge Blake2.blake2s256L) [List.replicate 64 48, List.replicate 64 49] = some r ∧
    ∀ a ∈ ([List.replicate 64 48, List.replicate 64 49] : List Bytes), a.length = 64 := by
  refine ⟨_, by simp [root, peaksOf, push, mergeTail, bag]; rfl, by simp⟩

/-- a collision among the hashed strings is in particular a collision of the hash -/
theorem CollisionIn.collision {xs ys : List Bytes} (h : CollisionIn H xs ys) : Digester.Collision H := by
  obtain ⟨x, _, y, _, hne, he⟩ := h
  exact ⟨x, y, hne, he⟩

#print axioms root_injective_blake2s
#print axioms root_injective_bytes_any
#print axioms tree_injective_bytes
#print axioms straddle_hex_half
#print axioms rootLog_eq
end MmrBytes
