import MithrilModel.RegModel
/-!
C06, node level: `SignerBuilder::new(signers, params)` (mithril-common/src/protocol/signer_builder.rs) as all
three nodes call it — the aggregator's epoch service, the signer's `MithrilSingleSigner`, the client's
`MessageBuilder::compute_mithril_stake_distribution_message`.

* the stake distribution is `HashMap::from_iter` of the listed `(party_id, stake)` pairs: for a party listed
  twice the LAST stake wins;
* every listed signer is registered in list order (`KeyRegWrapper::register`): the stake is looked up under the
  identity the registration derives (`pool`: the pool id of the operational certificate, or the listed party id
  when the build skips certification) — absent: `PartyIdNonExisting`; a key registered before: `EntryAlreadyRegistered`;
* `close_registration` (`RegModel.closeReg`): checked sum, zero total rejected, `BTreeSet` order;
* the aggregate key is `RegModel.avk`'s triple; a party's slot is the position of its (stake, key) entry.

KES / proof-of-possession verdicts are C07's subject and are not part of this model: the harnesses only pass keys
and certificates that verify.
-/
namespace RegPaths
open RegClose RegModel

structure Signer where
  party : Nat     -- `SignerWithStake::party_id` (an identifier chosen by the harness)
  pool : Nat      -- the identity the registration derives for this entry (honest lists: `= party`)
  vk : Nat        -- verification key: its 96 bytes read big-endian
  stake : Nat
deriving DecidableEq, Repr

inductive BuildErr where
  | empty          -- `SignerBuilderError::EmptySigners`
  | unknownParty   -- `PartyIdNonExisting`
  | dupKey         -- `RegisterError::EntryAlreadyRegistered`
  | overflow       -- `close_registration`: total stake does not fit 64 bits
  | zero           -- `close_registration`: total stake 0
deriving DecidableEq, Repr

/-- `HashMap::from_iter(stake_dist)`: a later entry of the same party replaces an earlier one -/
def stakeOf : List Signer → Nat → Option Nat
  | [], _ => none
  | s :: r, p =>
    match stakeOf r p with
    | some x => some x
    | none => if s.party = p then some s.stake else none

/-- the registration loop of `SignerBuilder::new`, `acc` = entries registered so far -/
def regLoop (sd : Nat → Option Nat) : List Signer → List Entry → Except BuildErr (List Entry)
  | [], acc => .ok acc
  | s :: r, acc =>
    match sd s.pool with
    | none => .error .unknownParty
    | some st =>
      if acc.any (fun e => e.vk == s.vk) then .error .dupKey
      else regLoop sd r (⟨st, s.vk⟩ :: acc)

/-- what a successful `SignerBuilder::new` holds: the closed registration in slot order and its total stake -/
structure Built where
  reg : List Entry
  total : Nat
deriving DecidableEq, Repr

instance : DecidableEq (Except BuildErr Built) := fun a b =>
  match a, b with
  | .ok x, .ok y => if h : x = y then isTrue (by rw [h]) else isFalse (fun e => h (Except.ok.inj e))
  | .error x, .error y => if h : x = y then isTrue (by rw [h]) else isFalse (fun e => h (Except.error.inj e))
  | .ok _, .error _ => isFalse (fun e => by cases e)
  | .error _, .ok _ => isFalse (fun e => by cases e)

def ofClose : Out (List Entry × Nat) → Except BuildErr Built
  | .ok (sorted, total) => .ok ⟨sorted, total⟩
  | .overflow => .error .overflow
  | .zero => .error .zero

/-- `SignerBuilder::new` -/
def build (l : List Signer) : Except BuildErr Built :=
  if l.isEmpty then .error .empty
  else match regLoop (stakeOf l) l [] with
    | .error e => .error e
    | .ok es => ofClose (closeReg es)

variable (H : Bytes → Bytes)

/-- `compute_aggregate_verification_key` of the builder / of the multi-signer built from it:
(Merkle root over the ordered leaves, number of leaves, total stake) -/
def Built.key (b : Built) : Bytes × Nat × Nat := (StmTree.treeRoot H (b.reg.map leaf), b.reg.length, b.total)

/-- slot (Merkle-tree index, `signer_index` of a single signature) of the entry (stake, key) -/
def Built.slot (b : Built) (e : Entry) : Option Nat :=
  let i := b.reg.findIdx (· == e)
  if i < b.reg.length then some i else none

def Signer.entry (s : Signer) : Entry := ⟨s.stake, s.vk⟩

/-- the JSON text of the concatenation aggregate key (`serde_json::to_string`), as the client puts it — hex encoded —
into the `NextAggregateVerificationKey` part of the message it recomputes -/
def keyJson (k : Bytes × Nat × Nat) : String :=
  "{\"mt_commitment\":{\"root\":[" ++ String.intercalate "," (k.1.map fun b => toString b.toNat) ++
  "],\"nr_leaves\":" ++ toString k.2.1 ++ ",\"hasher\":null},\"total_stake\":" ++ toString k.2.2 ++ "}"

/-- the signer's path (mithril-signer `MithrilEpochService::associate_signers_with_stake` + `MithrilSingleSigner`):
the stakes come from the signer's own stake store, by party id, in list order; a listed party without a stake is an
error before anything is built -/
def associate (stakes : List (Nat × Nat)) : List (Nat × Nat × Nat) → Option (List Signer)
  | [] => some []
  | (party, pool, vk) :: r =>
    match (stakes.find? (·.1 == party)).map (·.2), associate stakes r with
    | some st, some rest => some (⟨party, pool, vk, st⟩ :: rest)
    | _, _ => none

/-- the honest input space: every entry registers under its own listed identity, no party listed twice -/
def WF (l : List Signer) : Prop := (∀ s ∈ l, s.pool = s.party) ∧ (l.map (·.party)).Nodup

/-! ### what `build` computes on well-formed lists -/

theorem stakeOf_none {l : List Signer} {p : Nat} (h : p ∉ l.map (·.party)) : stakeOf l p = none := by
  induction l with
  | nil => rfl
  | cons a r ih =>
    simp only [List.map_cons, List.mem_cons, not_or] at h
    simp only [stakeOf, ih h.2]
    have : a.party ≠ p := fun e => h.1 e.symm
    simp [this]

theorem stakeOf_mem {l : List Signer} (hn : (l.map (·.party)).Nodup) {s : Signer} (hs : s ∈ l) :
    stakeOf l s.party = some s.stake := by
  induction l with
  | nil => simp at hs
  | cons a r ih =>
    simp only [List.map_cons, List.nodup_cons] at hn
    rcases List.mem_cons.mp hs with rfl | hr
    · simp [stakeOf, stakeOf_none hn.1]
    · simp [stakeOf, ih hn.2 hr]

/-- no key of `l` is registered yet and the keys of `l` are pairwise distinct -/
def Fresh (l : List Signer) (acc : List Entry) : Prop :=
  (l.map (·.vk)).Nodup ∧ ∀ s ∈ l, s.vk ∉ acc.map (·.vk)

instance (l : List Signer) (acc : List Entry) : Decidable (Fresh l acc) := by unfold Fresh; infer_instance

theorem any_vk_iff (acc : List Entry) (k : Nat) : acc.any (fun e => e.vk == k) = true ↔ k ∈ acc.map (·.vk) := by
  simp only [List.any_eq_true, beq_iff_eq, List.mem_map]

theorem regLoop_eq (sd : Nat → Option Nat) :
    ∀ (l : List Signer) (acc : List Entry), (∀ s ∈ l, sd s.pool = some s.stake) →
      regLoop sd l acc = if Fresh l acc then .ok (l.reverse.map Signer.entry ++ acc) else .error .dupKey := by
  intro l
  induction l with
  | nil => intro acc _; simp [regLoop, Fresh]
  | cons a r ih =>
    intro acc hsd
    have ha : sd a.pool = some a.stake := hsd a List.mem_cons_self
    have hr : ∀ s ∈ r, sd s.pool = some s.stake := fun s hs => hsd s (List.mem_cons_of_mem _ hs)
    simp only [regLoop, ha]
    by_cases hin : a.vk ∈ acc.map (·.vk)
    · have : ¬ Fresh (a :: r) acc := fun hf => hf.2 a List.mem_cons_self hin
      simp [(any_vk_iff acc a.vk).mpr hin, this]
    · have hany : acc.any (fun e => e.vk == a.vk) = false := by
        cases h : acc.any (fun e => e.vk == a.vk) with
        | false => rfl
        | true => exact absurd ((any_vk_iff acc a.vk).mp h) hin
      simp only [hany, Bool.false_eq_true, if_false]
      rw [ih _ hr]
      have hiff : Fresh r (⟨a.stake, a.vk⟩ :: acc) ↔ Fresh (a :: r) acc := by
        unfold Fresh
        simp only [List.map_cons, List.nodup_cons, List.mem_cons, not_or, List.mem_map]
        constructor
        · rintro ⟨hn, hall⟩
          refine ⟨⟨?_, hn⟩, ?_⟩
          · rintro ⟨s, hs, hk⟩
            exact (hall s hs).1 hk
          · intro s hs
            rcases hs with rfl | hs
            · simpa [List.mem_map] using hin
            · exact (hall s hs).2
        · rintro ⟨⟨hna, hn⟩, hall⟩
          refine ⟨hn, fun s hs => ⟨?_, hall s (Or.inr hs)⟩⟩
          intro hk
          exact hna ⟨s, hs, hk⟩
      by_cases hf : Fresh (a :: r) acc
      · simp [hf, hiff.mpr hf, Signer.entry]
      · simp [hf, mt hiff.mp hf]

/-- **What the builder computes on an honest list**: a function of the listed (stake, key) pairs — the empty
list, a repeated key, and the closed registration of the pairs -/
theorem build_eq {l : List Signer} (hwf : WF l) :
    build l = if l.isEmpty then .error .empty
              else if (l.map (·.vk)).Nodup then ofClose (closeReg (l.map Signer.entry))
              else .error .dupKey := by
  unfold build
  by_cases he : l.isEmpty
  · simp [he]
  · simp only [he, Bool.false_eq_true, if_false]
    have hsd : ∀ s ∈ l, stakeOf l s.pool = some s.stake := by
      intro s hs
      rw [hwf.1 s hs]
      exact stakeOf_mem hwf.2 hs
    rw [regLoop_eq (stakeOf l) l [] hsd]
    have hfresh : Fresh l [] ↔ (l.map (·.vk)).Nodup := by simp [Fresh]
    by_cases hn : (l.map (·.vk)).Nodup
    · simp only [hfresh.mpr hn, hn, if_true, List.append_nil]
      have : closeReg (l.reverse.map Signer.entry) = closeReg (l.map Signer.entry) :=
        closeReg_perm ((List.reverse_perm l).map _)
      rw [this]
    · simp [mt hfresh.mp hn, hn]

theorem WF_perm {l₁ l₂ : List Signer} (h : l₁.Perm l₂) (hwf : WF l₁) : WF l₂ :=
  ⟨fun s hs => hwf.1 s (h.mem_iff.mpr hs), (h.map _).nodup_iff.mp hwf.2⟩

/-- **Order independence at the node level**: for honest lists the outcome of `SignerBuilder::new` — the error
class, or the closed registration (hence every slot), the total stake and the aggregate key — does not depend on
the order of the list it is given -/
theorem build_perm {l₁ l₂ : List Signer} (h : l₁.Perm l₂) (hwf : WF l₁) : build l₁ = build l₂ := by
  rw [build_eq hwf, build_eq (WF_perm h hwf)]
  have he : l₁.isEmpty = l₂.isEmpty := by
    cases l₁ with
    | nil => rw [List.perm_nil.mp h.symm]
    | cons a r =>
      cases l₂ with
      | nil => exact absurd (List.perm_nil.mp h) (by simp)
      | cons b r' => rfl
  have hn : (l₁.map (·.vk)).Nodup ↔ (l₂.map (·.vk)).Nodup := (h.map _).nodup_iff
  have hc : closeReg (l₁.map Signer.entry) = closeReg (l₂.map Signer.entry) := closeReg_perm (h.map _)
  rw [he, hc]
  by_cases hx : (l₁.map (·.vk)).Nodup
  · simp [hx, hn.mp hx]
  · simp [hx, mt hn.mpr hx]

/-- … and it is the key of the core model: the node-level paths add nothing to `RegModel.avk` -/
theorem build_key {l : List Signer} (hwf : WF l) {b : Built} (hb : build l = .ok b) :
    RegModel.avk H (l.map Signer.entry) = .ok (b.key H) := by
  rw [build_eq hwf] at hb
  by_cases he : l.isEmpty
  · simp [he] at hb
  · simp only [he, Bool.false_eq_true, if_false] at hb
    by_cases hn : (l.map (·.vk)).Nodup
    · simp only [hn, if_true] at hb
      unfold RegModel.avk
      cases hc : closeReg (l.map Signer.entry) with
      | ok p =>
        obtain ⟨sorted, total⟩ := p
        rw [hc] at hb
        simp only [ofClose, Except.ok.injEq] at hb
        subst hb
        rfl
      | overflow => rw [hc] at hb; simp [ofClose] at hb
      | zero => rw [hc] at hb; simp [ofClose] at hb
    · simp [hn] at hb

/-! ### the signer's path: stakes from the node's own store -/

def stakeIn (stakes : List (Nat × Nat)) (party : Nat) : Option Nat := (stakes.find? (·.1 == party)).map (·.2)

theorem associate_cons (stakes : List (Nat × Nat)) (x : Nat × Nat × Nat) (r : List (Nat × Nat × Nat)) (s : List Signer) :
    associate stakes (x :: r) = some s ↔
      ∃ st rest, stakeIn stakes x.1 = some st ∧ associate stakes r = some rest ∧ s = ⟨x.1, x.2.1, x.2.2, st⟩ :: rest := by
  obtain ⟨party, pool, vk⟩ := x
  simp only [associate, stakeIn]
  cases h1 : (stakes.find? (·.1 == party)).map (·.2) with
  | none => simp
  | some st =>
    cases h2 : associate stakes r with
    | none => simp
    | some rest =>
      simp only [Option.some.injEq]
      constructor
      · intro h; exact ⟨st, rest, rfl, rfl, h.symm⟩
      · rintro ⟨st', rest', h1', h2', rfl⟩
        rw [← h1', ← h2']

/-- the association keeps the listed order: announcing the signers in another order yields the same signers with the
same stakes, in that other order -/
theorem associate_perm (stakes : List (Nat × Nat)) {l₁ l₂ : List (Nat × Nat × Nat)} (h : l₁.Perm l₂) :
    ∀ s₁, associate stakes l₁ = some s₁ → ∃ s₂, associate stakes l₂ = some s₂ ∧ s₁.Perm s₂ := by
  induction h with
  | nil => intro s₁ h; exact ⟨s₁, h, List.Perm.refl _⟩
  | cons x _ ih =>
    intro s₁ h
    obtain ⟨st, rest, h1, h2, rfl⟩ := (associate_cons stakes x _ s₁).mp h
    obtain ⟨r₂, h3, hp⟩ := ih rest h2
    exact ⟨_, (associate_cons stakes x _ _).mpr ⟨st, r₂, h1, h3, rfl⟩, hp.cons _⟩
  | swap x y l =>
    intro s₁ h
    obtain ⟨sty, resty, h1, h2, rfl⟩ := (associate_cons stakes y _ s₁).mp h
    obtain ⟨stx, rest, h3, h4, rfl⟩ := (associate_cons stakes x _ resty).mp h2
    refine ⟨_, (associate_cons stakes x _ _).mpr ⟨stx, _, h3, (associate_cons stakes y _ _).mpr ⟨sty, rest, h1, h4, rfl⟩, rfl⟩, ?_⟩
    exact List.Perm.swap _ _ _
  | trans _ _ ih₁ ih₂ =>
    intro s₁ h
    obtain ⟨s₂, h2, p12⟩ := ih₁ s₁ h
    obtain ⟨s₃, h3, p23⟩ := ih₂ s₂ h2
    exact ⟨s₃, h3, p12.trans p23⟩

theorem associate_none_perm (stakes : List (Nat × Nat)) {l₁ l₂ : List (Nat × Nat × Nat)} (h : l₁.Perm l₂)
    (h1 : associate stakes l₁ = none) : associate stakes l₂ = none := by
  cases h2 : associate stakes l₂ with
  | none => rfl
  | some s₂ =>
    obtain ⟨s₁, h3, _⟩ := associate_perm stakes h.symm s₂ h2
    rw [h1] at h3; cases h3

def Signer.triple (s : Signer) : Nat × Nat × Nat := (s.party, s.pool, s.vk)

theorem associate_triples (stakes : List (Nat × Nat)) :
    ∀ (l : List (Nat × Nat × Nat)) (s : List Signer), associate stakes l = some s → s.map Signer.triple = l := by
  intro l
  induction l with
  | nil => intro s h; simp [associate] at h; subst h; rfl
  | cons x r ih =>
    intro s h
    obtain ⟨st, rest, _, h2, rfl⟩ := (associate_cons stakes x r s).mp h
    simp [Signer.triple, ih rest h2]

/-- when the node's stake store holds, for every listed party, the stake the aggregator recorded, the association
rebuilds exactly the aggregator's list -/
theorem associate_consistent (stakes : List (Nat × Nat)) :
    ∀ (ls : List Signer), (∀ s ∈ ls, stakeIn stakes s.party = some s.stake) →
      associate stakes (ls.map Signer.triple) = some ls := by
  intro ls
  induction ls with
  | nil => intro _; rfl
  | cons a r ih =>
    intro h
    rw [List.map_cons]
    exact (associate_cons stakes _ _ _).mpr ⟨a.stake, r, h a List.mem_cons_self, ih (fun s hs => h s (List.mem_cons_of_mem _ hs)), rfl⟩

inductive SignerErr where
  | nostake                    -- a listed party has no stake in the node's store
  | build (e : BuildErr)
  | unregistered               -- the node's own (stake, key) entry is not in the closed registration
deriving DecidableEq, Repr

/-- the signer node: `associate_signers_with_stake`, `SignerBuilder::new`, `restore_signer_from_initializer`
(`self` = the stake and key of the node's protocol initializer); result: the registration it signs against and its slot -/
def signerPath (stakes : List (Nat × Nat)) (l : List (Nat × Nat × Nat)) (self : Entry) : Except SignerErr (Built × Nat) :=
  match associate stakes l with
  | none => .error .nostake
  | some s =>
    match build s with
    | .error e => .error (.build e)
    | .ok b =>
      match b.slot self with
      | none => .error .unregistered
      | some i => .ok (b, i)

/-- the announced list is an honest list: every entry under its own identity, no party twice -/
def WFT (l : List (Nat × Nat × Nat)) : Prop := (∀ x ∈ l, x.2.1 = x.1) ∧ (l.map (·.1)).Nodup

theorem associate_wf (stakes : List (Nat × Nat)) {l : List (Nat × Nat × Nat)} (hwf : WFT l) {s : List Signer}
    (h : associate stakes l = some s) : WF s := by
  have ht := associate_triples stakes l s h
  constructor
  · intro x hx
    have : x.triple ∈ l := by rw [← ht]; exact List.mem_map_of_mem hx
    exact hwf.1 _ this
  · have : s.map (·.party) = l.map (·.1) := by
      rw [← ht, List.map_map]; rfl
    rw [this]; exact hwf.2

/-- **Signer path, order independence**: whatever the order in which the aggregator announces the registered signers,
the node ends with the same outcome: same error class, or same closed registration (aggregate key, total stake) and
same slot -/
theorem signerPath_perm (stakes : List (Nat × Nat)) {l₁ l₂ : List (Nat × Nat × Nat)} (h : l₁.Perm l₂) (hwf : WFT l₁)
    (self : Entry) : signerPath stakes l₁ self = signerPath stakes l₂ self := by
  unfold signerPath
  cases h1 : associate stakes l₁ with
  | none => rw [associate_none_perm stakes h h1]
  | some s₁ =>
    obtain ⟨s₂, h2, hp⟩ := associate_perm stakes h s₁ h1
    rw [h2]
    simp only
    rw [build_perm hp (associate_wf stakes hwf h1)]

/-- **The signer path is the aggregator / client path**: with a stake store that agrees with the aggregator's records on
the listed parties, the node builds exactly `build ls` — the function the epoch service and the client evaluate -/
theorem signerPath_eq_build (stakes : List (Nat × Nat)) (ls : List Signer)
    (hc : ∀ s ∈ ls, stakeIn stakes s.party = some s.stake) (self : Entry) :
    signerPath stakes (ls.map Signer.triple) self =
      match build ls with
      | .error e => .error (.build e)
      | .ok b => match b.slot self with
        | none => .error .unregistered
        | some i => .ok (b, i) := by
  unfold signerPath
  rw [associate_consistent stakes ls hc]

/-- a party listed twice under two stakes: the LAST stake wins, so the outcome depends on the order — outside
the honest input space (`WF`), recorded as an observation -/
theorem dup_party_order_dependent :
    build [⟨1, 1, 7, 5⟩, ⟨1, 1, 8, 6⟩] ≠ build [⟨1, 1, 8, 6⟩, ⟨1, 1, 7, 5⟩] := by
  simp [build, regLoop, stakeOf, closeReg, ofClose]

end RegPaths
