import MithrilModel.Chain
namespace Chain

inductive ToVerify where
  | downloaded (c : Cert)
  | toDownload (h : Nat)

def ToVerify.hash : ToVerify → Nat
  | .downloaded c => c.hash
  | .toDownload h => h

/-- second loop of the client (`verify_with_cache_enabled`); `fixed = true` adds the
content-hash test before a cache hit is trusted for an already downloaded certificate -/
def phase2 (retr : Nat → Option Cert) (cache : Nat → Option Nat) (fixed : Bool) :
    Nat → ToVerify → Except Err Unit
  | 0, _ => .error .fuel
  | fuel + 1, tv =>
    match cache tv.hash with
    | some ph =>
      match tv with
      | .downloaded c =>
        if fixed && !c.contentHashOk then .error .hash
        else phase2 retr cache fixed fuel (.toDownload ph)
      | .toDownload _ => phase2 retr cache fixed fuel (.toDownload ph)
    | none =>
      let oc := match tv with
        | .downloaded c => some c
        | .toDownload h => retr h
      match oc with
      | none => .error .notFound
      | some c =>
        match verifyCertificate retr c with
        | .error e => .error e
        | .ok none => .ok ()
        | .ok (some p) => phase2 retr cache fixed fuel (.downloaded p)

/-- first loop: no cache until the epoch changes -/
def phase1 (retr : Nat → Option Cert) (cache : Nat → Option Nat) (fixed : Bool) (startEpoch : Nat) :
    Nat → Cert → Except Err Unit
  | 0, _ => .error .fuel
  | fuel + 1, c =>
    match verifyCertificate retr c with
    | .error e => .error e
    | .ok none => .ok ()
    | .ok (some p) =>
      if p.epoch ≠ startEpoch then phase2 retr cache fixed fuel (.downloaded p)
      else phase1 retr cache fixed startEpoch fuel p

def clientVerify (retr : Nat → Option Cert) (cache : Nat → Option Nat) (fixed : Bool) (fuel : Nat) (c : Cert) : Except Err Unit :=
  phase1 retr cache fixed c.epoch fuel c

/-- cache entries stem from validated certificates whose content hashes to the key -/
def CacheInv (cache : Nat → Option Nat) : Prop :=
  ∀ h ph, cache h = some ph → ∃ x : Cert, x.hash = h ∧ x.contentHashOk = true ∧ Valid LinkSpec x

/-- collision freeness of the content hash, at the level of the abstract records -/
def HashBinding : Prop :=
  ∀ a b : Cert, a.hash = b.hash → a.contentHashOk = true → b.contentHashOk = true → a = b

/-- what phase 2 guarantees about the thing it is asked to verify -/
def Goal (tv : ToVerify) : Prop :=
  match tv with
  | .downloaded c => Valid LinkSpec c
  | .toDownload _ => True

theorem phase2_sound (retr : Nat → Option Cert) (cache : Nat → Option Nat) (hc : CacheInv cache) (hb : HashBinding) :
    ∀ fuel tv, phase2 retr cache true fuel tv = .ok () → Goal tv := by
  intro fuel
  induction fuel with
  | zero => intro tv h; simp [phase2] at h
  | succ fuel ih =>
    intro tv h
    simp only [phase2] at h
    split at h
    · rename_i ph hhit
      cases tv with
      | toDownload _ => simp [Goal]
      | downloaded c =>
        simp only at h
        split at h
        · simp at h
        · rename_i hne
          have hok : c.contentHashOk = true := by simpa using hne
          obtain ⟨x, hx1, hx2, hx3⟩ := hc _ _ hhit
          have : x = c := hb x c (by simpa [ToVerify.hash] using hx1) hx2 hok
          simp only [Goal]; rw [← this]; exact hx3
    · cases tv with
      | toDownload _ => simp [Goal]
      | downloaded c =>
        simp only at h
        split at h
        · simp at h
        · rename_i hv
          obtain ⟨a, b, d⟩ := verifyCertificate_ok_none hv
          exact Valid.genesis c a b d
        · rename_i p hv
          obtain ⟨a, b, d, e, f⟩ := verifyCertificate_ok_some hv
          exact Valid.step c p a b d e f (ih (.downloaded p) h)

theorem phase1_sound (retr : Nat → Option Cert) (cache : Nat → Option Nat) (hc : CacheInv cache) (hb : HashBinding) (se : Nat) :
    ∀ fuel c, phase1 retr cache true se fuel c = .ok () → Valid LinkSpec c := by
  intro fuel
  induction fuel with
  | zero => intro c h; simp [phase1] at h
  | succ fuel ih =>
    intro c h
    simp only [phase1] at h
    split at h
    · simp at h
    · rename_i hv
      obtain ⟨a, b, d⟩ := verifyCertificate_ok_none hv
      exact Valid.genesis c a b d
    · rename_i p hv
      obtain ⟨a, b, d, e, f⟩ := verifyCertificate_ok_some hv
      split at h
      · exact Valid.step c p a b d e f (phase2_sound retr cache hc hb fuel (.downloaded p) h)
      · exact Valid.step c p a b d e f (ih p h)

theorem client_sound (retr : Nat → Option Cert) (cache : Nat → Option Nat) (hc : CacheInv cache) (hb : HashBinding) (fuel : Nat) (c : Cert)
    (h : clientVerify retr cache true fuel c = .ok ()) : Valid LinkSpec c :=
  phase1_sound retr cache hc hb c.epoch fuel c h

/-! the hole in the code as it is (`fixed = false`) -/
def advC : Cert :=
  { hash := 900, prevHash := 500, epoch := 2, avk := 9, params := 1
    nextAvk := some 9, nextParams := some 1, isGenesis := false
    contentHashOk := true, signedMsgOk := true, epochPartOk := true
    multiSigOk := true, genesisSigOk := false }
/-- served under the cached honest hash 500, but its content does not hash to 500 -/
def fakeParent : Cert :=
  { hash := 500, prevHash := 777, epoch := 1, avk := 9, params := 1
    nextAvk := some 9, nextParams := some 1, isGenesis := false
    contentHashOk := false, signedMsgOk := true, epochPartOk := true
    multiSigOk := true, genesisSigOk := false }
def retrAdv : Nat → Option Cert := fun h => if h = 500 then some fakeParent else if h = 100 then some gen else none
def cacheWarm : Nat → Option Nat := fun h => if h = 500 then some 100 else none

theorem cache_counterexample :
    clientVerify retrAdv cacheWarm false 10 advC = .ok () ∧
    retrAdv advC.prevHash = some fakeParent ∧ fakeParent.contentHashOk = false ∧
    clientVerify retrAdv cacheWarm true 10 advC = .error .hash := by
  refine ⟨rfl, rfl, rfl, rfl⟩

#print axioms client_sound
end Chain
