import MithrilModel.AggChain
import MithrilModel.ChainComplete
/-!
From the table invariant of the aggregator model to the verdict of the client's certificate
verifier (`Chain.verifyChain`, the model of `verify_certificate_chain`): every stored certificate
verifies with its whole chain.

The certificate the aggregator stores is rendered as a `Chain.Cert`: hash = insertion rank + 1,
previous hash = rank of the parent + 1; the aggregate key is identified with the epoch key whose
registrations produced it (`c.avk - 1` = current signers of epoch `c.avk`, next = `c.avk`), which is
sound because the registrations of a key are frozen once the epoch service has read them
(`regs_frozen`). The integrity and signature verdicts are `true`: `create_certificate` inserts only
after its own `verify_certificate` succeeded (self-verification, outside the model: K shows that the
implementation inserts exactly when the model does).
-/
namespace Agg

def toChain (c : CertRec) : Chain.Cert :=
  { hash := c.id + 1
    prevHash := match c.parent with | some p => p + 1 | none => 0
    epoch := c.epoch
    avk := c.avk - 1
    params := 0
    nextAvk := some c.avk
    nextParams := some 0
    isGenesis := c.entity.isNone
    contentHashOk := true, signedMsgOk := true, epochPartOk := true, multiSigOk := true, genesisSigOk := true }

/-- the retriever over the aggregator's own certificate table -/
def retr (certs : List CertRec) (h : Nat) : Option Chain.Cert :=
  if h = 0 then none else (certById (h - 1) certs).map toChain

/-- what the run invariant gives for each stored certificate -/
structure Good (certs : List CertRec) : Prop where
  ct : CT certs
  avk : ∀ c ∈ certs, c.avk = c.epoch

theorem locallyGood_of_good {certs : List CertRec} (h : Good certs) {c : CertRec} (hc : c ∈ certs) :
    Chain.LocallyGood (retr certs) (fun x => x.hash) (toChain c) := by
  refine ⟨⟨rfl, rfl, rfl⟩, ?_⟩
  cases hent : c.entity with
  | none => simp [toChain, hent]
  | some e =>
    have hsome : c.entity.isSome = true := by simp [hent]
    obtain ⟨p, hp, hpar, hlt, _, hep⟩ := h.ct.par c hc hsome
    have hpid := h.ct.ids p hp
    have hca := h.avk c hc
    have hpa := h.avk p hp
    have hg : ¬ ((toChain c).isGenesis = true) := by simp [toChain, hent]
    have hprev : (toChain c).prevHash = p.id + 1 := by simp [toChain, hpar]
    rw [if_neg hg]
    refine ⟨?_, rfl, toChain p, ?_, ?_, ?_, ?_, ?_, ?_, ?_⟩
    · rw [hprev]; show c.id + 1 ≠ p.id + 1; omega
    · rw [hprev]; simp [retr, hpid.2]
    · rw [hprev]; rfl
    · show p.id + 1 < c.id + 1; omega
    · show p.epoch ≤ c.epoch
      rcases hep with h1 | ⟨h1, _⟩ <;> omega
    · show c.epoch ≤ p.epoch + 1
      rcases hep with h1 | ⟨h1, _⟩ <;> omega
    · show Chain.avkChain (toChain c) (toChain p) = true
      unfold Chain.avkChain
      rcases hep with h1 | ⟨h1, _⟩
      · have : (toChain p).epoch = (toChain c).epoch := h1
        rw [if_pos this]
        simp [toChain, hca, hpa, h1]
      · have : ¬ (toChain p).epoch = (toChain c).epoch := by show ¬ p.epoch = c.epoch; omega
        rw [if_neg this]
        simp [toChain, hca, hpa]; omega
    · show Chain.paramsChain (toChain c) (toChain p) = true
      unfold Chain.paramsChain
      split <;> simp [toChain]

/-- **every stored certificate verifies with its whole chain under the client verifier** -/
theorem stored_verify {certs : List CertRec} (h : Good certs) {c : CertRec} (hc : c ∈ certs) :
    Chain.verifyChain (retr certs) (c.id + 2) (toChain c) = .ok () := by
  refine Chain.verifyChain_of_locally_good (retr certs) (fun x => x.hash)
    (fun x => ∃ c0 ∈ certs, x = toChain c0) ?_ ?_ (c.id + 2) (toChain c) ⟨c, hc, rfl⟩ (by simp [toChain]) (c.id + 2) (Nat.le_refl _)
  · rintro x ⟨c0, h0, rfl⟩
    exact locallyGood_of_good h h0
  · rintro x p ⟨c0, h0, rfl⟩ hp _
    unfold retr at hp
    split at hp
    · simp at hp
    · cases hcb : certById ((toChain c0).prevHash - 1) certs with
      | none => simp [hcb] at hp
      | some pc =>
        simp [hcb] at hp
        exact ⟨pc, (certById_some hcb).1, hp.symm⟩

end Agg
