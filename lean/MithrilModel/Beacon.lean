namespace Beacon

def LEN : Nat := 15

/-- `BlockNumber - x` saturates. Nat subtraction already truncates. -/
def blocks (tip sec step : Nat) : Nat :=
  let s := max step 1
  (tip - sec) / s * s

def adjStep (step : Nat) : Nat := max (step / LEN * LEN) LEN

def txs (tip sec step : Nat) : Nat :=
  let s := adjStep step
  ((tip - sec) / (max s 1) * (max s 1)) - 1

theorem blocks_margin (tip sec step : Nat) : blocks tip sec step ≤ tip - sec := by
  unfold blocks; dsimp only
  exact Nat.div_mul_le_self _ _

theorem blocks_mono (t1 t2 sec step : Nat) (h : t1 ≤ t2) : blocks t1 sec step ≤ blocks t2 sec step := by
  unfold blocks; dsimp only
  apply Nat.mul_le_mul_right
  apply Nat.div_le_div_right
  omega

theorem blocks_dvd (tip sec step : Nat) : max step 1 ∣ blocks tip sec step := by
  unfold blocks; dsimp only
  exact Nat.dvd_mul_left _ _

theorem adjStep_dvd (step : Nat) : LEN ∣ adjStep step := by
  unfold adjStep LEN
  simp only [Nat.max_def]
  split
  · exact Nat.dvd_refl _
  · exact Nat.dvd_mul_left _ _

theorem adjStep_pos (step : Nat) : 0 < adjStep step := by
  unfold adjStep LEN; omega

theorem txs_margin (tip sec step : Nat) : txs tip sec step ≤ tip - sec := by
  unfold txs; dsimp only
  have := Nat.div_mul_le_self (tip - sec) (max (adjStep step) 1)
  omega

theorem txs_boundary (tip sec step : Nat) (h : adjStep step ≤ tip - sec) :
    LEN ∣ txs tip sec step + 1 := by
  unfold txs; dsimp only
  have hp := adjStep_pos step
  have hmax : max (adjStep step) 1 = adjStep step := by omega
  rw [hmax]
  have hq : 1 ≤ (tip - sec) / adjStep step := (Nat.one_le_div_iff hp).mpr h
  have hpos : 1 ≤ (tip - sec) / adjStep step * adjStep step := by
    calc 1 ≤ 1 * 1 := by omega
      _ ≤ (tip - sec) / adjStep step * adjStep step := Nat.mul_le_mul hq hp
  have : (tip - sec) / adjStep step * adjStep step - 1 + 1 = (tip - sec) / adjStep step * adjStep step := by omega
  rw [this]
  exact Nat.dvd_trans (adjStep_dvd step) (Nat.dvd_mul_left _ _)

theorem txs_mono (t1 t2 sec step : Nat) (h : t1 ≤ t2) : txs t1 sec step ≤ txs t2 sec step := by
  unfold txs; dsimp only
  have : (t1 - sec) / max (adjStep step) 1 * max (adjStep step) 1 ≤ (t2 - sec) / max (adjStep step) 1 * max (adjStep step) 1 := by
    apply Nat.mul_le_mul_right
    apply Nat.div_le_div_right
    omega
  omega

end Beacon

/-! ## Machine-level model (u64, overflow = panic) and the five entity kinds -/
namespace Beacon

def U64 : Nat := 2 ^ 64

inductive Out (α : Type) where
  | ok : α → Out α
  | err : Out α
  | panic : Out α
  deriving Repr, DecidableEq

/-- `BlockRange::from_block_number(step).start`, including the unchecked `start + LENGTH`. -/
def rangeStart (n : Nat) : Out Nat :=
  let start := n / LEN * LEN
  if start + LEN < U64 then .ok start else .panic

/-- `CardanoTransactionsSigningConfig::compute_block_number_to_be_signed` -/
def txsM (tip sec step : Nat) : Out Nat :=
  match rangeStart step with
  | .ok st =>
    let adj := max st LEN
    let s := max adj 1
    .ok (((tip - sec) / s * s) - 1)
  | .err => .err
  | .panic => .panic

theorem txsM_eq (tip sec step : Nat) (h : step / LEN * LEN + LEN < U64) :
    txsM tip sec step = .ok (txs tip sec step) := by
  unfold txsM rangeStart txs adjStep
  simp [h]

/-- `Epoch::offset_by`: `self.0 as i64 + offset` (overflow-checked), negative ⇒ error. -/
def offsetBy (e : Nat) (off : Int) : Out Nat :=
  let s : Int := if e < 2 ^ 63 then (e : Int) else (e : Int) - 2 ^ 64
  let r := s + off
  if r < -(2 ^ 63) ∨ r ≥ 2 ^ 63 then .panic
  else if r < 0 then .err
  else .ok r.toNat

theorem offsetBy_prev (e : Nat) (h0 : 0 < e) (h : e < 2 ^ 63) : offsetBy e (-1) = .ok (e - 1) := by
  unfold offsetBy
  simp only [h, if_true]
  have h1 : ¬ ((e : Int) + -1 < -(2 ^ 63) ∨ (e : Int) + -1 ≥ 2 ^ 63) := by omega
  have h2 : ¬ ((e : Int) + -1 < 0) := by omega
  simp only [h1, h2, if_false]
  congr 1; omega

inductive Entity where
  | msd (epoch : Nat)
  | csd (epoch : Nat)
  | ctx (epoch block : Nat)
  | cbtx (epoch block sec : Nat)
  | cdb (epoch immutable : Nat)
  deriving Repr, DecidableEq

structure TimePoint where
  epoch : Nat
  immutable : Nat
  block : Nat

structure Config where
  tx : Option (Nat × Nat)     -- (security parameter, step)
  btx : Option (Nat × Nat)

/-- `SignedEntityConfig::time_point_to_signed_entity`; discriminant 0..4 in the
order MithrilStakeDistribution, CardanoStakeDistribution, CardanoTransactions,
CardanoBlocksTransactions, CardanoDatabase. -/
def entity (cfg : Config) (d : Nat) (tp : TimePoint) : Out Entity :=
  match d with
  | 0 => .ok (.msd tp.epoch)
  | 1 => match offsetBy tp.epoch (-1) with
    | .ok e => .ok (.csd e)
    | .err => .err
    | .panic => .panic
  | 2 => match cfg.tx with
    | none => .err
    | some (sec, step) =>
      match txsM tp.block sec step with
      | .ok b => .ok (.ctx tp.epoch b)
      | .err => .err
      | .panic => .panic
  | 3 => match cfg.btx with
    | none => .err
    | some (sec, step) => .ok (.cbtx tp.epoch (blocks tp.block sec step) sec)
  | 4 => .ok (.cdb tp.epoch tp.immutable)
  | _ => .err

end Beacon
