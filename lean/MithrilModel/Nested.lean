import MithrilModel.Expr
/-! C09(c)/C11: soundness of nested (`MKMapProof`) proofs by composition.
The honest map commits to ONE expression tree: a master leaf is `merge key subroot`, i.e. an inner
node of that tree — so the statement is about sub-trees, not about "leaves of the master tree". -/
namespace ExprTree
variable {α : Type} (merge : α → α → α)

def subtrees : E α → List (E α)
  | .leaf a => [.leaf a]
  | .node l r => .node l r :: (subtrees l ++ subtrees r)

theorem self_mem_subtrees (t : E α) : t ∈ subtrees t := by cases t <;> simp [subtrees]

theorem subtrees_trans {s t u : E α} (h1 : s ∈ subtrees t) (h2 : t ∈ subtrees u) : s ∈ subtrees u := by
  induction u with
  | leaf a => simp [subtrees] at h2; subst h2; exact h1
  | node l r ihl ihr =>
    simp only [subtrees, List.mem_cons, List.mem_append] at h2
    rcases h2 with rfl | h2 | h2
    · exact h1
    · simp only [subtrees, List.mem_cons, List.mem_append]; exact Or.inr (Or.inl (ihl h2))
    · simp only [subtrees, List.mem_cons, List.mem_append]; exact Or.inr (Or.inr (ihr h2))

theorem leaves_of_subtree {s t : E α} (h : s ∈ subtrees t) : ∀ a ∈ leaves s, a ∈ leaves t := by
  induction t with
  | leaf a => simp [subtrees] at h; subst h; exact fun _ h => h
  | node l r ihl ihr =>
    simp only [subtrees, List.mem_cons, List.mem_append] at h
    rcases h with rfl | h | h
    · exact fun _ h => h
    · intro a ha; simp only [leaves, List.mem_append]; exact Or.inl (ihl h a ha)
    · intro a ha; simp only [leaves, List.mem_append]; exact Or.inr (ihr h a ha)

/-- every claimed value of a verifying expression is the value of a sub-tree of the committed tree -/
theorem claim_is_subtree_value
    (hinj : ∀ a b c d, merge a b = merge c d → a = c ∧ b = d) :
    ∀ (v : V α) (t : E α), veval merge v = eval merge t →
      (∀ a ∈ leaves t, ¬ IsMerge merge a) →
      ∀ a ∈ claims v, ∃ s ∈ subtrees t, a = eval merge s := by
  intro v
  induction v with
  | claim a =>
    intro t h _ x hx
    simp [claims] at hx; subst hx
    exact ⟨t, self_mem_subtrees t, by simpa [veval] using h⟩
  | item a => intro t _ _ x hx; simp [claims] at hx
  | node l r ihl ihr =>
    intro t h hT x hx
    cases t with
    | leaf b => exact absurd ⟨_, _, by simpa [veval, eval] using h.symm⟩ (hT b (by simp [leaves]))
    | node tl tr =>
      simp only [veval, eval] at h
      obtain ⟨h1, h2⟩ := hinj _ _ _ _ h
      simp only [claims, List.mem_append] at hx
      rcases hx with hx | hx
      · obtain ⟨s, hs, e⟩ := ihl tl h1 (fun a ha => hT a (by simp [leaves, ha])) x hx
        exact ⟨s, by simp [subtrees, hs], e⟩
      · obtain ⟨s, hs, e⟩ := ihr tr h2 (fun a ha => hT a (by simp [leaves, ha])) x hx
        exact ⟨s, by simp [subtrees, hs], e⟩

/-- a nested proof: root, claimed leaves of the master proof, keyed sub-proofs -/
inductive NProof (α : Type) where
  | mk (root : α) (claimed : List α) (subs : List (α × NProof α)) : NProof α

def NProof.root : NProof α → α
  | .mk r _ _ => r

/-- what `MKMapProof::verify = Ok` establishes (each `MKProof::verify` contributes, by
`calcRoot_cover`, a verifier expression whose value is its root and whose claims cover its leaves) -/
inductive Verified : NProof α → Prop where
  | mk (r : α) (cl : List α) (subs : List (α × NProof α)) (v : V α) :
      veval merge v = r → (∀ a ∈ cl, a ∈ claims v) →
      (∀ kp ∈ subs, Verified kp.2) →
      (∀ kp ∈ subs, merge kp.1 kp.2.root ∈ cl) →
      Verified (.mk r cl subs)

/-- `MKMapProof::contains` -/
inductive Contains : NProof α → α → Prop where
  | here (r : α) (cl : List α) (subs : List (α × NProof α)) (x : α) : x ∈ cl → Contains (.mk r cl subs) x
  | sub (r : α) (cl : List α) (subs : List (α × NProof α)) (kp : α × NProof α) (x : α) :
      kp ∈ subs → Contains kp.2 x → Contains (.mk r cl subs) x

/-- **nested soundness**: anything a verified nested proof "contains" is the value of a sub-tree of
the tree committed by its root, at any nesting depth -/
theorem nested_sound
    (hinj : ∀ a b c d, merge a b = merge c d → a = c ∧ b = d)
    (p : NProof α) (x : α) (hC : Contains p x) :
    ∀ (t : E α), Verified merge p → p.root = eval merge t → (∀ a ∈ leaves t, ¬ IsMerge merge a) →
      ∃ s ∈ subtrees t, x = eval merge s := by
  induction hC with
  | here r cl subs x hx =>
    intro t hV hr hT
    cases hV with
    | mk _ _ _ v hv hcl _ _ =>
      exact claim_is_subtree_value merge hinj v t (by rw [hv]; exact hr) hT x (hcl x hx)
  | sub r cl subs kp x hkp _ ih =>
    intro t hV hr hT
    cases hV with
    | mk _ _ _ v hv hcl hsubs hlink =>
      -- the link node is a claimed value of the master proof, hence a sub-tree of `t` …
      obtain ⟨s, hs, e⟩ := claim_is_subtree_value merge hinj v t (by rw [hv]; exact hr) hT _ (hcl _ (hlink kp hkp))
      cases s with
      | leaf b =>
        -- … which cannot be a leaf (leaves are not merge values)
        exact absurd ⟨_, _, by simpa [eval] using e.symm⟩ (hT b (leaves_of_subtree hs b (by simp [leaves])))
      | node l r' =>
        simp only [eval] at e
        obtain ⟨_, h2⟩ := hinj _ _ _ _ e
        have hr' : r' ∈ subtrees t := subtrees_trans (by simp [subtrees, self_mem_subtrees]) hs
        obtain ⟨s', hs', e'⟩ := ih r' (hsubs kp hkp) h2 (fun a ha => hT a (leaves_of_subtree hr' a ha))
        exact ⟨s', subtrees_trans hs' hr', e'⟩

/-- … and when it is not a merge value it is a committed leaf (a key or an element of some sub-tree) -/
theorem nested_sound_leaf
    (hinj : ∀ a b c d, merge a b = merge c d → a = c ∧ b = d)
    (p : NProof α) (x : α) (hC : Contains p x) (t : E α) (hV : Verified merge p)
    (hr : p.root = eval merge t) (hT : ∀ a ∈ leaves t, ¬ IsMerge merge a) (hx : ¬ IsMerge merge x) :
    x ∈ leaves t := by
  obtain ⟨s, hs, e⟩ := nested_sound merge hinj p x hC t hV hr hT
  cases s with
  | leaf b => simp only [eval] at e; subst e; exact leaves_of_subtree hs x (by simp [leaves])
  | node l r => exact absurd ⟨_, _, by simpa [eval] using e⟩ hx

#print axioms nested_sound_leaf
end ExprTree
