import MithrilModel.StmBatch
/-!
STM registration Merkle tree: the wrapper of `verify_leaves_membership_from_batch_path`
(length / sortedness tests, offset arithmetic with its overflow behaviour, final root test)
around the level loop `StmBatch.run`, the committed root, and the batch-path generator.
(`mithril-stm/src/membership_commitment/merkle_tree/{commitment,tree}.rs`)
-/
namespace StmTree
open StmBatch

inductive Out where
  | ok | err | panic
  deriving DecidableEq, Repr

/-- Rust `usize::next_power_of_two` (for values whose result fits; 0 ↦ 1) -/
def nextPow2 (n : Nat) : Nat := if n ≤ 1 then 1 else 2 ^ (Nat.log2 (n - 1) + 1)

def height (n : Nat) : Nat := Nat.log2 (nextPow2 n)

def sortedLE : List Nat → Bool
  | [] => true
  | [_] => true
  | a :: b :: r => a ≤ b && sortedLE (b :: r)

def U64 : Nat := 2 ^ 64

variable (H : Bytes → Bytes)

/-- `MerkleTreeBatchCommitment::verify_leaves_membership_from_batch_path` -/
def verifyBatch (root : Bytes) (nr : Nat) (claims : List Bytes) (values : List Bytes)
    (indices : List Nat) : Out :=
  if claims.length ≠ indices.length then .err
  else if !sortedLE indices then .err
  else if nr > 2 ^ 63 then .panic                    -- `next_power_of_two` overflows (debug build)
  else
    let np := nextPow2 nr
    if nr + np ≥ U64 then .panic                     -- `nr_leaves + next_power_of_two` overflows
    else
    let nrNodes := nr + np - 1
    if indices.any (fun i => i + np ≥ U64) then .panic        -- `i + next_power_of_two` overflows
    else
      match indices with
      | [] => .panic                                  -- `ordered_indices[0]`
      | _ =>
        let es := (indices.zip claims).map fun p => (p.1 + (np - 1), H p.2)
        match run H nrNodes (H [0]) 65 es values with
        | none => .err
        | some [(_, h)] => if h = root then .ok else .err
        | some _ => .err

/-- the committed root of `MerkleTree::new(leaves)` (n ≥ 1) -/
def treeRoot (leaves : List Bytes) : Bytes :=
  sub H leaves (H [0]) (nextPow2 leaves.length - 1) (height leaves.length) 0

/-! ### the tree as `MerkleTree::new` lays it out, and the batch-path generator -/

/-- node value at heap position `p` of the tree over `leaves` (positions ≥ number of nodes are `Z`) -/
def nodeAt (leaves : List Bytes) (p : Nat) : Bytes :=
  let n := leaves.length
  let np := nextPow2 n
  let rec go (fuel : Nat) (p : Nat) : Bytes :=
    match fuel with
    | 0 => H [0]
    | f + 1 =>
      if p ≥ n + np - 1 then H [0]
      else if p ≥ np - 1 then (match leaves[p - (np - 1)]? with | some x => H x | none => H [0])
      else H (go f (2 * p + 1) ++ go f (2 * p + 2))
  go (height n + 2) p

/-- one level of `compute_merkle_tree_batch_path` -/
def pathLevel (leaves : List Bytes) (nrNodes : Nat) : List Nat → List Nat × List Bytes
  | [] => ([], [])
  | [p] =>
    let sib := if p % 2 = 1 then p + 1 else p - 1
    ([parent p], if sib < nrNodes then [nodeAt H leaves sib] else [])
  | p :: p2 :: rest =>
    let sib := if p % 2 = 1 then p + 1 else p - 1
    if p2 = sib then
      let (ps, vs) := pathLevel leaves nrNodes rest
      (parent p :: ps, vs)
    else
      let (ps, vs) := pathLevel leaves nrNodes (p2 :: rest)
      (parent p :: ps, (if sib < nrNodes then [nodeAt H leaves sib] else []) ++ vs)

def pathRun (leaves : List Bytes) (nrNodes : Nat) : Nat → List Nat → List Bytes
  | 0, _ => []
  | _, [] => []
  | f + 1, p :: ps =>
    if p = 0 then []
    else
      let (ps', vs) := pathLevel H leaves nrNodes (p :: ps)
      vs ++ pathRun leaves nrNodes f ps'

/-- `MerkleTree::compute_merkle_tree_batch_path` for sorted in-range indices -/
def batchPath (leaves : List Bytes) (indices : List Nat) : List Bytes :=
  let n := leaves.length
  let np := nextPow2 n
  pathRun H leaves (n + np - 1) 65 (indices.map (· + (np - 1)))

end StmTree
