import MithrilModel.Pool
/-!
# C18 — blocking `acquire_resource`: waiting threads, `notify_one`, time-outs (`C18_wake`)

`internal/mithril-resource-pool/src/resource_pool.rs`, `acquire_resource(timeout)`:

```
let mut resources = self.resources.lock()?;                        // (a)
while resources.is_empty() {                                       // (b) evaluated while the mutex is held
    let (g, r) = self.not_empty.wait_timeout(resources, timeout)?; // (c) unlock + block, re-lock on return
    if r.timed_out() { return Err(AcquireTimeout) }                // (d) the queue is NOT looked at again
    resources = g;
}
Ok(ResourcePoolItem::new(self, resources.pop_front().unwrap()))    // (e) pop + tag, still under the mutex
```

`give_back_resource`: lock; full? stale? → return; `push_back`; `self.not_empty.notify_one()`; unlock.
`clear`, `start_new_generation`, `reset_available_resources`: lock … unlock, **no** notification (they never make the
queue non-empty). `set_discriminant` takes only the `discriminant` mutex.

The model keeps `Pool.St` / `Pool.step` (API-atomic pool state, unchanged) and adds, around it, the `resources` mutex
(`owner`) and the threads that are inside `acquire_resource` without a resource:

* `owner = some t`: `t` holds the mutex **between two steps**: it has evaluated (b) to `true` and is about to call (c).
  Every other critical section is one atomic step (it begins and ends with the mutex free), so this is the only way the
  mutex is held across steps.
* `parked`: blocked inside `wait_timeout`, mutex released.
* `woken`: chosen by a `notify_one` (or woken spuriously): `wait_timeout` is re-acquiring the mutex and will return
  `timed_out() == false`; this is "a notification is pending".
* `expired`: the time-out elapsed: `wait_timeout` is re-acquiring the mutex and will return `timed_out() == true`.
* `unlocked`: only reachable through steps that `std::sync::Condvar` excludes (see `Op.weakUnlock`).

What is assumed of `std::sync::{Mutex, Condvar}` (the `StdOp` steps are exactly what these allow):

* G1 (`Mutex`): mutual exclusion.
* G2 (`Condvar::wait`/`wait_timeout` doc: "This function will atomically unlock the mutex specified and block the current
  thread. This means that any calls to notify_one or notify_all which happen logically after the mutex is unlocked are
  candidates to wake this thread up."): unlock and block are ONE step (`Op.park`).
* G3 (`Condvar::notify_one` doc: "If there is a blocked thread on this condition variable, then it will be woken up from
  its call to wait or wait_timeout. Calls to notify_one are not buffered in any way."): a notification takes one thread
  out of `parked` if there is one (any one: `pick`), else it is lost; a thread already woken does not absorb it.
* G4 (NOT in the std documentation; true of the futex implementation used on Linux, where `futex_wait` reports a
  time-out only if no wake-up removed the waiter from the queue; POSIX allows the contrary for
  `pthread_cond_timedwait`, which "may consume a condition signal directed concurrently at the condition variable" when
  it times out): the thread taken by a notification returns `timed_out() == false`. Without G4 the safety statement is
  FALSE for this code, because of line (d): `weakSteal_counterexample`.
* spurious wake-ups are allowed (`Op.spurious`); time-outs are always possible (`Op.timeout`).
-/
namespace PoolWake
open Pool

deriving instance Repr for Pool.Op
deriving instance DecidableEq for Pool.Op
deriving instance DecidableEq for Pool.St

structure St where
  pool : Pool.St
  owner : Option Nat
  unlocked : List Nat
  parked : List Nat
  woken : List Nat
  expired : List Nat
deriving Repr, DecidableEq

inductive Op where
  /-- a public call executed as one critical section; for `acquire tid` this is (a)+(b) and, if the queue is not empty,
  (e). `pick` resolves which blocked thread a `notify_one` wakes. -/
  | call (op : Pool.Op) (pick : Nat)
  /-- (c), first half, std semantics: unlock and block in one step (G2) -/
  | park (tid : Nat)
  /-- spurious wake-up of a blocked thread -/
  | spurious (tid : Nat)
  /-- the time-out of a blocked thread elapses -/
  | timeout (tid : Nat)
  /-- a woken thread gets the mutex back: `timed_out()` is false, (b) is evaluated again; (e) or back to (c) -/
  | resume (tid : Nat)
  /-- an expired thread gets the mutex back and returns `Err(AcquireTimeout)` (d) — without looking at the queue -/
  | giveUp (tid : Nat)
  /-- NOT std: a wait whose unlock and block are two steps, first half -/
  | weakUnlock (tid : Nat)
  /-- NOT std: second half -/
  | weakEnqueue (tid : Nat)
  /-- NOT Linux/futex (POSIX allows it): a notified waiter nevertheless reports a time-out -/
  | weakSteal (tid : Nat)
deriving Repr, DecidableEq

/-- steps allowed under G1–G4 -/
def StdOp : Op → Prop
  | .weakUnlock _ | .weakEnqueue _ | .weakSteal _ => False
  | _ => True

instance : DecidablePred StdOp := fun op => by cases op <;> unfold StdOp <;> infer_instance

/-- `resources.len() >= self.size` / `self.discriminant()? != discriminant` both false: the push happens -/
def accepts (p : Pool.St) (d : Nat) : Bool := !(decide (p.size ≤ p.queue.length)) && decide (p.disc = d)

/-- does the call reach `self.not_empty.notify_one()` -/
def notifies (p : Pool.St) : Pool.Op → Bool
  | .giveBack _ d => accepts p d
  | .giveBackItem tid | .dropItem tid =>
    match lookupHeld tid p.held with
    | none => false
    | some it => accepts p it.tag
  | _ => false

/-- `notify_one` (G3) -/
def notifyOne (s : St) (pick : Nat) : St :=
  match s.parked with
  | [] => s                              -- nobody is blocked: the notification is lost
  | t0 :: _ =>
    let t := if pick ∈ s.parked then pick else t0
    { s with parked := s.parked.erase t, woken := t :: s.woken }

/-- is the thread inside `acquire_resource` -/
def busy (s : St) (tid : Nat) : Bool :=
  s.owner == some tid || s.unlocked.contains tid || s.parked.contains tid || s.woken.contains tid ||
    s.expired.contains tid

def stepCall (s : St) (op : Pool.Op) (pick : Nat) : St :=
  match op with
  | .setDisc d => { s with pool := Pool.step s.pool (.setDisc d) }    -- other mutex: possible at any time
  | .acquire tid =>
    if s.owner.isSome || busy s tid then s                             -- (a) blocks
    else
      match s.pool.queue with
      | [] => { s with owner := some tid }                             -- (b) true: keeps the mutex, goes to (c)
      | _ :: _ => { s with pool := Pool.step s.pool (.acquire tid) }   -- (e)
  | op =>
    if s.owner.isSome then s                                           -- `lock()` blocks
    else
      let s' := { s with pool := Pool.step s.pool op }
      if notifies s.pool op then notifyOne s' pick else s'

def step (s : St) : Op → St
  | .call op pick => stepCall s op pick
  | .park tid => if s.owner = some tid then { s with owner := none, parked := tid :: s.parked } else s
  | .spurious tid =>
    if tid ∈ s.parked then { s with parked := s.parked.erase tid, woken := tid :: s.woken } else s
  | .timeout tid =>
    if tid ∈ s.parked then { s with parked := s.parked.erase tid, expired := tid :: s.expired } else s
  | .resume tid =>
    if tid ∈ s.woken ∧ s.owner = none then
      match s.pool.queue with
      | [] => { s with woken := s.woken.erase tid, owner := some tid }
      | _ :: _ => { s with woken := s.woken.erase tid, pool := Pool.step s.pool (.acquire tid) }
    else s
  | .giveUp tid =>
    if tid ∈ s.expired ∧ s.owner = none then { s with expired := s.expired.erase tid } else s
  | .weakUnlock tid => if s.owner = some tid then { s with owner := none, unlocked := tid :: s.unlocked } else s
  | .weakEnqueue tid =>
    if tid ∈ s.unlocked then { s with unlocked := s.unlocked.erase tid, parked := tid :: s.parked } else s
  | .weakSteal tid =>
    if tid ∈ s.woken then { s with woken := s.woken.erase tid, expired := tid :: s.expired } else s

def start (p : Pool.St) : St := { pool := p, owner := none, unlocked := [], parked := [], woken := [], expired := [] }

def run (s : St) (ops : List Op) : St := ops.foldl step s

/-- the state the safety form excludes: a resource is available, a thread is blocked, no notification is pending -/
def Stuck (s : St) : Prop := s.pool.queue ≠ [] ∧ s.parked ≠ [] ∧ s.woken = []

instance (s : St) : Decidable (Stuck s) := by unfold Stuck; infer_instance

/-- the invariant: (1) who holds the mutex after (b) has seen an empty queue, and nobody has pushed since;
(2) nobody is in the non-std state; (3) while a thread is blocked, every queued resource has its own pending
notification -/
def Inv (s : St) : Prop :=
  (s.owner ≠ none → s.pool.queue = []) ∧ s.unlocked = [] ∧
  (s.parked ≠ [] → s.pool.queue.length ≤ s.woken.length)

theorem inv_start (p : Pool.St) : Inv (start p) := by
  refine ⟨?_, rfl, ?_⟩ <;> simp [start]

/-! ### the pool part of a step is a `Pool.step` (or nothing) -/

theorem giveBackRes_queue (p : Pool.St) (r : Res) (d : Nat) :
    (giveBackRes p r d).queue = if accepts p d then p.queue ++ [r] else p.queue := by
  unfold giveBackRes accepts
  by_cases h1 : p.size ≤ p.queue.length
  · simp [h1]
  · by_cases h2 : p.disc = d
    · simp [h1, h2]
    · simp [h1, h2]

/-- length of the queue after a call that is not `acquire`: one more iff the call notifies -/
theorem queue_after_call (p : Pool.St) (op : Pool.Op) (hop : ∀ t, op ≠ .acquire t) :
    (Pool.step p op).queue.length ≤ p.queue.length + (if notifies p op then 1 else 0) := by
  cases op with
  | reset => simp [Pool.step, notifies]
  | acquire t => exact absurd rfl (hop t)
  | giveBackItem tid | dropItem tid =>
    cases hit : lookupHeld tid p.held with
    | none => simp [Pool.step, notifies, hit]
    | some it =>
      have hq := giveBackRes_queue { p with held := removeHeld tid p.held } it.res it.tag
      have ha : accepts { p with held := removeHeld tid p.held } it.tag = accepts p it.tag := rfl
      simp only [Pool.step, notifies, hit, hq, ha]
      cases accepts p it.tag <;> simp
  | setDisc d => simp [Pool.step, notifies]
  | clear => simp [Pool.step, notifies]
  | giveBack r d =>
    simp only [Pool.step, notifies]
    rw [giveBackRes_queue]
    by_cases h : accepts p d = true <;> simp [h]
  | newGen => simp [Pool.step, notifies]

theorem notifyOne_pool (s : St) (pick : Nat) : (notifyOne s pick).pool = s.pool := by
  unfold notifyOne; split <;> rfl

theorem notifyOne_owner (s : St) (pick : Nat) : (notifyOne s pick).owner = s.owner := by
  unfold notifyOne; split <;> rfl

theorem notifyOne_unlocked (s : St) (pick : Nat) : (notifyOne s pick).unlocked = s.unlocked := by
  unfold notifyOne; split <;> rfl

/-- `notify_one`: if a thread is blocked, exactly one leaves `parked` and becomes a pending notification -/
theorem notifyOne_counts (s : St) (pick : Nat) (h : s.parked ≠ []) :
    (notifyOne s pick).parked.length + 1 = s.parked.length ∧
    (notifyOne s pick).woken.length = s.woken.length + 1 := by
  unfold notifyOne
  split
  · rename_i hp; exact absurd hp h
  · rename_i t0 rest hp
    have hmem : (if pick ∈ s.parked then pick else t0) ∈ s.parked := by
      split
      · assumption
      · rw [hp]; simp
    simp only [List.length_cons, and_true]
    rw [List.length_erase_of_mem hmem]
    have : 0 < s.parked.length := List.length_pos_of_mem hmem
    omega

theorem notifyOne_none (s : St) (pick : Nat) (h : s.parked = []) : notifyOne s pick = s := by
  unfold notifyOne; rw [h]

/-- every step acts on the pool as one call of the API-atomic model `Pool.step` — the call itself, or the `acquire` a
resumed thread completes — or not at all -/
theorem step_pool (s : St) (op : Op) :
    (step s op).pool = s.pool ∨ (∃ t, (step s op).pool = Pool.step s.pool (.acquire t)) ∨
    ∃ pop pick, op = .call pop pick ∧ (step s op).pool = Pool.step s.pool pop := by
  cases op with
  | call pop pick =>
    simp only [step]
    unfold stepCall
    split
    · exact Or.inr (Or.inr ⟨_, _, rfl, rfl⟩)
    · split
      · exact Or.inl rfl
      · split
        · exact Or.inl rfl
        · exact Or.inr (Or.inr ⟨_, _, rfl, rfl⟩)
    · split
      · exact Or.inl rfl
      · split
        · rw [notifyOne_pool]; exact Or.inr (Or.inr ⟨_, _, rfl, rfl⟩)
        · exact Or.inr (Or.inr ⟨_, _, rfl, rfl⟩)
  | resume tid =>
    simp only [step]
    split
    · split
      · exact Or.inl rfl
      · exact Or.inr (Or.inl ⟨tid, rfl⟩)
    · exact Or.inl rfl
  | park tid | spurious tid | timeout tid | giveUp tid | weakUnlock tid | weakEnqueue tid | weakSteal tid =>
    simp only [step]; split <;> exact Or.inl rfl

/-- hence the freshness / bound / tag invariant of `Pool` (C18_fresh_every_interleaving) holds along every run with blocking
acquires as well, under any of the semantics -/
theorem run_pool_inv (s : St) (h : Pool.Inv s.pool) : ∀ (ops : List Op),
    (∀ pop pick, Op.call pop pick ∈ ops → OpOk pop) → Pool.Inv (run s ops).pool := by
  intro ops
  induction ops generalizing s with
  | nil => intro _; exact h
  | cons op r ih =>
    intro hok
    have h' : Pool.Inv (step s op).pool := by
      rcases step_pool s op with he | ⟨t, he⟩ | ⟨pop, pick, hop, he⟩
      · rw [he]; exact h
      · rw [he]; exact Pool.step_inv _ _ (by simp [OpOk]) h
      · rw [he]; exact Pool.step_inv _ _ (hok pop pick (by simp [hop])) h
    exact ih (step s op) h' (fun pop pick hm => hok pop pick (by simp [hm]))

/-! ### the invariant is kept by every std step -/

theorem stepCall_inv (s : St) (pop : Pool.Op) (pick : Nat) (h : Inv s) : Inv (stepCall s pop pick) := by
  obtain ⟨h1, h2, h3⟩ := h
  unfold stepCall
  split
  · exact ⟨h1, h2, h3⟩
  · rename_i tid
    split
    · exact ⟨h1, h2, h3⟩
    · rename_i hg
      have hown : s.owner = none := by
        cases ho : s.owner with
        | none => rfl
        | some t => simp [ho] at hg
      split
      · rename_i hq
        exact ⟨fun _ => hq, h2, fun hp => by simp [hq]⟩
      · rename_i r q hq
        refine ⟨fun ho => absurd hown ho, h2, fun hp => ?_⟩
        have := h3 hp
        simp only [Pool.step, hq] at this ⊢
        simp at this; omega
  · rename_i _ hns hna
    split
    · exact ⟨h1, h2, h3⟩
    · rename_i hg
      have hown : s.owner = none := by
        cases ho : s.owner with
        | none => rfl
        | some t => simp [ho] at hg
      have hlen := queue_after_call s.pool pop (fun t ht => hna t ht)
      by_cases hn : notifies s.pool pop = true
      · simp only [hn, if_true] at hlen ⊢
        by_cases hp : s.parked = []
        · rw [notifyOne_none _ _ (show ({ s with pool := Pool.step s.pool pop } : St).parked = [] from hp)]
          exact ⟨fun ho => absurd hown ho, h2, fun hp' => absurd hp hp'⟩
        · have hc := notifyOne_counts { s with pool := Pool.step s.pool pop } pick hp
          refine ⟨fun ho => ?_, ?_, fun _ => ?_⟩
          · rw [notifyOne_owner] at ho; exact absurd hown ho
          · rw [notifyOne_unlocked]; exact h2
          · rw [notifyOne_pool, hc.2]
            have := h3 hp
            show (Pool.step s.pool pop).queue.length ≤ s.woken.length + 1
            omega
      · simp only [hn] at hlen ⊢
        refine ⟨fun ho => absurd hown ho, h2, fun hp => ?_⟩
        have := h3 hp
        show (Pool.step s.pool pop).queue.length ≤ s.woken.length
        simp at hlen; omega

theorem step_inv (s : St) (op : Op) (hstd : StdOp op) (h : Inv s) : Inv (step s op) := by
  cases op with
  | call pop pick => exact stepCall_inv s pop pick h
  | park tid =>
    obtain ⟨h1, h2, h3⟩ := h
    simp only [step]
    split
    · rename_i ho
      have hq := h1 (by simp [ho])
      exact ⟨fun hn => absurd rfl hn, h2, fun _ => by simp [hq]⟩
    · exact ⟨h1, h2, h3⟩
  | spurious tid =>
    obtain ⟨h1, h2, h3⟩ := h
    simp only [step]
    split
    · rename_i hm
      refine ⟨h1, h2, fun _ => ?_⟩
      have := h3 (List.ne_nil_of_mem hm)
      simp only [List.length_cons]; omega
    · exact ⟨h1, h2, h3⟩
  | timeout tid =>
    obtain ⟨h1, h2, h3⟩ := h
    simp only [step]
    split
    · rename_i hm
      exact ⟨h1, h2, fun _ => h3 (List.ne_nil_of_mem hm)⟩
    · exact ⟨h1, h2, h3⟩
  | resume tid =>
    obtain ⟨h1, h2, h3⟩ := h
    simp only [step]
    split
    · rename_i hg
      obtain ⟨hm, hown⟩ := hg
      split
      · rename_i hq
        exact ⟨fun _ => hq, h2, fun _ => by simp [hq]⟩
      · rename_i r q hq
        refine ⟨fun ho => absurd hown ho, h2, fun hp => ?_⟩
        have := h3 hp
        simp only [Pool.step, hq] at this ⊢
        rw [List.length_erase_of_mem hm]
        simp at this; omega
    · exact ⟨h1, h2, h3⟩
  | giveUp tid =>
    obtain ⟨h1, h2, h3⟩ := h
    simp only [step]
    split
    · exact ⟨h1, h2, h3⟩
    · exact ⟨h1, h2, h3⟩
  | weakUnlock tid | weakEnqueue tid | weakSteal tid => exact absurd hstd (by simp [StdOp])

theorem run_inv (s : St) (h : Inv s) : ∀ ops : List Op, (∀ op ∈ ops, StdOp op) → Inv (run s ops) := by
  intro ops
  induction ops generalizing s with
  | nil => intro _; exact h
  | cons op r ih =>
    intro hok
    exact ih (step s op) (step_inv s op (hok op (by simp)) h) (fun o ho => hok o (by simp [ho]))

theorem inv_not_stuck {s : St} (h : Inv s) : ¬ Stuck s := by
  intro ⟨hq, hp, hw⟩
  have := h.2.2 hp
  rw [hw] at this
  simp at this
  exact hq this

/-- **`C18_wake`, safety form**: whatever the pool looks like at the start, after ANY finite interleaving of std steps of
any number of threads (calls of every public method, parkings, notifications to any blocked thread, spurious wake-ups,
time-outs, resumptions, returns) the pool is never in a state where a resource is queued, a thread is blocked in
`wait_timeout` and no notification is pending. -/
theorem wake_safe (p : Pool.St) (ops : List Op) (hstd : ∀ op ∈ ops, StdOp op) : ¬ Stuck (run (start p) ops) :=
  inv_not_stuck (run_inv _ (inv_start p) ops hstd)

/-- the quantitative form: while some thread is blocked, there are at least as many pending notifications as queued
resources -/
theorem wake_counts (p : Pool.St) (ops : List Op) (hstd : ∀ op ∈ ops, StdOp op) :
    (run (start p) ops).parked ≠ [] → (run (start p) ops).pool.queue.length ≤ (run (start p) ops).woken.length :=
  (run_inv _ (inv_start p) ops hstd).2.2

/-! ### lost wake-ups: between the test (b) and the parking (c) nobody can push -/

/-- while a thread stands between (b) and (c) it owns the mutex: every public call that touches the queue is blocked
(`set_discriminant`, which takes the other mutex, is the only call that proceeds, and it leaves the queue alone) -/
theorem no_call_between_check_and_park (s : St) (t : Nat) (ho : s.owner = some t) (pop : Pool.Op) (pick : Nat) :
    (stepCall s pop pick).pool.queue = s.pool.queue ∧
    ((∀ d, pop ≠ .setDisc d) → stepCall s pop pick = s) := by
  unfold stepCall
  split
  · exact ⟨rfl, fun h => absurd rfl (h _)⟩
  · simp [ho]
  · simp [ho]

/-- … so the queue is still empty when it parks, in every reachable state -/
theorem queue_empty_until_parked (p : Pool.St) (ops : List Op) (hstd : ∀ op ∈ ops, StdOp op) (t : Nat)
    (ho : (run (start p) ops).owner = some t) : (run (start p) ops).pool.queue = [] :=
  (run_inv _ (inv_start p) ops hstd).1 (by simp [ho])

/-- … and from the step in which it parks it is a candidate for every later `notify_one`: a push that finds a blocked
thread turns one blocked thread into a pending notification -/
theorem push_notifies (s : St) (pop : Pool.Op) (pick : Nat) (ho : s.owner = none) (hp : s.parked ≠ [])
    (hns : ∀ d, pop ≠ .setDisc d) (hna : ∀ t, pop ≠ .acquire t) (hn : notifies s.pool pop = true) :
    (stepCall s pop pick).woken.length = s.woken.length + 1 ∧
    (stepCall s pop pick).parked.length + 1 = s.parked.length := by
  unfold stepCall
  split
  · exact absurd rfl (hns _)
  · exact absurd rfl (hna _)
  · have := notifyOne_counts { s with pool := Pool.step s.pool pop } pick hp
    simp only [ho, Option.isSome_none, Bool.false_eq_true, if_false, hn, if_true]
    rw [ho] at this
    exact ⟨this.2, this.1⟩

/-! ### time-outs are always enabled, and bound the damage in any state -/

theorem timeout_enabled (s : St) (t : Nat) (h : t ∈ s.parked) :
    (step s (.timeout t)).parked.length + 1 = s.parked.length ∧
    (step s (.timeout t)).expired = t :: s.expired ∧ (step s (.timeout t)).pool = s.pool := by
  simp only [step, h, if_true, and_true]
  rw [List.length_erase_of_mem h]
  have : 0 < s.parked.length := List.length_pos_of_mem h
  omega

/-- the thread that holds the mutex is never blocked: it parks, which frees the mutex -/
theorem owner_parks (s : St) (t : Nat) (h : s.owner = some t) : (step s (.park t)).owner = none := by
  simp [step, h]

/-- an expired thread returns `Err(AcquireTimeout)` as soon as the mutex is free; the pool is not touched -/
theorem giveUp_enabled (s : St) (t : Nat) (h : t ∈ s.expired) (ho : s.owner = none) :
    (step s (.giveUp t)).expired = s.expired.erase t ∧ (step s (.giveUp t)).pool = s.pool := by
  simp [step, h, ho]

theorem run_timeouts (s : St) : ∀ (l : List Nat), s.parked = l →
    (run s (l.map .timeout)).parked = [] ∧ (run s (l.map .timeout)).pool = s.pool ∧
    (run s (l.map .timeout)).woken = s.woken := by
  intro l
  induction l generalizing s with
  | nil => intro h; simp [run, h]
  | cons t r ih =>
    intro h
    have hm : t ∈ s.parked := by simp [h]
    have := ih (step s (.timeout t)) (by simp [step, h])
    simp only [List.map_cons, run, List.foldl_cons] at this ⊢
    refine ⟨this.1, ?_, ?_⟩
    · rw [this.2.1]; simp [step, hm]
    · rw [this.2.2]; simp [step, hm]

/-- whatever the state (also under the weaker semantics below): the time-outs of the blocked threads, each of which is
enabled, lead out of `Stuck`; the queued resources stay in the pool for the next `acquire_resource` -/
theorem timeouts_unstick (s : St) :
    ¬ Stuck (run s (s.parked.map .timeout)) ∧ (run s (s.parked.map .timeout)).pool = s.pool := by
  obtain ⟨h1, h2, _⟩ := run_timeouts s s.parked rfl
  exact ⟨fun hs => hs.2.1 h1, h2⟩

/-- progress is possible whenever a resource is queued and a thread is blocked: a pending notification exists, its thread
can take the mutex and leaves with a resource -/
theorem wake_progress (s : St) (h : Inv s) (hq : s.pool.queue ≠ []) (hp : s.parked ≠ []) :
    ∃ t, t ∈ s.woken ∧ s.owner = none ∧ (step s (.resume t)).pool = Pool.step s.pool (.acquire t) ∧
      (step s (.resume t)).pool.queue.length + 1 = s.pool.queue.length := by
  have hlen := h.2.2 hp
  have hown : s.owner = none := by
    cases ho : s.owner with
    | none => rfl
    | some t => exact absurd (h.1 (by simp [ho])) hq
  match hw : s.woken with
  | [] =>
    rw [hw] at hlen
    simp at hlen
    exact absurd hlen hq
  | t :: r =>
    refine ⟨t, by simp, hown, ?_⟩
    have hm : t ∈ s.woken := by simp [hw]
    match hq' : s.pool.queue with
    | [] => exact absurd hq' hq
    | x :: q => simp [step, hm, hown, hq', Pool.step]

/-! ### what happens without G2 / without G4 -/

def p0 : Pool.St := { size := 1, disc := 0, queue := [], held := [] }

/-- without G2 (unlock and block as two steps): thread 1 finds the queue empty and releases the mutex; a refill pushes and
notifies nobody; thread 1 blocks — with a resource in the queue and no notification pending. This is the interleaving
"resource pushed while a waiter has checked the predicate but not yet parked"; `Op.park` (G2) makes it impossible. -/
def lostWakeupTrace : List Op :=
  [.call (.acquire 1) 0, .weakUnlock 1, .call (.giveBack ⟨0⟩ 0) 0, .weakEnqueue 1]

theorem lostWakeup_without_G2 : Stuck (run (start p0) lostWakeupTrace) := by decide

/-- the same calls under G2: the refill is blocked until thread 1 has parked, then wakes it -/
theorem lostWakeup_with_G2 :
    (run (start p0) [.call (.acquire 1) 0, .call (.giveBack ⟨0⟩ 0) 0, .park 1, .call (.giveBack ⟨0⟩ 0) 0]).woken = [1] ∧
    (run (start p0) [.call (.acquire 1) 0, .call (.giveBack ⟨0⟩ 0) 0, .park 1, .call (.giveBack ⟨0⟩ 0) 0,
      .resume 1]).pool.held = [(1, ⟨⟨0⟩, 0⟩)] := by decide

/-- without G4 (a notified waiter may report a time-out): threads 1 and 2 block; one refill notifies thread 1, whose
`wait_timeout` nevertheless returns `timed_out() == true`; line (d) returns `Err(AcquireTimeout)` without looking at the
queue and without passing the notification on: thread 2 stays blocked although a resource is queued and no
notification is pending — until its own time-out (`timeouts_unstick`). -/
def stolenWakeupTrace : List Op :=
  [.call (.acquire 1) 0, .park 1, .call (.acquire 2) 0, .park 2, .call (.giveBack ⟨0⟩ 0) 1, .weakSteal 1, .giveUp 1]

theorem stolenWakeup_without_G4 :
    Stuck (run (start p0) stolenWakeupTrace) ∧ (run (start p0) stolenWakeupTrace).parked = [2] ∧
    (run (start p0) stolenWakeupTrace).pool.queue = [⟨0⟩] ∧ (run (start p0) stolenWakeupTrace).expired = [] := by decide

/-- the safety form quantified over the runs that POSIX condition variables allow -/
def wake_goal_posix : Prop :=
  ∀ (p : Pool.St) (ops : List Op), (∀ op ∈ ops, StdOp op ∨ ∃ t, op = .weakSteal t) → ¬ Stuck (run (start p) ops)

theorem wake_goal_posix_false : ¬ wake_goal_posix := by
  intro h
  refine h p0 stolenWakeupTrace ?_ stolenWakeup_without_G4.1
  intro op hop
  simp only [stolenWakeupTrace, List.mem_cons, List.not_mem_nil, or_false] at hop
  rcases hop with rfl | rfl | rfl | rfl | rfl | rfl | rfl <;> first | exact Or.inl trivial | exact Or.inr ⟨_, rfl⟩

/-- non-vacuity of `wake_safe` / `wake_counts`: a std run in which two threads block, two refills wake both, both leave
with a resource; after the first refill one thread is still blocked, one resource is queued, one notification is pending -/
example :
    let ops : List Op := [.call (.acquire 1) 0, .park 1, .call (.acquire 2) 0, .park 2,
      .call (.giveBack ⟨0⟩ 0) 2, .call (.giveBack ⟨0⟩ 0) 1, .resume 1, .resume 2]
    (∀ op ∈ ops, StdOp op) ∧ (run (start { p0 with size := 2 }) ops).pool.held.length = 2 ∧
      (run (start { p0 with size := 2 }) (ops.take 5)).woken = [2] ∧
      (run (start { p0 with size := 2 }) (ops.take 5)).parked = [1] ∧
      (run (start { p0 with size := 2 }) (ops.take 5)).pool.queue = [⟨0⟩] := by decide

/-- non-vacuity of `queue_empty_until_parked` / `no_call_between_check_and_park` (a thread stands between the test and the
parking), of `push_notifies` (mutex free, a thread blocked, a refill that is accepted), of `timeout_enabled` /
`giveUp_enabled` and of `wake_progress` (invariant, a queued resource, a blocked thread) -/
example :
    (run (start p0) [.call (.acquire 1) 0]).owner = some 1 ∧
    (let s := run (start p0) [.call (.acquire 1) 0, .park 1]
     s.owner = none ∧ s.parked ≠ [] ∧ notifies s.pool (.giveBack ⟨0⟩ 0) = true ∧ 1 ∈ s.parked ∧
       1 ∈ (step s (.timeout 1)).expired ∧ (step s (.timeout 1)).owner = none) ∧
    (let s := run (start { p0 with size := 2 }) [.call (.acquire 1) 0, .park 1, .call (.acquire 2) 0, .park 2,
       .call (.giveBack ⟨0⟩ 0) 2]
     s.pool.queue ≠ [] ∧ s.parked ≠ []) := by decide

example : Inv (run (start { p0 with size := 2 }) [.call (.acquire 1) 0, .park 1, .call (.acquire 2) 0, .park 2,
    .call (.giveBack ⟨0⟩ 0) 2]) :=
  run_inv _ (inv_start _) _ (by decide)

/-- non-vacuity of `run_pool_inv`: `Pool.init` satisfies `Pool.Inv`; a run whose calls are all `OpOk` -/
example : Pool.Inv Pool.init ∧
    (∀ pop pick, Op.call pop pick ∈ ([.call (.acquire 1) 0, .call (.acquire 2) 0, .call (.acquire 3) 0, .park 3,
      .call .newGen 0, .call (.dropItem 1) 3, .call (.giveBack ⟨1⟩ 1) 3, .resume 3] : List Op) → OpOk pop) ∧
    (run (start Pool.init) [.call (.acquire 1) 0, .call (.acquire 2) 0, .call (.acquire 3) 0, .park 3,
      .call .newGen 0, .call (.dropItem 1) 3, .call (.giveBack ⟨1⟩ 1) 3, .resume 3]).pool.held.head? =
        some (3, ⟨⟨1⟩, 1⟩) := by
  refine ⟨⟨by intro r hr; revert r; decide, by decide, by intro x hx; cases hx⟩, ?_, by decide⟩
  intro pop pick h
  simp only [List.mem_cons, List.not_mem_nil, or_false] at h
  rcases h with h | h | h | h | h | h | h | h <;> cases h <;> simp [OpOk]

/-! ### small-scope exploration (cross-check of the general theorem, and how the counter-examples were found) -/

/-- depth-first search for a `Stuck` state over the runs of at most `n` non-stuttering steps from `s` with steps drawn from
`alpha`; returns the first trace found -/
def explore (alpha : List Op) : Nat → St → Option (List Op)
  | 0, s => if Stuck s then some [] else none
  | n + 1, s =>
    if Stuck s then some []
    else alpha.findSome? (fun op =>
      let s' := step s op
      if s' = s then none else (explore alpha n s').map (op :: ·))

theorem explore_some (alpha : List Op) : ∀ (n : Nat) (s : St) (tr : List Op),
    explore alpha n s = some tr → Stuck (run s tr) ∧ ∀ op ∈ tr, op ∈ alpha := by
  intro n
  induction n with
  | zero =>
    intro s tr h
    simp only [explore] at h
    split at h
    · simp only [Option.some.injEq] at h; subst h; simpa [run]
    · simp at h
  | succ n ih =>
    intro s tr h
    simp only [explore] at h
    split at h
    · simp only [Option.some.injEq] at h; subst h; simpa [run]
    · obtain ⟨op, hop, hx⟩ := List.exists_of_findSome?_eq_some h
      split at hx
      · simp at hx
      · obtain ⟨tr', htr', rfl⟩ := Option.map_eq_some_iff.mp hx
        obtain ⟨h1, h2⟩ := ih _ _ htr'
        refine ⟨by simpa [run] using h1, ?_⟩
        intro o ho
        rcases List.mem_cons.mp ho with rfl | ho
        · exact hop
        · exact h2 o ho

/-- two threads that acquire (and may block, be woken spuriously, time out, resume, give up, drop what they hold), refills
that notify either thread, `clear` -/
def stdAlpha : List Op :=
  [.call (.acquire 1) 0, .call (.acquire 2) 0, .park 1, .park 2, .spurious 1, .spurious 2, .timeout 1, .timeout 2,
   .resume 1, .resume 2, .giveUp 1, .giveUp 2, .call (.giveBack ⟨0⟩ 0) 1, .call (.giveBack ⟨0⟩ 0) 2,
   .call (.dropItem 1) 1, .call (.dropItem 2) 2, .call .clear 0]

/-- exhaustive: no run of at most 6 effective std steps over this alphabet, pool size 1 or 2, reaches `Stuck`
(an instance of `wake_safe`, computed independently of its proof) -/
theorem explore_std : explore stdAlpha 6 (start p0) = none ∧ explore stdAlpha 6 (start { p0 with size := 2 }) = none := by
  decide +kernel

/-- … with the POSIX step the search finds the stolen wake-up after 6 steps (and nothing shorter) -/
theorem explore_posix :
    explore (stdAlpha ++ [.weakSteal 1, .weakSteal 2]) 6 (start p0) =
      some [.call (.acquire 1) 0, .park 1, .call (.acquire 2) 0, .park 2, .call (.giveBack ⟨0⟩ 0) 1, .weakSteal 1] ∧
    explore (stdAlpha ++ [.weakSteal 1, .weakSteal 2]) 5 (start p0) = none := by
  decide +kernel

end PoolWake
