namespace Lottery

def ratAbs (q : Rat) : Rat := if q < 0 then -q else q

/-- `taylor_comparison` loop: `b` rounds left, `newX` the next term, `phi` the partial sum, `d` the divisor -/
def taylorAux : Nat → Rat → Rat → Rat → Rat → Rat → Bool
  | 0, _, _, _, _, _ => false
  | b + 1, cmp, x, newX, phi, d =>
    let phi' := phi + newX
    let d' := d + 1
    let newX' := newX * x / d'
    let err := ratAbs newX' * 3
    if cmp > phi' + err then false
    else if cmp < phi' - err then true
    else taylorAux b cmp x newX' phi' d'

def taylor (bound : Nat) (cmp x : Rat) : Bool := taylorAux bound cmp x x 1 1

#eval taylor 1000 (3/2) (1/2)   -- 1.5 < e^0.5 = 1.6487 → true
#eval taylor 1000 (17/10) (1/2) -- 1.7 > 1.6487 → false
#eval taylor 1000 (1/(1 - 945/1000)) (29957/10000) -- q=18.18, e^2.9957=20 → should be true, code says false

end Lottery
