namespace Lottery

def ratAbs (q : Rat) : Rat := if q < 0 then -q else q

/-- `taylor_comparison` loop: `b` rounds left, `newX` the next term, `phi` the partial sum, `d` the divisor -/
def taylorAux : Nat → Rat → Rat → Rat → Rat → Rat → Bool
  | 0, _, _, _, _, _ => false
  | b + 1, cmp, x, newX, phi, d =>
    let phi' := phi + newX
    let d' := d + 1
    let newX' := newX * x / d'
    let err := ratAbs newX' * 3
    if cmp > phi' + err then false
    else if cmp < phi' - err then true
    else taylorAux b cmp x newX' phi' d'

def taylor (bound : Nat) (cmp x : Rat) : Bool := taylorAux bound cmp x x 1 1

#eval taylor 1000 (3/2) (1/2)   -- 1.5 < e^0.5 = 1.6487 → true
#eval taylor 1000 (17/10) (1/2) -- 1.7 > 1.6487 → false
#eval taylor 1000 (1/(1 - 945/1000)) (29957/10000) -- q=18.18, e^2.9957=20 → should be true, code says false

end Lottery

/-! ## `is_lottery_won` (num-integer backend) -/
namespace Lottery

/-- exact value of an IEEE-754 binary64 bit pattern; `none` for NaN / infinities -/
def f64ToRat (bits : Nat) : Option Rat :=
  let sign : Nat := bits / 2 ^ 63 % 2
  let e : Nat := bits / 2 ^ 52 % 2048
  let m : Nat := bits % 2 ^ 52
  if e = 2047 then none
  else
    let num : Nat := if e = 0 then m else if e ≥ 1075 then (2 ^ 52 + m) * 2 ^ (e - 1075) else 2 ^ 52 + m
    let den : Nat := if e = 0 then 2 ^ 1074 else if e ≥ 1075 then 1 else 2 ^ (1075 - e)
    let mag : Rat := (num : Rat) / (den : Rat)
    some (if sign = 1 then -mag else mag)

def evMax : Nat := 2 ^ 512

/-- early exit `(phi_f - 1.0).abs() < f64::EPSILON`; the float subtraction is exact on [1/2, 2]
and far from the threshold elsewhere, so the rational comparison decides the same -/
def phiIsOne (phi : Rat) : Bool := ratAbs (phi - 1) < 1 / ((2 ^ 52 : Nat) : Rat)

inductive Res where
  | won | lost | panic
  deriving DecidableEq, Repr

/-- `is_lottery_won(phi_f, ev, stake, total_stake)`; `lnBits` is the double `(1.0 - phi_f).ln()`
as computed by the Rust side (libm is not modelled). -/
def won (phiBits lnBits ev stake total : Nat) : Res :=
  match f64ToRat phiBits with
  | none => .panic
  | some phi =>
    if phiIsOne phi then .won
    else
      match f64ToRat lnBits with
      | none => .panic                     -- `expect("Only fails if the float is infinite or NaN.")`
      | some c =>
        if total = 0 then .panic           -- Ratio with a zero denominator
        else
          let q : Rat := (evMax : Rat) / ((evMax - ev : Nat) : Rat)
          let w : Rat := (stake : Rat) / (total : Rat)
          let x : Rat := -(w * c)
          if taylor 1000 q x then .won else .lost

/-- high-precision reference for `exp x`, `x ≥ 0`: fixed point with `P` fractional bits, all
roundings downward; returns a lower bound `lo` and `hi = lo + slack`. Used only as a test oracle
for the S obligation (the theorems do not depend on it). -/
def expRef (x : Rat) (P N : Nat) : Rat × Rat :=
  let one : Nat := 2 ^ P
  let xs : Nat := (x * (one : Rat)).floor.toNat
  let rec go (j : Nat) (fuel : Nat) (term sum : Nat) : Nat :=
    match fuel with
    | 0 => sum
    | f + 1 =>
      let term' := term * xs / (one * (j + 1))
      go (j + 1) f term' (sum + term')
  let s := go 0 N one one
  let lo : Rat := (s : Rat) / (one : Rat)
  -- slack: rounding (≤ (N+2)^2 ulps, scaled by the magnitude) + tail (≤ last term × 2 when N ≥ 2x)
  let hi : Rat := lo + lo / ((2 ^ (P / 2) : Nat) : Rat)
  (lo, hi)

end Lottery
