import MithrilModel.ClerkComplete
/-! C02 monotonicity (partial): adding material that keeps `NoRepeat` never turns success into failure -/
namespace Clerk

/-- the selected index lists are sub-lists of valid input signatures' lists -/
theorem select_out_sublist (k : Nat) (sigs out : List Sig) (h : select k sigs = .ok out) :
    ∀ o ∈ out, ∃ t ∈ sigs, t.valid = true ∧ o.idxs.Sublist t.idxs := by
  unfold select at h
  simp only at h
  have hM := phase1_invM sigs
  obtain ⟨h1, _, _⟩ := phase2_spec k _ _ [] 0 out h
  intro o ho
  rcases h1 o ho with h | ⟨e, he, rfl⟩
  · simp at h
  · have hd := hM e he
    exact ⟨e.2, hd.1, hd.2.1, by simp only [strip]; exact List.filter_sublist⟩

theorem NoRepeat_sublist {l l' : List Sig} (hs : l.Sublist l') (h : NoRepeat l') : NoRepeat l :=
  ⟨List.Pairwise.sublist (List.Sublist.filter _ hs) h.1, fun s hs' hv => h.2 s (hs.subset hs') hv⟩

/-- **C02 monotonicity outside the duplicate class**: if `l` is a sub-list of `l'` (any
interleaving of extra signatures) and `l'` offers no (key, index) pair twice, a successful
selection on `l` implies a successful selection on `l'`. -/
theorem select_monotone_partial (k : Nat) (hk0 : 0 < k) (l l' : List Sig) (hs : l.Sublist l')
    (hNR : NoRepeat l') (out : List Sig) (h : select k l = .ok out) :
    ∃ out', select k l' = .ok out' := by
  obtain ⟨hpw, _, hdisj, hcount⟩ := select_sound k l out h
  have hsub := select_out_sublist k l out h
  have hNRl := NoRepeat_sublist hs hNR
  refine select_complete k l' hk0 hNR (out.flatMap (·.idxs)) ?_ ?_ ?_
  · -- the selected indices are pairwise distinct
    unfold List.Nodup
    rw [List.pairwise_flatMap]
    refine ⟨?_, ?_⟩
    · intro o ho
      obtain ⟨t, ht, hv, hsl⟩ := hsub o ho
      exact List.Nodup.sublist hsl (hNRl.2 t ht hv)
    · refine List.Pairwise.imp_of_mem ?_ hpw
      intro a b ha hb hab i hi j hj hij
      subst hij
      exact hdisj a ha b hb hab i hi hj
  · intro i hi
    obtain ⟨o, ho, hio⟩ := List.mem_flatMap.mp hi
    obtain ⟨t, ht, hv, hsl⟩ := hsub o ho
    exact ⟨t, hs.subset ht, hv, hsl.subset hio⟩
  · rw [List.length_flatMap]; exact hcount

#print axioms select_monotone_partial
end Clerk
