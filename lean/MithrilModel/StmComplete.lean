import MithrilModel.StmTree
/-!
# Completeness of the STM batch path

The batch path that `MerkleTree::compute_merkle_tree_batch_path` (model `StmTree.batchPath`) GENERATES
for a strictly increasing, in-range, non-empty index list is accepted by
`verify_leaves_membership_from_batch_path` (model `StmTree.verifyBatch`) against the commitment
`(treeRoot leaves, |leaves|)`, for every hash function.

Route: (A) arithmetic of `nextPow2`/`height`; (B) the generator's node table `nodeAt` is the recursive tree
value `sub` of the verifier's soundness proof, position by position; (C) one level of the generator
(`pathLevel`) feeds one level of the verifier (`StmBatch.level`) exactly; (D) induction over the depth for
`pathRun` / `StmBatch.run`; (E) the wrapper tests of `verifyBatch`.
-/
namespace StmComplete
open StmBatch StmTree

/-! ## (A) `nextPow2`, `height` -/

theorem nextPow2_eq (n : Nat) : nextPow2 n = 2 ^ height n := by
  unfold height nextPow2
  split
  · decide
  · rw [Nat.log2_two_pow]

theorem le_nextPow2 (n : Nat) : n ≤ nextPow2 n := by
  unfold nextPow2
  split
  · omega
  · have := @Nat.lt_log2_self (n - 1)
    omega

theorem nextPow2_pos (n : Nat) : 0 < nextPow2 n := by
  rw [nextPow2_eq]; exact Nat.pow_pos (by omega)

theorem nextPow2_le_pow {n k : Nat} (h : n ≤ 2 ^ k) : nextPow2 n ≤ 2 ^ k := by
  unfold nextPow2
  split
  · exact Nat.pow_pos (by omega)
  · have hlt : (n - 1).log2 < k := (Nat.log2_lt (by omega)).mpr (by omega)
    exact Nat.pow_le_pow_right (by omega) hlt

theorem height_le {n k : Nat} (h : n ≤ 2 ^ k) : height n ≤ k := by
  have h1 := nextPow2_le_pow h
  rw [nextPow2_eq] at h1
  exact (Nat.pow_le_pow_iff_right (by omega)).mp h1

/-! ## (B) the node table is the recursive tree value -/

/-- heap positions of depth `d` (the root has depth 0) -/
def AtDepth (d p : Nat) : Prop := 2 ^ d ≤ p + 1 ∧ p + 1 < 2 ^ (d + 1)

theorem AtDepth.left {d p : Nat} (h : AtDepth d p) : AtDepth (d + 1) (2 * p + 1) := by
  unfold AtDepth at *
  have e1 : 2 ^ (d + 1) = 2 * 2 ^ d := by rw [Nat.pow_succ]; omega
  have e2 : 2 ^ (d + 1 + 1) = 2 * 2 ^ (d + 1) := by rw [Nat.pow_succ]; omega
  omega

theorem AtDepth.right {d p : Nat} (h : AtDepth d p) : AtDepth (d + 1) (2 * p + 2) := by
  unfold AtDepth at *
  have e1 : 2 ^ (d + 1) = 2 * 2 ^ d := by rw [Nat.pow_succ]; omega
  have e2 : 2 ^ (d + 1 + 1) = 2 * 2 ^ (d + 1) := by rw [Nat.pow_succ]; omega
  omega

theorem AtDepth.parent {d p : Nat} (h : AtDepth (d + 1) p) : AtDepth d (parent p) := by
  unfold AtDepth StmBatch.parent at *
  have e1 : 2 ^ (d + 1) = 2 * 2 ^ d := by rw [Nat.pow_succ]; omega
  have e2 : 2 ^ (d + 1 + 1) = 2 * 2 ^ (d + 1) := by rw [Nat.pow_succ]; omega
  have : 0 < 2 ^ d := Nat.pow_pos (by omega)
  omega

theorem AtDepth.ne_zero {d p : Nat} (h : AtDepth (d + 1) p) : p ≠ 0 := by
  unfold AtDepth at h
  have e1 : 2 ^ (d + 1) = 2 * 2 ^ d := by rw [Nat.pow_succ]; omega
  have : 0 < 2 ^ d := Nat.pow_pos (by omega)
  omega

theorem AtDepth.zero {p : Nat} (h : AtDepth 0 p) : p = 0 := by
  unfold AtDepth at h; simp at h; omega

variable {H : Bytes → Bytes}

theorem go_succ (leaves : List Bytes) (n np f p : Nat) :
    nodeAt.go H leaves n np (f + 1) p =
      if p ≥ n + np - 1 then H [0]
      else if p ≥ np - 1 then (match leaves[p - (np - 1)]? with | some x => H x | none => H [0])
      else H (nodeAt.go H leaves n np f (2 * p + 1) ++ nodeAt.go H leaves n np f (2 * p + 2)) := rfl

/-- with enough fuel the table entry at a position of depth `d` is the tree value of height `ht - d` -/
theorem go_eq_sub (leaves : List Bytes) (ht : Nat) :
    ∀ (h e d p : Nat), d + h = ht → AtDepth d p →
      nodeAt.go H leaves leaves.length (2 ^ ht) (h + 1 + e) p
        = sub H leaves (H [0]) (2 ^ ht - 1) h p := by
  intro h
  induction h with
  | zero =>
    intro e d p hd hp
    have hd' : d = ht := by omega
    subst hd'
    unfold AtDepth at hp
    rw [show 0 + 1 + e = e + 1 by omega, go_succ]
    simp only [sub, leafVal]
    by_cases h1 : p ≥ leaves.length + 2 ^ d - 1
    · rw [if_pos h1, List.getElem?_eq_none (by omega)]
    · rw [if_neg h1, if_pos (by omega)]
      cases leaves[p - (2 ^ d - 1)]? <;> rfl
  | succ h ih =>
    intro e d p hd hp
    have e1 : 2 ^ ht = 2 ^ (d + 1) * 2 ^ h := by
      rw [← Nat.pow_add]; congr 1; omega
    have hpos : 0 < 2 ^ h := Nat.pow_pos (by omega)
    have hlt : p + 1 < 2 ^ ht := by
      have := hp.2
      calc p + 1 < 2 ^ (d + 1) := this
        _ ≤ 2 ^ (d + 1) * 2 ^ h := Nat.le_mul_of_pos_right _ hpos
        _ = 2 ^ ht := e1.symm
    rw [show h + 1 + 1 + e = (h + 1 + e) + 1 by omega, go_succ]
    rw [if_neg (by omega), if_neg (by omega)]
    simp only [sub]
    rw [ih e (d + 1) (2 * p + 1) (by omega) hp.left, ih e (d + 1) (2 * p + 2) (by omega) hp.right]

/-- `N p`: the generator's node table -/
theorem nodeAt_eq_sub (leaves : List Bytes) {d h p : Nat} (hd : d + h = height leaves.length)
    (hp : AtDepth d p) :
    nodeAt H leaves p
      = sub H leaves (H [0]) (nextPow2 leaves.length - 1) h p := by
  unfold nodeAt
  simp only [nextPow2_eq]
  have := go_eq_sub (H := H) leaves (height leaves.length) h (height leaves.length + 2 - (h + 1)) d p hd hp
  rw [show h + 1 + (height leaves.length + 2 - (h + 1)) = height leaves.length + 2 by omega] at this
  exact this

/-- the committed root is entry 0 of the table -/
theorem treeRoot_eq_nodeAt (leaves : List Bytes) : treeRoot H leaves = nodeAt H leaves 0 := by
  unfold treeRoot
  rw [nodeAt_eq_sub leaves (d := 0) (h := height leaves.length) (by omega) (by unfold AtDepth; simp)]

/-- an inner entry is the hash of its two children -/
theorem nodeAt_inner (leaves : List Bytes) {d p : Nat} (hd : d < height leaves.length)
    (hp : AtDepth d p) :
    nodeAt H leaves p = H (nodeAt H leaves (2 * p + 1) ++ nodeAt H leaves (2 * p + 2)) := by
  obtain ⟨h, hh⟩ : ∃ h, d + (h + 1) = height leaves.length := ⟨height leaves.length - d - 1, by omega⟩
  rw [nodeAt_eq_sub leaves hh hp, nodeAt_eq_sub leaves (d := d + 1) (h := h) (by omega) hp.left,
    nodeAt_eq_sub leaves (d := d + 1) (h := h) (by omega) hp.right]
  rfl

/-- positions beyond the table carry the padding value -/
theorem nodeAt_pad (leaves : List Bytes) {q : Nat}
    (hq : leaves.length + nextPow2 leaves.length - 1 ≤ q) : nodeAt H leaves q = H [0] := by
  unfold nodeAt
  simp only
  rw [go_succ, if_pos hq]

/-- the leaf entries -/
theorem nodeAt_leaf (leaves : List Bytes) {i : Nat} (hi : i < leaves.length) :
    nodeAt H leaves (i + (nextPow2 leaves.length - 1)) = H leaves[i] := by
  unfold nodeAt
  simp only
  have := nextPow2_pos leaves.length
  rw [go_succ, if_neg (by omega), if_pos (by omega)]
  rw [show i + (nextPow2 leaves.length - 1) - (nextPow2 leaves.length - 1) = i by omega]
  rw [List.getElem?_eq_getElem hi]

/-! ## (C) one level: the generator feeds the verifier -/

section eqs
variable (nr : Nat) (Z : Bytes)

theorem level_one_even {p : Nat} (h : Bytes) (v : Bytes) (vs : List Bytes) (h0 : p ≠ 0) (he : p % 2 = 0) :
    level H nr Z [(p, h)] (v :: vs) = some ([(parent p, H (v ++ h))], vs) := by
  simp [level, h0, he]

theorem level_one_odd_in {p : Nat} (h : Bytes) (v : Bytes) (vs : List Bytes) (ho : ¬ p % 2 = 0)
    (hin : p + 1 < nr) :
    level H nr Z [(p, h)] (v :: vs) = some ([(parent p, H (h ++ v))], vs) := by
  have h0 : p ≠ 0 := by omega
  simp [level, h0, ho, hin]

theorem level_one_odd_pad {p : Nat} (h : Bytes) (vs : List Bytes) (ho : ¬ p % 2 = 0)
    (hin : ¬ p + 1 < nr) :
    level H nr Z [(p, h)] vs = some ([(parent p, H (h ++ Z))], vs) := by
  have h0 : p ≠ 0 := by omega
  simp [level, h0, ho, hin]

theorem level_cons_even {p p2 : Nat} (h h2 v : Bytes) (r : List (Nat × Bytes)) (vs : List Bytes)
    {r' : List (Nat × Bytes)} {vs' : List Bytes} (h0 : p ≠ 0) (he : p % 2 = 0)
    (hr : level H nr Z ((p2, h2) :: r) vs = some (r', vs')) :
    level H nr Z ((p, h) :: (p2, h2) :: r) (v :: vs) = some ((parent p, H (v ++ h)) :: r', vs') := by
  simp [level, h0, he, hr]

theorem level_cons_pair {p : Nat} (h h2 : Bytes) (r : List (Nat × Bytes)) (vs : List Bytes)
    {r' : List (Nat × Bytes)} {vs' : List Bytes} (ho : ¬ p % 2 = 0)
    (hr : level H nr Z r vs = some (r', vs')) :
    level H nr Z ((p, h) :: (p + 1, h2) :: r) vs = some ((parent p, H (h ++ h2)) :: r', vs') := by
  have h0 : p ≠ 0 := by omega
  simp [level, h0, ho, hr]

theorem level_cons_odd_in {p p2 : Nat} (h h2 v : Bytes) (r : List (Nat × Bytes)) (vs : List Bytes)
    {r' : List (Nat × Bytes)} {vs' : List Bytes} (ho : ¬ p % 2 = 0) (hne : ¬ p2 = p + 1)
    (hin : p + 1 < nr)
    (hr : level H nr Z ((p2, h2) :: r) vs = some (r', vs')) :
    level H nr Z ((p, h) :: (p2, h2) :: r) (v :: vs) = some ((parent p, H (h ++ v)) :: r', vs') := by
  have h0 : p ≠ 0 := by omega
  simp [level, h0, ho, hne, hin, hr]

theorem level_cons_odd_pad {p p2 : Nat} (h h2 : Bytes) (r : List (Nat × Bytes)) (vs : List Bytes)
    {r' : List (Nat × Bytes)} {vs' : List Bytes} (ho : ¬ p % 2 = 0) (hne : ¬ p2 = p + 1)
    (hin : ¬ p + 1 < nr)
    (hr : level H nr Z ((p2, h2) :: r) vs = some (r', vs')) :
    level H nr Z ((p, h) :: (p2, h2) :: r) vs = some ((parent p, H (h ++ Z)) :: r', vs') := by
  have h0 : p ≠ 0 := by omega
  simp [level, h0, ho, hne, hin, hr]
end eqs

/-- what the level lemma needs to know about a position -/
def Good (H : Bytes → Bytes) (leaves : List Bytes) (nr p : Nat) : Prop :=
  p ≠ 0 ∧ p < nr ∧ nodeAt H leaves (parent p)
      = H (nodeAt H leaves (2 * parent p + 1) ++ nodeAt H leaves (2 * parent p + 2))

theorem Good.even {leaves : List Bytes} {nr p : Nat} (g : Good H leaves nr p) (he : p % 2 = 0) :
    H (nodeAt H leaves (p - 1) ++ nodeAt H leaves p) = nodeAt H leaves (parent p) := by
  obtain ⟨h0, _, h⟩ := g
  rw [h, parent_even h0 he, show 2 * parent p + 1 = p - 1 by unfold parent; omega]

theorem Good.odd {leaves : List Bytes} {nr p : Nat} (g : Good H leaves nr p) (ho : ¬ p % 2 = 0) :
    H (nodeAt H leaves p ++ nodeAt H leaves (p + 1)) = nodeAt H leaves (parent p) := by
  obtain ⟨h0, _, h⟩ := g
  rw [h, parent_odd h0 ho, show 2 * parent p + 2 = p + 1 by unfold parent; omega]

/-- **one level.** On the entries `(p, N p)` of a strictly increasing position list, fed with the values
`pathLevel` emits for that list (followed by anything), the verifier's level consumes exactly those values
and yields the entries `(q, N q)` of the position list `pathLevel` hands to the next level. The three
sibling cases of both loops line up: sibling next in the list / sibling value taken from the path /
right sibling beyond the table = padding `H [0]`. -/
theorem level_complete (leaves : List Bytes) (nr : Nat)
    (hZ : ∀ q, nr ≤ q → nodeAt H leaves q = H [0]) :
    ∀ (ps : List Nat) (rest : List Bytes),
      ps.Pairwise (· < ·) → (∀ p ∈ ps, Good H leaves nr p) →
      level H nr (H [0]) (ps.map fun p => (p, nodeAt H leaves p))
          ((pathLevel H leaves nr ps).2 ++ rest)
        = some ((pathLevel H leaves nr ps).1.map fun p => (p, nodeAt H leaves p), rest) := by
  intro ps
  fun_induction pathLevel H leaves nr ps
  · intro rest _ _
    simp [level]
  · rename_i p sib
    intro rest _ hg
    have g := hg p (by simp)
    simp only [List.map_cons, List.map_nil]
    by_cases he : p % 2 = 0
    · have hs : sib = p - 1 := by simp [sib, he]
      have hlt : p - 1 < nr := by have := g.2.1; omega
      rw [hs, if_pos hlt]
      simp only [List.cons_append, List.nil_append]
      rw [level_one_even nr _ _ _ _ g.1 he, g.even he]
    · have hs : sib = p + 1 := by simp [sib]; omega
      rw [hs]
      by_cases hin : p + 1 < nr
      · rw [if_pos hin]
        simp only [List.cons_append, List.nil_append]
        rw [level_one_odd_in nr _ _ _ _ he hin, g.odd he]
      · rw [if_neg hin]
        simp only [List.nil_append]
        rw [level_one_odd_pad nr _ _ _ he hin, ← hZ (p + 1) (by omega), g.odd he]
  · rename_i p r sib ps' vs' hx ih
    intro rest hs hg
    have g := hg p (by simp)
    have hlt : p < sib := (List.pairwise_cons.mp hs).1 sib (by simp)
    have ho : ¬ p % 2 = 0 := by
      intro he
      have : sib = p - 1 := by simp [sib, he]
      omega
    have hs' : sib = p + 1 := by simp [sib]; omega
    rw [hs'] at hs hg ⊢
    have hr := ih rest (List.pairwise_cons.mp (List.pairwise_cons.mp hs).2).2
      (fun q hq => hg q (by simp [hq]))
    rw [hx] at hr
    simp only [List.map_cons]
    rw [level_cons_pair nr _ _ _ _ _ ho hr, g.odd ho]
  · rename_i p p2 r sib hne ps' vs' hx ih
    intro rest hs hg
    have g := hg p (by simp)
    have hr0 := ih
    rw [hx] at hr0
    simp only [List.map_cons] at hr0 ⊢
    by_cases he : p % 2 = 0
    · have hs1 : sib = p - 1 := by simp [sib, he]
      have hlt : p - 1 < nr := by have := g.2.1; omega
      rw [hs1, if_pos hlt]
      simp only [List.cons_append, List.nil_append]
      have hr := hr0 rest (List.pairwise_cons.mp hs).2 (fun q hq => hg q (by simp [hq]))
      rw [level_cons_even nr _ _ _ _ _ _ g.1 he hr, g.even he]
    · have hs1 : sib = p + 1 := by simp [sib]; omega
      rw [hs1] at hne ⊢
      have hr := hr0 rest (List.pairwise_cons.mp hs).2 (fun q hq => hg q (by simp [hq]))
      by_cases hin : p + 1 < nr
      · rw [if_pos hin]
        simp only [List.cons_append, List.nil_append]
        rw [level_cons_odd_in nr _ _ _ _ _ _ he hne hin hr, g.odd he]
      · rw [if_neg hin]
        simp only [List.nil_append]
        rw [level_cons_odd_pad nr _ _ _ _ _ he hne hin hr, ← hZ (p + 1) (by omega), g.odd he]

/-! the positions of the next level -/

theorem pathLevel_lb (leaves : List Bytes) (nr : Nat) :
    ∀ (ps : List Nat) (m : Nat), (∀ p ∈ ps, m ≤ p) →
      ∀ q ∈ (pathLevel H leaves nr ps).1, parent m ≤ q := by
  intro ps
  fun_induction pathLevel H leaves nr ps
  · intro m _ q hq; simp at hq
  · rename_i p sib
    intro m hm q hq
    simp only [List.mem_cons, List.not_mem_nil, or_false] at hq
    have := hm p (by simp)
    subst hq; unfold parent; omega
  · rename_i p r sib ps' vs' hx ih
    intro m hm q hq
    rw [hx] at ih
    rcases List.mem_cons.mp hq with rfl | hq
    · have := hm p (by simp)
      unfold parent; omega
    · exact ih m (fun x hx => hm x (by simp [hx])) q hq
  · rename_i p p2 r sib hne ps' vs' hx ih
    intro m hm q hq
    rw [hx] at ih
    rcases List.mem_cons.mp hq with rfl | hq
    · have := hm p (by simp)
      unfold parent; omega
    · exact ih m (fun x hx => hm x (List.mem_cons_of_mem _ hx)) q hq

theorem pathLevel_mem (leaves : List Bytes) (nr : Nat) :
    ∀ (ps : List Nat), ∀ q ∈ (pathLevel H leaves nr ps).1, ∃ p ∈ ps, q = parent p := by
  intro ps
  fun_induction pathLevel H leaves nr ps
  · intro q hq; simp at hq
  · rename_i p sib
    intro q hq
    simp only [List.mem_cons, List.not_mem_nil, or_false] at hq
    exact ⟨p, by simp, hq⟩
  · rename_i p r sib ps' vs' hx ih
    intro q hq
    rw [hx] at ih
    rcases List.mem_cons.mp hq with rfl | hq
    · exact ⟨p, by simp, rfl⟩
    · obtain ⟨x, hx, rfl⟩ := ih q hq
      exact ⟨x, by simp [hx], rfl⟩
  · rename_i p p2 r sib hne ps' vs' hx ih
    intro q hq
    rw [hx] at ih
    rcases List.mem_cons.mp hq with rfl | hq
    · exact ⟨p, by simp, rfl⟩
    · obtain ⟨x, hx, rfl⟩ := ih q hq
      exact ⟨x, List.mem_cons_of_mem _ hx, rfl⟩

theorem pathLevel_ne_nil (leaves : List Bytes) (nr : Nat) :
    ∀ (ps : List Nat), ps ≠ [] → (pathLevel H leaves nr ps).1 ≠ [] := by
  intro ps
  fun_induction pathLevel H leaves nr ps <;> simp

theorem pathLevel_sorted (leaves : List Bytes) (nr : Nat) :
    ∀ (ps : List Nat), ps.Pairwise (· < ·) → (∀ p ∈ ps, p ≠ 0) →
      (pathLevel H leaves nr ps).1.Pairwise (· < ·) := by
  intro ps
  fun_induction pathLevel H leaves nr ps
  · intro _ _; simp
  · intro _ _; simp
  · rename_i p r sib ps' vs' hx ih
    intro hs h0
    have hp0 := h0 p (by simp)
    have hlt : p < sib := (List.pairwise_cons.mp hs).1 sib (by simp)
    have ho : ¬ p % 2 = 0 := by
      intro he
      have : sib = p - 1 := by simp [sib, he]
      omega
    have hs' : sib = p + 1 := by simp [sib]; omega
    rw [hs'] at hs
    have hs2 := List.pairwise_cons.mp (List.pairwise_cons.mp hs).2
    have hlb := pathLevel_lb (H := H) leaves nr r (p + 2) (fun x hx => by have := hs2.1 x hx; omega)
    rw [hx] at ih hlb
    refine List.pairwise_cons.mpr ⟨?_, ih hs2.2 (fun x hx => h0 x (by simp [hx]))⟩
    intro q hq
    have := hlb q hq
    unfold parent at *; omega
  · rename_i p p2 r sib hne ps' vs' hx ih
    intro hs h0
    have hp0 := h0 p (by simp)
    have hs1 := List.pairwise_cons.mp hs
    have hlt : p < p2 := hs1.1 p2 (by simp)
    have hs2 := List.pairwise_cons.mp hs1.2
    rw [hx] at ih
    refine List.pairwise_cons.mpr ⟨?_, ih hs1.2 (fun x hx => h0 x (List.mem_cons_of_mem _ hx))⟩
    intro q hq
    by_cases he : p % 2 = 0
    · have hlb := pathLevel_lb (H := H) leaves nr (p2 :: r) (p + 1)
        (fun x hx => by have := hs1.1 x hx; omega)
      rw [hx] at hlb
      have := hlb q hq
      unfold parent at *; omega
    · have hs' : sib = p + 1 := by simp [sib]; omega
      rw [hs'] at hne
      have hlb := pathLevel_lb (H := H) leaves nr (p2 :: r) (p + 2) (fun x hx => by
        rcases List.mem_cons.mp hx with rfl | hx
        · omega
        · have := hs2.1 x hx; omega)
      rw [hx] at hlb
      have := hlb q hq
      unfold parent at *; omega

/-! ## (D) all levels -/

theorem pathRun_succ_cons (leaves : List Bytes) (nr f p : Nat) (ps : List Nat) :
    pathRun H leaves nr (f + 1) (p :: ps) =
      if p = 0 then [] else
        (pathLevel H leaves nr (p :: ps)).2 ++ pathRun H leaves nr f (pathLevel H leaves nr (p :: ps)).1 := rfl

theorem run_zero_head (nr : Nat) (Z : Bytes) (f : Nat) (h : Bytes) (es : List (Nat × Bytes)) (vs : List Bytes) :
    run H nr Z f ((0, h) :: es) vs = some ((0, h) :: es) := by
  cases f <;> simp [run]

theorem run_succ_cons (nr : Nat) (Z : Bytes) (f p : Nat) (h : Bytes) (es : List (Nat × Bytes))
    (vs : List Bytes) (h0 : p ≠ 0) {es' : List (Nat × Bytes)} {vs' : List Bytes}
    (hl : level H nr Z ((p, h) :: es) vs = some (es', vs')) :
    run H nr Z (f + 1) ((p, h) :: es) vs = run H nr Z f es' vs' := by
  simp [run, h0, hl]

/-- **all levels.** From a non-empty strictly increasing list of table positions of one depth `d`, with fuel
at least `d` on both sides, the verifier's loop over the entries `(p, N p)` and the path `pathRun` generates
ends in exactly `[(0, N 0)]`. -/
theorem run_complete (leaves : List Bytes) (hn : 0 < leaves.length) :
    ∀ (d f g : Nat) (ps : List Nat), d ≤ height leaves.length → d ≤ f → d ≤ g → ps ≠ [] →
      ps.Pairwise (· < ·) →
      (∀ p ∈ ps, AtDepth d p ∧ p < leaves.length + nextPow2 leaves.length - 1) →
      run H (leaves.length + nextPow2 leaves.length - 1) (H [0]) f
          (ps.map fun p => (p, nodeAt H leaves p))
          (pathRun H leaves (leaves.length + nextPow2 leaves.length - 1) g ps)
        = some [(0, nodeAt H leaves 0)] := by
  intro d
  induction d with
  | zero =>
    intro f g ps _ _ _ hne hs hd
    match ps, hne with
    | a :: t, _ =>
      have ha : a = 0 := (hd a (by simp)).1.zero
      subst ha
      have ht : t = [] := by
        cases t with
        | nil => rfl
        | cons b t' =>
          have hb : b = 0 := (hd b (by simp)).1.zero
          have := (List.pairwise_cons.mp hs).1 b (by simp)
          omega
      subst ht
      simp only [List.map_cons, List.map_nil]
      exact run_zero_head _ _ _ _ _ _
  | succ d ih =>
    intro f g ps hdh hf hg hne hs hd
    obtain ⟨f', rfl⟩ : ∃ f', f = f' + 1 := ⟨f - 1, by omega⟩
    obtain ⟨g', rfl⟩ : ∃ g', g = g' + 1 := ⟨g - 1, by omega⟩
    match ps, hne with
    | a :: t, _ =>
      have ha0 : a ≠ 0 := (hd a (by simp)).1.ne_zero
      have hnp : nextPow2 leaves.length = 2 ^ height leaves.length := nextPow2_eq _
      have hgood : ∀ p ∈ a :: t, Good H leaves (leaves.length + nextPow2 leaves.length - 1) p := by
        intro p hp
        obtain ⟨h1, h2⟩ := hd p hp
        exact ⟨h1.ne_zero, h2, nodeAt_inner leaves (by omega) h1.parent⟩
      have hl := level_complete (H := H) leaves (leaves.length + nextPow2 leaves.length - 1)
        (fun q hq => nodeAt_pad leaves hq) (a :: t)
        (pathRun H leaves (leaves.length + nextPow2 leaves.length - 1) g'
          (pathLevel H leaves (leaves.length + nextPow2 leaves.length - 1) (a :: t)).1) hs hgood
      rw [pathRun_succ_cons, if_neg ha0]
      simp only [List.map_cons] at hl ⊢
      rw [run_succ_cons _ _ _ _ _ _ _ ha0 hl]
      refine ih f' g' _ (by omega) (by omega) (by omega)
        (pathLevel_ne_nil leaves _ _ (by simp))
        (pathLevel_sorted leaves _ _ hs (fun p hp => (hd p hp).1.ne_zero)) ?_
      intro q hq
      obtain ⟨p, hp, rfl⟩ := pathLevel_mem leaves _ _ q hq
      have hpd := (hd p hp).1.parent
      refine ⟨hpd, ?_⟩
      have h1 := hpd.2
      have h2 : 2 ^ (d + 1) ≤ 2 ^ height leaves.length := Nat.pow_le_pow_right (by omega) hdh
      omega

/-! ## (E) the wrapper -/

theorem sortedLE_of_pairwise : ∀ (l : List Nat), l.Pairwise (· < ·) → sortedLE l = true
  | [], _ => rfl
  | [_], _ => rfl
  | a :: b :: r, h => by
    have h1 := List.pairwise_cons.mp h
    have : a ≤ b := Nat.le_of_lt (h1.1 b (by simp))
    simp [sortedLE, this, sortedLE_of_pairwise (b :: r) h1.2]

theorem claims_entries (leaves : List Bytes) :
    ∀ (idx : List Nat), (∀ i ∈ idx, i < leaves.length) →
      ((idx.zip (idx.map fun i => leaves[i]!)).map fun p => (p.1 + (nextPow2 leaves.length - 1), H p.2))
        = (idx.map (· + (nextPow2 leaves.length - 1))).map fun p => (p, nodeAt H leaves p) := by
  intro idx
  induction idx with
  | nil => intro _; rfl
  | cons a t ih =>
    intro h
    have ha : a < leaves.length := h a (by simp)
    simp only [List.map_cons, List.zip_cons_cons]
    rw [ih (fun i hi => h i (by simp [hi])), nodeAt_leaf leaves ha, getElem!_pos leaves a ha]

/-- **Completeness of the STM batch path** (model level): for every hash function, every non-empty leaf
list below `2^63` leaves (beyond, `verifyBatch` is in its overflow outcomes) and every non-empty strictly
increasing list of in-range indices, the path the tree generates for those indices makes the verifier
accept the leaves at those indices against the commitment `(treeRoot leaves, |leaves|)`. -/
theorem verifyBatch_complete (H : Bytes → Bytes) (leaves : List Bytes) (hne : leaves ≠ [])
    (hlen : leaves.length < 2 ^ 63) (idx : List Nat) (hidx : idx ≠ [])
    (hsorted : idx.Pairwise (· < ·)) (hin : ∀ i ∈ idx, i < leaves.length) :
    verifyBatch H (treeRoot H leaves) leaves.length (idx.map fun i => leaves[i]!)
      (batchPath H leaves idx) idx = .ok := by
  have hn : 0 < leaves.length := List.length_pos_iff.mpr hne
  have hnp := nextPow2_le_pow (Nat.le_of_lt hlen)
  have hnp0 := nextPow2_pos leaves.length
  have hnple := le_nextPow2 leaves.length
  have hht := height_le (Nat.le_of_lt hlen)
  have hpw : nextPow2 leaves.length = 2 ^ height leaves.length := nextPow2_eq _
  have hrun := run_complete (H := H) leaves hn (height leaves.length) 65 65
    (idx.map (· + (nextPow2 leaves.length - 1))) (Nat.le_refl _) (by omega) (by omega)
    (by simpa using hidx)
    (by
      rw [List.pairwise_map]
      exact hsorted.imp (by intro a b h; omega))
    (by
      intro p hp
      obtain ⟨i, hi, rfl⟩ := List.mem_map.mp hp
      have := hin i hi
      refine ⟨⟨by omega, ?_⟩, by omega⟩
      rw [Nat.pow_succ]; omega)
  rw [← claims_entries leaves idx hin] at hrun
  have hany : (idx.any fun i => decide (i + nextPow2 leaves.length ≥ U64)) = false := by
    rw [List.any_eq_false]
    intro i hi
    have := hin i hi
    have h2 : ¬ (i + nextPow2 leaves.length ≥ U64) := by simp only [U64]; omega
    simpa using h2
  unfold verifyBatch
  rw [if_neg (by simp), sortedLE_of_pairwise idx hsorted, if_neg (by simp), if_neg (by omega)]
  simp only
  rw [if_neg (by simp only [U64]; omega), hany, if_neg (by simp)]
  match idx, hidx with
  | a :: t, _ =>
    have hb : batchPath H leaves (a :: t) =
        pathRun H leaves (leaves.length + nextPow2 leaves.length - 1) 65
          (List.map (fun x => x + (nextPow2 leaves.length - 1)) (a :: t)) := rfl
    rw [hb, hrun]
    simp only
    rw [if_pos (treeRoot_eq_nodeAt leaves).symm]

#print axioms verifyBatch_complete
end StmComplete
