import MithrilModel.PmInj
/-!
# C11 at the client: from a verified response to the message compared with the certificate

`mithril-client/src/message.rs`: `MessageBuilder::compute_cardano_transactions_proofs_message`,
`compute_cardano_transactions_proofs_v2_message`, `compute_cardano_blocks_proofs_message`,
`compute_cardano_stake_distribution_message` all CLONE the certificate's own protocol message and overwrite
some parts with the values of the (verified) response — Merkle root and latest block number; plus the
block-number offset; epoch and Merkle root of the distribution — and `MithrilCertificate::match_message`
compares the digest of the result with the certificate's signed message.

A protocol message is a `BTreeMap<ProtocolMessagePartKey, String>`: here the list of (ordinal of the key in
the enum, value) in ascending order; the digest pre-image is `key text ‖ value` over the parts in that
order (`PmInj.pre`, C04). Core Lean only.
-/
namespace ClientMsg

/-- the part names in the order of `enum ProtocolMessagePartKey` (the order of the map) -/
def keyNames : List (List Char) := [
  "snapshot_digest".toList,
  "cardano_transactions_merkle_root".toList,
  "cardano_blocks_transactions_merkle_root".toList,
  "next_aggregate_verification_key".toList,
  "next_protocol_parameters".toList,
  "current_epoch".toList,
  "latest_block_number".toList,
  "cardano_blocks_transactions_block_number_offset".toList,
  "cardano_stake_distribution_epoch".toList,
  "cardano_stake_distribution_merkle_root".toList,
  "cardano_database_merkle_root".toList,
  "next_aggregate_verification_key_snark".toList]

def keyName (i : Nat) : List Char := keyNames.getD i []

abbrev Part := Nat × List Char
abbrev Msg := List Part

/-- `ProtocolMessage::set_message_part` = `BTreeMap::insert` -/
def setPart : Msg → Part → Msg
  | [], p => [p]
  | q :: r, p => if p.1 < q.1 then p :: q :: r else if p.1 = q.1 then p :: r else q :: setPart r p

/-- `MessageBuilder::compute_…_message`: the certificate's own message with the parts of the response written
over it -/
def rebuild (cert : Msg) (sets : List Part) : Msg := sets.foldl setPart cert

def get (m : Msg) (k : Nat) : Option (List Char) := (m.find? (fun p => p.1 == k)).map (·.2)

def text (m : Msg) : List (List Char × List Char) := m.map fun p => (keyName p.1, p.2)

/-- pre-image of `ProtocolMessage::compute_hash` -/
def pre (m : Msg) : List Char := PmInj.pre (text m)

/-- `MithrilCertificate::match_message` for a digest function `Hc` on the text -/
def matchMessage {β : Type} [DecidableEq β] (Hc : List Char → β) (m : Msg) (signed : β) : Bool :=
  decide (Hc (pre m) = signed)

/-! ### what the rebuilt message holds -/

theorem get_setPart_self (m : Msg) (k : Nat) (v : List Char) : get (setPart m (k, v)) k = some v := by
  induction m with
  | nil => simp [setPart, get]
  | cons q r ih =>
    simp only [setPart]
    by_cases h1 : k < q.1
    · simp [h1, get]
    · by_cases h2 : k = q.1
      · simp [h2, get]
      · have hne : (q.1 == k) = false := by rw [beq_eq_false_iff_ne]; exact fun h => h2 h.symm
        simp only [h1, h2, if_false, get, List.find?_cons, hne]
        exact ih

theorem get_setPart_other (m : Msg) (k k' : Nat) (v : List Char) (hne : k' ≠ k) :
    get (setPart m (k, v)) k' = get m k' := by
  have hk : ((k == k') = false) := by rw [beq_eq_false_iff_ne]; exact fun h => hne h.symm
  induction m with
  | nil => simp [setPart, get, hk]
  | cons q r ih =>
    simp only [setPart]
    by_cases h1 : k < q.1
    · simp [h1, get, List.find?_cons, hk]
    · by_cases h2 : k = q.1
      · have hq : (q.1 == k') = false := by rw [← h2]; exact hk
        simp [h2, get, hq]
      · simp only [h1, h2, if_false, get, List.find?_cons]
        cases hq : (q.1 == k') with
        | true => rfl
        | false => exact ih

/-- a part the builder does not write keeps the certificate's own value -/
theorem get_rebuild_other (cert : Msg) (sets : List Part) (k : Nat) (h : ∀ p ∈ sets, p.1 ≠ k) :
    get (rebuild cert sets) k = get cert k := by
  induction sets generalizing cert with
  | nil => rfl
  | cons s r ih =>
    simp only [rebuild, List.foldl_cons]
    have := ih (setPart cert s) (fun p hp => h p (by simp [hp]))
    simp only [rebuild] at this
    rw [this]
    exact get_setPart_other cert s.1 k s.2 (fun he => h s (by simp) he.symm)

/-- a part the builder writes (once) holds the value of the response -/
theorem get_rebuild_set (cert : Msg) (sets : List Part) (hd : sets.Pairwise (fun a b => a.1 ≠ b.1)) :
    ∀ p ∈ sets, get (rebuild cert sets) p.1 = some p.2 := by
  induction sets generalizing cert with
  | nil => intro p hp; simp at hp
  | cons s r ih =>
    intro p hp
    simp only [rebuild, List.foldl_cons]
    have hd' := List.pairwise_cons.mp hd
    rcases List.mem_cons.mp hp with rfl | hp
    · have := get_rebuild_other (setPart cert p) r p.1 (fun q hq he => hd'.1 q hq he.symm)
      simp only [rebuild] at this
      rw [this]
      exact get_setPart_self cert p.1 p.2
    · exact ih (setPart cert s) hd'.2 p hp

/-! ### binding -/

/-- keys of the table, values over `[0-9a-f]*` (hex digests, decimal numbers, hex-encoded keys) -/
def WF (m : Msg) : Prop := ∀ p ∈ m, p.1 < 12 ∧ ∀ c ∈ p.2, PmInj.isHex c = true

theorem keyName_mem : ∀ i < 12, keyName i ∈ PmInj.keys := by decide

theorem keyName_inj : ∀ i < 12, ∀ j < 12, keyName i = keyName j → i = j := by decide

theorem text_wf (m : Msg) (h : WF m) : PmInj.WF (text m) := by
  intro kv hkv
  simp only [text, List.mem_map] at hkv
  obtain ⟨p, hp, rfl⟩ := hkv
  exact ⟨keyName_mem p.1 (h p hp).1, (h p hp).2⟩

theorem text_inj : ∀ (m m' : Msg), WF m → WF m' → text m = text m' → m = m' := by
  intro m
  induction m with
  | nil => intro m' _ _ h; cases m' with
    | nil => rfl
    | cons a r => simp [text] at h
  | cons p r ih =>
    intro m' hw hw' h
    cases m' with
    | nil => simp [text] at h
    | cons p' r' =>
      simp only [text, List.map_cons, List.cons.injEq, Prod.mk.injEq] at h
      obtain ⟨⟨hk, hv⟩, hr⟩ := h
      have h1 := keyName_inj p.1 (hw p (by simp)).1 p'.1 (hw' p' (by simp)).1 hk
      have h2 := ih r' (fun q hq => hw q (by simp [hq])) (fun q hq => hw' q (by simp [hq])) hr
      rw [h2]
      congr 1
      exact Prod.ext h1 hv

/-- **`match_message` binds the whole message**: the digests agree only if the message rebuilt from the
response is the signed message, part by part — or the digest function collides -/
theorem match_binds {β : Type} [DecidableEq β] (Hc : List Char → β) (cert signed : Msg) (sets : List Part)
    (hw : WF (rebuild cert sets)) (hs : WF signed)
    (h : matchMessage Hc (rebuild cert sets) (Hc (pre signed)) = true) :
    rebuild cert sets = signed ∨ ∃ x y : List Char, x ≠ y ∧ Hc x = Hc y := by
  simp only [matchMessage, decide_eq_true_eq] at h
  by_cases hp : pre (rebuild cert sets) = pre signed
  · exact Or.inl (text_inj _ _ hw hs (PmInj.preimage_injective _ _ (text_wf _ hw) (text_wf _ hs) hp))
  · exact Or.inr ⟨_, _, hp, h⟩

/-- … in particular every value the builder took from the response — Merkle root, block number, offset,
epoch — is the signed one, and every other part of the certificate's own message is the signed one -/
theorem match_values {β : Type} [DecidableEq β] (Hc : List Char → β) (cert signed : Msg) (sets : List Part)
    (hd : sets.Pairwise (fun a b => a.1 ≠ b.1)) (hw : WF (rebuild cert sets)) (hs : WF signed)
    (h : matchMessage Hc (rebuild cert sets) (Hc (pre signed)) = true) :
    ((∀ p ∈ sets, get signed p.1 = some p.2) ∧ ∀ k, (∀ p ∈ sets, p.1 ≠ k) → get signed k = get cert k) ∨
    ∃ x y : List Char, x ≠ y ∧ Hc x = Hc y := by
  rcases match_binds Hc cert signed sets hw hs h with he | hc
  · left
    subst he
    exact ⟨get_rebuild_set cert sets hd, fun k hk => get_rebuild_other cert sets k hk⟩
  · exact Or.inr hc

/-- completeness: the message rebuilt from the signed values matches -/
theorem match_complete {β : Type} [DecidableEq β] (Hc : List Char → β) (cert signed : Msg) (sets : List Part)
    (h : rebuild cert sets = signed) : matchMessage Hc (rebuild cert sets) (Hc (pre signed)) = true := by
  simp [matchMessage, h]

end ClientMsg
