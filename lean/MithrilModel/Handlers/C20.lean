import MithrilModel.Proto
import MithrilModel.Signer
/-!
C20 handler. One request = one whole run of the signer:

`c20.run e0=1 imm0=1 sv0=0 cfg=[(0,[m,c,d])] att=2 ret=x evs=[(t,0),(rs),(eu,1),(au),(iu,2),(ro,[(1,1001)]),(dn,1),…]`

The response is the observation after every event, `;`-separated:
`<state>/<result>/r[<registration requests of this event>]/p[<signatures received by the aggregator in this event>]/i[<initializer table>]/s[<stake table>]/b<number of signed beacons>`
and, after the last event, `/B[<signed beacon table>]`.
-/
namespace Handlers.C20
open Proto Signer

def parseDisc : Val → Option Disc
  | .s "m" => some .msd
  | .s "c" => some .csd
  | .s "d" => some .cdb
  | _ => none

def parseBool (v : Val) : Option Bool := v.nat?.map (· != 0)

def parseReg : Val → Option Reg
  | .l [p, k] => do pure ⟨← p.nat?, ← k.nat?⟩
  | _ => none

def parseEvent : Val → Option Event
  | .l [.s "t", b] => (parseBool b).map .tick
  | .l [.s "rs"] => some .restart
  | .l [.s "eu", v] => v.nat?.map .epochUp
  | .l [.s "au"] => some .aggEpochUp
  | .l [.s "iu", n] => n.nat?.map .immUp
  | .l [.s "ro", .l rs] => (rs.mapM parseReg).map .regOthers
  | .l [.s "dn", b] => (parseBool b).map .setDown
  | .l [.s "rc", b] => (parseBool b).map .setRoundClosed
  | .l [.s "rf", b] => (parseBool b).map .setRegFail
  | .l [.s "rd", b] => (parseBool b).map .setRegDrop
  | .l [.s "pf", n] => n.nat?.map .setPubFail
  | .l [.s "mf", n] => n.nat?.map .setMarkFail
  | _ => none

def parseMarker : Val → Option (Nat × List Disc)
  | .l [e, .l ds] => do pure (← e.nat?, ← ds.mapM parseDisc)
  | _ => none

def showMach : Mach → String
  | .init => "I"
  | .unreg e => s!"U{e}"
  | .ready e => s!"R{e}"
  | .notAble e => s!"N{e}"

def showRes : Res → String
  | .none => "-"
  | .ok => "ok"
  | .keep => "keep"
  | .crit => "crit"

def showEntity (x : Entity) : String :=
  match x.disc with
  | .msd => s!"m{x.epoch}"
  | .csd => s!"c{x.epoch}"
  | .cdb => s!"d{x.epoch}.{x.imm}"

def commaSep (l : List String) : String := String.intercalate "," l

def insertSorted (p : Nat × Nat) : List (Nat × Nat) → List (Nat × Nat)
  | [] => [p]
  | q :: rest => if p.1 < q.1 || (p.1 == q.1 && p.2 ≤ q.2) then p :: q :: rest else q :: insertSorted p rest

def sortPairs (l : List (Nat × Nat)) : List (Nat × Nat) := l.foldr insertSorted []

def showPairs (l : List (Nat × Nat)) : String := commaSep ((sortPairs l).map fun p => s!"({p.1},{p.2})")

def showObs (before after : State) (last : Bool) : String :=
  let posts := after.posts.drop before.posts.length
  let pubs := after.pubs.drop before.pubs.length
  let r := commaSep (posts.map fun p => s!"({p.recEpoch},{p.key},{if p.delivered then 1 else 0})")
  let p := commaSep (pubs.map fun p => showEntity p.entity)
  let base := s!"{showMach after.mach}/{showRes after.res}/r[{r}]/p[{p}]/i[{showPairs after.st.inis}]/s[{showPairs after.st.stakes}]/b{after.st.signed.length}"
  if last then
    base ++ "/B[" ++ commaSep (after.st.signed.map fun r => s!"{r.1}:{showEntity r.2}") ++ "]"
  else base

def runReq (r : Req) : Option String := do
  let e0 ← r.nat "e0"
  let imm0 ← r.nat "imm0"
  let sv0 ← r.nat "sv0"
  let cfg ← (← r.list "cfg").mapM parseMarker
  let att ← r.nat "att"
  let ret ← match r.get? "ret" with
    | some (.s "x") => some none
    | some v => v.nat?.map some
    | none => none
  let evs ← (← r.list "evs").mapM parseEvent
  let s0 := initState (initEnv e0 imm0 sv0 cfg att ret)
  let n := evs.length
  let (_, out, _) := evs.foldl (fun (acc : State × List String × Nat) ev =>
    let (s, out, i) := acc
    let s' := step s ev
    (s', showObs s s' (i + 1 == n) :: out, i + 1)) (s0, [], 0)
  pure (String.intercalate ";" out.reverse)

def handle (r : Req) : Option String :=
  match r.op with
  | "c20.run" => runReq r
  | _ => none

end Handlers.C20
