import MithrilModel.Proto
import MithrilModel.Handlers.C09
import MithrilModel.Proofs
import MithrilModel.Sha256
import MithrilModel.CertModel
import MithrilModel.Prover
import MithrilModel.ClientMsg
namespace Handlers.C11
open Proto Proofs MkProof

def mergeS := Handlers.C09.mergeS

def showErr : Err → String
  | .invalidSetProof => "invalid" | .noCertifiedItem => "none" | .nonMatchingRoot => "nonmatching"

def parsePart : Val → Option (List (List UInt8) × MapProof (List UInt8))
  | .l [ls, p] => do pure (← Handlers.C09.hexList (← ls.list?), ← Handlers.C09.parseMap p)
  | _ => none

def showRes : Except Err (List UInt8) → String
  | .ok r => "ok " ++ hexEncode r
  | .error e => "err " ++ showErr e

/-- a part whose proof text does not decode (`MalformedData`) is written `([leafhex…],bad)` -/
def parsePartM : Val → Option (List (List UInt8) × Option (MapProof (List UInt8)))
  | .l [ls, .s "bad"] => do pure (← Handlers.C09.hexList (← ls.list?), none)
  | .l [ls, p] => do pure (← Handlers.C09.hexList (← ls.list?), some (← Handlers.C09.parseMap p))
  | _ => none

/-- `c11.legacy parts=[([leafhex…],<mapproof>|bad)…]`. The loop of `CardanoTransactionsProofsMessage::verify` handles one
part at a time — decode, verify, compare the root — so the class reported is the one of the FIRST failing part: the parts
before the first undecodable one decide, then `malformed`. -/
def legacyReq (r : Req) : Option String := do
  let parts ← (← r.list "parts").mapM parsePartM
  let pre := (parts.takeWhile (·.2.isSome)).filterMap fun (ls, p) => p.map fun q => (ls, q)
  if pre.length == parts.length then pure (showRes (verifyLegacy mergeS pre))
  else
    pure (match rootsLoop mergeS pre none with
      | .error e => "err " ++ showErr e
      | .ok _ => "err malformed")

/-- `c11.v2 part=([leafhex…],<mapproof>)` or `part=none` -/
def v2Req (r : Req) : Option String := do
  match ← r.get? "part" with
  | .s "none" => pure (showRes (verifyV2 mergeS (none : Option (List (List UInt8) × MapProof (List UInt8)))))
  | .l [_, .s "bad"] => pure "err malformed"
  | v => do
    let part ← parsePart v
    pure (showRes (verifyV2 mergeS (some part)))

/-- `c11.mkroot leaves=[hex…]` — root of `MKTree::new(leaves)` (stake distribution tree, block-range trees) -/
def mkrootReq (r : Req) : Option String := do
  let leaves ← Handlers.C09.hexList (← r.list "leaves")
  pure (match MmrBuild.root mergeS leaves with
    | some x => "ok " ++ hexEncode x
    | none => "err empty")

/-- `c11.pmhash pm=[(keyhex,valhex)…]` — digest of a protocol message (C04 model, SHA-256 in Lean) -/
def pmhashReq (r : Req) : Option String := do
  let pm ← (← r.list "pm").mapM fun s =>
    match s with
    | .l [k, v] => do pure (← hexDecode (← k.str?), ← hexDecode (← v.str?))
    | _ => none
  pure (String.ofList ((CertModel.pmHash Sha256.hashL pm).map fun x => Char.ofNat x.toNat))

/-! ### the aggregator's provers (`c11.history`) -/
section prover
open Prover

def parseBlk : Val → Option Blk
  | .l [n, id, slot, txs] => do pure { number := ← n.nat?, hash := ← id.nat?, slot := ← slot.nat?, txs := ← txs.nats? }
  | _ => none

def parseOp : Val → Option Op
  | .l [.s "grow", bs] => do pure (.grow (← (← bs.list?).mapM parseBlk))
  | .l [.s "imp", n] => do pure (.imp (← n.nat?))
  | .l [.s "sign2", u] => do pure (.sign2 (← u.nat?))
  | .l [.s "signl", u] => do pure (.signL (← u.nat?))
  | .l [.s "cache2", u] => do pure (.cache2 (← u.nat?))
  | .l [.s "cachel", u] => do pure (.cacheL (← u.nat?))
  | .l [.s "ptx", u, q] => do pure (.ptx (← u.nat?) (← q.nats?))
  | .l [.s "pblk", u, q] => do pure (.pblk (← u.nat?) (← q.nats?))
  | .l [.s "pl", u, q] => do pure (.pl (← u.nat?) (← q.nats?))
  | _ => none

def showPErr : PErr → String
  | .timeout => "timeout" | .noKey => "nokey" | .rootDiffers => "root"

def showItem : Item → String
  | .block h n s => s!"({h},{n},{s})"
  | .tx t b n s => s!"({t},{b},{n},{s})"

/-- ordinal of first appearance of a root (a map content) among the roots seen in the history -/
def rootId {α : Type} [BEq α] (seen : List α) (m : α) : List α × Nat :=
  match seen.findIdx? (· == m) with
  | some i => (seen, i)
  | none => (seen ++ [m], seen.length)

def showObs (seen2 : List (RMap Item)) (seenL : List (RMap Nat)) : Obs → List (RMap Item) × List (RMap Nat) × String
  | .grown => (seen2, seenL, "-")
  | .cached => (seen2, seenL, "ok")
  | .stored n a l => (seen2, seenL, s!"s{n},{a},{l}")
  | .signed2 m =>
    if m.isEmpty then (seen2, seenL, "err") else let (s', i) := rootId seen2 m; (s', seenL, s!"R{i}")
  | .signedL m =>
    if m.isEmpty then (seen2, seenL, "err") else let (s', i) := rootId seenL m; (seen2, s', s!"L{i}")
  | .proved2 req o m =>
    match o with
    | .none => (seen2, seenL, "nonenc" ++ showNats req)
    | .err e => (seen2, seenL, "err:" ++ showPErr e ++ "nc" ++ showNats req)
    | .ok items =>
      let (s', i) := rootId seen2 m
      (s', seenL, "ok[" ++ String.intercalate "," (items.map showItem) ++ "]nc" ++
        showNats (nonCertified req (items.map Item.key)) ++ s!"R{i}")
  | .provedL req o m =>
    match o with
    | .err e => (seen2, seenL, "err:" ++ showPErr e ++ "nc" ++ showNats req)
    | .ok [] => (seen2, seenL, "ok[]nc" ++ showNats req)
    | .ok c =>
      let (s', i) := rootId seenL m
      (seen2, s', "ok" ++ showNats c ++ "nc" ++ showNats (nonCertified req c) ++ s!"L{i}")

/-- `c11.history ops=[…]` → per op, `;`-joined: `-` | `s<blocks>,<roots>,<legacy roots>` | `R<i>`/`L<i>`/`err` | `ok` |
`none|err:<class>|ok[items]` `nc[not certified]` `R<i>` -/
def historyReq (r : Req) : Option String := do
  let ops ← (← r.list "ops").mapM parseOp
  let (_, obs) := Prover.run {} ops
  let (_, _, outs) := obs.foldl (fun (acc : List (RMap Item) × List (RMap Nat) × List String) o =>
    let (a, b, t) := showObs acc.1 acc.2.1 o
    (a, b, acc.2.2 ++ [t])) ([], [], [])
  pure (String.intercalate ";" outs)

end prover

/-! ### the client's message builder (`c11.rebuild`) -/

def parsePartC : Val → Option ClientMsg.Part
  | .l [o, v] => do pure (← o.nat?, (← hexDecode (← v.str?)).map fun b => Char.ofNat b.toNat)
  | _ => none

/-- SHA-256 of the text, as the lower-case hex string `compute_hash` returns -/
def digestC (t : List Char) : String :=
  String.ofList ((CertModel.hexOf (Sha256.hashL (t.map fun c => UInt8.ofNat c.toNat))).map fun x => Char.ofNat x.toNat)

/-- `c11.rebuild cert=[(ord,valhex)…] set=[(ord,valhex)…] signed=<digest>` → digest of the message the builder
returns and the verdict of `match_message` -/
def rebuildReq (r : Req) : Option String := do
  let cert ← (← r.list "cert").mapM parsePartC
  let sets ← (← r.list "set").mapM parsePartC
  let signed ← r.str "signed"
  let m := ClientMsg.rebuild cert sets
  pure s!"{digestC (ClientMsg.pre m)} {if ClientMsg.matchMessage digestC m signed then 1 else 0}"

def handle (r : Req) : Option String :=
  match r.op with
  | "c11.rebuild" => rebuildReq r
  | "c11.history" => historyReq r
  | "c11.legacy" => legacyReq r
  | "c11.v2" => v2Req r
  | "c11.mkroot" => mkrootReq r
  | "c11.pmhash" => pmhashReq r
  | _ => none
end Handlers.C11
