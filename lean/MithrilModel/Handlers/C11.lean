import MithrilModel.Proto
import MithrilModel.Handlers.C09
import MithrilModel.Proofs
import MithrilModel.Sha256
import MithrilModel.CertModel
namespace Handlers.C11
open Proto Proofs MkProof

def mergeS := Handlers.C09.mergeS

def showErr : Err → String
  | .invalidSetProof => "invalid" | .noCertifiedItem => "none" | .nonMatchingRoot => "nonmatching"

def parsePart : Val → Option (List (List UInt8) × MapProof (List UInt8))
  | .l [ls, p] => do pure (← Handlers.C09.hexList (← ls.list?), ← Handlers.C09.parseMap p)
  | _ => none

def showRes : Except Err (List UInt8) → String
  | .ok r => "ok " ++ hexEncode r
  | .error e => "err " ++ showErr e

/-- `c11.legacy parts=[([leafhex…],<mapproof>)…]` -/
def legacyReq (r : Req) : Option String := do
  let parts ← (← r.list "parts").mapM parsePart
  pure (showRes (verifyLegacy mergeS parts))

/-- `c11.v2 part=([leafhex…],<mapproof>)` or `part=none` -/
def v2Req (r : Req) : Option String := do
  match ← r.get? "part" with
  | .s "none" => pure (showRes (verifyV2 mergeS (none : Option (List (List UInt8) × MapProof (List UInt8)))))
  | v => do
    let part ← parsePart v
    pure (showRes (verifyV2 mergeS (some part)))

/-- `c11.mkroot leaves=[hex…]` — root of `MKTree::new(leaves)` (stake distribution tree, block-range trees) -/
def mkrootReq (r : Req) : Option String := do
  let leaves ← Handlers.C09.hexList (← r.list "leaves")
  pure (match MmrBuild.root mergeS leaves with
    | some x => "ok " ++ hexEncode x
    | none => "err empty")

/-- `c11.pmhash pm=[(keyhex,valhex)…]` — digest of a protocol message (C04 model, SHA-256 in Lean) -/
def pmhashReq (r : Req) : Option String := do
  let pm ← (← r.list "pm").mapM fun s =>
    match s with
    | .l [k, v] => do pure (← hexDecode (← k.str?), ← hexDecode (← v.str?))
    | _ => none
  pure (String.ofList ((CertModel.pmHash Sha256.hashL pm).map fun x => Char.ofNat x.toNat))

def handle (r : Req) : Option String :=
  match r.op with
  | "c11.legacy" => legacyReq r
  | "c11.v2" => v2Req r
  | "c11.mkroot" => mkrootReq r
  | "c11.pmhash" => pmhashReq r
  | _ => none
end Handlers.C11
