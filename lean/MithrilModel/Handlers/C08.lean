import MithrilModel.Proto
import MithrilModel.Lottery
namespace Handlers.C08
open Proto Lottery

def hexNat (s : String) : Option Nat :=
  s.toList.foldlM (fun acc c => (hexDigit c).map (acc * 16 + ·)) 0

/-- `c08.won phi=<hex bits> ln=<hex bits> ev=<decimal> stake= total= obs=<won|lost|panic>`
answers the model's decision and, after ` ## `, the S verdict of the implementation's observed
decision against the high-precision reference (outside a relative band of 2^-40). -/
def wonReq (r : Req) : Option String := do
  let phiBits ← hexNat (← r.str "phi")
  let lnBits ← hexNat (← r.str "ln")
  let ev ← r.nat "ev"
  let stake ← r.nat "stake"
  let total ← r.nat "total"
  let obs ← r.str "obs"
  let res := won phiBits lnBits ev stake total
  let out := match res with | .won => "won" | .lost => "lost" | .panic => "panic"
  -- S: exactness of the implementation's decision
  let s : String :=
    match f64ToRat phiBits, f64ToRat lnBits with
    | some phi, some c =>
      if phiIsOne phi || total = 0 || obs == "panic" then "S=na"
      else
        let q : Rat := (evMax : Rat) / ((evMax - ev : Nat) : Rat)
        let x : Rat := -((stake : Rat) / (total : Rat) * c)
        if x < 0 || x > 60 then "S=na"
        else
          let (lo, hi) := expRef x 900 400
          let band := lo / ((2 ^ 40 : Nat) : Rat)
          if q < lo - band then
            (if obs == "won" then "S=ok"
             else if x > 265 / 100 then "S=fail:wrong-loss-large-x:draw below the threshold decided lost"
             else "S=fail:inexact:draw below the threshold decided lost")
          else if q > hi + band then
            (if obs == "lost" then "S=ok" else "S=fail:inexact:draw above the threshold decided won")
          else "S=band"
    | _, _ => "S=na"
  pure (out ++ " ## " ++ s)

def handle (r : Req) : Option String :=
  match r.op with
  | "c08.won" => wonReq r
  | _ => none

end Handlers.C08
