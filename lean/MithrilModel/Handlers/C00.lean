import MithrilModel.Proto
import MithrilModel.Blake2
import MithrilModel.Sha256
/-! `c00.hash`: foundation check `K.F.hash` — the Lean hash implementations used by the driver
against the Rust crates. -/
namespace Handlers.C00
open Proto

def hashReq (r : Req) : Option String := do
  let alg ← r.str "alg"
  let data ← hexDecode (← r.str "data")
  let out ← match alg with
    | "sha256" => some (Sha256.hashL data)
    | "blake2b256" => some (Blake2.blake2b256L data)
    | "blake2b512" => some (Blake2.blake2b512L data)
    | "blake2b224" => some (Blake2.blake2b224L data)
    | "blake2s256" => some (Blake2.blake2s256L data)
    | _ => none
  pure (hexEncode out)

def handle (r : Req) : Option String :=
  match r.op with
  | "c00.hash" => hashReq r
  | _ => none
end Handlers.C00
