import MithrilModel.Proto
import MithrilModel.Blake2
import MithrilModel.Digester
namespace Handlers.C12
open Proto Digester

/-- tokens are `x<text>`: the prefix keeps purely numeric names apart from numbers -/
def unx (s : String) : Option String := if s.startsWith "x" then some (s.drop 1).toString else none

def nameOf (s : String) : Name := s.toList.map Char.toNat
def showName (n : Name) : String := String.ofList (n.map Char.ofNat)
def asciiBytes (s : String) : Bytes := s.toList.map (fun c => UInt8.ofNat c.toNat)
def showBytes (b : Bytes) : String := String.ofList (b.map (fun x => Char.ofNat x.toNat))

def b2s (b : Bytes) : Bytes := Blake2.blake2s256L b

/-- an entry: `(x<name>,f|d,x<hex digest of the content>)`; the model's content IS the digest text -/
def parseEntry : Val → Option (Entry Bytes)
  | .l [.s n, .s k, .s d] => do
    let n ← unx n
    let d ← unx d
    pure { name := nameOf n, isFile := k == "f", content := asciiBytes d }
  | _ => none

def parseDir : Val → Option (Name × List (Entry Bytes))
  | .l [.s n, .l es] => do
    let n ← unx n
    let es ← es.mapM parseEntry
    pure (nameOf n, es)
  | _ => none

def parseCache : Val → Option (Name × Bytes)
  | .l [.s n, .s d] => do
    let n ← unx n
    let d ← unx d
    pure (nameOf n, asciiBytes d)
  | _ => none

def showCache (c : Cache) : String :=
  let sorted := c.mergeSort (fun a b => lexLe a.1 b.1)
  "[" ++ String.intercalate "," (sorted.map fun p => s!"({showName p.1},{showBytes p.2})") ++ "]"

def showErr : Err → String
  | .noImmutableDir => "err kind=noimmdir"
  | .listing => "err kind=listing"
  | .notEnough none => "err kind=notenough(none)"
  | .notEnough (some n) => s!"err kind=notenough({n})"

/-- `c12.root beacon=N prov=none|some dirs=[(xname,[entries]),…] cache=[(xname,xdigest),…]` -/
def rootReq (r : Req) : Option String := do
  let beacon ← r.nat "beacon"
  let prov ← r.str "prov"
  let dirs ← (← r.list "dirs").mapM parseDir
  let cache ← (← r.list "cache").mapM parseCache
  match Digester.root (fun (d : Bytes) => d) b2s cache dirs beacon with
  | .error e => pure (showErr e)
  | .ok res => pure s!"ok root={hexEncode res.root} cache={if prov == "none" then "[]" else showCache res.cache}"

/-- `c12.b2s msg=<hex>`: Blake2s-256 test vector -/
def b2sReq (r : Req) : Option String := do
  let m ← hexDecode (← r.str "msg")
  pure (hexEncode (b2s m))

/-- `c12.mmr leaves=[x<text>,…]`: the builder model alone -/
def mmrReq (r : Req) : Option String := do
  let ls ← (← r.list "leaves").mapM (fun v => match v with | .s t => (unx t).map asciiBytes | _ => none)
  match MmrBuild.root (merge b2s) ls with
  | none => pure "err kind=empty"
  | some x => pure s!"ok root={hexEncode x}"

def handle (r : Req) : Option String :=
  match r.op with
  | "c12.root" => rootReq r
  | "c12.b2s" => b2sReq r
  | "c12.mmr" => mmrReq r
  | _ => none

end Handlers.C12
