import MithrilModel.Proto
import MithrilModel.RestoreRun
/-!
Driver side of C19: one restoration per line.

  c19.run pre=[(path,d)|(path,f,hK)|(path,l,target),…] range=(full)|(from,a)|(range,a,b)|(upto,b) last=N
          override=0|1 anc=0|1 verifier=0|1 fixed=0|1
          imm=[(n,[loc,…]),…] ancl=[loc,…]
          manifests=[(hK,bad)|(hK,ok|badsig|nosig,[(path,hK),…]),…] empty=hK magic=hK|none
  loc   := (0) | (1,intact,[entry,…])
  entry := (path,f,hK) | (path,d,key) | (path,s,target) | (path,h,linkname)

Paths are text with `/`; `pre` paths are canonical paths below the case directory (`db/...`, `out/...`).
Answer: `ok|err [(path,d)|(path,f,hK)|(path,l,target),…]` — the whole tree afterwards, sorted by path.
-/
namespace Handlers.C19
open Proto Restore.Full

def comps (s : String) : List (Comp String) :=
  ((s.splitOn "/").filter fun c => c ≠ "" ∧ c ≠ ".").map fun c => if c = ".." then Comp.up else Comp.nm c

def isAbs (s : String) : Bool := s.startsWith "/"

def target (s : String) : Target String := { abs := isAbs s, comps := comps s }

def plain (s : String) : List String := (s.splitOn "/").filter fun c => c ≠ "" ∧ c ≠ "."

def tok (v : Val) : Option Nat :=
  match v with
  | .s t => if t.startsWith "h" then (Val.s (t.drop 1).toString).nat? else none
  | _ => none

def pad5 (n : Nat) : String :=
  let s := toString n
  String.ofList (List.replicate (5 - s.length) '0') ++ s

def parseRange : Val → Option Range
  | .l [.s "full"] => some .full
  | .l [.s "from", a] => a.nat?.map .from_
  | .l [.s "range", a, b] => do some (.range (← a.nat?) (← b.nat?))
  | .l [.s "upto", b] => b.nat?.map .upTo
  | _ => none

def parsePre : Val → Option (List String × Node String)
  | .l [.s p, .s "d"] => some (plain p, .dir)
  | .l [.s p, .s "f", c] => (tok c).map fun c => (plain p, .file c)
  | .l [.s p, .s "l", .s t] => some (plain p, .link (target t))
  | _ => none

def parseEntry : Val → Option (Entry String)
  | .l [.s p, .s "f", c] => (tok c).map fun c => { path := comps p, kind := .file c }
  | .l [.s p, .s "d", k] => k.nat?.map fun k => { path := comps p, kind := .dir, key := k }
  | .l [.s p, .s "s", .s t] => some { path := comps p, kind := .symlink (target t) }
  | .l [.s p, .s "h", .s t] => some { path := comps p, kind := .hardlink (comps t) }
  | _ => none

def parseLoc : Val → Option (Archive String)
  | .l [z] => if z.nat? = some 0 then some { present := false, entries := [], intact := false } else none
  | .l [_, i, .l es] => do
    let i ← i.nat?
    let es ← es.mapM parseEntry
    some { present := true, entries := es, intact := i != 0 }
  | _ => none

def parseImm : Val → Option (Nat × List (Archive String))
  | .l [n, .l locs] => do some (← n.nat?, ← locs.mapM parseLoc)
  | _ => none

def parseManifest : Val → Option (Nat × Option (Manifest String))
  | .l [c, .s "bad"] => (tok c).map fun c => (c, none)
  | .l [c, .s sg, .l es] => do
    let c ← tok c
    let sig ← match sg with | "ok" => some Sig.ok | "badsig" => some Sig.bad | "nosig" => some Sig.none | _ => none
    let es ← es.mapM fun e => match e with
      | .l [.s p, h] => (tok h).map fun h => (comps p, h)
      | _ => none
    some (c, some { entries := es, sig })
  | _ => none

def namesOfComps (l : List (Comp String)) : List String := l.filterMap fun c => match c with | .nm n => some n | .up => none

def namesOfEntry (e : Entry String) : List String :=
  namesOfComps e.path ++ match e.kind with
    | .symlink t => namesOfComps t.comps
    | .hardlink s => namesOfComps s
    | _ => []

def dedup (l : List String) : List String := l.foldl (fun acc x => if acc.contains x then acc else x :: acc) []

def showTarget (t : Target String) : String :=
  (if t.abs then "/" else "") ++ String.intercalate "/" (t.comps.map fun c => match c with | .up => ".." | .nm n => n)

/-- the whole tree, depth first; `fuel` bounds the depth -/
def walk (fs : FS String) (univ : List String) : Nat → List String → List (String × String)
  | 0, _ => []
  | fuel + 1, q =>
    univ.flatMap fun n =>
      let p := q ++ [n]
      let ps := String.intercalate "/" p
      match fs p with
      | none => []
      | some (.file c) => [(ps, s!"({ps},f,h{c})")]
      | some (.link t) => [(ps, s!"({ps},l,{showTarget t})")]
      | some .dir => (ps, s!"({ps},d)") :: walk fs univ fuel p

def insertSorted (e : String × String) : List (String × String) → List (String × String)
  | [] => [e]
  | x :: r => if e.1 < x.1 then e :: x :: r else x :: insertSorted e r

def cfg (univ : List String) : Cfg String where
  db := "db"
  immutable := "immutable"
  ledger := "ledger"
  volatile := "volatile"
  clean := "clean"
  magicFile := "protocolMagicId"
  manifestFile := "ancillary_manifest.json"
  tmp := "ancillary-TMP"
  trio := fun n => [pad5 n ++ ".chunk", pad5 n ++ ".primary", pad5 n ++ ".secondary"]
  univ := univ

def runReq (r : Req) : Option String := do
  let pre ← (← r.list "pre").mapM parsePre
  let range ← parseRange (← r.get? "range")
  let last ← r.nat "last"
  let ovr ← r.nat "override"
  let anc ← r.nat "anc"
  let ver ← r.nat "verifier"
  let fixed ← r.nat "fixed"
  let imm ← (← r.list "imm").mapM parseImm
  let ancl ← (← r.list "ancl").mapM parseLoc
  let mans ← (← r.list "manifests").mapM parseManifest
  let empty ← tok (← r.get? "empty")
  let magic ← match r.get? "magic" with
    | some (.s "none") => some none
    | some v => (tok v).map some
    | none => none
  let fs0 : FS String := fun p => if p = [] then some .dir else (pre.find? (·.1 == p)).map (·.2)
  let archives := ancl ++ imm.flatMap (·.2)
  let names := dedup (pre.flatMap (fun e => e.1 ++ match e.2 with | .link t => namesOfComps t.comps | _ => []) ++
    archives.flatMap (fun a => a.entries.flatMap namesOfEntry) ++
    mans.flatMap (fun m => match m.2 with | some m => m.entries.flatMap (fun e => namesOfComps e.1) | none => []) ++
    ["db", "immutable", "ledger", "volatile", "clean", "protocolMagicId", "ancillary_manifest.json", "ancillary-TMP"])
  let C := cfg names
  let I : Input String := {
    range, last, allowOverride := ovr != 0, includeAncillary := anc != 0, verifierSet := ver != 0,
    immutables := fun n => ((imm.find? (·.1 == n)).map (·.2)).getD [],
    ancillary := ancl,
    manifestOf := fun c => ((mans.find? (·.1 == c)).map (·.2)).getD none,
    emptyContent := empty, magicContent := magic }
  let (fs, ok) := run (fixed != 0) C I fs0
  let listing := (walk fs names 12 []).foldr insertSorted []
  pure ((if ok then "ok" else "err") ++ " [" ++ String.intercalate "," (listing.map (·.2)) ++ "]")

def handle (r : Req) : Option String :=
  match r.op with
  | "c19.run" => runReq r
  | _ => none

end Handlers.C19
