import MithrilModel.Proto
import MithrilModel.Agg
import MithrilModel.AggProto
/-! C16 handler: `c16.run` replays rounds of (label, signature) submissions on the model
(`Agg.sigClass` / `Agg.storeSig` / `Agg.handOver` / `Agg.metadataSigners`) and prints the result
class of every submission, the signature table with the identity of each stored value and the
signer list of every certificate — the same observation format as `c14.run`. -/
namespace Handlers.C16
open Proto Agg AggProto

def runReq (r : Req) : Option String := do
  let sc ← parseScenario r
  let E := mkEnvK sc.k sc.ks sc.ents
  let (_, out) := runFrom E (Agg.init sc.n sc.gen) sc.evs
  pure (String.intercalate ";" out)

def handle (r : Req) : Option String :=
  match r.op with
  | "c16.run" => runReq r
  | _ => none

end Handlers.C16
