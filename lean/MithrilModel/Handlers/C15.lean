import MithrilModel.Proto
import MithrilModel.Agg
import MithrilModel.AggProto
/-! C15 handler: `c15.run` replays a history that contains ticks cut at an armed crash point
(`ctick`, followed by `rst`) on the model and prints the same observations as `c14.run`; the outcome
of a cut tick carries `!` when the armed point fires in it. -/
namespace Handlers.C15
open Proto Agg AggProto

def runReq (r : Req) : Option String := do
  let sc ← parseScenario r
  let E := mkEnvK sc.k sc.ks sc.ents
  let (_, out) := runFrom E (Agg.init sc.n sc.gen) sc.evs
  pure (String.intercalate ";" out)

def handle (r : Req) : Option String :=
  match r.op with
  | "c15.run" => runReq r
  | _ => none

end Handlers.C15
