import MithrilModel.Proto
import MithrilModel.DbVerify
/-!
Driver side of C10. Names are strings (an optional leading `@` is dropped); digests are opaque tokens (the harness sends one identifier per distinct SHA-256 value).

  c10.verify cert=[(@name,h1),…] dir=none|[(@name,f,h1),(@name,d),(@name,l,0|1),…]
             range=(full)|(from,a)|(range,a,b)|(upto,b) last=N allow=0|1
  c10.digests served=[(@name,h1),…] last=N signed=[h1,…] certok=0|1
  c10.pipeline served=… last=N signed=… certok=… dir=… range=… allow=…   (both, the second on the result of the first)
-/
namespace Handlers.C10
open Proto Db

/-- `str::parse::<u64>` -/
def parseU64 (s : String) : Option Nat :=
  let cs := s.toList
  let ds := match cs with | '+' :: r => r | _ => cs
  if ds.isEmpty || !ds.all Char.isDigit then none
  else
    let v := ds.foldl (fun acc c => acc * 10 + (c.toNat - '0'.toNat)) 0
    if v < 2 ^ 64 then some v else none

/-- last component of a path given as text (`Path::file_name`) -/
def fileName (s : String) : Option String :=
  match ((s.splitOn "/").filter fun c => c ≠ "" ∧ c ≠ ".").reverse with
  | [] => none
  | c :: _ => if c = ".." then none else some c

/-- `(file_stem, extension)` of a file name, as `std::path` computes them -/
def splitDot (f : String) : String × Option String :=
  if f = ".." then (f, none) else
  match (f.splitOn ".").reverse with
  | [] => (f, none)
  | [_] => (f, none)
  | after :: beforeRev =>
    let before := String.intercalate "." beforeRev.reverse
    if before = "" then (f, none) else (before, some after)

def number (s : String) : Option Nat := (fileName s).bind fun f => parseU64 (splitDot f).1
def immExt (s : String) : Bool :=
  match (fileName s).map fun f => (splitDot f).2 with
  | some (some e) => e = "chunk" || e = "primary" || e = "secondary"
  | _ => false

def pad5 (n : Nat) : String :=
  let s := toString n
  String.ofList (List.replicate (5 - s.length) '0') ++ s

def names : Names String where
  number := number
  immExt := immExt
  trio := fun n => [pad5 n ++ ".chunk", pad5 n ++ ".primary", pad5 n ++ ".secondary"]
  lt := fun a b => decide (a < b)

def unAt (s : String) : String := if s.startsWith "@" then (s.drop 1).toString else s

def parseRange : Val → Option Range
  | .l [.s "full"] => some .full
  | .l [.s "from", a] => a.nat?.map .from_
  | .l [.s "range", a, b] => do some (.range (← a.nat?) (← b.nat?))
  | .l [.s "upto", b] => b.nat?.map .upTo
  | _ => none

def parsePair : Val → Option (String × String)
  | .l [.s n, d] => d.str?.map fun d => (unAt n, d)
  | _ => none

def parseEntry : Val → Option (String × Kind String)
  | .l [.s n, .s "f", d] => d.str?.map fun d => (unAt n, .file d)
  | .l [.s n, .s "d"] => some (unAt n, .dir)
  | .l [.s n, .s "l", b] => b.nat?.map fun b => (unAt n, .link (b != 0))
  | _ => none

def showNames (l : List String) : String := "[" ++ String.intercalate "," (l.map ("@" ++ ·)) ++ "]"

def showVerdict : Verdict String → String
  | .accepted => "accepted"
  | .rejected m t nv => s!"rejected missing={showNames m} tampered={showNames t} nonver={showNames nv}"
  | .rangeError => "err range"
  | .digesterError => "err digester"

def parseDir (r : Req) : Option (Option (List (String × Kind String))) :=
  match r.get? "dir" with
  | some (.s "none") => some none
  | some (.l es) => (es.mapM parseEntry).map some
  | _ => none

def verifyReq (r : Req) : Option String := do
  let cert ← (← r.list "cert").mapM parsePair
  let dir ← parseDir r
  let range ← parseRange (← r.get? "range")
  let last ← r.nat "last"
  let allow ← r.nat "allow"
  pure <| showVerdict (verify names cert dir range last (allow != 0))

def showMap (f : List (String × String)) : String :=
  "ok [" ++ String.intercalate "," (f.map fun e => s!"(@{e.1},{e.2})") ++ "]"

/-- the served list through `download_and_verify_digests`, then the directory against the accepted list -/
def pipelineReq (r : Req) : Option String := do
  let served ← (← r.list "served").mapM parsePair
  let last ← r.nat "last"
  let signed ← (← r.list "signed").mapM Val.str?
  let certok ← r.nat "certok"
  let dir ← parseDir r
  let range ← parseRange (← r.get? "range")
  let allow ← r.nat "allow"
  pure <| match verifyDigests names served last signed (certok != 0) with
    | some f => showMap f ++ " | " ++ showVerdict (verify names f dir range last (allow != 0))
    | none => "err"

def digestsReq (r : Req) : Option String := do
  let served ← (← r.list "served").mapM parsePair
  let last ← r.nat "last"
  let signed ← (← r.list "signed").mapM Val.str?
  let certok ← r.nat "certok"
  pure <| match verifyDigests names served last signed (certok != 0) with
    | some f => showMap f
    | none => "err"

def handle (r : Req) : Option String :=
  match r.op with
  | "c10.verify" => verifyReq r
  | "c10.digests" => digestsReq r
  | "c10.pipeline" => pipelineReq r
  | _ => none

end Handlers.C10
