import MithrilModel.Proto
import MithrilModel.Blake2
import MithrilModel.MmrBuild
import MithrilModel.Importer
namespace Handlers.C13
open Proto Import Importer

abbrev Bytes := List UInt8

def ascii (s : String) : Bytes := s.toList.map (fun c => UInt8.ofNat c.toNat)
def b2s (b : Bytes) : Bytes := Blake2.blake2s256L b
def merge (a b : Bytes) : Bytes := b2s (a ++ b)

def hexDigitChar (n : Nat) : Char := if n < 10 then Char.ofNat (48 + n) else Char.ofNat (87 + n)
/-- `format!("{:08x}", id)`: the hex text of the 4-byte block hash -/
def hex8 (n : Nat) : String :=
  String.ofList ((List.range 8).reverse.map fun i => hexDigitChar (n / 16 ^ i % 16))
/-- `format!("t{:06}", t)`: fixed width, so that the order of the hashes is the order of the numbers -/
def txName (t : Nat) : String := "t" ++ String.ofList ((Nat.toDigits 10 (1000000 + t % 1000000)).drop 1)
def sortTx (ts : List Nat) : List Nat := ts.mergeSort (fun a b => a ≤ b)

/-- insertion sort by block number (ranges hold at most 15 blocks) -/
def sortByNumber (bs : List Block) : List Block :=
  bs.foldl (fun acc b =>
    let (lo, hi) := acc.span (fun x => x.number ≤ b.number)
    lo ++ b :: hi) []

/-- `MKTree::new_from_iter(nodes).compute_root()` over the `BTreeSet` of block and transaction nodes
of one range: all block leaves (by number), then all transaction leaves (by number, then hash) -/
def rootNew (tx : Nat → List Nat) (bs : List Block) : Option Bytes :=
  if bs.isEmpty then none else
  let s := sortByNumber bs
  let blockLeaves := s.map fun b => ascii s!"Block/{hex8 b.hash}/{b.number}/{b.slot}"
  let txLeaves := s.flatMap fun b =>
    (sortTx (tx b.hash)).map fun t => ascii s!"Tx/{txName t}/{hex8 b.hash}/{b.number}/{b.slot}"
  MmrBuild.root merge (blockLeaves ++ txLeaves)

/-- legacy table: the transaction hashes of the range ordered by (block number, hash); skipped when empty -/
def rootLegacy (tx : Nat → List Nat) (bs : List Block) : Option Bytes :=
  let s := sortByNumber bs
  let leaves := s.flatMap fun b => (sortTx (tx b.hash)).map fun t => ascii (txName t)
  if leaves.isEmpty then none else MmrBuild.root merge leaves

/-! both root functions read the transactions of the blocks of the range only (`Import.LocalRoot`):
computed from the join under the table invariant they are the roots of the stored blocks -/

theorem span_loop_append {α : Type} (p : α → Bool) : ∀ (l acc : List α),
    (List.span.loop p l acc).1 ++ (List.span.loop p l acc).2 = acc.reverse ++ l := by
  intro l
  induction l with
  | nil => intro acc; simp [List.span.loop]
  | cons a r ih =>
    intro acc
    simp only [List.span.loop]
    split
    · rw [ih]; simp
    · rfl

theorem span_append {α : Type} (p : α → Bool) (l : List α) : (l.span p).1 ++ (l.span p).2 = l := by
  unfold List.span; rw [span_loop_append]; simp

theorem mem_sortByNumber_aux : ∀ (bs acc : List Block) (x : Block),
    x ∈ bs.foldl (fun acc b =>
      let (lo, hi) := acc.span (fun x => x.number ≤ b.number)
      lo ++ b :: hi) acc → x ∈ acc ∨ x ∈ bs := by
  intro bs
  induction bs with
  | nil => intro acc x h; exact Or.inl h
  | cons b r ih =>
    intro acc x h
    simp only [List.foldl_cons] at h
    rcases ih _ x h with h1 | h1
    · have hsplit : (acc.span (fun x => x.number ≤ b.number)).1 ++ (acc.span (fun x => x.number ≤ b.number)).2 = acc := by
        exact span_append _ _
      simp only [List.mem_append, List.mem_cons] at h1
      rcases h1 with h2 | rfl | h2
      · exact Or.inl (by rw [← hsplit]; exact List.mem_append_left _ h2)
      · exact Or.inr (by simp)
      · exact Or.inl (by rw [← hsplit]; exact List.mem_append_right _ h2)
    · exact Or.inr (by simp [h1])

theorem mem_sortByNumber {bs : List Block} {x : Block} (h : x ∈ sortByNumber bs) : x ∈ bs := by
  rcases mem_sortByNumber_aux bs [] x h with h1 | h1
  · simp at h1
  · exact h1

theorem flatMap_congr' {α β : Type} {f g : α → List β} : ∀ (l : List α), (∀ x ∈ l, f x = g x) → l.flatMap f = l.flatMap g := by
  intro l
  induction l with
  | nil => intro _; rfl
  | cons a r ih =>
    intro h
    simp only [List.flatMap_cons, h a (by simp)]
    rw [ih (fun x hx => h x (by simp [hx]))]

theorem rootNew_local : LocalRoot rootNew := by
  intro tx tx' bs h
  unfold rootNew
  split
  · rfl
  · simp only
    rw [flatMap_congr' (sortByNumber bs) (fun b hb => by rw [h b (mem_sortByNumber hb)])]

theorem rootLegacy_local : LocalRoot rootLegacy := by
  intro tx tx' bs h
  unfold rootLegacy
  simp only
  rw [flatMap_congr' (sortByNumber bs) (fun b hb => by rw [h b (mem_sortByNumber hb)])]

def showRoots (rs : List (Nat × Bytes)) : String :=
  let sorted := rs.mergeSort (fun a b => a.1 ≤ b.1)
  String.intercalate "," (sorted.map fun r => s!"({r.1 * LEN},{r.1 * LEN + LEN},{hexEncode r.2})")

/-- the store as the harness dumps it: blocks, the join `cardano_block ⋈ cardano_tx` as
(transaction hash, block number, block hash) ordered by (block number, transaction hash), both root tables -/
def dumpText (st : St Bytes) : String :=
  let bs := (st.blocks.mergeSort (fun a b => a.number < b.number || (a.number = b.number && a.hash ≤ b.hash)))
  let b := String.intercalate "," (bs.map fun x => s!"({x.hash},{x.number},{x.slot})")
  let t := String.intercalate "," (bs.flatMap fun x => (sortTx (txsIn st.txs x.hash)).map fun k => s!"({txName k},{x.number},{x.hash})")
  s!"B[{b}]T[{t}]R[{showRoots st.roots}]L[{showRoots st.legacy}]"

def summary (st : St Bytes) : String :=
  let h := b2s (ascii (dumpText st))
  let hi := match highest st.blocks with
    | some b => toString b.number
    | none => "-"
  s!"n={st.blocks.length};hi={hi};r={st.roots.length};l={st.legacy.length};h={hexEncode (h.take 4)}"

structure Tbl where
  blocks : List (Nat × Block × List Nat)

def Tbl.find (t : Tbl) (id : Nat) : Option (Block × List Nat) := (t.blocks.find? (·.1 = id)).map (·.2)

def parseBlock : Val → Option (Nat × Block × List Nat)
  | .l [a, b, c, d] => do
    let id ← a.nat?
    let n ← b.nat?
    let s ← c.nat?
    let k ← d.nats?
    pure (id, ⟨id, n, s⟩, k)
  | _ => none

def parseReply (t : Tbl) : Val → Option (Option Ev)
  | .l [.s "n"] => some none
  | .l [.s "f", v] => do
    let id ← v.nat?
    let (b, _) ← t.find id
    pure (some (.fwd b))
  | .l [.s "b", v, _] => do
    let s ← v.nat?
    pure (some (.back s))
  | _ => none

inductive Step where
  | imp (target : Nat) (rs : List (Option Ev))
  | restart
  | prune (k : Nat)

def parseStep (t : Tbl) : Val → Option Step
  | .l [.s "i", v, .l rs] => do
    let target ← v.nat?
    let rs ← rs.mapM (parseReply t)
    pure (.imp target rs)
  | .l [.s "r"] => some .restart
  | .l [.s "p", v] => do
    let k ← v.nat?
    pure (.prune k)
  | _ => none

/-- `c13.run max=<max_roll_forwards_per_poll> blocks=[(id,number,slot,[transaction,…]),…] steps=[(i,target,[replies]),(r),(p,keep),…]`
answers the whole trace: per step the resume point, the store calls, the class letter and the store
checksum; the full store dump at the end. After the first import whose class leaves the store
damaged (`1 2 x p`) the letters are `t` (tainted): the refinement theorem no longer applies. -/
def runReq (r : Req) : Option String := do
  let maxPer ← r.nat "max"
  let blocks ← (← r.list "blocks").mapM parseBlock
  let tbl : Tbl := ⟨blocks⟩
  let steps ← (← r.list "steps").mapM (parseStep tbl)
  let txsOf : Nat → List Nat := fun id => match tbl.find id with
    | some (_, k) => k
    | none => []
  -- the range importers read the join of the stored blocks with the stored transaction rows
  let R := fun (T : List TxRow) => rootNew (txsIn T)
  let RL := fun (T : List TxRow) => rootLegacy (txsIn T)
  let init : St Bytes := { blocks := [], txs := [], roots := [], legacy := [], lastPolled := none }
  let (st, out, _) := steps.foldl (fun (acc : St Bytes × List String × Bool) step =>
    let (st, out, tainted) := acc
    match step with
    | .restart =>
      let st' := { st with lastPolled := none }
      (st', s!"R;{summary st'}" :: out, tainted)
    | .prune k =>
      let st' := prune st k
      (st', s!"P{k};{summary st'}" :: out, tainted)
    | .imp target rs =>
      let o := importStep txsOf R RL maxPer st target rs
      let frm := match o.from? with
        | none => "skip"
        | some none => "origin"
        | some (some s) => if s = 0 then "origin" else toString s
      let letter := if tainted then 't' else o.cls
      let tainted' := tainted || letter == '1' || letter == '2' || letter == 'x' || letter == 'p'
      let res := if o.panicked then "panic" else "ok"
      let left := if o.left = 0 then "" else s!";left={o.left}"
      let line := s!"i{target}:{res};from={frm};ops=[{String.intercalate "," o.ops}];c={letter}{left};{summary o.st}"
      (o.st, line :: out, tainted')) (init, [], false)
  pure (String.intercalate " " out.reverse ++ " D=" ++ dumpText st)

def handle (r : Req) : Option String :=
  match r.op with
  | "c13.run" => runReq r
  | _ => none

end Handlers.C13
