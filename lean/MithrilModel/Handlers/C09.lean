import MithrilModel.Proto
import MithrilModel.Blake2
import MithrilModel.StmTree
import MithrilModel.MkProof
namespace Handlers.C09
open Proto StmTree

def H : List UInt8 → List UInt8 := Blake2.blake2b256L

def hexList (v : List Val) : Option (List (List UInt8)) := v.mapM fun x => x.str?.bind hexDecode

def showOut : Out → String
  | .ok => "ok" | .err => "err" | .panic => "panic"

/-- `c09.stmroot leaves=[hex…]` -/
def stmRoot (r : Req) : Option String := do
  let leaves ← hexList (← r.list "leaves")
  pure (hexEncode (treeRoot H leaves))

/-- `c09.stmpath leaves=[hex…] idx=[…]` -/
def stmPath (r : Req) : Option String := do
  let leaves ← hexList (← r.list "leaves")
  let idx ← r.nats "idx"
  pure ("[" ++ String.intercalate "," ((batchPath H leaves idx).map hexEncode) ++ "]")

/-- `c09.stmverify root= nr= claims=[hex…] values=[hex…] idx=[…] committed=[hex…] obs=ok|err|panic`
S: an accepted proof vouches only for committed leaves at the stated positions. -/
def stmVerify (r : Req) : Option String := do
  let root ← hexDecode (← r.str "root")
  let nr ← r.nat "nr"
  let claims ← hexList (← r.list "claims")
  let values ← hexList (← r.list "values")
  let idx ← r.nats "idx"
  let committed ← hexList (← r.list "committed")
  let obs ← r.str "obs"
  let out := verifyBatch H root nr claims values idx
  let s :=
    if obs == "ok" then
      if (idx.zip claims).all (fun p => committed[p.1]? == some p.2) then "S=ok"
      else "S=fail:stm-membership:accepted batch proof vouches for a leaf that is not committed at the stated position"
    else "S=na"
  pure (showOut out ++ " ## " ++ s)

def handleStm (r : Req) : Option String :=
  match r.op with
  | "c09.stmroot" => stmRoot r
  | "c09.stmpath" => stmPath r
  | "c09.stmverify" => stmVerify r
  | _ => none

end Handlers.C09

namespace Handlers.C09
open Proto MkProof

def mergeS (a b : List UInt8) : List UInt8 := Blake2.blake2s256L (a ++ b)

def parseLeaf : Val → Option (Nat × List UInt8)
  | .l [p, h] => do pure (← p.nat?, ← hexDecode (← h.str?))
  | _ => none

def parseProof (root size leaves items : Val) : Option (Proof (List UInt8)) := do
  let root ← hexDecode (← root.str?)
  let size ← size.nat?
  let leaves ← (← leaves.list?).mapM parseLeaf
  let items ← hexList (← items.list?)
  pure { root, size, leaves, items }

/-- `c09.mkverify root= size= leaves=[(pos,hex)…] items=[hex…] q=[hex…]` → `ok|err <contains>` -/
def mkVerify (r : Req) : Option String := do
  let p ← parseProof (← r.get? "root") (← r.get? "size") (← r.get? "leaves") (← r.get? "items")
  let q ← hexList (← r.list "q")
  let v := verify mergeS p
  let c := contains p q
  pure s!"{if v then "ok" else "err"} {if c then 1 else 0}"

partial def parseMap : Val → Option (MapProof (List UInt8))
  | .l [root, size, leaves, items, subs] => do
    let m ← parseProof root size leaves items
    let ss ← (← subs.list?).mapM fun s =>
      match s with
      | .l [k, p] => do pure (← hexDecode (← k.str?), ← parseMap p)
      | _ => none
    pure (.mk m ss)
  | _ => none

/-- `c09.mapverify proof=(root,size,[(pos,hex)…],[items…],[(keyhex,proof)…]) q=hex` -/
def mapVerify (r : Req) : Option String := do
  let p ← parseMap (← r.get? "proof")
  let q ← hexDecode (← r.str "q")
  pure s!"{if p.verify mergeS then "ok" else "err"} {if p.contains q then 1 else 0}"

def handle (r : Req) : Option String :=
  match r.op with
  | "c09.mkverify" => mkVerify r
  | "c09.mapverify" => mapVerify r
  | _ => handleStm r

end Handlers.C09
