import MithrilModel.Proto
import MithrilModel.Clerk
namespace Handlers.C02
open Proto Clerk

def parseSig : Val → Option Sig
  | .l [rank, party, signer, idxs, valid] => do
    pure { sigma := ← rank.nat?, party := ← party.nat?, signer := ← signer.nat?, idxs := ← idxs.nats?,
           valid := (← valid.nat?) == 1 }
  | _ => none

def insSorted (x : Nat × List Nat) : List (Nat × List Nat) → List (Nat × List Nat)
  | [] => [x]
  | y :: r => if x.1 < y.1 || (x.1 == y.1 && decide (x.2 ≤ y.2)) then x :: y :: r else y :: insSorted x r

/-- `c02.select k= sigs=[(sigmaRank,party,signer,[idxs],valid)…]` → `ok [(signer,[idxs])…]` (sorted) | `err count` -/
def selectReq (r : Req) : Option String := do
  let k ← r.nat "k"
  let sigs ← (← r.list "sigs").mapM parseSig
  match selectMerged k sigs with
  | .ok out =>
    let l := (out.map fun s => (s.signer, s.idxs)).foldr insSorted []
    pure ("ok [" ++ String.intercalate "," (l.map fun e => s!"({e.1},{showNats e.2})") ++ "]")
  | .error c => pure s!"err {c}"

def handle (r : Req) : Option String :=
  match r.op with
  | "c02.select" => selectReq r
  | _ => none
end Handlers.C02
