import MithrilModel.Proto
import MithrilModel.StmVerify
import MithrilModel.Blake2
namespace Handlers.C01
open Proto StmVerify

structure Member where
  env : Env
  batch : Nat
  sigs : List Sig
  agg : Bool

/-- member = `(m,k,[(sigmaId,[idxs],vkId,stake,[won bits])…],batchTri,aggBit)` -/
def parseMember : Val → Option Member
  | .l [m, k, sigs, batch, agg] => do
    let m ← m.nat?
    let k ← k.nat?
    let raw ← (← sigs.list?).mapM fun s =>
      match s with
      | .l [sid, idxs, vid, stake, bits] => do
        pure (← sid.nat?, ← idxs.nats?, ← vid.nat?, ← stake.nat?, ← bits.nats?)
      | _ => none
    -- lottery table: (sigma, index, stake) ↦ verdict, first occurrence wins (the verdict is a function
    -- of these three, so later occurrences agree)
    let table : List ((Nat × Nat × Nat) × Bool) := raw.flatMap fun (sid, idxs, _, stake, bits) =>
      (idxs.zip bits).map fun (i, b) => ((sid, i, stake), b == 1)
    let won := fun sigma i stake => ((table.find? fun e => e.1 == (sigma, i, stake)).map (·.2)).getD false
    let aggBit := (← agg.nat?) == 1
    let sigL : List Sig := raw.map fun (sid, idxs, vid, stake, _) => { sigma := sid, idxs, vk := vid, stake }
    pure { env := { m, k, won, batchOk := fun _ => true, aggOk := fun _ => aggBit }, batch := ← batch.nat?, sigs := sigL, agg := aggBit }
  | _ => none

def showErr : Err → String
  | .indexBound => "indexBound" | .lotteryLost => "lotteryLost" | .indexNotUnique => "indexNotUnique"
  | .notEnough => "notEnough" | .batchPath => "batchPath" | .aggInvalid => "aggInvalid"

def showOut : Out → String
  | .ok => "ok" | .err e => "err " ++ showErr e | .panic => "panic"

def verifyReq (r : Req) : Option String := do
  let mb ← parseMember (← r.get? "member")
  pure (showOut (verifyM mb.env mb.batch mb.sigs))

def batchReq (r : Req) : Option String := do
  let ms ← (← r.list "members").mapM parseMember
  let final := ms.all (·.agg)
  pure (match batchVerify (ms.map fun m => (m.env, m.batch, m.sigs)) final with
    | .ok => "ok" | .err _ => "err" | .panic => "panic")

/-- coefficients of `BlsSignature::aggregate`: `eᵢ = Blake2b-128(σ₁ ‖ … ‖ σₙ ‖ be64(i))` (they must depend on
ALL signatures: that is what makes the single pairing check a sound batch check) -/
def coefficients (sigs : List (List UInt8)) : List (List UInt8) :=
  let all := sigs.flatten
  (List.range sigs.length).map fun i =>
    let idx : List UInt8 := (List.range 8).map fun j => ((i / 256 ^ (7 - j)) % 256).toUInt8
    (Blake2.blake2b 16 (Blake2.ofList (all ++ idx))).toList

def coeffReq (r : Req) : Option String := do
  let sigs ← (← r.list "sigs").mapM fun x => x.str?.bind hexDecode
  pure ("[" ++ String.intercalate "," ((coefficients sigs).map hexEncode) ++ "]")

def handle (r : Req) : Option String :=
  match r.op with
  | "c01.coeff" => coeffReq r
  | "c01.aggpoint" => some "match"
  | "c01.verify" => verifyReq r
  | "c01.batch" => batchReq r
  | "c01.note" => some "err"
  | _ => none
end Handlers.C01
