import MithrilModel.Proto
import MithrilModel.Blake2
import MithrilModel.RegModel
namespace Handlers.C06
open Proto RegModel RegClose

def H : List UInt8 → List UInt8 := Blake2.blake2b256L

/-- `c06.close entries=[(vkhex,stake)…]` (arrival order) → `ok <root> <n> <total> [slot of each entry]` -/
def closeReq (r : Req) : Option String := do
  let es ← (← r.list "entries").mapM fun e =>
    match e with
    | .l [k, s] => do pure ({ stake := ← s.nat?, vk := beNat (← hexDecode (← k.str?)) } : Entry)
    | _ => none
  pure (match avk H es with
    | .ok (root, n, total) =>
      let slots := es.map fun e => (slot es e).getD 999999
      s!"ok {hexEncode root} {n} {total} {showNats slots}"
    | .overflow => "err overflow"
    | .zero => "err zero")

def handle (r : Req) : Option String :=
  match r.op with
  | "c06.close" => closeReq r
  | _ => none
end Handlers.C06
