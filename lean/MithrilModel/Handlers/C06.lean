import MithrilModel.Proto
import MithrilModel.Blake2
import MithrilModel.RegModel
import MithrilModel.RegPaths
import MithrilModel.RegService
namespace Handlers.C06
open Proto RegModel RegClose

def H : List UInt8 → List UInt8 := Blake2.blake2b256L

def hasDup : List Nat → Bool
  | [] => false
  | x :: r => r.contains x || hasDup r

/-- `c06.close entries=[(vkhex,stake)…]` (arrival order) → `ok <root> <n> <total> [slot of each entry]`;
`err register` when a verification key arrives twice: `KeyRegistration::register_by_entry` refuses a key that is
already registered, whatever the stake (the harness stops at that arrival and never closes) -/
def closeReq (r : Req) : Option String := do
  let es ← (← r.list "entries").mapM fun e =>
    match e with
    | .l [k, s] => do pure ({ stake := ← s.nat?, vk := beNat (← hexDecode (← k.str?)) } : Entry)
    | _ => none
  if hasDup (es.map (·.vk)) then pure "err register" else
  pure (match avk H es with
    | .ok (root, n, total) =>
      let slots := es.map fun e => (slot es e).getD 999999
      s!"ok {hexEncode root} {n} {total} {showNats slots}"
    | .overflow => "err overflow"
    | .zero => "err zero")

/-! ### node-level layers: aggregator epoch service (`c06.service`), client message (`c06.message`), signer (`c06.signer`) -/

def showBuildErr : RegPaths.BuildErr → String
  | .empty => "empty" | .unknownParty => "unknownParty" | .dupKey => "dupKey" | .overflow => "overflow" | .zero => "zero"

def showKey (b : RegPaths.Built) : String :=
  let (root, n, total) := b.key H
  s!"{hexEncode root}:{n}:{total}"

def showRes : RegService.Res → String
  | .ok => "ok" | .badEpoch => "err:epoch" | .panic => "panic" | .notInit => "err:notinit"
  | .buildCur e => "err:cur:" ++ showBuildErr e
  | .buildNext e => "err:next:" ++ showBuildErr e

def parseServiceOp (keys : List Nat) : Val → Option RegService.Op
  | .l [.s "save", ep, party, k, stake] => do
    pure (.save { epoch := ← ep.nat?, party := ← party.nat?, vk := ← keys[← k.nat?]?, stake := ← stake.nat? })
  | .l [.s "prune", ep] => do pure (.prune (← ep.nat?))
  | .l [.s "inform", ep] => do pure (.inform (← ep.nat?))
  | .l [.s "update"] => some .updateNext
  | .l [.s "precompute"] => some .precompute
  | _ => none

def keyIdx (keys : List Nat) (vk : Nat) : Nat := keys.findIdx (· == vk)

def showSigners (keys : List Nat) (l : List RegPaths.Signer) : String :=
  "[" ++ String.intercalate "," (l.map fun s => s!"{s.party}:{keyIdx keys s.vk}:{s.stake}") ++ "]"

/-- slots as the harness can probe them: a signature made over the reported list verifies under the multi-signer
only if the multi-signer IS the one of that list -/
def showSlots (l : List RegPaths.Signer) (b : RegPaths.Built) : String :=
  let probe := match RegPaths.build l with
    | .ok b' => b' == b
    | .error _ => false
  "[" ++ String.intercalate "," (l.map fun s =>
    if probe then (match b.slot s.entry with | some i => toString i | none => "x") else "x") ++ "]"

/-- memo of the key texts (the Merkle root is the expensive part) -/
abbrev KeyMemo := List (RegPaths.Built × String)

def keyText (m : KeyMemo) (b : RegPaths.Built) : KeyMemo × String :=
  match m.find? (·.1 == b) with
  | some (_, t) => (m, t)
  | none => let t := showKey b; ((b, t) :: m, t)

def observeService (keys : List Nat) (m : KeyMemo) (s : RegService.St) (withSlots : Bool) : KeyMemo × String :=
  let (m, ck, nk) : KeyMemo × String × String :=
    match s.computed with
    | some c => let (m1, a) := keyText m c.cur; let (m2, b) := keyText m1 c.next; (m2, a, b)
    | none => (m, (if s.data.isSome then "nc" else "ui"), (if s.data.isSome then "nc" else "ui"))
  match s.data with
  | none => (m, s!"ui;ck={ck};nk={nk}")
  | some d =>
    let (cs, ns) := match s.computed with
      | some c => if withSlots then (showSlots d.cur c.cur, showSlots d.next c.next) else ("-", "-")
      | none => ("nc", "nc")
    (m, s!"c={showSigners keys d.cur};n={showSigners keys d.next};ns={showNats d.nextSnap};t={d.totalCur},{d.totalNext};ck={ck};nk={nk};cs={cs};nsl={ns}")

/-- `c06.service keys=[hex…] ops=[(save,ep,party,key,stake)|(prune,ep)|(inform,ep)|(update)|(precompute)…]`
→ per step `<result>;<observation>` joined by ` | ` -/
def serviceReq (r : Req) : Option String := do
  let keys ← (← r.list "keys").mapM fun k => do pure (beNat (← hexDecode (← k.str?)))
  let ops ← (← r.list "ops").mapM (parseServiceOp keys)
  let n := ops.length
  let (_, _, out) := ops.foldl (fun (acc : RegService.St × KeyMemo × List String) op =>
    let (s, m, out) := acc
    let (s', res) := RegService.step RegService.prod s op
    -- the harness probes the slots after the service calls and at the end of the history
    let serviceCall := match op with | .save _ => false | .prune _ => false | _ => true
    let (m', o) := observeService keys m s' (serviceCall || out.length + 1 == n)
    -- a panic ends the node: no observation after it (the harness ends the history there)
    (s', m', (if res == .panic then "panic" else showRes res ++ ";" ++ o) :: out)) ({}, [], [])
  pure (String.intercalate " | " out.reverse)

def hexOfString (t : String) : String := hexEncode t.toUTF8.toList

def parseEntries (r : Req) : Option (List RegPaths.Signer) := do
  (← r.list "entries").mapM fun e =>
    match e with
    | .l [party, pool, k, s] => do
      pure { party := ← party.nat?, pool := ← pool.nat?, vk := beNat (← hexDecode (← k.str?)), stake := ← s.nat? }
    | _ => none

/-- `c06.message entries=[(party,pool,vkhex,stake)…]` (list order) → `ok <NextAggregateVerificationKey part>` / `err <class>`:
the client's `compute_mithril_stake_distribution_message` -/
def messageReq (r : Req) : Option String := do
  let l ← parseEntries r
  pure (match RegPaths.build l with
    | .ok b => "ok " ++ hexOfString (RegPaths.keyJson (b.key H))
    | .error e => "err " ++ showBuildErr e)

/-- `c06.signer self=(vkhex,stake) signers=[(party,pool,vkhex)…] stakes=[(party,stake)…]` → the signer's path:
`ok <root>:<n>:<total> slot=<signer_index>` / `err nostake` / `err build:<class>` / `err unregistered` -/
def signerReq (r : Req) : Option String := do
  let self ← match ← r.get? "self" with
    | .l [k, s] => do pure (({ stake := ← s.nat?, vk := beNat (← hexDecode (← k.str?)) } : Entry))
    | _ => none
  let signers ← (← r.list "signers").mapM fun e =>
    match e with
    | .l [party, pool, k] => do pure (← party.nat?, ← pool.nat?, beNat (← hexDecode (← k.str?)))
    | _ => none
  let stakes ← (← r.list "stakes").mapM fun e =>
    match e with
    | .l [p, s] => do pure (← p.nat?, ← s.nat?)
    | _ => none
  pure (match RegPaths.signerPath stakes signers self with
    | .error .nostake => "err nostake"
    | .error (.build e) => "err build:" ++ showBuildErr e
    | .error .unregistered => "err unregistered"
    | .ok (b, i) => s!"ok {showKey b} slot={i}")

def handle (r : Req) : Option String :=
  match r.op with
  | "c06.close" => closeReq r
  | "c06.service" => serviceReq r
  | "c06.message" => messageReq r
  | "c06.signer" => signerReq r
  | _ => none
end Handlers.C06
