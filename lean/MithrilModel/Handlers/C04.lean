import MithrilModel.Proto
import MithrilModel.Sha256
import MithrilModel.CertModel
import MithrilModel.Lottery
import MithrilModel.PhiModel
namespace Handlers.C04
open Proto CertModel PhiModel

def H : List UInt8 → List UInt8 := Sha256.hashL

def asText (b : List UInt8) : String := String.ofList (b.map fun x => Char.ofNat x.toNat)

def hexNat (s : String) : Option Nat := s.toList.foldlM (fun acc c => (hexDigit c).map (acc * 16 + ·)) 0

def bytesArg (r : Req) (k : String) : Option (List UInt8) := (r.str k).bind hexDecode

def parseEntity : Val → Option (Option Entity)
  | .l [.s "genesis"] => some none
  | .l [.s "msd", e] => do pure (some (.msd (← e.nat?)))
  | .l [.s "csd", e] => do pure (some (.csd (← e.nat?)))
  | .l [.s "cdb", e, i] => do pure (some (.cdb (← e.nat?) (← i.nat?)))
  | .l [.s "ctx", e, b] => do pure (some (.ctx (← e.nat?) (← b.nat?)))
  | .l [.s "cbtx", e, b, o] => do pure (some (.cbtx (← e.nat?) (← b.nat?) (← o.nat?)))
  | _ => none

/-- `oor`: a date outside the `i64` nanosecond range (`timestamp_nanos_opt() = None`), hashed as
`unwrap_or_default() = 0` by `CertificateMetadata::compute_hash` -/
def parseInt (v : Val) : Option Int :=
  match v with
  | .s "oor" => some 0
  | .s t => if t.startsWith "n" then ((t.drop 1).toString.toNat?).map (fun n => -(n : Int)) else t.toNat?.map (fun n => (n : Int))
  | _ => none

/-- `c04.cert prev=hex epoch= net=hex ver=hex k= m= phi=<f64 bits hex> init=<ns|nNS> sealed= signers=[(idhex,stake)…]
pm=[(keyhex,valhex)…] signed=hex avk=hex entity=(…) sig=hex` → hex of the certificate hash (or `panic`) -/
def certReq (r : Req) : Option String := do
  let phiBits ← hexNat (← r.str "phi")
  let signers ← (← r.list "signers").mapM fun s =>
    match s with
    | .l [i, st] => do pure ({ id := ← hexDecode (← i.str?), stake := ← st.nat? } : Party)
    | _ => none
  let pm ← (← r.list "pm").mapM fun s =>
    match s with
    | .l [k, v] => do pure (← hexDecode (← k.str?), ← hexDecode (← v.str?))
    | _ => none
  let prev ← bytesArg r "prev"
  let epoch ← r.nat "epoch"
  let net ← bytesArg r "net"
  let ver ← bytesArg r "ver"
  let k ← r.nat "k"
  let m ← r.nat "m"
  let init ← parseInt (← r.get? "init")
  let sealed ← parseInt (← r.get? "sealed")
  let signed ← bytesArg r "signed"
  let avk ← bytesArg r "avk"
  let entity ← parseEntity (← r.get? "entity")
  let sig ← bytesArg r "sig"
  match some (phiOfF64 phiBits) with
  | none => pure "panic"
  | some phi =>
    let c : Cert := {
      previousHash := prev, epoch := epoch,
      metadata := { network := net, version := ver, params := { k := k, m := m, phi := phi },
                    initiatedNs := init, sealedNs := sealed, signers := signers },
      pm := pm, signedMessage := signed, avkHex := avk, entity := entity, sigHex := sig,
      ancProver := none, ancVerifier := none }
    pure (asText (certHash H c) ++ " " ++ asText (pmHash H c.pm))

def handle (r : Req) : Option String :=
  match r.op with
  | "c04.cert" => certReq r
  | _ => none
end Handlers.C04
