import MithrilModel.Proto
import MithrilModel.Pool
namespace Handlers.C18
open Proto Pool

def parseOp : Val → Option Op
  | .l [.s "acq", t] => t.nat?.map .acquire
  | .l [.s "gbi", t] => t.nat?.map .giveBackItem
  | .l [.s "drop", t] => t.nat?.map .dropItem
  | .l [.s "set", d] => d.nat?.map .setDisc
  | .l [.s "clr"] => some .clear
  | .l [.s "new"] => some .newGen
  | .l [.s "rst"] => some .reset
  | .l [.s "gb", g, d] => do pure (.giveBack ⟨← g.nat?⟩ (← d.nat?))
  | _ => none

/-- observation of one call: what an acquire returned, and `count()` afterwards -/
def obs (s : St) (op : Op) : St × String :=
  let s' := step s op
  let o := match op with
    | .acquire _ =>
      match s.queue with
      | [] => "t"
      | r :: _ => s!"a({r.trueGen},{s.disc})"
    | _ => "-"
  (s', s!"{o}/{s'.queue.length}")

def runReq (r : Req) : Option String := do
  let size ← r.nat "size"
  let init ← r.nats "init"
  let ops ← (← r.list "ops").mapM parseOp
  let s0 : St := { size, disc := 0, queue := init.map (⟨·⟩), held := [] }
  let (_, out) := ops.foldl (fun (acc : St × List String) op =>
    let (s', o) := obs acc.1 op
    (s', o :: acc.2)) (s0, [])
  pure (String.intercalate ";" out.reverse)

/-- the calls `compute_cache` of both provers makes on the pool, in order (the harness extracts them from the
working tree's source): one atomic generation change, then the refill -/
def protocolReq (_ : Req) : Option String := some "start_new_generation;give_back_resource"

def handle (r : Req) : Option String :=
  match r.op with
  | "c18.protocol" => protocolReq r
  | "c18.run" => runReq r
  | _ => none

end Handlers.C18
