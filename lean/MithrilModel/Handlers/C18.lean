import MithrilModel.Proto
import MithrilModel.Pool
namespace Handlers.C18
open Proto Pool

def parseOp : Val → Option Op
  | .l [.s "acq", .n t] => some (.acquire t)
  | .l [.s "gbi", .n t] => some (.giveBackItem t)
  | .l [.s "drop", .n t] => some (.dropItem t)
  | .l [.s "set", .n d] => some (.setDisc d)
  | .l [.s "clr"] => some .clear
  | .l [.s "rst"] => some .reset
  | .l [.s "gb", .n g, .n d] => some (.giveBack ⟨g⟩ d)
  | _ => none

/-- observation of one call: what an acquire returned, and `count()` afterwards -/
def obs (s : St) (op : Op) : St × String :=
  let s' := step s op
  let o := match op with
    | .acquire tid =>
      match s.queue with
      | [] => "t"
      | r :: _ => s!"a({r.trueGen},{s.disc})"
    | _ => "-"
  (s', s!"{o}/{s'.queue.length}")

def runReq (r : Req) : Option String := do
  let size ← r.nat "size"
  let init ← r.nats "init"
  let ops ← (← r.list "ops").mapM parseOp
  let s0 : St := { size, disc := 0, queue := init.map (⟨·⟩), held := [] }
  let (_, out) := ops.foldl (fun (acc : St × List String) op =>
    let (s', o) := obs acc.1 op
    (s', o :: acc.2)) (s0, [])
  pure (String.intercalate ";" out.reverse)

def handle (r : Req) : Option String :=
  match r.op with
  | "c18.run" => runReq r
  | _ => none

end Handlers.C18
