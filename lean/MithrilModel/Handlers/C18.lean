import MithrilModel.Proto
import MithrilModel.Pool
namespace Handlers.C18
open Proto Pool

def parseOp : Val → Option Op
  | .l [.s "acq", t] => t.nat?.map .acquire
  | .l [.s "gbi", t] => t.nat?.map .giveBackItem
  | .l [.s "drop", t] => t.nat?.map .dropItem
  | .l [.s "set", d] => d.nat?.map .setDisc
  | .l [.s "clr"] => some .clear
  | .l [.s "new"] => some .newGen
  | .l [.s "rst"] => some .reset
  | .l [.s "gb", g, d] => do pure (.giveBack ⟨← g.nat?⟩ (← d.nat?))
  | _ => none

/-- observation of one call: what an acquire returned, and `count()` afterwards -/
def obs (s : St) (op : Op) : St × String :=
  let s' := step s op
  let o := match op with
    | .acquire _ =>
      match s.queue with
      | [] => "t"
      | r :: _ => s!"a({r.trueGen},{s.disc})"
    | _ => "-"
  (s', s!"{o}/{s'.queue.length}")

/-- `start_new_generation` computes `discriminant + 1` on a `u64` while it holds the resources lock: at `u64::MAX` the
overflow-checked build panics there and poisons the mutex, after which `count()` and every call that locks the
resources fail: printed `p` from that call on. (The production profile wraps to 0 instead: generation 0 again.) -/
def runReq (r : Req) : Option String := do
  let size ← r.nat "size"
  let init ← r.nats "init"
  let ops ← (← r.list "ops").mapM parseOp
  let s0 : St := { size, disc := 0, queue := init.map (⟨·⟩), held := [] }
  let (_, _, out) := ops.foldl (fun (acc : St × Bool × List String) op =>
    let (s, poisoned, outs) := acc
    if poisoned then (s, true, "p" :: outs)
    else
      match op with
      | .newGen =>
        if s.disc + 1 ≥ 2 ^ 64 then (s, true, "p" :: outs)
        else let (s', o) := obs s op; (s', false, o :: outs)
      | _ => let (s', o) := obs s op; (s', false, o :: outs)) (s0, false, [])
  pure (String.intercalate ";" out.reverse)

/-- the calls `compute_cache` of both provers makes on the pool, in order (the harness extracts them from the
working tree's source): one atomic generation change, then the refill -/
def protocolReq (_ : Req) : Option String := some "start_new_generation;give_back_resource"

def handle (r : Req) : Option String :=
  match r.op with
  | "c18.protocol" => protocolReq r
  | "c18.run" => runReq r
  | _ => none

end Handlers.C18
