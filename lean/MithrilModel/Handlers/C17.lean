import MithrilModel.Proto
import MithrilModel.Beacon
namespace Handlers.C17
open Proto Beacon

def showEntity : Entity → String
  | .msd e => s!"msd({e})"
  | .csd e => s!"csd({e})"
  | .ctx e b => s!"ctx({e},{b})"
  | .cbtx e b s => s!"cbtx({e},{b},{s})"
  | .cdb e i => s!"cdb({e},{i})"

def pairOpt (v : Option (List Nat)) : Option (Option (Nat × Nat)) :=
  match v with
  | some [] => some none
  | some [a, b] => some (some (a, b))
  | _ => none

/-- `c17.entity d=<0..4> epoch= imm= block= tx=[sec,step]|[] btx=[sec,step]|[]` -/
def entityReq (r : Req) : Option String := do
  let d ← r.nat "d"
  let epoch ← r.nat "epoch"
  let imm ← r.nat "imm"
  let block ← r.nat "block"
  let tx ← pairOpt (r.nats "tx")
  let btx ← pairOpt (r.nats "btx")
  let out := entity { tx, btx } d { epoch, immutable := imm, block }
  pure <| match out with
    | .ok e => "ok " ++ showEntity e
    | .err => "err"
    | .panic => "panic"

def handle (r : Req) : Option String :=
  match r.op with
  | "c17.entity" => entityReq r
  | _ => none

end Handlers.C17
