import MithrilModel.Proto
import MithrilModel.ChainClient
import MithrilModel.ChainSession
namespace Handlers.C03
open Proto Chain

def optNat : Val → Option (Option Nat)
  | .s "none" => some none
  | v => v.nat?.map some

/-- cert = `(hash,prev,epoch,avk,params,nextAvk|none,nextParams|none,isGenesis,[content,signed,epochPart,multisig,genesis])` -/
def parseCert : Val → Option Cert
  | .l [h, p, e, a, pp, na, np, g, bits] => do
    let b ← bits.nats?
    match b with
    | [b0, b1, b2, b3, b4] =>
      pure { hash := ← h.nat?, prevHash := ← p.nat?, epoch := ← e.nat?, avk := ← a.nat?, params := ← pp.nat?,
             nextAvk := ← optNat na, nextParams := ← optNat np, isGenesis := (← g.nat?) == 1,
             contentHashOk := b0 == 1, signedMsgOk := b1 == 1, epochPartOk := b2 == 1, multiSigOk := b3 == 1,
             genesisSigOk := b4 == 1 }
    | _ => none
  | _ => none

def showErr : Err → String
  | .notFound => "notFound" | .loop => "loop" | .hash => "hash" | .signedMsg => "signedMsg" | .multiSig => "multiSig"
  | .genesisSig => "genesisSig" | .epochPart => "epochPart" | .missingEpoch => "missingEpoch" | .prevHash => "prevHash"
  | .avk => "avk" | .params => "params" | .fuel => "fuel"

def parseServed (v : Val) : Option (List (Nat × Cert)) := do
  (← v.list?).mapM fun e =>
    match e with
    | .l [k, c] => do pure (← k.nat?, ← parseCert c)
    | _ => none

def showRes : Except Err Unit → String
  | .ok () => "ok"
  | .error e => "err " ++ showErr e

/-- `c03.chain fuel= start=<cert> served=[(hashId,<cert>)…]` -/
def chainReq (r : Req) : Option String := do
  let fuel ← r.nat "fuel"
  let start ← parseCert (← r.get? "start")
  let served ← parseServed (← r.get? "served")
  let retr := fun h => (served.find? (·.1 == h)).map (·.2)
  pure (showRes (verifyChain retr fuel start))

/-- `c03.client fuel= start=<cert> served=[…] cache=[(hashId,prevHashId)…]` — the client's two loops -/
def clientReq (r : Req) : Option String := do
  let fuel ← r.nat "fuel"
  let start ← parseCert (← r.get? "start")
  let served ← parseServed (← r.get? "served")
  let cache ← (← r.list "cache").mapM fun e =>
    match e with
    | .l [k, p] => do pure (← k.nat?, ← p.nat?)
    | _ => none
  let retr := fun h => (served.find? (·.1 == h)).map (·.2)
  let cacheF := fun h => (cache.find? (·.1 == h)).map (·.2)
  pure (showRes (clientVerify retr cacheF true fuel start))

/-- `c03.session cache=[(h,p)…] calls=[(fuel,<start cert>,[(hashId,<cert>)…])…]` → results `;`-joined ` | ` the cache
afterwards restricted to `keys=[…]`. `expired=1`: a `MemoryCertificateVerifierCache` whose delay is not positive — an
entry is expired as soon as it is stored (`get_previous_hash` filters on `expire_at >= now`), so every call reads an
empty cache and nothing is ever read back. -/
def sessionReq (r : Req) : Option String := do
  let cache ← (← r.list "cache").mapM fun e =>
    match e with
    | .l [k, p] => do pure (← k.nat?, ← p.nat?)
    | _ => none
  let keys ← r.nats "keys"
  let calls ← (← r.list "calls").mapM fun e =>
    match e with
    | .l [fuel, start, served] => do
      let sv ← parseServed served
      pure ((fun h => (sv.find? (·.1 == h)).map (·.2)), ← fuel.nat?, ← parseCert start)
    | _ => none
  if (r.nat "expired").getD 0 == 1 then
    let rs := calls.map fun (retr, fuel, c) => clientVerify retr (fun _ => none) true fuel c
    pure (String.intercalate ";" (rs.map showRes) ++ " | ")
  else
  let cacheF := fun h => (cache.find? (·.1 == h)).map (·.2)
  let (rs, c') := session true cacheF calls
  let dump := keys.filterMap fun k => (c' k).map fun p => s!"({k},{p})"
  pure (String.intercalate ";" (rs.map showRes) ++ " | " ++ String.intercalate "," dump)

def handle (r : Req) : Option String :=
  match r.op with
  | "c03.session" => sessionReq r
  | "c03.chain" => chainReq r
  | "c03.client" => clientReq r
  | _ => none
end Handlers.C03
