import MithrilModel.Proto
import MithrilModel.LegacyDec
namespace Handlers.C05
open Proto LegacyDec Decoder

def hexL (v : Val) : Option (List (List UInt8)) := do (← v.list?).mapM fun x => x.str?.bind hexDecode

def oracle (r : Req) : Option Oracle := do
  let vs ← hexL (← r.get? "validsig")
  let vk ← hexL (← r.get? "validvk")
  pure { sigValid := fun b => vs.contains b, vkValid := fun b => vk.contains b }

def showSingle (s : SingleSig) : String := s!"({showNats s.indexes},{hexEncode s.sigma},{s.signerIndex})"
def showPair (p : SingleSig × RegEntry) : String :=
  s!"({showNats p.1.indexes},{hexEncode p.1.sigma},{p.1.signerIndex},{hexEncode p.2.vk},{p.2.stake})"
def showProof (p : Proof) : String :=
  "sigs=[" ++ String.intercalate "," (p.sigs.map showPair) ++ "] path=([" ++
    String.intercalate "," (p.path.values.map hexEncode) ++ "]," ++ showNats p.path.indices ++ ")"

def showO {α} (f : α → String) : Outcome α → String
  | .ok a => "ok " ++ f a
  | .err => "err"
  | .panic _ => "panic"

def showN {α} (f : α → String) : Outcome (Nested α) → String
  | .ok (.val a) => "ok " ++ f a
  | .ok .cbor => "unmodelled:cbor"
  | .err => "err"
  | .panic _ => "panic"

def handle (r : Req) : Option String := do
  let bytes ← hexDecode (← r.str "bytes")
  let O ← oracle r
  match r.op with
  | "c05.single" => pure (if isCborPrefix bytes then "unmodelled:cbor" else showO showSingle (singleSig O bytes))
  | "c05.sigreg" => pure (if isCborPrefix bytes then "unmodelled:cbor" else showN showPair (sigReg O bytes))
  | "c05.aggregate" => pure (showN showProof (aggregate O bytes))
  | _ => none
end Handlers.C05
