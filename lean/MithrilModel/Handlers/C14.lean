import MithrilModel.Proto
import MithrilModel.Agg
import MithrilModel.AggProto
/-! C14 handler: `c14.run` replays a history of aggregator events on the model `Agg.step` and prints,
after every event, the state label, the outcome class of the event and the certification tables. -/
namespace Handlers.C14
open Proto Agg AggProto

def runReq (r : Req) : Option String := do
  let sc ← parseScenario r
  let E := mkEnvK sc.k sc.ks sc.ents
  let (_, out) := runFrom E (Agg.init sc.n sc.gen) sc.evs
  pure (String.intercalate ";" out)

def handle (r : Req) : Option String :=
  match r.op with
  | "c14.run" => runReq r
  | _ => none

end Handlers.C14
