import MithrilModel.Proto
import MithrilModel.Registration
import MithrilModel.RegLeader
namespace Handlers.C07
open Proto Registration

def optNat : Val → Option (Option Nat)
  | .s "none" => some none
  | v => v.nat?.map some

def showErr : Err → String
  | .opCertMissing => "opCertMissing" | .kesPeriodMissing => "kesPeriodMissing" | .kesSigMissing => "kesSigMissing"
  | .opCertInvalid => "opCertInvalid" | .kesInvalid => "kesInvalid" | .poolId => "poolId"
  | .partyNotInDistribution => "partyNotInDistribution" | .keyInvalid => "keyInvalid"
  | .alreadyRegistered => "alreadyRegistered"

/-- `c07.register opcert=0/1 sig=0/1 evol=<n|none> opcertOk= kesOk=[t…] popOk= pid=<id|none> sd=[(pid,stake)…] vk=<id> registered=[vk…]` -/
def registerReq (r : Req) : Option String := do
  let hasOc ← r.nat "opcert"
  let hasSig ← r.nat "sig"
  let evol ← optNat (← r.get? "evol")
  let opcertOk ← r.nat "opcertOk"
  let kesOk ← r.nats "kesOk"
  let popOk ← r.nat "popOk"
  let pid ← optNat (← r.get? "pid")
  let sd ← (← r.list "sd").mapM fun e =>
    match e with
    | .l [p, s] => do pure (← p.nat?, ← s.nat?)
    | _ => none
  let vk ← r.nat "vk"
  let registered ← r.nats "registered"
  let P : Prim := {
    opcertOk := fun _ => opcertOk == 1
    kesVerify := fun t _ _ _ => kesOk.contains t
    popVerify := fun _ => popOk == 1
    poolIdOf := fun _ => pid
    kesVkOf := fun _ => 0
    coldOf := fun _ => 0 }
  let p : Params := {
    partyId := none, opcert := if hasOc == 1 then some 0 else none, vk,
    kesSig := if hasSig == 1 then some 0 else none, kesEvolutions := evol, claimedStake := 0 }
  -- `HashMap::from_iter(stake_dist.to_vec())` (key_certification.rs:393): on a repeated party id the LAST pair wins
  let sdF := fun q => (sd.reverse.find? (·.1 == q)).map (·.2)
  pure (match register P sdF registered p with
    | .ok (pid, st) => s!"ok {pid} {st}"
    | .error e => "err " ++ showErr e)

/-! ### the aggregator's leader (`c07.history`) -/
open RegLeader in
def showVErr : RegLeader.VErr → String
  | .reg e => showErr e
  | .partyIdMissing => "partyIdMissing"

open RegLeader in
def showOut : RegLeader.Out → String
  | .ok pid st => s!"ok {pid} {st}"
  | .notOpened => "notOpened"
  | .unexpectedEpoch => "unexpectedEpoch"
  | .invalid e => "invalid:" ++ showVErr e
  | .existing pid => s!"existing {pid}"
  | .duplicateKey => "duplicateKey"

def parseSd (v : Val) : Option (List (Nat × Nat)) :=
  match v with
  | .l es => es.mapM fun e =>
    match e with
    | .l [p, s] => do pure (← p.nat?, ← s.nat?)
    | _ => none
  | _ => none

open RegLeader in
def parseOp : Val → Option RegLeader.Op
  | .l [.s "open", ep, sd] => do pure (.openRound (← ep.nat?) (← parseSd sd))
  | .l [.s "close"] => some .closeRound
  | .l [.s "chain", p] => do pure (.chain (← optNat p))
  | .l [.s "reg", ep, claimed, hasOc, start, vk, hasSig, announced, ocOk, kesOk, popOk, pool] => do
    pure (.reg { epoch := ← ep.nat?, claimed := ← optNat claimed, hasOpcert := (← hasOc.nat?) == 1, start := ← start.nat?,
                 vk := ← vk.nat?, hasSig := (← hasSig.nat?) == 1, announced := ← optNat announced,
                 opcertOk := (← ocOk.nat?) == 1, kesOk := ← kesOk.nats?, popOk := (← popOk.nat?) == 1, pool := ← optNat pool })
  | _ => none

def insRow (x : List Nat) : List (List Nat) → List (List Nat)
  | [] => [x]
  | y :: r => if decide (x ≤ y) then x :: y :: r else y :: insRow x r

def showOptNat : Option Nat → String
  | none => "none"
  | some n => toString n

/-- the code as it is: both repairs in (`fix:` verifier stores the verified evolutions, `fix:` leader
rejects a key registered by another party of the round) -/
def currentCfg (skip : Bool) : RegLeader.Cfg :=
  { skip, storeVerifiedEvolutions := true, rejectForeignDuplicate := true }

/-- `c07.history skip=0/1 ops=[…]` → outcomes `;`-joined ` | ` rows (epoch,pid,vk,stake,evol) sorted ` | ` recorded sorted -/
def historyReq (r : Req) : Option String := do
  let skip ← r.nat "skip"
  let ops ← (← r.list "ops").mapM parseOp
  let (s, outs) := RegLeader.run (currentCfg (skip == 1)) {} ops
  let rows := (s.rows.map fun x => [x.epoch, x.pid, x.vk, x.stake, (match x.evol with | none => 0 | some e => e + 1)]).foldr insRow []
  let showRow := fun (x : List Nat) => match x with
    | [a, b, c, d, e] => s!"({a},{b},{c},{d},{if e == 0 then "none" else toString (e - 1)})"
    | _ => "?"
  let rec_ := (s.recorded.map fun x => [x]).foldr insRow []
  pure (String.intercalate ";" (outs.map showOut) ++ " | " ++ String.intercalate "," (rows.map showRow) ++ " | " ++
        String.intercalate "," (rec_.map fun x => toString (x.headD 0)))

def handle (r : Req) : Option String :=
  match r.op with
  | "c07.history" => historyReq r
  | "c07.register" => registerReq r
  | _ => none
end Handlers.C07
