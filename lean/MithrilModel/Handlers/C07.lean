import MithrilModel.Proto
import MithrilModel.Registration
namespace Handlers.C07
open Proto Registration

def optNat : Val → Option (Option Nat)
  | .s "none" => some none
  | v => v.nat?.map some

def showErr : Err → String
  | .opCertMissing => "opCertMissing" | .kesPeriodMissing => "kesPeriodMissing" | .kesSigMissing => "kesSigMissing"
  | .opCertInvalid => "opCertInvalid" | .kesInvalid => "kesInvalid" | .poolId => "poolId"
  | .partyNotInDistribution => "partyNotInDistribution" | .keyInvalid => "keyInvalid"
  | .alreadyRegistered => "alreadyRegistered"

/-- `c07.register opcert=0/1 sig=0/1 evol=<n|none> opcertOk= kesOk=[t…] popOk= pid=<id|none> sd=[(pid,stake)…] vk=<id> registered=[vk…]` -/
def registerReq (r : Req) : Option String := do
  let hasOc ← r.nat "opcert"
  let hasSig ← r.nat "sig"
  let evol ← optNat (← r.get? "evol")
  let opcertOk ← r.nat "opcertOk"
  let kesOk ← r.nats "kesOk"
  let popOk ← r.nat "popOk"
  let pid ← optNat (← r.get? "pid")
  let sd ← (← r.list "sd").mapM fun e =>
    match e with
    | .l [p, s] => do pure (← p.nat?, ← s.nat?)
    | _ => none
  let vk ← r.nat "vk"
  let registered ← r.nats "registered"
  let P : Prim := {
    opcertOk := fun _ => opcertOk == 1
    kesVerify := fun t _ _ _ => kesOk.contains t
    popVerify := fun _ => popOk == 1
    poolIdOf := fun _ => pid
    kesVkOf := fun _ => 0
    coldOf := fun _ => 0 }
  let p : Params := {
    partyId := none, opcert := if hasOc == 1 then some 0 else none, vk,
    kesSig := if hasSig == 1 then some 0 else none, kesEvolutions := evol, claimedStake := 0 }
  let sdF := fun q => (sd.find? (·.1 == q)).map (·.2)
  pure (match register P sdF registered p with
    | .ok (pid, st) => s!"ok {pid} {st}"
    | .error e => "err " ++ showErr e)

def handle (r : Req) : Option String :=
  match r.op with
  | "c07.register" => registerReq r
  | _ => none
end Handlers.C07
