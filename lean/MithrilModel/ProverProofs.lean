import MithrilModel.Prover
/-! Lemmas about the prover model (`Prover.lean`): what an answer reports and under which map it is committed. -/
namespace Prover

/-! ### what a v2 request finds -/

theorem mem_txItems {b : Blk} {x : Item} : x ∈ txItems b ↔ ∃ t ∈ b.txs, x = .tx t b.hash b.number b.slot := by
  simp only [txItems, List.mem_map]
  constructor
  · rintro ⟨t, ht, rfl⟩; exact ⟨t, ht, rfl⟩
  · rintro ⟨t, ht, rfl⟩; exact ⟨t, ht, rfl⟩

theorem number_of_nodes2 {b : Blk} {x : Item} (h : x ∈ nodes2 b) : x.number = b.number := by
  simp only [nodes2, List.mem_cons] at h
  rcases h with rfl | h
  · rfl
  · obtain ⟨t, _, rfl⟩ := mem_txItems.mp h; rfl

/-- the stored items of one kind: `x` is an item of a stored block -/
def StoredItem (kindTx : Bool) (S : List Blk) (x : Item) : Prop :=
  ∃ b ∈ S, if kindTx then x ∈ txItems b else x = blockItem b

theorem mem_found {kindTx : Bool} {S : List Blk} {U : Nat} {req : List Nat} {x : Item} :
    x ∈ found kindTx S U req ↔ StoredItem kindTx S x ∧ x.number ≤ U ∧ x.key ∈ req := by
  simp only [found, List.mem_flatMap, List.mem_filter, decide_eq_true_eq, StoredItem]
  constructor
  · rintro ⟨b, ⟨hb, hU⟩, hx⟩
    cases kindTx with
    | true =>
      simp only [if_true, List.mem_filter, List.contains_eq_mem, decide_eq_true_eq] at hx
      refine ⟨⟨b, hb, by simpa using hx.1⟩, ?_, hx.2⟩
      rw [number_of_nodes2 (List.mem_cons_of_mem _ hx.1)]; exact hU
    | false =>
      simp only [Bool.false_eq_true, if_false] at hx
      split at hx
      · rename_i hc
        simp only [List.mem_singleton] at hx
        subst hx
        exact ⟨⟨b, hb, by simp⟩, hU, by simpa [blockItem, Item.key] using hc⟩
      · simp at hx
  · rintro ⟨⟨b, hb, hx⟩, hU, hk⟩
    cases kindTx with
    | true =>
      simp only [if_true] at hx
      refine ⟨b, ⟨hb, ?_⟩, ?_⟩
      · rw [← number_of_nodes2 (List.mem_cons_of_mem _ hx)]; exact hU
      · simp only [if_true, List.mem_filter, List.contains_eq_mem, decide_eq_true_eq]; exact ⟨hx, hk⟩
    | false =>
      simp only [Bool.false_eq_true, if_false] at hx
      subst hx
      refine ⟨b, ⟨hb, hU⟩, ?_⟩
      have hc : req.contains b.hash = true := by
        simp only [List.contains_eq_mem, decide_eq_true_eq]; exact hk
      simp only [Bool.false_eq_true, if_false]
      rw [if_pos hc]; exact List.mem_singleton.mpr rfl

theorem mem_nonCertified {req cert : List Nat} {h : Nat} : h ∈ nonCertified req cert ↔ h ∈ req ∧ h ∉ cert := by
  simp [nonCertified]

/-! ### the replacement loop -/

theorem replaceAll_ok {ι : Type} [DecidableEq ι] (m : RMap ι) :
    ∀ (l : List (Nat × List ι)), replaceAll m l = .ok () → ∀ p ∈ l, m.get p.1 = some p.2 := by
  intro l
  induction l with
  | nil => intro _ p hp; simp at hp
  | cons a r ih =>
    obtain ⟨k, c⟩ := a
    intro h p hp
    simp only [replaceAll] at h
    split at h
    · simp at h
    · rename_i c0 hc0
      split at h
      · rename_i he
        rcases List.mem_cons.mp hp with rfl | hp
        · simpa [he] using hc0
        · exact ih h p hp
      · simp at h

/-! ### v2 answers -/

/-- an answer with a proof reports exactly the items the request names among the stored ones at or below
the beacon -/
theorem prove2_items {kindTx : Bool} {S : List Blk} {cache : Option (RMap Item)} {U : Nat} {req : List Nat}
    {items : List Item} (h : prove2 kindTx S cache U req = .ok items) : items = found kindTx S U req := by
  unfold prove2 at h
  simp only at h
  split at h
  · simp at h
  · split at h
    · simp at h
    · split at h
      · simp at h
      · simpa using h.symm

/-- `Ok(None)` exactly when the request names no stored item at or below the beacon -/
theorem prove2_none {kindTx : Bool} {S : List Blk} {cache : Option (RMap Item)} {U : Nat} {req : List Nat} :
    prove2 kindTx S cache U req = .none ↔ found kindTx S U req = [] := by
  unfold prove2
  simp only
  constructor
  · intro h
    split at h
    · assumption
    · split at h
      · simp at h
      · split at h <;> simp at h
  · intro h; simp [h]

theorem mem_rangesOf {items : List Item} {x : Item} (h : x ∈ items) : x.number / LEN ∈ rangesOf items := by
  simp only [rangesOf, List.mem_eraseDups, List.mem_map]
  exact ⟨x, h, rfl⟩

theorem mem_cut_of_found {kindTx : Bool} {S : List Blk} {U : Nat} {req : List Nat} {x : Item}
    (h : x ∈ found kindTx S U req) : x ∈ cut nodes2 S (x.number / LEN) U := by
  obtain ⟨⟨b, hb, hx⟩, hU, _⟩ := mem_found.mp h
  have hn : x ∈ nodes2 b := by
    cases kindTx with
    | true => simp only [if_true] at hx; exact List.mem_cons_of_mem _ hx
    | false => simp only [Bool.false_eq_true, if_false] at hx; subst hx; simp [nodes2]
  have hnum := number_of_nodes2 hn
  simp only [cut, content, List.mem_flatMap, List.mem_filter, inCut, Bool.and_eq_true, decide_eq_true_eq]
  refine ⟨b, ⟨hb, ?_, ?_⟩, hn⟩
  · rw [← hnum]; exact Nat.div_mul_le_self _ _
  · rw [← hnum]
    have h1 : x.number < (x.number / LEN + 1) * LEN := by
      have := Nat.lt_div_mul_add (a := x.number) (b := LEN) (by decide)
      rw [Nat.add_mul, Nat.one_mul]; exact this
    exact Nat.lt_min.mpr ⟨h1, by omega⟩

/-- **every certified item is committed under the pooled map, whose root the proof carries**: an answer
with a proof leaves the pooled map as it was; for every reported item the map's entry for the item's block
range is the range as the store holds it now, cut at the beacon, and the item's leaf is one of its leaves -/
theorem prove2_committed {kindTx : Bool} {S : List Blk} {cache : Option (RMap Item)} {U : Nat} {req : List Nat}
    {items : List Item} (h : prove2 kindTx S cache U req = .ok items) :
    ∃ m, cache = some m ∧ ∀ x ∈ items,
      m.get (x.number / LEN) = some (cut nodes2 S (x.number / LEN) U) ∧ x ∈ cut nodes2 S (x.number / LEN) U := by
  have hi := prove2_items h
  unfold prove2 at h
  simp only at h
  split at h
  · simp at h
  · split at h
    · simp at h
    · rename_i m
      split at h
      · simp at h
      · rename_i hr
        refine ⟨m, rfl, ?_⟩
        intro x hx
        rw [hi] at hx
        have hk := mem_rangesOf hx
        have := replaceAll_ok m _ hr (x.number / LEN, cut nodes2 S (x.number / LEN) U)
          (List.mem_map.mpr ⟨_, hk, rfl⟩)
        exact ⟨this, mem_cut_of_found hx⟩

/-! ### legacy answers -/

theorem mem_foundL {S : List Blk} {U : Nat} {req : List Nat} {t n : Nat} :
    (t, n) ∈ foundL S U req ↔ ∃ b ∈ S, b.number ≤ U ∧ t ∈ b.txs ∧ t ∈ req ∧ n = b.number := by
  simp only [foundL, List.mem_flatMap, List.mem_filter, decide_eq_true_eq, List.mem_map, List.contains_eq_mem,
    Prod.mk.injEq]
  constructor
  · rintro ⟨b, ⟨hb, hU⟩, t', ⟨ht, hr⟩, rfl, rfl⟩; exact ⟨b, hb, hU, ht, hr, rfl⟩
  · rintro ⟨b, hb, hU, ht, hr, rfl⟩; exact ⟨b, ⟨hb, hU⟩, t, ⟨ht, hr⟩, rfl, rfl⟩

theorem mem_fullL {S : List Blk} {k h : Nat} :
    h ∈ full nodesL S k ↔ ∃ b ∈ S, k * LEN ≤ b.number ∧ b.number < (k + 1) * LEN ∧ h ∈ b.txs := by
  simp only [full, content, nodesL, List.mem_flatMap, List.mem_filter, inCut, Bool.and_eq_true, decide_eq_true_eq]
  constructor
  · rintro ⟨b, ⟨hb, h1, h2⟩, ht⟩; exact ⟨b, hb, h1, h2, ht⟩
  · rintro ⟨b, hb, h1, h2, ht⟩; exact ⟨b, ⟨hb, h1, h2⟩, ht⟩

theorem proveL_certified {S : List Blk} {cache : Option (RMap Nat)} {U : Nat} {req cert : List Nat}
    (h : proveL S cache U req = .ok cert) :
    cert = req.filter fun x => (rangesOfL (foundL S U req)).any fun k => (full nodesL S k).contains x := by
  unfold proveL at h
  simp only at h
  split at h
  · simp at h
  · split at h
    · simp at h
    · simpa using h.symm

theorem div_range {n k : Nat} : n / LEN = k ↔ k * LEN ≤ n ∧ n < (k + 1) * LEN := by
  simp only [LEN]; omega

/-- **legacy, beacon at the end of a block range** (what C17 guarantees for `CardanoTransactions`): the
reported hashes are exactly the requested ones stored at or below the beacon, in the order (and
multiplicity) of the request -/
theorem proveL_exact_aligned {S : List Blk} {cache : Option (RMap Nat)} {U : Nat} {req cert : List Nat}
    (hal : (U + 1) % LEN = 0) (h : proveL S cache U req = .ok cert) :
    cert = req.filter fun x => decide (∃ b ∈ S, b.number ≤ U ∧ x ∈ b.txs) := by
  rw [proveL_certified h]
  apply List.filter_congr
  intro x hx
  rw [Bool.eq_iff_iff]
  simp only [List.any_eq_true, List.contains_eq_mem, decide_eq_true_eq, rangesOfL, List.mem_eraseDups, List.mem_map]
  constructor
  · rintro ⟨k, ⟨⟨t, n⟩, hf, rfl⟩, hk⟩
    obtain ⟨b, hb, hbU, _, _, hn⟩ := mem_foundL.mp hf
    obtain ⟨b', hb', h1, h2, ht⟩ := mem_fullL.mp hk
    refine ⟨b', hb', ?_, ht⟩
    simp only at h1 h2 hn
    subst hn
    simp only [LEN] at *
    omega
  · rintro ⟨b, hb, hbU, ht⟩
    refine ⟨b.number / LEN, ⟨(x, b.number), mem_foundL.mpr ⟨b, hb, hbU, ht, hx, rfl⟩, rfl⟩, ?_⟩
    exact mem_fullL.mpr ⟨b, hb, (div_range.mp rfl).1, (div_range.mp rfl).2, ht⟩

/-- every hash a legacy answer reports is a leaf of a range the pooled map holds exactly as the store does -/
theorem proveL_committed {S : List Blk} {cache : Option (RMap Nat)} {U : Nat} {req cert : List Nat}
    (h : proveL S cache U req = .ok cert) :
    ∃ m, cache = some m ∧ ∀ x ∈ cert, ∃ k, m.get k = some (full nodesL S k) ∧ x ∈ full nodesL S k := by
  have hc := proveL_certified h
  unfold proveL at h
  simp only at h
  split at h
  · simp at h
  · rename_i m
    split at h
    · simp at h
    · rename_i hr
      refine ⟨m, rfl, ?_⟩
      intro x hx
      rw [hc] at hx
      simp only [List.mem_filter, List.any_eq_true, List.contains_eq_mem, decide_eq_true_eq] at hx
      obtain ⟨_, k, hk, hxk⟩ := hx
      exact ⟨k, replaceAll_ok m _ hr (k, full nodesL S k) (List.mem_map.mpr ⟨k, hk, rfl⟩), hxk⟩

/-! ### the cache is the map the signable builder signs -/

/-- `compute_cache(U)` right after the signable for `U`: the pooled map is the signed map -/
theorem cache_after_sign2 (s : St) (U : Nat) :
    (step (step s (.sign2 U)).1 (.cache2 U)).1.cache2 =
      some (mapAt2 nodes2 (importTo s U).blocks (importTo s U).roots2 U) ∧
    (step s (.sign2 U)).2 = .signed2 (mapAt2 nodes2 (importTo s U).blocks (importTo s U).roots2 U) := ⟨rfl, rfl⟩

theorem cache_after_signL (s : St) (U : Nat) :
    (step (step s (.signL U)).1 (.cacheL U)).1.cacheL = some (mapAtL (importTo s U).rootsL U) ∧
    (step s (.signL U)).2 = .signedL (mapAtL (importTo s U).rootsL U) := ⟨rfl, rfl⟩

/-- requests do not change the pooled maps (a successful replacement keeps every root; the map is
compressed when given back) -/
theorem prove_keeps_cache (s : St) (U : Nat) (req : List Nat) :
    (step s (.ptx U req)).1 = s ∧ (step s (.pblk U req)).1 = s ∧ (step s (.pl U req)).1 = s := ⟨rfl, rfl, rfl⟩

/-! ### the certification flow is never refused

Hypotheses on the store at the time of `compute_cache(U)` (C13 proves them for imports on a chain that is
at or above the target: `roots a function of the stored blocks`, `kept roots cover kept blocks`):
`hcover` every complete range at or below the beacon that has nodes has its stored root, computed from the
stored blocks; `hinside` — the negation of the known finding — no root is stored for the range the beacon
lies strictly inside. Afterwards the store only grows above the beacon. -/

theorem replaceAll_of_get {ι : Type} [DecidableEq ι] (m : RMap ι) :
    ∀ (l : List (Nat × List ι)), (∀ p ∈ l, m.get p.1 = some p.2) → replaceAll m l = .ok () := by
  intro l
  induction l with
  | nil => intro _; rfl
  | cons a r ih =>
    obtain ⟨k, c⟩ := a
    intro h
    have h1 := h (k, c) (by simp)
    simp only at h1
    simp only [replaceAll, h1, if_true]
    exact ih (fun p hp => h p (by simp [hp]))

theorem get_baseAt {ι : Type} (roots : RMap ι) (U k : Nat) (hk : k * LEN < U) :
    (baseAt roots U).get k = roots.get k := by
  unfold RMap.get baseAt
  induction roots with
  | nil => rfl
  | cons a r ih =>
    by_cases hp : a.1 * LEN < U
    · simp only [List.filter_cons, hp, decide_true, if_true, List.find?_cons]
      cases hq : (a.1 == k) with
      | true => rfl
      | false => exact ih
    · have hne : (a.1 == k) = false := by
        rw [beq_eq_false_iff_ne]; intro he; subst he; exact hp hk
      simp only [List.filter_cons, hp, decide_false, Bool.false_eq_true, if_false, List.find?_cons, hne]
      exact ih

theorem get_append_left {ι : Type} (m m' : RMap ι) (k : Nat) (c : List ι) (h : m.get k = some c) :
    (m ++ m').get k = some c := by
  unfold RMap.get at *
  rw [List.find?_append]
  cases hf : m.find? (fun r => r.1 == k) with
  | none => rw [hf] at h; simp at h
  | some r => rw [hf] at h; simpa using h

theorem get_append_new {ι : Type} (m : RMap ι) (k : Nat) (c : List ι) (h : ∀ r ∈ m, r.1 ≠ k) :
    (m ++ [(k, c)]).get k = some c := by
  unfold RMap.get
  rw [List.find?_append]
  have : m.find? (fun r => r.1 == k) = none := by
    rw [List.find?_eq_none]; intro r hr; simpa using h r hr
  simp [this]

theorem content_append_above {ι : Type} (lv : Blk → List ι) (S ext : List Blk) (lo hi U : Nat) (hhi : hi ≤ U + 1)
    (hext : ∀ b ∈ ext, U < b.number) : content lv (S ++ ext) lo hi = content lv S lo hi := by
  unfold content
  rw [List.filter_append]
  have : ext.filter (inCut lo hi) = [] := by
    rw [List.filter_eq_nil_iff]
    intro b hb
    have := hext b hb
    simp only [inCut, Bool.and_eq_true, decide_eq_true_eq, not_and, Nat.not_lt]
    intro _; omega
  simp [this]

def lastContains {ι : Type} (base : RMap ι) (k : Nat) : Bool :=
  match base.getLast? with
  | some r => r.1 == k
  | none => false

theorem mapAt2_eq {ι : Type} [DecidableEq ι] (lv : Blk → List ι) (S : List Blk) (roots : RMap ι) (U : Nat) :
    mapAt2 lv S roots U =
      if ((U + 1) % LEN != 0 && !lastContains (baseAt roots U) (U / LEN)) = true then
        if cut lv S (U / LEN) U = [] then baseAt roots U else baseAt roots U ++ [(U / LEN, cut lv S (U / LEN) U)]
      else baseAt roots U := rfl

theorem mapAt2_get_complete (S0 : List Blk) (roots : RMap Item) (U k : Nat) (c : List Item)
    (hk : k * LEN < U) (h : roots.get k = some c) : (mapAt2 nodes2 S0 roots U).get k = some c := by
  have hb : (baseAt roots U).get k = some c := by rw [get_baseAt roots U k hk]; exact h
  rw [mapAt2_eq]
  by_cases h1 : ((U + 1) % LEN != 0 && !lastContains (baseAt roots U) (U / LEN)) = true
  · rw [if_pos h1]
    by_cases h2 : cut nodes2 S0 (U / LEN) U = []
    · rw [if_pos h2]; exact hb
    · rw [if_neg h2]; exact get_append_left _ _ _ _ hb
  · rw [if_neg h1]; exact hb

theorem mapAt2_get_partial (S0 : List Blk) (roots : RMap Item) (U : Nat)
    (hp : (U + 1) % LEN ≠ 0) (hinside : ∀ r ∈ roots, r.1 ≠ U / LEN) (hne : cut nodes2 S0 (U / LEN) U ≠ []) :
    (mapAt2 nodes2 S0 roots U).get (U / LEN) = some (cut nodes2 S0 (U / LEN) U) := by
  have hbase : ∀ r ∈ baseAt roots U, r.1 ≠ U / LEN := fun r hr => hinside r (List.mem_filter.mp hr).1
  have hlast : lastContains (baseAt roots U) (U / LEN) = false := by
    unfold lastContains
    cases hl : (baseAt roots U).getLast? with
    | none => rfl
    | some r =>
      have : r ∈ baseAt roots U := List.mem_of_getLast? hl
      simpa using hbase r this
  rw [mapAt2_eq, hlast]
  have hc : ((U + 1) % LEN != 0 && !false) = true := by simpa using hp
  rw [if_pos hc, if_neg hne]
  exact get_append_new _ _ _ hbase

/-- **the certification flow is never refused (v2)**: with the pooled map computed for the beacon from a
store that meets `hcover` and `hinside`, and whatever was imported above the beacon since, every request
for that beacon gets `none` or a proof -/
theorem prove2_not_refused {kindTx : Bool} {S0 ext : List Blk} {roots : RMap Item} {U : Nat} {req : List Nat}
    (hcover : ∀ k, (k + 1) * LEN ≤ U + 1 → full nodes2 S0 k ≠ [] → roots.get k = some (full nodes2 S0 k))
    (hinside : (U + 1) % LEN ≠ 0 → ∀ r ∈ roots, r.1 ≠ U / LEN)
    (hext : ∀ b ∈ ext, U < b.number) :
    ∀ e, prove2 kindTx (S0 ++ ext) (some (mapAt2 nodes2 S0 roots U)) U req ≠ .err e := by
  intro e
  unfold prove2
  simp only
  split
  · simp
  · have hall : ∀ p ∈ (rangesOf (found kindTx (S0 ++ ext) U req)).map
        (fun k => (k, cut nodes2 (S0 ++ ext) k U)),
        (mapAt2 nodes2 S0 roots U).get p.1 = some p.2 := by
      intro p hp
      obtain ⟨k, hk, rfl⟩ := List.mem_map.mp hp
      simp only [rangesOf, List.mem_eraseDups, List.mem_map] at hk
      obtain ⟨x, hx, rfl⟩ := hk
      have hmem := mem_cut_of_found hx
      have hU : x.number ≤ U := (mem_found.mp hx).2.1
      have hcut : cut nodes2 (S0 ++ ext) (x.number / LEN) U = cut nodes2 S0 (x.number / LEN) U :=
        content_append_above nodes2 S0 ext _ _ U (Nat.min_le_right _ _) hext
      simp only
      rw [hcut] at hmem ⊢
      have hlo : x.number / LEN * LEN ≤ x.number := Nat.div_mul_le_self _ _
      by_cases hfull : (x.number / LEN + 1) * LEN ≤ U + 1
      · have hcf : cut nodes2 S0 (x.number / LEN) U = full nodes2 S0 (x.number / LEN) := by
          unfold cut full; rw [Nat.min_eq_left hfull]
        rw [hcf] at hmem ⊢
        have hne : full nodes2 S0 (x.number / LEN) ≠ [] := by intro h0; rw [h0] at hmem; simp at hmem
        refine mapAt2_get_complete S0 roots U _ _ ?_ (hcover _ hfull hne)
        simp only [LEN] at *; omega
      · have hk : x.number / LEN = U / LEN := by
          simp only [LEN] at *; omega
        have hp : (U + 1) % LEN ≠ 0 := by
          simp only [LEN] at *; omega
        rw [hk] at hmem ⊢
        have hne : cut nodes2 S0 (U / LEN) U ≠ [] := by intro h0; rw [h0] at hmem; simp at hmem
        exact mapAt2_get_partial S0 roots U hp (hinside hp) hne
    rw [replaceAll_of_get _ _ hall]
    simp

/-- **the certification flow is never refused (legacy, beacon at the end of a range)** -/
theorem proveL_not_refused {S0 ext : List Blk} {roots : RMap Nat} {U : Nat} {req : List Nat}
    (hal : (U + 1) % LEN = 0)
    (hcover : ∀ k, (k + 1) * LEN ≤ U + 1 → full nodesL S0 k ≠ [] → roots.get k = some (full nodesL S0 k))
    (hext : ∀ b ∈ ext, U < b.number) :
    ∀ e, proveL (S0 ++ ext) (some (mapAtL roots U)) U req ≠ .err e := by
  intro e
  unfold proveL
  simp only
  have hall : ∀ p ∈ (rangesOfL (foundL (S0 ++ ext) U req)).map (fun k => (k, full nodesL (S0 ++ ext) k)),
      (mapAtL roots U).get p.1 = some p.2 := by
    intro p hp
    obtain ⟨k, hk, rfl⟩ := List.mem_map.mp hp
    simp only [rangesOfL, List.mem_eraseDups, List.mem_map] at hk
    obtain ⟨⟨t, n⟩, hf, rfl⟩ := hk
    obtain ⟨b, hb, hbU, ht, _, hn⟩ := mem_foundL.mp hf
    simp only at hn ⊢
    subst hn
    have hfullr : (b.number / LEN + 1) * LEN ≤ U + 1 := by
      simp only [LEN] at *; omega
    have hcf : full nodesL (S0 ++ ext) (b.number / LEN) = full nodesL S0 (b.number / LEN) :=
      content_append_above nodesL S0 ext _ _ U hfullr hext
    rw [hcf]
    have hbS0 : b ∈ S0 := by
      rcases List.mem_append.mp hb with h | h
      · exact h
      · have := hext b h; omega
    have hne : full nodesL S0 (b.number / LEN) ≠ [] := by
      intro h0
      have : t ∈ full nodesL S0 (b.number / LEN) :=
        mem_fullL.mpr ⟨b, hbS0, (div_range.mp rfl).1, (div_range.mp rfl).2, ht⟩
      rw [h0] at this; simp at this
    unfold mapAtL
    rw [get_baseAt roots U _ (by simp only [LEN] at *; omega)]
    exact hcover _ hfullr hne
  rw [replaceAll_of_get _ _ hall]
  simp

/-! ### concrete histories -/

deriving instance DecidableEq for Obs

def blk (n : Nat) : Blk := { number := n, hash := 1000 + n, slot := 20 * n, txs := [2000 + n] }

/-- the known finding (prover side of C13's beacon-inside-stored-range): the node imported to block 20, so
the root of the whole range [0,15[ is stored; beacon 5 is signed and its cache computed; the transaction of
block 3 — stored, below the beacon — is refused, the prover rebuilt the range cut at the beacon -/
theorem inside_range_counterexample :
    (run {} [.grow ((List.range 21).map blk), .imp 20, .sign2 5, .cache2 5, .ptx 5 [2003]]).2.getLast? =
      some (.proved2 [2003] (.err .rootDiffers) [(0, full nodes2 ((List.range 21).map blk) 0)]) := by
  decide +kernel

/-- … whereas a node that imported exactly to the beacon serves it -/
theorem exact_import_example :
    (run {} [.grow ((List.range 21).map blk), .sign2 5, .cache2 5, .ptx 5 [2003, 2007, 4]]).2.getLast? =
      some (.proved2 [2003, 2007, 4] (.ok [.tx 2003 1003 3 60]) [(0, cut nodes2 ((List.range 21).map blk) 0 5)]) := by
  decide +kernel

/-- legacy with a beacon strictly inside a range (never produced: C17): a transaction above the beacon is
reported, because the whole range is committed -/
theorem legacy_unaligned_counterexample :
    (run {} [.grow ((List.range 21).map blk), .imp 20, .signL 5, .cacheL 5, .pl 5 [2003, 2009]]).2.getLast? =
      some (.provedL [2003, 2009] (.ok [2003, 2009]) [(0, full nodesL ((List.range 21).map blk) 0)]) := by
  decide +kernel

/-- a stale cache is refused, not served: beacon 20 cached, the chain grows, the next beacon (33) is asked
without a new cache — the new range is unknown to the pooled map -/
theorem stale_cache_refused :
    (run {} [.grow ((List.range 21).map blk), .sign2 20, .cache2 20, .grow ((List.range' 21 20).map blk), .sign2 33,
      .ptx 33 [2031]]).2.getLast? = some (.proved2 [2031] (.err .noKey)
        [(0, full nodes2 ((List.range 21).map blk) 0), (1, cut nodes2 ((List.range 21).map blk) 1 20)]) := by
  decide +kernel

end Prover
