import MithrilModel.Clerk
namespace Clerk

/-! lookup / update lemmas -/

theorem lookup_insertSorted (i j : Nat) (s : Sig) (hs : List (Nat × Sig)) :
    lookup j (insertSorted i s hs) = if i = j then some s else lookup j hs := by
  induction hs with
  | nil => simp [insertSorted, lookup]
  | cons x r ih =>
    obtain ⟨k, t⟩ := x
    simp only [insertSorted]
    split
    · simp [lookup]
    · split
      · rename_i h1 h2; subst h2; simp only [lookup]; split <;> simp_all
      · rename_i h1 h2
        simp only [lookup, ih]
        by_cases hkj : k = j
        · subst hkj; simp [h2]
        · simp [hkj]

def rem (k : Key) (rm : List (Key × List Nat)) : List Nat := (lookup k rm).getD []

theorem rem_addRemoval (k k' : Key) (i : Nat) (rm : List (Key × List Nat)) :
    rem k (addRemoval k' i rm) = if k' = k then rem k rm ++ [i] else rem k rm := by
  unfold rem
  induction rm with
  | nil => simp [addRemoval, lookup]; split <;> simp_all
  | cons x r ih =>
    obtain ⟨a, l⟩ := x
    simp only [addRemoval]
    split
    · rename_i h; subst h
      simp only [lookup]
      split <;> simp_all
    · rename_i h
      simp only [lookup]
      by_cases hak : a = k
      · subst hak; simp [h]; intro h'; exact absurd h'.symm h
      · simp only [hak, if_false]; exact ih

/-- the invariant over processed (signature, index) pairs -/
def Inv (st : St) (P : Sig × Nat → Prop) : Prop :=
  (∀ p, P p → (∃ t, lookup p.2 st.holders = some t ∧ t.key = p.1.key) ∨ p.2 ∈ rem p.1.key st.removal) ∧
  (∀ i t, lookup i st.holders = some t → P (t, i))

theorem stepIdx_inv (s : Sig) (st : St) (i : Nat) (P : Sig × Nat → Prop) (h : Inv st P) :
    Inv (stepIdx s st i) (fun p => p = (s, i) ∨ P p) := by
  obtain ⟨h1, h2⟩ := h
  unfold stepIdx
  split
  · rename_i prev hprev
    split
    · -- s wins index i from prev
      refine ⟨?_, ?_⟩
      · intro p hp
        rcases hp with rfl | hp
        · left; exact ⟨s, by simp [lookup_insertSorted], rfl⟩
        · simp only [lookup_insertSorted, rem_addRemoval]
          by_cases hip : i = p.2
          · -- p had index i: either it was the holder (prev's key) or already removed
            rcases h1 p hp with ⟨t, ht, htk⟩ | hr
            · rw [← hip, hprev] at ht
              simp at ht; subst ht
              right; simp [htk, hip]
            · right; split <;> simp [hr]
          · rcases h1 p hp with ⟨t, ht, htk⟩ | hr
            · left; exact ⟨t, by simp [hip, ht], htk⟩
            · right; split <;> simp [hr]
      · intro j t hjt
        simp only [lookup_insertSorted] at hjt
        split at hjt
        · rename_i hij; simp at hjt; subst hjt; subst hij; exact Or.inl rfl
        · exact Or.inr (h2 j t hjt)
    · -- s loses index i
      refine ⟨?_, ?_⟩
      · intro p hp
        rcases hp with rfl | hp
        · right; simp [rem_addRemoval]
        · rcases h1 p hp with ⟨t, ht, htk⟩ | hr
          · left; exact ⟨t, ht, htk⟩
          · right; simp only [rem_addRemoval]; split <;> simp [hr]
      · intro j t hjt; exact Or.inr (h2 j t hjt)
  · -- free index
    rename_i hnone
    refine ⟨?_, ?_⟩
    · intro p hp
      rcases hp with rfl | hp
      · left; exact ⟨s, by simp [lookup_insertSorted], rfl⟩
      · rcases h1 p hp with ⟨t, ht, htk⟩ | hr
        · left
          refine ⟨t, ?_, htk⟩
          simp only [lookup_insertSorted]
          split
          · rename_i hij; rw [← hij, hnone] at ht; simp at ht
          · exact ht
        · right; exact hr
    · intro j t hjt
      simp only [lookup_insertSorted] at hjt
      split at hjt
      · rename_i hij; simp at hjt; subst hjt; subst hij; exact Or.inl rfl
      · exact Or.inr (h2 j t hjt)

#print axioms stepIdx_inv

/-! lifting the invariant over the two folds -/

theorem Inv_congr {st : St} {P Q : Sig × Nat → Prop} (hPQ : ∀ p, P p ↔ Q p) (h : Inv st P) : Inv st Q :=
  ⟨fun p hq => h.1 p ((hPQ p).mpr hq), fun i t hit => (hPQ _).mp (h.2 i t hit)⟩

theorem foldIdx_inv (s : Sig) : ∀ (l : List Nat) (st : St) (P : Sig × Nat → Prop),
    Inv st P → Inv (l.foldl (stepIdx s) st) (fun p => (p.1 = s ∧ p.2 ∈ l) ∨ P p) := by
  intro l
  induction l with
  | nil => intro st P h; exact Inv_congr (by simp) h
  | cons i r ih =>
    intro st P h
    have := ih (stepIdx s st i) _ (stepIdx_inv s st i P h)
    refine Inv_congr ?_ this
    intro p
    obtain ⟨a, b⟩ := p
    simp only [List.mem_cons, Prod.mk.injEq]
    constructor
    · rintro (⟨h1, h2⟩ | ⟨h1, h2⟩ | h3)
      · exact Or.inl ⟨h1, Or.inr h2⟩
      · exact Or.inl ⟨h1, Or.inl h2⟩
      · exact Or.inr h3
    · rintro (⟨h1, h2 | h2⟩ | h3)
      · exact Or.inr (Or.inl ⟨h1, h2⟩)
      · exact Or.inl ⟨h1, h2⟩
      · exact Or.inr (Or.inr h3)

/-- the processed pairs after a list of signatures -/
def Done (sigs : List Sig) (p : Sig × Nat) : Prop := p.1 ∈ sigs ∧ p.1.valid = true ∧ p.2 ∈ p.1.idxs

theorem foldSig_inv : ∀ (sigs : List Sig) (st : St) (P : Sig × Nat → Prop),
    Inv st P → Inv (sigs.foldl stepSig st) (fun p => Done sigs p ∨ P p) := by
  intro sigs
  induction sigs with
  | nil => intro st P h; exact Inv_congr (by simp [Done]) h
  | cons s r ih =>
    intro st P h
    have hstep : Inv (stepSig st s) (fun p => (p.1 = s ∧ s.valid = true ∧ p.2 ∈ s.idxs) ∨ P p) := by
      unfold stepSig
      split
      · rename_i hv
        exact Inv_congr (by intro p; simp [hv]) (foldIdx_inv s s.idxs st P h)
      · rename_i hv
        exact Inv_congr (by intro p; simp [hv]) h
    refine Inv_congr ?_ (ih (stepSig st s) _ hstep)
    intro p
    obtain ⟨a, b⟩ := p
    simp only [Done, List.mem_cons]
    constructor
    · rintro (⟨h1, h2, h3⟩ | ⟨h1, h2, h3⟩ | h4)
      · exact Or.inl ⟨Or.inr h1, h2, h3⟩
      · exact Or.inl ⟨Or.inl h1, h1 ▸ h2, h1 ▸ h3⟩
      · exact Or.inr h4
    · rintro (⟨h1 | h1, h2, h3⟩ | h4)
      · exact Or.inr (Or.inl ⟨h1, h1 ▸ h2, h1 ▸ h3⟩)
      · exact Or.inl ⟨h1, h2, h3⟩
      · exact Or.inr (Or.inr h4)

/-- the state after the first phase -/
theorem phase1_inv (sigs : List Sig) : Inv (sigs.foldl stepSig {}) (Done sigs) := by
  have h0 : Inv ({} : St) (fun _ => False) := ⟨fun _ h => h.elim, fun i t h => by simp [lookup] at h⟩
  exact Inv_congr (by intro p; simp) (foldSig_inv sigs {} _ h0)

#print axioms phase1_inv

/-! membership form of "holders are processed pairs" -/
def InvM (st : St) (P : Sig × Nat → Prop) : Prop := ∀ e ∈ st.holders, P (e.2, e.1)

theorem mem_insertSorted {i : Nat} {s : Sig} {hs : List (Nat × Sig)} {e : Nat × Sig}
    (h : e ∈ insertSorted i s hs) : e = (i, s) ∨ e ∈ hs := by
  induction hs with
  | nil => simp [insertSorted] at h; exact Or.inl h
  | cons x r ih =>
    obtain ⟨k, t⟩ := x
    simp only [insertSorted] at h
    split at h
    · simp only [List.mem_cons] at h ⊢; rcases h with h | h | h <;> simp [h]
    · split at h
      · simp only [List.mem_cons] at h ⊢; rcases h with h | h <;> simp [h]
      · simp only [List.mem_cons] at h ⊢
        rcases h with h | h
        · exact Or.inr (Or.inl h)
        · rcases ih h with h | h
          · exact Or.inl h
          · exact Or.inr (Or.inr h)

theorem stepIdx_invM (s : Sig) (st : St) (i : Nat) (P : Sig × Nat → Prop) (h : InvM st P) :
    InvM (stepIdx s st i) (fun p => p = (s, i) ∨ P p) := by
  unfold stepIdx
  split
  · split
    · intro e he
      rcases mem_insertSorted he with rfl | he
      · exact Or.inl rfl
      · exact Or.inr (h e he)
    · intro e he; exact Or.inr (h e he)
  · intro e he
    rcases mem_insertSorted he with rfl | he
    · exact Or.inl rfl
    · exact Or.inr (h e he)

theorem InvM_congr {st : St} {P Q : Sig × Nat → Prop} (hPQ : ∀ p, P p → Q p) (h : InvM st P) : InvM st Q :=
  fun e he => hPQ _ (h e he)

theorem foldIdx_invM (s : Sig) : ∀ (l : List Nat) (st : St) (P : Sig × Nat → Prop),
    InvM st P → InvM (l.foldl (stepIdx s) st) (fun p => (p.1 = s ∧ p.2 ∈ l) ∨ P p) := by
  intro l
  induction l with
  | nil => intro st P h; exact InvM_congr (fun p hp => Or.inr hp) h
  | cons i r ih =>
    intro st P h
    refine InvM_congr ?_ (ih (stepIdx s st i) _ (stepIdx_invM s st i P h))
    rintro ⟨a, b⟩ (⟨h1, h2⟩ | h3 | h4)
    · exact Or.inl ⟨h1, List.mem_cons_of_mem _ h2⟩
    · simp only [Prod.mk.injEq] at h3; exact Or.inl ⟨h3.1, by simp [h3.2]⟩
    · exact Or.inr h4

theorem foldSig_invM : ∀ (sigs : List Sig) (st : St) (P : Sig × Nat → Prop),
    InvM st P → InvM (sigs.foldl stepSig st) (fun p => Done sigs p ∨ P p) := by
  intro sigs
  induction sigs with
  | nil => intro st P h; exact InvM_congr (fun p hp => Or.inr hp) h
  | cons s r ih =>
    intro st P h
    have hstep : InvM (stepSig st s) (fun p => (p.1 = s ∧ s.valid = true ∧ p.2 ∈ s.idxs) ∨ P p) := by
      unfold stepSig
      split
      · rename_i hv
        exact InvM_congr (by rintro p (⟨h1, h2⟩ | h3); exact Or.inl ⟨h1, hv, h2⟩; exact Or.inr h3)
          (foldIdx_invM s s.idxs st P h)
      · exact InvM_congr (fun p hp => Or.inr hp) h
    refine InvM_congr ?_ (ih (stepSig st s) _ hstep)
    rintro ⟨a, b⟩ (⟨h1, h2, h3⟩ | ⟨h1, h2, h3⟩ | h4)
    · exact Or.inl ⟨List.mem_cons_of_mem _ h1, h2, h3⟩
    · exact Or.inl ⟨List.mem_cons.mpr (Or.inl h1), h1 ▸ h2, h1 ▸ h3⟩
    · exact Or.inr h4

theorem phase1_invM (sigs : List Sig) : InvM (sigs.foldl stepSig {}) (Done sigs) := by
  have h0 : InvM ({} : St) (fun _ => False) := fun e he => by simp at he
  exact InvM_congr (by rintro p (h | h); exact h; exact h.elim) (foldSig_invM sigs {} _ h0)

/-! second phase -/
def strip (removal : List (Key × List Nat)) (s : Sig) : Sig :=
  { s with idxs := s.idxs.filter (fun i => !((lookup s.key removal).getD []).contains i) }

theorem strip_key (removal) (s : Sig) : (strip removal s).key = s.key := rfl

theorem phase2_spec (k : Nat) (removal : List (Key × List Nat)) :
    ∀ (hs : List (Nat × Sig)) (acc : List Sig) (count : Nat) (out : List Sig),
      phase2 k removal hs acc count = .ok out →
      (∀ o ∈ out, o ∈ acc ∨ ∃ e ∈ hs, o = strip removal e.2) ∧
      (acc.Pairwise (fun a b => a.key ≠ b.key) → out.Pairwise (fun a b => a.key ≠ b.key)) ∧
      (count = (acc.map (·.idxs.length)).sum → k ≤ (out.map (·.idxs.length)).sum) := by
  intro hs
  induction hs with
  | nil => intro acc count out h; simp [phase2] at h
  | cons e r ih =>
    intro acc count out h
    obtain ⟨j, s⟩ := e
    simp only [phase2] at h
    split at h
    · -- key already present: skip
      obtain ⟨h1, h2, h3⟩ := ih acc count out h
      refine ⟨?_, h2, h3⟩
      intro o ho
      rcases h1 o ho with h | ⟨e, he, rfl⟩
      · exact Or.inl h
      · exact Or.inr ⟨e, List.mem_cons_of_mem _ he, rfl⟩
    · rename_i hnew
      have hfresh : ∀ t ∈ acc, t.key ≠ s.key := by
        intro t ht hk
        apply hnew
        simp only [List.any_eq_true, decide_eq_true_eq]
        exact ⟨t, ht, hk⟩
      split at h
      · -- quorum reached
        rename_i hk
        simp only [Except.ok.injEq] at h
        subst h
        refine ⟨?_, ?_, ?_⟩
        · intro o ho
          rcases List.mem_cons.mp ho with rfl | ho
          · exact Or.inr ⟨(j, s), by simp, rfl⟩
          · exact Or.inl ho
        · intro hp
          refine List.pairwise_cons.mpr ⟨?_, hp⟩
          intro t ht; exact fun hh => hfresh t ht hh.symm
        · intro hc
          simp only [List.map_cons, List.sum_cons]
          change k ≤ (strip removal s).idxs.length + _
          have : count + (strip removal s).idxs.length ≥ k := hk
          omega
      · obtain ⟨h1, h2, h3⟩ := ih (strip removal s :: acc) (count + (strip removal s).idxs.length) out h
        refine ⟨?_, ?_, ?_⟩
        · intro o ho
          rcases h1 o ho with h | ⟨e, he, rfl⟩
          · rcases List.mem_cons.mp h with rfl | h
            · exact Or.inr ⟨(j, s), by simp, rfl⟩
            · exact Or.inl h
          · exact Or.inr ⟨e, List.mem_cons_of_mem _ he, rfl⟩
        · intro hp
          apply h2
          refine List.pairwise_cons.mpr ⟨?_, hp⟩
          intro t ht; exact fun hh => hfresh t ht hh.symm
        · intro hc
          apply h3
          simp only [List.map_cons, List.sum_cons]
          omega

/-- **Soundness of the selection**: the selected signatures have pairwise different keys, come
from valid input signatures, carry only indices of those, never share an index, and cover `k`. -/
theorem select_sound (k : Nat) (sigs out : List Sig) (h : select k sigs = .ok out) :
    out.Pairwise (fun a b => a.key ≠ b.key) ∧
    (∀ o ∈ out, ∃ t ∈ sigs, t.valid = true ∧ o.key = t.key ∧ ∀ i ∈ o.idxs, i ∈ t.idxs) ∧
    (∀ o1 ∈ out, ∀ o2 ∈ out, o1.key ≠ o2.key → ∀ i ∈ o1.idxs, i ∉ o2.idxs) ∧
    k ≤ (out.map (·.idxs.length)).sum := by
  unfold select at h
  simp only at h
  have hI := phase1_inv sigs
  have hM := phase1_invM sigs
  obtain ⟨h1, h2, h3⟩ := phase2_spec k _ _ [] 0 out h
  have horigin : ∀ o ∈ out, ∃ e ∈ (sigs.foldl stepSig {}).holders,
      o = strip (sigs.foldl stepSig {}).removal e.2 := by
    intro o ho
    rcases h1 o ho with h | h
    · simp at h
    · exact h
  have hidx : ∀ o ∈ out, ∀ i ∈ o.idxs, ∃ t ∈ sigs, t.valid = true ∧ o.key = t.key ∧ i ∈ t.idxs ∧
      ∃ hd, lookup i (sigs.foldl stepSig {}).holders = some hd ∧ hd.key = o.key := by
    intro o ho i hi
    obtain ⟨e, he, rfl⟩ := horigin o ho
    have hd := hM e he
    simp only [strip, List.mem_filter, Bool.not_eq_true', List.contains_eq_mem, decide_eq_false_iff_not] at hi
    refine ⟨e.2, hd.1, hd.2.1, rfl, hi.1, ?_⟩
    have hdone : Done sigs (e.2, i) := ⟨hd.1, hd.2.1, hi.1⟩
    rcases hI.1 (e.2, i) hdone with ⟨t, ht, htk⟩ | hr
    · exact ⟨t, ht, htk⟩
    · exact absurd hr hi.2
  refine ⟨h2 List.Pairwise.nil, ?_, ?_, h3 (by simp)⟩
  · intro o ho
    obtain ⟨e, he, rfl⟩ := horigin o ho
    have hd := hM e he
    refine ⟨e.2, hd.1, hd.2.1, rfl, ?_⟩
    intro i hi
    simp only [strip, List.mem_filter] at hi
    exact hi.1
  · intro o1 ho1 o2 ho2 hne i hi1 hi2
    obtain ⟨_, _, _, _, _, t1, ht1, hk1⟩ := hidx o1 ho1 i hi1
    obtain ⟨_, _, _, _, _, t2, ht2, hk2⟩ := hidx o2 ho2 i hi2
    rw [ht1] at ht2
    simp only [Option.some.injEq] at ht2
    subst ht2
    exact hne (hk1.symm.trans hk2)

#print axioms select_sound
end Clerk
