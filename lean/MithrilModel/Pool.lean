namespace Pool

structure Res where
  trueGen : Nat            -- ghost: generation under which the resource was created
deriving DecidableEq, Repr

structure Item where
  res : Res
  tag : Nat                -- discriminant read when the item was built
deriving DecidableEq, Repr

structure St where
  size : Nat
  disc : Nat
  queue : List Res
  held : List (Nat × Item)   -- thread id ↦ checked-out item
deriving Repr

inductive Op where
  | acquire (tid : Nat)
  | giveBackItem (tid : Nat)     -- `give_back_resource_pool_item`
  | dropItem (tid : Nat)         -- `Drop for ResourcePoolItem`
  | setDisc (d : Nat)
  | clear
  | giveBack (r : Res) (d : Nat) -- `give_back_resource` (refill)

def giveBackRes (s : St) (r : Res) (d : Nat) : St :=
  if s.queue.length = s.size then s
  else if s.disc ≠ d then s
  else { s with queue := s.queue ++ [r] }

def removeHeld (tid : Nat) (h : List (Nat × Item)) : List (Nat × Item) := h.filter (fun x => x.1 ≠ tid)

def lookupHeld (tid : Nat) : List (Nat × Item) → Option Item
  | [] => none
  | (t, i) :: r => if t = tid then some i else lookupHeld tid r

/-- the code as it is (API-atomic granularity) -/
def step (s : St) : Op → St
  | .acquire tid =>
    match s.queue with
    | [] => s                               -- would block / time out
    | r :: q => { s with queue := q, held := (tid, { res := r, tag := s.disc }) :: s.held }
  | .giveBackItem tid =>
    match lookupHeld tid s.held with
    | none => s
    | some it => giveBackRes { s with held := removeHeld tid s.held } it.res s.disc   -- BUG: pool's discriminant
  | .dropItem tid =>
    match lookupHeld tid s.held with
    | none => s
    | some it => giveBackRes { s with held := removeHeld tid s.held } it.res it.tag
  | .setDisc d => { s with disc := d }
  | .clear => { s with queue := [] }
  | .giveBack r d => giveBackRes s r d

def Fresh (s : St) : Prop := ∀ r ∈ s.queue, r.trueGen = s.disc

def init : St := { size := 2, disc := 0, queue := [⟨0⟩, ⟨0⟩], held := [] }

/-- acquire under generation 0; refresh to generation 1 (bump, clear); explicit give-back
of the old item; refill: the pool now holds a generation-0 resource under discriminant 1. -/
theorem item_giveback_counterexample :
    ¬ Fresh ([Op.acquire 0, .setDisc 1, .clear, .giveBackItem 0, .giveBack ⟨1⟩ 1, .giveBack ⟨1⟩ 1].foldl step init) := by
  intro h
  have := h ⟨0⟩ (by decide)
  revert this
  decide

/-- the tag race: acquire between `set_discriminant` and `clear` -/
theorem tag_race_counterexample :
    ¬ Fresh ([Op.setDisc 1, .acquire 0, .clear, .dropItem 0].foldl step init) := by
  intro h
  have := h ⟨0⟩ (by decide)
  revert this
  decide

/-! ### repaired semantics -/

inductive Op' where
  | acquire (tid : Nat)
  | giveBackItem (tid : Nat)
  | dropItem (tid : Nat)
  | refresh (n : Nat)            -- bump + clear + refill with n fresh resources, one critical section
  | reset

def step' (s : St) : Op' → St
  | .acquire tid =>
    match s.queue with
    | [] => s
    | r :: q => { s with queue := q, held := (tid, { res := r, tag := s.disc }) :: s.held }
  | .giveBackItem tid | .dropItem tid =>
    match lookupHeld tid s.held with
    | none => s
    | some it => giveBackRes { s with held := removeHeld tid s.held } it.res it.tag
  | .refresh n =>
    { s with disc := s.disc + 1, queue := (List.replicate (min n s.size) ⟨s.disc + 1⟩) }
  | .reset => s

def Inv (s : St) : Prop :=
  (∀ r ∈ s.queue, r.trueGen = s.disc) ∧ s.queue.length ≤ s.size ∧
  (∀ x ∈ s.held, x.2.tag = x.2.res.trueGen ∧ x.2.tag ≤ s.disc)

theorem lookupHeld_mem {tid : Nat} {h : List (Nat × Item)} {it : Item}
    (hl : lookupHeld tid h = some it) : (tid, it) ∈ h := by
  induction h with
  | nil => simp [lookupHeld] at hl
  | cons x r ih =>
    obtain ⟨t, i⟩ := x
    simp only [lookupHeld] at hl
    split at hl
    · rename_i ht; subst ht; simp at hl; subst hl; simp
    · exact List.mem_cons_of_mem _ (ih hl)

theorem giveBackRes_inv {s : St} {r : Res} {d : Nat} (h : Inv s) (hr : r.trueGen = d) :
    Inv (giveBackRes s r d) := by
  unfold giveBackRes
  split
  · exact h
  · split
    · exact h
    · rename_i hlen hd
      have hd' : s.disc = d := by simpa using hd
      obtain ⟨h1, h2, h3⟩ := h
      refine ⟨?_, ?_, h3⟩
      · intro x hx
        simp only [List.mem_append, List.mem_singleton] at hx
        rcases hx with hx | hx
        · exact h1 x hx
        · subst hx; simp [hr, hd']
      · simp; omega

theorem step'_inv (s : St) (op : Op') (h : Inv s) : Inv (step' s op) := by
  obtain ⟨h1, h2, h3⟩ := h
  cases op with
  | acquire tid =>
    simp only [step']
    split
    · exact ⟨h1, h2, h3⟩
    · rename_i r q hq
      refine ⟨?_, ?_, ?_⟩
      · intro x hx; exact h1 x (by simp [hq, hx])
      · simp [hq] at h2; simp; omega
      · intro x hx
        simp only [List.mem_cons] at hx
        rcases hx with rfl | hx
        · simp [h1 r (by simp [hq])]
        · exact h3 x hx
  | giveBackItem tid | dropItem tid =>
    simp only [step']
    split
    · exact ⟨h1, h2, h3⟩
    · rename_i it hit
      have hmem := lookupHeld_mem hit
      have hit3 := h3 _ hmem
      apply giveBackRes_inv
      · refine ⟨h1, h2, ?_⟩
        intro x hx
        exact h3 x (by simp [removeHeld] at hx; exact hx.1)
      · exact hit3.1.symm
  | refresh n =>
    simp only [step']
    refine ⟨?_, ?_, ?_⟩
    · intro x hx; simp [List.mem_replicate] at hx; simp [hx.2]
    · simp; omega
    · intro x hx; obtain ⟨a, b⟩ := h3 x hx; exact ⟨a, by simp; omega⟩
  | reset => exact ⟨h1, h2, h3⟩

/-- every reachable state of the repaired pool is fresh and bounded -/
theorem reachable_inv (s : St) (h : Inv s) (ops : List Op') : Inv (ops.foldl step' s) := by
  induction ops generalizing s with
  | nil => exact h
  | cons op ops ih => exact ih _ (step'_inv s op h)

#print axioms reachable_inv
end Pool
