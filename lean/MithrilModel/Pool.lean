namespace Pool

structure Res where
  trueGen : Nat            -- ghost: generation under which the resource was created
deriving DecidableEq, Repr

structure Item where
  res : Res
  tag : Nat                -- discriminant read when the item was built
deriving DecidableEq, Repr

structure St where
  size : Nat
  disc : Nat
  queue : List Res
  held : List (Nat × Item)   -- thread id ↦ checked-out item
deriving Repr

inductive Op where
  | reset                        -- `reset_available_resources`
  | acquire (tid : Nat)
  | giveBackItem (tid : Nat)     -- `give_back_resource_pool_item`
  | dropItem (tid : Nat)         -- `Drop for ResourcePoolItem`
  | setDisc (d : Nat)
  | clear
  | giveBack (r : Res) (d : Nat) -- `give_back_resource` (refill)
  | newGen                       -- `start_new_generation` (after the `fix:` commit): bump + clear in one step

def giveBackRes (s : St) (r : Res) (d : Nat) : St :=
  if s.size ≤ s.queue.length then s
  else if s.disc ≠ d then s
  else { s with queue := s.queue ++ [r] }

def removeHeld (tid : Nat) (h : List (Nat × Item)) : List (Nat × Item) := h.filter (fun x => x.1 ≠ tid)

def lookupHeld (tid : Nat) : List (Nat × Item) → Option Item
  | [] => none
  | (t, i) :: r => if t = tid then some i else lookupHeld tid r

/-- the code before the `fix:` commits (API-atomic granularity): explicit give-back of an
item used the pool's current discriminant. Kept to document the fixed finding. -/
def stepOld (s : St) : Op → St
  | .reset => s
  | .acquire tid =>
    match s.queue with
    | [] => s                               -- would block / time out
    | r :: q => { s with queue := q, held := (tid, { res := r, tag := s.disc }) :: s.held }
  | .giveBackItem tid =>
    match lookupHeld tid s.held with
    | none => s
    | some it => giveBackRes { s with held := removeHeld tid s.held } it.res s.disc   -- BUG: pool's discriminant
  | .dropItem tid =>
    match lookupHeld tid s.held with
    | none => s
    | some it => giveBackRes { s with held := removeHeld tid s.held } it.res it.tag
  | .setDisc d => { s with disc := d }
  | .clear => { s with queue := [] }
  | .giveBack r d => giveBackRes s r d
  | .newGen => { s with disc := s.disc + 1, queue := [] }

/-- the code as it is (API-atomic granularity; after the fix the bound test and the push are
one critical section, so every API call is one atomic step — see DESIGN C18) -/
def step (s : St) : Op → St
  | .reset => s
  | .acquire tid =>
    match s.queue with
    | [] => s                               -- blocks, then times out
    | r :: q => { s with queue := q, held := (tid, { res := r, tag := s.disc }) :: s.held }
  | .giveBackItem tid | .dropItem tid =>
    match lookupHeld tid s.held with
    | none => s
    | some it => giveBackRes { s with held := removeHeld tid s.held } it.res it.tag
  | .setDisc d => { s with disc := d }
  | .clear => { s with queue := [] }
  | .giveBack r d => giveBackRes s r d
  | .newGen => { s with disc := s.disc + 1, queue := [] }

def Fresh (s : St) : Prop := ∀ r ∈ s.queue, r.trueGen = s.disc

def init : St := { size := 2, disc := 0, queue := [⟨0⟩, ⟨0⟩], held := [] }

/-- acquire under generation 0; refresh to generation 1 (bump, clear); explicit give-back
of the old item; refill: the pool now holds a generation-0 resource under discriminant 1. -/
theorem item_giveback_counterexample :
    ¬ Fresh ([Op.acquire 0, .setDisc 1, .clear, .giveBackItem 0, .giveBack ⟨1⟩ 1, .giveBack ⟨1⟩ 1].foldl stepOld init) := by
  intro h
  have := h ⟨0⟩ (by decide)
  revert this
  decide

/-- the tag race: acquire between `set_discriminant` and `clear` -/
theorem tag_race_counterexample :
    ¬ Fresh ([Op.setDisc 1, .acquire 0, .clear, .dropItem 0].foldl step init) := by
  intro h
  have := h ⟨0⟩ (by decide)
  revert this
  decide

/-! ### invariants of the code as it is -/

def Inv (s : St) : Prop :=
  (∀ r ∈ s.queue, r.trueGen = s.disc) ∧ s.queue.length ≤ s.size ∧
  (∀ x ∈ s.held, x.2.tag = x.2.res.trueGen ∧ x.2.tag ≤ s.disc)

theorem lookupHeld_mem {tid : Nat} {h : List (Nat × Item)} {it : Item}
    (hl : lookupHeld tid h = some it) : (tid, it) ∈ h := by
  induction h with
  | nil => simp [lookupHeld] at hl
  | cons x r ih =>
    obtain ⟨t, i⟩ := x
    simp only [lookupHeld] at hl
    split at hl
    · rename_i ht; subst ht; simp at hl; subst hl; simp
    · exact List.mem_cons_of_mem _ (ih hl)

theorem giveBackRes_inv {s : St} {r : Res} {d : Nat} (h : Inv s) (hr : r.trueGen = d) :
    Inv (giveBackRes s r d) := by
  unfold giveBackRes
  split
  · exact h
  · split
    · exact h
    · rename_i hlen hd
      have hd' : s.disc = d := by simpa using hd
      obtain ⟨h1, h2, h3⟩ := h
      refine ⟨?_, ?_, h3⟩
      · intro x hx
        simp only [List.mem_append, List.mem_singleton] at hx
        rcases hx with hx | hx
        · exact h1 x hx
        · subst hx; simp [hr, hd']
      · simp; omega

/-- the pool never holds more than `size` resources, whatever is called in whatever order -/
def Bounded (s : St) : Prop := s.queue.length ≤ s.size

theorem giveBackRes_bounded {s : St} {r : Res} {d : Nat} (h : Bounded s) : Bounded (giveBackRes s r d) := by
  unfold giveBackRes Bounded at *
  split
  · exact h
  · split
    · exact h
    · simp; omega

theorem step_bounded (s : St) (op : Op) (h : Bounded s) : Bounded (step s op) := by
  cases op with
  | reset => exact h
  | acquire tid =>
    simp only [step]; split
    · exact h
    · rename_i r q hq; unfold Bounded at *; simp [hq] at h; simp; omega
  | giveBackItem tid | dropItem tid =>
    simp only [step]; split
    · exact h
    · apply giveBackRes_bounded; exact h
  | setDisc d => exact h
  | clear => unfold Bounded; simp [step]
  | giveBack r d => exact giveBackRes_bounded h
  | newGen => unfold Bounded; simp [step]

theorem run_bounded (s : St) (h : Bounded s) (ops : List Op) : Bounded (ops.foldl step s) := by
  induction ops generalizing s with
  | nil => exact h
  | cons op ops ih => exact ih _ (step_bounded s op h)

/-- well-formedness of one API call with respect to the ghost generation:
a resource handed to `give_back_resource` together with discriminant `d` was built for `d` -/
def OpOk : Op → Prop
  | .giveBack r d => r.trueGen = d
  | .setDisc _ => False          -- generation changes only through `newGen` (or `Reach.refresh`)
  | _ => True

theorem step_inv (s : St) (op : Op) (hok : OpOk op) (h : Inv s) : Inv (step s op) := by
  obtain ⟨h1, h2, h3⟩ := h
  cases op with
  | reset => exact ⟨h1, h2, h3⟩
  | acquire tid =>
    simp only [step]
    split
    · exact ⟨h1, h2, h3⟩
    · rename_i r q hq
      refine ⟨?_, ?_, ?_⟩
      · intro x hx; exact h1 x (by simp [hq, hx])
      · simp [hq] at h2; simp; omega
      · intro x hx
        simp only [List.mem_cons] at hx
        rcases hx with rfl | hx
        · simp [h1 r (by simp [hq])]
        · exact h3 x hx
  | giveBackItem tid | dropItem tid =>
    simp only [step]
    split
    · exact ⟨h1, h2, h3⟩
    · rename_i it hit
      have hmem := lookupHeld_mem hit
      have hit3 := h3 _ hmem
      apply giveBackRes_inv
      · refine ⟨h1, h2, ?_⟩
        intro x hx
        exact h3 x (by simp [removeHeld] at hx; exact hx.1)
      · exact hit3.1.symm
  | setDisc d => exact absurd hok (by simp [OpOk])
  | clear =>
    refine ⟨?_, ?_, h3⟩
    · intro x hx; simp [step] at hx
    · simp [step]
  | giveBack r d => exact giveBackRes_inv ⟨h1, h2, h3⟩ hok
  | newGen =>
    refine ⟨?_, ?_, ?_⟩
    · intro x hx; simp [step] at hx
    · simp [step]
    · intro x hx
      obtain ⟨a, b⟩ := h3 x (by simpa [step] using hx)
      exact ⟨a, by simp [step]; omega⟩

/-- a refresh whose `set_discriminant` and `clear` are not separated by another call -/
theorem refresh_inv (s : St) (d : Nat) (hd : s.disc ≤ d) (h : Inv s) :
    Inv (step (step s (.setDisc d)) .clear) := by
  obtain ⟨h1, h2, h3⟩ := h
  refine ⟨?_, ?_, ?_⟩
  · intro x hx; simp [step] at hx
  · simp [step]
  · intro x hx
    obtain ⟨a, b⟩ := h3 x (by simpa [step] using hx)
    exact ⟨a, by simp [step]; omega⟩

/-- states reachable by any interleaving of API calls by any number of users, in which the two
calls of a refresh (`set_discriminant(d)`, `clear()`) are adjacent -/
inductive Reach (s0 : St) : St → Prop
  | init : Reach s0 s0
  | api (s : St) (op : Op) : Reach s0 s → OpOk op → Reach s0 (step s op)
  | refresh (s : St) (d : Nat) : Reach s0 s → s.disc ≤ d → Reach s0 (step (step s (.setDisc d)) .clear)

theorem reach_inv (s0 s : St) (h0 : Inv s0) (hr : Reach s0 s) : Inv s := by
  induction hr with
  | init => exact h0
  | api s op _ hok ih => exact step_inv s op hok ih
  | refresh s d _ hd ih => exact refresh_inv s d hd ih

/-- hand-out freshness: a resource acquired in a reachable state belongs to the current generation -/
theorem acquire_fresh (s0 s : St) (h0 : Inv s0) (hr : Reach s0 s) (tid : Nat) (it : Item)
    (h : lookupHeld tid (step s (.acquire tid)).held = some it) (hne : s.queue ≠ []) :
    it.res.trueGen = s.disc := by
  have hi := reach_inv s0 s h0 hr
  match hq : s.queue with
  | [] => exact absurd hq hne
  | r :: q =>
    simp [step, hq, lookupHeld] at h
    subst h
    exact hi.1 r (by simp [hq])

/-- **every interleaving of the calls the provers make** (acquire, explicit give-back, drop, refill with
resources built for the discriminant they are handed in with, clear, reset, `start_new_generation`), by any
number of users, in any order: no side condition on where the generation changes fall -/
theorem run_inv (s : St) (h : Inv s) : ∀ ops : List Op, (∀ op ∈ ops, OpOk op) → Inv (ops.foldl step s) := by
  intro ops
  induction ops generalizing s with
  | nil => intro _; exact h
  | cons op r ih =>
    intro hok
    exact ih (step s op) (step_inv s op (hok op (by simp)) h) (fun o ho => hok o (by simp [ho]))

end Pool
