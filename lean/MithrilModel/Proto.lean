/-
Line protocol used between the Rust harness and the Lean driver.
A request line is `<op> key=value key=value …`; values contain no blanks.
value := nat | token | `[` value,* `]` | `(` value,* `)`
Import-free (core only) so that the driver links as a native executable.
-/
namespace Proto

inductive Val where
  | n : Nat → Val
  | s : String → Val
  | l : List Val → Val
  deriving Repr, Inhabited, BEq

def isDelim (c : Char) : Bool := c == ',' || c == '[' || c == ']' || c == '(' || c == ')'

/-- tokens: single delimiter characters or maximal runs of other characters -/
def tokenize (cs : List Char) : List String :=
  let rec go (cs : List Char) (cur : List Char) (acc : List String) : List String :=
    match cs with
    | [] => (if cur.isEmpty then acc else String.ofList cur.reverse :: acc).reverse
    | c :: rest =>
      if isDelim c then
        let acc := if cur.isEmpty then acc else String.ofList cur.reverse :: acc
        go rest [] (String.singleton c :: acc)
      else go rest (c :: cur) acc
  go cs [] []

/-- atoms stay text (a hex string made of decimal digits must keep its leading zeros);
`Val.nat?` reads a decimal number on demand -/
def atom (t : String) : Val := .s t

/-- parse one value from the token stream; fuel = number of tokens -/
partial def parseVal : List String → Option (Val × List String)
  | [] => none
  | t :: rest =>
    if t == "[" || t == "(" then
      let close := if t == "[" then "]" else ")"
      let rec items (ts : List String) (acc : List Val) : Option (Val × List String) :=
        match ts with
        | [] => none
        | u :: us =>
          if u == close then some (.l acc.reverse, us)
          else if u == "," then items us acc
          else match parseVal (u :: us) with
            | none => none
            | some (v, ts') => items ts' (v :: acc)
      items rest []
    else if t == "]" || t == ")" || t == "," then none
    else some (atom t, rest)

def parse (s : String) : Option Val :=
  match parseVal (tokenize s.toList) with
  | some (v, []) => some v
  | _ => none

structure Req where
  op : String
  args : List (String × Val)

def splitKV (s : String) : Option (String × String) :=
  match s.splitOn "=" with
  | k :: v :: rest => some (k, String.intercalate "=" (v :: rest))
  | _ => none

def parseReq (line : String) : Option Req :=
  match (line.trimAscii.toString.splitOn " ").filter (· ≠ "") with
  | [] => none
  | op :: kvs =>
    let args := kvs.filterMap fun kv =>
      match splitKV kv with
      | some (k, v) => (parse v).map fun pv => (k, pv)
      | none => none
    if args.length == kvs.length then some { op, args } else none

def Req.get? (r : Req) (k : String) : Option Val := (r.args.find? (·.1 == k)).map (·.2)

def Val.nat? : Val → Option Nat
  | .n k => some k
  | .s t => if !t.isEmpty && t.all Char.isDigit then some t.toNat! else none
  | _ => none

def Val.str? : Val → Option String
  | .s t => some t
  | .n k => some (toString k)
  | _ => none

def Val.list? : Val → Option (List Val)
  | .l xs => some xs
  | _ => none

def Val.nats? (v : Val) : Option (List Nat) :=
  match v with
  | .l xs => xs.mapM Val.nat?
  | _ => none

def Req.nat (r : Req) (k : String) : Option Nat := (r.get? k).bind Val.nat?
def Req.str (r : Req) (k : String) : Option String := (r.get? k).bind Val.str?
def Req.nats (r : Req) (k : String) : Option (List Nat) := (r.get? k).bind Val.nats?
def Req.list (r : Req) (k : String) : Option (List Val) := (r.get? k).bind Val.list?

def showNats (l : List Nat) : String := "[" ++ String.intercalate "," (l.map toString) ++ "]"

/-! hex -/
def hexDigit (c : Char) : Option Nat :=
  if '0' ≤ c && c ≤ '9' then some (c.toNat - '0'.toNat)
  else if 'a' ≤ c && c ≤ 'f' then some (c.toNat - 'a'.toNat + 10)
  else none

def hexDecode (s : String) : Option (List UInt8) :=
  let rec go : List Char → Option (List UInt8)
    | [] => some []
    | [_] => none
    | a :: b :: rest => do
      let x ← hexDigit a
      let y ← hexDigit b
      let r ← go rest
      pure (UInt8.ofNat (x * 16 + y) :: r)
  if s == "-" then some [] else go s.toList

def hexChar (n : Nat) : Char := if n < 10 then Char.ofNat (48 + n) else Char.ofNat (87 + n)

def hexEncode (b : List UInt8) : String :=
  if b.isEmpty then "-" else
  String.ofList (b.flatMap fun x => [hexChar (x.toNat / 16), hexChar (x.toNat % 16)])

end Proto
