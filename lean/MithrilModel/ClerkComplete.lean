import MithrilModel.ClerkSound
/-! C02 completeness: when no (key, index) pair is offered twice, selection succeeds as soon as
`k` distinct valid indices exist. -/
namespace Clerk

/-- exactness: a loss recorded for key κ at index i is justified by a holder with another key,
and stems from a processed pair with key κ -/
def Ex (st : St) (P : Sig × Nat → Prop) : Prop :=
  ∀ κ i, i ∈ rem κ st.removal →
    (∃ h, lookup i st.holders = some h ∧ h.key ≠ κ) ∧ (∃ s', P (s', i) ∧ s'.key = κ)

theorem Ex_congr {st : St} {P Q : Sig × Nat → Prop} (hPQ : ∀ p, P p → Q p) (h : Ex st P) : Ex st Q := by
  intro κ i hi
  obtain ⟨h1, s', hs', hk⟩ := h κ i hi
  exact ⟨h1, s', hPQ _ hs', hk⟩

theorem stepIdx_ex (s : Sig) (st : St) (i : Nat) (P : Sig × Nat → Prop)
    (hI : Inv st P) (hE : Ex st P) (hfresh : ¬ P (s, i))
    (hkey : ∀ t j, P (t, j) → t.key = s.key → t = s) :
    Ex (stepIdx s st i) (fun p => p = (s, i) ∨ P p) := by
  unfold stepIdx
  split
  · rename_i prev hprev
    have hPprev : P (prev, i) := hI.2 i prev hprev
    have hne : prev.key ≠ s.key := fun h => hfresh (hkey prev i hPprev h ▸ hPprev)
    split
    · -- s takes i from prev
      intro κ j hj
      simp only [rem_addRemoval] at hj
      simp only [lookup_insertSorted]
      by_cases hκ : prev.key = κ
      · simp only [hκ, if_true, List.mem_append, List.mem_singleton] at hj
        rcases hj with hj | rfl
        · obtain ⟨⟨h, hh, hhk⟩, s', hs', hk⟩ := hE κ j hj
          by_cases hij : i = j
          · subst hij
            refine ⟨⟨s, by simp, ?_⟩, s', Or.inr hs', hk⟩
            rw [← hκ]; exact fun h => hne h.symm
          · exact ⟨⟨h, by simp [hij, hh], hhk⟩, s', Or.inr hs', hk⟩
        · refine ⟨⟨s, by simp, ?_⟩, prev, Or.inr hPprev, hκ⟩
          rw [← hκ]; exact fun h => hne h.symm
      · simp only [hκ, if_false] at hj
        obtain ⟨⟨h, hh, hhk⟩, s', hs', hk⟩ := hE κ j hj
        by_cases hij : i = j
        · subst hij
          refine ⟨⟨s, by simp, ?_⟩, s', Or.inr hs', hk⟩
          intro hsκ
          exact hfresh (hkey s' i hs' (hk.trans hsκ.symm) ▸ hs')
        · exact ⟨⟨h, by simp [hij, hh], hhk⟩, s', Or.inr hs', hk⟩
    · -- s loses i against prev
      intro κ j hj
      simp only [rem_addRemoval] at hj
      by_cases hκ : s.key = κ
      · simp only [hκ, if_true, List.mem_append, List.mem_singleton] at hj
        rcases hj with hj | rfl
        · obtain ⟨h1, s', hs', hk⟩ := hE κ j hj
          exact ⟨h1, s', Or.inr hs', hk⟩
        · exact ⟨⟨prev, hprev, by rw [← hκ]; exact hne⟩, s, Or.inl rfl, hκ⟩
      · simp only [hκ, if_false] at hj
        obtain ⟨h1, s', hs', hk⟩ := hE κ j hj
        exact ⟨h1, s', Or.inr hs', hk⟩
  · -- free index
    rename_i hnone
    intro κ j hj
    obtain ⟨⟨h, hh, hhk⟩, s', hs', hk⟩ := hE κ j hj
    simp only [lookup_insertSorted]
    by_cases hij : i = j
    · subst hij; rw [hnone] at hh; simp at hh
    · exact ⟨⟨h, by simp [hij, hh], hhk⟩, s', Or.inr hs', hk⟩

/-- both invariants over the indices of one signature -/
theorem foldIdx_full (s : Sig) : ∀ (l : List Nat) (st : St) (P : Sig × Nat → Prop),
    Inv st P → Ex st P → l.Nodup → (∀ j ∈ l, ¬ P (s, j)) →
    (∀ t j, P (t, j) → t.key = s.key → t = s) →
    Ex (l.foldl (stepIdx s) st) (fun p => (p.1 = s ∧ p.2 ∈ l) ∨ P p) := by
  intro l
  induction l with
  | nil => intro st P _ hE _ _ _; exact Ex_congr (fun p hp => Or.inr hp) hE
  | cons i r ih =>
    intro st P hI hE hnd hfresh hkey
    simp only [List.nodup_cons] at hnd
    have hI' := stepIdx_inv s st i P hI
    have hE' := stepIdx_ex s st i P hI hE (hfresh i (by simp)) hkey
    have := ih (stepIdx s st i) _ hI' hE' hnd.2
      (by
        intro j hj hp
        rcases hp with hp | hp
        · simp only [Prod.mk.injEq] at hp; exact hnd.1 (hp.2 ▸ hj)
        · exact hfresh j (by simp [hj]) hp)
      (by
        intro t j hp hk
        rcases hp with hp | hp
        · simp only [Prod.mk.injEq] at hp; exact hp.1
        · exact hkey t j hp hk)
    refine Ex_congr ?_ this
    rintro ⟨a, b⟩ (⟨h1, h2⟩ | h3 | h4)
    · exact Or.inl ⟨h1, List.mem_cons_of_mem _ h2⟩
    · simp only [Prod.mk.injEq] at h3; exact Or.inl ⟨h3.1, by simp [h3.2]⟩
    · exact Or.inr h4

/-- no (key, index) pair is offered twice -/
def NoRepeat (sigs : List Sig) : Prop :=
  (sigs.filter (·.valid)).Pairwise (fun a b => a.key ≠ b.key) ∧ ∀ s ∈ sigs, s.valid = true → s.idxs.Nodup

theorem foldSig_full : ∀ (sigs : List Sig) (st : St) (P : Sig × Nat → Prop),
    Inv st P → Ex st P → NoRepeat sigs →
    (∀ t j, P (t, j) → ∀ s ∈ sigs, s.valid = true → t.key ≠ s.key) →
    Ex (sigs.foldl stepSig st) (fun p => Done sigs p ∨ P p) := by
  intro sigs
  induction sigs with
  | nil => intro st P _ hE _ _; exact Ex_congr (fun p hp => Or.inr hp) hE
  | cons s r ih =>
    intro st P hI hE hNR hP
    have hNRr : NoRepeat r := by
      refine ⟨?_, fun x hx hv => hNR.2 x (by simp [hx]) hv⟩
      have := hNR.1
      simp only [List.filter_cons] at this
      split at this
      · exact (List.pairwise_cons.mp this).2
      · exact this
    by_cases hv : s.valid = true
    · have hstep : stepSig st s = s.idxs.foldl (stepIdx s) st := by unfold stepSig; simp [hv]
      have hEs : Ex (stepSig st s) (fun p => (p.1 = s ∧ s.valid = true ∧ p.2 ∈ s.idxs) ∨ P p) := by
        rw [hstep]
        refine Ex_congr ?_ (foldIdx_full s s.idxs st P hI hE (hNR.2 s (by simp) hv)
          (fun j _ hp => hP s j hp s (by simp) hv rfl)
          (fun t j hp hk => absurd hk (hP t j hp s (by simp) hv)))
        rintro p (⟨h1, h2⟩ | h3)
        · exact Or.inl ⟨h1, hv, h2⟩
        · exact Or.inr h3
      have hIs : Inv (stepSig st s) (fun p => (p.1 = s ∧ s.valid = true ∧ p.2 ∈ s.idxs) ∨ P p) := by
        rw [hstep]
        exact Inv_congr (by intro p; simp [hv]) (foldIdx_inv s s.idxs st P hI)
      have := ih (stepSig st s) _ hIs hEs hNRr (by
        intro t j hp x hx hxv
        rcases hp with ⟨h1, _, _⟩ | hp
        · have h1' : t = s := h1
          rw [h1']
          have hpw := hNR.1
          simp only [List.filter_cons, hv, if_true] at hpw
          exact (List.pairwise_cons.mp hpw).1 x (by simp [hx, hxv])
        · exact hP t j hp x (by simp [hx]) hxv)
      refine Ex_congr ?_ this
      rintro ⟨a, b⟩ (⟨h1, h2, h3⟩ | ⟨h1, h2, h3⟩ | h4)
      · exact Or.inl ⟨List.mem_cons_of_mem _ h1, h2, h3⟩
      · exact Or.inl ⟨List.mem_cons.mpr (Or.inl h1), h1 ▸ h2, h1 ▸ h3⟩
      · exact Or.inr h4
    · have hst : stepSig st s = st := by unfold stepSig; simp [hv]
      simp only [List.foldl_cons, hst]
      have := ih st P hI hE hNRr (fun t j hp x hx hxv => hP t j hp x (by simp [hx]) hxv)
      refine Ex_congr ?_ this
      rintro ⟨a, b⟩ (⟨h1, h2, h3⟩ | h4)
      · exact Or.inl ⟨List.mem_cons_of_mem _ h1, h2, h3⟩
      · exact Or.inr h4

theorem phase1_ex (sigs : List Sig) (hNR : NoRepeat sigs) : Ex (sigs.foldl stepSig {}) (Done sigs) := by
  have hI0 : Inv ({} : St) (fun _ => False) := ⟨fun _ h => h.elim, fun i t h => by simp [lookup] at h⟩
  have hE0 : Ex ({} : St) (fun _ => False) := by intro κ i hi; simp [rem, lookup] at hi
  exact Ex_congr (by rintro p (h | h); exact h; exact h.elim)
    (foldSig_full sigs {} _ hI0 hE0 hNR (fun _ _ h => h.elim))

/-! ## the holder map stays sorted by index -/

def SortedIdx (hs : List (Nat × Sig)) : Prop := hs.Pairwise (fun a b => a.1 < b.1)

theorem insertSorted_sorted (i : Nat) (s : Sig) (hs : List (Nat × Sig)) (h : SortedIdx hs) :
    SortedIdx (insertSorted i s hs) := by
  induction hs with
  | nil => simp [insertSorted, SortedIdx]
  | cons x r ih =>
    obtain ⟨j, t⟩ := x
    have hp := List.pairwise_cons.mp h
    simp only [insertSorted]
    split
    · rename_i hij
      refine List.pairwise_cons.mpr ⟨?_, h⟩
      intro e he
      simp only [List.mem_cons] at he
      rcases he with rfl | he
      · exact hij
      · exact Nat.lt_trans hij (hp.1 e he)
    · split
      · rename_i _ hij; subst hij
        exact List.pairwise_cons.mpr ⟨hp.1, hp.2⟩
      · rename_i h1 h2
        refine List.pairwise_cons.mpr ⟨?_, ih hp.2⟩
        intro e he
        rcases mem_insertSorted he with rfl | he
        · show j < i; omega
        · exact hp.1 e he

theorem stepIdx_sorted (s : Sig) (st : St) (i : Nat) (h : SortedIdx st.holders) :
    SortedIdx (stepIdx s st i).holders := by
  unfold stepIdx
  split
  · split
    · exact insertSorted_sorted _ _ _ h
    · exact h
  · exact insertSorted_sorted _ _ _ h

theorem foldIdx_sorted (s : Sig) : ∀ (l : List Nat) (st : St), SortedIdx st.holders →
    SortedIdx (l.foldl (stepIdx s) st).holders := by
  intro l
  induction l with
  | nil => intro st h; exact h
  | cons i r ih => intro st h; exact ih _ (stepIdx_sorted s st i h)

theorem foldSig_sorted : ∀ (sigs : List Sig) (st : St), SortedIdx st.holders →
    SortedIdx (sigs.foldl stepSig st).holders := by
  intro sigs
  induction sigs with
  | nil => intro st h; exact h
  | cons s r ih =>
    intro st h
    refine ih _ ?_
    unfold stepSig
    split
    · exact foldIdx_sorted s s.idxs st h
    · exact h

/-! ## second phase: exhaustion has counted every holder entry -/

def seen (acc : List Sig) (e : Nat × Sig) : Bool := acc.any (fun t => t.key = e.2.key)

theorem filter_length_le_add {α : Type} (p q r : α → Bool) (hpqr : ∀ x, p x = true → q x = true ∨ r x = true) :
    ∀ (l : List α), (l.filter p).length ≤ (l.filter q).length + (l.filter r).length := by
  intro l
  induction l with
  | nil => simp
  | cons x xs ih =>
    simp only [List.filter_cons]
    by_cases hp : p x = true
    · rcases hpqr x hp with hq | hr
      · by_cases hr : r x = true <;> simp [hp, hq, hr] <;> omega
      · by_cases hq : q x = true <;> simp [hp, hq, hr] <;> omega
    · by_cases hq : q x = true <;> by_cases hr : r x = true <;> simp [hp, hq, hr] <;> omega

theorem phase2_cons (k : Nat) (removal : List (Key × List Nat)) (i : Nat) (s : Sig) (r : List (Nat × Sig))
    (acc : List Sig) (count : Nat) :
    phase2 k removal ((i, s) :: r) acc count =
      if acc.any (fun t => t.key = s.key) then phase2 k removal r acc count
      else if count + (strip removal s).idxs.length ≥ k then .ok (strip removal s :: acc)
      else phase2 k removal r (strip removal s :: acc) (count + (strip removal s).idxs.length) := by
  rfl

theorem phase2_exhaust (k : Nat) (removal : List (Key × List Nat)) :
    ∀ (L : List (Nat × Sig)) (acc : List Sig) (count c : Nat),
      SortedIdx L →
      (∀ e ∈ L, e.1 ∈ (strip removal e.2).idxs) →
      (∀ e ∈ L, ∀ e' ∈ L, e.2.key = e'.2.key → e.2 = e'.2) →
      phase2 k removal L acc count = .error c →
      count + (L.filter (fun e => !seen acc e)).length ≤ c := by
  intro L
  induction L with
  | nil =>
    intro acc count c _ _ _ h
    simp [phase2] at h; simp [h]
  | cons x r ih =>
    obtain ⟨i, s⟩ := x
    intro acc count c hS h1 h2 h
    have hp := List.pairwise_cons.mp hS
    have h1r : ∀ e ∈ r, e.1 ∈ (strip removal e.2).idxs := fun e he => h1 e (by simp [he])
    have h2r : ∀ e ∈ r, ∀ e' ∈ r, e.2.key = e'.2.key → e.2 = e'.2 :=
      fun e he e' he' => h2 e (by simp [he]) e' (by simp [he'])
    rw [phase2_cons] at h
    by_cases hseen : acc.any (fun t => t.key = s.key) = true
    · simp only [hseen, if_true] at h
      have := ih acc count c hp.2 h1r h2r h
      have hx : seen acc (i, s) = true := hseen
      simp only [List.filter_cons, hx]
      simpa using this
    · simp only [hseen] at h
      have hx : seen acc (i, s) = false := by simpa [seen] using hseen
      by_cases hge : count + (strip removal s).idxs.length ≥ k
      · rw [if_pos hge] at h; simp at h
      · rw [if_neg hge] at h
        have hrec := ih (strip removal s :: acc) (count + (strip removal s).idxs.length) c hp.2 h1r h2r h
        -- entries of `s` still ahead, together with the current one, fit into the stripped index list
        have hfit : 1 + (r.filter (fun e => decide (e.2.key = s.key))).length ≤ (strip removal s).idxs.length := by
          have hnd : (((i, s) :: r.filter (fun e => decide (e.2.key = s.key))).map (·.1)).Nodup := by
            have hsub : ((i, s) :: r.filter (fun e => decide (e.2.key = s.key))).Sublist ((i, s) :: r) :=
              List.Sublist.cons_cons _ List.filter_sublist
            have hpw := List.Pairwise.sublist hsub hS
            have := List.Pairwise.map (f := fun e : Nat × Sig => e.1) (S := fun a b => a < b)
              (fun a b hab => hab) hpw
            exact List.Pairwise.imp (fun hab => Nat.ne_of_lt hab) this
          have hsubset : ((i, s) :: r.filter (fun e => decide (e.2.key = s.key))).map (·.1) ⊆ (strip removal s).idxs := by
            intro j hj
            simp only [List.map_cons, List.mem_cons, List.mem_map, List.mem_filter, decide_eq_true_eq] at hj
            rcases hj with rfl | ⟨e, ⟨he, hek⟩, rfl⟩
            · exact h1 (j, s) (by simp)
            · have : e.2 = s := h2 e (by simp [he]) (i, s) (by simp) hek
              have := h1 e (by simp [he])
              rw [‹e.2 = s›] at this; exact this
          have := List.Nodup.length_le_of_subset hnd hsubset
          simpa [Nat.add_comm] using this
        have hsplit := filter_length_le_add (fun e => !seen acc e) (fun e => !seen (strip removal s :: acc) e)
          (fun e : Nat × Sig => decide (e.2.key = s.key))
          (by
            intro e he
            by_cases hk : e.2.key = s.key
            · right; simpa using hk
            · left
              have hf : seen (strip removal s :: acc) e = false := by
                have g2 : acc.any (fun t => t.key = e.2.key) = false := by simpa [seen] using he
                unfold seen
                rw [List.any_eq_false]
                intro t ht
                simp only [List.mem_cons] at ht
                rcases ht with rfl | ht
                · intro h
                  have h' : (strip removal s).key = e.2.key := by simpa using h
                  exact hk (h'.symm.trans (strip_key removal s))
                · exact List.any_eq_false.mp g2 t ht
              simp [hf]) r
        simp only [List.filter_cons, hx, Bool.not_false, if_true, List.length_cons]
        omega

theorem phase2_error_lt (k : Nat) (removal : List (Key × List Nat)) :
    ∀ (L : List (Nat × Sig)) (acc : List Sig) (count c : Nat),
      phase2 k removal L acc count = .error c → count < k → c < k := by
  intro L
  induction L with
  | nil => intro acc count c h hc; simp [phase2] at h; omega
  | cons x r ih =>
    obtain ⟨i, s⟩ := x
    intro acc count c h hc
    rw [phase2_cons] at h
    by_cases hseen : acc.any (fun t => t.key = s.key) = true
    · rw [if_pos hseen] at h; exact ih acc count c h hc
    · rw [if_neg hseen] at h
      by_cases hge : count + (strip removal s).idxs.length ≥ k
      · rw [if_pos hge] at h; simp at h
      · rw [if_neg hge] at h; exact ih _ _ c h (by omega)

theorem lookup_mem {i : Nat} {t : Sig} : ∀ {hs : List (Nat × Sig)}, lookup i hs = some t → (i, t) ∈ hs := by
  intro hs
  induction hs with
  | nil => intro h; simp [lookup] at h
  | cons x r ih =>
    obtain ⟨j, u⟩ := x
    intro h
    simp only [lookup] at h
    split at h
    · rename_i hj; subst hj; simp only [Option.some.injEq] at h; subst h; simp
    · exact List.mem_cons_of_mem _ (ih h)

theorem lookup_of_mem_sorted {i : Nat} {s : Sig} : ∀ {hs : List (Nat × Sig)}, SortedIdx hs → (i, s) ∈ hs →
    lookup i hs = some s := by
  intro hs
  induction hs with
  | nil => intro _ h; simp at h
  | cons x r ih =>
    obtain ⟨j, u⟩ := x
    intro hS h
    have hp := List.pairwise_cons.mp hS
    simp only [List.mem_cons, Prod.mk.injEq] at h
    rcases h with ⟨rfl, rfl⟩ | h
    · simp [lookup]
    · have : j < i := hp.1 (i, s) h
      have hne : ¬ j = i := by omega
      simp only [lookup, hne, if_false]
      exact ih hp.2 h

theorem pairwise_key_inj {l : List Sig} (h : l.Pairwise (fun a b => a.key ≠ b.key)) :
    ∀ a ∈ l, ∀ b ∈ l, a.key = b.key → a = b := by
  induction l with
  | nil => intro a ha; simp at ha
  | cons x r ih =>
    have hp := List.pairwise_cons.mp h
    intro a ha b hb hk
    simp only [List.mem_cons] at ha hb
    rcases ha with rfl | ha <;> rcases hb with rfl | hb
    · rfl
    · exact absurd hk (hp.1 b hb)
    · exact absurd hk.symm (hp.1 a ha)
    · exact ih hp.2 a ha b hb hk

/-- **C02 completeness.** If no (key, index) pair is offered twice and the valid signatures carry
at least `k ≥ 1` distinct indices, the selection succeeds — whatever the order of the list. -/
theorem select_complete (k : Nat) (sigs : List Sig) (hk0 : 0 < k) (hNR : NoRepeat sigs)
    (I : List Nat) (hI : I.Nodup)
    (hvalid : ∀ i ∈ I, ∃ s ∈ sigs, s.valid = true ∧ i ∈ s.idxs) (hk : k ≤ I.length) :
    ∃ r, select k sigs = .ok r := by
  cases hsel : select k sigs with
  | ok r => exact ⟨r, rfl⟩
  | error c =>
    exfalso
    unfold select at hsel
    simp only at hsel
    have hInv := phase1_inv sigs
    have hInvM := phase1_invM sigs
    have hEx := phase1_ex sigs hNR
    have hSorted : SortedIdx (sigs.foldl stepSig {}).holders :=
      foldSig_sorted sigs {} (by simp [SortedIdx])
    generalize sigs.foldl stepSig {} = st at hsel hInv hInvM hEx hSorted
    -- a holder's own index survives the stripping
    have H1 : ∀ e ∈ st.holders, e.1 ∈ (strip st.removal e.2).idxs := by
      intro e he
      obtain ⟨i, s⟩ := e
      have hD := hInvM (i, s) he
      simp only [strip, List.mem_filter, Bool.not_eq_true']
      refine ⟨hD.2.2, ?_⟩
      cases hc : ((lookup s.key st.removal).getD []).contains i with
      | false => rfl
      | true =>
      exfalso
      have hrm' : i ∈ rem s.key st.removal := by
        simpa [rem] using hc
      obtain ⟨⟨h, hh, hhk⟩, _⟩ := hEx s.key i hrm'
      have := lookup_of_mem_sorted hSorted he
      rw [this] at hh
      simp only [Option.some.injEq] at hh
      exact hhk (hh ▸ rfl)
    have H2 : ∀ e ∈ st.holders, ∀ e' ∈ st.holders, e.2.key = e'.2.key → e.2 = e'.2 := by
      intro e he e' he' hkk
      have hD := hInvM e he
      have hD' := hInvM e' he'
      have m1 : e.2 ∈ sigs.filter (·.valid) := List.mem_filter.mpr ⟨hD.1, hD.2.1⟩
      have m2 : e'.2 ∈ sigs.filter (·.valid) := List.mem_filter.mpr ⟨hD'.1, hD'.2.1⟩
      exact pairwise_key_inj hNR.1 e.2 m1 e'.2 m2 hkk
    have hle := phase2_exhaust k st.removal st.holders [] 0 c hSorted H1 H2 hsel
    have hlt := phase2_error_lt k st.removal st.holders [] 0 c hsel hk0
    have hall : st.holders.filter (fun e => !seen [] e) = st.holders := by
      rw [List.filter_eq_self]; intro e _; simp [seen]
    rw [hall] at hle
    -- every index of `I` has a holder
    have hsub : I ⊆ st.holders.map (·.1) := by
      intro i hi
      obtain ⟨s, hs, hv, his⟩ := hvalid i hi
      have hlook : ∃ t, lookup i st.holders = some t := by
        rcases hInv.1 (s, i) ⟨hs, hv, his⟩ with ⟨t, ht, _⟩ | hrm
        · exact ⟨t, ht⟩
        · obtain ⟨⟨h, hh, _⟩, _⟩ := hEx s.key i hrm
          exact ⟨h, hh⟩
      obtain ⟨t, ht⟩ := hlook
      exact List.mem_map.mpr ⟨(i, t), lookup_mem ht, rfl⟩
    have := List.Nodup.length_le_of_subset hI hsub
    simp only [List.length_map] at this
    omega

#print axioms select_complete
end Clerk
