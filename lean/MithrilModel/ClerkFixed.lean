import MithrilModel.ClerkMono
/-! C02 for the repaired selection (`selectMerged = select ∘ normalize`): `normalize` always produces a
list without repeated (key, index) pairs that covers exactly the valid (key, index) pairs offered, so
completeness and monotonicity hold with NO side condition on the input. -/
namespace Clerk

/-! ### index lists -/

theorem mem_insIdx {x i : Nat} : ∀ {l : List Nat}, x ∈ insIdx i l ↔ x = i ∨ x ∈ l := by
  intro l
  induction l with
  | nil => simp [insIdx]
  | cons j r ih =>
    simp only [insIdx]
    split
    · simp
    · split
      · rename_i h1 h2; subst h2; simp
      · simp only [List.mem_cons, ih]
        constructor
        · rintro (h | h | h)
          · exact Or.inr (Or.inl h)
          · exact Or.inl h
          · exact Or.inr (Or.inr h)
        · rintro (h | h | h)
          · exact Or.inr (Or.inl h)
          · exact Or.inl h
          · exact Or.inr (Or.inr h)

def SortedLt (l : List Nat) : Prop := l.Pairwise (· < ·)

theorem sorted_insIdx (i : Nat) : ∀ (l : List Nat), SortedLt l → SortedLt (insIdx i l) := by
  intro l
  induction l with
  | nil => intro _; simp [insIdx, SortedLt]
  | cons j r ih =>
    intro h
    unfold SortedLt at h ih ⊢
    obtain ⟨hj, hr⟩ := List.pairwise_cons.mp h
    simp only [insIdx]
    split
    · rename_i hij
      refine List.pairwise_cons.mpr ⟨?_, h⟩
      intro x hx
      rcases List.mem_cons.mp hx with rfl | hx
      · exact hij
      · exact Nat.lt_trans hij (hj x hx)
    · split
      · exact h
      · rename_i h1 h2
        refine List.pairwise_cons.mpr ⟨?_, ih hr⟩
        intro x hx
        rcases mem_insIdx.mp hx with rfl | hx
        · omega
        · exact hj x hx

theorem mem_mergeIdx {x : Nat} : ∀ {b a : List Nat}, x ∈ mergeIdx a b ↔ x ∈ a ∨ x ∈ b := by
  intro b
  induction b with
  | nil => intro a; simp [mergeIdx]
  | cons i r ih =>
    intro a
    have := @ih (insIdx i a)
    simp only [mergeIdx, List.foldl_cons] at this ⊢
    rw [this, mem_insIdx, List.mem_cons]
    constructor
    · rintro ((h | h) | h)
      · exact Or.inr (Or.inl h)
      · exact Or.inl h
      · exact Or.inr (Or.inr h)
    · rintro (h | h | h)
      · exact Or.inl (Or.inr h)
      · exact Or.inl (Or.inl h)
      · exact Or.inr h

theorem sorted_mergeIdx : ∀ (b a : List Nat), SortedLt a → SortedLt (mergeIdx a b) := by
  intro b
  induction b with
  | nil => intro a h; simpa [mergeIdx] using h
  | cons i r ih =>
    intro a h
    have := ih (insIdx i a) (sorted_insIdx i a h)
    simpa [mergeIdx] using this

theorem nodup_of_sortedLt {l : List Nat} (h : SortedLt l) : l.Nodup := by
  unfold SortedLt at h
  exact List.Pairwise.imp (fun hab => Nat.ne_of_lt hab) h

/-! ### `mergeInto` / `normalize` -/

/-- what the accumulator of the first loop always satisfies -/
structure NInv (acc : List Sig) : Prop where
  keys : acc.Pairwise (fun a b => a.key ≠ b.key)
  valid : ∀ t ∈ acc, t.valid = true
  sorted : ∀ t ∈ acc, SortedLt t.idxs

theorem mem_mergeInto_key {s x : Sig} : ∀ {acc : List Sig}, x ∈ mergeInto s acc →
    x.key = s.key ∨ x ∈ acc := by
  intro acc
  induction acc with
  | nil => intro h; simp only [mergeInto, List.mem_singleton] at h; subst h; exact Or.inl rfl
  | cons t r ih =>
    intro h
    simp only [mergeInto] at h
    split at h
    · rename_i hk
      rcases List.mem_cons.mp h with rfl | h
      · exact Or.inl hk
      · exact Or.inr (List.mem_cons_of_mem _ h)
    · rcases List.mem_cons.mp h with rfl | h
      · exact Or.inr (by simp)
      · rcases ih h with h | h
        · exact Or.inl h
        · exact Or.inr (List.mem_cons_of_mem _ h)

theorem mergeInto_inv {s : Sig} (hv : s.valid = true) : ∀ {acc : List Sig}, NInv acc → NInv (mergeInto s acc) := by
  intro acc
  induction acc with
  | nil =>
    intro _
    refine ⟨by simp [mergeInto], ?_, ?_⟩
    · intro t ht; simp only [mergeInto, List.mem_singleton] at ht; subst ht; exact hv
    · intro t ht; simp only [mergeInto, List.mem_singleton] at ht; subst ht
      exact sorted_mergeIdx _ _ (by simp [SortedLt])
  | cons t r ih =>
    intro h
    obtain ⟨hk, hr⟩ := List.pairwise_cons.mp h.keys
    have hinv_r : NInv r := ⟨hr, fun x hx => h.valid x (List.mem_cons_of_mem _ hx), fun x hx => h.sorted x (List.mem_cons_of_mem _ hx)⟩
    simp only [mergeInto]
    split
    · refine ⟨List.pairwise_cons.mpr ⟨fun x hx => hk x hx, hr⟩, ?_, ?_⟩
      · intro x hx
        rcases List.mem_cons.mp hx with rfl | hx
        · exact h.valid t (by simp)
        · exact h.valid x (List.mem_cons_of_mem _ hx)
      · intro x hx
        rcases List.mem_cons.mp hx with rfl | hx
        · exact sorted_mergeIdx _ _ (h.sorted t (by simp))
        · exact h.sorted x (List.mem_cons_of_mem _ hx)
    · rename_i hne
      have ih' := ih hinv_r
      refine ⟨List.pairwise_cons.mpr ⟨?_, ih'.keys⟩, ?_, ?_⟩
      · intro x hx
        rcases mem_mergeInto_key hx with hx | hx
        · rw [hx]; exact hne
        · exact hk x hx
      · intro x hx
        rcases List.mem_cons.mp hx with rfl | hx
        · exact h.valid _ (by simp)
        · exact ih'.valid x hx
      · intro x hx
        rcases List.mem_cons.mp hx with rfl | hx
        · exact h.sorted _ (by simp)
        · exact ih'.sorted x hx

/-- forward coverage: nothing already in the accumulator is lost, and all of `s` is there -/
theorem mergeInto_covers (s : Sig) : ∀ (acc : List Sig),
    (∀ t ∈ acc, ∃ t' ∈ mergeInto s acc, t'.key = t.key ∧ ∀ i ∈ t.idxs, i ∈ t'.idxs) ∧
    (∃ t' ∈ mergeInto s acc, t'.key = s.key ∧ ∀ i ∈ s.idxs, i ∈ t'.idxs) := by
  intro acc
  induction acc with
  | nil =>
    refine ⟨fun t ht => by simp at ht, ⟨{ s with idxs := mergeIdx [] s.idxs }, by simp [mergeInto], rfl, ?_⟩⟩
    intro i hi; exact mem_mergeIdx.mpr (Or.inr hi)
  | cons t r ih =>
    simp only [mergeInto]
    split
    · rename_i hk
      refine ⟨?_, ⟨_, List.mem_cons_self, hk, fun i hi => mem_mergeIdx.mpr (Or.inr hi)⟩⟩
      intro x hx
      rcases List.mem_cons.mp hx with rfl | hx
      · exact ⟨_, List.mem_cons_self, rfl, fun i hi => mem_mergeIdx.mpr (Or.inl hi)⟩
      · exact ⟨x, List.mem_cons_of_mem _ hx, rfl, fun i hi => hi⟩
    · obtain ⟨ih1, t', ht', hk', hi'⟩ := ih
      refine ⟨?_, ⟨t', List.mem_cons_of_mem _ ht', hk', hi'⟩⟩
      intro x hx
      rcases List.mem_cons.mp hx with rfl | hx
      · exact ⟨x, List.mem_cons_self, rfl, fun i hi => hi⟩
      · obtain ⟨y, hy, hky, hiy⟩ := ih1 x hx
        exact ⟨y, List.mem_cons_of_mem _ hy, hky, hiy⟩

/-- backward coverage: every (key, index) pair of the new accumulator was in the old one or in `s` -/
theorem mergeInto_origin (s : Sig) : ∀ (acc : List Sig), ∀ t' ∈ mergeInto s acc, ∀ i ∈ t'.idxs,
    (∃ t ∈ acc, t.key = t'.key ∧ i ∈ t.idxs) ∨ (s.key = t'.key ∧ i ∈ s.idxs) := by
  intro acc
  induction acc with
  | nil =>
    intro t' ht' i hi
    simp only [mergeInto, List.mem_singleton] at ht'
    subst ht'
    rcases mem_mergeIdx.mp hi with h | h
    · simp at h
    · exact Or.inr ⟨rfl, h⟩
  | cons t r ih =>
    intro t' ht' i hi
    simp only [mergeInto] at ht'
    split at ht'
    · rename_i hk
      rcases List.mem_cons.mp ht' with rfl | ht'
      · rcases mem_mergeIdx.mp hi with h | h
        · exact Or.inl ⟨t, List.mem_cons_self, rfl, h⟩
        · exact Or.inr ⟨hk.symm, h⟩
      · exact Or.inl ⟨t', List.mem_cons_of_mem _ ht', rfl, hi⟩
    · rcases List.mem_cons.mp ht' with rfl | ht'
      · exact Or.inl ⟨t', List.mem_cons_self, rfl, hi⟩
      · rcases ih t' ht' i hi with ⟨y, hy, hky, hiy⟩ | h
        · exact Or.inl ⟨y, List.mem_cons_of_mem _ hy, hky, hiy⟩
        · exact Or.inr h

/-- the fold, from any accumulator -/
theorem normFold_spec : ∀ (sigs acc : List Sig), NInv acc →
    NInv (sigs.foldl normStep acc) ∧
    (∀ t ∈ acc, ∃ t' ∈ sigs.foldl normStep acc, t'.key = t.key ∧ ∀ i ∈ t.idxs, i ∈ t'.idxs) ∧
    (∀ s ∈ sigs, s.valid = true → ∃ t' ∈ sigs.foldl normStep acc, t'.key = s.key ∧ ∀ i ∈ s.idxs, i ∈ t'.idxs) ∧
    (∀ t' ∈ sigs.foldl normStep acc, ∀ i ∈ t'.idxs,
      (∃ t ∈ acc, t.key = t'.key ∧ i ∈ t.idxs) ∨ (∃ s ∈ sigs, s.valid = true ∧ s.key = t'.key ∧ i ∈ s.idxs)) := by
  intro sigs
  induction sigs with
  | nil =>
    intro acc h
    exact ⟨h, fun t ht => ⟨t, ht, rfl, fun i hi => hi⟩, fun s hs => by simp at hs,
      fun t' ht' i hi => Or.inl ⟨t', ht', rfl, hi⟩⟩
  | cons s r ih =>
    intro acc h
    simp only [List.foldl_cons]
    by_cases hv : s.valid = true
    · have hstep : normStep acc s = mergeInto s acc := by simp [normStep, hv]
      rw [hstep]
      obtain ⟨i1, i2, i3, i4⟩ := ih (mergeInto s acc) (mergeInto_inv hv h)
      obtain ⟨c1, c2⟩ := mergeInto_covers s acc
      refine ⟨i1, ?_, ?_, ?_⟩
      · intro t ht
        obtain ⟨y, hy, hky, hiy⟩ := c1 t ht
        obtain ⟨z, hz, hkz, hiz⟩ := i2 y hy
        exact ⟨z, hz, hkz.trans hky, fun i hi => hiz i (hiy i hi)⟩
      · intro x hx hxv
        rcases List.mem_cons.mp hx with rfl | hx
        · obtain ⟨y, hy, hky, hiy⟩ := c2
          obtain ⟨z, hz, hkz, hiz⟩ := i2 y hy
          exact ⟨z, hz, hkz.trans hky, fun i hi => hiz i (hiy i hi)⟩
        · exact i3 x hx hxv
      · intro t' ht' i hi
        rcases i4 t' ht' i hi with ⟨y, hy, hky, hiy⟩ | ⟨x, hx, hxv, hkx, hix⟩
        · rcases mergeInto_origin s acc y hy i hiy with ⟨z, hz, hkz, hiz⟩ | ⟨hks, his⟩
          · exact Or.inl ⟨z, hz, hkz.trans hky, hiz⟩
          · exact Or.inr ⟨s, List.mem_cons_self, hv, hks.trans hky, his⟩
        · exact Or.inr ⟨x, List.mem_cons_of_mem _ hx, hxv, hkx, hix⟩
    · have hstep : normStep acc s = acc := by simp [normStep, hv]
      rw [hstep]
      obtain ⟨i1, i2, i3, i4⟩ := ih acc h
      refine ⟨i1, i2, ?_, ?_⟩
      · intro x hx hxv
        rcases List.mem_cons.mp hx with rfl | hx
        · exact absurd hxv hv
        · exact i3 x hx hxv
      · intro t' ht' i hi
        rcases i4 t' ht' i hi with h | ⟨x, hx, hxv, hkx, hix⟩
        · exact Or.inl h
        · exact Or.inr ⟨x, List.mem_cons_of_mem _ hx, hxv, hkx, hix⟩

theorem NInv_nil : NInv ([] : List Sig) := ⟨List.Pairwise.nil, fun _ h => by simp at h, fun _ h => by simp at h⟩

theorem normalize_inv (sigs : List Sig) : NInv (normalize sigs) := (normFold_spec sigs [] NInv_nil).1

/-- every valid (key, index) pair offered is in the normalised list -/
theorem normalize_covers (sigs : List Sig) : ∀ s ∈ sigs, s.valid = true →
    ∃ t ∈ normalize sigs, t.key = s.key ∧ ∀ i ∈ s.idxs, i ∈ t.idxs := (normFold_spec sigs [] NInv_nil).2.2.1

/-- … and nothing else is -/
theorem normalize_origin (sigs : List Sig) : ∀ t ∈ normalize sigs, ∀ i ∈ t.idxs,
    ∃ s ∈ sigs, s.valid = true ∧ s.key = t.key ∧ i ∈ s.idxs := by
  intro t ht i hi
  rcases (normFold_spec sigs [] NInv_nil).2.2.2 t ht i hi with ⟨x, hx, _⟩ | h
  · simp at hx
  · exact h

theorem filter_valid_of_all {l : List Sig} (h : ∀ t ∈ l, t.valid = true) : l.filter (·.valid) = l :=
  List.filter_eq_self.mpr h

/-- the normalised list never offers a (key, index) pair twice -/
theorem normalize_noRepeat (sigs : List Sig) : NoRepeat (normalize sigs) := by
  have h := normalize_inv sigs
  refine ⟨?_, fun s hs _ => nodup_of_sortedLt (h.sorted s hs)⟩
  rw [filter_valid_of_all h.valid]
  exact h.keys

/-! ### the property, for every input -/

/-- **Completeness (no side condition)**: if the valid signatures handed in carry at least `k ≥ 1`
distinct indices — whatever else is handed in, in whatever order, however often — selection succeeds. -/
theorem selectMerged_complete (k : Nat) (sigs : List Sig) (hk0 : 0 < k) (I : List Nat) (hI : I.Nodup)
    (hvalid : ∀ i ∈ I, ∃ s ∈ sigs, s.valid = true ∧ i ∈ s.idxs) (hk : k ≤ I.length) :
    ∃ r, selectMerged k sigs = .ok r := by
  refine select_complete k (normalize sigs) hk0 (normalize_noRepeat sigs) I hI ?_ hk
  intro i hi
  obtain ⟨s, hs, hv, his⟩ := hvalid i hi
  obtain ⟨t, ht, _, hit⟩ := normalize_covers sigs s hs hv
  exact ⟨t, ht, (normalize_inv sigs).valid t ht, hit i his⟩

/-- `l'` offers (at least) every valid (key, index) pair that `l` offers: sub-lists, permutations,
repetitions, index-subset copies, extra invalid material are all instances -/
def Offers (l l' : List Sig) : Prop :=
  ∀ s ∈ l, s.valid = true → ∀ i ∈ s.idxs, ∃ s' ∈ l', s'.valid = true ∧ i ∈ s'.idxs

/-- **Monotonicity (no side condition)** -/
theorem selectMerged_monotone (k : Nat) (hk0 : 0 < k) (l l' : List Sig) (hs : Offers l l')
    (out : List Sig) (h : selectMerged k l = .ok out) : ∃ out', selectMerged k l' = .ok out' := by
  unfold selectMerged at h
  obtain ⟨hpw, _, hdisj, hcount⟩ := select_sound k (normalize l) out h
  have hsub := select_out_sublist k (normalize l) out h
  have hNRl := normalize_noRepeat l
  refine selectMerged_complete k l' hk0 (out.flatMap (·.idxs)) ?_ ?_ ?_
  · unfold List.Nodup
    rw [List.pairwise_flatMap]
    refine ⟨?_, ?_⟩
    · intro o ho
      obtain ⟨t, ht, hv, hsl⟩ := hsub o ho
      exact List.Nodup.sublist hsl (hNRl.2 t ht hv)
    · refine List.Pairwise.imp_of_mem ?_ hpw
      intro a b ha hb hab i hi j hj hij
      subst hij
      exact hdisj a ha b hb hab i hi hj
  · intro i hi
    obtain ⟨o, ho, hio⟩ := List.mem_flatMap.mp hi
    obtain ⟨t, ht, _, hsl⟩ := hsub o ho
    obtain ⟨s, hsl', hsv, _, his⟩ := normalize_origin l t ht i (hsl.subset hio)
    exact hs s hsl' hsv i his
  · rw [List.length_flatMap]; exact hcount

theorem offers_of_sublist {l l' : List Sig} (h : l.Sublist l') : Offers l l' :=
  fun s hs hv i hi => ⟨s, h.subset hs, hv, hi⟩

theorem offers_of_perm {l l' : List Sig} (h : l.Perm l') : Offers l l' :=
  fun s hs hv i hi => ⟨s, h.subset hs, hv, hi⟩

/-- **Soundness w.r.t. what was handed in**: selected signatures have pairwise different keys, every
selected index was offered with a VALID signature of that key, no index is selected twice, at least `k`. -/
theorem selectMerged_sound (k : Nat) (sigs out : List Sig) (h : selectMerged k sigs = .ok out) :
    out.Pairwise (fun a b => a.key ≠ b.key) ∧
    (∀ o ∈ out, ∀ i ∈ o.idxs, ∃ s ∈ sigs, s.valid = true ∧ s.key = o.key ∧ i ∈ s.idxs) ∧
    (∀ o1 ∈ out, ∀ o2 ∈ out, o1.key ≠ o2.key → ∀ i ∈ o1.idxs, i ∉ o2.idxs) ∧
    k ≤ (out.map (·.idxs.length)).sum := by
  unfold selectMerged at h
  obtain ⟨hpw, hsrc, hdisj, hcount⟩ := select_sound k (normalize sigs) out h
  refine ⟨hpw, ?_, hdisj, hcount⟩
  intro o ho i hi
  obtain ⟨t, ht, _, hkt, hit⟩ := hsrc o ho
  obtain ⟨s, hs, hv, hks, his⟩ := normalize_origin sigs t ht i (hit i hi)
  exact ⟨s, hs, hv, hks.trans hkt.symm, his⟩

/-- whether the selection succeeds depends only on WHICH valid (key, index) pairs are offered -/
theorem selectMerged_success_iff (k : Nat) (hk0 : 0 < k) (l l' : List Sig) (h1 : Offers l l') (h2 : Offers l' l) :
    (∃ o, selectMerged k l = .ok o) ↔ (∃ o, selectMerged k l' = .ok o) :=
  ⟨fun ⟨o, ho⟩ => selectMerged_monotone k hk0 l l' h1 o ho, fun ⟨o, ho⟩ => selectMerged_monotone k hk0 l' l h2 o ho⟩

/-- the FIXED finding, on the model: the same signature twice -/
theorem dup_repaired : (∃ r, selectMerged 2 [s1] = .ok r) ∧ (∃ r, selectMerged 2 [s1, s1] = .ok r) :=
  ⟨⟨_, rfl⟩, ⟨_, rfl⟩⟩

end Clerk
