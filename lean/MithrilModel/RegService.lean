import MithrilModel.RegPaths
/-!
C06 at the aggregator: `MithrilEpochService` (mithril-aggregator/src/services/epoch_service.rs) over the real
`SignerRegistrationStore`.

* the store: rows keyed by (epoch, party); `save_verification_key` = insert-or-replace (the replaced row goes to
  the front: `get_signers` reads `order by ROWID desc`); `prune_verification_keys e` deletes the rows of epochs `< e`;
* `inform_epoch e` (fails for `e = 0`: `offset_to_signer_retrieval_epoch`) takes the snapshot: current signers =
  the rows of epoch `e - 1`, next signers = the rows of epoch `e`, the two `Signer` lists and the two stake totals,
  and DROPS the computed data;
* `update_next_signers_with_stake` (code after the repairs df18c4ce4 and 9c9bc53d6) re-reads the rows of the
  snapshot's epoch, replaces `next_signers`, `total_next_stakes_signers` and `next_signers_with_stake` with what it
  read, calls `precompute_epoch_data`, and on an error RESTORES the three previous values before returning it;
* `precompute_epoch_data` builds the two multi-signers with `SignerBuilder::new` (`RegPaths.build`), current
  first; on an error it returns with the state as it is.

Stake totals are `.sum()` of u64: with overflow checks (dev profile) a total ≥ 2^64 panics — in `inform_epoch` before
anything is assigned, in `update_next_signers_with_stake` while the new values are being put in place. A panic ends
the node: the model gives the outcome `panic` and does not describe the state after it (the harness ends the history
there).

`Cfg` selects the code BEFORE the two repairs, for the counter-example theorems only:
`refreshSnapshot = false`: the update re-reads `next_signers_with_stake` ONLY (before df18c4ce4);
`restoreOnFailure = false`: a failing update leaves the new list next to the previous computed keys (before 9c9bc53d6).
-/
namespace RegService
open RegClose RegModel RegPaths

structure Row where
  epoch : Nat
  party : Nat
  vk : Nat
  stake : Nat
deriving DecidableEq, Repr

def Row.signer (r : Row) : Signer := ⟨r.party, r.party, r.vk, r.stake⟩

structure Data where
  epoch : Nat
  cur : List Signer            -- `current_signers_with_stake`
  next : List Signer           -- `next_signers_with_stake`
  nextSnap : List Nat          -- parties of `next_signers`
  totalCur : Nat               -- `total_stakes_signers`
  totalNext : Nat              -- `total_next_stakes_signers`
deriving DecidableEq, Repr

structure Computed where
  cur : Built                  -- `protocol_multi_signer` / `aggregate_verification_key`
  next : Built                 -- `next_protocol_multi_signer` / `next_aggregate_verification_key`
deriving DecidableEq, Repr

structure St where
  store : List Row := []
  data : Option Data := none
  computed : Option Computed := none
deriving Repr

/-- which of the two repairs are in the code -/
structure Cfg where
  refreshSnapshot : Bool       -- `fix:` df18c4ce4
  restoreOnFailure : Bool      -- `fix:` 9c9bc53d6

/-- the code as it is -/
def prod : Cfg := { refreshSnapshot := true, restoreOnFailure := true }
/-- the code before both repairs -/
def beforeRepair : Cfg := { refreshSnapshot := false, restoreOnFailure := false }

inductive Op where
  | save (r : Row)
  | prune (epoch : Nat)
  | inform (epoch : Nat)
  | updateNext
  | precompute
deriving DecidableEq, Repr

inductive Res where
  | ok
  | badEpoch                    -- `inform_epoch 0`
  | panic                       -- stake total overflow (overflow checks on)
  | notInit                     -- `inform_epoch` has not been called
  | buildCur (e : BuildErr)
  | buildNext (e : BuildErr)
deriving DecidableEq, Repr

def signersAt (store : List Row) (e : Nat) : List Signer :=
  (store.filter (fun r => r.epoch == e)).map Row.signer

def sameKey (a b : Row) : Bool := a.epoch == b.epoch && a.party == b.party

def totalOf (l : List Signer) : Nat := (l.map (·.stake)).sum

def precompute (s : St) : St × Res :=
  match s.data with
  | none => (s, .notInit)
  | some d =>
    match build d.cur with
    | .error e => (s, .buildCur e)
    | .ok c =>
      match build d.next with
      | .error e => (s, .buildNext e)
      | .ok n => ({ s with computed := some ⟨c, n⟩ }, .ok)

/-- the next-signer fields after the update put the re-read rows in place -/
def Data.refresh (c : Cfg) (d : Data) (new : List Signer) : Data :=
  if c.refreshSnapshot then { d with next := new, nextSnap := new.map (·.party), totalNext := totalOf new }
  else { d with next := new }

/-- the state `update_next_signers_with_stake` hands to `precompute_epoch_data` -/
def refreshed (c : Cfg) (s : St) (d : Data) : St := { s with data := some (d.refresh c (signersAt s.store d.epoch)) }

def updateNext (c : Cfg) (s : St) : St × Res :=
  match s.data with
  | none => (s, .notInit)
  | some d =>
    if c.refreshSnapshot = true ∧ totalOf (signersAt s.store d.epoch) ≥ 2 ^ 64 then (s, .panic)
    else
      let p := precompute (refreshed c s d)
      if p.2 = .ok then p else (if c.restoreOnFailure then s else p.1, p.2)

/-- the state a successful `inform_epoch e` leaves: the snapshot of the rows of the epochs `e - 1` and `e`, no computed data -/
def informed (s : St) (e : Nat) : St :=
  let cur := signersAt s.store (e - 1)
  let next := signersAt s.store e
  { s with data := some { epoch := e, cur, next, nextSnap := next.map (·.party),
                          totalCur := totalOf cur, totalNext := totalOf next },
           computed := none }

def step (c : Cfg) (s : St) : Op → St × Res
  | .save r => ({ s with store := r :: s.store.filter (fun x => !sameKey r x) }, .ok)
  | .prune e => ({ s with store := s.store.filter (fun x => decide (e ≤ x.epoch)) }, .ok)
  | .inform e =>
    if e = 0 then (s, .badEpoch)
    else if totalOf (signersAt s.store (e - 1)) ≥ 2 ^ 64 ∨ totalOf (signersAt s.store e) ≥ 2 ^ 64 then (s, .panic)
    else (informed s e, .ok)
  | .updateNext => updateNext c s
  | .precompute => precompute s

def run (c : Cfg) : St → List Op → St × List Res
  | s, [] => (s, [])
  | s, op :: r =>
    let (s1, o) := step c s op
    let (s2, os) := run c s1 r
    (s2, o :: os)

/-! ### cache coherence -/

/-- the cached current key / multi-signer is the one of the current signer list -/
def CurCoh (s : St) : Prop := ∀ c, s.computed = some c → ∃ d, s.data = some d ∧ build d.cur = .ok c.cur
/-- the cached next key / multi-signer is the one of the next signer list -/
def NextCoh (s : St) : Prop := ∀ c, s.computed = some c → ∃ d, s.data = some d ∧ build d.next = .ok c.next
/-- **cache coherence**: whenever computed data is present, both keys are the keys of the signer lists the service reports -/
def Coh (s : St) : Prop := CurCoh s ∧ NextCoh s
/-- `next_signers()` and `total_next_stakes_signers()` are those of `next_signers_with_stake()` -/
def SnapCoh (s : St) : Prop := ∀ d, s.data = some d → d.nextSnap = d.next.map (·.party) ∧ d.totalNext = totalOf d.next

/-- `precompute_epoch_data` either succeeds and leaves a coherent cache, or fails and changes nothing -/
theorem precompute_spec (s : St) :
    ((precompute s).2 = .ok ∧ Coh (precompute s).1 ∧
        (precompute s).1.data = s.data ∧ (precompute s).1.store = s.store) ∨
    ((precompute s).2 ≠ .ok ∧ (precompute s).2 ≠ .notInit ∧ s.data.isSome ∧ (precompute s).1 = s) ∨
    ((precompute s).2 = .notInit ∧ s.data = none ∧ (precompute s).1 = s) := by
  cases hd : s.data with
  | none => right; right; simp [precompute, hd]
  | some d =>
    cases hc : build d.cur with
    | error e => right; left; simp [precompute, hd, hc]
    | ok c =>
      cases hn : build d.next with
      | error e => right; left; simp [precompute, hd, hc, hn]
      | ok n =>
        left
        have hp : precompute s = ({ s with computed := some ⟨c, n⟩ }, .ok) := by
          simp [precompute, hd, hc, hn]
        rw [hp]
        refine ⟨rfl, ⟨?_, ?_⟩, hd, rfl⟩
        · intro c' hc'
          simp only [Option.some.injEq] at hc'
          subst hc'
          exact ⟨d, hd, hc⟩
        · intro c' hc'
          simp only [Option.some.injEq] at hc'
          subst hc'
          exact ⟨d, hd, hn⟩

/-- `update_next_signers_with_stake` of the code as it is, with a snapshot present: either the cache rebuilt over the
refreshed snapshot, or — panic, or no multi-signer can be built — nothing changed at all -/
theorem updateNext_spec (s : St) (d : Data) (hd : s.data = some d) :
    ((updateNext prod s).2 = .ok ∧ (updateNext prod s).1 = (precompute (refreshed prod s d)).1 ∧
      (precompute (refreshed prod s d)).2 = .ok) ∨
    ((updateNext prod s).2 ≠ .ok ∧ (updateNext prod s).1 = s) := by
  have h1 : prod.refreshSnapshot = true := rfl
  have h2 : prod.restoreOnFailure = true := rfl
  by_cases hov : totalOf (signersAt s.store d.epoch) ≥ 2 ^ 64
  · right; simp [updateNext, hd, h1, hov]
  · by_cases hok : (precompute (refreshed prod s d)).2 = .ok
    · left; simp [updateNext, hd, h1, hov, hok]
    · right; simp [updateNext, hd, h1, h2, hov, hok]

theorem refreshed_snap (s : St) (d : Data) : SnapCoh (refreshed prod s d) := by
  intro d' hd'
  simp only [refreshed, Data.refresh, prod, if_true, Option.some.injEq] at hd'
  subst hd'
  exact ⟨rfl, rfl⟩

/-- what holds in EVERY reachable state of the code as it is -/
structure Inv (s : St) : Prop where
  coh : Coh s
  snap : SnapCoh s

theorem inv_init : Inv ({} : St) :=
  ⟨⟨fun _ h => by simp at h, fun _ h => by simp at h⟩, fun _ h => by simp at h⟩

/-- every operation, from every state, keeps the invariant -/
theorem step_inv (s : St) (op : Op) (h : Inv s) : Inv (step prod s op).1 := by
  cases op with
  | save r => exact ⟨h.coh, h.snap⟩
  | prune e => exact ⟨h.coh, h.snap⟩
  | inform e =>
    simp only [step]
    split
    · exact h
    · split
      · exact h
      · refine ⟨⟨fun _ hc => by simp [informed] at hc, fun _ hc => by simp [informed] at hc⟩, ?_⟩
        intro d hd
        simp only [informed, Option.some.injEq] at hd
        subst hd
        exact ⟨rfl, rfl⟩
  | precompute =>
    simp only [step]
    rcases precompute_spec s with ⟨_, hcoh, hdat, _⟩ | ⟨_, _, _, heq⟩ | ⟨_, _, heq⟩
    · exact ⟨hcoh, fun d hd => h.snap d (hdat ▸ hd)⟩
    · rw [heq]; exact h
    · rw [heq]; exact h
  | updateNext =>
    simp only [step]
    cases hd : s.data with
    | none => simp only [updateNext, hd]; exact h
    | some d =>
      rcases updateNext_spec s d hd with ⟨_, heq, hok⟩ | ⟨_, heq⟩
      · rw [heq]
        rcases precompute_spec (refreshed prod s d) with ⟨_, hcoh, hdat, _⟩ | ⟨hne, _⟩ | ⟨hni, _⟩
        · exact ⟨hcoh, fun d' hd' => refreshed_snap s d d' (hdat ▸ hd')⟩
        · exact absurd hok hne
        · rw [hok] at hni; cases hni
      · rw [heq]; exact h

/-- **Invariant of every reachable state**, for every history of store writes, prunes, `inform_epoch`,
`update_next_signers_with_stake` and `precompute_epoch_data` calls, whatever their arguments and results -/
theorem run_inv : ∀ (ops : List Op) (s : St), Inv s → Inv (run prod s ops).1 := by
  intro ops
  induction ops with
  | nil => intro s h; exact h
  | cons op r ih => intro s h; simp only [run]; exact ih _ (step_inv s op h)

/-- full coherence after every operation sequence, as a statement about a version of the code -/
def coherent_goal (c : Cfg) : Prop := ∀ ops : List Op, Coh (run c {} ops).1
/-- `next_signers()` / `total_next_stakes_signers()` follow `next_signers_with_stake()` after every operation sequence -/
def snapshot_goal (c : Cfg) : Prop := ∀ ops : List Op, SnapCoh (run c {} ops).1

/-- **Cache coherence for EVERY operation sequence**: whenever computed data is present, the current key is the key of
`current_signers_with_stake()` and the next key is the key of `next_signers_with_stake()` -/
theorem run_coherent : coherent_goal prod := fun ops => (run_inv ops {} inv_init).coh

/-- **The `Signer` list and the total of the next signers are those of `next_signers_with_stake()`**, after every
operation sequence -/
theorem run_snapshot : snapshot_goal prod := fun ops => (run_inv ops {} inv_init).snap

/-! ### the store keeps one row per (epoch, party): the lists the service reads are honest lists -/

def StoreInv (store : List Row) : Prop := (store.map (fun r => (r.epoch, r.party))).Nodup

theorem signersAt_wf {store : List Row} (h : StoreInv store) (e : Nat) : WF (signersAt store e) := by
  refine ⟨?_, ?_⟩
  · intro s hs
    simp only [signersAt, List.mem_map] at hs
    obtain ⟨r, _, rfl⟩ := hs
    rfl
  · unfold signersAt
    rw [List.map_map]
    unfold StoreInv at h
    induction store with
    | nil => simp
    | cons a r ih =>
      simp only [List.map_cons, List.nodup_cons] at h
      simp only [List.filter_cons]
      split
      · rename_i hae
        simp only [List.map_cons, List.nodup_cons]
        refine ⟨?_, ih h.2⟩
        intro hin
        simp only [List.mem_map, List.mem_filter, Function.comp] at hin
        obtain ⟨x, ⟨hx, hxe⟩, hp⟩ := hin
        apply h.1
        simp only [List.mem_map]
        refine ⟨x, hx, ?_⟩
        have h1 : x.epoch = e := by simpa using hxe
        have h2 : a.epoch = e := by simpa using hae
        simp only [Row.signer] at hp
        rw [h1, h2, hp]
      · exact ih h.2

theorem step_store_eq (s : St) (op : Op) :
    (step prod s op).1.store = s.store ∨ (∃ r, op = .save r) ∨ (∃ e, op = .prune e) := by
  cases op with
  | save r => exact Or.inr (Or.inl ⟨r, rfl⟩)
  | prune e => exact Or.inr (Or.inr ⟨e, rfl⟩)
  | inform e =>
    left
    simp only [step]
    split
    · rfl
    · split <;> rfl
  | precompute =>
    left
    simp only [step]
    rcases precompute_spec s with ⟨_, _, _, hs⟩ | ⟨_, _, _, heq⟩ | ⟨_, _, heq⟩
    · exact hs
    · rw [heq]
    · rw [heq]
  | updateNext =>
    left
    simp only [step]
    cases hd : s.data with
    | none => simp only [updateNext, hd]
    | some d =>
      rcases updateNext_spec s d hd with ⟨_, heq, _⟩ | ⟨_, heq⟩
      · rw [heq]
        rcases precompute_spec (refreshed prod s d) with ⟨_, _, _, hs⟩ | ⟨_, _, _, heq'⟩ | ⟨_, _, heq'⟩
        · rw [hs]; rfl
        · rw [heq']; rfl
        · rw [heq']; rfl
      · rw [heq]

theorem step_store (s : St) (op : Op) (h : StoreInv s.store) : StoreInv (step prod s op).1.store := by
  have hfilter : ∀ (p : Row → Bool), StoreInv (s.store.filter p) := fun p =>
    List.Nodup.sublist (List.Sublist.map _ List.filter_sublist) h
  rcases step_store_eq s op with heq | ⟨r, rfl⟩ | ⟨e, rfl⟩
  · rw [heq]; exact h
  · simp only [step, StoreInv, List.map_cons, List.nodup_cons]
    refine ⟨?_, hfilter _⟩
    intro hin
    simp only [List.mem_map, List.mem_filter] at hin
    obtain ⟨x, ⟨_, hx⟩, hk⟩ := hin
    simp only [Prod.mk.injEq] at hk
    simp [sameKey, hk.1, hk.2] at hx
  · exact hfilter _

/-- the signer lists of the snapshot are honest lists (distinct parties, registered under their own identity) -/
structure DataWF (s : St) : Prop where
  store : StoreInv s.store
  lists : ∀ d, s.data = some d → WF d.cur ∧ WF d.next

theorem step_dataWF (s : St) (op : Op) (h : DataWF s) : DataWF (step prod s op).1 := by
  refine ⟨step_store s op h.store, ?_⟩
  cases op with
  | save r => exact h.lists
  | prune e => exact h.lists
  | inform e =>
    simp only [step]
    split
    · exact h.lists
    · split
      · exact h.lists
      · intro d hd
        simp only [informed, Option.some.injEq] at hd
        subst hd
        exact ⟨signersAt_wf h.store _, signersAt_wf h.store _⟩
  | precompute =>
    simp only [step]
    rcases precompute_spec s with ⟨_, _, hdat, _⟩ | ⟨_, _, _, heq⟩ | ⟨_, _, heq⟩
    · rw [hdat]; exact h.lists
    · rw [heq]; exact h.lists
    · rw [heq]; exact h.lists
  | updateNext =>
    simp only [step]
    cases hd : s.data with
    | none => simp only [updateNext, hd]; intro d hd'; simp at hd'
    | some d =>
      have hwf : ∀ d', (refreshed prod s d).data = some d' → WF d'.cur ∧ WF d'.next := by
        intro d' hd'
        simp only [refreshed, Data.refresh, prod, if_true, Option.some.injEq] at hd'
        subst hd'
        exact ⟨(h.lists d hd).1, signersAt_wf h.store _⟩
      rcases updateNext_spec s d hd with ⟨_, heq, _⟩ | ⟨_, heq⟩
      · rw [heq]
        rcases precompute_spec (refreshed prod s d) with ⟨_, _, hdat, _⟩ | ⟨_, _, _, heq'⟩ | ⟨_, _, heq'⟩
        · rw [hdat]; exact hwf
        · rw [heq']; exact hwf
        · rw [heq']; exact hwf
      · rw [heq]; exact h.lists

theorem run_dataWF : ∀ (ops : List Op) (s : St), DataWF s → DataWF (run prod s ops).1 := by
  intro ops
  induction ops with
  | nil => intro s h; exact h
  | cons op r ih => intro s h; simp only [run]; exact ih _ (step_dataWF s op h)

theorem dataWF_init : DataWF ({} : St) := ⟨by simp [StoreInv], fun _ h => by simp at h⟩

/-- **The aggregator's keys are a function of the registration SET, not of the history**: two services reached by
ANY two histories, whose reported next (current) signer lists are permutations of each other, hold the same next
(current) multi-signer: same closed registration (every slot), same total stake, same aggregate key -/
theorem keys_function_of_set (ops₁ ops₂ : List Op) {d₁ d₂ : Data} {c₁ c₂ : Computed}
    (hd₁ : (run prod {} ops₁).1.data = some d₁) (hd₂ : (run prod {} ops₂).1.data = some d₂)
    (hc₁ : (run prod {} ops₁).1.computed = some c₁) (hc₂ : (run prod {} ops₂).1.computed = some c₂) :
    (d₁.next.Perm d₂.next → c₁.next = c₂.next) ∧ (d₁.cur.Perm d₂.cur → c₁.cur = c₂.cur) := by
  have coh₁ := run_coherent ops₁
  have coh₂ := run_coherent ops₂
  have wf₁ := (run_dataWF ops₁ {} dataWF_init).lists d₁ hd₁
  constructor
  · intro hp
    obtain ⟨d, hd, hb⟩ := coh₁.2 c₁ hc₁
    obtain ⟨d', hd', hb'⟩ := coh₂.2 c₂ hc₂
    rw [hd₁] at hd; rw [hd₂] at hd'
    simp only [Option.some.injEq] at hd hd'
    subst hd; subst hd'
    rw [build_perm hp wf₁.2, hb'] at hb
    exact (Except.ok.inj hb).symm
  · intro hp
    obtain ⟨d, hd, hb⟩ := coh₁.1 c₁ hc₁
    obtain ⟨d', hd', hb'⟩ := coh₂.1 c₂ hc₂
    rw [hd₁] at hd; rw [hd₂] at hd'
    simp only [Option.some.injEq] at hd hd'
    subst hd; subst hd'
    rw [build_perm hp wf₁.1, hb'] at hb
    exact (Except.ok.inj hb).symm

/-- **The keys after `inform_epoch e` + `precompute_epoch_data` are those of the store's rows of the epochs `e - 1` and
`e`** (the real offsets), whatever state the service was in before — what a fresh service reports -/
theorem informed_keys (s : St) (e : Nat) (c : Computed) (h1 : (step prod s (.inform e)).2 = .ok)
    (h2 : (step prod (step prod s (.inform e)).1 .precompute).1.computed = some c) :
    build (signersAt s.store (e - 1)) = .ok c.cur ∧ build (signersAt s.store e) = .ok c.next := by
  simp only [step] at h1 h2
  by_cases h0 : e = 0
  · simp [h0] at h1
  · by_cases hov : totalOf (signersAt s.store (e - 1)) ≥ 2 ^ 64 ∨ totalOf (signersAt s.store e) ≥ 2 ^ 64
    · simp [h0, hov] at h1
    · simp only [h0, hov, if_false] at h2
      have hc1 : (informed s e).computed = none := rfl
      rcases precompute_spec (informed s e) with ⟨_, hcoh, hdat, _⟩ | ⟨_, _, _, heq⟩ | ⟨_, _, heq⟩
      · obtain ⟨d, hd, hb⟩ := hcoh.1 c h2
        obtain ⟨d', hd', hb'⟩ := hcoh.2 c h2
        rw [hdat] at hd hd'
        simp only [informed, Option.some.injEq] at hd hd'
        subst hd; subst hd'
        exact ⟨hb, hb'⟩
      · rw [heq, hc1] at h2; cases h2
      · rw [heq, hc1] at h2; cases h2

/-- **Live = fresh**: a live service (any history) whose snapshot holds the store's present rows reports exactly what a
fresh service, informed of the same epoch over the same store, computes -/
theorem live_agrees_with_fresh (s : St) (hcoh : Coh s) (d : Data) (c cf : Computed) (hd : s.data = some d)
    (hc : s.computed = some c) (hcur : d.cur = signersAt s.store (d.epoch - 1)) (hnext : d.next = signersAt s.store d.epoch)
    (h1 : (step prod { store := s.store } (.inform d.epoch)).2 = .ok)
    (h2 : (step prod (step prod { store := s.store } (.inform d.epoch)).1 .precompute).1.computed = some cf) : c = cf := by
  obtain ⟨hf1, hf2⟩ := informed_keys { store := s.store } d.epoch cf h1 h2
  obtain ⟨d1, hd1, hb1⟩ := hcoh.1 c hc
  obtain ⟨d2, hd2, hb2⟩ := hcoh.2 c hc
  rw [hd] at hd1 hd2
  simp only [Option.some.injEq] at hd1 hd2
  subst hd1; subst hd2
  simp only at hf1 hf2
  rw [← hcur, hb1] at hf1
  rw [← hnext, hb2] at hf2
  have e1 : c.cur = cf.cur := Except.ok.inj hf1
  have e2 : c.next = cf.next := Except.ok.inj hf2
  cases c; cases cf; simp_all

/-! ### the two defects the repairs removed (counter-examples on the model of the code before them) -/

def rowA : Row := ⟨2, 1, 7, 5⟩
def rowB : Row := ⟨2, 2, 8, 6⟩
/-- party 2 registering party 1's key -/
def rowDup : Row := ⟨2, 2, 7, 6⟩

def histSnapshot : List Op := [.save ⟨1, 1, 7, 5⟩, .save rowA, .inform 2, .save rowB, .updateNext]
def histFailedUpdate : List Op := [.save ⟨1, 1, 7, 5⟩, .save rowA, .inform 2, .precompute, .save rowDup, .updateNext]

/-- before `fix:` df18c4ce4: a registration arriving after `inform_epoch`: `next_signers_with_stake` follows it, the
`next_signers` list and `total_next_stakes_signers` do not -/
theorem stale_snapshot_counterexample_before_repair : ¬ snapshot_goal beforeRepair := by
  intro h
  have hs := h histSnapshot
  have hrun : (run beforeRepair {} histSnapshot).1.data
      = some ⟨2, [⟨1, 1, 7, 5⟩], [⟨2, 2, 8, 6⟩, ⟨1, 1, 7, 5⟩], [1], 5, 5⟩ := by
    simp [histSnapshot, run, step, informed, updateNext, refreshed, Data.refresh, beforeRepair, precompute, build, regLoop,
      stakeOf, closeReg, ofClose, signersAt, sameKey, totalOf, rowA, rowB, Row.signer]
    repeat' split
    all_goals rfl
  have := (hs _ hrun).1
  simp at this

/-- before `fix:` 9c9bc53d6: an update that fails (party 2 arrives with party 1's key: `SignerBuilder::new` rejects the
repeated key) leaves the previous next key cached next to the new next signer list -/
theorem failed_update_counterexample_before_repair : ¬ coherent_goal beforeRepair := by
  intro h
  have hcoh := (h histFailedUpdate).2
  have hrun : (run beforeRepair {} histFailedUpdate).1.computed = some ⟨⟨[⟨5, 7⟩], 5⟩, ⟨[⟨5, 7⟩], 5⟩⟩ ∧
      (run beforeRepair {} histFailedUpdate).1.data
        = some ⟨2, [⟨1, 1, 7, 5⟩], [⟨2, 2, 7, 6⟩, ⟨1, 1, 7, 5⟩], [1], 5, 5⟩ := by
    simp [histFailedUpdate, run, step, informed, updateNext, refreshed, Data.refresh, beforeRepair, precompute, build,
      regLoop, stakeOf, closeReg, ofClose, close, signersAt, sameKey, totalOf, rowA, rowDup, Row.signer]
  obtain ⟨d, hd, hb⟩ := hcoh _ hrun.1
  rw [hrun.2] at hd
  simp only [Option.some.injEq] at hd
  subst hd
  simp [build, regLoop, stakeOf] at hb

/-- … both histories are harmless now: the refreshed list comes with its `Signer` list and total, the failing update
leaves the service as it was -/
theorem repaired_examples :
    (∃ d, (run prod {} histSnapshot).1.data = some d ∧ d.nextSnap = [2, 1] ∧ d.totalNext = 11) ∧
    (run prod {} histFailedUpdate).1.data = some ⟨2, [⟨1, 1, 7, 5⟩], [⟨1, 1, 7, 5⟩], [1], 5, 5⟩ := by
  constructor
  · have h1 := run_snapshot histSnapshot
    have hnext : ∃ d, (run prod {} histSnapshot).1.data = some d ∧ d.next = [⟨2, 2, 8, 6⟩, ⟨1, 1, 7, 5⟩] := by
      simp [histSnapshot, run, step, informed, updateNext, refreshed, Data.refresh, prod, precompute, build, regLoop,
        stakeOf, closeReg, ofClose, signersAt, sameKey, totalOf, rowA, rowB, Row.signer]
      repeat' split
      all_goals simp_all
    obtain ⟨d, hd, hn⟩ := hnext
    refine ⟨d, hd, ?_, ?_⟩
    · rw [(h1 d hd).1, hn]; rfl
    · rw [(h1 d hd).2, hn]; rfl
  · simp [histFailedUpdate, run, step, informed, updateNext, refreshed, Data.refresh, prod, precompute, build,
      regLoop, stakeOf, closeReg, ofClose, close, signersAt, sameKey, totalOf, rowA, rowDup, Row.signer]

end RegService
