import MithrilModel.RegPaths
/-!
C06 at the aggregator: `MithrilEpochService` (mithril-aggregator/src/services/epoch_service.rs) over the real
`SignerRegistrationStore`.

* the store: rows keyed by (epoch, party); `save_verification_key` = insert-or-replace (the replaced row goes to
  the front: `get_signers` reads `order by ROWID desc`); `prune_verification_keys e` deletes the rows of epochs `< e`;
* `inform_epoch e` (fails for `e = 0`: `offset_to_signer_retrieval_epoch`) takes the snapshot: current signers =
  the rows of epoch `e - 1`, next signers = the rows of epoch `e`, the two `Signer` lists and the two stake totals
  (`.sum()` of u64: with overflow checks a total ≥ 2^64 panics before anything is assigned), and DROPS the
  computed data;
* `update_next_signers_with_stake` re-reads the rows of the snapshot's epoch into `next_signers_with_stake` ONLY
  (the `next_signers` list and `total_next_stakes_signers` keep the values `inform_epoch` took) and calls
  `precompute_epoch_data`;
* `precompute_epoch_data` builds the two multi-signers with `SignerBuilder::new` (`RegPaths.build`), current
  first; on an error it returns with the state as it is — in particular `update_next_signers_with_stake` has
  already replaced the next signers, so a failing update leaves the PREVIOUS computed keys next to the NEW list.

`nextStale` is a ghost flag (no counterpart in the code): "the last `update_next_signers_with_stake` failed in
`precompute_epoch_data` while computed data was present".
-/
namespace RegService
open RegClose RegModel RegPaths

structure Row where
  epoch : Nat
  party : Nat
  vk : Nat
  stake : Nat
deriving DecidableEq, Repr

def Row.signer (r : Row) : Signer := ⟨r.party, r.party, r.vk, r.stake⟩

structure Data where
  epoch : Nat
  cur : List Signer            -- `current_signers_with_stake`
  next : List Signer           -- `next_signers_with_stake`
  nextSnap : List Nat          -- parties of `next_signers` (written by `inform_epoch` only)
  totalCur : Nat               -- `total_stakes_signers`
  totalNext : Nat              -- `total_next_stakes_signers` (written by `inform_epoch` only)
deriving DecidableEq, Repr

structure Computed where
  cur : Built                  -- `protocol_multi_signer` / `aggregate_verification_key`
  next : Built                 -- `next_protocol_multi_signer` / `next_aggregate_verification_key`
deriving DecidableEq, Repr

structure St where
  store : List Row := []
  data : Option Data := none
  computed : Option Computed := none
  nextStale : Bool := false
deriving Repr

inductive Op where
  | save (r : Row)
  | prune (epoch : Nat)
  | inform (epoch : Nat)
  | updateNext
  | precompute
deriving DecidableEq, Repr

inductive Res where
  | ok
  | badEpoch                    -- `inform_epoch 0`
  | panic                       -- stake total overflow in `inform_epoch` (overflow checks on)
  | notInit                     -- `inform_epoch` has not been called
  | buildCur (e : BuildErr)
  | buildNext (e : BuildErr)
deriving DecidableEq, Repr

def signersAt (store : List Row) (e : Nat) : List Signer :=
  (store.filter (fun r => r.epoch == e)).map Row.signer

def sameKey (a b : Row) : Bool := a.epoch == b.epoch && a.party == b.party

def totalOf (l : List Signer) : Nat := (l.map (·.stake)).sum

def precompute (s : St) : St × Res :=
  match s.data with
  | none => (s, .notInit)
  | some d =>
    match build d.cur with
    | .error e => (s, .buildCur e)
    | .ok c =>
      match build d.next with
      | .error e => (s, .buildNext e)
      | .ok n => ({ s with computed := some ⟨c, n⟩, nextStale := false }, .ok)

/-- the state `update_next_signers_with_stake` hands to `precompute_epoch_data` -/
def refreshed (s : St) (d : Data) : St := { s with data := some { d with next := signersAt s.store d.epoch } }

def updateNext (s : St) : St × Res :=
  match s.data with
  | none => (s, .notInit)
  | some d =>
    let p := precompute (refreshed s d)
    if p.2 = .ok then p else ({ p.1 with nextStale := p.1.computed.isSome }, p.2)

/-- the state a successful `inform_epoch e` leaves: the snapshot of the rows of the epochs `e - 1` and `e`, no computed data -/
def informed (s : St) (e : Nat) : St :=
  let cur := signersAt s.store (e - 1)
  let next := signersAt s.store e
  { s with data := some { epoch := e, cur, next, nextSnap := next.map (·.party),
                          totalCur := totalOf cur, totalNext := totalOf next },
           computed := none, nextStale := false }

def step (s : St) : Op → St × Res
  | .save r => ({ s with store := r :: s.store.filter (fun x => !sameKey r x) }, .ok)
  | .prune e => ({ s with store := s.store.filter (fun x => decide (e ≤ x.epoch)) }, .ok)
  | .inform e =>
    if e = 0 then (s, .badEpoch)
    else if totalOf (signersAt s.store (e - 1)) ≥ 2 ^ 64 ∨ totalOf (signersAt s.store e) ≥ 2 ^ 64 then (s, .panic)
    else (informed s e, .ok)
  | .updateNext => updateNext s
  | .precompute => precompute s

def run : St → List Op → St × List Res
  | s, [] => (s, [])
  | s, op :: r =>
    let (s1, o) := step s op
    let (s2, os) := run s1 r
    (s2, o :: os)

/-! ### cache coherence -/

/-- the cached current key / multi-signer is the one of the current signer list -/
def CurCoh (s : St) : Prop := ∀ c, s.computed = some c → ∃ d, s.data = some d ∧ build d.cur = .ok c.cur
/-- the cached next key / multi-signer is the one of the next signer list -/
def NextCoh (s : St) : Prop := ∀ c, s.computed = some c → ∃ d, s.data = some d ∧ build d.next = .ok c.next
/-- **cache coherence**: whenever computed data is present, both keys are the keys of the signer lists the service reports -/
def Coh (s : St) : Prop := CurCoh s ∧ NextCoh s

/-- what holds in EVERY reachable state -/
structure Inv (s : St) : Prop where
  cur : CurCoh s
  next : s.nextStale = false → NextCoh s

/-- `precompute_epoch_data` either succeeds and leaves a coherent cache, or fails and changes nothing -/
theorem precompute_spec (s : St) :
    ((precompute s).2 = .ok ∧ Coh (precompute s).1 ∧ (precompute s).1.nextStale = false ∧
        (precompute s).1.data = s.data ∧ (precompute s).1.store = s.store) ∨
    ((precompute s).2 ≠ .ok ∧ (precompute s).2 ≠ .notInit ∧ s.data.isSome ∧ (precompute s).1 = s) ∨
    ((precompute s).2 = .notInit ∧ s.data = none ∧ (precompute s).1 = s) := by
  cases hd : s.data with
  | none => right; right; simp [precompute, hd]
  | some d =>
    cases hc : build d.cur with
    | error e => right; left; simp [precompute, hd, hc]
    | ok c =>
      cases hn : build d.next with
      | error e => right; left; simp [precompute, hd, hc, hn]
      | ok n =>
        left
        have hp : precompute s = ({ s with computed := some ⟨c, n⟩, nextStale := false }, .ok) := by
          simp [precompute, hd, hc, hn]
        rw [hp]
        refine ⟨rfl, ⟨?_, ?_⟩, rfl, hd, rfl⟩
        · intro c' hc'
          simp only [Option.some.injEq] at hc'
          subst hc'
          exact ⟨d, hd, hc⟩
        · intro c' hc'
          simp only [Option.some.injEq] at hc'
          subst hc'
          exact ⟨d, hd, hn⟩

/-- `update_next_signers_with_stake` with a snapshot present: either the rebuilt cache, or — when a multi-signer
cannot be built — the refreshed list next to whatever was cached before -/
theorem updateNext_spec (s : St) (d : Data) (hd : s.data = some d) :
    ((updateNext s).2 = .ok ∧ (updateNext s).1 = (precompute (refreshed s d)).1 ∧ (precompute (refreshed s d)).2 = .ok) ∨
    ((updateNext s).2 ≠ .ok ∧ (updateNext s).2 ≠ .notInit ∧
      (updateNext s).1 = { refreshed s d with nextStale := s.computed.isSome }) := by
  have hu : updateNext s = (let p := precompute (refreshed s d)
      if p.2 = .ok then p else ({ p.1 with nextStale := p.1.computed.isSome }, p.2)) := by
    simp [updateNext, hd]
  rcases precompute_spec (refreshed s d) with ⟨hok, _⟩ | ⟨hne, hni, _, heq⟩ | ⟨_, hnone, _⟩
  · left
    rw [hu]; simp [hok]
  · right
    rw [hu]
    simp only [hne, if_false]
    refine ⟨hne, hni, ?_⟩
    rw [heq]; rfl
  · simp [refreshed] at hnone

theorem inv_init : Inv ({} : St) := ⟨fun _ h => by simp at h, fun _ _ h => by simp at h⟩

/-- every operation, from every state, keeps the invariant -/
theorem step_inv (s : St) (op : Op) (h : Inv s) : Inv (step s op).1 := by
  cases op with
  | save r => exact ⟨h.cur, h.next⟩
  | prune e => exact ⟨h.cur, h.next⟩
  | inform e =>
    simp only [step]
    split
    · exact h
    · split
      · exact h
      · exact ⟨fun _ hc => by simp [informed] at hc, fun _ _ hc => by simp [informed] at hc⟩
  | precompute =>
    simp only [step]
    rcases precompute_spec s with ⟨_, hcoh, _, _, _⟩ | ⟨_, _, _, heq⟩ | ⟨_, _, heq⟩
    · exact ⟨hcoh.1, fun _ => hcoh.2⟩
    · rw [heq]; exact h
    · rw [heq]; exact h
  | updateNext =>
    simp only [step]
    cases hd : s.data with
    | none => simp only [updateNext, hd]; exact h
    | some d =>
      rcases updateNext_spec s d hd with ⟨_, heq, hok⟩ | ⟨_, _, heq⟩
      · rw [heq]
        rcases precompute_spec (refreshed s d) with ⟨_, hcoh, _, _, _⟩ | ⟨hne, _⟩ | ⟨hni, _⟩
        · exact ⟨hcoh.1, fun _ => hcoh.2⟩
        · exact absurd hok hne
        · rw [hok] at hni; cases hni
      · rw [heq]
        constructor
        · intro c hc
          obtain ⟨d0, hd0, hb⟩ := h.cur c hc
          rw [hd] at hd0
          simp only [Option.some.injEq] at hd0
          subst hd0
          exact ⟨_, rfl, hb⟩
        · intro hfl c hc
          have hc' : s.computed = some c := hc
          simp [hc'] at hfl

/-- **Invariant of every reachable state**, for every history of store writes, prunes, `inform_epoch`,
`update_next_signers_with_stake` and `precompute_epoch_data` calls, whatever their arguments and results -/
theorem run_inv : ∀ (ops : List Op) (s : St), Inv s → Inv (run s ops).1 := by
  intro ops
  induction ops with
  | nil => intro s h; exact h
  | cons op r ih => intro s h; simp only [run]; exact ih _ (step_inv s op h)

/-- the ghost flag is raised by a failing `update_next_signers_with_stake` only -/
theorem step_flag (s : St) (op : Op) (h : (step s op).1.nextStale = true) :
    s.nextStale = true ∨ (op = .updateNext ∧ (step s op).2 ≠ .ok ∧ (step s op).2 ≠ .notInit) := by
  cases op with
  | save r => exact Or.inl h
  | prune e => exact Or.inl h
  | inform e =>
    simp only [step] at h
    split at h
    · exact Or.inl h
    · split at h
      · exact Or.inl h
      · simp [informed] at h
  | precompute =>
    simp only [step] at h
    rcases precompute_spec s with ⟨_, _, hst, _, _⟩ | ⟨_, _, _, heq⟩ | ⟨_, _, heq⟩
    · rw [hst] at h; simp at h
    · rw [heq] at h; exact Or.inl h
    · rw [heq] at h; exact Or.inl h
  | updateNext =>
    simp only [step] at h
    cases hd : s.data with
    | none => simp only [updateNext, hd] at h; exact Or.inl h
    | some d =>
      rcases updateNext_spec s d hd with ⟨_, heq, hok⟩ | ⟨hne, hni, _⟩
      · rw [heq] at h
        rcases precompute_spec (refreshed s d) with ⟨_, _, hst, _, _⟩ | ⟨hne, _⟩ | ⟨hni, _⟩
        · rw [hst] at h; simp at h
        · exact absurd hok hne
        · rw [hok] at hni; cases hni
      · exact Or.inr ⟨rfl, hne, hni⟩

/-- `true` iff some `update_next_signers_with_stake` of the history failed while building a multi-signer -/
def failedUpdate : List Op → List Res → Bool
  | .updateNext :: ops, r :: rs => (r != .ok && r != .notInit) || failedUpdate ops rs
  | _ :: ops, _ :: rs => failedUpdate ops rs
  | _, _ => false

theorem run_flag : ∀ (ops : List Op) (s : St), (run s ops).1.nextStale = true →
    s.nextStale = true ∨ failedUpdate ops (run s ops).2 = true := by
  intro ops
  induction ops with
  | nil => intro s h; exact Or.inl h
  | cons op r ih =>
    intro s h
    simp only [run] at h ⊢
    rcases ih _ h with h1 | h2
    · rcases step_flag s op h1 with h0 | ⟨rfl, hne, hni⟩
      · exact Or.inl h0
      · right
        simp [failedUpdate, hne, hni]
    · right
      cases op <;> simp [failedUpdate, h2]

/-- **Cache coherence for every history without a failed update**: whenever computed data is present, the current
key is the key of `current_signers_with_stake()` and the next key is the key of `next_signers_with_stake()` -/
theorem run_coherent (ops : List Op) (hno : failedUpdate ops (run {} ops).2 = false) : Coh (run {} ops).1 := by
  have hinv := run_inv ops {} inv_init
  refine ⟨hinv.cur, hinv.next ?_⟩
  cases hfl : (run {} ops).1.nextStale with
  | false => rfl
  | true =>
    rcases run_flag ops {} hfl with h | h
    · simp at h
    · rw [hno] at h; simp at h

/-- … and after EVERY successful service call the cache is coherent, whatever happened before -/
theorem step_ok_coherent (s : St) (op : Op) (hop : op = .inform e ∨ op = .updateNext ∨ op = .precompute)
    (hok : (step s op).2 = .ok) : Coh (step s op).1 := by
  rcases hop with rfl | rfl | rfl
  · simp only [step] at hok ⊢
    by_cases h0 : e = 0
    · simp [h0] at hok
    · by_cases h1 : totalOf (signersAt s.store (e - 1)) ≥ 2 ^ 64 ∨ totalOf (signersAt s.store e) ≥ 2 ^ 64
      · simp [h0, h1] at hok
      · simp only [h0, h1, if_false]
        exact ⟨fun _ hc => by simp [informed] at hc, fun _ hc => by simp [informed] at hc⟩
  · simp only [step] at hok ⊢
    cases hd : s.data with
    | none => simp [updateNext, hd] at hok
    | some d =>
      rcases updateNext_spec s d hd with ⟨_, heq, hok'⟩ | ⟨hne, _, _⟩
      · rw [heq]
        rcases precompute_spec (refreshed s d) with ⟨_, hcoh, _, _, _⟩ | ⟨hne, _⟩ | ⟨hni, _⟩
        · exact hcoh
        · exact absurd hok' hne
        · rw [hok'] at hni; cases hni
      · exact absurd hok hne
  · simp only [step] at hok ⊢
    rcases precompute_spec s with ⟨_, hcoh, _, _, _⟩ | ⟨hne, _⟩ | ⟨hni, _⟩
    · exact hcoh
    · exact absurd hok hne
    · rw [hok] at hni; cases hni

/-! ### the store keeps one row per (epoch, party): the lists the service reads are honest lists -/

def StoreInv (store : List Row) : Prop := (store.map (fun r => (r.epoch, r.party))).Nodup

theorem signersAt_wf {store : List Row} (h : StoreInv store) (e : Nat) : WF (signersAt store e) := by
  refine ⟨?_, ?_⟩
  · intro s hs
    simp only [signersAt, List.mem_map] at hs
    obtain ⟨r, _, rfl⟩ := hs
    rfl
  · unfold signersAt
    rw [List.map_map]
    unfold StoreInv at h
    induction store with
    | nil => simp
    | cons a r ih =>
      simp only [List.map_cons, List.nodup_cons] at h
      simp only [List.filter_cons]
      split
      · rename_i hae
        simp only [List.map_cons, List.nodup_cons]
        refine ⟨?_, ih h.2⟩
        intro hin
        simp only [List.mem_map, List.mem_filter, Function.comp] at hin
        obtain ⟨x, ⟨hx, hxe⟩, hp⟩ := hin
        apply h.1
        simp only [List.mem_map]
        refine ⟨x, hx, ?_⟩
        have h1 : x.epoch = e := by simpa using hxe
        have h2 : a.epoch = e := by simpa using hae
        simp only [Row.signer] at hp
        rw [h1, h2, hp]
      · exact ih h.2

theorem step_store_eq (s : St) (op : Op) :
    (step s op).1.store = s.store ∨ (∃ r, op = .save r) ∨ (∃ e, op = .prune e) := by
  cases op with
  | save r => exact Or.inr (Or.inl ⟨r, rfl⟩)
  | prune e => exact Or.inr (Or.inr ⟨e, rfl⟩)
  | inform e =>
    left
    simp only [step]
    split
    · rfl
    · split <;> rfl
  | precompute =>
    left
    simp only [step]
    rcases precompute_spec s with ⟨_, _, _, _, hs⟩ | ⟨_, _, _, heq⟩ | ⟨_, _, heq⟩
    · exact hs
    · rw [heq]
    · rw [heq]
  | updateNext =>
    left
    simp only [step]
    cases hd : s.data with
    | none => simp only [updateNext, hd]
    | some d =>
      rcases updateNext_spec s d hd with ⟨_, heq, _⟩ | ⟨_, _, heq⟩
      · rw [heq]
        rcases precompute_spec (refreshed s d) with ⟨_, _, _, _, hs⟩ | ⟨_, _, _, heq'⟩ | ⟨_, _, heq'⟩
        · rw [hs]; rfl
        · rw [heq']; rfl
        · rw [heq']; rfl
      · rw [heq]; rfl

theorem step_store (s : St) (op : Op) (h : StoreInv s.store) : StoreInv (step s op).1.store := by
  have hfilter : ∀ (p : Row → Bool), StoreInv (s.store.filter p) := fun p =>
    List.Nodup.sublist (List.Sublist.map _ List.filter_sublist) h
  rcases step_store_eq s op with heq | ⟨r, rfl⟩ | ⟨e, rfl⟩
  · rw [heq]; exact h
  · simp only [step, StoreInv, List.map_cons, List.nodup_cons]
    refine ⟨?_, hfilter _⟩
    intro hin
    simp only [List.mem_map, List.mem_filter] at hin
    obtain ⟨x, ⟨_, hx⟩, hk⟩ := hin
    simp only [Prod.mk.injEq] at hk
    simp [sameKey, hk.1, hk.2] at hx
  · exact hfilter _

/-- the signer lists of the snapshot are honest lists (distinct parties, registered under their own identity) -/
structure DataWF (s : St) : Prop where
  store : StoreInv s.store
  lists : ∀ d, s.data = some d → WF d.cur ∧ WF d.next

theorem step_dataWF (s : St) (op : Op) (h : DataWF s) : DataWF (step s op).1 := by
  refine ⟨step_store s op h.store, ?_⟩
  cases op with
  | save r => exact h.lists
  | prune e => exact h.lists
  | inform e =>
    simp only [step]
    split
    · exact h.lists
    · split
      · exact h.lists
      · intro d hd
        simp only [informed, Option.some.injEq] at hd
        subst hd
        exact ⟨signersAt_wf h.store _, signersAt_wf h.store _⟩
  | precompute =>
    simp only [step]
    rcases precompute_spec s with ⟨_, _, _, hdat, _⟩ | ⟨_, _, _, heq⟩ | ⟨_, _, heq⟩
    · rw [hdat]; exact h.lists
    · rw [heq]; exact h.lists
    · rw [heq]; exact h.lists
  | updateNext =>
    simp only [step]
    cases hd : s.data with
    | none => simp only [updateNext, hd]; intro d hd'; simp at hd'
    | some d =>
      have hwf : ∀ d', (refreshed s d).data = some d' → WF d'.cur ∧ WF d'.next := by
        intro d' hd'
        simp only [refreshed, Option.some.injEq] at hd'
        subst hd'
        exact ⟨(h.lists d hd).1, signersAt_wf h.store _⟩
      rcases updateNext_spec s d hd with ⟨_, heq, _⟩ | ⟨_, _, heq⟩
      · rw [heq]
        rcases precompute_spec (refreshed s d) with ⟨_, _, _, hdat, _⟩ | ⟨_, _, _, heq'⟩ | ⟨_, _, heq'⟩
        · rw [hdat]; exact hwf
        · rw [heq']; exact hwf
        · rw [heq']; exact hwf
      · rw [heq]; exact hwf

theorem run_dataWF : ∀ (ops : List Op) (s : St), DataWF s → DataWF (run s ops).1 := by
  intro ops
  induction ops with
  | nil => intro s h; exact h
  | cons op r ih => intro s h; simp only [run]; exact ih _ (step_dataWF s op h)

theorem dataWF_init : DataWF ({} : St) := ⟨by simp [StoreInv], fun _ h => by simp at h⟩

/-- **The aggregator's keys are a function of the registration SET, not of the history**: two services reached by
ANY two histories without a failed update, whose reported next (current) signer lists are permutations of each
other, hold the same next (current) multi-signer: same closed registration (every slot), same total stake, same
aggregate key -/
theorem keys_function_of_set (ops₁ ops₂ : List Op)
    (h₁ : failedUpdate ops₁ (run {} ops₁).2 = false) (h₂ : failedUpdate ops₂ (run {} ops₂).2 = false)
    {d₁ d₂ : Data} {c₁ c₂ : Computed}
    (hd₁ : (run {} ops₁).1.data = some d₁) (hd₂ : (run {} ops₂).1.data = some d₂)
    (hc₁ : (run {} ops₁).1.computed = some c₁) (hc₂ : (run {} ops₂).1.computed = some c₂) :
    (d₁.next.Perm d₂.next → c₁.next = c₂.next) ∧ (d₁.cur.Perm d₂.cur → c₁.cur = c₂.cur) := by
  have coh₁ := run_coherent ops₁ h₁
  have coh₂ := run_coherent ops₂ h₂
  have wf₁ := (run_dataWF ops₁ {} dataWF_init).lists d₁ hd₁
  constructor
  · intro hp
    obtain ⟨d, hd, hb⟩ := coh₁.2 c₁ hc₁
    obtain ⟨d', hd', hb'⟩ := coh₂.2 c₂ hc₂
    rw [hd₁] at hd; rw [hd₂] at hd'
    simp only [Option.some.injEq] at hd hd'
    subst hd; subst hd'
    rw [build_perm hp wf₁.2, hb'] at hb
    exact (Except.ok.inj hb).symm
  · intro hp
    obtain ⟨d, hd, hb⟩ := coh₁.1 c₁ hc₁
    obtain ⟨d', hd', hb'⟩ := coh₂.1 c₂ hc₂
    rw [hd₁] at hd; rw [hd₂] at hd'
    simp only [Option.some.injEq] at hd hd'
    subst hd; subst hd'
    rw [build_perm hp wf₁.1, hb'] at hb
    exact (Except.ok.inj hb).symm

/-- **The keys after `inform_epoch e` + `precompute_epoch_data` are those of the store's rows of the epochs `e - 1` and
`e`** (the real offsets), whatever state the service was in before — what a fresh service reports -/
theorem informed_keys (s : St) (e : Nat) (c : Computed) (h1 : (step s (.inform e)).2 = .ok)
    (h2 : (step (step s (.inform e)).1 .precompute).1.computed = some c) :
    build (signersAt s.store (e - 1)) = .ok c.cur ∧ build (signersAt s.store e) = .ok c.next := by
  simp only [step] at h1 h2
  by_cases h0 : e = 0
  · simp [h0] at h1
  · by_cases hov : totalOf (signersAt s.store (e - 1)) ≥ 2 ^ 64 ∨ totalOf (signersAt s.store e) ≥ 2 ^ 64
    · simp [h0, hov] at h1
    · simp only [h0, hov, if_false] at h2
      have hc1 : (informed s e).computed = none := rfl
      rcases precompute_spec (informed s e) with ⟨_, hcoh, _, hdat, _⟩ | ⟨_, _, _, heq⟩ | ⟨_, _, heq⟩
      · obtain ⟨d, hd, hb⟩ := hcoh.1 c h2
        obtain ⟨d', hd', hb'⟩ := hcoh.2 c h2
        rw [hdat] at hd hd'
        simp only [informed, Option.some.injEq] at hd hd'
        subst hd; subst hd'
        exact ⟨hb, hb'⟩
      · rw [heq, hc1] at h2; cases h2
      · rw [heq, hc1] at h2; cases h2

/-- **Live = fresh**: a coherent live service whose snapshot holds the store's present rows reports exactly what a
fresh service, informed of the same epoch over the same store, computes -/
theorem live_agrees_with_fresh (s : St) (hcoh : Coh s) (d : Data) (c cf : Computed) (hd : s.data = some d)
    (hc : s.computed = some c) (hcur : d.cur = signersAt s.store (d.epoch - 1)) (hnext : d.next = signersAt s.store d.epoch)
    (h1 : (step { store := s.store } (.inform d.epoch)).2 = .ok)
    (h2 : (step (step { store := s.store } (.inform d.epoch)).1 .precompute).1.computed = some cf) : c = cf := by
  obtain ⟨hf1, hf2⟩ := informed_keys { store := s.store } d.epoch cf h1 h2
  obtain ⟨d1, hd1, hb1⟩ := hcoh.1 c hc
  obtain ⟨d2, hd2, hb2⟩ := hcoh.2 c hc
  rw [hd] at hd1 hd2
  simp only [Option.some.injEq] at hd1 hd2
  subst hd1; subst hd2
  simp only at hf1 hf2
  rw [← hcur, hb1] at hf1
  rw [← hnext, hb2] at hf2
  have e1 : c.cur = cf.cur := Except.ok.inj hf1
  have e2 : c.next = cf.next := Except.ok.inj hf2
  cases c; cases cf; simp_all

/-! ### what the code does NOT keep (counter-examples on the model of the code as it is) -/

/-- `update_next_signers_with_stake` never refreshes `next_signers` / `total_next_stakes_signers` -/
theorem updateNext_keeps_snapshot (s : St) (d : Data) (hd : s.data = some d) :
    ∃ d', (step s .updateNext).1.data = some d' ∧ d'.nextSnap = d.nextSnap ∧ d'.totalNext = d.totalNext ∧
      d'.next = signersAt s.store d.epoch := by
  simp only [step]
  refine ⟨{ d with next := signersAt s.store d.epoch }, ?_, rfl, rfl, rfl⟩
  rcases updateNext_spec s d hd with ⟨_, heq, _⟩ | ⟨_, _, heq⟩
  · rw [heq]
    rcases precompute_spec (refreshed s d) with ⟨_, _, _, hdat, _⟩ | ⟨_, _, _, heq'⟩ | ⟨_, _, heq'⟩
    · rw [hdat]; rfl
    · rw [heq']; rfl
    · rw [heq']; rfl
  · rw [heq]; rfl

def rowA : Row := ⟨2, 1, 7, 5⟩
def rowB : Row := ⟨2, 2, 8, 6⟩
/-- party 2 registering party 1's key -/
def rowDup : Row := ⟨2, 2, 7, 6⟩

/-- full coherence as a goal: it does NOT hold for the code as it is (`failed_update_counterexample`) -/
def coherent_goal : Prop := ∀ ops : List Op, Coh (run {} ops).1

/-- a new registration arriving after `inform_epoch`: `next_signers_with_stake` follows it, the `next_signers`
list and `total_next_stakes_signers` do not -/
theorem stale_snapshot_counterexample :
    ∃ d, (run {} [.save ⟨1, 1, 7, 5⟩, .save rowA, .inform 2, .save rowB, .updateNext]).1.data = some d ∧
      d.next.map (·.party) = [2, 1] ∧ d.nextSnap = [1] ∧ totalOf d.next = 11 ∧ d.totalNext = 5 := by
  simp only [run]
  generalize hs : (step (step (step (step {} (.save ⟨1, 1, 7, 5⟩)).1 (.save rowA)).1 (.inform 2)).1 (.save rowB)).1 = s
  have hstore : s.store = [rowB, rowA, ⟨1, 1, 7, 5⟩] := by rw [← hs]; decide
  have hdata : s.data = some ⟨2, [⟨1, 1, 7, 5⟩], [⟨1, 1, 7, 5⟩], [1], 5, 5⟩ := by rw [← hs]; decide
  obtain ⟨d', h1, h2, h3, h4⟩ := updateNext_keeps_snapshot s _ hdata
  refine ⟨d', h1, ?_, h2, ?_, h3⟩
  · rw [h4, hstore]; decide
  · rw [h4, hstore]; decide

/-- an update that fails (party 2 arrives with party 1's key: `SignerBuilder::new` rejects the repeated key) leaves
the previous next key cached next to the new next signer list: `coherent_goal` is false -/
theorem failed_update_counterexample : ¬ coherent_goal := by
  intro h
  have hcoh := (h [.save ⟨1, 1, 7, 5⟩, .save rowA, .inform 2, .precompute, .save rowDup, .updateNext]).2
  have hrun : (run {} [.save ⟨1, 1, 7, 5⟩, .save rowA, .inform 2, .precompute, .save rowDup, .updateNext]).1.computed
        = some ⟨⟨[⟨5, 7⟩], 5⟩, ⟨[⟨5, 7⟩], 5⟩⟩ ∧
      (run {} [.save ⟨1, 1, 7, 5⟩, .save rowA, .inform 2, .precompute, .save rowDup, .updateNext]).1.data
        = some ⟨2, [⟨1, 1, 7, 5⟩], [⟨2, 2, 7, 6⟩, ⟨1, 1, 7, 5⟩], [1], 5, 5⟩ := by
    simp [run, step, informed, updateNext, refreshed, precompute, build, regLoop, stakeOf, closeReg, ofClose, close, signersAt,
      sameKey, totalOf, rowA, rowDup, Row.signer]
  obtain ⟨d, hd, hb⟩ := hcoh _ hrun.1
  rw [hrun.2] at hd
  simp only [Option.some.injEq] at hd
  subst hd
  simp [build, regLoop, stakeOf] at hb

end RegService
