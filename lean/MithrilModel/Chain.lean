namespace Chain

structure Cert where
  hash : Nat
  prevHash : Nat
  epoch : Nat
  avk : Nat
  params : Nat
  nextAvk : Option Nat        -- decoded `next_aggregate_verification_key` part
  nextParams : Option Nat     -- `next_protocol_parameters` part
  isGenesis : Bool
  -- verdicts of the primitives / of C04's hash model on this very object
  contentHashOk : Bool
  signedMsgOk : Bool
  epochPartOk : Bool
  multiSigOk : Bool
  genesisSigOk : Bool
deriving Repr, DecidableEq

inductive Err where
  | notFound | loop | hash | signedMsg | multiSig | genesisSig | epochPart
  | missingEpoch | prevHash | avk | params | fuel
deriving Repr, DecidableEq

def absDiff (a b : Nat) : Nat := if a ≤ b then b - a else a - b

def integrityStd (c : Cert) : Except Err Unit :=
  if c.hash = c.prevHash then .error .loop
  else if !c.contentHashOk then .error .hash
  else if !c.signedMsgOk then .error .signedMsg
  else if !c.multiSigOk then .error .multiSig
  else if !c.epochPartOk then .error .epochPart
  else .ok ()

def avkChain (c p : Cert) : Bool :=
  if p.epoch = c.epoch then p.avk = c.avk else p.nextAvk = some c.avk
def paramsChain (c p : Cert) : Bool :=
  if p.epoch = c.epoch then p.params = c.params else p.nextParams = some c.params

/-- `verify_certificate` of the common verifier BEFORE the `fix:` commit (`has_gap_with` = abs_diff > 1
only, so a link to the following epoch passed); kept to document the fixed finding -/
def verifyCertificateOld (retr : Nat → Option Cert) (c : Cert) : Except Err (Option Cert) :=
  if c.isGenesis then
    if !c.contentHashOk then .error .hash
    else if !c.signedMsgOk then .error .signedMsg
    else if !c.genesisSigOk then .error .genesisSig
    else if !c.epochPartOk then .error .epochPart
    else .ok none
  else
    match retr c.prevHash with
    | none => .error .notFound
    | some p =>
      match integrityStd c with
      | .error e => .error e
      | .ok () =>
        if absDiff c.epoch p.epoch > 1 then .error .missingEpoch
        else if p.hash ≠ c.prevHash then .error .prevHash
        else if !avkChain c p then .error .avk
        else if !paramsChain c p then .error .params
        else .ok (some p)

def verifyChainOld (retr : Nat → Option Cert) : Nat → Cert → Except Err Unit
  | 0, _ => .error .fuel
  | fuel + 1, c =>
    match verifyCertificateOld retr c with
    | .error e => .error e
    | .ok none => .ok ()
    | .ok (some p) => verifyChainOld retr fuel p

/-- `verify_certificate` of the common verifier (code as it is: the previous certificate must be of
the same or of the immediately preceding epoch) -/
def verifyCertificate (retr : Nat → Option Cert) (c : Cert) : Except Err (Option Cert) :=
  if c.isGenesis then
    if !c.contentHashOk then .error .hash
    else if !c.signedMsgOk then .error .signedMsg
    else if !c.genesisSigOk then .error .genesisSig
    else if !c.epochPartOk then .error .epochPart
    else .ok none
  else
    match retr c.prevHash with
    | none => .error .notFound
    | some p =>
      match integrityStd c with
      | .error e => .error e
      | .ok () =>
        if absDiff c.epoch p.epoch > 1 ∨ p.epoch > c.epoch then .error .missingEpoch
        else if p.hash ≠ c.prevHash then .error .prevHash
        else if !avkChain c p then .error .avk
        else if !paramsChain c p then .error .params
        else .ok (some p)

def verifyChain (retr : Nat → Option Cert) : Nat → Cert → Except Err Unit
  | 0, _ => .error .fuel
  | fuel + 1, c =>
    match verifyCertificate retr c with
    | .error e => .error e
    | .ok none => .ok ()
    | .ok (some p) => verifyChain retr fuel p

/-- what the code enforces on one link -/
def LinkCode (c p : Cert) : Prop :=
  (p.epoch = c.epoch ∧ p.avk = c.avk ∧ p.params = c.params) ∨
  (p.epoch + 1 = c.epoch ∧ p.nextAvk = some c.avk ∧ p.nextParams = some c.params) ∨
  (p.epoch = c.epoch + 1 ∧ p.nextAvk = some c.avk ∧ p.nextParams = some c.params)

/-- what the property asks -/
def LinkSpec (c p : Cert) : Prop :=
  (p.epoch = c.epoch ∧ p.avk = c.avk ∧ p.params = c.params) ∨
  (p.epoch + 1 = c.epoch ∧ p.nextAvk = some c.avk ∧ p.nextParams = some c.params)

def Integrity (c : Cert) : Prop :=
  c.contentHashOk = true ∧ c.signedMsgOk = true ∧ c.epochPartOk = true

inductive Valid (Link : Cert → Cert → Prop) : Cert → Prop where
  | genesis (c : Cert) : c.isGenesis = true → Integrity c → c.genesisSigOk = true → Valid Link c
  | step (c p : Cert) : c.isGenesis = false → Integrity c → c.multiSigOk = true →
      p.hash = c.prevHash → Link c p → Valid Link p → Valid Link c

theorem verifyCertificate_ok_none {retr c} (h : verifyCertificate retr c = .ok none) :
    c.isGenesis = true ∧ Integrity c ∧ c.genesisSigOk = true := by
  unfold verifyCertificate at h
  split at h
  · rename_i hg
    refine ⟨hg, ?_⟩
    repeat (split at h; · simp at h)
    simp_all [Integrity]
  · split at h
    · simp at h
    · split at h
      · simp at h
      · repeat (split at h; · simp at h)
        simp at h

theorem verifyCertificate_ok_some {retr c p} (h : verifyCertificate retr c = .ok (some p)) :
    c.isGenesis = false ∧ Integrity c ∧ c.multiSigOk = true ∧ p.hash = c.prevHash ∧ LinkSpec c p := by
  unfold verifyCertificate at h
  split at h
  · repeat (split at h; · simp at h)
    simp at h
  · rename_i hg
    split at h
    · simp at h
    · rename_i q hq
      split at h
      · simp at h
      · rename_i hint
        unfold integrityStd at hint
        repeat (split at hint; · simp at hint)
        split at h; · simp at h
        split at h; · simp at h
        split at h; · simp at h
        split at h; · simp at h
        simp only [Except.ok.injEq, Option.some.injEq] at h
        subst h
        rename_i hd hh ha hp
        have hg' : c.isGenesis = false := by simpa using hg
        refine ⟨hg', by simp_all [Integrity], by simp_all, by simpa using hh, ?_⟩
        have ha' : avkChain c q = true := by simpa using ha
        have hp' : paramsChain c q = true := by simpa using hp
        unfold avkChain at ha'; unfold paramsChain at hp'
        unfold absDiff at hd
        by_cases he : q.epoch = c.epoch
        · left; simp [he] at ha' hp'; exact ⟨he, ha', hp'⟩
        · simp [he] at ha' hp'
          right
          have hd' : ¬ (absDiff c.epoch q.epoch > 1) ∧ ¬ (q.epoch > c.epoch) := by
            constructor
            · intro hx; exact hd (Or.inl hx)
            · intro hx; exact hd (Or.inr hx)
          unfold absDiff at hd'
          split at hd'
          · exact absurd (by omega : q.epoch = c.epoch) he
          · exact ⟨by omega, ha', hp'⟩

theorem verifyChain_sound (retr : Nat → Option Cert) :
    ∀ fuel c, verifyChain retr fuel c = .ok () → Valid LinkSpec c := by
  intro fuel
  induction fuel with
  | zero => intro c h; simp [verifyChain] at h
  | succ fuel ih =>
    intro c h
    simp only [verifyChain] at h
    split at h
    · simp at h
    · rename_i hv
      obtain ⟨a, b, d⟩ := verifyCertificate_ok_none hv
      exact Valid.genesis c a b d
    · rename_i p hv
      obtain ⟨a, b, d, e, f⟩ := verifyCertificate_ok_some hv
      exact Valid.step c p a b d e f (ih p h)

/-- the code accepts a link to the *following* epoch -/
def gen : Cert :=
  { hash := 100, prevHash := 0, epoch := 1, avk := 7, params := 1
    nextAvk := some 7, nextParams := some 1, isGenesis := true
    contentHashOk := true, signedMsgOk := true, epochPartOk := true
    multiSigOk := false, genesisSigOk := true }
def later : Cert :=
  { hash := 200, prevHash := 100, epoch := 2, avk := 7, params := 1
    nextAvk := some 7, nextParams := some 1, isGenesis := false
    contentHashOk := true, signedMsgOk := true, epochPartOk := true
    multiSigOk := true, genesisSigOk := false }
def earlier : Cert := { later with hash := 300, prevHash := 200, epoch := 1 }
def retr0 : Nat → Option Cert := fun h => if h = 100 then some gen else if h = 200 then some later else none

/-- FIXED FINDING: the old verifier accepted a link to the following epoch; the current one rejects it -/
theorem forward_link_counterexample :
    verifyChainOld retr0 5 earlier = .ok () ∧ ¬ LinkSpec earlier later ∧
    verifyChain retr0 5 earlier = .error .missingEpoch := by
  refine ⟨rfl, ?_, rfl⟩
  unfold LinkSpec earlier later; simp

#print axioms verifyChain_sound
end Chain
