/-
C20 — executable model of the signer: the four-state machine of
`mithril-signer/src/runtime/state_machine.rs`, the runner steps it calls (`runner.rs`), the certifier
(`services/certifier.rs`: select first allowed, not yet signed entity; sign; PUBLISH, THEN MARK), the
epoch service (`services/epoch_service.rs`: protocol initializer looked up at aggregator epoch − 1,
`can_signer_sign_current_epoch`), the three sqlite stores (protocol initializers per epoch, stake
distributions per epoch, signed beacons) with their retention pruning, and an environment: the chain
seen by the signer, a fake aggregator with its own view of the epoch (registrations kept under the
recording epoch, served under the retrieval offsets), and a fault schedule.

Everything is a total function on plain data (no strings) so that runs can be evaluated by the kernel.
Key material is abstracted to a number: the n-th protocol initializer the signer generates has key `n`;
keys of other parties are whatever the scenario says. Whether a signature wins at least one lottery is a
cryptographic fact supplied with the tick (`lost`).
-/
namespace Signer

/-- `Epoch::SIGNER_RETRIEVAL_OFFSET = -1` -/
def retrieval (e : Nat) : Nat := e - 1
/-- `Epoch::NEXT_SIGNER_RETRIEVAL_OFFSET = 0` -/
def nextRetrieval (e : Nat) : Nat := e
/-- `Epoch::SIGNER_RECORDING_OFFSET = 1` -/
def recording (e : Nat) : Nat := e + 1
/-- `Epoch::SIGNER_SIGNING_OFFSET = 2` -/
def SIGNING : Nat := 2

inductive Disc where
  | msd | csd | cdb
  deriving DecidableEq, Repr

/-- a signed entity type with its beacon: `MithrilStakeDistribution(epoch)`,
`CardanoStakeDistribution(epoch)`, `CardanoDatabase(epoch, imm)` -/
structure Entity where
  disc : Disc
  epoch : Nat
  imm : Nat
  deriving DecidableEq, Repr

/-- the chain epoch at which an entity is offered for signature
(`get_epoch_when_signed_entity_type_is_signed`) -/
def Entity.signEpoch (x : Entity) : Nat :=
  match x.disc with
  | .csd => x.epoch + 1
  | _ => x.epoch

inductive Mach where
  | init
  | unreg (e : Nat)
  | ready (e : Nat)
  | notAble (e : Nat)
  deriving DecidableEq, Repr

/-- one signer registration as the aggregator keeps it: party (0 = the signer under test) and key -/
structure Reg where
  party : Nat
  key : Nat
  deriving DecidableEq, Repr

/-- `EpochData` of the signer's epoch service (in memory, lost on restart) -/
structure EpochData where
  epoch : Nat
  ini : Option Nat
  cur : List Reg
  next : List Reg
  allowed : List Disc
  deriving DecidableEq, Repr

/-- the signer's sqlite tables -/
structure Stores where
  inis : List (Nat × Nat)          -- protocol_initializer: epoch ↦ key
  stakes : List (Nat × Nat)        -- stake_pool: epoch ↦ version of the stake distribution
  signed : List (Nat × Entity)     -- signed_beacon: (epoch of the time point, entity)
  deriving DecidableEq, Repr

inductive Res where
  | none | ok | keep | crit
  deriving DecidableEq, Repr

/-- a signature received by the aggregator -/
structure Pub where
  entity : Entity
  key : Nat
  aggEpoch : Nat       -- epoch of the epoch data under which it was made
  chainEpoch : Nat
  stakeVer : Nat       -- stake distribution used to build the signer (stakes[aggEpoch − 1])
  deriving DecidableEq, Repr

/-- a `/register-signer` request sent by the signer -/
structure Post where
  recEpoch : Nat       -- recording epoch in the request
  key : Nat
  aggEpoch : Nat       -- aggregator epoch the signer had been told
  delivered : Bool     -- the aggregator stored it
  deriving DecidableEq, Repr

structure Env where
  epoch : Nat                       -- chain epoch seen by the signer's node
  imm : Nat
  stakeVer : Nat                    -- stake distribution the chain reports now
  aggEpoch : Nat                    -- chain epoch seen by the aggregator
  aggReg : List (Nat × Reg)         -- registrations by recording epoch, arrival order
  cfg : List (Nat × List Disc)      -- network configuration markers (epoch, enabled types)
  down : Bool                       -- aggregator answers 500 to everything
  roundClosed : Bool                -- `/register-signer` answers 550
  regFail : Bool                    -- `/register-signer` answers 500
  regDrop : Bool                    -- `/register-signer` answers 201 and forgets the request
  pubFail : Nat                     -- the next n `/register-signatures` requests answer 500
  markFail : Nat                    -- the next n `mark_beacon_as_signed` calls fail
  attempts : Nat                    -- publish attempts per tick (retry policy)
  retention : Option Nat            -- store_retention_limit
  nextKey : Nat
  deriving DecidableEq, Repr

structure State where
  mach : Mach
  data : Option EpochData
  st : Stores
  env : Env
  res : Res
  pubs : List Pub                   -- ghost: everything the aggregator received, in order
  posts : List Post                 -- ghost: every registration request
  saved : List Post                 -- ghost: every initializer written to the store
  deriving DecidableEq, Repr

/-! ### stores -/

def lookup (l : List (Nat × Nat)) (e : Nat) : Option Nat := (l.find? (fun p => p.1 == e)).map (·.2)

def isSigned (s : Stores) (x : Entity) : Bool := s.signed.any (fun r => r.2 == x)

/-- the three pruning tasks of the upkeep service, run with the chain epoch `t` -/
def prune (ret : Option Nat) (t : Nat) (s : Stores) : Stores :=
  match ret with
  | none => s
  | some l =>
    { signed := if t - l > 0 then s.signed.filter (fun r => decide (t - l ≤ r.1)) else s.signed
      stakes := s.stakes.filter (fun r => decide (t - l ≤ r.1))
      inis := s.inis.filter (fun r => decide (t - l ≤ r.1)) }

/-! ### aggregator -/

def regsFor (reg : List (Nat × Reg)) (e : Nat) : List Reg := (reg.filter (fun p => p.1 == e)).map (·.2)

/-- `get_marker_at_or_before` -/
def markerAt (cfg : List (Nat × List Disc)) (e : Nat) : Option (List Disc) :=
  cfg.foldl (fun acc m => if m.1 ≤ e then
      match acc with
      | none => some m
      | some (b : Nat × List Disc) => if b.1 ≤ m.1 then some m else some b
    else acc) none |>.map (·.2)

/-- allowed discriminants in `BTreeSet` order with the default `MithrilStakeDistribution` appended -/
def normAllowed (l : List Disc) : List Disc :=
  [Disc.msd, Disc.csd, Disc.cdb].filter (fun d => d == Disc.msd || l.contains d)

def entityOf (t imm : Nat) : Disc → Entity
  | .msd => ⟨.msd, t, 0⟩
  | .csd => ⟨.csd, t - 1, 0⟩
  | .cdb => ⟨.cdb, t, imm⟩

/-! ### the machine -/

inductive Event where
  | tick (lost : Bool)
  | restart
  | epochUp (stakeVer : Nat)          -- the signer's node enters the next epoch
  | aggEpochUp                        -- the aggregator's node enters the next epoch
  | immUp (n : Nat)
  | regOthers (rs : List Reg)         -- other parties register during the aggregator's epoch
  | setDown (b : Bool)
  | setRoundClosed (b : Bool)
  | setRegFail (b : Bool)
  | setRegDrop (b : Bool)
  | setPubFail (n : Nat)
  | setMarkFail (n : Nat)
  deriving DecidableEq, Repr

def keepErr (s : State) : State := { s with res := .keep }

/-- `Init`: read the time point, go to `Unregistered` -/
def tickInit (s : State) : State := { s with mach := .unreg s.env.epoch, res := .ok }

/-- `register_signer_to_aggregator` with the epoch data `d` in force; the flag says whether the caller goes on
(`Registered`) or returns with the state as it is (`RegistrationRoundNotYetOpened` / error) -/
def registerSigner (s : State) (d : EpochData) : State × Bool :=
  let r := recording d.epoch
  match lookup s.st.stakes r with
  | none => (keepErr s, false)
  | some _ =>
    match lookup s.st.inis r with
    | some _ => (s, true)
    | none =>
      let k := s.env.nextKey
      let env1 := { s.env with nextKey := k + 1 }
      if s.env.roundClosed then
        ({ s with env := env1, posts := s.posts ++ [⟨r, k, d.epoch, false⟩], mach := .unreg s.env.epoch, res := .ok }, false)
      else if s.env.regFail then
        (keepErr { s with env := env1, posts := s.posts ++ [⟨r, k, d.epoch, false⟩] }, false)
      else
        let delivered := !s.env.regDrop
        let env2 := { env1 with aggReg := if delivered then env1.aggReg ++ [(r, ⟨0, k⟩)] else env1.aggReg }
        let p : Post := ⟨r, k, d.epoch, delivered⟩
        ({ s with env := env2, posts := s.posts ++ [p], saved := s.saved ++ [p],
                  st := { s.st with inis := s.st.inis ++ [(r, k)] } }, true)

/-- `can_signer_sign_current_epoch` -/
def canSign (d : EpochData) : Bool :=
  match d.ini with
  | some k => d.cur.contains ⟨0, k⟩
  | none => false

/-- `update_stake_distribution(t)`: the chain's distribution is stored under `t + 1` unless something is there -/
def updStakes (s : State) : List (Nat × Nat) :=
  match lookup s.st.stakes (recording s.env.epoch) with
  | some _ => s.st.stakes
  | none => s.st.stakes ++ [(recording s.env.epoch, s.env.stakeVer)]

/-- `transition_from_unregistered_to_one_of_registered_states` after the epoch data `d` was fetched -/
def registerStep (s : State) (d : EpochData) : State :=
  let t := s.env.epoch
  -- update_stake_distribution(t), inform_epoch_settings
  let s1 : State := { s with st := { s.st with stakes := updStakes s }, data := some d }
  match registerSigner s1 d with
  | (s2, false) => s2
  | (s2, true) =>
    -- upkeep(t), can_sign_current_epoch
    { s2 with st := prune s.env.retention t s2.st, mach := if canSign d then .ready t else .notAble t, res := .ok }

/-- `Unregistered { epoch: e }` -/
def tickUnreg (s : State) (e : Nat) : State :=
  let t := s.env.epoch
  if e < t then { s with mach := .unreg t, res := .ok }
  else if s.env.down then keepErr s
  else if s.env.aggEpoch = 0 then keepErr s
  else
    let a := s.env.aggEpoch
    match (if e = 0 then none else markerAt s.env.cfg (retrieval e)) with
    | none => keepErr s
    | some enabled =>
      if a < e then { s with res := .ok }
      else
        let d : EpochData := { epoch := a, ini := lookup s.st.inis (retrieval a),
                               cur := regsFor s.env.aggReg (retrieval a), next := regsFor s.env.aggReg (nextRetrieval a),
                               allowed := normAllowed enabled }
        registerStep s d

def tickNotAble (s : State) (e : Nat) : State :=
  let t := s.env.epoch
  if e < t then { s with mach := .unreg t, res := .ok } else { s with res := .ok }

/-- first allowed entity that is not marked as signed -/
def beaconToSign (s : State) (d : EpochData) : Option Entity :=
  ((d.allowed.map (entityOf s.env.epoch s.env.imm)).filter (fun x => !isSigned s.st x)).head?

/-- `mark_beacon_as_signed` under the fault schedule -/
def mark (s : State) (x : Entity) : State :=
  if s.env.markFail > 0 then keepErr { s with env := { s.env with markFail := s.env.markFail - 1 } }
  else { s with st := { s.st with signed := s.st.signed ++ [(s.env.epoch, x)] }, res := .ok }

/-- publication under the fault schedule (retry policy: `attempts` requests per tick), then mark -/
def publishMark (s : State) (d : EpochData) (x : Entity) (k sv : Nat) : State :=
  if s.env.down then keepErr s
  else if s.env.pubFail < s.env.attempts then
    mark { s with env := { s.env with pubFail := s.env.pubFail - min s.env.pubFail s.env.attempts },
                  pubs := s.pubs ++ [⟨x, k, d.epoch, s.env.epoch, sv⟩] } x
  else keepErr { s with env := { s.env with pubFail := s.env.pubFail - min s.env.pubFail s.env.attempts } }

/-- `compute_message` (entity part, then the seed: next aggregate verification key) and
`compute_publish_single_signature` for the selected entity -/
def signEntity (s : State) (d : EpochData) (x : Entity) (lost : Bool) : State :=
  if x.disc == Disc.csd && (lookup s.st.stakes (x.epoch + 2)).isNone then keepErr s
  else if (lookup s.st.inis (nextRetrieval d.epoch)).isNone then keepErr s
  else if (lookup s.st.stakes (nextRetrieval d.epoch)).isNone then keepErr s
  else if d.next.isEmpty then keepErr s
  else
    match d.ini, lookup s.st.stakes (retrieval d.epoch) with
    | some k, some sv =>
      if d.cur.isEmpty then keepErr s
      else if lost then mark s x
      else publishMark s d x k sv
    | _, _ => keepErr s

/-- `ReadyToSign { epoch: e }` -/
def tickReady (s : State) (e : Nat) (lost : Bool) : State :=
  if e < s.env.epoch then { s with mach := .unreg s.env.epoch, res := .ok }
  else match s.data with
  | none => keepErr s
  | some d =>
    if d.allowed.contains Disc.csd && s.env.epoch == 0 then keepErr s else
    match beaconToSign s d with
    | none => { s with res := .ok }
    | some x => signEntity s d x lost

/-- `StateMachine::cycle` -/
def tick (s : State) (lost : Bool) : State :=
  match s.mach with
  | .init => tickInit s
  | .unreg e => tickUnreg s e
  | .notAble e => tickNotAble s e
  | .ready e => tickReady s e lost

def step (s : State) : Event → State
  | .tick lost => tick s lost
  | .restart => { s with mach := .init, data := none, res := .none }
  | .epochUp v => { s with env := { s.env with epoch := s.env.epoch + 1, stakeVer := v }, res := .none }
  | .aggEpochUp => { s with env := { s.env with aggEpoch := s.env.aggEpoch + 1 }, res := .none }
  | .immUp n => { s with env := { s.env with imm := s.env.imm + n }, res := .none }
  | .regOthers rs =>
    { s with env := { s.env with aggReg := s.env.aggReg ++ rs.map (fun r => (recording s.env.aggEpoch, r)) }, res := .none }
  | .setDown b => { s with env := { s.env with down := b }, res := .none }
  | .setRoundClosed b => { s with env := { s.env with roundClosed := b }, res := .none }
  | .setRegFail b => { s with env := { s.env with regFail := b }, res := .none }
  | .setRegDrop b => { s with env := { s.env with regDrop := b }, res := .none }
  | .setPubFail n => { s with env := { s.env with pubFail := n }, res := .none }
  | .setMarkFail n => { s with env := { s.env with markFail := n }, res := .none }

def run (s : State) (evs : List Event) : State := evs.foldl step s

def initEnv (epoch imm stakeVer : Nat) (cfg : List (Nat × List Disc)) (attempts : Nat) (retention : Option Nat) : Env :=
  { epoch, imm, stakeVer, aggEpoch := epoch, aggReg := [], cfg, down := false, roundClosed := false, regFail := false,
    regDrop := false, pubFail := 0, markFail := 0, attempts, retention, nextKey := 0 }

def initState (env : Env) : State :=
  { mach := .init, data := none, st := ⟨[], [], []⟩, env, res := .none, pubs := [], posts := [], saved := [] }

end Signer
