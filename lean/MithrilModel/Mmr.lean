/-! Transliteration of ckb-merkle-mountain-range 0.6.1 `MerkleProof::verify` (generic item type). -/
namespace Mmr

/-- `pos_height_in_tree` -/
def posHeightAux : Nat → Nat → Nat
  | 0, pos => pos
  | b + 1, pos =>
    let ps := 2 ^ (b + 1) - 1
    posHeightAux b (if pos ≥ ps then pos - ps else pos)

def bitLen (n : Nat) : Nat := if n = 0 then 0 else Nat.log2 n + 1

def posHeight (pos : Nat) : Nat := if pos = 0 then 0 else posHeightAux (bitLen pos) pos

/-- `get_peaks` -/
def getPeaksAux : Nat → Nat → Nat → List Nat
  | 0, _, _ => []
  | b + 1, pos, sum =>
    let ps := 2 ^ (b + 1) - 1
    if pos ≥ ps then (sum + ps - 1) :: getPeaksAux b (pos - ps) (sum + ps)
    else getPeaksAux b pos sum

def getPeaks (mmrSize : Nat) : List Nat :=
  if mmrSize = 0 then [] else getPeaksAux (bitLen mmrSize) mmrSize 0

variable {α : Type} (merge : α → α → α)

/-- `calculate_peak_root`; returns the peak root and the remaining proof items. -/
def peakRoot (peakPos : Nat) : Nat → List (Nat × α × Nat) → List α → Option (α × List α)
  | 0, _, _ => none
  | _ + 1, [], _ => none
  | fuel + 1, (pos, item, height) :: q, proof =>
    if pos = peakPos then
      (if q.isEmpty then some (item, proof) else none)
    else
      let nextHeight := posHeight (pos + 1)
      let sibOff := 2 ^ (height + 1) - 1
      if nextHeight > height then
        -- right sibling
        let sibPos := pos - sibOff
        let parentPos := pos + 1
        match q with
        | (p2, it2, h2) :: q' =>
          if p2 = sibPos then
            if parentPos ≤ peakPos then peakRoot peakPos fuel (q' ++ [(parentPos, merge it2 item, height + 1)]) proof
            else none
          else
            match proof with
            | [] => none
            | pi :: proof' =>
              if parentPos ≤ peakPos then
                peakRoot peakPos fuel ((p2, it2, h2) :: q' ++ [(parentPos, merge pi item, height + 1)]) proof'
              else none
        | [] =>
          match proof with
          | [] => none
          | pi :: proof' =>
            if parentPos ≤ peakPos then peakRoot peakPos fuel [(parentPos, merge pi item, height + 1)] proof'
            else none
      else
        -- left sibling
        let sibPos := pos + sibOff
        let parentPos := pos + 2 ^ (height + 1)
        match q with
        | (p2, it2, h2) :: q' =>
          if p2 = sibPos then
            if parentPos ≤ peakPos then peakRoot peakPos fuel (q' ++ [(parentPos, merge item it2, height + 1)]) proof
            else none
          else
            match proof with
            | [] => none
            | pi :: proof' =>
              if parentPos ≤ peakPos then
                peakRoot peakPos fuel ((p2, it2, h2) :: q' ++ [(parentPos, merge item pi, height + 1)]) proof'
              else none
        | [] =>
          match proof with
          | [] => none
          | pi :: proof' =>
            if parentPos ≤ peakPos then peakRoot peakPos fuel [(parentPos, merge item pi, height + 1)] proof'
            else none

/-- the loop over peaks of `calculate_peaks_hashes`; `leaves` sorted and deduplicated.
Returns the peak hashes (in order), the remaining leaves and the remaining proof items. -/
def peaksLoop (fuel : Nat) : List Nat → List (Nat × α) → List α → Option (List α × List (Nat × α) × List α)
  | [], leaves, proof => some ([], leaves, proof)
  | peakPos :: peaks, leaves, proof =>
    let mine := leaves.takeWhile (fun l => l.1 ≤ peakPos)
    let rest := leaves.dropWhile (fun l => l.1 ≤ peakPos)
    match mine with
    | [(p, x)] =>
      if p = peakPos then
        match peaksLoop fuel peaks rest proof with
        | none => none
        | some (hs, lv, pr) => some (x :: hs, lv, pr)
      else
        match peakRoot merge peakPos fuel [(p, x, 0)] proof with
        | none => none
        | some (r, proof') =>
          match peaksLoop fuel peaks rest proof' with
          | none => none
          | some (hs, lv, pr) => some (r :: hs, lv, pr)
    | [] =>
      match proof with
      | pi :: proof' =>
        match peaksLoop fuel peaks rest proof' with
        | none => none
        | some (hs, lv, pr) => some (pi :: hs, lv, pr)
      | [] => some ([], rest, [])          -- `break`
    | mine =>
      match peakRoot merge peakPos fuel (mine.map fun l => (l.1, l.2, 0)) proof with
      | none => none
      | some (r, proof') =>
        match peaksLoop fuel peaks rest proof' with
        | none => none
        | some (hs, lv, pr) => some (r :: hs, lv, pr)

/-- `bagging_peaks_hashes`: from the right, `merge right left` -/
def bagging : List α → Option α
  | [] => none
  | [x] => some x
  | x :: y :: r =>
    -- peaks_hashes = x :: y :: r ; pop right, pop left → we recurse on the reversed list
    none

def bagRev : List α → Option α
  | [] => none
  | [x] => some x
  | right :: left :: r => bagRev (merge right left :: r)
termination_by l => l.length

def dedupPos : List (Nat × α) → List (Nat × α)
  | [] => []
  | [x] => [x]
  | x :: y :: r => if y.1 = x.1 then dedupPos (x :: r) else x :: dedupPos (y :: r)
termination_by l => l.length

/-- insertion sort by position, stable (model of `sort_by_key`) -/
def insertPos (x : Nat × α) : List (Nat × α) → List (Nat × α)
  | [] => [x]
  | y :: r => if x.1 ≤ y.1 then x :: y :: r else y :: insertPos x r

def sortPos (l : List (Nat × α)) : List (Nat × α) := l.foldr (fun x acc => insertPos x acc) []

def calcRoot (fuel : Nat) (mmrSize : Nat) (leaves : List (Nat × α)) (proof : List α) : Option α :=
  if leaves.any (fun l => posHeight l.1 > 0) then none
  else if mmrSize = 1 ∧ leaves.length = 1 ∧ (leaves.head?.map (·.1)) = some 0 then leaves.head?.map (·.2)
  else
    let ls := dedupPos (sortPos leaves)
    match peaksLoop merge fuel (getPeaks mmrSize) ls proof with
    | none => none
    | some (hs, lv, pr) =>
      if ¬ lv.isEmpty then none
      else
        match pr with
        | [] => bagRev merge hs.reverse
        | [rhs] => bagRev merge (hs ++ [rhs]).reverse
        | _ => none

end Mmr

open Mmr in
#eval (List.range 20).map posHeight
open Mmr in
#eval getPeaks 19
open Mmr in
#eval getPeaks 8
-- string-concatenation merge to see shapes: 5 leaves a..e, mmr size 8; proof for leaf 1 (pos 1): items [a, H(cd), e]
open Mmr in
#eval calcRoot (fun a b => "(" ++ a ++ b ++ ")") 100 8 [(1, "b")] ["a", "(cd)", "e"]
open Mmr in
#eval calcRoot (fun a b => "(" ++ a ++ b ++ ")") 100 8 [(1, "b"), (1, "FAKE")] ["a", "(cd)", "e"]
open Mmr in
#eval calcRoot (fun a b => "(" ++ a ++ b ++ ")") 100 3 [(0, "(ab)")] ["(cd)"]
