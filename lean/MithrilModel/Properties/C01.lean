import MithrilModel.StmVerify
import MithrilModel.Properties.C09
import MithrilModel.Properties.C08
import Mathlib.Tactic.LinearCombination
import Mathlib.Tactic.Ring
/-!
# C01 — Multi-signature soundness: accepted aggregates carry a real stake quorum

Model: `StmVerify.verifyM` / `batchVerify` = `ConcatenationProof::{preliminary_verify, verify,
batch_verify}` (`mithril-stm/src/proof_system/concatenation/proof.rs`) and
`SingleSignatureForConcatenation::check_indices` (after the `fix:` commit: `index >= m` rejected).
The crypto facts are oracle inputs of the model: `won` (the lottery of C08 on the dense mapping of
sigma), the batch-path verdict (C09(a), proved sound there) and the BLS aggregate verdict.
-/
namespace C01
open StmVerify

/-- (1)-(4′) and the two oracle facts: an accepted aggregate carries at least `k` indices, all
pairwise distinct, every index in `[0, m)` and won (model lottery verdict for the claimed stake);
the batch path verified and the aggregate BLS check passed. -/
theorem C01_structural (E : Env) (bt : Nat) (sigs : List Sig) (h : verifyM E bt sigs = .ok) :
    E.k ≤ (allIdx sigs).length ∧ (allIdx sigs).Nodup ∧
    (∀ s ∈ sigs, ∀ i ∈ s.idxs, i < E.m ∧ E.won s.sigma i s.stake = true) ∧
    bt = 1 ∧ E.aggOk (sigs.map fun s => (s.vk, s.sigma)) = true :=
  verifyM_structural E bt sigs h

/-- (3) every index lies in [0, m) -/
theorem C01_index_lt_m (E : Env) (bt : Nat) (sigs : List Sig) (h : verifyM E bt sigs = .ok) :
    ∀ i ∈ allIdx sigs, i < E.m := by
  intro i hi
  obtain ⟨s, hs, his⟩ := List.mem_flatMap.mp hi
  exact ((verifyM_structural E bt sigs h).2.2.1 s hs i his).1

/-- FIXED FINDING: the old bound test let index `m` through -/
theorem C01_index_eq_m_counterexample_prefix :
    checkIndicesOld E0 { sigma := 1, idxs := [0, 1, 5], vk := 0, stake := 1 } [0, 1, 5] = .ok () ∧
    checkIndices E0 { sigma := 1, idxs := [0, 1, 5], vk := 0, stake := 1 } [0, 1, 5] = .error .indexBound :=
  index_eq_m_counterexample

/-- (5) membership: the batch-path verdict the model consumes is sound (C09(a)) -/
def C01_membership := @C09.C09_stm_sound

/-- (4) the lottery verdict is exact/monotone as proved in C08 -/
def C01_lottery_true_correct := @C08.C08_true_correct

/-- batch: a batch is accepted only if every member passes the preliminary verification … -/
theorem C01_batch (ms : List (Env × Nat × List Sig)) (final : Bool) (h : batchVerify ms final = .ok) :
    ∀ mbr ∈ ms, preliminaryM mbr.1 mbr.2.1 mbr.2.2 = .ok := batchVerify_members ms final h

/-- … hence, given its own BLS aggregate check, each member would be accepted alone -/
theorem C01_batch_member_alone (ms : List (Env × Nat × List Sig)) (final : Bool)
    (h : batchVerify ms final = .ok) (mbr : Env × Nat × List Sig) (hm : mbr ∈ ms)
    (hagg : mbr.1.aggOk (mbr.2.2.map fun s => (s.vk, s.sigma)) = true) :
    verifyM mbr.1 mbr.2.1 mbr.2.2 = .ok :=
  verifyM_of_preliminary _ _ _ (batchVerify_members ms final h mbr hm) hagg

/-- (6), the algebra behind the aggregate check: `verify_aggregate` tests ONE pairing equation on
`Σ eᵢ·σᵢ` and `Σ eᵢ·vkᵢ` with hash-derived 128-bit coefficients `eᵢ`. Writing `δᵢ` for the discrete-log
"error" of signature `i` (0 iff it is valid for its key), the equation holds iff `Σ eᵢ·δᵢ = 0`. If some
`δⱼ ≠ 0`, then for fixed other coefficients at most ONE value of `eⱼ` passes — so an invalid signature
survives only with probability 2⁻¹²⁸ over the (random-oracle) choice of `eⱼ`. The probabilistic step itself
is an assumption of the trusted base; this lemma is its deterministic core, over any field. -/
theorem C01_agg_bad_coeff_unique {F : Type} [Field F] (δj rest e e' : F) (hδ : δj ≠ 0)
    (h1 : rest + e * δj = 0) (h2 : rest + e' * δj = 0) : e = e' := by
  have : (e - e') * δj = 0 := by linear_combination h1 - h2
  rcases mul_eq_zero.mp this with h | h
  · exact sub_eq_zero.mp h
  · exact absurd h hδ

/-- non-vacuity: a concrete aggregate is accepted -/
example : verifyM E0 1 [{ sigma := 1, idxs := [0, 1, 4], vk := 0, stake := 1 }] = .ok := by decide

end C01
