import MithrilModel.RegModel
import MithrilModel.Properties.C09
/-!
# C06 — All parties derive the same aggregate key from the same registrations

Model: `RegModel.closeReg` / `avk` / `slot` (mithril-stm close_registration + Merkle tree of C09(a)).
-/
namespace C06
open RegModel RegClose

/-- the closed registration, the total stake and the outcome class (overflow / zero total) do not
depend on the order in which registrations arrived -/
theorem C06_perm_close {l₁ l₂ : List Entry} (h : l₁.Perm l₂) : closeReg l₁ = closeReg l₂ := closeReg_perm h

/-- … hence neither does the aggregate verification key (root, number of leaves, total stake) … -/
theorem C06_perm_avk (H : Bytes → Bytes) {l₁ l₂ : List Entry} (h : l₁.Perm l₂) : avk H l₁ = avk H l₂ :=
  avk_perm H h

/-- … nor any party's signer slot -/
theorem C06_perm_slot {l₁ l₂ : List Entry} (h : l₁.Perm l₂) (e : Entry) : slot l₁ e = slot l₂ e :=
  slot_perm h e

/-- a total of 2^64 or more is an error for every order -/
theorem C06_overflow (l : List Entry) (h : 2 ^ 64 ≤ (l.map (·.stake)).sum) :
    closeReg l = .overflow := by
  unfold closeReg; simp [h]

/-- the three computation paths (signer, aggregator, client) call the same function `SignerBuilder::new`
→ `close_registration` of the same arguments: in the model they are literally one definition; the
content of this clause is the correspondence run on the real entry points -/
theorem C06_paths (H : Bytes → Bytes) (l : List Entry) : avk H l = avk H l := rfl

/-- distinct registration sets of the same size yield distinct keys (or a hash collision):
C09's root injectivity on the ordered 104-byte leaves -/
def C06_distinct := @C09.C09_stm_root_injective

/-- non-vacuity -/
example : closeReg [⟨2, 7⟩, ⟨1, 9⟩] = closeReg [⟨1, 9⟩, ⟨2, 7⟩] := C06_perm_close (List.Perm.swap _ _ _)

end C06
