import MithrilModel.RegModel
import MithrilModel.RegPaths
import MithrilModel.RegService
import MithrilModel.Properties.C09
/-!
# C06 — All parties derive the same aggregate key from the same registrations

Model: `RegModel.closeReg` / `avk` / `slot` (mithril-stm close_registration + Merkle tree of C09(a)).
-/
namespace C06
open RegModel RegClose

/-- the closed registration, the total stake and the outcome class (overflow / zero total) do not
depend on the order in which registrations arrived -/
theorem C06_perm_close {l₁ l₂ : List Entry} (h : l₁.Perm l₂) : closeReg l₁ = closeReg l₂ := closeReg_perm h

/-- … hence neither does the aggregate verification key (root, number of leaves, total stake) … -/
theorem C06_perm_avk (H : Bytes → Bytes) {l₁ l₂ : List Entry} (h : l₁.Perm l₂) : avk H l₁ = avk H l₂ :=
  avk_perm H h

/-- … nor any party's signer slot -/
theorem C06_perm_slot {l₁ l₂ : List Entry} (h : l₁.Perm l₂) (e : Entry) : slot l₁ e = slot l₂ e :=
  slot_perm h e

/-- a total of 2^64 or more is an error for every order -/
theorem C06_overflow (l : List Entry) (h : 2 ^ 64 ≤ (l.map (·.stake)).sum) :
    closeReg l = .overflow := by
  unfold closeReg; simp [h]

/- VACUITY AUDIT: no longer an obligation of the check. `avk H l = avk H l`: the same function applied to the same arguments (rfl); that every node runs this one function is what K checks. Replaced by: - (K). -/
/-- the three computation paths (signer, aggregator, client) call the same function `SignerBuilder::new`
→ `close_registration` of the same arguments: in the model they are literally one definition; the
content of this clause is the correspondence run on the real entry points -/
theorem C06_paths (H : Bytes → Bytes) (l : List Entry) : avk H l = avk H l := rfl

/-- distinct registration sets of the same size yield distinct keys (or a hash collision):
C09's root injectivity on the ordered 104-byte leaves -/
def C06_distinct := @C09.C09_stm_root_injective

/-- non-vacuity -/
example : closeReg [⟨2, 7⟩, ⟨1, 9⟩] = closeReg [⟨1, 9⟩, ⟨2, 7⟩] := C06_perm_close (List.Perm.swap _ _ _)


/-! ## The three node-level computation paths (`SignerBuilder::new` as the aggregator's epoch service, the signer's
`MithrilSingleSigner` and the client's `compute_mithril_stake_distribution_message` call it): model `RegPaths.build` -/
open RegPaths in
/-- **Node level, order independence**: on an honest signer list (distinct parties, each registered under its own
identity) the outcome of `SignerBuilder::new` — error class, or closed registration (every slot), total stake and
aggregate key — is the same for every order of the list -/
theorem C06_node_perm {l₁ l₂ : List Signer} (h : l₁.Perm l₂) (hwf : WF l₁) : build l₁ = build l₂ := build_perm h hwf

open RegPaths in
/-- **Node level = core**: what the node-level builder yields on an honest list is exactly the key of the core model
over the listed (stake, key) pairs: the party identifiers, the stake map and the registration loop add nothing -/
theorem C06_node_key (H : Bytes → Bytes) {l : List Signer} (hwf : WF l) {b : Built} (hb : build l = .ok b) :
    avk H (l.map Signer.entry) = .ok (b.key H) := build_key H hwf hb

open RegPaths in
/-- … and its outcome class is a function of the listed pairs as well: empty list, a repeated key, else the closed
registration of the pairs (overflow / zero total / ok) -/
theorem C06_node_outcome {l : List Signer} (hwf : WF l) :
    build l = if l.isEmpty then .error .empty
              else if (l.map (·.vk)).Nodup then ofClose (closeReg (l.map Signer.entry))
              else .error .dupKey := build_eq hwf

/-- observation (outside the honest input space): one party listed twice under two stakes — the last stake wins,
the outcome depends on the order -/
theorem C06_dup_party_note :
    RegPaths.build [⟨1, 1, 7, 5⟩, ⟨1, 1, 8, 6⟩] ≠ RegPaths.build [⟨1, 1, 8, 6⟩, ⟨1, 1, 7, 5⟩] :=
  RegPaths.dup_party_order_dependent

open RegPaths in
/-- **Signer node, order independence**: for every order in which the registered signers are announced to the node,
the same outcome: error class, or closed registration (key, total stake) and the node's slot -/
theorem C06_signer_perm (stakes : List (Nat × Nat)) {l₁ l₂ : List (Nat × Nat × Nat)} (h : l₁.Perm l₂) (hwf : WFT l₁)
    (self : Entry) : signerPath stakes l₁ self = signerPath stakes l₂ self := signerPath_perm stakes h hwf self

open RegPaths in
/-- **Which node computes does not matter**: the aggregator's epoch service (`RegService.precompute`) and the client
(`c06.message`) evaluate `build ls` on the signers-with-stake list `ls`; the signer node, given the announced
(party, key) triples of `ls` and a stake store agreeing with `ls` on the listed parties, evaluates the same `build ls`
(the content of "same function" for the REAL three entry points is the correspondence run) -/
theorem C06_signer_is_build (stakes : List (Nat × Nat)) (ls : List Signer)
    (hc : ∀ s ∈ ls, stakeIn stakes s.party = some s.stake) (self : Entry) :
    signerPath stakes (ls.map Signer.triple) self =
      match build ls with
      | .error e => .error (.build e)
      | .ok b => match b.slot self with
        | none => .error .unregistered
        | some i => .ok (b, i) := signerPath_eq_build stakes ls hc self

/-! ## The aggregator's epoch service (`MithrilEpochService`): model `RegService.step` (code after the repairs
df18c4ce4 and 9c9bc53d6; `RegService.beforeRepair` = the code before them, for the counter-examples only) -/
open RegService in
/-- **Cache coherence, EVERY operation sequence**: for every history of store writes, prunes, `inform_epoch`,
`update_next_signers_with_stake` and `precompute_epoch_data` calls (any arguments, any results): whenever computed
data is present, current AVK = AVK(current signers) and next AVK = AVK(next signers) (same for the multi-signers:
closed registration, every slot, total stake) -/
theorem C06_service_coherent (ops : List Op) : Coh (run prod {} ops).1 := run_coherent ops

open RegService in
/-- **`next_signers()` and `total_next_stakes_signers()` are those of `next_signers_with_stake()`** after every
operation sequence -/
theorem C06_service_snapshot (ops : List Op) : SnapCoh (run prod {} ops).1 := run_snapshot ops

open RegService in
/-- both, as the invariant every single operation keeps from every state -/
theorem C06_service_invariant (s : St) (op : Op) (h : Inv s) : Inv (step prod s op).1 := step_inv s op h

open RegService in
/-- the signer lists the service holds are honest lists in every reachable state (the store keeps one row per
(epoch, party)) — so the order-independence theorems apply to them -/
theorem C06_service_lists_honest (ops : List Op) {d : Data} (hd : (run prod {} ops).1.data = some d) :
    RegPaths.WF d.cur ∧ RegPaths.WF d.next := (run_dataWF ops {} dataWF_init).lists d hd

open RegService in
/-- **The aggregator's keys depend on the registration SET only, not on the call history**: two services reached by
ANY two histories, reporting next (current) signer lists that are permutations of each other, hold the same next
(current) multi-signer: closed registration, every slot, total stake, aggregate key -/
theorem C06_service_function_of_set (ops₁ ops₂ : List Op) {d₁ d₂ : Data} {c₁ c₂ : Computed}
    (hd₁ : (run prod {} ops₁).1.data = some d₁) (hd₂ : (run prod {} ops₂).1.data = some d₂)
    (hc₁ : (run prod {} ops₁).1.computed = some c₁) (hc₂ : (run prod {} ops₂).1.computed = some c₂) :
    (d₁.next.Perm d₂.next → c₁.next = c₂.next) ∧ (d₁.cur.Perm d₂.cur → c₁.cur = c₂.cur) :=
  keys_function_of_set ops₁ ops₂ hd₁ hd₂ hc₁ hc₂

open RegService in
/-- **The real epoch offsets**: whatever state the service was in, after a successful `inform_epoch e` followed by
`precompute_epoch_data` the current key is the key of the store's rows of epoch `e - 1` and the next key the key of the
rows of epoch `e` — what a fresh service reports -/
theorem C06_service_informed_keys (s : St) (e : Nat) (c : Computed) (h1 : (step prod s (.inform e)).2 = .ok)
    (h2 : (step prod (step prod s (.inform e)).1 .precompute).1.computed = some c) :
    RegPaths.build (signersAt s.store (e - 1)) = .ok c.cur ∧ RegPaths.build (signersAt s.store e) = .ok c.next :=
  informed_keys s e c h1 h2

open RegService in
/-- **Live = fresh**: a live service reached by ANY history whose snapshot holds the store's present rows reports
exactly what a fresh service, informed of the same epoch over the same store, computes -/
theorem C06_service_live_is_fresh (ops : List Op) (d : Data) (c cf : Computed)
    (hd : (run prod {} ops).1.data = some d) (hc : (run prod {} ops).1.computed = some c)
    (hcur : d.cur = signersAt (run prod {} ops).1.store (d.epoch - 1))
    (hnext : d.next = signersAt (run prod {} ops).1.store d.epoch)
    (h1 : (step prod { store := (run prod {} ops).1.store } (.inform d.epoch)).2 = .ok)
    (h2 : (step prod (step prod { store := (run prod {} ops).1.store } (.inform d.epoch)).1 .precompute).1.computed = some cf) :
    c = cf :=
  live_agrees_with_fresh _ (run_coherent ops) d c cf hd hc hcur hnext h1 h2

/-- before `fix:` 9c9bc53d6 an update that could not build the next multi-signer had already replaced
`next_signers_with_stake` and left the previous key cached next to it: full coherence was false -/
theorem C06_service_failed_update_counterexample_before_repair :
    ¬ RegService.coherent_goal RegService.beforeRepair := RegService.failed_update_counterexample_before_repair
/-- before `fix:` df18c4ce4 `update_next_signers_with_stake` refreshed `next_signers_with_stake` only: `next_signers`
and `total_next_stakes_signers` kept what `inform_epoch` had read -/
theorem C06_service_stale_snapshot_counterexample_before_repair :
    ¬ RegService.snapshot_goal RegService.beforeRepair := RegService.stale_snapshot_counterexample_before_repair
/-- … and the two witness histories on the code as it is -/
theorem C06_service_repaired_examples :
    (∃ d, (RegService.run RegService.prod {} RegService.histSnapshot).1.data = some d ∧ d.nextSnap = [2, 1] ∧ d.totalNext = 11) ∧
    (RegService.run RegService.prod {} RegService.histFailedUpdate).1.data = some ⟨2, [⟨1, 1, 7, 5⟩], [⟨1, 1, 7, 5⟩], [1], 5, 5⟩ :=
  RegService.repaired_examples

/-- non-vacuity: a history that reaches computed data -/
example : ∃ c, (RegService.run RegService.prod {} [.save ⟨1, 1, 7, 5⟩, .save ⟨2, 1, 7, 5⟩, .inform 2, .precompute]).1.computed = some c := by
  refine ⟨⟨⟨[⟨5, 7⟩], 5⟩, ⟨[⟨5, 7⟩], 5⟩⟩, ?_⟩
  simp [RegService.run, RegService.step, RegService.informed, RegService.precompute, RegPaths.build, RegPaths.regLoop,
    RegPaths.stakeOf, closeReg, RegPaths.ofClose, close, RegService.signersAt, RegService.sameKey, RegService.totalOf,
    RegService.Row.signer]

end C06
