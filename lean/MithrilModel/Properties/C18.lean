import MithrilModel.Pool
/-!
# C18 — A pooled Merkle-map cache never serves data from a superseded generation

Model: `Pool.step` — `internal/mithril-resource-pool/src/resource_pool.rs` at API-call
granularity (after the two `fix:` commits every public call is a single critical section
with respect to the queue; `set_discriminant` touches only the discriminant).
`trueGen` is ghost state: the generation a resource was built for.
-/
namespace C18
open Pool

/-- Bounded: for every pool size, every initial content within the bound and EVERY sequence of
calls (any users, any order, well-formed or not) the pool never holds more than `size`. -/
theorem C18_bounded (s : St) (h : Bounded s) (ops : List Op) : Bounded (ops.foldl step s) :=
  run_bounded s h ops

/-- Fresh: in every state reachable by any interleaving of acquire / explicit give-back /
drop / refill / clear / reset by any number of users, with refreshes whose two calls are adjacent,
every pooled resource belongs to the current generation, the bound holds, and every checked-out
item is tagged with the generation of its resource. -/
theorem C18_fresh (s0 s : St) (h0 : Inv s0) (hr : Reach s0 s) :
    Fresh s ∧ Bounded s ∧ (∀ x ∈ s.held, x.2.tag = x.2.res.trueGen ∧ x.2.tag ≤ s.disc) :=
  reach_inv s0 s h0 hr

/-- every resource handed out in such a state belongs to the current generation -/
theorem C18_handout_fresh (s0 s : St) (h0 : Inv s0) (hr : Reach s0 s) (tid : Nat) (it : Item)
    (h : lookupHeld tid (step s (.acquire tid)).held = some it) (hne : s.queue ≠ []) :
    it.res.trueGen = s.disc := acquire_fresh s0 s h0 hr tid it h hne

/-- a resource checked out under an older generation is never re-admitted, by either way of
returning it (explicit give-back and drop are the same function of the item's own tag) -/
theorem C18_stale_not_readmitted (s : St) (tid : Nat) (it : Item)
    (hl : lookupHeld tid s.held = some it) (hst : it.tag ≠ s.disc) :
    (step s (.giveBackItem tid)).queue = s.queue ∧ (step s (.dropItem tid)).queue = s.queue := by
  have hne : s.disc ≠ it.tag := fun h => hst h.symm
  constructor <;> simp [step, hl, giveBackRes, hne]

/-- **the full statement, for the protocol the provers follow after the `fix:` commit**: every interleaving
of acquire / explicit give-back / drop / refill / clear / reset / `start_new_generation` by any number of
users, in any order — no adjacency condition any more — keeps every pooled resource in the current
generation, the bound, and the tag of every checked-out item equal to its resource's generation. -/
theorem C18_fresh_every_interleaving (s0 : St) (h0 : Inv s0) (ops : List Op) (hok : ∀ op ∈ ops, OpOk op) :
    Fresh (ops.foldl step s0) ∧ Bounded (ops.foldl step s0) ∧
    (∀ x ∈ (ops.foldl step s0).held, x.2.tag = x.2.res.trueGen ∧ x.2.tag ≤ (ops.foldl step s0).disc) :=
  run_inv s0 h0 ops hok

/-- FIXED FINDING (tag race): with the two-call refresh the provers used before the `fix:` commit
(`set_discriminant(n+1)` then `clear()`, which the pool's API still offers) the statement was false: an
`acquire` between the two calls tags an old resource with the new discriminant. -/
def C18_fresh_full_goal : Prop :=
  ∀ ops : List Op, (∀ op ∈ ops, match op with | .giveBack r d => r.trueGen = d | _ => True) →
    Fresh (ops.foldl step init)

theorem C18_tag_race_counterexample : ¬ C18_fresh_full_goal := by
  intro h
  exact tag_race_counterexample (h [Op.setDisc 1, .acquire 0, .clear, .dropItem 0] (by simp))

/-- FIXED FINDING (kept as documentation): before the fix an explicit give-back re-admitted
a resource of a superseded generation. -/
theorem C18_item_giveback_counterexample_prefix :
    ¬ Fresh ([Op.acquire 0, .setDisc 1, .clear, .giveBackItem 0, .giveBack ⟨1⟩ 1, .giveBack ⟨1⟩ 1].foldl stepOld init) :=
  item_giveback_counterexample

/-- and the same history is fine for the code as it is now -/
theorem C18_item_giveback_fixed :
    Fresh ([Op.acquire 0, .setDisc 1, .clear, .giveBackItem 0, .giveBack ⟨1⟩ 1, .giveBack ⟨1⟩ 1].foldl step init) := by
  intro r hr
  revert r
  decide

/-- the racing history with the one-step generation change: the old resource is refused -/
theorem C18_tag_race_repaired :
    Fresh ([Op.acquire 0, .newGen, .dropItem 0, .giveBack ⟨1⟩ 1].foldl step init) := by
  intro r hr
  revert r
  decide

/-- non-vacuity: the initial state of the examples satisfies the invariant and a refresh is reachable -/
example : Inv init ∧ Reach init (step (step init (.setDisc 1)) .clear) :=
  ⟨⟨by intro r hr; revert r; decide, by decide, by intro x hx; cases hx⟩,
   Reach.refresh init 1 Reach.init (by decide)⟩

end C18
