import MithrilModel.Pool
import MithrilModel.PoolWake
/-!
# C18 — A pooled Merkle-map cache never serves data from a superseded generation

Model: `Pool.step` — `internal/mithril-resource-pool/src/resource_pool.rs` at API-call
granularity (after the two `fix:` commits every public call is a single critical section
with respect to the queue; `set_discriminant` touches only the discriminant).
`trueGen` is ghost state: the generation a resource was built for.
-/
namespace C18
open Pool

/-- Bounded: for every pool size, every initial content within the bound and EVERY sequence of
calls (any users, any order, well-formed or not) the pool never holds more than `size`. -/
theorem C18_bounded (s : St) (h : Bounded s) (ops : List Op) : Bounded (ops.foldl step s) :=
  run_bounded s h ops

/-- Fresh: in every state reachable by any interleaving of acquire / explicit give-back /
drop / refill / clear / reset by any number of users, with refreshes whose two calls are adjacent,
every pooled resource belongs to the current generation, the bound holds, and every checked-out
item is tagged with the generation of its resource. -/
theorem C18_fresh (s0 s : St) (h0 : Inv s0) (hr : Reach s0 s) :
    Fresh s ∧ Bounded s ∧ (∀ x ∈ s.held, x.2.tag = x.2.res.trueGen ∧ x.2.tag ≤ s.disc) :=
  reach_inv s0 s h0 hr

/-- every resource handed out in such a state belongs to the current generation -/
theorem C18_handout_fresh (s0 s : St) (h0 : Inv s0) (hr : Reach s0 s) (tid : Nat) (it : Item)
    (h : lookupHeld tid (step s (.acquire tid)).held = some it) (hne : s.queue ≠ []) :
    it.res.trueGen = s.disc := acquire_fresh s0 s h0 hr tid it h hne

/-- a resource checked out under an older generation is never re-admitted, by either way of
returning it (explicit give-back and drop are the same function of the item's own tag) -/
theorem C18_stale_not_readmitted (s : St) (tid : Nat) (it : Item)
    (hl : lookupHeld tid s.held = some it) (hst : it.tag ≠ s.disc) :
    (step s (.giveBackItem tid)).queue = s.queue ∧ (step s (.dropItem tid)).queue = s.queue := by
  have hne : s.disc ≠ it.tag := fun h => hst h.symm
  constructor <;> simp [step, hl, giveBackRes, hne]

/-- **the full statement, for the protocol the provers follow after the `fix:` commit**: every interleaving
of acquire / explicit give-back / drop / refill / clear / reset / `start_new_generation` by any number of
users, in any order — no adjacency condition any more — keeps every pooled resource in the current
generation, the bound, and the tag of every checked-out item equal to its resource's generation. -/
theorem C18_fresh_every_interleaving (s0 : St) (h0 : Inv s0) (ops : List Op) (hok : ∀ op ∈ ops, OpOk op) :
    Fresh (ops.foldl step s0) ∧ Bounded (ops.foldl step s0) ∧
    (∀ x ∈ (ops.foldl step s0).held, x.2.tag = x.2.res.trueGen ∧ x.2.tag ≤ (ops.foldl step s0).disc) :=
  run_inv s0 h0 ops hok

/-- FIXED FINDING (tag race): with the two-call refresh the provers used before the `fix:` commit
(`set_discriminant(n+1)` then `clear()`, which the pool's API still offers) the statement was false: an
`acquire` between the two calls tags an old resource with the new discriminant. -/
def C18_fresh_full_goal : Prop :=
  ∀ ops : List Op, (∀ op ∈ ops, match op with | .giveBack r d => r.trueGen = d | _ => True) →
    Fresh (ops.foldl step init)

theorem C18_tag_race_counterexample : ¬ C18_fresh_full_goal := by
  intro h
  exact tag_race_counterexample (h [Op.setDisc 1, .acquire 0, .clear, .dropItem 0] (by simp))

/-- FIXED FINDING (kept as documentation): before the fix an explicit give-back re-admitted
a resource of a superseded generation. -/
theorem C18_item_giveback_counterexample_prefix :
    ¬ Fresh ([Op.acquire 0, .setDisc 1, .clear, .giveBackItem 0, .giveBack ⟨1⟩ 1, .giveBack ⟨1⟩ 1].foldl stepOld init) :=
  item_giveback_counterexample

/-- and the same history is fine for the code as it is now -/
theorem C18_item_giveback_fixed :
    Fresh ([Op.acquire 0, .setDisc 1, .clear, .giveBackItem 0, .giveBack ⟨1⟩ 1, .giveBack ⟨1⟩ 1].foldl step init) := by
  intro r hr
  revert r
  decide

/-- the racing history with the one-step generation change: the old resource is refused -/
theorem C18_tag_race_repaired :
    Fresh ([Op.acquire 0, .newGen, .dropItem 0, .giveBack ⟨1⟩ 1].foldl step init) := by
  intro r hr
  revert r
  decide

/-- non-vacuity: the initial state of the examples satisfies the invariant and a refresh is reachable -/
example : Inv init ∧ Reach init (step (step init (.setDisc 1)) .clear) :=
  ⟨⟨by intro r hr; revert r; decide, by decide, by intro x hx; cases hx⟩,
   Reach.refresh init 1 Reach.init (by decide)⟩

/-! ## `C18_wake` — blocking `acquire_resource`, `notify_one`, time-outs (`MithrilModel/PoolWake.lean`) -/

/-- **C18_wake (T2), safety form.** For every initial pool and every finite interleaving of the steps that
`std::sync::{Mutex, Condvar}` allow (G1–G4 of `PoolWake`), by any number of threads: never is a resource queued while a
thread is blocked in `wait_timeout` and no notification is pending. -/
theorem C18_wake (p : Pool.St) (ops : List PoolWake.Op) (hstd : ∀ op ∈ ops, PoolWake.StdOp op) :
    ¬ PoolWake.Stuck (PoolWake.run (PoolWake.start p) ops) := PoolWake.wake_safe p ops hstd

/-- quantitative form: while a thread is blocked, at least as many notifications are pending as resources are queued -/
theorem C18_wake_counts (p : Pool.St) (ops : List PoolWake.Op) (hstd : ∀ op ∈ ops, PoolWake.StdOp op) :
    (PoolWake.run (PoolWake.start p) ops).parked ≠ [] →
    (PoolWake.run (PoolWake.start p) ops).pool.queue.length ≤ (PoolWake.run (PoolWake.start p) ops).woken.length :=
  PoolWake.wake_counts p ops hstd

/-- no lost wake-up: a thread that has found the queue empty and has not parked yet holds the mutex — every call that
touches the queue is blocked, and the queue is still empty — in every reachable state -/
theorem C18_wake_no_lost_wakeup (p : Pool.St) (ops : List PoolWake.Op) (hstd : ∀ op ∈ ops, PoolWake.StdOp op) (t : Nat)
    (ho : (PoolWake.run (PoolWake.start p) ops).owner = some t) :
    (PoolWake.run (PoolWake.start p) ops).pool.queue = [] ∧
    ∀ pop pick, (∀ d, pop ≠ .setDisc d) →
      PoolWake.stepCall (PoolWake.run (PoolWake.start p) ops) pop pick = PoolWake.run (PoolWake.start p) ops :=
  ⟨PoolWake.queue_empty_until_parked p ops hstd t ho,
   fun pop pick h => (PoolWake.no_call_between_check_and_park _ t ho pop pick).2 h⟩

/-- the time-out of a blocked thread is enabled in every state -/
theorem C18_wake_timeout_enabled (s : PoolWake.St) (t : Nat) (h : t ∈ s.parked) :
    (PoolWake.step s (.timeout t)).parked.length + 1 = s.parked.length ∧
    (PoolWake.step s (.timeout t)).expired = t :: s.expired ∧ (PoolWake.step s (.timeout t)).pool = s.pool :=
  PoolWake.timeout_enabled s t h

/-- … and the time-outs lead out of the excluded state from ANY state, the queued resources staying in the pool -/
theorem C18_wake_timeouts_unstick (s : PoolWake.St) :
    ¬ PoolWake.Stuck (PoolWake.run s (s.parked.map .timeout)) ∧
    (PoolWake.run s (s.parked.map .timeout)).pool = s.pool := PoolWake.timeouts_unstick s

/-- freshness, bound and tags (C18_fresh_every_interleaving) along every run with blocking acquires -/
theorem C18_wake_fresh (p : Pool.St) (h : Inv p) (ops : List PoolWake.Op)
    (hok : ∀ pop pick, PoolWake.Op.call pop pick ∈ ops → OpOk pop) :
    Inv (PoolWake.run (PoolWake.start p) ops).pool := PoolWake.run_pool_inv (PoolWake.start p) h ops hok

/-- without the atomicity of unlock-and-block (G2) a wake-up is lost -/
theorem C18_wake_lost_wakeup_without_atomic_wait :
    PoolWake.Stuck (PoolWake.run (PoolWake.start PoolWake.p0) PoolWake.lostWakeupTrace) :=
  PoolWake.lostWakeup_without_G2

/-- COUNTER-EXAMPLE outside Linux: if a notified waiter may report a time-out (POSIX `pthread_cond_timedwait`), the
safety form is false for this code — `acquire_resource` returns on `timed_out()` without looking at the queue -/
theorem C18_wake_posix_counterexample : ¬ PoolWake.wake_goal_posix := PoolWake.wake_goal_posix_false

/-- non-vacuity: a std run with two blocked threads, two refills, both served -/
example : (∀ op ∈ ([.call (.acquire 1) 0, .park 1, .call (.giveBack ⟨0⟩ 0) 1, .resume 1] : List PoolWake.Op), PoolWake.StdOp op) ∧
    (PoolWake.run (PoolWake.start PoolWake.p0)
      [.call (.acquire 1) 0, .park 1, .call (.giveBack ⟨0⟩ 0) 1, .resume 1]).pool.held = [(1, ⟨⟨0⟩, 0⟩)] := by decide

end C18
